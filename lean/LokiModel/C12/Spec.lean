import LokiModel.C12.Model
/-!
# C12 abstract specification: scopes as mappings keyed by the case-folded name

Written from the property statement, not from the code: every scope is a total function
`folded name → Option value`; all operations address the entry by `fold key`, whatever the spelling; look-ups
find the innermost declaration along the parent chain; `setdefault`, `pop` return the value like a Python mapping;
`clone` keeps content and (unless overridden) parent; re-parenting sets the one parent a scope has.

`abs` maps a concrete state of the model to a specification state.  (Before the `fix:` commits the code deviated on
four decidable classes of (state, op) pairs; see `LokiModel/Findings/C12.lean` and notes/C12.md.)
-/
namespace LokiModel.C12

abbrev AMap := Name → Option Nat

def AMap.upd (m : AMap) (k : Name) (v : Nat) : AMap := fun n => if n = k then some v else m n
def AMap.del (m : AMap) (k : Name) : AMap := fun n => if n = k then none else m n

structure ATab where
  map : AMap
  parent : Option Nat
  isScope : Bool

structure ASt where
  tabs : List ATab
  hs : List Nat

def absTab (t : Tab) : ATab := ⟨fun n => alookup n t.ents, t.parent, t.isScope⟩
def abs (s : St) : ASt := ⟨s.tabs.map absTab, s.hs⟩

/-- innermost declaration of `n` along the parent chain of scope `i` (fuel: see `lookupF`) -/
def specLookupF : Nat → List ATab → Nat → Name → Bool → Out
  | 0, _, _, _, _ => .recursion
  | f + 1, tabs, i, n, r =>
    match tabs[i]? with
    | none => .none
    | some t =>
      match t.map n with
      | some v => .val v
      | none =>
        if r then
          match t.parent with
          | some p => specLookupF f tabs p n r
          | none => .none
        else .none

/-- the innermost scope along the parent chain that declares `n` -/
def specScopeF : Nat → List ATab → Nat → Name → Out
  | 0, _, _, _ => .recursion
  | f + 1, tabs, i, n =>
    match tabs[i]? with
    | none => .none
    | some t =>
      if (t.map n).isSome then .scope i
      else match t.parent with
        | some p => specScopeF f tabs p n
        | none => .none

def aSetMap (a : ASt) (i : Nat) (t : ATab) (m : AMap) : ASt := { a with tabs := a.tabs.set i { t with map := m } }

def aRet (a : ASt) (o : Out) : ASt × Out :=
  match o with
  | .val c => ({ a with hs := a.hs ++ [c] }, o)
  | _ => (a, o)

def aValidParent (a : ASt) (p : Option Nat) : Bool :=
  match p with
  | none => true
  | some p => p < a.tabs.length

def aScopedParent (a : ASt) (p : Option Nat) : Bool :=
  match p with
  | none => true
  | some p => match a.tabs[p]? with
    | some t => t.isScope
    | none => false

def specStep (a : ASt) (op : Op) : ASt × Out :=
  match op with
  | .new c => ({ a with hs := a.hs ++ [c] }, .unit)
  | .mutate h c => if h < a.hs.length then ({ a with hs := a.hs.set h c }, .unit) else (a, .bad)
  | .newtab p =>
    if aValidParent a p then ({ a with tabs := a.tabs ++ [⟨fun _ => none, p, false⟩] }, .unit) else (a, .bad)
  | .newscope p =>
    if aScopedParent a p then ({ a with tabs := a.tabs ++ [⟨fun _ => none, p, true⟩] }, .unit) else (a, .bad)
  | .set i k h =>
    match a.tabs[i]?, a.hs[h]? with
    | some t, some c => (aSetMap a i t (t.map.upd (fold k) c), .unit)
    | _, _ => (a, .bad)
  | .setdefault i k h =>
    match a.tabs[i]?, (match h with | none => some 0 | some h => a.hs[h]?) with
    | some t, some c =>
      match t.map (fold k) with
      | some v => (a, .val v)
      | none => (aSetMap a i t (t.map.upd (fold k) c), .val c)
    | _, _ => (a, .bad)
  | .update i kvs =>
    match a.tabs[i]?, resolve a.hs kvs with
    | some t, some kcs => (aSetMap a i t (kcs.foldl (fun m kv => m.upd (fold kv.1) kv.2) t.map), .unit)
    | _, _ => (a, .bad)
  | .get i k =>
    match a.tabs[i]? with
    | some t => aRet a (match t.map (fold k) with | some v => .val v | none => .none)
    | none => (a, .bad)
  | .getd i k d =>
    match a.tabs[i]? with
    | some t =>
      match t.map (fold k) with
      | some v => aRet a (.val v)       -- the default is returned ONLY when the name is not declared
      | none => (a, .dflt d)
    | none => (a, .bad)
  | .getitem i k =>
    match a.tabs[i]? with
    | some t =>
      match t.map (fold k) with
      | some v => aRet a (.val v)
      | none => (a, .keyError)
    | none => (a, .bad)
  | .lookup i k r =>
    match a.tabs[i]? with
    | some _ => aRet a (specLookupF (a.tabs.length + 1) a.tabs i (fold k) r)
    | none => (a, .bad)
  | .contains i k =>
    match a.tabs[i]? with
    | some t => (a, .bool (t.map (fold k)).isSome)
    | none => (a, .bad)
  | .del i k =>
    match a.tabs[i]? with
    | some t =>
      match t.map (fold k) with
      | some _ => (aSetMap a i t (t.map.del (fold k)), .unit)
      | none => (a, .keyError)
    | none => (a, .bad)
  | .pop i k =>
    match a.tabs[i]? with
    | some t =>
      match t.map (fold k) with
      | some v => aRet (aSetMap a i t (t.map.del (fold k))) (.val v)
      | none => (a, .keyError)
    | none => (a, .bad)
  | .popd i k =>
    match a.tabs[i]? with
    | some t =>
      match t.map (fold k) with
      | some v => aRet (aSetMap a i t (t.map.del (fold k))) (.val v)
      | none => (a, .none)
    | none => (a, .bad)
  | .popdv i k d =>
    match a.tabs[i]? with
    | some t =>
      match t.map (fold k) with
      | some v => aRet (aSetMap a i t (t.map.del (fold k))) (.val v)
      | none => (a, .dflt d)
    | none => (a, .bad)
  | .clone i pk =>
    match a.tabs[i]? with
    | some t =>
      let par : Option (Option Nat) :=
        match pk with
        | .some p => if p < a.tabs.length then some (some p) else none
        | .none => some none
        | .inherit => some t.parent
      match par with
      | some par => ({ a with tabs := a.tabs ++ [⟨t.map, par, false⟩] }, .unit)
      | none => (a, .bad)
    | none => (a, .bad)
  | .setparent i p =>
    match a.tabs[i]? with
    | some t =>
      if !t.isScope && aValidParent a p then ({ a with tabs := a.tabs.set i { t with parent := p } }, .unit) else (a, .bad)
    | none => (a, .bad)
  | .declare i k c fail =>
    match a.tabs[i]? with
    | some t =>
      if !t.isScope then (a, .bad)
      else if fail && (t.map (fold k)).isSome then (a, .valueError)
      else (aSetMap a i t (t.map.upd (fold k) c), .unit)
    | none => (a, .bad)
  | .supdate i k c fail =>
    match a.tabs[i]? with
    | some t =>
      if !t.isScope then (a, .bad)
      else if fail && !(t.map (fold k)).isSome then (a, .valueError)
      else (aSetMap a i t (t.map.upd (fold k) c), .unit)
    | none => (a, .bad)
  | .gettype i k r fail =>
    match a.tabs[i]? with
    | some t =>
      if !t.isScope then (a, .bad)
      else match specLookupF (a.tabs.length + 1) a.tabs i (fold k) r with
        | .none => if fail then (a, .keyError) else (a, .none)
        | o => aRet a o
    | none => (a, .bad)
  | .symscope i k =>
    match a.tabs[i]? with
    | some t => if !t.isScope then (a, .bad) else (a, specScopeF (a.tabs.length + 1) a.tabs i (fold k))
    | none => (a, .bad)
  | .reparent i p =>
    match a.tabs[i]? with
    | some t =>
      if !t.isScope || !aScopedParent a p then (a, .bad)
      else ({ a with tabs := a.tabs.set i { t with parent := p } }, .unit)
    | none => (a, .bad)

def specRun (a : ASt) : List Op → ASt × List Out
  | [] => (a, [])
  | op :: ops =>
    let r := specStep a op
    let rr := specRun r.1 ops
    (rr.1, r.2 :: rr.2)

/-! ## invariant of reachable states -/

def EntsOk (e : List (Name × Nat)) : Prop := (∀ kv ∈ e, fold kv.1 = kv.1) ∧ (e.map Prod.fst).Nodup

def TabOk (t : Tab) : Prop := EntsOk t.ents ∧ (t.isScope = true → t.sparent = t.parent)

/-- the scope parent of a scope is a scope -/
def ScopeOk (tabs : List Tab) : Prop :=
  ∀ (i : Nat) (t : Tab), tabs[i]? = some t → t.isScope = true →
    ∀ p, t.sparent = some p → ∃ tp : Tab, tabs[p]? = some tp ∧ tp.isScope = true

def Inv (s : St) : Prop := (∀ t ∈ s.tabs, TabOk t) ∧ ScopeOk s.tabs

/-! ## dictionaries -/

/-- specification of both dictionaries: a mapping keyed by the lower-cased key; the default dictionary reads a
missing key as `0` and inserts it -/
def dspecStep (kind : DKind) (m : AMap) (op : DOp) : AMap × Out :=
  match op with
  | .set k v => (m.upd (lower k) v, .unit)
  | .get k => (m, match m (lower k) with | some v => .val v | none => .none)
  | .getd k dv => (m, match m (lower k) with | some v => .val v | none => .val dv)
  | .getitem k =>
    match m (lower k) with
    | some v => (m, .val v)
    | none => match kind with
      | .ordered => (m, .keyError)
      | .dflt => (m.upd (lower k) 0, .val 0)
  | .contains k => (m, .bool (m (lower k)).isSome)
  | .del k => match m (lower k) with
    | some _ => (m.del (lower k), .unit)
    | none => (m, .keyError)
  | .pop k => match m (lower k) with
    | some v => (m.del (lower k), .val v)
    | none => (m, .keyError)
  | .popd k => match m (lower k) with
    | some v => (m.del (lower k), .val v)
    | none => (m, .none)
  | .popdv k dv => match m (lower k) with
    | some v => (m.del (lower k), .val v)
    | none => (m, .val dv)
  | .setdefault k v => match m (lower k) with
    | some w => (m, .val w)
    | none => (m.upd (lower k) v, .val v)
  | .update kvs => (kvs.foldl (fun m kv => m.upd (lower kv.1) kv.2) m, .unit)

def dspecRun (kind : DKind) (m : AMap) : List DOp → AMap × List Out
  | [] => (m, [])
  | op :: ops =>
    let r := dspecStep kind m op
    let rr := dspecRun kind r.1 ops
    (rr.1, r.2 :: rr.2)

def dabs (d : DSt) : AMap := fun n => alookup n d

end LokiModel.C12
