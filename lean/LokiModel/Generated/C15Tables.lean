/- generated from /repo by harness/props/c15.py — do not edit -/
namespace LokiModel.C15.Generated

/-- (expression class, constructor of `E` used by the exporter, mapper method `LokiWalkMapper` dispatches the class to) -/
def walkerTable : List (String × String × String) := [
  ("Array", "msym", "LokiWalkMapper.map_meta_symbol"),
  ("ArraySubscript", "sub", "LokiWalkMapper.map_array_subscript"),
  ("Cast", "cast", "LokiWalkMapper.map_cast"),
  ("Comparison", "bin", "WalkMapper.map_comparison"),
  ("DeferredTypeSymbol", "sym", "LokiWalkMapper.map_variable_symbol"),
  ("Dereference", "un", "LokiWalkMapper.map_c_dereference"),
  ("DerivedTypeSymbol", "sym", "LokiWalkMapper.map_variable_symbol"),
  ("FloatLiteral", "klit", "LokiWalkMapper.map_float_literal"),
  ("InlineCall", "call", "WalkMapper.map_call_with_kwargs"),
  ("InlineDo", "ido", "LokiWalkMapper.map_inline_do"),
  ("IntLiteral", "klit", "LokiWalkMapper.map_float_literal"),
  ("IntrinsicLiteral", "const", "WalkMapper.map_constant"),
  ("LiteralList", "llist", "LokiWalkMapper.map_literal_list"),
  ("LogicLiteral", "const", "WalkMapper.map_constant"),
  ("LogicalAnd", "nary", "WalkMapper.map_sum"),
  ("LogicalNot", "un", "WalkMapper.map_bitwise_not"),
  ("LogicalOr", "nary", "WalkMapper.map_sum"),
  ("LoopRange", "slice", "WalkMapper.map_slice"),
  ("ParenthesisedAdd", "nary", "WalkMapper.map_sum"),
  ("ParenthesisedDiv", "bin", "WalkMapper.map_quotient"),
  ("ParenthesisedMul", "nary", "WalkMapper.map_sum"),
  ("ParenthesisedPow", "bin", "WalkMapper.map_power"),
  ("Power", "bin", "WalkMapper.map_power"),
  ("ProcedureSymbol", "sym", "LokiWalkMapper.map_variable_symbol"),
  ("Product", "nary", "WalkMapper.map_sum"),
  ("Quotient", "bin", "WalkMapper.map_quotient"),
  ("Range", "slice", "WalkMapper.map_slice"),
  ("RangeIndex", "slice", "WalkMapper.map_slice"),
  ("Reference", "un", "LokiWalkMapper.map_c_reference"),
  ("Scalar", "msym", "LokiWalkMapper.map_meta_symbol"),
  ("StringConcat", "nary", "WalkMapper.map_sum"),
  ("StringLiteral", "const", "WalkMapper.map_constant"),
  ("StringSubscript", "sub", "LokiWalkMapper.map_array_subscript"),
  ("Sum", "nary", "WalkMapper.map_sum"),
  ("Variable", "const", "WalkMapper.map_variable"),
  ("VariableSymbol", "sym", "LokiWalkMapper.map_variable_symbol")
]

/-- node classes not handled by `visit_Node`: (class, FindNodes handler, ExpressionFinder handler) -/
def nodeHandlers : List (String × String × String) := [
  ("TypeDef", "visit_TypeDef", "visit_TypeDef"),
  ("VariableDeclaration", "visit_Node", "visit_VariableDeclaration")
]

/-- dataclass fields typed as expressions that are not in `_traversable` -/
def hiddenExprFields : List (String × List String) := [
  ("CallStatement", ["chevron"]),
  ("Enumeration", ["symbols"]),
  ("FormatStmt", ["values"]),
  ("PrintStmt", ["values"])
]

end LokiModel.C15.Generated
