/-! generated from /repo by harness/props/c04.py (`PROP.tables()`); do not edit -/
namespace LokiModel.C04.Generated
/-- (style class, linewidth, indent_char) from loki/backend/style.py -/
def styles : List (String × Nat × String) := [("DefaultStyle", 90, " "), ("FortranStyle", 132, " "), ("IFSFortranStyle", 132, " ")]
/-- the format string behind `FortranCodegen.line_cont` (loki/backend/fgen.py) -/
def fortranLineCont : String := " &\n{}& "
/-- the f-string `line_cont` of `FortranCodegen.visit_Pragma` with the keyword replaced by `{}` -/
def pragmaLineCont : String := " &\n!${} & "
/-- `JoinableStringList._pattern_quoted_string.pattern` -/
def quotedPattern : String := "(?:'(?:[^'\\n]|'')*')|(?:\"(?:[^\"\\n]|\"\")*\")"
/-- `JoinableStringList._pattern_chunk_separator.pattern` -/
def chunkSepPattern : String := "(\\s|\\)(?!%)|\\n)"
end LokiModel.C04.Generated
