/-! generated from /repo by harness/props/c23.py (tables) — do not edit -/
namespace LokiModel.C23.Generated

/-- (function, is the constructed item name lower-cased?) for every place the item factory builds an item name -/
def itemNameFolded : List (String × Bool) := [
  ("FileItem.create_definition_items", true),
  ("FileItem.create_definition_items", true),
  ("_get_procedure_binding_item", true),
  ("_get_procedure_item", true),
  ("_get_procedure_item", true),
  ("_get_procedure_item", true),
  ("_get_procedure_item", true),
  ("_get_procedure_item", true),
  ("_get_procedure_item", true),
  ("create_from_ir", true),
  ("create_from_ir", true),
  ("create_from_ir", true),
  ("get_or_create_file_item_from_path", true),
  ("get_or_create_file_item_from_source", true)]

/-- does `Item.__hash__` hash the lower-cased name? -/
def hashFoldsName : Bool := false

end LokiModel.C23.Generated
