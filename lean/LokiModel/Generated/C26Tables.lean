/-! generated from /repo/loki/analyse/dataflow_analysis.py by harness/props/c26.py — do not edit -/
namespace LokiModel.Generated.C26
/-- `DataflowAnalysisAttacher._mem_property_queries` -/
def memPropertyQueries : List String := ["size", "lbound", "ubound", "present"]
/-- intent strings whose actual arguments `visit_CallStatement` treats as (potentially) defined -/
def outIntents : List String := ["inout", "out"]
/-- intent strings whose actual arguments `visit_CallStatement` treats as used -/
def inIntents : List String := ["inout", "in"]
end LokiModel.Generated.C26
