/- generated from /repo by harness/props/c14.py — do not edit -/
namespace LokiModel.C14.Generated

/-- (class name, traversable fields holding nodes in `_traversable` order, is a ScopedNode) -/
def classTable : List (String × List String × Bool) := [
  ("Assignment", [], false),
  ("CallStatement", [], false),
  ("Comment", [], false),
  ("Section", ["body"], false),
  ("Loop", ["body"], false),
  ("Conditional", ["body", "else_body"], false),
  ("Associate", ["body"], true),
  ("PragmaRegion", ["body"], false),
  ("MultiConditional", ["bodies", "else_body"], false)
]

/-- node classes that `is_iterable`/`as_tuple` treat as atomic although they define `__iter__` -/
def atomicIterable : List String := ["Associate", "Section"]

end LokiModel.C14.Generated
