/-! Generated from /repo by harness/props/c12.py (`str.lower` on ASCII; the `partition` argument of
`SymbolTable._not_case_sensitive_format_lookup_name`).  Do not edit. -/
namespace LokiModel.C12
def lowerTable : List (Char × Char) := [(Char.ofNat 65, Char.ofNat 97), (Char.ofNat 66, Char.ofNat 98), (Char.ofNat 67, Char.ofNat 99), (Char.ofNat 68, Char.ofNat 100), (Char.ofNat 69, Char.ofNat 101), (Char.ofNat 70, Char.ofNat 102), (Char.ofNat 71, Char.ofNat 103), (Char.ofNat 72, Char.ofNat 104), (Char.ofNat 73, Char.ofNat 105), (Char.ofNat 74, Char.ofNat 106), (Char.ofNat 75, Char.ofNat 107), (Char.ofNat 76, Char.ofNat 108), (Char.ofNat 77, Char.ofNat 109), (Char.ofNat 78, Char.ofNat 110), (Char.ofNat 79, Char.ofNat 111), (Char.ofNat 80, Char.ofNat 112), (Char.ofNat 81, Char.ofNat 113), (Char.ofNat 82, Char.ofNat 114), (Char.ofNat 83, Char.ofNat 115), (Char.ofNat 84, Char.ofNat 116), (Char.ofNat 85, Char.ofNat 117), (Char.ofNat 86, Char.ofNat 118), (Char.ofNat 87, Char.ofNat 119), (Char.ofNat 88, Char.ofNat 120), (Char.ofNat 89, Char.ofNat 121), (Char.ofNat 90, Char.ofNat 122)]
def cutChar : Char := Char.ofNat 40
end LokiModel.C12
