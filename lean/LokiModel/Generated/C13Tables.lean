-- GENERATED from /repo by harness/props/c13.py (tables()); do not edit
namespace LokiModel.C13.Generated
/-- return statements of `Variable.__new__` in source order -/
def tierReturns : List String := ["ProcedureSymbol", "DerivedTypeSymbol", "Array", "Scalar", "DeferredTypeSymbol"]
/-- the test under which `Variable.__new__` drops the `dimensions` keyword (ast.unparse) -/
def dimsPopTest : String := "'dimensions' in kwargs and kwargs['dimensions'] is None"
/-- members of the `BasicType` int-enum with their values (value 0 is falsy) -/
def basicTypes : List (String × Nat) := [("DEFERRED", 0), ("LOGICAL", 1), ("INTEGER", 2), ("REAL", 3), ("CHARACTER", 4), ("COMPLEX", 5)]
/-- `bool(x)` of a sample object of each class used in a truthiness test of the anchored code -/
def sampleTruthy : List (String × Bool) := [("SymbolAttributes", true), ("DerivedType", true), ("ProcedureType", true), ("TypeDef", true), ("Scalar", true), ("Array", true), ("DeferredTypeSymbol", true), ("ProcedureSymbol", true), ("DerivedTypeSymbol", true)]
end LokiModel.C13.Generated
