/-! generated from loki/transformations/build_system/file_write.py:_get_file_path — do not edit -/
namespace LokiModel.C24.Tables
def defaultMode : String := "loki"
def sanFrom : Char := '-'
def sanTo : Char := '_'
def keyFrom : Char := '.'
def keyTo : Char := '_'
end LokiModel.C24.Tables
