/- generated from loki/backend/style.py by harness/props/c02.py; do not edit -/
namespace LokiModel.C02.Tables
def fortranLoopEndSpace : Bool := true
def fortranCondEndSpace : Bool := true
def ifsLoopEndSpace : Bool := false
def ifsCondEndSpace : Bool := false
end LokiModel.C02.Tables
