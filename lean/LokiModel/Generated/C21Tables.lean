/-! generated from /repo by harness/props/c21.py (tables) — do not edit -/
namespace LokiModel.C21.Generated

/-- (function, keys argument, use_pattern_matching, match_item_parents) of every `match_item_keys` call -/
def matchFlags : List (String × String × Bool × Bool) := [
  ("_add_children", "config.routines", false, false),
  ("_add_children", "item.block", false, false),
  ("_add_children", "item.ignore", false, true),
  ("_is_generated", "keys", true, true),
  ("_is_ignored", "keys", true, true),
  ("create_dependency_items", "self.disable", false, false),
  ("create_item_config", "self.routines", false, false),
  ("is_disabled", "self.disable", true, true),
  ("match_symbol_or_name", "keys", true, true)]

/-- default of `ItemConfig.expand` when the key is absent -/
def expandDefault : Bool := false

/-- `Scheduler.source_suffixes` -/
def sourceSuffixes : List String := [".f90", ".F90", ".f", ".F"]

end LokiModel.C21.Generated
