/-! generated from loki/frontend/regex.py — do not edit -/
namespace LokiModel.Generated.C19

def parserClasses : List (String × Nat) := [("ProgramUnitClass", 1), ("InterfaceClass", 2), ("ImportClass", 4), ("TypeDefClass", 8), ("DeclarationClass", 16), ("CallClass", 32), ("PragmaClass", 64)]
def allClassesValue : Nat := 127
def patternClass : List (String × String) := [("CallPattern", "CallClass"), ("GenericBindingPattern", "TypeDefClass"), ("ImportPattern", "ImportClass"), ("InterfacePattern", "InterfaceClass"), ("ModulePattern", "ProgramUnitClass"), ("PragmaPattern", "PragmaClass"), ("ProcedureBindingPattern", "TypeDefClass"), ("ProcedureStatementPattern", "InterfaceClass"), ("SubroutineFunctionPattern", "ProgramUnitClass"), ("TypedefPattern", "TypeDefClass"), ("VariableDeclarationPattern", "DeclarationClass")]

end LokiModel.Generated.C19
