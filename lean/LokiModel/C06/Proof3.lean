import LokiModel.C06.Proof2
/-! C06 proof, part 3: one lemma per node class, assembled by the recursor of `E`. -/
namespace LokiModel.C06
open LokiModel.Expr Tables Tok

variable {cfg : Cfg}

/-- assemble `P t` for a node without special continuation forms -/
theorem mkP {t : E} (hA : A cfg t)
    (hf : factorOK t = true → 6 ≤ outLv t PREC_PRODUCT)
    (ht : termOK t = true → 5 ≤ outLv t PREC_SUM)
    (hs : sumNeg t = none) :
    A cfg t ∧ (factorOK t = true → MulK cfg t) ∧ (termOK t = true → AddK cfg t) ∧ SubK cfg t :=
  ⟨hA, fun h => mulK_of_A hA (hf h), fun h => addK_of_A hA (ht h), fun x hx => by rw [hs] at hx; cases hx⟩

theorem denInt_eq (n : Int) : den (.ilit n) = denInt n ∧ den (.pyint n) = denInt n := by
  constructor <;> rw [den]

theorem G_int (n : Int) : G (if n < 0 then 4 else 7) (if n < 0 then [minus, num n.natAbs] else [num n.toNat]) (denInt n) := by
  unfold denInt
  by_cases h : n < 0
  · simp only [h, if_true]
    exact G.neg (xs := [num n.natAbs]) ((G.num _).weaken (by omega) (by omega))
  · simp only [h, if_false]
    exact G.num _

theorem P_ilit (n : Int) : P cfg (.ilit n) := by
  intro _
  refine mkP ?_ (fun h => by simpa [factorOK] using h) (fun h => by simpa [termOK] using h) rfl
  intro p
  refine ⟨denInt n, ?_, by rw [(denInt_eq n).1]; exact SEq.refl _⟩
  simpa [outLv, printF] using G_int n

theorem P_pyint (n : Int) : P cfg (.pyint n) := by
  intro _
  refine mkP ?_ (fun h => by simpa [factorOK] using h) (fun h => by simpa [termOK] using h) rfl
  intro p
  refine ⟨denInt n, ?_, by rw [(denInt_eq n).2]; exact SEq.refl _⟩
  by_cases h : n < 0
  · have := wrapG' (G_int n) (by split <;> omega) (decide (p > PREC_SUM))
    simpa [outLv, printF, h] using this
  · have := G_int n
    simpa [outLv, printF, h] using this

theorem P_rlit (t : String) : P cfg (.rlit t) := by
  intro _
  refine mkP ?_ (fun h => by simpa [factorOK] using h) (fun h => by simpa [termOK] using h) rfl
  intro p; exact ⟨.real t, by simpa [outLv, printF] using G.rnum t, by rw [den]; exact SEq.refl _⟩

theorem P_var (x : String) : P cfg (.var x) := by
  intro _
  refine mkP ?_ (fun h => by simpa [factorOK] using h) (fun h => by simpa [termOK] using h) rfl
  intro p; exact ⟨.var x, by simpa [outLv, printF] using G.ident x, by rw [den]; exact SEq.refl _⟩

theorem P_blit (b : Bool) : P cfg (.blit b) := by
  intro _
  refine mkP ?_ (fun h => by simpa [factorOK] using h) (fun h => by simpa [termOK] using h) rfl
  intro p
  refine ⟨.bool b, ?_, by rw [den]; exact SEq.refl _⟩
  cases b <;> simp [outLv, printF]
  · exact G.fls
  · exact G.tru

theorem P_quot (par : Bool) (a b : E) (ha : P cfg a) (hb : P cfg b) : P cfg (.quot par a b) := by
  intro hg
  simp only [Good, Bool.and_eq_true, Bool.or_eq_true, decide_eq_true_eq] at hg
  obtain ⟨⟨⟨hga, hgb⟩, hla⟩, hlb⟩ := hg
  obtain ⟨hAa, _⟩ := ha hga
  obtain ⟨hAb, _⟩ := hb hgb
  refine mkP ?_ (fun h => by simpa [factorOK] using h) (fun h => by simpa [termOK] using h) rfl
  intro p
  obtain ⟨sa, hsa, hea⟩ := hAa PREC_PRODUCT
  obtain ⟨sb, hsb, heb⟩ := hAb PREC_PRODUCT
  have hden := wrapG' hsb (outLv_le _ _) (forceDen cfg b)
  have hden6 : G 6 (parenIf (forceDen cfg b) (printF cfg b PREC_PRODUCT)) sb := by
    refine hden.weaken ?_ (by split <;> simp [outLv_le])
    cases hlb with
    | inl h => simp [h]
    | inr h => split <;> omega
  have hbody := G.div (hsa.weaken hla (outLv_le _ _)) hden6
  have := wrapG hbody (by omega) par (decide (p > PREC_PRODUCT))
  refine ⟨_, ?_, by rw [den]; exact SEq.div hea heb⟩
  simpa [outLv, printF] using this

theorem P_pow (par : Bool) (a b : E) (ha : P cfg a) (hb : P cfg b) : P cfg (.pow par a b) := by
  intro hg
  simp only [Good, Bool.and_eq_true, Bool.or_eq_true, decide_eq_true_eq] at hg
  obtain ⟨⟨⟨hga, hgb⟩, hla⟩, hlb⟩ := hg
  obtain ⟨hAa, _⟩ := ha hga
  obtain ⟨hAb, _⟩ := hb hgb
  refine mkP ?_ (fun h => by simpa [factorOK] using h) (fun h => by simpa [termOK] using h) rfl
  intro p
  obtain ⟨sa, hsa, hea⟩ := hAa PREC_POWER
  obtain ⟨sb, hsb, heb⟩ := hAb PREC_POWER
  have hbase := wrapG' hsa (outLv_le _ _) (powBaseParen a (printF cfg a PREC_POWER))
  have hbase7 : G 7 (parenIf (powBaseParen a (printF cfg a PREC_POWER)) (printF cfg a PREC_POWER)) sa := by
    refine hbase.weaken ?_ (by split <;> simp [outLv_le])
    cases hla with
    | inl h => simp [h]
    | inr h => split <;> omega
  have hbody := G.pow hbase7 (hsb.weaken hlb (outLv_le _ _))
  have := wrapG hbody (by omega) par (decide (p > PREC_POWER))
  refine ⟨_, ?_, by rw [den]; exact SEq.pow hea heb⟩
  simpa [outLv, printF] using this

theorem P_cmp (o : CmpOp) (a b : E) (ha : P cfg a) (hb : P cfg b) : P cfg (.cmp o a b) := by
  intro hg
  simp only [Good, Bool.and_eq_true, decide_eq_true_eq] at hg
  obtain ⟨⟨⟨hga, hgb⟩, hla⟩, hlb⟩ := hg
  obtain ⟨hAa, _⟩ := ha hga
  obtain ⟨hAb, _⟩ := hb hgb
  refine mkP ?_ (fun h => by simpa [factorOK] using h) (fun h => by simpa [termOK] using h) rfl
  intro p
  obtain ⟨sa, hsa, hea⟩ := hAa PREC_COMPARISON
  obtain ⟨sb, hsb, heb⟩ := hAb PREC_COMPARISON
  have hbody := G.cmp (o := o) (hsa.weaken hla (outLv_le _ _)) (hsb.weaken hlb (outLv_le _ _))
  have := wrapG' hbody (by omega) (decide (p > PREC_COMPARISON))
  refine ⟨_, ?_, by rw [den]; exact SEq.cmp hea heb⟩
  simpa [outLv, printF] using this

theorem P_lnot (a : E) (ha : P cfg a) : P cfg (.lnot a) := by
  intro hg
  simp only [Good, Bool.and_eq_true, decide_eq_true_eq] at hg
  obtain ⟨hga, hla⟩ := hg
  obtain ⟨hAa, _⟩ := ha hga
  refine mkP ?_ (fun h => by simpa [factorOK] using h) (fun h => by simpa [termOK] using h) rfl
  intro p
  obtain ⟨sa, hsa, hea⟩ := hAa PREC_UNARY
  have hbody := G.not (hsa.weaken hla (outLv_le _ _))
  have := wrapG' hbody (by omega) (decide (p > PREC_UNARY))
  refine ⟨_, ?_, by rw [den]; exact SEq.not hea⟩
  simpa [outLv, printF] using this

theorem P_land (xs : List E) (hxs : ∀ c ∈ xs, P cfg c) : P cfg (.land xs) := by
  intro hg
  match xs, hxs, hg with
  | [], _, hg => simp [Good] at hg
  | c :: cs, hxs, hg =>
    simp only [Good, Bool.and_eq_true, decide_eq_true_eq] at hg
    obtain ⟨⟨hgc, hlc⟩, hgs⟩ := hg
    obtain ⟨hAc, _⟩ := hxs c (by simp) hgc
    refine mkP ?_ (fun h => by simpa [factorOK] using h) (fun h => by simpa [termOK] using h) rfl
    intro p
    obtain ⟨sc, hsc, hec⟩ := hAc PREC_LOGICAL_AND
    obtain ⟨s, hs, he⟩ := and_lemma cs (fun c' hc' => hxs c' (by simp [hc'])) hgs _ sc
      (hsc.weaken hlc (outLv_le _ _))
    have := wrapG' hs (by omega) (decide (p > PREC_LOGICAL_AND))
    refine ⟨_, ?_, by rw [den]; exact SEq.trans he (denFold_congr_and hec cs)⟩
    simpa [outLv, printF, printJoin] using this

theorem P_lor (xs : List E) (hxs : ∀ c ∈ xs, P cfg c) : P cfg (.lor xs) := by
  intro hg
  match xs, hxs, hg with
  | [], _, hg => simp [Good] at hg
  | c :: cs, hxs, hg =>
    simp only [Good, Bool.and_eq_true] at hg
    obtain ⟨hgc, hgs⟩ := hg
    obtain ⟨hAc, _⟩ := hxs c (by simp) hgc
    refine mkP ?_ (fun h => by simpa [factorOK] using h) (fun h => by simpa [termOK] using h) rfl
    intro p
    obtain ⟨sc, hsc, hec⟩ := hAc PREC_LOGICAL_OR
    obtain ⟨s, hs, he⟩ := or_lemma cs (fun c' hc' => hxs c' (by simp [hc'])) hgs _ sc
      (hsc.weaken (Nat.zero_le _) (outLv_le _ _))
    have := wrapG' hs (by omega) (decide (p > PREC_LOGICAL_OR))
    refine ⟨_, ?_, by rw [den]; exact SEq.trans he (denFold_congr_or hec cs)⟩
    simpa [outLv, printF, printJoin] using this

end LokiModel.C06
