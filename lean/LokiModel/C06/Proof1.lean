import LokiModel.C06.Good
import LokiModel.Expr.SemLemmas
/-! C06 proof, part 1: precedence facts, semantic fold lemmas, generic derivation helpers. -/
namespace LokiModel.C06
open LokiModel.Expr Tables Tok

/-- the only facts about pymbolic's precedence constants the proofs use: their order -/
theorem prec_order : PREC_NONE < PREC_LOGICAL_OR ∧ PREC_LOGICAL_OR < PREC_LOGICAL_AND ∧
    PREC_LOGICAL_AND < PREC_COMPARISON ∧ PREC_COMPARISON < PREC_SUM ∧ PREC_SUM < PREC_PRODUCT ∧
    PREC_PRODUCT < PREC_UNARY ∧ PREC_UNARY < PREC_POWER := by decide

/-! ### semantic lemmas on `S` -/

theorem S_add_assoc (a b c : S) : SEq (.add (.add a b) c) (.add a (.add b c)) := fun env => by
  simp only [evalS]; exact bin_assoc Val.add_assoc' _ _ _
theorem S_mul_assoc (a b c : S) : SEq (.mul (.mul a b) c) (.mul a (.mul b c)) := fun env => by
  simp only [evalS]; exact bin_assoc Val.mul_assoc' _ _ _

theorem S_neg_one_mul (a : S) : SEq (.mul (.neg (.int 1)) a) (.neg a) := fun env => by
  simp only [evalS, Val.neg, Option.bind, bin]
  cases evalS env a with
  | none => rfl
  | some v => exact Val.neg_one_mul v

theorem S_add_neg_one_mul (a b : S) : SEq (.add a (.mul (.neg (.int 1)) b)) (.sub a b) := fun env => by
  simp only [evalS, Val.neg, Option.bind, bin]
  cases evalS env a with
  | none => rfl
  | some va =>
    cases evalS env b with
    | none => rfl
    | some vb => exact Val.add_neg_one_mul va vb

theorem denFold_congr_add {a a' : S} (h : SEq a a') (cs : List E) : SEq (denFold .add a cs) (denFold .add a' cs) := by
  induction cs generalizing a a' with
  | nil => simpa [denFold] using h
  | cons c cs ih => simp only [denFold]; exact ih (SEq.add h (SEq.refl _))

theorem denFold_congr_mul {a a' : S} (h : SEq a a') (cs : List E) : SEq (denFold .mul a cs) (denFold .mul a' cs) := by
  induction cs generalizing a a' with
  | nil => simpa [denFold] using h
  | cons c cs ih => simp only [denFold]; exact ih (SEq.mul h (SEq.refl _))

theorem denFold_congr_and {a a' : S} (h : SEq a a') (cs : List E) : SEq (denFold .and a cs) (denFold .and a' cs) := by
  induction cs generalizing a a' with
  | nil => simpa [denFold] using h
  | cons c cs ih => simp only [denFold]; exact ih (SEq.and h (SEq.refl _))

theorem denFold_congr_or {a a' : S} (h : SEq a a') (cs : List E) : SEq (denFold .or a cs) (denFold .or a' cs) := by
  induction cs generalizing a a' with
  | nil => simpa [denFold] using h
  | cons c cs ih => simp only [denFold]; exact ih (SEq.or h (SEq.refl _))

theorem denFold_add_assoc (a b : S) (cs : List E) : SEq (denFold .add (.add a b) cs) (.add a (denFold .add b cs)) := by
  induction cs generalizing b with
  | nil => exact SEq.refl _
  | cons c cs ih =>
    simp only [denFold]
    exact SEq.trans (denFold_congr_add (S_add_assoc a b (den c)) cs) (ih _)

theorem denFold_mul_assoc (a b : S) (cs : List E) : SEq (denFold .mul (.mul a b) cs) (.mul a (denFold .mul b cs)) := by
  induction cs generalizing b with
  | nil => exact SEq.refl _
  | cons c cs ih =>
    simp only [denFold]
    exact SEq.trans (denFold_congr_mul (S_mul_assoc a b (den c)) cs) (ih _)

/-! ### derivation helpers -/

theorem outLv_le (t : E) (p : Nat) : outLv t p ≤ 7 := by
  unfold outLv; split <;> (repeat' split) <;> omega

/-- wrap a derivation of the body into the derivation of what the printer emits around it -/
theorem wrapG {lvl : Nat} {body : List Tok} {s : S} (h : G lvl body s) (hl : lvl ≤ 7) (par pp : Bool) :
    G (if par || pp then 7 else lvl) (if par then paren body else parenIf pp body) s := by
  have h0 : G 0 body s := h.weaken (Nat.zero_le _) hl
  cases par <;> cases pp <;> simp [parenIf, paren]
  · exact h
  · exact G.paren h0
  · exact G.paren h0
  · exact G.paren h0

theorem wrapG' {lvl : Nat} {body : List Tok} {s : S} (h : G lvl body s) (hl : lvl ≤ 7) (pp : Bool) :
    G (if pp then 7 else lvl) (parenIf pp body) s := by
  simpa using wrapG h hl false pp

end LokiModel.C06
