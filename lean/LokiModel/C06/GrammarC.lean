import LokiModel.C06.ModelC
/-!
# The C expression grammar as a derivation relation

`GC ℓ ts s`: the C token list `ts` is derivable at grammar level `ℓ` and means the semantic tree `s`
(the same `S` / `evalS` as for Fortran).  Levels (C99 6.5.1–6.5.14 restricted to the tokens of `CTok`):

| ℓ | nonterminal | rule |
|---|---|---|
| 7 | primary / postfix | constant, identifier, `( expression )`, the call `pow ( assignment-expr , assignment-expr )` |
| 6 | unary (= cast) | `-` cast-expr, `!` cast-expr |
| 5 | multiplicative | multiplicative `*` `/` cast-expr (left associative) |
| 4 | additive | additive `+` `-` multiplicative (left associative) |
| 3 | relational | relational `<` `<=` `>` `>=` additive (left associative; shift level is empty) |
| 2 | equality | equality `==` `!=` relational (left associative) |
| 1 | logical-AND | logical-AND `&&` equality (bitwise levels are empty) |
| 0 | logical-OR = assignment-expr = expression | logical-OR `||` logical-AND |

Differences to the Fortran grammar `G` that matter for the printer: unary minus binds *tighter* than `*` `/`
(`-a*b` is `(-a)*b`), may follow any operator (`a*-b`, `a - -b`), comparisons are left associative with equality
below relational, `!` is a unary operator at level 6, powers are calls.  There is no rule for the token `--`.

Value semantics (`evalS`): integer `/` truncates (C99 6.5.5p6, the same `Val.div`); comparisons and `! && ||`
act on `Val.bool` — C's `int` 0/1 results are abstracted to the model's logical type, so ill-typed mixtures
(`(a<b)<c`, `!3`) are errors in the model while C would compute with 0/1; `&&`/`||` are strict in the model
(no short-circuit: an error in the right operand is an error);  `pow(a, b)` denotes `S.pow a b` with the model's
`Val.pow` (integer exponent, integer base → integer result) — C's `pow` returns `double`: for integer operands
the result type differs and large values lose precision (documented limitation, see `notes/C06C.md`).
-/
namespace LokiModel.C06
open LokiModel.Expr CTok

/-- relational operators (C99 6.5.8) as opposed to equality operators (6.5.9) -/
def isRel : CmpOp → Bool
  | .lt | .le | .gt | .ge => true
  | .eq | .ne => false

inductive GC : Nat → List CTok → S → Prop where
  | num (n : Nat) : GC 7 [num n] (.int n)
  | rnum (t : String) : GC 7 [rnum t] (.real t)
  | ident (x : String) : GC 7 [id x] (.var x)
  | tru : GC 7 [tru] (.bool true)
  | fls : GC 7 [fls] (.bool false)
  | paren {ts s} : GC 0 ts s → GC 7 ([lp] ++ ts ++ [rp]) s
  | call {xs ys a b} : GC 0 xs a → GC 0 ys b → GC 7 ([powfn, lp] ++ xs ++ [comma] ++ ys ++ [rp]) (.pow a b)
  | up {ℓ ts s} : ℓ < 7 → GC (ℓ + 1) ts s → GC ℓ ts s
  | neg {xs a} : GC 6 xs a → GC 6 ([minus] ++ xs) (.neg a)
  | not {xs a} : GC 6 xs a → GC 6 ([bang] ++ xs) (.not a)
  | mul {xs ys a b} : GC 5 xs a → GC 6 ys b → GC 5 (xs ++ [star] ++ ys) (.mul a b)
  | div {xs ys a b} : GC 5 xs a → GC 6 ys b → GC 5 (xs ++ [slash] ++ ys) (.div a b)
  | add {xs ys a b} : GC 4 xs a → GC 5 ys b → GC 4 (xs ++ [plus] ++ ys) (.add a b)
  | sub {xs ys a b} : GC 4 xs a → GC 5 ys b → GC 4 (xs ++ [minus] ++ ys) (.sub a b)
  | rel {o xs ys a b} : isRel o = true → GC 3 xs a → GC 4 ys b → GC 3 (xs ++ [CTok.cmp o] ++ ys) (.cmp o a b)
  | equ {o xs ys a b} : isRel o = false → GC 2 xs a → GC 3 ys b → GC 2 (xs ++ [CTok.cmp o] ++ ys) (.cmp o a b)
  | and {xs ys a b} : GC 1 xs a → GC 2 ys b → GC 1 (xs ++ [andand] ++ ys) (.and a b)
  | or {xs ys a b} : GC 0 xs a → GC 1 ys b → GC 0 (xs ++ [oror] ++ ys) (.or a b)

/-- a derivation at a higher level is a derivation at every lower level -/
theorem GC.weaken {ℓ ℓ' : Nat} {ts s} (h : GC ℓ' ts s) (hle : ℓ ≤ ℓ') (h7 : ℓ' ≤ 7) : GC ℓ ts s := by
  induction hle' : ℓ' - ℓ generalizing ℓ with
  | zero => have : ℓ = ℓ' := by omega
            subst this; exact h
  | succ k ih =>
    have := ih (ℓ := ℓ + 1) (by omega) (by omega)
    exact GC.up (by omega) this

theorem GC.nonempty {ℓ ts s} (h : GC ℓ ts s) : ts ≠ [] := by
  induction h <;> simp_all

/-- no derivable token list contains the decrement token -/
theorem GC.no_decr {ℓ ts s} (h : GC ℓ ts s) : decr ∉ ts := by
  induction h <;> simp_all

end LokiModel.C06
