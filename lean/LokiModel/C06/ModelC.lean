import LokiModel.C06.Model
/-!
# C06 model, C backend: the C expression printer

`printC cfg t p` mirrors, method by method, `pymbolic.mapper.stringifier.StringifyMapper` →
`loki.expression.mappers.LokiStringifyMapper` → `loki.backend.cgen.CCodeMapper` for the node classes of `E`
(the same tree type as the Fortran model).  Shared with the Fortran printer: `map_sum` (minus detection),
`map_product` (the `-1` case), `map_quotient` (with `multiplicative_primitives`, for `CCodeMapper` pymbolic's
default: products and quotients as denominators ARE parenthesised), `map_constant`, `Parenthesised*`.
Specific to `CCodeMapper`: `map_logic_literal` (`true` / `false`), `map_power` (`pow(a, b)` with both arguments
printed at `PREC_NONE`, parenthesised whenever `enclosing_prec > PREC_NONE`), `map_comparison` inherited from
pymbolic (`== != < <= > >=`), `map_logical_not/and/or` (`!`, `&&`, `||`).

Tokens are *C tokens*: C lexes by maximal munch, so a `-` written directly in front of a text that starts with `-`
(no blank in between: `map_product`'s `f'-{…}'` and the first term of `map_sum`) is the decrement token `--`.
`glueMinus` models exactly that string concatenation at token level.  Core Lean only.
-/
namespace LokiModel.C06
open LokiModel.Expr
open Tables

/-- tokens of the C expression sub-language (`powfn` is the identifier `pow` used as function designator) -/
inductive CTok where
  | num (n : Nat) | rnum (txt : String) | id (s : String) | tru | fls
  | plus | minus | star | slash | lp | rp
  | cmp (o : CmpOp) | bang | andand | oror
  | powfn | comma
  | decr                       -- `--`, only ever produced by gluing two minus signs
deriving Repr, DecidableEq, Inhabited

open CTok

/-- printer configuration read from the current `CCodeMapper` -/
def ccfg : Cfg := ⟨cMpProduct, cMpQuotient⟩

def cparen (ts : List CTok) : List CTok := [lp] ++ ts ++ [rp]
def cparenIf (b : Bool) (ts : List CTok) : List CTok := if b then cparen ts else ts

/-- the text `"-" + s` re-lexed: a leading run of `k` minus characters is `k/2` decrement tokens followed by
`k%2` minus tokens; one more character in front -/
def glueMinus : List CTok → List CTok
  | decr :: ts => decr :: glueMinus ts
  | minus :: ts => decr :: ts
  | ts => minus :: ts

/-- one term of `map_sum`; the first term's `-` is concatenated without a blank (`f'{terms[0]}{terms[1]}'`), later
terms are joined with blanks -/
def termTokC (np : Option (List CTok)) (pf : List CTok) (first : Bool) : List CTok :=
  match np with
  | some ts => if first then glueMinus ts else [minus] ++ ts
  | none => (if first then [] else [plus]) ++ pf

mutual
def printC (cfg : Cfg) : E → Nat → List CTok
  | .ilit n, _ => if n < 0 then [minus, num n.natAbs] else [num n.toNat]
  | .rlit t, _ => [rnum t]
  | .blit b, _ => [if b then tru else fls]
  | .pyint n, p => if n < 0 then cparenIf (decide (p > PREC_SUM)) [minus, num n.natAbs] else [num n.toNat]
  | .var s, _ => [id s]
  | .sum par xs, p =>
      if par then cparen (printTermsC cfg xs true) else cparenIf (decide (p > PREC_SUM)) (printTermsC cfg xs true)
  -- `map_product`: the two-children `-1` case first (`f'-{…}'`: glued)
  | .prod par [c, x], p =>
      let body := if isMinusOne c then glueMinus (printC cfg x PREC_PRODUCT)
                  else printC cfg c PREC_PRODUCT ++ [star] ++ printC cfg x PREC_PRODUCT
      if par then cparen body else cparenIf (decide (p > PREC_PRODUCT)) body
  | .prod par xs, p =>
      if par then cparen (printJoinC cfg star xs PREC_PRODUCT true)
      else cparenIf (decide (p > PREC_PRODUCT)) (printJoinC cfg star xs PREC_PRODUCT true)
  | .quot par a b, p =>
      let body := printC cfg a PREC_PRODUCT ++ [slash] ++ cparenIf (forceDen cfg b) (printC cfg b PREC_PRODUCT)
      if par then cparen body else cparenIf (decide (p > PREC_PRODUCT)) body
  -- `CCodeMapper.map_power`: `pow(base, exponent)`, arguments at PREC_NONE, `parenthesize_if_needed(…, enclosing, PREC_NONE)`;
  -- `map_parenthesised_pow` = `parenthesize(map_power(expr, PREC_NONE))`
  | .pow par a b, p =>
      let body := [powfn, lp] ++ printC cfg a PREC_NONE ++ [comma] ++ printC cfg b PREC_NONE ++ [rp]
      if par then cparen body else cparenIf (decide (p > PREC_NONE)) body
  | .cmp o a b, p =>
      cparenIf (decide (p > PREC_COMPARISON)) (printC cfg a PREC_COMPARISON ++ [CTok.cmp o] ++ printC cfg b PREC_COMPARISON)
  | .lnot a, p => cparenIf (decide (p > PREC_UNARY)) ([bang] ++ printC cfg a PREC_UNARY)
  | .land xs, p => cparenIf (decide (p > PREC_LOGICAL_AND)) (printJoinC cfg andand xs PREC_LOGICAL_AND true)
  | .lor xs, p => cparenIf (decide (p > PREC_LOGICAL_OR)) (printJoinC cfg oror xs PREC_LOGICAL_OR true)
/-- `join_rec(op, children, prec)` -/
def printJoinC (cfg : Cfg) (op : CTok) : List E → Nat → Bool → List CTok
  | [], _, _ => []
  | c :: cs, p, first => (if first then [] else [op]) ++ printC cfg c p ++ printJoinC cfg op cs p false
/-- `get_op_prec_expr` of `map_sum` (see `negPart`); the rebuilt `Product(children[1:])` goes through `map_product` again -/
def negPartC (cfg : Cfg) : E → Option (List CTok)
  | .prod false [m] => if isPyMinusOne m then some [] else none
  | .prod false [m, x] => if isPyMinusOne m then some (printC cfg x PREC_PRODUCT) else none
  | .prod false [m, c2, x2] =>
      if isPyMinusOne m then
        some (if isMinusOne c2 then glueMinus (printC cfg x2 PREC_PRODUCT)
              else printC cfg c2 PREC_PRODUCT ++ [star] ++ printC cfg x2 PREC_PRODUCT)
      else none
  | .prod false (m :: c2 :: x2 :: x3 :: rest) =>
      if isPyMinusOne m then some (printTailC cfg star (m :: c2 :: x2 :: x3 :: rest) PREC_PRODUCT) else none
  | _ => none
def printTailC (cfg : Cfg) (op : CTok) : List E → Nat → List CTok
  | [], _ => []
  | _ :: cs, p => printJoinC cfg op cs p true
def printTermsC (cfg : Cfg) : List E → Bool → List CTok
  | [], _ => []
  | c :: cs, first => termTokC (negPartC cfg c) (printC cfg c PREC_SUM) first ++ printTermsC cfg cs false
end

end LokiModel.C06
