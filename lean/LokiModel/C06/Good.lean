import LokiModel.C06.Model
import LokiModel.Expr.Grammar
/-!
# C06: the class of trees covered by the printer theorem

`outLv t p` is the grammar level of the text `printF t p` (7 when the printer parenthesises it).
`Good cfg t` collects, node by node, the conditions under which the printed text of every child has the grammar
level its position requires — i.e. exactly where Loki's precedence numbers and the Fortran grammar agree.
Everything is a decidable `Bool`, mirrored by the classifier in `harness/props/c06.py`.
-/
namespace LokiModel.C06
open LokiModel.Expr Tables

def outLv (t : E) (p : Nat) : Nat :=
  match t with
  | .ilit n => if n < 0 then 4 else 7
  | .pyint n => if n < 0 then (if p > PREC_SUM then 7 else 4) else 7
  | .rlit _ => 7
  | .blit _ => 7
  | .var _ => 7
  | .sum par _ => if par || decide (p > PREC_SUM) then 7 else 4
  | .prod par [c, _] => if par || decide (p > PREC_PRODUCT) then 7 else if isMinusOne c then 4 else 5
  | .prod par _ => if par || decide (p > PREC_PRODUCT) then 7 else 5
  | .quot par _ _ => if par || decide (p > PREC_PRODUCT) then 7 else 5
  | .pow par _ _ => if par || decide (p > PREC_POWER) then 7 else 6
  | .cmp _ _ _ => if p > PREC_COMPARISON then 7 else 3
  | .lnot _ => if p > PREC_UNARY then 7 else 2
  | .land _ => if p > PREC_LOGICAL_AND then 7 else 1
  | .lor _ => if p > PREC_LOGICAL_OR then 7 else 0

/-- `Product((-1, x))` with a bare Python `-1`, not parenthesised: printed by `map_sum` as `- x` -/
def sumNeg : E → Option E
  | .prod false [m, x] => if isPyMinusOne m then some x else none
  | _ => none

/-- any `Product((-1, …))` that `map_sum` turns into a `-` term -/
def sumNegAny : E → Bool
  | .prod false (m :: _) => isPyMinusOne m
  | _ => false

mutual
/-- a factor that may follow `X *` without parentheses: its text is a mult-operand, or it is an unparenthesised
plain product all of whose factors are of that kind (multiplication is associative in the model) -/
def factorOK : E → Bool
  | .prod false [c, x] => !isMinusOne c && factorOK c && factorOK x
  | .prod false (c :: cs) => factorOK c && factorsOK cs
  | t => decide (6 ≤ outLv t PREC_PRODUCT)
def factorsOK : List E → Bool
  | [] => true
  | c :: cs => factorOK c && factorsOK cs
end

/-- a term that may follow `X +` without parentheses: an add-operand, or an unparenthesised plain sum whose first
term is of that kind and not a minus term -/
def termOK : E → Bool
  | .sum false (y :: _) => !sumNegAny y && termOK y
  | t => decide (5 ≤ outLv t PREC_SUM)

/-- condition on the first term of a sum: a `-` term must be `Product((-1, x))` with exactly one operand; any other
term must print at PREC_SUM as a level-2 expression -/
def firstCond (c : E) : Bool :=
  if sumNegAny c then (sumNeg c).isSome else decide (4 ≤ outLv c PREC_SUM)

/-- condition on a later term of a sum -/
def termCond (c : E) : Bool :=
  if sumNegAny c then (sumNeg c).isSome else termOK c

mutual
def Good (cfg : Cfg) : E → Bool
  | .ilit _ => true
  | .rlit _ => true
  | .blit _ => true
  | .pyint _ => true
  | .var _ => true
  | .sum _ [] => false
  | .sum _ (c :: cs) => Good cfg c && firstCond c && goodTerms cfg cs
  | .prod _ [] => false
  | .prod _ [c, x] =>
      if isMinusOne c then Good cfg x && decide (5 ≤ outLv x PREC_PRODUCT)
      else Good cfg c && Good cfg x && decide (5 ≤ outLv c PREC_PRODUCT) && factorOK x
  | .prod _ (c :: cs) => Good cfg c && decide (5 ≤ outLv c PREC_PRODUCT) && goodFactors cfg cs
  | .quot _ a b => Good cfg a && Good cfg b && decide (5 ≤ outLv a PREC_PRODUCT)
                    && (forceDen cfg b || decide (6 ≤ outLv b PREC_PRODUCT))
  | .pow _ a b => Good cfg a && Good cfg b && (powBaseParen a (printF cfg a PREC_POWER) || decide (7 ≤ outLv a PREC_POWER))
                   && decide (6 ≤ outLv b PREC_POWER)
  | .cmp _ a b => Good cfg a && Good cfg b && decide (4 ≤ outLv a PREC_COMPARISON) && decide (4 ≤ outLv b PREC_COMPARISON)
  | .lnot a => Good cfg a && decide (3 ≤ outLv a PREC_UNARY)
  | .land [] => false
  | .land (c :: cs) => Good cfg c && decide (1 ≤ outLv c PREC_LOGICAL_AND) && goodJoin cfg 2 PREC_LOGICAL_AND cs
  | .lor [] => false
  | .lor (c :: cs) => Good cfg c && goodJoin cfg 1 PREC_LOGICAL_OR cs
/-- later terms of a sum -/
def goodTerms (cfg : Cfg) : List E → Bool
  | [] => true
  | c :: cs => Good cfg c && termCond c && goodTerms cfg cs
/-- later factors of a product -/
def goodFactors (cfg : Cfg) : List E → Bool
  | [] => true
  | c :: cs => Good cfg c && factorOK c && goodFactors cfg cs
/-- later operands of `.and.` / `.or.` chains: text at grammar level ≥ `ℓ` -/
def goodJoin (cfg : Cfg) (ℓ : Nat) (p : Nat) : List E → Bool
  | [] => true
  | c :: cs => Good cfg c && decide (ℓ ≤ outLv c p) && goodJoin cfg ℓ p cs
end

end LokiModel.C06
