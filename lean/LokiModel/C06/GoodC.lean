import LokiModel.C06.GrammarC
import LokiModel.C06.Good
/-!
# C06, C backend: the class of trees covered by the C printer theorem

`outLvC t p` is the C grammar level of the text `printC t p` (7 when the printer parenthesises it, and for `pow(…)`
calls).  `GoodC cfg t` collects, node by node, the conditions under which the printed text of every child has the level its
position requires in the **C** grammar.  Differences to the Fortran class `Good`:

* a negated operand `-x` / a negative literal is a *unary expression* (level 6): `a*-b`, `a / -b`, `a + -3`, `a - -b`, `!-a`
  are inside `GoodC`; a negated product `-a*b` (`Product((-1, Product((a, b))))`) is at level 5 and means `(-a)*b`,
  proved value-equal to `-(a*b)` (`neg_push`);
* powers are calls: no condition on base and exponent;
* relational operators need (left ≥ 3, right ≥ 4), equality operators (left ≥ 2, right ≥ 3); `!` needs a level-6 operand;
* a `-` glued in front of a text starting with `-` is the token `--`: such trees are outside `GoodC`
  (`startsMinus`), except as a later term of a sum, where the printer separates the signs by a blank (`a - -b`):
  `GoodCm cfg true` is the variant of the class for that position.
-/
namespace LokiModel.C06
open LokiModel.Expr Tables

def startsMinus : List CTok → Bool
  | .minus :: _ => true
  | .decr :: _ => true
  | _ => false

def outLvC (t : E) (p : Nat) : Nat :=
  match t with
  | .ilit n => if n < 0 then 6 else 7
  | .pyint n => if n < 0 then (if p > PREC_SUM then 7 else 6) else 7
  | .rlit _ => 7
  | .blit _ => 7
  | .var _ => 7
  | .sum par _ => if par || decide (p > PREC_SUM) then 7 else 4
  | .prod par [c, x] =>
      if par || decide (p > PREC_PRODUCT) then 7
      else if isMinusOne c then (if 6 ≤ outLvC x PREC_PRODUCT then 6 else 5) else 5
  | .prod par _ => if par || decide (p > PREC_PRODUCT) then 7 else 5
  | .quot par _ _ => if par || decide (p > PREC_PRODUCT) then 7 else 5
  | .pow _ _ _ => 7
  | .cmp o _ _ => if p > PREC_COMPARISON then 7 else if isRel o then 3 else 2
  | .lnot _ => if p > PREC_UNARY then 7 else 6
  | .land _ => if p > PREC_LOGICAL_AND then 7 else 1
  | .lor _ => if p > PREC_LOGICAL_OR then 7 else 0

mutual
/-- a factor that may follow `X *` without parentheses: its text is a unary expression, or it is an unparenthesised
plain product all of whose factors are of that kind (multiplication is associative in the model) -/
def factorOKC : E → Bool
  | .prod false [c, x] =>
      if isMinusOne c then decide (6 ≤ outLvC (.prod false [c, x]) PREC_PRODUCT) else factorOKC c && factorOKC x
  | .prod false (c :: cs) => factorOKC c && factorsOKC cs
  | t => decide (6 ≤ outLvC t PREC_PRODUCT)
def factorsOKC : List E → Bool
  | [] => true
  | c :: cs => factorOKC c && factorsOKC cs
end

/-- a term that may follow `X +` without parentheses: a multiplicative expression, or an unparenthesised plain sum whose
first term is of that kind and not a minus term -/
def termOKC : E → Bool
  | .sum false (y :: _) => !sumNegAny y && termOKC y
  | t => decide (5 ≤ outLvC t PREC_SUM)

def firstCondC (c : E) : Bool :=
  if sumNegAny c then (sumNeg c).isSome else decide (4 ≤ outLvC c PREC_SUM)

def termCondC (c : E) : Bool :=
  if sumNegAny c then (sumNeg c).isSome else termOKC c

mutual
/-- `asTerm = true`: the tree stands as a later term of a sum (where a minus term `Product((-1, x))` is printed `- x` with a
blank, so `x` may start with a sign); `asTerm = false`: any other position -/
def GoodCm (cfg : Cfg) (asTerm : Bool) : E → Bool
  | .ilit _ => true
  | .rlit _ => true
  | .blit _ => true
  | .pyint _ => true
  | .var _ => true
  | .sum _ [] => false
  | .sum _ (c :: cs) => GoodCm cfg false c && firstCondC c && goodTermsC cfg cs
  | .prod _ [] => false
  | .prod par [c, x] =>
      if isMinusOne c then
        GoodCm cfg false x && decide (5 ≤ outLvC x PREC_PRODUCT)
          && ((asTerm && !par && isPyMinusOne c) || !startsMinus (printC cfg x PREC_PRODUCT))
      else GoodCm cfg false c && GoodCm cfg false x && decide (5 ≤ outLvC c PREC_PRODUCT) && factorOKC x
  | .prod _ (c :: cs) => GoodCm cfg false c && decide (5 ≤ outLvC c PREC_PRODUCT) && goodFactorsC cfg cs
  | .quot _ a b => GoodCm cfg false a && GoodCm cfg false b && decide (5 ≤ outLvC a PREC_PRODUCT)
                    && (forceDen cfg b || decide (6 ≤ outLvC b PREC_PRODUCT))
  | .pow _ a b => GoodCm cfg false a && GoodCm cfg false b
  | .cmp o a b => GoodCm cfg false a && GoodCm cfg false b
                   && decide ((if isRel o then 3 else 2) ≤ outLvC a PREC_COMPARISON)
                   && decide ((if isRel o then 4 else 3) ≤ outLvC b PREC_COMPARISON)
  | .lnot a => GoodCm cfg false a && decide (6 ≤ outLvC a PREC_UNARY)
  | .land [] => false
  | .land (c :: cs) => GoodCm cfg false c && decide (1 ≤ outLvC c PREC_LOGICAL_AND) && goodJoinC cfg 2 PREC_LOGICAL_AND cs
  | .lor [] => false
  | .lor (c :: cs) => GoodCm cfg false c && goodJoinC cfg 1 PREC_LOGICAL_OR cs
/-- later terms of a sum -/
def goodTermsC (cfg : Cfg) : List E → Bool
  | [] => true
  | c :: cs => GoodCm cfg true c && termCondC c && goodTermsC cfg cs
/-- later factors of a product -/
def goodFactorsC (cfg : Cfg) : List E → Bool
  | [] => true
  | c :: cs => GoodCm cfg false c && factorOKC c && goodFactorsC cfg cs
/-- later operands of `&&` / `||` chains: text at grammar level ≥ `ℓ` -/
def goodJoinC (cfg : Cfg) (ℓ : Nat) (p : Nat) : List E → Bool
  | [] => true
  | c :: cs => GoodCm cfg false c && decide (ℓ ≤ outLvC c p) && goodJoinC cfg ℓ p cs
end

/-- the class of the C printer theorem -/
def GoodC (cfg : Cfg) (t : E) : Bool := GoodCm cfg false t

end LokiModel.C06
