import LokiModel.C06.ProofC3
import LokiModel.C06.Proof4
/-! C06 proof for the C backend, part 4: sums and products, and the assembly. -/
namespace LokiModel.C06
open LokiModel.Expr Tables CTok

variable {cfg : Cfg}

/-- the first term of a sum prints like the child at `PREC_SUM` (the sign of a leading minus term is glued in both) -/
theorem first_termC {c : E} (hfc : firstCondC c = true) :
    termTokC (negPartC cfg c) (printC cfg c PREC_SUM) true = printC cfg c PREC_SUM ∧ 4 ≤ outLvC c PREC_SUM := by
  unfold firstCondC at hfc
  by_cases hn : sumNegAny c = true
  · rw [if_pos hn] at hfc
    obtain ⟨x, hx⟩ := Option.isSome_iff_exists.mp hfc
    rw [negPartC_some hx]
    unfold sumNeg at hx
    split at hx
    · rename_i m x'
      split at hx
      · rename_i hm
        cases hx
        have hm1 := pyMinus_minus hm
        constructor
        · simp [termTokC, printC, hm1, cparenIf, not_gt_sum_prod]
        · simp only [outLvC, hm1, not_gt_sum_prod, decide_false, Bool.or_false, Bool.false_eq_true, if_false, if_true]
          split <;> omega
      · cases hx
    · cases hx
  · have hn' : sumNegAny c = false := by simpa using hn
    rw [if_neg hn] at hfc
    rw [negPartC_none hn']
    exact ⟨by simp [termTokC], by simpa using hfc⟩

theorem PC_sum (par : Bool) (xs : List E) (hxs : ∀ c ∈ xs, PC cfg c) : PC cfg (.sum par xs) := by
  refine ⟨fun hg => ?_, fun _ x hx => by simp [sumNeg] at hx⟩
  match xs, hxs, hg with
  | [], _, hg => simp [GoodCm] at hg
  | c :: cs, hxs, hg =>
    simp only [GoodCm, Bool.and_eq_true] at hg
    obtain ⟨⟨hgc, hfc⟩, hgs⟩ := hg
    obtain ⟨hAc, _, hAddc⟩ := (hxs c (by simp)).1 hgc
    obtain ⟨hft, hl4⟩ := first_termC (cfg := cfg) hfc
    have hrest := termsC_lemma cs (fun c' hc' => hxs c' (by simp [hc'])) hgs
    have hA : AC cfg (.sum par (c :: cs)) := by
      intro p
      obtain ⟨sc, hsc, hec⟩ := hAc PREC_SUM
      obtain ⟨s, hs, he⟩ := hrest _ sc (hsc.weaken hl4 (outLvC_le _ _))
      have := wrapGC hs (by omega) par (decide (p > PREC_SUM))
      refine ⟨_, ?_, by rw [den]; exact SEq.trans he (denFold_congr_add hec cs)⟩
      simpa [outLvC, printC, printTermsC, hft] using this
    refine ⟨hA, fun h => mulKC_of_A hA (by simpa [factorOKC] using h), ?_⟩
    intro hto
    cases par with
    | true => exact addKC_of_A hA (by simpa [termOKC] using hto)
    | false =>
      simp only [termOKC, Bool.and_eq_true, Bool.not_eq_true'] at hto
      obtain ⟨hny, hty⟩ := hto
      intro X acc hX
      obtain ⟨s1, hs1, he1⟩ := hAddc hty X acc hX
      obtain ⟨s2, hs2, he2⟩ := hrest _ s1 hs1
      refine ⟨s2, ?_, ?_⟩
      · have hnp : ¬ (PREC_SUM > PREC_SUM) := by omega
        simpa [printC, printTermsC, negPartC_none hny, termTokC, cparenIf, hnp, List.append_assoc] using hs2
      · rw [den]
        exact SEq.trans he2 (SEq.trans (denFold_congr_add he1 cs) (denFold_add_assoc acc (den c) cs))

/-- product printed as `c * cs…` -/
theorem prodAC {c : E} {cs : List E} (hc : PC cfg c) (hcs : ∀ c' ∈ cs, PC cfg c') (hgc : GoodCm cfg false c = true)
    (hl : 5 ≤ outLvC c PREC_PRODUCT) (hgs : goodFactorsC cfg cs = true) :
    ∃ s, GC 5 (printC cfg c PREC_PRODUCT ++ printJoinC cfg star cs PREC_PRODUCT false) s ∧
      SEq s (denFold .mul (den c) cs) := by
  obtain ⟨hAc, _⟩ := hc.1 hgc
  obtain ⟨sc, hsc, hec⟩ := hAc PREC_PRODUCT
  obtain ⟨s, hs, he⟩ := factorsC_lemma cs hcs hgs _ sc (hsc.weaken hl (outLvC_le _ _))
  exact ⟨s, hs, SEq.trans he (denFold_congr_mul hec cs)⟩

theorem prodMulKC {c : E} {cs : List E} (hc : PC cfg c) (hcs : ∀ c' ∈ cs, PC cfg c') (hgc : GoodCm cfg false c = true)
    (hfc : factorOKC c = true) (hgs : goodFactorsC cfg cs = true) :
    ∀ X acc, GC 5 X acc → ∃ s, GC 5 (X ++ [star] ++ (printC cfg c PREC_PRODUCT ++ printJoinC cfg star cs PREC_PRODUCT false)) s ∧
      SEq s (.mul acc (denFold .mul (den c) cs)) := by
  intro X acc hX
  obtain ⟨_, hMc, _⟩ := hc.1 hgc
  obtain ⟨s1, hs1, he1⟩ := hMc hfc X acc hX
  obtain ⟨s2, hs2, he2⟩ := factorsC_lemma cs hcs hgs _ s1 hs1
  refine ⟨s2, by simpa [List.append_assoc] using hs2, ?_⟩
  exact SEq.trans he2 (SEq.trans (denFold_congr_mul he1 cs) (denFold_mul_assoc acc (den c) cs))

/-- a plain product node that is not of the two-children minus-one form -/
theorem PC_prod_general (par : Bool) (c : E) (cs : List E)
    (hbody : ∀ p, printC cfg (.prod par (c :: cs)) p =
        if par then cparen (printC cfg c PREC_PRODUCT ++ printJoinC cfg star cs PREC_PRODUCT false)
        else cparenIf (decide (p > PREC_PRODUCT)) (printC cfg c PREC_PRODUCT ++ printJoinC cfg star cs PREC_PRODUCT false))
    (hlv : ∀ p, outLvC (.prod par (c :: cs)) p = if par || decide (p > PREC_PRODUCT) then 7 else 5)
    (hfo : par = false → factorOKC (.prod par (c :: cs)) = true → factorOKC c = true)
    (hfo' : par = true → factorOKC (.prod par (c :: cs)) = decide (6 ≤ outLvC (.prod par (c :: cs)) PREC_PRODUCT))
    (hto : termOKC (.prod par (c :: cs)) = decide (5 ≤ outLvC (.prod par (c :: cs)) PREC_SUM))
    (hc : PC cfg c) (hcs : ∀ c' ∈ cs, PC cfg c') (hgc : GoodCm cfg false c = true)
    (hl : 5 ≤ outLvC c PREC_PRODUCT) (hgs : goodFactorsC cfg cs = true) :
    AC cfg (.prod par (c :: cs)) ∧ (factorOKC (.prod par (c :: cs)) = true → MulKC cfg (.prod par (c :: cs))) ∧
      (termOKC (.prod par (c :: cs)) = true → AddKC cfg (.prod par (c :: cs))) := by
  have hA : AC cfg (.prod par (c :: cs)) := by
    intro p
    obtain ⟨s, hs, he⟩ := prodAC hc hcs hgc hl hgs
    have := wrapGC hs (by omega) par (decide (p > PREC_PRODUCT))
    refine ⟨s, ?_, by rw [den]; exact he⟩
    rw [hbody, hlv]; exact this
  refine ⟨hA, ?_, fun h => addKC_of_A hA (by rw [hto] at h; simpa using h)⟩
  intro hf
  cases par with
  | true => exact mulKC_of_A hA (by rw [hfo' rfl] at hf; simpa using hf)
  | false =>
    intro X acc hX
    obtain ⟨s, hs, he⟩ := prodMulKC hc hcs hgc (hfo rfl hf) hgs X acc hX
    refine ⟨s, ?_, by rw [den]; exact he⟩
    rw [hbody]
    simpa [cparenIf, not_gt_prod] using hs

theorem PC_prod (par : Bool) (xs : List E) (hxs : ∀ c ∈ xs, PC cfg c) : PC cfg (.prod par xs) := by
  match xs, hxs with
  | [], _ => exact ⟨fun hg => by simp [GoodCm] at hg, fun _ x hx => by simp [sumNeg] at hx⟩
  | [c], hxs =>
    refine ⟨fun hg => ?_, fun _ x hx => by cases par <;> simp [sumNeg] at hx⟩
    simp only [GoodCm, Bool.and_eq_true, decide_eq_true_eq] at hg
    obtain ⟨⟨hgc, hl⟩, hgs⟩ := hg
    refine PC_prod_general par c [] (fun p => by simp [printC, printJoinC]) (fun p => by simp [outLvC]) ?_ ?_ ?_
      (hxs c (by simp)) (by simp) hgc hl hgs
    · intro hp hf; subst hp; simpa [factorOKC, factorsOKC] using hf
    · intro hp; subst hp; simp [factorOKC]
    · cases par <;> simp [termOKC]
  | [c, x], hxs =>
    by_cases hm : isMinusOne c = true
    · -- `-x`
      have core : GoodCm cfg false x = true → 5 ≤ outLvC x PREC_PRODUCT →
          ∃ sx, GC 5 (printC cfg x PREC_PRODUCT) sx ∧ SEq sx (den x) ∧
            ∃ s', GC (if 6 ≤ outLvC x PREC_PRODUCT then 6 else 5) ([minus] ++ printC cfg x PREC_PRODUCT) s' ∧
              SEq s' (.neg sx) := by
        intro hgx hlx
        obtain ⟨hAx, _⟩ := (hxs x (by simp)).1 hgx
        obtain ⟨sx, hsx, hex⟩ := hAx PREC_PRODUCT
        refine ⟨sx, hsx.weaken hlx (outLvC_le _ _), hex, ?_⟩
        by_cases h6 : 6 ≤ outLvC x PREC_PRODUCT
        · simp only [h6, if_true]; exact ⟨_, GC.neg (hsx.weaken h6 (outLvC_le _ _)), SEq.refl _⟩
        · simp only [h6, if_false]; exact neg_push hsx hlx
      refine ⟨fun hg => ?_, fun hg => ?_⟩
      · simp only [GoodCm, hm, if_true, Bool.and_eq_true, Bool.or_eq_true, decide_eq_true_eq] at hg
        obtain ⟨⟨hgx, hlx⟩, hst⟩ := hg
        have hst' : startsMinus (printC cfg x PREC_PRODUCT) = false := by simpa using hst
        obtain ⟨sx, _, hex, s', hs', he'⟩ := core hgx hlx
        have hden : SEq s' (den (.prod par [c, x])) := by
          rw [den]; simp only [denFold]; rw [den_minusOne hm]
          exact SEq.trans he' (SEq.symm (SEq.trans (S_neg_one_mul _) (SEq.neg (SEq.symm hex))))
        have hA : AC cfg (.prod par [c, x]) := by
          intro p
          have := wrapGC hs' (by split <;> omega) par (decide (p > PREC_PRODUCT))
          refine ⟨_, ?_, hden⟩
          simpa [outLvC, printC, hm, glueMinus_of_not_startsMinus hst'] using this
        refine ⟨hA, fun h => mulKC_of_A hA ?_, fun h => addKC_of_A hA (by simpa [termOKC] using h)⟩
        cases par <;> simpa [factorOKC, hm] using h
      · intro x' hx' X acc hX
        cases par with
        | true => simp [sumNeg] at hx'
        | false =>
          simp only [sumNeg] at hx'
          split at hx'
          · cases hx'
            simp only [GoodCm, hm, if_true, Bool.and_eq_true, decide_eq_true_eq] at hg
            obtain ⟨⟨hgx, hlx⟩, _⟩ := hg
            obtain ⟨sx, hsx5, hex, _⟩ := core hgx hlx
            refine ⟨_, GC.sub hX hsx5, ?_⟩
            rw [den]; simp only [denFold]; rw [den_minusOne hm]
            exact SEq.symm (SEq.trans (S_add_neg_one_mul _ _) (SEq.sub (SEq.refl _) (SEq.symm hex)))
          · cases hx'
    · have hm' : isMinusOne c = false := by simpa using hm
      refine ⟨fun hg => ?_, fun _ x' hx' => ?_⟩
      · simp only [GoodCm, hm', Bool.false_eq_true, if_false, Bool.and_eq_true, decide_eq_true_eq] at hg
        obtain ⟨⟨⟨hgc, hgx⟩, hl⟩, hfx⟩ := hg
        have hgs : goodFactorsC cfg [x] = true := by simp [goodFactorsC, hgx, hfx]
        refine PC_prod_general par c [x] (fun p => by simp [printC, printJoinC, hm']) (fun p => by simp [outLvC, hm']) ?_ ?_ ?_
          (hxs c (by simp)) (fun c' hc' => hxs c' (by simp at hc'; simp [hc'])) hgc hl hgs
        · intro hp hf; subst hp; simp [factorOKC, hm'] at hf; exact hf.1
        · intro hp; subst hp; simp [factorOKC]
        · cases par <;> simp [termOKC]
      · cases par
        · have : isPyMinusOne c = false := by
            cases hpy : isPyMinusOne c
            · rfl
            · rw [pyMinus_minus hpy] at hm'; cases hm'
          simp [sumNeg, this] at hx'
        · simp [sumNeg] at hx'
  | c :: x :: y :: rest, hxs =>
    refine ⟨fun hg => ?_, fun _ x' hx' => by cases par <;> simp [sumNeg] at hx'⟩
    simp only [GoodCm, Bool.and_eq_true, decide_eq_true_eq] at hg
    obtain ⟨⟨hgc, hl⟩, hgs⟩ := hg
    refine PC_prod_general par c (x :: y :: rest) (fun p => by simp [printC, printJoinC]) (fun p => by simp [outLvC]) ?_ ?_ ?_
      (hxs c (by simp)) (fun c' hc' => hxs c' (by simp at hc'; simp [hc'])) hgc hl hgs
    · intro hp hf; subst hp; simp [factorOKC] at hf; exact hf.1
    · intro hp; subst hp; simp [factorOKC]
    · cases par <;> simp [termOKC]

/-- the invariant holds for every tree -/
theorem PC_all (cfg : Cfg) (t : E) : PC cfg t :=
  E.rec (motive_1 := PC cfg) (motive_2 := fun xs => ∀ c ∈ xs, PC cfg c)
    PC_ilit PC_rlit PC_blit PC_pyint PC_var
    (fun par xs h => PC_sum par xs h) (fun par xs h => PC_prod par xs h)
    (fun par a b ha hb => PC_quot par a b ha hb) (fun par a b ha hb => PC_pow par a b ha hb)
    (fun o a b ha hb => PC_cmp o a b ha hb) (fun a ha => PC_lnot a ha)
    (fun xs h => PC_land xs h) (fun xs h => PC_lor xs h)
    (fun c hc => by cases hc)
    (fun hd tl hh ht c hc => by
      cases hc with
      | head => exact hh
      | tail _ h => exact ht c h) t

end LokiModel.C06
