import LokiModel.C06.ProofC2
/-! C06 proof for the C backend, part 3: one lemma per node class (all but sums and products). -/
namespace LokiModel.C06
open LokiModel.Expr Tables CTok

variable {cfg : Cfg}

/-- assemble `PC t` for a node without special continuation forms -/
theorem mkPC {t : E} (hA : GoodCm cfg false t = true → AC cfg t)
    (hf : factorOKC t = true → 6 ≤ outLvC t PREC_PRODUCT)
    (ht : termOKC t = true → 5 ≤ outLvC t PREC_SUM)
    (hs : sumNeg t = none) : PC cfg t :=
  ⟨fun hg => ⟨hA hg, fun h => mulKC_of_A (hA hg) (hf h), fun h => addKC_of_A (hA hg) (ht h)⟩,
   fun _ x hx => by rw [hs] at hx; cases hx⟩

theorem GC_int (n : Int) : GC (if n < 0 then 6 else 7) (if n < 0 then [minus, num n.natAbs] else [num n.toNat]) (denInt n) := by
  unfold denInt
  by_cases h : n < 0
  · simp only [h, if_true]
    exact GC.neg (xs := [num n.natAbs]) ((GC.num _).weaken (by omega) (by omega))
  · simp only [h, if_false]
    exact GC.num _

theorem PC_ilit (n : Int) : PC cfg (.ilit n) := by
  refine mkPC (fun _ => ?_) (fun h => by simpa [factorOKC] using h) (fun h => by simpa [termOKC] using h) rfl
  intro p
  refine ⟨denInt n, ?_, by rw [den]; exact SEq.refl _⟩
  simpa [outLvC, printC] using GC_int n

theorem PC_pyint (n : Int) : PC cfg (.pyint n) := by
  refine mkPC (fun _ => ?_) (fun h => by simpa [factorOKC] using h) (fun h => by simpa [termOKC] using h) rfl
  intro p
  refine ⟨denInt n, ?_, by rw [den]; exact SEq.refl _⟩
  by_cases h : n < 0
  · have := wrapGC' (GC_int n) (by split <;> omega) (decide (p > PREC_SUM))
    simpa [outLvC, printC, h] using this
  · have := GC_int n
    simpa [outLvC, printC, h] using this

theorem PC_rlit (t : String) : PC cfg (.rlit t) := by
  refine mkPC (fun _ => ?_) (fun h => by simpa [factorOKC] using h) (fun h => by simpa [termOKC] using h) rfl
  intro p; exact ⟨.real t, by simpa [outLvC, printC] using GC.rnum t, by rw [den]; exact SEq.refl _⟩

theorem PC_var (x : String) : PC cfg (.var x) := by
  refine mkPC (fun _ => ?_) (fun h => by simpa [factorOKC] using h) (fun h => by simpa [termOKC] using h) rfl
  intro p; exact ⟨.var x, by simpa [outLvC, printC] using GC.ident x, by rw [den]; exact SEq.refl _⟩

theorem PC_blit (b : Bool) : PC cfg (.blit b) := by
  refine mkPC (fun _ => ?_) (fun h => by simpa [factorOKC] using h) (fun h => by simpa [termOKC] using h) rfl
  intro p
  refine ⟨.bool b, ?_, by rw [den]; exact SEq.refl _⟩
  cases b <;> simp [outLvC, printC]
  · exact GC.fls
  · exact GC.tru

theorem PC_quot (par : Bool) (a b : E) (ha : PC cfg a) (hb : PC cfg b) : PC cfg (.quot par a b) := by
  refine mkPC (fun hg => ?_) (fun h => by simpa [factorOKC] using h) (fun h => by simpa [termOKC] using h) rfl
  simp only [GoodCm, Bool.and_eq_true, Bool.or_eq_true, decide_eq_true_eq] at hg
  obtain ⟨⟨⟨hga, hgb⟩, hla⟩, hlb⟩ := hg
  obtain ⟨hAa, _⟩ := ha.1 hga
  obtain ⟨hAb, _⟩ := hb.1 hgb
  intro p
  obtain ⟨sa, hsa, hea⟩ := hAa PREC_PRODUCT
  obtain ⟨sb, hsb, heb⟩ := hAb PREC_PRODUCT
  have hden := wrapGC' hsb (outLvC_le _ _) (forceDen cfg b)
  have hden6 : GC 6 (cparenIf (forceDen cfg b) (printC cfg b PREC_PRODUCT)) sb := by
    refine hden.weaken ?_ (by split <;> simp [outLvC_le])
    cases hlb with
    | inl h => simp [h]
    | inr h => split <;> omega
  have hbody := GC.div (hsa.weaken hla (outLvC_le _ _)) hden6
  have := wrapGC hbody (by omega) par (decide (p > PREC_PRODUCT))
  refine ⟨_, ?_, by rw [den]; exact SEq.div hea heb⟩
  simpa [outLvC, printC] using this

/-- powers are calls: both arguments are full expressions, the call is a primary expression -/
theorem PC_pow (par : Bool) (a b : E) (ha : PC cfg a) (hb : PC cfg b) : PC cfg (.pow par a b) := by
  refine mkPC (fun hg => ?_) (fun h => by simpa [factorOKC] using h) (fun h => by simpa [termOKC] using h) rfl
  simp only [GoodCm, Bool.and_eq_true] at hg
  obtain ⟨hga, hgb⟩ := hg
  obtain ⟨hAa, _⟩ := ha.1 hga
  obtain ⟨hAb, _⟩ := hb.1 hgb
  intro p
  obtain ⟨sa, hsa, hea⟩ := hAa PREC_NONE
  obtain ⟨sb, hsb, heb⟩ := hAb PREC_NONE
  have hbody := GC.call (hsa.weaken (Nat.zero_le _) (outLvC_le _ _)) (hsb.weaken (Nat.zero_le _) (outLvC_le _ _))
  have := wrapGC hbody (by omega) par (decide (p > PREC_NONE))
  refine ⟨_, ?_, by rw [den]; exact SEq.pow hea heb⟩
  simpa [outLvC, printC] using this

theorem PC_cmp (o : CmpOp) (a b : E) (ha : PC cfg a) (hb : PC cfg b) : PC cfg (.cmp o a b) := by
  refine mkPC (fun hg => ?_) (fun h => by simpa [factorOKC] using h) (fun h => by simpa [termOKC] using h) rfl
  simp only [GoodCm, Bool.and_eq_true, decide_eq_true_eq] at hg
  obtain ⟨⟨⟨hga, hgb⟩, hla⟩, hlb⟩ := hg
  obtain ⟨hAa, _⟩ := ha.1 hga
  obtain ⟨hAb, _⟩ := hb.1 hgb
  intro p
  obtain ⟨sa, hsa, hea⟩ := hAa PREC_COMPARISON
  obtain ⟨sb, hsb, heb⟩ := hAb PREC_COMPARISON
  refine ⟨.cmp o sa sb, ?_, by rw [den]; exact SEq.cmp hea heb⟩
  cases hr : isRel o with
  | true =>
    simp only [hr, if_true] at hla hlb
    have hbody := GC.rel hr (hsa.weaken hla (outLvC_le _ _)) (hsb.weaken hlb (outLvC_le _ _))
    have := wrapGC' hbody (by omega) (decide (p > PREC_COMPARISON))
    simpa [outLvC, printC, hr] using this
  | false =>
    simp only [hr, Bool.false_eq_true, if_false] at hla hlb
    have hbody := GC.equ hr (hsa.weaken hla (outLvC_le _ _)) (hsb.weaken hlb (outLvC_le _ _))
    have := wrapGC' hbody (by omega) (decide (p > PREC_COMPARISON))
    simpa [outLvC, printC, hr] using this

theorem PC_lnot (a : E) (ha : PC cfg a) : PC cfg (.lnot a) := by
  refine mkPC (fun hg => ?_) (fun h => by simpa [factorOKC] using h) (fun h => by simpa [termOKC] using h) rfl
  simp only [GoodCm, Bool.and_eq_true, decide_eq_true_eq] at hg
  obtain ⟨hga, hla⟩ := hg
  obtain ⟨hAa, _⟩ := ha.1 hga
  intro p
  obtain ⟨sa, hsa, hea⟩ := hAa PREC_UNARY
  have hbody := GC.not (hsa.weaken hla (outLvC_le _ _))
  have := wrapGC' hbody (by omega) (decide (p > PREC_UNARY))
  refine ⟨_, ?_, by rw [den]; exact SEq.not hea⟩
  simpa [outLvC, printC] using this

theorem PC_land (xs : List E) (hxs : ∀ c ∈ xs, PC cfg c) : PC cfg (.land xs) := by
  refine mkPC (fun hg => ?_) (fun h => by simpa [factorOKC] using h) (fun h => by simpa [termOKC] using h) rfl
  match xs, hxs, hg with
  | [], _, hg => simp [GoodCm] at hg
  | c :: cs, hxs, hg =>
    simp only [GoodCm, Bool.and_eq_true, decide_eq_true_eq] at hg
    obtain ⟨⟨hgc, hlc⟩, hgs⟩ := hg
    obtain ⟨hAc, _⟩ := (hxs c (by simp)).1 hgc
    intro p
    obtain ⟨sc, hsc, hec⟩ := hAc PREC_LOGICAL_AND
    obtain ⟨s, hs, he⟩ := andC_lemma cs (fun c' hc' => hxs c' (by simp [hc'])) hgs _ sc
      (hsc.weaken hlc (outLvC_le _ _))
    have := wrapGC' hs (by omega) (decide (p > PREC_LOGICAL_AND))
    refine ⟨_, ?_, by rw [den]; exact SEq.trans he (denFold_congr_and hec cs)⟩
    simpa [outLvC, printC, printJoinC] using this

theorem PC_lor (xs : List E) (hxs : ∀ c ∈ xs, PC cfg c) : PC cfg (.lor xs) := by
  refine mkPC (fun hg => ?_) (fun h => by simpa [factorOKC] using h) (fun h => by simpa [termOKC] using h) rfl
  match xs, hxs, hg with
  | [], _, hg => simp [GoodCm] at hg
  | c :: cs, hxs, hg =>
    simp only [GoodCm, Bool.and_eq_true] at hg
    obtain ⟨hgc, hgs⟩ := hg
    obtain ⟨hAc, _⟩ := (hxs c (by simp)).1 hgc
    intro p
    obtain ⟨sc, hsc, hec⟩ := hAc PREC_LOGICAL_OR
    obtain ⟨s, hs, he⟩ := orC_lemma cs (fun c' hc' => hxs c' (by simp [hc'])) hgs _ sc
      (hsc.weaken (Nat.zero_le _) (outLvC_le _ _))
    have := wrapGC' hs (by omega) (decide (p > PREC_LOGICAL_OR))
    refine ⟨_, ?_, by rw [den]; exact SEq.trans he (denFold_congr_or hec cs)⟩
    simpa [outLvC, printC, printJoinC] using this

end LokiModel.C06
