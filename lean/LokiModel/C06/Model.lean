import LokiModel.Expr.Basic
import LokiModel.Generated.C06Tables
/-!
# C06 model: the Fortran expression printer

`E` mirrors the Loki/pymbolic node classes the printer branches on; `printF cfg t p` mirrors, method by
method, `pymbolic.mapper.stringifier.StringifyMapper` → `loki.expression.mappers.LokiStringifyMapper` →
`loki.backend.fgen.FCodeMapper` for these classes (`parenthesize_if_needed(enclosing, mine)`, `join_rec`
with `force_parens_around` / `no_force_parens_around`, the minus detection of `map_sum`, the `-1` case of
`map_product`, `map_quotient` with `multiplicative_primitives`, `map_power`, `map_comparison`,
`map_logical_*`, `map_constant`'s sign parenthesising of bare Python numbers), producing *tokens*
(spacing and kind suffixes are irrelevant and stripped by the harness tokeniser).
`den t` is the meaning of the tree (n-ary sums/products fold left).  Core Lean only.
-/
namespace LokiModel.C06
open LokiModel.Expr LokiModel.Expr.Tok
open Tables

/-- printer configuration: which classes `multiplicative_primitives` contains -/
structure Cfg where
  mpProduct : Bool
  mpQuotient : Bool
deriving Repr, DecidableEq

def fcfg : Cfg := ⟨fortranMpProduct, fortranMpQuotient⟩

inductive E where
  | ilit (n : Int)                    -- IntLiteral (value may be negative)
  | rlit (txt : String)               -- FloatLiteral with unsigned text
  | blit (b : Bool)                   -- LogicLiteral
  | pyint (n : Int)                   -- bare Python int child (Loki's `-1`)
  | var (s : String)                  -- scalar variable
  | sum (par : Bool) (xs : List E)    -- Sum / ParenthesisedAdd
  | prod (par : Bool) (xs : List E)   -- Product / ParenthesisedMul
  | quot (par : Bool) (a b : E)       -- Quotient / ParenthesisedDiv
  | pow (par : Bool) (a b : E)        -- Power / ParenthesisedPow
  | cmp (o : CmpOp) (a b : E)
  | lnot (a : E)
  | land (xs : List E)
  | lor (xs : List E)
deriving Repr, Inhabited

def paren (ts : List Tok) : List Tok := [lp] ++ ts ++ [rp]
def parenIf (b : Bool) (ts : List Tok) : List Tok := if b then paren ts else ts

/-- `expr.children[0] == -1` as Python evaluates it for the modelled classes -/
def isMinusOne : E → Bool
  | .pyint n => n == -1
  | .ilit n => n == -1
  | _ => false

/-- `pmbl.is_zero(expr.children[0] + 1)`: true only for a bare Python `-1` -/
def isPyMinusOne : E → Bool
  | .pyint n => n == -1
  | _ => false

/-- `isinstance(b, cfg.multiplicative_primitives) and not isinstance(b, parenthesised_multiplicative_primitives)` -/
def forceDen (cfg : Cfg) : E → Bool
  | .prod false _ => cfg.mpProduct
  | .quot false _ _ => cfg.mpQuotient
  | _ => false

/-- `FCodeMapper.map_power`'s test on the base: `isinstance(base, Power) and not ParenthesisedPow`, or the printed base starts with `-` -/
def powBaseParen (a : E) (printed : List Tok) : Bool :=
  (match a with | .pow false _ _ => true | _ => false) || (printed.head? == some minus)

/-- one term of `map_sum`: `np` = the minus-term operand tokens if the child is a minus-one product, `pf` = the child
printed at `PREC_SUM` -/
def termTok (np : Option (List Tok)) (pf : List Tok) (first : Bool) : List Tok :=
  match np with
  | some ts => [minus] ++ ts
  | none => (if first then [] else [plus]) ++ pf

mutual
def printF (cfg : Cfg) : E → Nat → List Tok
  | .ilit n, _ => if n < 0 then [minus, num n.natAbs] else [num n.toNat]
  | .rlit t, _ => [rnum t]
  | .blit b, _ => [if b then tru else fls]
  | .pyint n, p => if n < 0 then parenIf (decide (p > PREC_SUM)) [minus, num n.natAbs] else [num n.toNat]
  | .var s, _ => [id s]
  | .sum par xs, p =>
      if par then paren (printTerms cfg xs true) else parenIf (decide (p > PREC_SUM)) (printTerms cfg xs true)
  -- `map_product`: the two-children `-1` case first
  | .prod par [c, x], p =>
      let body := if isMinusOne c then [minus] ++ printF cfg x PREC_PRODUCT
                  else printF cfg c PREC_PRODUCT ++ [star] ++ printF cfg x PREC_PRODUCT
      if par then paren body else parenIf (decide (p > PREC_PRODUCT)) body
  | .prod par xs, p =>
      if par then paren (printJoin cfg star xs PREC_PRODUCT true)
      else parenIf (decide (p > PREC_PRODUCT)) (printJoin cfg star xs PREC_PRODUCT true)
  | .quot par a b, p =>
      let body := printF cfg a PREC_PRODUCT ++ [slash] ++ parenIf (forceDen cfg b) (printF cfg b PREC_PRODUCT)
      if par then paren body else parenIf (decide (p > PREC_PRODUCT)) body
  -- `FCodeMapper.map_power`: a base that is itself an unparenthesised power, or whose text starts with a sign, is parenthesised
  | .pow par a b, p =>
      let body := parenIf (powBaseParen a (printF cfg a PREC_POWER)) (printF cfg a PREC_POWER) ++ [Tok.pow] ++ printF cfg b PREC_POWER
      if par then paren body else parenIf (decide (p > PREC_POWER)) body
  | .cmp o a b, p =>
      parenIf (decide (p > PREC_COMPARISON)) (printF cfg a PREC_COMPARISON ++ [Tok.cmp o] ++ printF cfg b PREC_COMPARISON)
  | .lnot a, p => parenIf (decide (p > PREC_UNARY)) ([Tok.not] ++ printF cfg a PREC_UNARY)
  | .land xs, p => parenIf (decide (p > PREC_LOGICAL_AND)) (printJoin cfg Tok.and xs PREC_LOGICAL_AND true)
  | .lor xs, p => parenIf (decide (p > PREC_LOGICAL_OR)) (printJoin cfg Tok.or xs PREC_LOGICAL_OR true)
/-- `join_rec(op, children, prec)` (no class is in the forced-parentheses tuple for the modelled node kinds) -/
def printJoin (cfg : Cfg) (op : Tok) : List E → Nat → Bool → List Tok
  | [], _, _ => []
  | c :: cs, p, first => (if first then [] else [op]) ++ printF cfg c p ++ printJoin cfg op cs p false
/-- `get_op_prec_expr` of `map_sum`: for a child `Product((-1, …))` (bare Python `-1`, not `ParenthesisedMul`)
the tokens of the rest printed at `PREC_PRODUCT` (`children[1]` itself, or `Product(children[1:])`, which
goes through `map_product` again); `none` for every other child -/
def negPart (cfg : Cfg) : E → Option (List Tok)
  | .prod false [m] => if isPyMinusOne m then some [] else none
  | .prod false [m, x] => if isPyMinusOne m then some (printF cfg x PREC_PRODUCT) else none
  | .prod false [m, c2, x2] =>
      if isPyMinusOne m then
        some (if isMinusOne c2 then [minus] ++ printF cfg x2 PREC_PRODUCT
              else printF cfg c2 PREC_PRODUCT ++ [star] ++ printF cfg x2 PREC_PRODUCT)
      else none
  | .prod false (m :: c2 :: x2 :: x3 :: rest) =>
      if isPyMinusOne m then some (printTail cfg star (m :: c2 :: x2 :: x3 :: rest) PREC_PRODUCT) else none
  | _ => none
/-- `printJoin` of the tail of a list -/
def printTail (cfg : Cfg) (op : Tok) : List E → Nat → List Tok
  | [], _ => []
  | _ :: cs, p => printJoin cfg op cs p true
/-- the term list of `map_sum`: `- <rest>` for minus-one products, `+ child` (printed at `PREC_SUM`) otherwise;
the leading `+` is dropped. -/
def printTerms (cfg : Cfg) : List E → Bool → List Tok
  | [], _ => []
  | c :: cs, first => termTok (negPart cfg c) (printF cfg c PREC_SUM) first ++ printTerms cfg cs false
end

/-- meaning of an integer constant -/
def denInt (n : Int) : S := if n < 0 then .neg (.int n.natAbs) else .int n.toNat

mutual
def den : E → S
  | .ilit n => denInt n
  | .rlit t => .real t
  | .blit b => .bool b
  | .pyint n => denInt n
  | .var s => .var s
  | .sum _ [] => .int 0
  | .sum _ (x :: xs) => denFold .add (den x) xs
  | .prod _ [] => .int 1
  | .prod _ (x :: xs) => denFold .mul (den x) xs
  | .quot _ a b => .div (den a) (den b)
  | .pow _ a b => .pow (den a) (den b)
  | .cmp o a b => .cmp o (den a) (den b)
  | .lnot a => .not (den a)
  | .land [] => .bool true
  | .land (x :: xs) => denFold .and (den x) xs
  | .lor [] => .bool false
  | .lor (x :: xs) => denFold .or (den x) xs
def denFold (f : S → S → S) : S → List E → S
  | acc, [] => acc
  | acc, c :: cs => denFold f (f acc (den c)) cs
end

end LokiModel.C06
