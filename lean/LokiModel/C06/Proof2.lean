import LokiModel.C06.Proof1
/-! C06 proof, part 2: the invariant and the list lemmas (sums, products, and/or chains). -/
namespace LokiModel.C06
open LokiModel.Expr Tables Tok

variable (cfg : Cfg)

/-- the printed text of `t` is derivable at its level with a tree equal in value to `den t` -/
def A (t : E) : Prop := ∀ p, ∃ s, G (outLv t p) (printF cfg t p) s ∧ SEq s (den t)
/-- continuation form for a factor following `X *` -/
def MulK (t : E) : Prop :=
  ∀ X acc, G 5 X acc → ∃ s, G 5 (X ++ [star] ++ printF cfg t PREC_PRODUCT) s ∧ SEq s (.mul acc (den t))
/-- continuation form for a term following `X +` -/
def AddK (t : E) : Prop :=
  ∀ X acc, G 4 X acc → ∃ s, G 4 (X ++ [plus] ++ printF cfg t PREC_SUM) s ∧ SEq s (.add acc (den t))
/-- continuation form for a minus term `Product((-1, x))` following `X` -/
def SubK (t : E) : Prop :=
  ∀ x, sumNeg t = some x → ∀ X acc, G 4 X acc →
    ∃ s, G 4 (X ++ [minus] ++ printF cfg x PREC_PRODUCT) s ∧ SEq s (.add acc (den t))

def P (t : E) : Prop :=
  Good cfg t = true → A cfg t ∧ (factorOK t = true → MulK cfg t) ∧ (termOK t = true → AddK cfg t) ∧ SubK cfg t

variable {cfg}

theorem mulK_of_A {t : E} (hA : A cfg t) (h6 : 6 ≤ outLv t PREC_PRODUCT) : MulK cfg t := by
  intro X acc hX
  obtain ⟨s, hs, he⟩ := hA PREC_PRODUCT
  exact ⟨_, G.mul hX (hs.weaken h6 (outLv_le _ _)), SEq.mul (SEq.refl _) he⟩

theorem addK_of_A {t : E} (hA : A cfg t) (h5 : 5 ≤ outLv t PREC_SUM) : AddK cfg t := by
  intro X acc hX
  obtain ⟨s, hs, he⟩ := hA PREC_SUM
  exact ⟨_, G.add hX (hs.weaken h5 (outLv_le _ _)), SEq.add (SEq.refl _) he⟩

/-- later factors of a product -/
theorem factors_lemma : ∀ cs : List E, (∀ c ∈ cs, P cfg c) → goodFactors cfg cs = true →
    ∀ X acc, G 5 X acc →
      ∃ s, G 5 (X ++ printJoin cfg star cs PREC_PRODUCT false) s ∧ SEq s (denFold .mul acc cs) := by
  intro cs
  induction cs with
  | nil => intro _ _ X acc hX; exact ⟨acc, by simpa [printJoin] using hX, SEq.refl _⟩
  | cons c cs ih =>
    intro hP hg X acc hX
    simp only [goodFactors, Bool.and_eq_true] at hg
    obtain ⟨⟨hgc, hfc⟩, hgs⟩ := hg
    obtain ⟨_, hM, _, _⟩ := hP c (by simp) hgc
    obtain ⟨s1, hs1, he1⟩ := hM hfc X acc hX
    obtain ⟨s2, hs2, he2⟩ := ih (fun c' hc' => hP c' (by simp [hc'])) hgs _ s1 hs1
    refine ⟨s2, ?_, ?_⟩
    · simpa [printJoin, List.append_assoc] using hs2
    · simp only [denFold]; exact SEq.trans he2 (denFold_congr_mul he1 cs)

theorem negPart_none {c : E} (h : sumNegAny c = false) : negPart cfg c = none := by
  unfold sumNegAny at h
  split at h
  · rename_i m tl
    match tl with
    | [] => simp [negPart, h]
    | [x] => simp [negPart, h]
    | [c2, x2] => simp [negPart, h]
    | c2 :: x2 :: x3 :: rest => simp [negPart, h]
  · rename_i hne
    unfold negPart
    split <;> first | rfl | (exfalso; exact hne _ _ rfl)

theorem negPart_some {c x : E} (h : sumNeg c = some x) : negPart cfg c = some (printF cfg x PREC_PRODUCT) := by
  unfold sumNeg at h
  split at h
  · rename_i m x'
    split at h
    · rename_i hm
      cases h
      simp [negPart, hm]
    · cases h
  · cases h

/-- later terms of a sum -/
theorem terms_lemma : ∀ cs : List E, (∀ c ∈ cs, P cfg c) → goodTerms cfg cs = true →
    ∀ X acc, G 4 X acc →
      ∃ s, G 4 (X ++ printTerms cfg cs false) s ∧ SEq s (denFold .add acc cs) := by
  intro cs
  induction cs with
  | nil => intro _ _ X acc hX; exact ⟨acc, by simpa [printTerms] using hX, SEq.refl _⟩
  | cons c cs ih =>
    intro hP hg X acc hX
    simp only [goodTerms, Bool.and_eq_true] at hg
    obtain ⟨⟨hgc, htc⟩, hgs⟩ := hg
    obtain ⟨_, _, hAdd, hSub⟩ := hP c (by simp) hgc
    have step : ∃ s1, G 4 (X ++ termTok (negPart cfg c) (printF cfg c PREC_SUM) false) s1 ∧ SEq s1 (.add acc (den c)) := by
      unfold termCond at htc
      by_cases hn : sumNegAny c = true
      · rw [if_pos hn] at htc
        obtain ⟨x, hx⟩ := Option.isSome_iff_exists.mp htc
        obtain ⟨s1, hs1, he1⟩ := hSub x hx X acc hX
        refine ⟨s1, ?_, he1⟩
        rw [negPart_some hx]
        simpa [termTok, List.append_assoc] using hs1
      · have hn' : sumNegAny c = false := by simpa using hn
        rw [if_neg hn] at htc
        obtain ⟨s1, hs1, he1⟩ := hAdd htc X acc hX
        refine ⟨s1, ?_, he1⟩
        rw [negPart_none hn']
        simpa [termTok, List.append_assoc] using hs1
    obtain ⟨s1, hs1, he1⟩ := step
    obtain ⟨s2, hs2, he2⟩ := ih (fun c' hc' => hP c' (by simp [hc'])) hgs _ s1 hs1
    refine ⟨s2, ?_, ?_⟩
    · simpa [printTerms, List.append_assoc] using hs2
    · simp only [denFold]; exact SEq.trans he2 (denFold_congr_add he1 cs)

/-- later operands of an `.and.` chain -/
theorem and_lemma : ∀ cs : List E, (∀ c ∈ cs, P cfg c) → goodJoin cfg 2 PREC_LOGICAL_AND cs = true →
    ∀ X acc, G 1 X acc →
      ∃ s, G 1 (X ++ printJoin cfg Tok.and cs PREC_LOGICAL_AND false) s ∧ SEq s (denFold .and acc cs) := by
  intro cs
  induction cs with
  | nil => intro _ _ X acc hX; exact ⟨acc, by simpa [printJoin] using hX, SEq.refl _⟩
  | cons c cs ih =>
    intro hP hg X acc hX
    simp only [goodJoin, Bool.and_eq_true, decide_eq_true_eq] at hg
    obtain ⟨⟨hgc, hlv⟩, hgs⟩ := hg
    obtain ⟨hA, _⟩ := hP c (by simp) hgc
    obtain ⟨sc, hsc, hec⟩ := hA PREC_LOGICAL_AND
    have hs1 : G 1 (X ++ [Tok.and] ++ printF cfg c PREC_LOGICAL_AND) (.and acc sc) :=
      G.and hX (hsc.weaken hlv (outLv_le _ _))
    obtain ⟨s2, hs2, he2⟩ := ih (fun c' hc' => hP c' (by simp [hc'])) hgs _ _ hs1
    refine ⟨s2, ?_, ?_⟩
    · simpa [printJoin, List.append_assoc] using hs2
    · simp only [denFold]; exact SEq.trans he2 (denFold_congr_and (SEq.and (SEq.refl _) hec) cs)

theorem or_lemma : ∀ cs : List E, (∀ c ∈ cs, P cfg c) → goodJoin cfg 1 PREC_LOGICAL_OR cs = true →
    ∀ X acc, G 0 X acc →
      ∃ s, G 0 (X ++ printJoin cfg Tok.or cs PREC_LOGICAL_OR false) s ∧ SEq s (denFold .or acc cs) := by
  intro cs
  induction cs with
  | nil => intro _ _ X acc hX; exact ⟨acc, by simpa [printJoin] using hX, SEq.refl _⟩
  | cons c cs ih =>
    intro hP hg X acc hX
    simp only [goodJoin, Bool.and_eq_true, decide_eq_true_eq] at hg
    obtain ⟨⟨hgc, hlv⟩, hgs⟩ := hg
    obtain ⟨hA, _⟩ := hP c (by simp) hgc
    obtain ⟨sc, hsc, hec⟩ := hA PREC_LOGICAL_OR
    have hs1 : G 0 (X ++ [Tok.or] ++ printF cfg c PREC_LOGICAL_OR) (.or acc sc) :=
      G.or hX (hsc.weaken hlv (outLv_le _ _))
    obtain ⟨s2, hs2, he2⟩ := ih (fun c' hc' => hP c' (by simp [hc'])) hgs _ _ hs1
    refine ⟨s2, ?_, ?_⟩
    · simpa [printJoin, List.append_assoc] using hs2
    · simp only [denFold]; exact SEq.trans he2 (denFold_congr_or (SEq.or (SEq.refl _) hec) cs)

end LokiModel.C06
