import LokiModel.Sexp
import LokiModel.C06.Model
/-! Wire format of `E`, `Tok`, `S` for the C06 driver (infrastructure). -/
namespace LokiModel.C06
open LokiModel.Expr Sexp

def decCmp : Sexp → Option CmpOp
  | atom "eq" => some .eq | atom "ne" => some .ne | atom "lt" => some .lt
  | atom "le" => some .le | atom "gt" => some .gt | atom "ge" => some .ge
  | _ => none

def encCmp : CmpOp → String
  | .eq => "eq" | .ne => "ne" | .lt => "lt" | .le => "le" | .gt => "gt" | .ge => "ge"

mutual
def decE : Sexp → Option E
  | list [atom "ilit", n] => n.toInt?.map .ilit
  | list [atom "rlit", t] => t.toStr?.map .rlit
  | list [atom "blit", b] => b.toBool?.map .blit
  | list [atom "pyint", n] => n.toInt?.map .pyint
  | list [atom "var", s] => s.toStr?.map .var
  | list (atom "sum" :: par :: xs) => do pure (.sum (← par.toBool?) (← decEs xs))
  | list (atom "prod" :: par :: xs) => do pure (.prod (← par.toBool?) (← decEs xs))
  | list [atom "quot", par, a, b] => do pure (.quot (← par.toBool?) (← decE a) (← decE b))
  | list [atom "pow", par, a, b] => do pure (.pow (← par.toBool?) (← decE a) (← decE b))
  | list [atom "cmp", o, a, b] => do pure (.cmp (← decCmp o) (← decE a) (← decE b))
  | list [atom "lnot", a] => do pure (.lnot (← decE a))
  | list (atom "land" :: xs) => do pure (.land (← decEs xs))
  | list (atom "lor" :: xs) => do pure (.lor (← decEs xs))
  | _ => none
def decEs : List Sexp → Option (List E)
  | [] => some []
  | x :: xs => do pure ((← decE x) :: (← decEs xs))
end

def encTok : Tok → Sexp
  | .num n => atom s!"num:{n}"
  | .rnum t => list [atom "rnum", str t]
  | .id s => list [atom "id", str s]
  | .tru => atom "tru" | .fls => atom "fls"
  | .plus => atom "plus" | .minus => atom "minus" | .star => atom "star" | .slash => atom "slash"
  | .pow => atom "pow" | .lp => atom "lp" | .rp => atom "rp"
  | .cmp o => atom (encCmp o) | .not => atom "not" | .and => atom "and" | .or => atom "or"

def encS : S → Sexp
  | .int n => list [atom "int", ofNat n]
  | .real t => list [atom "real", str t]
  | .var s => list [atom "var", str s]
  | .bool b => list [atom "bool", ofBool b]
  | .neg a => list [atom "neg", encS a]
  | .add a b => list [atom "add", encS a, encS b]
  | .sub a b => list [atom "sub", encS a, encS b]
  | .mul a b => list [atom "mul", encS a, encS b]
  | .div a b => list [atom "div", encS a, encS b]
  | .pow a b => list [atom "pow", encS a, encS b]
  | .cmp o a b => list [atom "cmp", atom (encCmp o), encS a, encS b]
  | .not a => list [atom "not", encS a]
  | .and a b => list [atom "and", encS a, encS b]
  | .or a b => list [atom "or", encS a, encS b]

end LokiModel.C06
