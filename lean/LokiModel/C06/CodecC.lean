import LokiModel.Sexp
import LokiModel.C06.Codec
import LokiModel.C06.ModelC
/-! Wire format of the C tokens `CTok` for the C06 driver (infrastructure). -/
namespace LokiModel.C06
open LokiModel.Expr Sexp

def encCTok : CTok → Sexp
  | .num n => atom s!"num:{n}"
  | .rnum t => list [atom "rnum", str t]
  | .id s => list [atom "id", str s]
  | .tru => atom "tru" | .fls => atom "fls"
  | .plus => atom "plus" | .minus => atom "minus" | .star => atom "star" | .slash => atom "slash"
  | .lp => atom "lp" | .rp => atom "rp"
  | .cmp o => atom (encCmp o) | .bang => atom "bang" | .andand => atom "andand" | .oror => atom "oror"
  | .powfn => atom "powfn" | .comma => atom "comma" | .decr => atom "decr"

end LokiModel.C06
