import LokiModel.C06.ProofC1
/-! C06 proof for the C backend, part 2: the list lemmas (sums, products, `&&` / `||` chains). -/
namespace LokiModel.C06
open LokiModel.Expr Tables CTok

variable {cfg : Cfg}

/-- later factors of a product -/
theorem factorsC_lemma : ∀ cs : List E, (∀ c ∈ cs, PC cfg c) → goodFactorsC cfg cs = true →
    ∀ X acc, GC 5 X acc →
      ∃ s, GC 5 (X ++ printJoinC cfg star cs PREC_PRODUCT false) s ∧ SEq s (denFold .mul acc cs) := by
  intro cs
  induction cs with
  | nil => intro _ _ X acc hX; exact ⟨acc, by simpa [printJoinC] using hX, SEq.refl _⟩
  | cons c cs ih =>
    intro hP hg X acc hX
    simp only [goodFactorsC, Bool.and_eq_true] at hg
    obtain ⟨⟨hgc, hfc⟩, hgs⟩ := hg
    obtain ⟨_, hM, _⟩ := (hP c (by simp)).1 hgc
    obtain ⟨s1, hs1, he1⟩ := hM hfc X acc hX
    obtain ⟨s2, hs2, he2⟩ := ih (fun c' hc' => hP c' (by simp [hc'])) hgs _ s1 hs1
    refine ⟨s2, ?_, ?_⟩
    · simpa [printJoinC, List.append_assoc] using hs2
    · simp only [denFold]; exact SEq.trans he2 (denFold_congr_mul he1 cs)

theorem negPartC_none {c : E} (h : sumNegAny c = false) : negPartC cfg c = none := by
  unfold sumNegAny at h
  split at h
  · rename_i m tl
    match tl with
    | [] => simp [negPartC, h]
    | [x] => simp [negPartC, h]
    | [c2, x2] => simp [negPartC, h]
    | c2 :: x2 :: x3 :: rest => simp [negPartC, h]
  · rename_i hne
    unfold negPartC
    split <;> first | rfl | (exfalso; exact hne _ _ rfl)

theorem negPartC_some {c x : E} (h : sumNeg c = some x) : negPartC cfg c = some (printC cfg x PREC_PRODUCT) := by
  unfold sumNeg at h
  split at h
  · rename_i m x'
    split at h
    · rename_i hm
      cases h
      simp [negPartC, hm]
    · cases h
  · cases h

/-- later terms of a sum -/
theorem termsC_lemma : ∀ cs : List E, (∀ c ∈ cs, PC cfg c) → goodTermsC cfg cs = true →
    ∀ X acc, GC 4 X acc →
      ∃ s, GC 4 (X ++ printTermsC cfg cs false) s ∧ SEq s (denFold .add acc cs) := by
  intro cs
  induction cs with
  | nil => intro _ _ X acc hX; exact ⟨acc, by simpa [printTermsC] using hX, SEq.refl _⟩
  | cons c cs ih =>
    intro hP hg X acc hX
    simp only [goodTermsC, Bool.and_eq_true] at hg
    obtain ⟨⟨hgc, htc⟩, hgs⟩ := hg
    have step : ∃ s1, GC 4 (X ++ termTokC (negPartC cfg c) (printC cfg c PREC_SUM) false) s1 ∧ SEq s1 (.add acc (den c)) := by
      unfold termCondC at htc
      by_cases hn : sumNegAny c = true
      · rw [if_pos hn] at htc
        obtain ⟨x, hx⟩ := Option.isSome_iff_exists.mp htc
        obtain ⟨s1, hs1, he1⟩ := (hP c (by simp)).2 hgc x hx X acc hX
        refine ⟨s1, ?_, he1⟩
        rw [negPartC_some hx]
        simpa [termTokC, List.append_assoc] using hs1
      · have hn' : sumNegAny c = false := by simpa using hn
        rw [if_neg hn] at htc
        obtain ⟨_, _, hAdd⟩ := (hP c (by simp)).1 (goodCm_false_of_true hgc hn')
        obtain ⟨s1, hs1, he1⟩ := hAdd htc X acc hX
        refine ⟨s1, ?_, he1⟩
        rw [negPartC_none hn']
        simpa [termTokC, List.append_assoc] using hs1
    obtain ⟨s1, hs1, he1⟩ := step
    obtain ⟨s2, hs2, he2⟩ := ih (fun c' hc' => hP c' (by simp [hc'])) hgs _ s1 hs1
    refine ⟨s2, ?_, ?_⟩
    · simpa [printTermsC, List.append_assoc] using hs2
    · simp only [denFold]; exact SEq.trans he2 (denFold_congr_add he1 cs)

/-- later operands of an `&&` chain -/
theorem andC_lemma : ∀ cs : List E, (∀ c ∈ cs, PC cfg c) → goodJoinC cfg 2 PREC_LOGICAL_AND cs = true →
    ∀ X acc, GC 1 X acc →
      ∃ s, GC 1 (X ++ printJoinC cfg andand cs PREC_LOGICAL_AND false) s ∧ SEq s (denFold .and acc cs) := by
  intro cs
  induction cs with
  | nil => intro _ _ X acc hX; exact ⟨acc, by simpa [printJoinC] using hX, SEq.refl _⟩
  | cons c cs ih =>
    intro hP hg X acc hX
    simp only [goodJoinC, Bool.and_eq_true, decide_eq_true_eq] at hg
    obtain ⟨⟨hgc, hlv⟩, hgs⟩ := hg
    obtain ⟨hA, _⟩ := (hP c (by simp)).1 hgc
    obtain ⟨sc, hsc, hec⟩ := hA PREC_LOGICAL_AND
    have hs1 : GC 1 (X ++ [andand] ++ printC cfg c PREC_LOGICAL_AND) (.and acc sc) :=
      GC.and hX (hsc.weaken hlv (outLvC_le _ _))
    obtain ⟨s2, hs2, he2⟩ := ih (fun c' hc' => hP c' (by simp [hc'])) hgs _ _ hs1
    refine ⟨s2, ?_, ?_⟩
    · simpa [printJoinC, List.append_assoc] using hs2
    · simp only [denFold]; exact SEq.trans he2 (denFold_congr_and (SEq.and (SEq.refl _) hec) cs)

theorem orC_lemma : ∀ cs : List E, (∀ c ∈ cs, PC cfg c) → goodJoinC cfg 1 PREC_LOGICAL_OR cs = true →
    ∀ X acc, GC 0 X acc →
      ∃ s, GC 0 (X ++ printJoinC cfg oror cs PREC_LOGICAL_OR false) s ∧ SEq s (denFold .or acc cs) := by
  intro cs
  induction cs with
  | nil => intro _ _ X acc hX; exact ⟨acc, by simpa [printJoinC] using hX, SEq.refl _⟩
  | cons c cs ih =>
    intro hP hg X acc hX
    simp only [goodJoinC, Bool.and_eq_true, decide_eq_true_eq] at hg
    obtain ⟨⟨hgc, hlv⟩, hgs⟩ := hg
    obtain ⟨hA, _⟩ := (hP c (by simp)).1 hgc
    obtain ⟨sc, hsc, hec⟩ := hA PREC_LOGICAL_OR
    have hs1 : GC 0 (X ++ [oror] ++ printC cfg c PREC_LOGICAL_OR) (.or acc sc) :=
      GC.or hX (hsc.weaken hlv (outLvC_le _ _))
    obtain ⟨s2, hs2, he2⟩ := ih (fun c' hc' => hP c' (by simp [hc'])) hgs _ _ hs1
    refine ⟨s2, ?_, ?_⟩
    · simpa [printJoinC, List.append_assoc] using hs2
    · simp only [denFold]; exact SEq.trans he2 (denFold_congr_or (SEq.or (SEq.refl _) hec) cs)

end LokiModel.C06
