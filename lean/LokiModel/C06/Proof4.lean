import LokiModel.C06.Proof3
/-! C06 proof, part 4: sums and products, and the assembly. -/
namespace LokiModel.C06
open LokiModel.Expr Tables Tok

variable {cfg : Cfg}

theorem den_minusOne {c : E} (h : isMinusOne c = true) : den c = .neg (.int 1) := by
  unfold isMinusOne at h
  split at h
  · rename_i n; have : n = -1 := by simpa using h
    subst this; rw [den]; rfl
  · rename_i n; have : n = -1 := by simpa using h
    subst this; rw [den]; rfl
  · cases h

theorem pyMinus_minus {c : E} (h : isPyMinusOne c = true) : isMinusOne c = true := by
  unfold isPyMinusOne at h
  split at h
  · simpa [isMinusOne] using h
  · cases h

theorem not_gt_sum_prod : ¬ (PREC_SUM > PREC_PRODUCT) := by have := prec_order; omega

/-- the first term of a sum prints like the child at `PREC_SUM` -/
theorem first_term {c : E} (hfc : firstCond c = true) :
    termTok (negPart cfg c) (printF cfg c PREC_SUM) true = printF cfg c PREC_SUM ∧ 4 ≤ outLv c PREC_SUM := by
  unfold firstCond at hfc
  by_cases hn : sumNegAny c = true
  · rw [if_pos hn] at hfc
    obtain ⟨x, hx⟩ := Option.isSome_iff_exists.mp hfc
    rw [negPart_some hx]
    unfold sumNeg at hx
    split at hx
    · rename_i m x'
      split at hx
      · rename_i hm
        cases hx
        have hm1 := pyMinus_minus hm
        simp [termTok, printF, hm1, outLv, parenIf, not_gt_sum_prod]
      · cases hx
    · cases hx
  · have hn' : sumNegAny c = false := by simpa using hn
    rw [if_neg hn] at hfc
    rw [negPart_none hn']
    exact ⟨by simp [termTok], by simpa using hfc⟩

theorem P_sum (par : Bool) (xs : List E) (hxs : ∀ c ∈ xs, P cfg c) : P cfg (.sum par xs) := by
  intro hg
  match xs, hxs, hg with
  | [], _, hg => simp [Good] at hg
  | c :: cs, hxs, hg =>
    simp only [Good, Bool.and_eq_true] at hg
    obtain ⟨⟨hgc, hfc⟩, hgs⟩ := hg
    obtain ⟨hAc, _, hAddc, _⟩ := hxs c (by simp) hgc
    obtain ⟨hft, hl4⟩ := first_term (cfg := cfg) hfc
    have hrest := terms_lemma cs (fun c' hc' => hxs c' (by simp [hc'])) hgs
    have hA : A cfg (.sum par (c :: cs)) := by
      intro p
      obtain ⟨sc, hsc, hec⟩ := hAc PREC_SUM
      obtain ⟨s, hs, he⟩ := hrest _ sc (hsc.weaken hl4 (outLv_le _ _))
      have := wrapG hs (by omega) par (decide (p > PREC_SUM))
      refine ⟨_, ?_, by rw [den]; exact SEq.trans he (denFold_congr_add hec cs)⟩
      simpa [outLv, printF, printTerms, hft] using this
    refine ⟨hA, fun h => mulK_of_A hA (by simpa [factorOK] using h), ?_, fun x hx => by simp [sumNeg] at hx⟩
    intro hto
    cases par with
    | true => exact addK_of_A hA (by simpa [termOK] using hto)
    | false =>
      simp only [termOK, Bool.and_eq_true, Bool.not_eq_true'] at hto
      obtain ⟨hny, hty⟩ := hto
      intro X acc hX
      obtain ⟨s1, hs1, he1⟩ := hAddc hty X acc hX
      obtain ⟨s2, hs2, he2⟩ := hrest _ s1 hs1
      refine ⟨s2, ?_, ?_⟩
      · have hnp : ¬ (PREC_SUM > PREC_SUM) := by omega
        simpa [printF, printTerms, negPart_none hny, termTok, parenIf, hnp, List.append_assoc] using hs2
      · rw [den]
        exact SEq.trans he2 (SEq.trans (denFold_congr_add he1 cs) (denFold_add_assoc acc (den c) cs))

/-- product printed as `c * cs…` -/
theorem prodA {c : E} {cs : List E} (hc : P cfg c) (hcs : ∀ c' ∈ cs, P cfg c') (hgc : Good cfg c = true)
    (hl : 5 ≤ outLv c PREC_PRODUCT) (hgs : goodFactors cfg cs = true) :
    ∃ s, G 5 (printF cfg c PREC_PRODUCT ++ printJoin cfg star cs PREC_PRODUCT false) s ∧
      SEq s (denFold .mul (den c) cs) := by
  obtain ⟨hAc, _⟩ := hc hgc
  obtain ⟨sc, hsc, hec⟩ := hAc PREC_PRODUCT
  obtain ⟨s, hs, he⟩ := factors_lemma cs hcs hgs _ sc (hsc.weaken hl (outLv_le _ _))
  exact ⟨s, hs, SEq.trans he (denFold_congr_mul hec cs)⟩

theorem prodMulK {c : E} {cs : List E} (hc : P cfg c) (hcs : ∀ c' ∈ cs, P cfg c') (hgc : Good cfg c = true)
    (hfc : factorOK c = true) (hgs : goodFactors cfg cs = true) :
    ∀ X acc, G 5 X acc → ∃ s, G 5 (X ++ [star] ++ (printF cfg c PREC_PRODUCT ++ printJoin cfg star cs PREC_PRODUCT false)) s ∧
      SEq s (.mul acc (denFold .mul (den c) cs)) := by
  intro X acc hX
  obtain ⟨_, hMc, _⟩ := hc hgc
  obtain ⟨s1, hs1, he1⟩ := hMc hfc X acc hX
  obtain ⟨s2, hs2, he2⟩ := factors_lemma cs hcs hgs _ s1 hs1
  refine ⟨s2, by simpa [List.append_assoc] using hs2, ?_⟩
  exact SEq.trans he2 (SEq.trans (denFold_congr_mul he1 cs) (denFold_mul_assoc acc (den c) cs))

theorem not_gt_prod : ¬ (PREC_PRODUCT > PREC_PRODUCT) := by omega

/-- a plain product node that is not of the two-children minus-one form -/
theorem P_prod_general (par : Bool) (c : E) (cs : List E)
    (hbody : ∀ p, printF cfg (.prod par (c :: cs)) p =
        if par then paren (printF cfg c PREC_PRODUCT ++ printJoin cfg star cs PREC_PRODUCT false)
        else parenIf (decide (p > PREC_PRODUCT)) (printF cfg c PREC_PRODUCT ++ printJoin cfg star cs PREC_PRODUCT false))
    (hlv : ∀ p, outLv (.prod par (c :: cs)) p = if par || decide (p > PREC_PRODUCT) then 7 else 5)
    (hfo : par = false → factorOK (.prod par (c :: cs)) = true → factorOK c = true)
    (hfo' : par = true → factorOK (.prod par (c :: cs)) = decide (6 ≤ outLv (.prod par (c :: cs)) PREC_PRODUCT))
    (hto : termOK (.prod par (c :: cs)) = decide (5 ≤ outLv (.prod par (c :: cs)) PREC_SUM))
    (hsn : sumNeg (.prod par (c :: cs)) = none)
    (hc : P cfg c) (hcs : ∀ c' ∈ cs, P cfg c') (hgc : Good cfg c = true)
    (hl : 5 ≤ outLv c PREC_PRODUCT) (hgs : goodFactors cfg cs = true) :
    A cfg (.prod par (c :: cs)) ∧ (factorOK (.prod par (c :: cs)) = true → MulK cfg (.prod par (c :: cs))) ∧
      (termOK (.prod par (c :: cs)) = true → AddK cfg (.prod par (c :: cs))) ∧ SubK cfg (.prod par (c :: cs)) := by
  have hA : A cfg (.prod par (c :: cs)) := by
    intro p
    obtain ⟨s, hs, he⟩ := prodA hc hcs hgc hl hgs
    have := wrapG hs (by omega) par (decide (p > PREC_PRODUCT))
    refine ⟨s, ?_, by rw [den]; exact he⟩
    rw [hbody, hlv]; exact this
  refine ⟨hA, ?_, fun h => addK_of_A hA (by rw [hto] at h; simpa using h), fun x hx => by rw [hsn] at hx; cases hx⟩
  intro hf
  cases par with
  | true => exact mulK_of_A hA (by rw [hfo' rfl] at hf; simpa using hf)
  | false =>
    intro X acc hX
    obtain ⟨s, hs, he⟩ := prodMulK hc hcs hgc (hfo rfl hf) hgs X acc hX
    refine ⟨s, ?_, by rw [den]; exact he⟩
    rw [hbody]
    simpa [parenIf, not_gt_prod] using hs

theorem P_prod (par : Bool) (xs : List E) (hxs : ∀ c ∈ xs, P cfg c) : P cfg (.prod par xs) := by
  intro hg
  match xs, hxs, hg with
  | [], _, hg => simp [Good] at hg
  | [c], hxs, hg =>
    simp only [Good, Bool.and_eq_true, decide_eq_true_eq] at hg
    obtain ⟨⟨hgc, hl⟩, hgs⟩ := hg
    refine P_prod_general par c [] (fun p => by simp [printF, printJoin]) (fun p => by simp [outLv]) ?_ ?_ ?_ ?_
      (hxs c (by simp)) (by simp) hgc hl hgs
    · intro hp hf; subst hp; simpa [factorOK, factorsOK] using hf
    · intro hp; subst hp; simp [factorOK]
    · cases par <;> simp [termOK]
    · cases par <;> simp [sumNeg]
  | [c, x], hxs, hg =>
    by_cases hm : isMinusOne c = true
    · -- `-x`
      simp only [Good, hm, if_true, Bool.and_eq_true, decide_eq_true_eq] at hg
      obtain ⟨hgx, hlx⟩ := hg
      obtain ⟨hAx, _⟩ := hxs x (by simp) hgx
      obtain ⟨sx, hsx, hex⟩ := hAx PREC_PRODUCT
      have hsx5 := hsx.weaken hlx (outLv_le _ _)
      have hden : SEq (.neg sx) (den (.prod par [c, x])) := by
        rw [den]; simp only [denFold]; rw [den_minusOne hm]
        exact SEq.symm (SEq.trans (S_neg_one_mul _) (SEq.neg (SEq.symm hex)))
      have hA : A cfg (.prod par [c, x]) := by
        intro p
        have := wrapG (G.neg hsx5) (by omega) par (decide (p > PREC_PRODUCT))
        refine ⟨_, ?_, hden⟩
        simpa [outLv, printF, hm] using this
      refine ⟨hA, fun h => mulK_of_A hA ?_, fun h => addK_of_A hA ?_, ?_⟩
      · cases par <;> simp [factorOK, hm, outLv] at h ⊢
      · cases par
        · simp [termOK, outLv, hm, not_gt_sum_prod] at h
        · simp [outLv]
      · intro x' hx' X acc hX
        cases par with
        | true => simp [sumNeg] at hx'
        | false =>
          simp only [sumNeg] at hx'
          split at hx'
          · cases hx'
            refine ⟨_, G.sub hX hsx5, ?_⟩
            rw [den]; simp only [denFold]; rw [den_minusOne hm]
            exact SEq.symm (SEq.trans (S_add_neg_one_mul _ _) (SEq.sub (SEq.refl _) (SEq.symm hex)))
          · cases hx'
    · have hm' : isMinusOne c = false := by simpa using hm
      simp only [Good, hm', Bool.false_eq_true, if_false, Bool.and_eq_true, decide_eq_true_eq] at hg
      obtain ⟨⟨⟨hgc, hgx⟩, hl⟩, hfx⟩ := hg
      have hgs : goodFactors cfg [x] = true := by simp [goodFactors, hgx, hfx]
      refine P_prod_general par c [x] (fun p => by simp [printF, printJoin, hm']) (fun p => by simp [outLv, hm']) ?_ ?_ ?_ ?_
        (hxs c (by simp)) (fun c' hc' => hxs c' (by simp at hc'; simp [hc'])) hgc hl hgs
      · intro hp hf; subst hp; simp [factorOK, hm'] at hf; exact hf.1
      · intro hp; subst hp; simp [factorOK]
      · cases par <;> simp [termOK]
      · cases par
        · have : isPyMinusOne c = false := by
            cases hpy : isPyMinusOne c
            · rfl
            · rw [pyMinus_minus hpy] at hm'; cases hm'
          simp [sumNeg, this]
        · simp [sumNeg]
  | c :: x :: y :: rest, hxs, hg =>
    simp only [Good, Bool.and_eq_true, decide_eq_true_eq] at hg
    obtain ⟨⟨hgc, hl⟩, hgs⟩ := hg
    refine P_prod_general par c (x :: y :: rest) (fun p => by simp [printF, printJoin]) (fun p => by simp [outLv]) ?_ ?_ ?_ ?_
      (hxs c (by simp)) (fun c' hc' => hxs c' (by simp at hc'; simp [hc'])) hgc hl hgs
    · intro hp hf; subst hp; simp [factorOK] at hf; exact hf.1
    · intro hp; subst hp; simp [factorOK]
    · cases par <;> simp [termOK]
    · cases par <;> simp [sumNeg]

/-- the invariant holds for every tree -/
theorem P_all (cfg : Cfg) (t : E) : P cfg t :=
  E.rec (motive_1 := P cfg) (motive_2 := fun xs => ∀ c ∈ xs, P cfg c)
    P_ilit P_rlit P_blit P_pyint P_var
    (fun par xs h => P_sum par xs h) (fun par xs h => P_prod par xs h)
    (fun par a b ha hb => P_quot par a b ha hb) (fun par a b ha hb => P_pow par a b ha hb)
    (fun o a b ha hb => P_cmp o a b ha hb) (fun a ha => P_lnot a ha)
    (fun xs h => P_land xs h) (fun xs h => P_lor xs h)
    (fun c hc => by cases hc)
    (fun hd tl hh ht c hc => by
      cases hc with
      | head => exact hh
      | tail _ h => exact ht c h) t

end LokiModel.C06
