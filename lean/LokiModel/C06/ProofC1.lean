import LokiModel.C06.GoodC
import LokiModel.C06.Proof1
/-! C06 proof for the C backend, part 1: semantic lemmas for C's unary minus, derivation helpers, the invariant. -/
namespace LokiModel.C06
open LokiModel.Expr Tables CTok

/-! ### a negation may be pushed into the first factor of a multiplicative expression -/

theorem Val_neg_mul (a b : Val) : (Val.neg a).bind (fun x => Val.mul x b) = (Val.mul a b).bind Val.neg := by
  cases a <;> cases b <;> simp [Val.neg, Val.mul, Val.arith, Int.neg_mul, Rat.neg_mul, Rat.intCast_neg]

theorem Val_neg_div (a b : Val) : (Val.neg a).bind (fun x => Val.div x b) = (Val.div a b).bind Val.neg := by
  cases a <;> cases b <;> simp [Val.neg, Val.div, Val.arith] <;> split <;>
    simp [Val.neg, Rat.div_def, Rat.neg_mul]

/-- `(-a)*b = -(a*b)`, errors included -/
theorem S_neg_mul (a b : S) : SEq (.mul (.neg a) b) (.neg (.mul a b)) := fun env => by
  simp only [evalS, bin]
  cases evalS env a with
  | none => rfl
  | some va =>
    cases evalS env b with
    | none => cases h : Val.neg va <;> simp [h]
    | some vb => simpa using Val_neg_mul va vb

/-- `(-a)/b = -(a/b)` (truncating integer division is odd in the numerator), errors included -/
theorem S_neg_div (a b : S) : SEq (.div (.neg a) b) (.neg (.div a b)) := fun env => by
  simp only [evalS, bin]
  cases evalS env a with
  | none => rfl
  | some va =>
    cases evalS env b with
    | none => cases h : Val.neg va <;> simp [h]
    | some vb => simpa using Val_neg_div va vb

theorem GC.le7 {ℓ ts s} (h : GC ℓ ts s) : ℓ ≤ 7 := by
  induction h <;> omega

/-- **C's unary minus in front of a multiplicative expression**: `- X` with `X` at level ≥ 5 is a multiplicative expression
(the sign belongs to the first factor) whose value is the negation of `X` -/
theorem neg_push {ℓ ts s} (h : GC ℓ ts s) (h5 : 5 ≤ ℓ) : ∃ s', GC 5 ([minus] ++ ts) s' ∧ SEq s' (.neg s) := by
  have direct : ∀ {ts s}, GC 6 ts s → ∃ s', GC 5 ([minus] ++ ts) s' ∧ SEq s' (.neg s) :=
    fun h6 => ⟨_, GC.up (by omega) (GC.neg h6), SEq.refl _⟩
  induction h with
  | num n => exact direct ((GC.num n).weaken (by omega) (by omega))
  | rnum t => exact direct ((GC.rnum t).weaken (by omega) (by omega))
  | ident x => exact direct ((GC.ident x).weaken (by omega) (by omega))
  | tru => exact direct (GC.tru.weaken (by omega) (by omega))
  | fls => exact direct (GC.fls.weaken (by omega) (by omega))
  | paren h _ => exact direct ((GC.paren h).weaken (by omega) (by omega))
  | call ha hb _ _ => exact direct ((GC.call ha hb).weaken (by omega) (by omega))
  | up hl h ih => exact ih (by omega)
  | neg h _ => exact direct (GC.neg h)
  | not h _ => exact direct (GC.not h)
  | mul ha hb iha _ =>
    obtain ⟨a', ha', hea⟩ := iha (by omega)
    exact ⟨_, by simpa [List.append_assoc] using GC.mul ha' hb, SEq.trans (SEq.mul hea (SEq.refl _)) (S_neg_mul _ _)⟩
  | div ha hb iha _ =>
    obtain ⟨a', ha', hea⟩ := iha (by omega)
    exact ⟨_, by simpa [List.append_assoc] using GC.div ha' hb, SEq.trans (SEq.div hea (SEq.refl _)) (S_neg_div _ _)⟩
  | add => omega
  | sub => omega
  | rel => omega
  | equ => omega
  | and => omega
  | or => omega

theorem glueMinus_of_not_startsMinus {ts : List CTok} (h : startsMinus ts = false) : glueMinus ts = [minus] ++ ts := by
  unfold glueMinus
  split <;> simp_all [startsMinus]

/-! ### derivation helpers -/

theorem outLvC_le (t : E) (p : Nat) : outLvC t p ≤ 7 := by
  unfold outLvC; split <;> (repeat' split) <;> omega

theorem wrapGC {lvl : Nat} {body : List CTok} {s : S} (h : GC lvl body s) (hl : lvl ≤ 7) (par pp : Bool) :
    GC (if par || pp then 7 else lvl) (if par then cparen body else cparenIf pp body) s := by
  have h0 : GC 0 body s := h.weaken (Nat.zero_le _) hl
  cases par <;> cases pp <;> simp [cparenIf, cparen]
  · exact h
  · exact GC.paren h0
  · exact GC.paren h0
  · exact GC.paren h0

theorem wrapGC' {lvl : Nat} {body : List CTok} {s : S} (h : GC lvl body s) (hl : lvl ≤ 7) (pp : Bool) :
    GC (if pp then 7 else lvl) (cparenIf pp body) s := by
  simpa using wrapGC h hl false pp

/-! ### the invariant -/

variable (cfg : Cfg)

/-- the printed C text of `t` is derivable at its level with a tree equal in value to `den t` -/
def AC (t : E) : Prop := ∀ p, ∃ s, GC (outLvC t p) (printC cfg t p) s ∧ SEq s (den t)
/-- continuation form for a factor following `X *` -/
def MulKC (t : E) : Prop :=
  ∀ X acc, GC 5 X acc → ∃ s, GC 5 (X ++ [star] ++ printC cfg t PREC_PRODUCT) s ∧ SEq s (.mul acc (den t))
/-- continuation form for a term following `X +` -/
def AddKC (t : E) : Prop :=
  ∀ X acc, GC 4 X acc → ∃ s, GC 4 (X ++ [plus] ++ printC cfg t PREC_SUM) s ∧ SEq s (.add acc (den t))
/-- continuation form for a minus term `Product((-1, x))` following `X` (the signs are separate tokens there) -/
def SubKC (t : E) : Prop :=
  ∀ x, sumNeg t = some x → ∀ X acc, GC 4 X acc →
    ∃ s, GC 4 (X ++ [minus] ++ printC cfg x PREC_PRODUCT) s ∧ SEq s (.add acc (den t))

def PC (t : E) : Prop :=
  (GoodCm cfg false t = true →
      AC cfg t ∧ (factorOKC t = true → MulKC cfg t) ∧ (termOKC t = true → AddKC cfg t)) ∧
  (GoodCm cfg true t = true → SubKC cfg t)

variable {cfg}

theorem mulKC_of_A {t : E} (hA : AC cfg t) (h6 : 6 ≤ outLvC t PREC_PRODUCT) : MulKC cfg t := by
  intro X acc hX
  obtain ⟨s, hs, he⟩ := hA PREC_PRODUCT
  exact ⟨_, GC.mul hX (hs.weaken h6 (outLvC_le _ _)), SEq.mul (SEq.refl _) he⟩

theorem addKC_of_A {t : E} (hA : AC cfg t) (h5 : 5 ≤ outLvC t PREC_SUM) : AddKC cfg t := by
  intro X acc hX
  obtain ⟨s, hs, he⟩ := hA PREC_SUM
  exact ⟨_, GC.add hX (hs.weaken h5 (outLvC_le _ _)), SEq.add (SEq.refl _) he⟩

/-- the two variants of the class differ only on an unparenthesised `Product((-1, x))` with a bare `-1` -/
theorem goodCm_false_of_true {t : E} (h : GoodCm cfg true t = true) (hn : sumNegAny t = false) :
    GoodCm cfg false t = true := by
  match t, h, hn with
  | .ilit _, h, _ => simpa [GoodCm] using h
  | .rlit _, h, _ => simpa [GoodCm] using h
  | .blit _, h, _ => simpa [GoodCm] using h
  | .pyint _, h, _ => simpa [GoodCm] using h
  | .var _, h, _ => simpa [GoodCm] using h
  | .sum _ [], h, _ => simpa [GoodCm] using h
  | .sum _ (_ :: _), h, _ => simpa [GoodCm] using h
  | .prod _ [], h, _ => simpa [GoodCm] using h
  | .prod _ [_], h, _ => simpa [GoodCm] using h
  | .prod par [c, x], h, hn =>
    by_cases hm : isMinusOne c = true
    · simp only [GoodCm, hm, if_true, Bool.and_eq_true, Bool.or_eq_true, decide_eq_true_eq] at h ⊢
      refine ⟨h.1, ?_⟩
      cases h.2 with
      | inl h2 =>
        exfalso
        cases par with
        | true => simp at h2
        | false => simp [sumNegAny] at hn; simp [hn] at h2
      | inr h2 => exact Or.inr h2
    · have hm' : isMinusOne c = false := by simpa using hm
      simpa [GoodCm, hm'] using h
  | .prod _ (_ :: _ :: _ :: _), h, _ => simpa [GoodCm] using h
  | .quot _ _ _, h, _ => simpa [GoodCm] using h
  | .pow _ _ _, h, _ => simpa [GoodCm] using h
  | .cmp _ _ _, h, _ => simpa [GoodCm] using h
  | .lnot _, h, _ => simpa [GoodCm] using h
  | .land [], h, _ => simpa [GoodCm] using h
  | .land (_ :: _), h, _ => simpa [GoodCm] using h
  | .lor [], h, _ => simpa [GoodCm] using h
  | .lor (_ :: _), h, _ => simpa [GoodCm] using h

end LokiModel.C06
