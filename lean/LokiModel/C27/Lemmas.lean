import LokiModel.C27.Model
import LokiModel.C26.SoundB
/-!
# C27 lemmas: in the covered class every symbol of the attached sets is a plain (stripped) symbol
-/
namespace LokiModel.C27
open LokiModel.Fir LokiModel.C26

/-- every element is a symbol stripped of its dimensions -/
def EK (s : SymSet) : Prop := ∀ v ∈ s, v.2 = ""

theorem EK_nil : EK [] := by intro v hv; cases hv
theorem EK_syms (xs : List String) : EK (syms xs) := by
  intro v hv
  obtain ⟨x, k⟩ := v
  exact (mem_syms.mp hv).2
theorem EK_append {a b : SymSet} (ha : EK a) (hb : EK b) : EK (a ++ b) := by
  intro v hv
  rcases List.mem_append.mp hv with h | h
  · exact ha v h
  · exact hb v h
theorem EK_filter {a : SymSet} (f : Sym → Bool) (ha : EK a) : EK (a.filter f) := by
  intro v hv
  exact ha v (List.mem_filter.mp hv).1
theorem EK_sdiff {a b : SymSet} (ha : EK a) : EK (sdiff a b) := EK_filter _ ha

theorem EK_foldBody {D U : SymSet} {l : List (SymSet × SymSet)} (hD : EK D) (hU : EK U)
    (hl : ∀ e ∈ l, EK e.1 ∧ EK e.2) : EK (foldBody D U l).1 ∧ EK (foldBody D U l).2 := by
  induction l generalizing D U with
  | nil => exact ⟨hD, hU⟩
  | cons a r ih =>
    obtain ⟨d, u⟩ := a
    simp only [foldBody]
    have ha := hl (d, u) List.mem_cons_self
    exact ih (EK_append hD ha.1) (EK_append hU (EK_sdiff ha.2)) (fun e he => hl e (List.mem_cons_of_mem _ he))

mutual
theorem EK_du (c : Ctx) : ∀ (s : Stmt), coveredS s = true → EK (du c s).1 ∧ EK (du c s).2
  | .assign lhs rhs, _ => by
      simp only [du]
      refine ⟨?_, EK_append (EK_syms _) (EK_syms _)⟩
      intro v hv
      simp only [List.mem_cons, List.not_mem_nil, or_false] at hv
      rw [hv]
  | .doLoop v lo hi step body, h => by
      simp only [coveredS] at h
      simp only [du]
      have := EK_foldBody EK_nil (EK_syms (boundVars lo hi step)) (EK_duL c body h)
      exact ⟨EK_filter _ this.1, EK_filter _ this.2⟩
  | .while cnd body, h => by
      simp only [coveredS] at h
      simp only [du]
      exact EK_foldBody EK_nil (EK_syms _) (EK_duL c body h)
  | .ifte cnd thn els, h => by
      simp only [coveredS, Bool.and_eq_true] at h
      simp only [du]
      have h1 := EK_foldBody EK_nil (EK_syms (varsEx cnd)) (EK_duL c thn h.1)
      have h2 := EK_foldBody EK_nil h1.2 (EK_duL c els h.2)
      exact ⟨EK_append h1.1 h2.1, h2.2⟩
  | .select e cases dflt, h => by
      simp only [coveredS, Bool.and_eq_true] at h
      simp only [du]
      have h1 := EK_duC c cases (syms (varsEx e)) h.1 (EK_syms _)
      have h2 := EK_foldBody EK_nil h1.2 (EK_duL c dflt h.2)
      exact ⟨EK_append h1.1 h2.1, h2.2⟩
  | .assoc _ _, h => by simp [coveredS] at h
  | .callSub _ _, h => by simp [coveredS] at h
  | .print _, _ => by simp only [du]; exact ⟨EK_nil, EK_nil⟩
  | .exit, _ => by simp only [du]; exact ⟨EK_nil, EK_nil⟩
  | .cycle, _ => by simp only [du]; exact ⟨EK_nil, EK_nil⟩
  | .nop _ _, _ => by simp only [du]; exact ⟨EK_nil, EK_nil⟩
theorem EK_duL (c : Ctx) : ∀ (ss : List Stmt), coveredL ss = true → ∀ e ∈ duL c ss, EK e.1 ∧ EK e.2
  | [], _ => by intro e he; simp [duL] at he
  | s :: r, h => by
      simp only [coveredL, Bool.and_eq_true] at h
      intro e he
      simp only [duL, List.mem_cons] at he
      rcases he with rfl | he
      · exact EK_du c s h.1
      · exact EK_duL c r h.2 e he
theorem EK_duC (c : Ctx) : ∀ (cases : List (List Int × List Stmt)) (U : SymSet), coveredC cases = true → EK U →
    EK (duC c U cases).1 ∧ EK (duC c U cases).2
  | [], U, _, hU => by simp only [duC]; exact ⟨EK_nil, hU⟩
  | (_, b) :: r, U, h, hU => by
      simp only [coveredC, Bool.and_eq_true] at h
      simp only [duC]
      have h1 := EK_foldBody EK_nil hU (EK_duL c b h.1)
      have h2 := EK_duC c r _ h.2 h1.2
      exact ⟨EK_append h1.1 h2.1, h2.2⟩
end

theorem mem_of_names_EK {x : String} {s : SymSet} (hs : EK s) (hx : x ∈ names s) : (x, "") ∈ s := by
  obtain ⟨k, hk⟩ := mem_names.mp hx
  have := hs _ hk
  simp only at this
  subst this
  exact hk

theorem names_sinter {x : String} {a b : SymSet} (ha : EK a) (hb : EK b) (hxa : x ∈ names a) (hxb : x ∈ names b) :
    x ∈ names (sinter a b) := by
  refine mem_names.mpr ⟨"", ?_⟩
  simp only [sinter, List.mem_filter, List.contains_iff_mem]
  exact ⟨mem_of_names_EK ha hxa, mem_of_names_EK hb hxb⟩

end LokiModel.C27
