import LokiModel.C27.Lemmas
/-!
# C27: `read_after_write_vars` on straight-line code (an ir whose nodes are all leaves)
-/
namespace LokiModel.C27
open LokiModel.Fir LokiModel.C26

/-- leaf statements the instrumented semantics covers: assignment, PRINT, EXIT, CYCLE, comment/pragma -/
def isLeaf : Stmt → Bool
  | .assign _ _ => true
  | .print _ => true
  | .exit => true
  | .cycle => true
  | .nop _ _ => true
  | _ => false

def flat (ss : List Stmt) : Bool := ss.all isLeaf

theorem flat_cons {s : Stmt} {r : List Stmt} : flat (s :: r) = true ↔ isLeaf s = true ∧ flat r = true := by
  simp [flat]

theorem fwS_leaf (c : Ctx) (stop : Nat) (σ : FW) (s : Stmt) (h : isLeaf s = true) :
    fwS c stop σ s = (σ.enter stop).leaf (du c s).1 := by
  cases s <;> simp [isLeaf] at h <;> simp [fwS, du]

theorem frS_leaf (c : Ctx) (start : Nat) (σ : FR) (s : Stmt) (h : isLeaf s = true) :
    frS c start σ s = (σ.enter start).leaf (du c s) := by
  cases s <;> simp [isLeaf] at h <;> simp [frS, du]

theorem covered_leaf {s : Stmt} (h : isLeaf s = true) : coveredS s = true := by
  cases s <;> simp [isLeaf] at h <;> simp [coveredS]

theorem loopVars_leaf {s : Stmt} (h : isLeaf s = true) : loopVarsS s = [] := by
  cases s <;> simp [isLeaf] at h <;> simp [loopVarsS]

theorem size_leaf {s : Stmt} (h : isLeaf s = true) : sizeS s = 1 := by
  cases s <;> simp [isLeaf] at h <;> simp [sizeS]

theorem sizeL_flat {ss : List Stmt} (h : flat ss = true) : sizeL ss = ss.length := by
  induction ss with
  | nil => simp [sizeL]
  | cons s r ih =>
    obtain ⟨h1, h2⟩ := flat_cons.mp h
    simp [sizeL, size_leaf h1, ih h2]
    omega

theorem loopVarsL_flat {ss : List Stmt} (h : flat ss = true) : loopVarsL ss = [] := by
  induction ss with
  | nil => simp [loopVarsL]
  | cons s r ih =>
    obtain ⟨h1, h2⟩ := flat_cons.mp h
    simp [loopVarsL, loopVars_leaf h1, ih h2]

theorem coveredL_flat {ss : List Stmt} (h : flat ss = true) : coveredL ss = true := by
  induction ss with
  | nil => simp [coveredL]
  | cons s r ih =>
    obtain ⟨h1, h2⟩ := flat_cons.mp h
    simp [coveredL, covered_leaf h1, ih h2]

/-! ### FindWrites on straight-line code -/

theorem fwL_append (c : Ctx) (stop : Nat) (σ : FW) (a b : List Stmt) :
    fwL c stop σ (a ++ b) = fwL c stop (fwL c stop σ a) b := by
  induction a generalizing σ with
  | nil => simp [fwL]
  | cons s r ih => simp [fwL, ih]

theorem frL_append (c : Ctx) (start : Nat) (σ : FR) (a b : List Stmt) :
    frL c start σ (a ++ b) = frL c start (frL c start σ a) b := by
  induction a generalizing σ with
  | nil => simp [frL]
  | cons s r ih => simp [frL, ih]

/-- before the inspection node every leaf contributes its defines -/
theorem fwL_pre (c : Ctx) (stop : Nat) (pre : List Stmt) (σ : FW) (hf : flat pre = true) (ha : σ.active = true)
    (hc : σ.ctr + pre.length ≤ stop) :
    fwL c stop σ pre =
      { ctr := σ.ctr + pre.length, active := true, writes := σ.writes ++ pre.flatMap (fun s => (du c s).1) } := by
  induction pre generalizing σ with
  | nil => cases σ; simp_all [fwL]
  | cons s r ih =>
    obtain ⟨h1, h2⟩ := flat_cons.mp hf
    simp only [List.length_cons] at hc
    have hne : (σ.ctr != stop) = true := by simp; omega
    simp only [fwL, fwS_leaf c stop σ s h1]
    rw [ih]
    · simp [FW.enter, FW.leaf, ha, hne]
      omega
    · exact h2
    · simp [FW.enter, FW.leaf, ha, hne]
    · simp [FW.enter, FW.leaf, ha, hne]; omega

/-- once switched off, nothing is collected any more -/
theorem fwL_off (c : Ctx) (stop : Nat) (ss : List Stmt) (σ : FW) (hf : flat ss = true) (ha : σ.active = false) :
    (fwL c stop σ ss).writes = σ.writes := by
  induction ss generalizing σ with
  | nil => simp [fwL]
  | cons s r ih =>
    obtain ⟨h1, h2⟩ := flat_cons.mp hf
    simp only [fwL, fwS_leaf c stop σ s h1]
    rw [ih _ h2]
    · simp [FW.enter, FW.leaf, ha]
    · simp [FW.enter, FW.leaf, ha]

theorem findWrites_flat (c : Ctx) (pre : List Stmt) (node : Stmt) (post : List Stmt)
    (hf : flat (pre ++ node :: post) = true) :
    findWrites c (pre ++ node :: post) pre.length = pre.flatMap (fun s => (du c s).1) := by
  have hf' : flat pre = true ∧ isLeaf node = true ∧ flat post = true := by
    simp [flat] at hf ⊢
    exact ⟨hf.1, hf.2.1, hf.2.2⟩
  unfold findWrites
  rw [fwL_append, fwL_pre c _ pre _ hf'.1 rfl (by simp)]
  simp only [fwL, fwS_leaf c _ _ node hf'.2.1]
  rw [fwL_off c _ post _ hf'.2.2]
  · simp [FW.enter, FW.leaf]
  · simp [FW.enter, FW.leaf]

/-! ### FindReads on straight-line code -/

theorem frL_pre (c : Ctx) (start : Nat) (pre : List Stmt) (σ : FR) (hf : flat pre = true) (ha : σ.active = false)
    (hc : σ.ctr + pre.length ≤ start) :
    frL c start σ pre = { σ with ctr := σ.ctr + pre.length } := by
  induction pre generalizing σ with
  | nil => simp [frL]
  | cons s r ih =>
    obtain ⟨h1, h2⟩ := flat_cons.mp hf
    simp only [List.length_cons] at hc
    have hne : (σ.ctr == start) = false := by simp; omega
    simp only [frL, frS_leaf c start σ s h1]
    rw [ih]
    · simp [FR.enter, FR.leaf, FR.regReads, FR.regWrites, ha, hne]
      omega
    · exact h2
    · simp [FR.enter, FR.leaf, FR.regReads, FR.regWrites, ha, hne]
    · simp [FR.enter, FR.leaf, FR.regReads, FR.regWrites, ha, hne]; omega

/-- started or about to start at the next node -/
def FR.ready (σ : FR) (start : Nat) : Prop := σ.active = true ∨ σ.ctr = start

theorem leaf_step (start : Nat) (σ : FR) (d : SymSet × SymSet) (h : σ.ready start) :
    ((σ.enter start).leaf d).active = true ∧
    ((σ.enter start).leaf d).reads = σ.reads ++ sinter d.2 σ.cand ∧
    ((σ.enter start).leaf d).cand = sdiff σ.cand d.1 := by
  have : (σ.active || σ.ctr == start) = true := by
    rcases h with h | h
    · simp [h]
    · simp [h]
  simp [FR.enter, FR.leaf, FR.regReads, FR.regWrites, this]

theorem reads_mono (c : Ctx) (start : Nat) (ss : List Stmt) (σ : FR) (hf : flat ss = true) (h : σ.ready start)
    (x : String) (hx : x ∈ names σ.reads) : x ∈ names (frL c start σ ss).reads := by
  induction ss generalizing σ with
  | nil => simpa [frL] using hx
  | cons s r ih =>
    obtain ⟨h1, h2⟩ := flat_cons.mp hf
    simp only [frL, frS_leaf c start σ s h1]
    obtain ⟨ha, hr, _⟩ := leaf_step start σ (du c s) h
    apply ih _ h2 (Or.inl ha)
    rw [hr, names_append]
    exact List.mem_append_left _ hx

/-- what must hold for `x` at the leaves from the inspection node on: no PRINT reads it, and every leaf that has `x`
in its defines defines it completely (assignment to the plain name) -/
def rawOK (c : Ctx) (x : String) (ss : List Stmt) : Prop :=
  ∀ s ∈ ss, knownUS c x s = false ∧ (x ∈ names (du c s).1 → x ∈ mustS s)

theorem frL_post (p : Program) (c : Ctx) (start : Nat) (x : String) :
    ∀ (ss : List Stmt) (f : Nat) (st : St) (σ : FR), flat ss = true → σ.ready start → (x, "") ∈ σ.cand →
      rawOK c x ss → rbwB x (trSs p f ss st) = true → x ∈ names (frL c start σ ss).reads := by
  intro ss
  induction ss with
  | nil => intro f st σ _ _ _ _ h; cases f <;> simp [trSs, rbwB] at h
  | cons s r ih =>
    intro f st σ hf hr hc hok h
    obtain ⟨h1, h2⟩ := flat_cons.mp hf
    cases f with
    | zero => simp [trSs, rbwB] at h
    | succ f =>
      simp only [trSs, rbwB_append, Bool.or_eq_true, Bool.and_eq_true, Bool.not_eq_true'] at h
      simp only [frL, frS_leaf c start σ s h1]
      obtain ⟨ha, hrd, hcd⟩ := leaf_step start σ (du c s) hr
      have hs := hok s List.mem_cons_self
      rcases h with h | ⟨hnf, h⟩
      · -- read by this leaf: registered, and kept
        have hu : x ∈ names (du c s).2 := (invB p c f).stmt s st x h hs.1
        have hek := EK_du c s (covered_leaf h1)
        apply reads_mono c start r _ h2 (Or.inl ha)
        rw [hrd, names_append]
        apply List.mem_append_right
        refine mem_names.mpr ⟨"", ?_⟩
        simp only [sinter, List.mem_filter, List.contains_iff_mem]
        exact ⟨mem_of_names_EK hek.2 hu, hc⟩
      · -- read later: the candidate survives this leaf
        cases hex : execStmt p f s st with
        | fuel => rw [hex] at h; simp [rbwB] at h
        | err m => rw [hex] at h; simp [rbwB] at h
        | ok st1 sig =>
          rw [hex] at h
          cases sig with
          | exit => simp [rbwB] at h
          | cycle => simp [rbwB] at h
          | normal =>
            simp only at h
            have hnd : x ∉ names (du c s).1 := by
              intro hd
              have := (invC p f).stmt s st st1 hex x (hs.2 hd)
              rw [this] at hnf
              cases hnf
            apply ih f st1 _ h2 (Or.inl ha) _ (fun t ht => hok t (List.mem_cons_of_mem _ ht)) h
            rw [hcd, mem_sdiff]
            exact ⟨hc, fun hm => hnd (mem_names.mpr ⟨"", hm⟩)⟩

end LokiModel.C27
