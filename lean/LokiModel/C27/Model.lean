import LokiModel.C26.Model
/-!
# C27 model: `loop_carried_dependencies`, `FindWrites`, `FindReads`, `read_after_write_vars`

Anchors: `loki/analyse/dataflow_analysis.py` l.492-696.  The visitors run over an IR (a statement list) whose nodes
carry the attached sets of the C26 model (`du`).  Nodes are identified by their pre-order index in the IR (the real
visitors compare node objects; two nodes of a parsed routine are never equal because they carry their source lines).

* `FindWrites(stop=node, active=True)`: `visit` switches the visitor off for good at the inspection node; leaves add
  their `defines_symbols` while active; `visit_Loop` discards the DO variable from the collected writes (before the
  body is visited); every other node just visits its children.
* `FindReads(start=node, candidate_set=writes, clear_candidates_on_write=True)`: switched on at the inspection node;
  leaves register `uses_symbols ∩ candidates` and then remove their `defines_symbols` from the candidates;
  `visit_Conditional` registers the condition, visits both branches from the same candidate set and unites the results;
  `visit_Loop` registers the bounds, discards the DO variable from the candidates (if active), visits the body and
  discards the DO variable from the reads (if it was active on entry); `visit_WhileLoop` registers the condition;
  ASSOCIATE has no rule: its children are visited (selectors are not registered).  SELECT CASE (`MultiConditional`) is
  a `LeafNode`: both visitors treat it as one statement with its attached sets and never visit the nodes inside, so an
  inspection node inside a SELECT CASE never stops `FindWrites` and never starts `FindReads`.
-/
namespace LokiModel.C27
open LokiModel.Fir LokiModel.C26

def sinter (a b : SymSet) : SymSet := a.filter fun x => b.contains x

/-- `loop.uses_symbols & loop.defines_symbols` -/
def lcd (c : Ctx) (loop : Stmt) : SymSet := sinter (du c loop).2 (du c loop).1

/-! ### node numbering (pre-order) -/

mutual
def sizeS : Stmt → Nat
  | .doLoop _ _ _ _ body => 1 + sizeL body
  | .while _ body => 1 + sizeL body
  | .ifte _ t e => 1 + sizeL t + sizeL e
  | .select _ cases d => 1 + sizeC cases + sizeL d
  | .assoc _ body => 1 + sizeL body
  | _ => 1
def sizeL : List Stmt → Nat
  | [] => 0
  | s :: r => sizeS s + sizeL r
def sizeC : List (List Int × List Stmt) → Nat
  | [] => 0
  | (_, b) :: r => sizeL b + sizeC r
end

/-! ### FindWrites -/

structure FW where
  ctr : Nat
  active : Bool
  writes : SymSet

/-- `visit`: `self.active = (self.active and o not in self.stop) or o in self.start` (start is empty) -/
def FW.enter (σ : FW) (stop : Nat) : FW := { σ with active := σ.active && σ.ctr != stop, ctr := σ.ctr + 1 }

def FW.leaf (σ : FW) (d : SymSet) : FW := if σ.active then { σ with writes := σ.writes ++ d } else σ

mutual
def fwS (c : Ctx) (stop : Nat) (σ : FW) : Stmt → FW
  | .doLoop v _ _ _ body =>
      let σ1 := σ.enter stop
      let σ2 := if σ1.active then { σ1 with writes := σ1.writes.filter (· != (v, "")) } else σ1
      fwL c stop σ2 body
  | .while _ body => fwL c stop (σ.enter stop) body
  | .ifte _ t e => fwL c stop (fwL c stop (σ.enter stop) t) e
  | .select e cases d =>
      -- `MultiConditional` is a LeafNode: handled by `visit_LeafNode` with its own attached sets, never descended into
      let σ1 := (σ.enter stop).leaf (du c (.select e cases d)).1
      { σ1 with ctr := σ1.ctr + (sizeC cases + sizeL d) }
  | .assoc _ body => fwL c stop (σ.enter stop) body
  | .assign l r => (σ.enter stop).leaf (du c (.assign l r)).1
  | .callSub g args => (σ.enter stop).leaf (du c (.callSub g args)).1
  | .print _ => (σ.enter stop).leaf []
  | .exit => (σ.enter stop).leaf []
  | .cycle => (σ.enter stop).leaf []
  | .nop _ _ => (σ.enter stop).leaf []
def fwL (c : Ctx) (stop : Nat) (σ : FW) : List Stmt → FW
  | [] => σ
  | s :: r => fwL c stop (fwS c stop σ s) r
end

def findWrites (c : Ctx) (ir : List Stmt) (node : Nat) : SymSet :=
  (fwL c node { ctr := 0, active := true, writes := [] } ir).writes

/-! ### FindReads -/

structure FR where
  ctr : Nat
  active : Bool
  reads : SymSet
  cand : SymSet

/-- `visit`: stop is empty, so `active = active or o in start` -/
def FR.enter (σ : FR) (start : Nat) : FR := { σ with active := σ.active || σ.ctr == start, ctr := σ.ctr + 1 }

/-- `_register_reads` -/
def FR.regReads (σ : FR) (r : SymSet) : FR := if σ.active then { σ with reads := σ.reads ++ sinter r σ.cand } else σ
/-- `_register_writes` with `clear_candidates_on_write` -/
def FR.regWrites (σ : FR) (w : SymSet) : FR := if σ.active then { σ with cand := sdiff σ.cand w } else σ

def FR.leaf (σ : FR) (du : SymSet × SymSet) : FR := (σ.regReads du.2).regWrites du.1

mutual
def frS (c : Ctx) (start : Nat) (σ : FR) : Stmt → FR
  | .ifte cnd t e =>
      let σ1 := (σ.enter start).regReads (syms (varsEx cnd))
      let c0 := σ1.cand
      let σt := frL c start σ1 t
      let σe := frL c start { σt with cand := c0 } e
      { σe with cand := σe.cand ++ σt.cand }
  | .doLoop v lo hi step body =>
      let σ1 := (σ.enter start).regReads (syms (boundVars lo hi step))
      let active0 := σ1.active
      let σ2 := if σ1.active then { σ1 with cand := σ1.cand.filter (· != (v, "")) } else σ1
      let σ3 := frL c start σ2 body
      if active0 then { σ3 with reads := σ3.reads.filter (· != (v, "")) } else σ3
  | .while cnd body => frL c start ((σ.enter start).regReads (syms (varsEx cnd))) body
  | .select e cases d =>
      let σ1 := (σ.enter start).leaf (du c (.select e cases d))
      { σ1 with ctr := σ1.ctr + (sizeC cases + sizeL d) }
  | .assoc _ body => frL c start (σ.enter start) body
  | .assign l r => (σ.enter start).leaf (du c (.assign l r))
  | .callSub g args => (σ.enter start).leaf (du c (.callSub g args))
  | .print _ => (σ.enter start).leaf ([], [])
  | .exit => (σ.enter start).leaf ([], [])
  | .cycle => (σ.enter start).leaf ([], [])
  | .nop _ _ => (σ.enter start).leaf ([], [])
def frL (c : Ctx) (start : Nat) (σ : FR) : List Stmt → FR
  | [] => σ
  | s :: r => frL c start (frS c start σ s) r
end

/-- `read_after_write_vars(ir, inspection_node)` with the inspection node given by its pre-order index in `ir` -/
def readAfterWrite (c : Ctx) (ir : List Stmt) (node : Nat) : SymSet :=
  (frL c node { ctr := 0, active := false, reads := [], cand := findWrites c ir node } ir).reads

/-! ### enumeration used by the driver -/

mutual
/-- all loops (DO and DO WHILE) in pre-order -/
def loopsS : Stmt → List Stmt
  | .doLoop v lo hi st body => .doLoop v lo hi st body :: loopsL body
  | .while cnd body => .while cnd body :: loopsL body
  | .ifte _ t e => loopsL t ++ loopsL e
  | .select _ cases d => loopsC cases ++ loopsL d
  | .assoc _ body => loopsL body
  | _ => []
def loopsL : List Stmt → List Stmt
  | [] => []
  | s :: r => loopsS s ++ loopsL r
def loopsC : List (List Int × List Stmt) → List Stmt
  | [] => []
  | (_, b) :: r => loopsL b ++ loopsC r
end

def bodyOf : Stmt → List Stmt
  | .doLoop _ _ _ _ body => body
  | .while _ body => body
  | _ => []

end LokiModel.C27
