import LokiModel.C07.FParse
/-!
# Completeness of the reference parser: every derivation of `G` is found

Induction on the derivation, one statement per grammar level (`P`), in continuation form for the left-recursive
levels: "parsing `ts ++ X` at this level is the same as having parsed `ts` to `s` and continuing the
accumulator loop on `X`", under a follow-set condition on `X` (the next token cannot extend the last operand).
-/
namespace LokiModel.C07
open LokiModel.Expr LokiModel.Expr.Tok

/-! ### follow conditions (`nfK X`: the head of `X` cannot continue an expression of level ≥ K) -/

def nf6 : List Tok → Bool
  | Tok.pow :: _ => false
  | _ => true
def nf5 : List Tok → Bool
  | Tok.pow :: _ | star :: _ | slash :: _ => false
  | _ => true
def nf4 : List Tok → Bool
  | Tok.pow :: _ | star :: _ | slash :: _ | plus :: _ | minus :: _ => false
  | _ => true
def nf3 : List Tok → Bool
  | Tok.pow :: _ | star :: _ | slash :: _ | plus :: _ | minus :: _ | Tok.cmp _ :: _ => false
  | _ => true
def nf1 : List Tok → Bool
  | Tok.pow :: _ | star :: _ | slash :: _ | plus :: _ | minus :: _ | Tok.cmp _ :: _ | Tok.and :: _ => false
  | _ => true
def nf0 : List Tok → Bool
  | Tok.pow :: _ | star :: _ | slash :: _ | plus :: _ | minus :: _ | Tok.cmp _ :: _ | Tok.and :: _ | Tok.or :: _ => false
  | _ => true

theorem nf0_1 {X} (h : nf0 X = true) : nf1 X = true := by
  cases X with
  | nil => rfl
  | cons t _ => cases t <;> first | rfl | exact absurd h (by simp [nf0])
theorem nf1_3 {X} (h : nf1 X = true) : nf3 X = true := by
  cases X with
  | nil => rfl
  | cons t _ => cases t <;> first | rfl | exact absurd h (by simp [nf1])
theorem nf3_4 {X} (h : nf3 X = true) : nf4 X = true := by
  cases X with
  | nil => rfl
  | cons t _ => cases t <;> first | rfl | exact absurd h (by simp [nf3])
theorem nf4_5 {X} (h : nf4 X = true) : nf5 X = true := by
  cases X with
  | nil => rfl
  | cons t _ => cases t <;> first | rfl | exact absurd h (by simp [nf4])
theorem nf5_6 {X} (h : nf5 X = true) : nf6 X = true := by
  cases X with
  | nil => rfl
  | cons t _ => cases t <;> first | rfl | exact absurd h (by simp [nf5])

/-! ### the accumulator loops stop on a follow token -/

theorem mulRest_stop {s : S} {X : List Tok} (hX : nf5 X = true) : Ev (fun f => pMulRest f s X) (s, X) := by
  refine Ev.pure fun f => ?_
  cases X with
  | nil => simp [pMulRest]
  | cons t X' => cases t <;> first | (simp [pMulRest]; done) | exact absurd hX (by simp [nf5])

theorem addRest_stop {s : S} {X : List Tok} (hX : nf4 X = true) : Ev (fun f => pAddRest f s X) (s, X) := by
  refine Ev.pure fun f => ?_
  cases X with
  | nil => simp [pAddRest]
  | cons t X' => cases t <;> first | (simp [pAddRest]; done) | exact absurd hX (by simp [nf4])

theorem andRest_stop {s : S} {X : List Tok} (hX : nf1 X = true) : Ev (fun f => pAndRest f s X) (s, X) := by
  refine Ev.pure fun f => ?_
  cases X with
  | nil => simp [pAndRest]
  | cons t X' => cases t <;> first | (simp [pAndRest]; done) | exact absurd hX (by simp [nf1])

theorem orRest_stop {s : S} {X : List Tok} (hX : nf0 X = true) : Ev (fun f => pOrRest f s X) (s, X) := by
  refine Ev.pure fun f => ?_
  cases X with
  | nil => simp [pOrRest]
  | cons t X' => cases t <;> first | (simp [pOrRest]; done) | exact absurd hX (by simp [nf0])

/-! ### first token of a derivable list -/

theorem G.head {ℓ ts s} (h : G ℓ ts s) :
    ∃ t r, ts = t :: r ∧ (5 ≤ ℓ → t ≠ minus) ∧ (3 ≤ ℓ → t ≠ Tok.not) := by
  induction h with
  | num n => exact ⟨_, _, rfl, by simp, by simp⟩
  | rnum t => exact ⟨_, _, rfl, by simp, by simp⟩
  | ident x => exact ⟨_, _, rfl, by simp, by simp⟩
  | tru => exact ⟨_, _, rfl, by simp, by simp⟩
  | fls => exact ⟨_, _, rfl, by simp, by simp⟩
  | paren _ _ => exact ⟨lp, _, rfl, by simp, by simp⟩
  | up hl _ ih =>
    obtain ⟨t, r, e, h1, h2⟩ := ih
    exact ⟨t, r, e, fun h => h1 (by omega), fun h => h2 (by omega)⟩
  | pow _ _ iha _ =>
    obtain ⟨t, r, e, h1, h2⟩ := iha
    exact ⟨t, _, by rw [e]; rfl, fun _ => h1 (by omega), fun _ => h2 (by omega)⟩
  | mul _ _ iha _ =>
    obtain ⟨t, r, e, h1, h2⟩ := iha
    exact ⟨t, _, by rw [e]; rfl, fun _ => h1 (by omega), fun _ => h2 (by omega)⟩
  | div _ _ iha _ =>
    obtain ⟨t, r, e, h1, h2⟩ := iha
    exact ⟨t, _, by rw [e]; rfl, fun _ => h1 (by omega), fun _ => h2 (by omega)⟩
  | neg _ _ => exact ⟨minus, _, rfl, fun h => by omega, by simp⟩
  | add _ _ iha _ =>
    obtain ⟨t, r, e, h1, h2⟩ := iha
    exact ⟨t, _, by rw [e]; rfl, fun h => by omega, fun _ => h2 (by omega)⟩
  | sub _ _ iha _ =>
    obtain ⟨t, r, e, h1, h2⟩ := iha
    exact ⟨t, _, by rw [e]; rfl, fun h => by omega, fun _ => h2 (by omega)⟩
  | cmp _ _ iha _ =>
    obtain ⟨t, r, e, h1, h2⟩ := iha
    exact ⟨t, _, by rw [e]; rfl, fun h => by omega, fun _ => h2 (by omega)⟩
  | not _ _ => exact ⟨Tok.not, _, rfl, fun h => by omega, fun h => by omega⟩
  | and _ _ iha _ =>
    obtain ⟨t, r, e, h1, h2⟩ := iha
    exact ⟨t, _, by rw [e]; rfl, fun h => by omega, fun h => by omega⟩
  | or _ _ iha _ =>
    obtain ⟨t, r, e, h1, h2⟩ := iha
    exact ⟨t, _, by rw [e]; rfl, fun h => by omega, fun h => by omega⟩

/-! ### the statement proved for every derivation, by level -/

def P : Nat → List Tok → S → Prop
  | 7, ts, s => ∀ X, Ev (fun f => pPrim f (ts ++ X)) (s, X)
  | 6, ts, s => ∀ X, nf6 X = true → Ev (fun f => pPow f (ts ++ X)) (s, X)
  | 5, ts, s => ∀ X r, nf6 X = true → Ev (fun f => pMulRest f s X) r → Ev (fun f => pMul f (ts ++ X)) r
  | 4, ts, s => ∀ X r, nf5 X = true → Ev (fun f => pAddRest f s X) r → Ev (fun f => pAdd f (ts ++ X)) r
  | 3, ts, s => ∀ X, nf3 X = true → Ev (fun f => pCmp f (ts ++ X)) (s, X)
  | 2, ts, s => ∀ X, nf3 X = true → Ev (fun f => pNot f (ts ++ X)) (s, X)
  | 1, ts, s => ∀ X r, nf3 X = true → Ev (fun f => pAndRest f s X) r → Ev (fun f => pAnd f (ts ++ X)) r
  | 0, ts, s => ∀ X r, nf1 X = true → Ev (fun f => pOrRest f s X) r → Ev (fun f => pOr f (ts ++ X)) r
  | _, _, _ => True

/-- level 7 ⇒ 6 -/
theorem up76 {ts s} (h : P 7 ts s) : P 6 ts s := by
  intro X hX
  refine Ev.succ (p := fun f => (pPrim f (ts ++ X)).bind fun x =>
      match x.2 with
      | Tok.pow :: r => (pPow f r).bind fun y => some (.pow x.1 y.1, y.2)
      | _ => some x) (fun f => by rw [pPow] <;> rfl) ?_
  refine Ev.bind (h X) (Ev.pure fun f => ?_)
  cases X with
  | nil => rfl
  | cons t X' => cases t <;> first | rfl | exact absurd hX (by simp [nf6])

/-- level 6 ⇒ 5 -/
theorem up65 {ts s} (h : P 6 ts s) : P 5 ts s := by
  intro X r hX hr
  exact Ev.succ (p := fun f => (pPow f (ts ++ X)).bind fun x => pMulRest f x.1 x.2) (fun f => by rw [pMul] <;> rfl)
    (Ev.bind (h X hX) hr)

/-- `pAdd` on a list that does not start with a minus -/
theorem pAdd_nominus {t : Tok} {r : List Tok} (ht : t ≠ minus) (f : Nat) :
    pAdd (f+1) (t :: r) = (pMul f (t :: r)).bind fun x => pAddRest f x.1 x.2 := by
  cases t <;> first | (simp [pAdd]; done) | exact absurd rfl ht

theorem pNot_nonot {t : Tok} {r : List Tok} (ht : t ≠ Tok.not) (f : Nat) :
    pNot (f+1) (t :: r) = pCmp f (t :: r) := by
  cases t <;> first | (simp [pNot]; done) | exact absurd rfl ht

/-- level 5 ⇒ 4 -/
theorem up54 {ts s} (hd : ∃ t r, ts = t :: r ∧ t ≠ minus) (h : P 5 ts s) : P 4 ts s := by
  intro X r hX hr
  obtain ⟨t, r', e, ht⟩ := hd
  have hm := h X (s, X) (nf5_6 hX) (mulRest_stop hX)
  subst e
  exact Ev.succ (p := fun f => (pMul f (t :: r' ++ X)).bind fun x => pAddRest f x.1 x.2)
    (fun f => pAdd_nominus ht f) (Ev.bind hm hr)

/-- level 4 ⇒ 3 -/
theorem up43 {ts s} (h : P 4 ts s) : P 3 ts s := by
  intro X hX
  have ha := h X (s, X) (nf4_5 (nf3_4 hX)) (addRest_stop (nf3_4 hX))
  refine Ev.succ (p := fun f => (pAdd f (ts ++ X)).bind fun x =>
      match x.2 with
      | Tok.cmp o :: r => (pAdd f r).bind fun y => some (.cmp o x.1 y.1, y.2)
      | _ => some x) (fun f => by rw [pCmp] <;> rfl) ?_
  refine Ev.bind ha (Ev.pure fun f => ?_)
  cases X with
  | nil => rfl
  | cons t X' => cases t <;> first | rfl | exact absurd hX (by simp [nf3])

/-- level 3 ⇒ 2 -/
theorem up32 {ts s} (hd : ∃ t r, ts = t :: r ∧ t ≠ Tok.not) (h : P 3 ts s) : P 2 ts s := by
  intro X hX
  obtain ⟨t, r', e, ht⟩ := hd
  subst e
  exact Ev.succ (p := fun f => pCmp f (t :: r' ++ X)) (fun f => pNot_nonot ht f) (h X hX)

/-- level 2 ⇒ 1 -/
theorem up21 {ts s} (h : P 2 ts s) : P 1 ts s := by
  intro X r hX hr
  exact Ev.succ (p := fun f => (pNot f (ts ++ X)).bind fun x => pAndRest f x.1 x.2) (fun f => by rw [pAnd] <;> rfl)
    (Ev.bind (h X hX) hr)

/-- level 1 ⇒ 0 -/
theorem up10 {ts s} (h : P 1 ts s) : P 0 ts s := by
  intro X r hX hr
  have ha := h X (s, X) (nf1_3 hX) (andRest_stop hX)
  exact Ev.succ (p := fun f => (pAnd f (ts ++ X)).bind fun x => pOrRest f x.1 x.2) (fun f => by rw [pOr] <;> rfl)
    (Ev.bind ha hr)

theorem P_all {ℓ ts s} (h : G ℓ ts s) : P ℓ ts s := by
  induction h with
  | num n => intro X; exact Ev.pure fun f => by simp [pPrim]
  | rnum t => intro X; exact Ev.pure fun f => by simp [pPrim]
  | ident x => intro X; exact Ev.pure fun f => by simp [pPrim]
  | tru => intro X; exact Ev.pure fun f => by simp [pPrim]
  | fls => intro X; exact Ev.pure fun f => by simp [pPrim]
  | @paren ts s _ ih =>
    intro X
    have h0 : P 0 ts s := ih
    have := h0 (rp :: X) (s, rp :: X) rfl (orRest_stop rfl)
    show Ev (fun f => pPrim f ([lp] ++ ts ++ [rp] ++ X)) (s, X)
    simp only [List.append_assoc, List.cons_append, List.nil_append]
    refine Ev.succ (p := fun f => (pOr f (ts ++ rp :: X)).bind fun x =>
        match x.2 with
        | rp :: r' => some (x.1, r')
        | _ => none) (fun f => ?_) (Ev.bind this (Ev.pure fun _ => rfl))
    rw [pPrim] <;> rfl
  | @up ℓ ts s hl hg ih =>
    have hd := G.head hg
    match ℓ, hl, ih, hd with
    | 0, _, ih, _ => exact up10 ih
    | 1, _, ih, _ => exact up21 ih
    | 2, _, ih, ⟨t, r, e, _, h2⟩ => exact up32 ⟨t, r, e, h2 (by omega)⟩ ih
    | 3, _, ih, _ => exact up43 ih
    | 4, _, ih, ⟨t, r, e, h1, _⟩ => exact up54 ⟨t, r, e, h1 (by omega)⟩ ih
    | 5, _, ih, _ => exact up65 ih
    | 6, _, ih, _ => exact up76 ih
  | @pow xs ys a b _ _ iha ihb =>
    intro X hX
    have ha : P 7 xs a := iha
    have hb : P 6 ys b := ihb
    show Ev (fun f => pPow f (xs ++ [Tok.pow] ++ ys ++ X)) (S.pow a b, X)
    simp only [List.append_assoc, List.cons_append, List.nil_append]
    refine Ev.succ (p := fun f => (pPrim f (xs ++ Tok.pow :: (ys ++ X))).bind fun x =>
        match x.2 with
        | Tok.pow :: r => (pPow f r).bind fun y => some (.pow x.1 y.1, y.2)
        | _ => some x) (fun f => by rw [pPow] <;> rfl) ?_
    exact Ev.bind (ha _) (Ev.bind (hb X hX) Ev.const)
  | @mul xs ys a b _ _ iha ihb =>
    intro X r hX hr
    have ha : P 5 xs a := iha
    have hb : P 6 ys b := ihb
    show Ev (fun f => pMul f (xs ++ [star] ++ ys ++ X)) r
    simp only [List.append_assoc, List.cons_append, List.nil_append]
    refine ha (star :: (ys ++ X)) r rfl ?_
    exact Ev.succ (p := fun f => (pPow f (ys ++ X)).bind fun x => pMulRest f (.mul a x.1) x.2)
      (fun f => by rw [pMulRest] <;> rfl) (Ev.bind (hb X hX) hr)
  | @div xs ys a b _ _ iha ihb =>
    intro X r hX hr
    have ha : P 5 xs a := iha
    have hb : P 6 ys b := ihb
    show Ev (fun f => pMul f (xs ++ [slash] ++ ys ++ X)) r
    simp only [List.append_assoc, List.cons_append, List.nil_append]
    refine ha (slash :: (ys ++ X)) r rfl ?_
    exact Ev.succ (p := fun f => (pPow f (ys ++ X)).bind fun x => pMulRest f (.div a x.1) x.2)
      (fun f => by rw [pMulRest] <;> rfl) (Ev.bind (hb X hX) hr)
  | @neg xs a _ iha =>
    intro X r hX hr
    have ha : P 5 xs a := iha
    show Ev (fun f => pAdd f ([minus] ++ xs ++ X)) r
    simp only [List.append_assoc, List.cons_append, List.nil_append]
    have hm := ha X (a, X) (nf5_6 hX) (mulRest_stop hX)
    exact Ev.succ (p := fun f => (pMul f (xs ++ X)).bind fun x => pAddRest f (.neg x.1) x.2)
      (fun f => by rw [pAdd] <;> rfl) (Ev.bind hm hr)
  | @add xs ys a b _ _ iha ihb =>
    intro X r hX hr
    have ha : P 4 xs a := iha
    have hb : P 5 ys b := ihb
    show Ev (fun f => pAdd f (xs ++ [plus] ++ ys ++ X)) r
    simp only [List.append_assoc, List.cons_append, List.nil_append]
    refine ha (plus :: (ys ++ X)) r rfl ?_
    have hm := hb X (b, X) (nf5_6 hX) (mulRest_stop hX)
    exact Ev.succ (p := fun f => (pMul f (ys ++ X)).bind fun x => pAddRest f (.add a x.1) x.2)
      (fun f => by rw [pAddRest] <;> rfl) (Ev.bind hm hr)
  | @sub xs ys a b _ _ iha ihb =>
    intro X r hX hr
    have ha : P 4 xs a := iha
    have hb : P 5 ys b := ihb
    show Ev (fun f => pAdd f (xs ++ [minus] ++ ys ++ X)) r
    simp only [List.append_assoc, List.cons_append, List.nil_append]
    refine ha (minus :: (ys ++ X)) r rfl ?_
    have hm := hb X (b, X) (nf5_6 hX) (mulRest_stop hX)
    exact Ev.succ (p := fun f => (pMul f (ys ++ X)).bind fun x => pAddRest f (.sub a x.1) x.2)
      (fun f => by rw [pAddRest] <;> rfl) (Ev.bind hm hr)
  | @cmp o xs ys a b _ _ iha ihb =>
    intro X hX
    have ha : P 4 xs a := iha
    have hb : P 4 ys b := ihb
    show Ev (fun f => pCmp f (xs ++ [Tok.cmp o] ++ ys ++ X)) (S.cmp o a b, X)
    simp only [List.append_assoc, List.cons_append, List.nil_append]
    have h1 := ha (Tok.cmp o :: (ys ++ X)) (a, Tok.cmp o :: (ys ++ X)) rfl (addRest_stop rfl)
    have h2 := hb X (b, X) (nf4_5 (nf3_4 hX)) (addRest_stop (nf3_4 hX))
    refine Ev.succ (p := fun f => (pAdd f (xs ++ Tok.cmp o :: (ys ++ X))).bind fun x =>
        match x.2 with
        | Tok.cmp o :: r => (pAdd f r).bind fun y => some (.cmp o x.1 y.1, y.2)
        | _ => some x) (fun f => by rw [pCmp] <;> rfl) ?_
    exact Ev.bind h1 (Ev.bind h2 Ev.const)
  | @not xs a _ iha =>
    intro X hX
    have ha : P 3 xs a := iha
    show Ev (fun f => pNot f ([Tok.not] ++ xs ++ X)) (S.not a, X)
    simp only [List.append_assoc, List.cons_append, List.nil_append]
    exact Ev.succ (p := fun f => (pCmp f (xs ++ X)).bind fun x => some (.not x.1, x.2))
      (fun f => by rw [pNot] <;> rfl) (Ev.bind (ha X hX) Ev.const)
  | @and xs ys a b _ _ iha ihb =>
    intro X r hX hr
    have ha : P 1 xs a := iha
    have hb : P 2 ys b := ihb
    show Ev (fun f => pAnd f (xs ++ [Tok.and] ++ ys ++ X)) r
    simp only [List.append_assoc, List.cons_append, List.nil_append]
    refine ha (Tok.and :: (ys ++ X)) r rfl ?_
    exact Ev.succ (p := fun f => (pNot f (ys ++ X)).bind fun x => pAndRest f (.and a x.1) x.2)
      (fun f => by rw [pAndRest] <;> rfl) (Ev.bind (hb X hX) hr)
  | @or xs ys a b _ _ iha ihb =>
    intro X r hX hr
    have ha : P 0 xs a := iha
    have hb : P 1 ys b := ihb
    show Ev (fun f => pOr f (xs ++ [Tok.or] ++ ys ++ X)) r
    simp only [List.append_assoc, List.cons_append, List.nil_append]
    refine ha (Tok.or :: (ys ++ X)) r rfl ?_
    have hm := hb X (b, X) (nf1_3 hX) (andRest_stop hX)
    exact Ev.succ (p := fun f => (pAnd f (ys ++ X)).bind fun x => pOrRest f (.or a x.1) x.2)
      (fun f => by rw [pOrRest] <;> rfl) (Ev.bind hm hr)

/-- **completeness of the reference parser**: a derivable token list is parsed, for every large enough fuel, to the
semantic tree of the derivation with nothing left over -/
theorem fparse_complete {ts : List Tok} {s : S} (h : G 0 ts s) :
    ∃ f0, ∀ f, f0 ≤ f → fparse f ts = some (s, []) := by
  have h0 : P 0 ts s := P_all h
  have := h0 [] (s, []) rfl (orRest_stop rfl)
  simpa [Ev, fparse] using this

/-- the grammar is unambiguous: a token list has at most one meaning -/
theorem G_unambiguous {ts : List Tok} {s s' : S} (h : G 0 ts s) (h' : G 0 ts s') : s = s' := by
  obtain ⟨f1, h1⟩ := fparse_complete h
  obtain ⟨f2, h2⟩ := fparse_complete h'
  have a := h1 (max f1 f2) (by omega)
  have b := h2 (max f1 f2) (by omega)
  rw [a] at b
  exact (Prod.mk.inj (Option.some.inj b)).1

end LokiModel.C07
