import LokiModel.C07.Model
import LokiModel.Expr.Grammar
/-!
# Concrete syntax trees cover exactly the derivations of the grammar

`G ℓ ts s` iff `ts = unparse c`, `s = sem c` for a well-formed concrete tree `c` of level ≥ ℓ.
-/
namespace LokiModel.C07
open LokiModel.Expr

theorem C.lvl_le7 (c : C) : c.lvl ≤ 7 := by cases c <;> simp [C.lvl]

/-- every derivation is the text of a well-formed concrete tree -/
theorem cover {ℓ ts s} (h : G ℓ ts s) : ∃ c : C, c.WF = true ∧ ℓ ≤ c.lvl ∧ c.unparse = ts ∧ c.sem = s := by
  induction h with
  | num n => exact ⟨.int n, rfl, by simp [C.lvl], rfl, rfl⟩
  | rnum t => exact ⟨.real t, rfl, by simp [C.lvl], rfl, rfl⟩
  | ident x => exact ⟨.var x, rfl, by simp [C.lvl], rfl, rfl⟩
  | tru => exact ⟨.bool true, rfl, by simp [C.lvl], rfl, rfl⟩
  | fls => exact ⟨.bool false, rfl, by simp [C.lvl], rfl, rfl⟩
  | paren _ ih =>
    obtain ⟨c, hw, _, hu, hs⟩ := ih
    exact ⟨.paren c, by simpa [C.WF] using hw, by simp [C.lvl], by simp [C.unparse, hu], by simp [C.sem, hs]⟩
  | up hl _ ih =>
    obtain ⟨c, hw, hl', hu, hs⟩ := ih
    exact ⟨c, hw, by omega, hu, hs⟩
  | pow _ _ iha ihb =>
    obtain ⟨a, hwa, hla, hua, hsa⟩ := iha
    obtain ⟨b, hwb, hlb, hub, hsb⟩ := ihb
    exact ⟨.pow a b, by simp [C.WF, hwa, hwb, hla, hlb], by simp [C.lvl], by simp [C.unparse, hua, hub], by simp [C.sem, hsa, hsb]⟩
  | mul _ _ iha ihb =>
    obtain ⟨a, hwa, hla, hua, hsa⟩ := iha
    obtain ⟨b, hwb, hlb, hub, hsb⟩ := ihb
    exact ⟨.mul a b, by simp [C.WF, hwa, hwb, hla, hlb], by simp [C.lvl], by simp [C.unparse, hua, hub], by simp [C.sem, hsa, hsb]⟩
  | div _ _ iha ihb =>
    obtain ⟨a, hwa, hla, hua, hsa⟩ := iha
    obtain ⟨b, hwb, hlb, hub, hsb⟩ := ihb
    exact ⟨.div a b, by simp [C.WF, hwa, hwb, hla, hlb], by simp [C.lvl], by simp [C.unparse, hua, hub], by simp [C.sem, hsa, hsb]⟩
  | neg _ iha =>
    obtain ⟨a, hwa, hla, hua, hsa⟩ := iha
    exact ⟨.neg a, by simp [C.WF, hwa, hla], by simp [C.lvl], by simp [C.unparse, hua], by simp [C.sem, hsa]⟩
  | add _ _ iha ihb =>
    obtain ⟨a, hwa, hla, hua, hsa⟩ := iha
    obtain ⟨b, hwb, hlb, hub, hsb⟩ := ihb
    exact ⟨.add a b, by simp [C.WF, hwa, hwb, hla, hlb], by simp [C.lvl], by simp [C.unparse, hua, hub], by simp [C.sem, hsa, hsb]⟩
  | sub _ _ iha ihb =>
    obtain ⟨a, hwa, hla, hua, hsa⟩ := iha
    obtain ⟨b, hwb, hlb, hub, hsb⟩ := ihb
    exact ⟨.sub a b, by simp [C.WF, hwa, hwb, hla, hlb], by simp [C.lvl], by simp [C.unparse, hua, hub], by simp [C.sem, hsa, hsb]⟩
  | @cmp o _ _ _ _ _ _ iha ihb =>
    obtain ⟨a, hwa, hla, hua, hsa⟩ := iha
    obtain ⟨b, hwb, hlb, hub, hsb⟩ := ihb
    exact ⟨.cmp o a b, by simp [C.WF, hwa, hwb, hla, hlb], by simp [C.lvl], by simp [C.unparse, hua, hub], by simp [C.sem, hsa, hsb]⟩
  | not _ iha =>
    obtain ⟨a, hwa, hla, hua, hsa⟩ := iha
    exact ⟨.not a, by simp [C.WF, hwa, hla], by simp [C.lvl], by simp [C.unparse, hua], by simp [C.sem, hsa]⟩
  | and _ _ iha ihb =>
    obtain ⟨a, hwa, hla, hua, hsa⟩ := iha
    obtain ⟨b, hwb, hlb, hub, hsb⟩ := ihb
    exact ⟨.and a b, by simp [C.WF, hwa, hwb, hla, hlb], by simp [C.lvl], by simp [C.unparse, hua, hub], by simp [C.sem, hsa, hsb]⟩
  | or _ _ iha ihb =>
    obtain ⟨a, hwa, hla, hua, hsa⟩ := iha
    obtain ⟨b, hwb, hlb, hub, hsb⟩ := ihb
    exact ⟨.or a b, by simp [C.WF, hwa, hwb, hlb], by simp [C.lvl], by simp [C.unparse, hua, hub], by simp [C.sem, hsa, hsb]⟩

/-- the text of a well-formed concrete tree is derivable at the level of its top node, with meaning `sem` -/
theorem unparse_G (c : C) (hw : c.WF = true) : G c.lvl c.unparse c.sem := by
  induction c with
  | int n => exact G.num n
  | real t => exact G.rnum t
  | var x => exact G.ident x
  | bool b => cases b; exact G.fls; exact G.tru
  | paren c ih => exact G.paren ((ih (by simpa [C.WF] using hw)).weaken (Nat.zero_le _) c.lvl_le7)
  | pow a b iha ihb =>
    simp only [C.WF, Bool.and_eq_true, decide_eq_true_eq] at hw
    exact G.pow ((iha hw.1.2).weaken hw.1.1.1 a.lvl_le7) ((ihb hw.2).weaken hw.1.1.2 b.lvl_le7)
  | mul a b iha ihb =>
    simp only [C.WF, Bool.and_eq_true, decide_eq_true_eq] at hw
    exact G.mul ((iha hw.1.2).weaken hw.1.1.1 a.lvl_le7) ((ihb hw.2).weaken hw.1.1.2 b.lvl_le7)
  | div a b iha ihb =>
    simp only [C.WF, Bool.and_eq_true, decide_eq_true_eq] at hw
    exact G.div ((iha hw.1.2).weaken hw.1.1.1 a.lvl_le7) ((ihb hw.2).weaken hw.1.1.2 b.lvl_le7)
  | neg a iha =>
    simp only [C.WF, Bool.and_eq_true, decide_eq_true_eq] at hw
    exact G.neg ((iha hw.2).weaken hw.1 a.lvl_le7)
  | add a b iha ihb =>
    simp only [C.WF, Bool.and_eq_true, decide_eq_true_eq] at hw
    exact G.add ((iha hw.1.2).weaken hw.1.1.1 a.lvl_le7) ((ihb hw.2).weaken hw.1.1.2 b.lvl_le7)
  | sub a b iha ihb =>
    simp only [C.WF, Bool.and_eq_true, decide_eq_true_eq] at hw
    exact G.sub ((iha hw.1.2).weaken hw.1.1.1 a.lvl_le7) ((ihb hw.2).weaken hw.1.1.2 b.lvl_le7)
  | cmp o a b iha ihb =>
    simp only [C.WF, Bool.and_eq_true, decide_eq_true_eq] at hw
    exact G.cmp ((iha hw.1.2).weaken hw.1.1.1 a.lvl_le7) ((ihb hw.2).weaken hw.1.1.2 b.lvl_le7)
  | not a iha =>
    simp only [C.WF, Bool.and_eq_true, decide_eq_true_eq] at hw
    exact G.not ((iha hw.2).weaken hw.1 a.lvl_le7)
  | and a b iha ihb =>
    simp only [C.WF, Bool.and_eq_true, decide_eq_true_eq] at hw
    exact G.and ((iha hw.1.2).weaken hw.1.1.1 a.lvl_le7) ((ihb hw.2).weaken hw.1.1.2 b.lvl_le7)
  | or a b iha ihb =>
    simp only [C.WF, Bool.and_eq_true, decide_eq_true_eq] at hw
    exact G.or ((iha hw.1.2).weaken (Nat.zero_le _) a.lvl_le7) ((ihb hw.2).weaken hw.1.1 b.lvl_le7)

end LokiModel.C07
