import LokiModel.Expr.Basic
import LokiModel.Expr.Grammar
/-!
# Reference side of C07: an executable deterministic parser for the shared Fortran expression grammar `G`

One function per grammar level of `LokiModel/Expr/Grammar.lean` plus one accumulator loop per left-recursive
level, structurally recursive on a fuel argument.  `fparse f ts` returns the semantic tree and the unconsumed
rest.  Soundness and completeness with respect to `G` are proved in `FSound.lean` / `FComplete.lean`.
Core Lean only.
-/
namespace LokiModel.C07
open LokiModel.Expr LokiModel.Expr.Tok

abbrev R := S × List Tok

mutual
/-- level 0: `expr ::= [ expr .or. ] or-operand` -/
def pOr : Nat → List Tok → Option R
  | 0, _ => none
  | f+1, ts => (pAnd f ts).bind fun x => pOrRest f x.1 x.2
def pOrRest : Nat → S → List Tok → Option R
  | 0, _, _ => none
  | f+1, acc, ts =>
    match ts with
    | Tok.or :: r => (pAnd f r).bind fun x => pOrRest f (.or acc x.1) x.2
    | _ => some (acc, ts)
/-- level 1: `or-operand ::= [ or-operand .and. ] and-operand` -/
def pAnd : Nat → List Tok → Option R
  | 0, _ => none
  | f+1, ts => (pNot f ts).bind fun x => pAndRest f x.1 x.2
def pAndRest : Nat → S → List Tok → Option R
  | 0, _, _ => none
  | f+1, acc, ts =>
    match ts with
    | Tok.and :: r => (pNot f r).bind fun x => pAndRest f (.and acc x.1) x.2
    | _ => some (acc, ts)
/-- level 2: `and-operand ::= [ .not. ] level-4-expr` -/
def pNot : Nat → List Tok → Option R
  | 0, _ => none
  | f+1, ts =>
    match ts with
    | Tok.not :: r => (pCmp f r).bind fun x => some (.not x.1, x.2)
    | _ => pCmp f ts
/-- level 3: `level-4-expr ::= [ level-2 rel-op ] level-2` -/
def pCmp : Nat → List Tok → Option R
  | 0, _ => none
  | f+1, ts => (pAdd f ts).bind fun x =>
    match x.2 with
    | Tok.cmp o :: r => (pAdd f r).bind fun y => some (.cmp o x.1 y.1, y.2)
    | _ => some x
/-- level 4: `level-2-expr ::= [ [ level-2-expr ] add-op ] add-operand` (only `-` as a sign) -/
def pAdd : Nat → List Tok → Option R
  | 0, _ => none
  | f+1, ts =>
    match ts with
    | minus :: r => (pMul f r).bind fun x => pAddRest f (.neg x.1) x.2
    | _ => (pMul f ts).bind fun x => pAddRest f x.1 x.2
def pAddRest : Nat → S → List Tok → Option R
  | 0, _, _ => none
  | f+1, acc, ts =>
    match ts with
    | plus :: r => (pMul f r).bind fun x => pAddRest f (.add acc x.1) x.2
    | minus :: r => (pMul f r).bind fun x => pAddRest f (.sub acc x.1) x.2
    | _ => some (acc, ts)
/-- level 5: `add-operand ::= [ add-operand mult-op ] mult-operand` -/
def pMul : Nat → List Tok → Option R
  | 0, _ => none
  | f+1, ts => (pPow f ts).bind fun x => pMulRest f x.1 x.2
def pMulRest : Nat → S → List Tok → Option R
  | 0, _, _ => none
  | f+1, acc, ts =>
    match ts with
    | star :: r => (pPow f r).bind fun x => pMulRest f (.mul acc x.1) x.2
    | slash :: r => (pPow f r).bind fun x => pMulRest f (.div acc x.1) x.2
    | _ => some (acc, ts)
/-- level 6: `mult-operand ::= primary [ ** mult-operand ]` -/
def pPow : Nat → List Tok → Option R
  | 0, _ => none
  | f+1, ts => (pPrim f ts).bind fun x =>
    match x.2 with
    | Tok.pow :: r => (pPow f r).bind fun y => some (.pow x.1 y.1, y.2)
    | _ => some x
/-- level 7: constant, variable, `( expr )` -/
def pPrim : Nat → List Tok → Option R
  | 0, _ => none
  | f+1, ts =>
    match ts with
    | num n :: r => some (.int n, r)
    | rnum t :: r => some (.real t, r)
    | Tok.id x :: r => some (.var x, r)
    | tru :: r => some (.bool true, r)
    | fls :: r => some (.bool false, r)
    | lp :: r => (pOr f r).bind fun x =>
        match x.2 with
        | rp :: r' => some (x.1, r')
        | _ => none
    | _ => none
end

/-- the reference parser: semantic tree and unconsumed rest, `none` when the fuel runs out or the text is not an expression -/
def fparse (fuel : Nat) (ts : List Tok) : Option (S × List Tok) := pOr fuel ts

/-- fuel that is always enough (see `fparse_complete`; every call consumes at most one unit per grammar level and token) -/
def fparseAll (ts : List Tok) : Option S :=
  match fparse (12 * ts.length + 12) ts with
  | some (s, []) => some s
  | _ => none

/-! ### "returns `r` for all large enough fuel" -/

def Ev {α} (p : Nat → Option α) (r : α) : Prop := ∃ f0, ∀ f, f0 ≤ f → p f = some r

theorem Ev.succ {α} {p q : Nat → Option α} {r : α}
    (h : ∀ f, q (f+1) = p f) (hp : Ev p r) : Ev q r := by
  obtain ⟨f0, hf⟩ := hp
  refine ⟨f0+1, fun f hle => ?_⟩
  obtain ⟨g, rfl⟩ : ∃ g, f = g+1 := ⟨f-1, by omega⟩
  rw [h]; exact hf g (by omega)

theorem Ev.bind {α β} {p : Nat → Option α} {k : Nat → α → Option β} {a : α} {r : β}
    (hp : Ev p a) (hk : Ev (fun f => k f a) r) : Ev (fun f => (p f).bind (k f)) r := by
  obtain ⟨f1, h1⟩ := hp; obtain ⟨f2, h2⟩ := hk
  refine ⟨max f1 f2, fun f hle => ?_⟩
  simp [h1 f (by omega), h2 f (by omega)]

theorem Ev.pure {α} {p : Nat → Option α} {r : α} (h : ∀ f, p (f+1) = some r) : Ev p r :=
  ⟨1, fun f hf => by obtain ⟨g, rfl⟩ : ∃ g, f = g+1 := ⟨f-1, by omega⟩; exact h g⟩

theorem Ev.const {α} {r : α} : Ev (fun _ => some r) r := ⟨0, fun _ _ => rfl⟩

theorem Ev.unique {α} {p : Nat → Option α} {r r' : α} (h : Ev p r) (h' : Ev p r') : r = r' := by
  obtain ⟨f1, h1⟩ := h; obtain ⟨f2, h2⟩ := h'
  have a := h1 (max f1 f2) (by omega)
  have b := h2 (max f1 f2) (by omega)
  rw [a] at b; exact Option.some.inj b

end LokiModel.C07
