import LokiModel.C07.PParse
/-!
# Loki's parser on every well-formed concrete syntax tree outside the known classes

Induction on the concrete tree `c`: the model of `parse_expr` applied to the lexer tags of `unparse c` returns a
tree whose meaning (`den`) has the value of `sem c` under every valuation.
-/
namespace LokiModel.C07
open LokiModel.Expr
open LokiModel.C06 (E den denFold denInt)
open PTab

/-- lexer tags of the text of a concrete tree -/
def tg (c : C) : List LTag := plex c.unparse

theorem tg_bin (a b : C) (t : Tok) : plex (a.unparse ++ [t] ++ b.unparse) = tg a ++ lex1 t :: tg b := by
  simp [tg, plex]

theorem head_append {l : List LTag} (X : List LTag) (h : ∃ t r, l = t :: r ∧ t ≠ LTag.closepar) :
    ∃ t r, l ++ X = t :: r ∧ t ≠ LTag.closepar := by
  obtain ⟨t, r, e, h⟩ := h
  exact ⟨t, r ++ X, by rw [e]; rfl, h⟩

theorem tg_head (c : C) : ∃ t r, tg c = t :: r ∧ t ≠ LTag.closepar := by
  induction c with
  | int n => exact ⟨_, _, rfl, by simp [lex1]⟩
  | real t => exact ⟨_, _, rfl, by simp [lex1]⟩
  | var x => exact ⟨_, _, rfl, by simp [lex1]⟩
  | bool b => cases b <;> exact ⟨_, _, rfl, by simp [lex1]⟩
  | paren c _ => exact ⟨.openpar, _, rfl, by simp⟩
  | neg a _ => exact ⟨.minus, _, rfl, by simp⟩
  | not a _ => exact ⟨.not, _, rfl, by simp⟩
  | pow a b iha _ | mul a b iha _ | div a b iha _ | add a b iha _ | sub a b iha _ | and a b iha _ | or a b iha _ =>
    unfold tg; simp only [C.unparse]; rw [tg_bin]; exact head_append _ iha
  | cmp o a b iha _ =>
    unfold tg; simp only [C.unparse]; rw [tg_bin]; exact head_append _ iha

/-- decomposition of a `* /` chain into first operand and rest, with the tree Loki builds for it -/
def IsChain (c : C) (e : E) : Prop := ∃ (o0 : Opd) (tl : List (Bool × Opd)),
  tg c = o0.ts ++ tagsOf tl ∧ c.sem = semFold o0.s (sOf tl) ∧ c.ops = opsOf tl ∧ e = T o0.e (eOf tl) ∧
  o0.semOK ∧ ParseOK c.headOperand.lvl o0.ts o0.e ∧ 6 ≤ c.headOperand.lvl ∧
  (∀ x ∈ tl, x.2.semOK ∧ ParseOK 6 x.2.ts x.2.e)

def Res (c : C) : Prop := ∃ e, SEq (den e) c.sem ∧ ParseOK c.lvl (tg c) e ∧
  (6 ≤ c.lvl → notMulTop e = true) ∧ (5 ≤ c.lvl → IsChain c e)

theorem semFold_append (s : S) (l : List (Bool × S)) (o : Bool) (m : S) :
    semFold s (l ++ [(o, m)]) = (if o then S.div (semFold s l) m else S.mul (semFold s l) m) := by
  induction l generalizing s with
  | nil => cases o <;> rfl
  | cons x l ih => obtain ⟨o', m'⟩ := x; cases o' <;> simp [semFold, ih]

/-- an operand (level ≥ 6) is a chain without rest -/
theorem isChain_operand {c : C} {e : E} (hl : 6 ≤ c.lvl) (hs : SEq (den e) c.sem) (hn : notMulTop e = true)
    (hp : ParseOK c.lvl (tg c) e) : IsChain c e := by
  have h1 : c.ops = [] := by cases c <;> simp_all [C.ops, C.lvl]
  have h2 : c.headOperand = c := by cases c <;> simp_all [C.headOperand, C.lvl]
  refine ⟨⟨tg c, e, c.sem⟩, [], by simp [tagsOf], rfl, by simp [h1, opsOf], rfl, ⟨hn, hs⟩, by rw [h2]; exact hp,
    by rw [h2]; exact hl, by simp⟩

/-- appending `op b` to a chain -/
theorem isChain_snoc {a b : C} {ea eb : E} (o : Bool) (ha : IsChain a ea)
    (hb6 : 6 ≤ b.lvl) (hbs : SEq (den eb) b.sem) (hbn : notMulTop eb = true) (hbp : ParseOK b.lvl (tg b) eb) :
    ∃ e, IsChain (if o then C.div a b else C.mul a b) e := by
  obtain ⟨o0, tl, h1, h2, h3, h4, h5, h6, h7, h8⟩ := ha
  let ob : Opd := ⟨tg b, eb, b.sem⟩
  refine ⟨T o0.e (eOf (tl ++ [(o, ob)])), o0, tl ++ [(o, ob)], ?_, ?_, ?_, rfl, h5, ?_, ?_, ?_⟩
  · cases o
    · show plex (a.unparse ++ [Tok.star] ++ b.unparse) = _
      rw [tg_bin, h1]; simp [tagsOf_append, tagsOf, opTag, lex1, ob]
    · show plex (a.unparse ++ [Tok.slash] ++ b.unparse) = _
      rw [tg_bin, h1]; simp [tagsOf_append, tagsOf, opTag, lex1, ob]
  · cases o <;> simp [C.sem, sOf, semFold_append, ob, h2]
  · cases o <;> simp [C.ops, opsOf, h3]
  · cases o <;> simpa [C.headOperand] using h6
  · cases o <;> simpa [C.headOperand] using h7
  · intro x hx
    rcases List.mem_append.mp hx with hx | hx
    · exact h8 x hx
    · simp at hx; subst hx; exact ⟨⟨hbn, hbs⟩, hbp.mono hb6⟩

/-- a chain outside `badChain` is parsed to a tree of the right value -/
theorem chain_res {c : C} {e : E} (hc : IsChain c e) (hb : badChain c.ops = false) :
    SEq (den e) c.sem ∧ ParseOK 5 (tg c) e := by
  obtain ⟨o0, tl, h1, h2, h3, h4, h5, h6, h7, h8⟩ := hc
  have ho := prec_order
  constructor
  · rw [h2, h4]
    exact T_sem tl o0.e o0.s (fun x hx => (h8 x hx).1) h5.2 (by rw [← h3]; exact hb)
  · intro mp X r hmp hX hr
    have hmp' : mp < PREC_TIMES := by simpa [Mlt] using hmp
    have hX' : stop PREC_PLUS X = true := by simpa [xc] using hX
    rw [h1, List.append_assoc]
    refine (h6.mono h7) mp _ r (by simp [Mlt]; omega) (by simpa [xc] using stop_tags hX') ?_
    rw [h4] at hr
    exact loopChain tl mp o0.e X r (fun x hx => (h8 x hx).2) hmp' hX' hr

theorem known_badChain {a : C} (h : Known a = false) : badChain a.ops = false := by
  cases a <;> simp_all [Known, C.ops, badChain]

theorem lvl6_negPow {c : C} (h : c.lvl = 6) : negPow c = true := by
  cases c <;> simp_all [C.lvl, negPow]

theorem pPrefix_openpar {t : LTag} {r : List LTag} (ht : t ≠ .closepar) (f : Nat) :
    pPrefix (f+1) (.openpar :: t :: r) = (pExpr f 0 (t :: r)).bind fun x =>
      match x.2 with
      | .closepar :: r' => some (parenthesise x.1, r')
      | _ => none := by
  cases t <;> first | (exact absurd rfl ht) | (simp only [pPrefix]; rfl)

theorem den_ilit_nat (n : Nat) : den (.ilit (n : Int)) = S.int n := by
  simp [den, denInt]

theorem res_all (c : C) (hw : c.WF = true) (hk : Known c = false) : Res c := by
  have ho := prec_order
  induction c with
  | int n =>
    have hp : ParseOK 7 (tg (.int n)) (.ilit n) := parseOK_terminal (t := .int n) (fun f X => by simp [pPrefix]) 7
    exact ⟨.ilit n, by rw [den_ilit_nat]; exact SEq.refl _, hp, fun _ => rfl,
      fun _ => isChain_operand (by simp [C.lvl]) (by rw [den_ilit_nat]; exact SEq.refl _) rfl hp⟩
  | real t =>
    have hp : ParseOK 7 (tg (.real t)) (.rlit t) := parseOK_terminal (t := .float t) (fun f X => by simp [pPrefix]) 7
    exact ⟨.rlit t, SEq.refl _, hp, fun _ => rfl, fun _ => isChain_operand (by simp [C.lvl]) (SEq.refl _) rfl hp⟩
  | var x =>
    have hp : ParseOK 7 (tg (.var x)) (.var x) := parseOK_terminal (t := .ident x) (fun f X => by simp [pPrefix]) 7
    exact ⟨.var x, SEq.refl _, hp, fun _ => rfl, fun _ => isChain_operand (by simp [C.lvl]) (SEq.refl _) rfl hp⟩
  | bool b =>
    have hp : ParseOK 7 (tg (.bool b)) (.blit b) := by
      cases b
      · exact parseOK_terminal (t := .ffalse) (fun f X => by simp [pPrefix]) 7
      · exact parseOK_terminal (t := .ftrue) (fun f X => by simp [pPrefix]) 7
    exact ⟨.blit b, SEq.refl _, hp, fun _ => rfl, fun _ => isChain_operand (by simp [C.lvl]) (SEq.refl _) rfl hp⟩
  | paren c ih =>
    obtain ⟨e, hs, hp, _, _⟩ := ih (by simpa [C.WF] using hw) (by simpa [Known] using hk)
    have hs' : SEq (den (parenthesise e)) (C.paren c).sem := by rw [den_parenthesise]; exact hs
    have hp' : ParseOK 7 (tg (.paren c)) (parenthesise e) := by
      intro mp X r _ _ hr
      obtain ⟨t, r0, e0, ht⟩ := tg_head c
      have h0 := (hp.mono (Nat.zero_le _)) 0 (.closepar :: X) (e, .closepar :: X) (by simp [Mlt]; omega) rfl (loop_stop rfl)
      show Ev (fun f => pExpr f mp (plex ([Tok.lp] ++ c.unparse ++ [Tok.rp]) ++ X)) r
      have : plex ([Tok.lp] ++ c.unparse ++ [Tok.rp]) ++ X = .openpar :: (tg c ++ .closepar :: X) := by
        simp [plex, tg, lex1]
      rw [this]
      refine Ev.succ (p := fun f => (pPrefix f (.openpar :: (tg c ++ .closepar :: X))).bind fun x => pLoop f mp x.1 x.2)
        (fun f => pExpr_succ f mp _) ?_
      refine Ev.bind (a := (parenthesise e, X)) ?_ hr
      rw [e0] at h0 ⊢
      refine Ev.succ (p := fun f => (pExpr f 0 (t :: r0 ++ .closepar :: X)).bind fun x =>
          match x.2 with
          | .closepar :: r' => some (parenthesise x.1, r')
          | _ => none) (fun f => pPrefix_openpar ht f) ?_
      exact Ev.bind h0 Ev.const
    exact ⟨parenthesise e, hs', hp', fun _ => notMulTop_parenthesise e,
      fun _ => isChain_operand (by simp [C.lvl]) hs' (notMulTop_parenthesise e) hp'⟩
  | pow a b iha ihb =>
    simp only [C.WF, Bool.and_eq_true, decide_eq_true_eq] at hw
    simp only [Known, Bool.or_eq_false_iff] at hk
    obtain ⟨ea, hsa, hpa, _, _⟩ := iha hw.1.2 hk.1
    obtain ⟨eb, hsb, hpb, _, _⟩ := ihb hw.2 hk.2
    have hs : SEq (den (.pow false ea eb)) (C.pow a b).sem := by rw [den_pow]; exact SEq.pow hsa hsb
    have hp : ParseOK 6 (tg (.pow a b)) (.pow false ea eb) := by
      intro mp X r hmp hX hr
      have hmp' : mp < PREC_POWER := by simpa [Mlt] using hmp
      have hX' : stop PREC_TIMES X = true := by simpa [xc] using hX
      show Ev (fun f => pExpr f mp (plex (a.unparse ++ [Tok.pow] ++ b.unparse) ++ X)) r
      rw [tg_bin, List.append_assoc]
      refine (hpa.mono hw.1.1.1) mp _ r (by simp [Mlt]; omega) (by simpa [xc] using stop_call _) ?_
      refine Ev.succ (p := fun f => (pExpr f PREC_TIMES (tg b ++ X)).bind fun x =>
          pLoop f mp (.pow false ea x.1) x.2) (fun f => by simp only [lex1, List.cons_append]; rw [pLoop, if_pos hmp']) ?_
      exact Ev.bind ((hpb.mono hw.1.1.2) PREC_TIMES X _ (by simp [Mlt]; omega) (by simpa [xc] using hX') (loop_stop hX')) hr
    exact ⟨_, hs, hp, fun _ => rfl, fun _ => isChain_operand (by simp [C.lvl]) hs rfl hp⟩
  | mul a b iha ihb =>
    simp only [C.WF, Bool.and_eq_true, decide_eq_true_eq] at hw
    have hkb := hk
    simp only [Known, Bool.or_eq_false_iff] at hk
    obtain ⟨ea, _, _, _, hca⟩ := iha hw.1.2 hk.1.2
    obtain ⟨eb, hsb, hpb, hnb, _⟩ := ihb hw.2 hk.2
    obtain ⟨e, hc⟩ := isChain_snoc false (hca hw.1.1.1) hw.1.1.2 hsb (hnb hw.1.1.2) hpb
    obtain ⟨hs, hp⟩ := chain_res hc hk.1.1
    exact ⟨e, hs, hp, fun h => by simp [C.lvl] at h, fun _ => hc⟩
  | div a b iha ihb =>
    simp only [C.WF, Bool.and_eq_true, decide_eq_true_eq] at hw
    simp only [Known, Bool.or_eq_false_iff] at hk
    obtain ⟨ea, _, _, _, hca⟩ := iha hw.1.2 hk.1.2
    obtain ⟨eb, hsb, hpb, hnb, _⟩ := ihb hw.2 hk.2
    obtain ⟨e, hc⟩ := isChain_snoc true (hca hw.1.1.1) hw.1.1.2 hsb (hnb hw.1.1.2) hpb
    obtain ⟨hs, hp⟩ := chain_res hc hk.1.1
    exact ⟨e, hs, hp, fun h => by simp [C.lvl] at h, fun _ => hc⟩
  | neg a iha =>
    simp only [C.WF, Bool.and_eq_true, decide_eq_true_eq] at hw
    simp only [Known, Bool.or_eq_false_iff] at hk
    obtain ⟨ea, _, _, _, hca⟩ := iha hw.2 hk.2
    obtain ⟨o0, tl, h1, h2, h3, h4, h5, h6, h7, h8⟩ := hca hw.1
    have h7' : 7 ≤ a.headOperand.lvl := by
      rcases Nat.lt_or_ge 6 a.headOperand.lvl with h | h
      · exact h
      · have := lvl6_negPow (c := a.headOperand) (by omega); simp_all
    have hb : badChain (opsOf tl) = false := by rw [← h3]; exact known_badChain hk.2
    let L : E := .prod false [.pyint (-1), o0.e]
    refine ⟨T L (eOf tl), ?_, ?_, fun h => by simp [C.lvl] at h, fun h => by simp [C.lvl] at h⟩
    · show SEq _ (S.neg a.sem)
      rw [h2]
      exact SEq.trans (T_sem tl L (.neg o0.s) (fun x hx => (h8 x hx).1) (den_minus_one _ _ h5.2) hb) (semFold_neg _ _)
    · intro mp X r hmp hX hr
      have hmp' : mp < PREC_PLUS := by simpa [Mlt, C.lvl] using hmp
      have hX' : stop PREC_PLUS X = true := by simpa [xc, C.lvl] using hX
      have hY : stop PREC_TIMES (tagsOf tl ++ X) = true := stop_tags hX'
      show Ev (fun f => pExpr f mp (plex ([Tok.minus] ++ a.unparse) ++ X)) r
      have : plex ([Tok.minus] ++ a.unparse) ++ X = .minus :: (o0.ts ++ (tagsOf tl ++ X)) := by
        simp only [plex, List.map_append, List.map_cons, List.map_nil, lex1, List.cons_append, List.nil_append]
        rw [show List.map lex1 a.unparse = tg a from rfl, h1, List.append_assoc]
      rw [this]
      refine Ev.succ (p := fun f => (pPrefix f (.minus :: (o0.ts ++ (tagsOf tl ++ X)))).bind fun x => pLoop f mp x.1 x.2)
        (fun f => pExpr_succ f mp _) ?_
      refine Ev.bind (a := (L, tagsOf tl ++ X)) ?_ (loopChain tl mp L X r (fun x hx => (h8 x hx).2) (by omega) hX' hr)
      refine Ev.succ (p := fun f => (pExpr f PREC_UNARY (o0.ts ++ (tagsOf tl ++ X))).bind fun x =>
          some (E.prod false [.pyint (-1), x.1], x.2)) (fun f => by rw [pPrefix]) ?_
      refine Ev.bind ((h6.mono h7') PREC_UNARY _ _ (by simp [Mlt]; omega) (by simpa [xc] using stop_call _)
        (loop_stop (stop_mono hY (by omega)))) Ev.const
  | add a b iha ihb =>
    simp only [C.WF, Bool.and_eq_true, decide_eq_true_eq] at hw
    simp only [Known, Bool.or_eq_false_iff] at hk
    obtain ⟨ea, hsa, hpa, _, _⟩ := iha hw.1.2 hk.1
    obtain ⟨eb, hsb, hpb, _, _⟩ := ihb hw.2 hk.2
    refine ⟨.sum false [ea, eb], by rw [den_sum2]; exact SEq.add hsa hsb, ?_, fun h => by simp [C.lvl] at h,
      fun h => by simp [C.lvl] at h⟩
    intro mp X r hmp hX hr
    have hmp' : mp < PREC_PLUS := by simpa [Mlt, C.lvl] using hmp
    have hX' : stop PREC_PLUS X = true := by simpa [xc, C.lvl] using hX
    show Ev (fun f => pExpr f mp (plex (a.unparse ++ [Tok.plus] ++ b.unparse) ++ X)) r
    rw [tg_bin, List.append_assoc]
    refine (hpa.mono hw.1.1.1) mp _ r (by simp [Mlt]; omega) (by simp [xc, lex1, stop]) ?_
    refine Ev.succ (p := fun f => (pExpr f PREC_PLUS (tg b ++ X)).bind fun x =>
        pLoop f mp (.sum false [ea, x.1]) x.2) (fun f => by simp only [lex1, List.cons_append]; rw [pLoop, if_pos hmp']) ?_
    exact Ev.bind ((hpb.mono hw.1.1.2) PREC_PLUS X _ (by simp [Mlt]; omega) (by simpa [xc] using hX') (loop_stop hX')) hr
  | sub a b iha ihb =>
    simp only [C.WF, Bool.and_eq_true, decide_eq_true_eq] at hw
    simp only [Known, Bool.or_eq_false_iff] at hk
    obtain ⟨ea, hsa, hpa, _, _⟩ := iha hw.1.2 hk.1
    obtain ⟨eb, hsb, hpb, _, _⟩ := ihb hw.2 hk.2
    refine ⟨.sum false [ea, .prod false [.pyint (-1), eb]], den_sub _ _ _ _ hsa hsb, ?_, fun h => by simp [C.lvl] at h,
      fun h => by simp [C.lvl] at h⟩
    intro mp X r hmp hX hr
    have hmp' : mp < PREC_PLUS := by simpa [Mlt, C.lvl] using hmp
    have hX' : stop PREC_PLUS X = true := by simpa [xc, C.lvl] using hX
    show Ev (fun f => pExpr f mp (plex (a.unparse ++ [Tok.minus] ++ b.unparse) ++ X)) r
    rw [tg_bin, List.append_assoc]
    refine (hpa.mono hw.1.1.1) mp _ r (by simp [Mlt]; omega) (by simp [xc, lex1, stop]) ?_
    refine Ev.succ (p := fun f => (pExpr f PREC_PLUS (tg b ++ X)).bind fun x =>
        pLoop f mp (.sum false [ea, .prod false [.pyint (-1), x.1]]) x.2)
      (fun f => by simp only [lex1, List.cons_append]; rw [pLoop, if_pos hmp']) ?_
    exact Ev.bind ((hpb.mono hw.1.1.2) PREC_PLUS X _ (by simp [Mlt]; omega) (by simpa [xc] using hX') (loop_stop hX')) hr
  | cmp o a b iha ihb =>
    simp only [C.WF, Bool.and_eq_true, decide_eq_true_eq] at hw
    simp only [Known, Bool.or_eq_false_iff] at hk
    obtain ⟨ea, hsa, hpa, _, _⟩ := iha hw.1.2 hk.1
    obtain ⟨eb, hsb, hpb, _, _⟩ := ihb hw.2 hk.2
    refine ⟨.cmp o ea eb, by simp only [den]; exact SEq.cmp hsa hsb, ?_, fun h => by simp [C.lvl] at h,
      fun h => by simp [C.lvl] at h⟩
    intro mp X r hmp hX hr
    have hmp' : mp < PREC_COMPARISON := by simpa [Mlt, C.lvl] using hmp
    have hX' : stop PREC_COMPARISON X = true := by simpa [xc, C.lvl] using hX
    show Ev (fun f => pExpr f mp (plex (a.unparse ++ [Tok.cmp o] ++ b.unparse) ++ X)) r
    rw [tg_bin, List.append_assoc]
    refine (hpa.mono hw.1.1.1) mp _ r (by simp [Mlt]; omega) (by simp [xc, lex1, stop]; omega) ?_
    refine Ev.succ (p := fun f => (pExpr f PREC_COMPARISON (tg b ++ X)).bind fun x =>
        pLoop f mp (.cmp o ea x.1) x.2) (fun f => by simp only [lex1, List.cons_append]; rw [pLoop, if_pos hmp']) ?_
    exact Ev.bind ((hpb.mono hw.1.1.2) PREC_COMPARISON X _ (by simp [Mlt]; omega)
      (by simpa [xc] using stop_mono hX' (by omega)) (loop_stop hX')) hr
  | not a iha =>
    simp only [C.WF, Bool.and_eq_true, decide_eq_true_eq] at hw
    simp only [Known, Bool.or_eq_false_iff, decide_eq_false_iff_not, Nat.not_lt] at hk
    obtain ⟨ea, hsa, hpa, _, _⟩ := iha hw.2 hk.2
    refine ⟨.lnot ea, by simp only [den]; exact SEq.not hsa, ?_, fun h => by simp [C.lvl] at h,
      fun h => by simp [C.lvl] at h⟩
    intro mp X r hmp hX hr
    have hX' : stop PREC_COMPARISON X = true := by simpa [xc, C.lvl] using hX
    show Ev (fun f => pExpr f mp (plex ([Tok.not] ++ a.unparse) ++ X)) r
    have : plex ([Tok.not] ++ a.unparse) ++ X = .not :: (tg a ++ X) := by simp [plex, tg, lex1]
    rw [this]
    refine Ev.succ (p := fun f => (pPrefix f (.not :: (tg a ++ X))).bind fun x => pLoop f mp x.1 x.2)
      (fun f => pExpr_succ f mp _) ?_
    refine Ev.bind (a := (.lnot ea, X)) ?_ hr
    refine Ev.succ (p := fun f => (pExpr f PREC_UNARY (tg a ++ X)).bind fun x => some (E.lnot x.1, x.2))
      (fun f => by rw [pPrefix]) ?_
    exact Ev.bind ((hpa.mono hk.1) PREC_UNARY X _ (by simp [Mlt]; omega) (by simpa [xc] using stop_call _)
      (loop_stop (stop_mono hX' (by omega)))) Ev.const
  | and a b iha ihb =>
    simp only [C.WF, Bool.and_eq_true, decide_eq_true_eq] at hw
    simp only [Known, Bool.or_eq_false_iff] at hk
    obtain ⟨ea, hsa, hpa, _, _⟩ := iha hw.1.2 hk.1
    obtain ⟨eb, hsb, hpb, _, _⟩ := ihb hw.2 hk.2
    refine ⟨.land [ea, eb], by rw [den_land2]; exact SEq.and hsa hsb, ?_, fun h => by simp [C.lvl] at h,
      fun h => by simp [C.lvl] at h⟩
    intro mp X r hmp hX hr
    have hmp' : mp < PREC_LOGICAL_AND := by simpa [Mlt, C.lvl] using hmp
    have hX' : stop PREC_LOGICAL_AND X = true := by simpa [xc, C.lvl] using hX
    show Ev (fun f => pExpr f mp (plex (a.unparse ++ [Tok.and] ++ b.unparse) ++ X)) r
    rw [tg_bin, List.append_assoc]
    refine (hpa.mono hw.1.1.1) mp _ r (by simp [Mlt]; omega) (by simp [xc, lex1, stop]) ?_
    refine Ev.succ (p := fun f => (pExpr f PREC_LOGICAL_AND (tg b ++ X)).bind fun x =>
        pLoop f mp (.land [ea, x.1]) x.2) (fun f => by simp only [lex1, List.cons_append]; rw [pLoop, if_pos hmp']) ?_
    exact Ev.bind ((hpb.mono hw.1.1.2) PREC_LOGICAL_AND X _ (by simp [Mlt]; omega)
      (by simpa [xc] using stop_mono hX' (by omega)) (loop_stop hX')) hr
  | or a b iha ihb =>
    simp only [C.WF, Bool.and_eq_true, decide_eq_true_eq] at hw
    simp only [Known, Bool.or_eq_false_iff] at hk
    obtain ⟨ea, hsa, hpa, _, _⟩ := iha hw.1.2 hk.1
    obtain ⟨eb, hsb, hpb, _, _⟩ := ihb hw.2 hk.2
    refine ⟨.lor [ea, eb], by rw [den_lor2]; exact SEq.or hsa hsb, ?_, fun h => by simp [C.lvl] at h,
      fun h => by simp [C.lvl] at h⟩
    intro mp X r hmp hX hr
    have hmp' : mp < PREC_LOGICAL_OR := by simpa [Mlt, C.lvl] using hmp
    have hX' : stop PREC_LOGICAL_OR X = true := by simpa [xc, C.lvl] using hX
    show Ev (fun f => pExpr f mp (plex (a.unparse ++ [Tok.or] ++ b.unparse) ++ X)) r
    rw [tg_bin, List.append_assoc]
    refine (hpa.mono (Nat.zero_le _)) mp _ r (by simp [Mlt]; omega) (by simp [xc, lex1, stop]) ?_
    refine Ev.succ (p := fun f => (pExpr f PREC_LOGICAL_OR (tg b ++ X)).bind fun x =>
        pLoop f mp (.lor [ea, x.1]) x.2) (fun f => by simp only [lex1, List.cons_append]; rw [pLoop, if_pos hmp']) ?_
    exact Ev.bind ((hpb.mono hw.1.1) PREC_LOGICAL_OR X _ (by simp [Mlt]; omega)
      (by simpa [xc] using stop_mono hX' (by omega)) (loop_stop hX')) hr

end LokiModel.C07
