import LokiModel.C07.FParse
/-!
# Soundness of the reference parser: whatever it returns is a derivation of `G`

By induction on the fuel, all twelve functions together: each consumes a prefix `pre` of its input that is
derivable at its level with the returned tree; the accumulator loops extend a derivation of what was consumed
before (`pre0`, `acc`).
-/
namespace LokiModel.C07
open LokiModel.Expr LokiModel.Expr.Tok

structure Sound (f : Nat) : Prop where
  prim : ∀ ts s r, pPrim f ts = some (s, r) → ∃ pre, ts = pre ++ r ∧ G 7 pre s
  pow : ∀ ts s r, pPow f ts = some (s, r) → ∃ pre, ts = pre ++ r ∧ G 6 pre s
  mul : ∀ ts s r, pMul f ts = some (s, r) → ∃ pre, ts = pre ++ r ∧ G 5 pre s
  mulRest : ∀ acc ts s r pre0, G 5 pre0 acc → pMulRest f acc ts = some (s, r) →
    ∃ pre, ts = pre ++ r ∧ G 5 (pre0 ++ pre) s
  add : ∀ ts s r, pAdd f ts = some (s, r) → ∃ pre, ts = pre ++ r ∧ G 4 pre s
  addRest : ∀ acc ts s r pre0, G 4 pre0 acc → pAddRest f acc ts = some (s, r) →
    ∃ pre, ts = pre ++ r ∧ G 4 (pre0 ++ pre) s
  cmp : ∀ ts s r, pCmp f ts = some (s, r) → ∃ pre, ts = pre ++ r ∧ G 3 pre s
  not : ∀ ts s r, pNot f ts = some (s, r) → ∃ pre, ts = pre ++ r ∧ G 2 pre s
  and : ∀ ts s r, pAnd f ts = some (s, r) → ∃ pre, ts = pre ++ r ∧ G 1 pre s
  andRest : ∀ acc ts s r pre0, G 1 pre0 acc → pAndRest f acc ts = some (s, r) →
    ∃ pre, ts = pre ++ r ∧ G 1 (pre0 ++ pre) s
  or : ∀ ts s r, pOr f ts = some (s, r) → ∃ pre, ts = pre ++ r ∧ G 0 pre s
  orRest : ∀ acc ts s r pre0, G 0 pre0 acc → pOrRest f acc ts = some (s, r) →
    ∃ pre, ts = pre ++ r ∧ G 0 (pre0 ++ pre) s

theorem sound_zero : Sound 0 := by
  constructor <;> intros <;> simp_all [pPrim, pPow, pMul, pMulRest, pAdd, pAddRest, pCmp, pNot, pAnd, pAndRest, pOr, pOrRest]

theorem some_pair_inj {α β} {a a' : α} {b b' : β} (h : some (a, b) = some (a', b')) : a = a' ∧ b = b' := by
  cases h; exact ⟨rfl, rfl⟩

theorem sound_succ {f : Nat} (ih : Sound f) : Sound (f+1) := by
  refine ⟨?prim, ?pow, ?mul, ?mulRest, ?add, ?addRest, ?cmp, ?not, ?and, ?andRest, ?or, ?orRest⟩
  case prim =>
    intro ts s r h
    unfold pPrim at h
    split at h
    · obtain ⟨rfl, rfl⟩ := some_pair_inj h; exact ⟨[num _], rfl, G.num _⟩
    · obtain ⟨rfl, rfl⟩ := some_pair_inj h; exact ⟨[rnum _], rfl, G.rnum _⟩
    · obtain ⟨rfl, rfl⟩ := some_pair_inj h; exact ⟨[Tok.id _], rfl, G.ident _⟩
    · obtain ⟨rfl, rfl⟩ := some_pair_inj h; exact ⟨[tru], rfl, G.tru⟩
    · obtain ⟨rfl, rfl⟩ := some_pair_inj h; exact ⟨[fls], rfl, G.fls⟩
    · obtain ⟨⟨a, r1⟩, hx, hk⟩ := Option.bind_eq_some_iff.mp h
      dsimp only at hk
      split at hk
      · obtain ⟨rfl, rfl⟩ := some_pair_inj hk
        obtain ⟨pre, e, g⟩ := ih.or _ _ _ hx
        refine ⟨[lp] ++ pre ++ [rp], ?_, G.paren g⟩
        rw [e]; simp
      · cases hk
    · cases h
  case pow =>
    intro ts s r h
    unfold pPow at h
    obtain ⟨⟨a, r1⟩, hx, hk⟩ := Option.bind_eq_some_iff.mp h
    dsimp only at hk
    obtain ⟨pre, e, g⟩ := ih.prim _ _ _ hx
    split at hk
    · obtain ⟨⟨b, r2⟩, hy, hk2⟩ := Option.bind_eq_some_iff.mp hk
      obtain ⟨rfl, rfl⟩ := some_pair_inj hk2
      obtain ⟨pre2, e2, g2⟩ := ih.pow _ _ _ hy
      refine ⟨pre ++ [Tok.pow] ++ pre2, ?_, G.pow g g2⟩
      rw [e, e2]; simp
    · obtain ⟨rfl, rfl⟩ := some_pair_inj hk
      exact ⟨pre, e, G.up (by omega) g⟩
  case mul =>
    intro ts s r h
    unfold pMul at h
    obtain ⟨⟨a, r1⟩, hx, hk⟩ := Option.bind_eq_some_iff.mp h
    obtain ⟨pre, e, g⟩ := ih.pow _ _ _ hx
    obtain ⟨pre2, e2, g2⟩ := ih.mulRest _ _ _ _ pre (G.up (by omega) g) hk
    exact ⟨pre ++ pre2, by rw [e]; dsimp only at e2; rw [e2]; simp, g2⟩
  case mulRest =>
    intro acc ts s r pre0 g0 h
    unfold pMulRest at h
    split at h
    · obtain ⟨⟨b, r1⟩, hx, hk⟩ := Option.bind_eq_some_iff.mp h
      obtain ⟨pre, e, g⟩ := ih.pow _ _ _ hx
      obtain ⟨pre2, e2, g2⟩ := ih.mulRest _ _ _ _ (pre0 ++ [star] ++ pre) (G.mul g0 g) hk
      refine ⟨[star] ++ pre ++ pre2, ?_, by simpa using g2⟩
      rw [e]; dsimp only at e2; rw [e2]; simp
    · obtain ⟨⟨b, r1⟩, hx, hk⟩ := Option.bind_eq_some_iff.mp h
      obtain ⟨pre, e, g⟩ := ih.pow _ _ _ hx
      obtain ⟨pre2, e2, g2⟩ := ih.mulRest _ _ _ _ (pre0 ++ [slash] ++ pre) (G.div g0 g) hk
      refine ⟨[slash] ++ pre ++ pre2, ?_, by simpa using g2⟩
      rw [e]; dsimp only at e2; rw [e2]; simp
    · obtain ⟨rfl, rfl⟩ := some_pair_inj h
      exact ⟨[], rfl, by simpa using g0⟩
  case add =>
    intro ts s r h
    unfold pAdd at h
    split at h
    · obtain ⟨⟨a, r1⟩, hx, hk⟩ := Option.bind_eq_some_iff.mp h
      obtain ⟨pre, e, g⟩ := ih.mul _ _ _ hx
      obtain ⟨pre2, e2, g2⟩ := ih.addRest _ _ _ _ ([minus] ++ pre) (G.neg g) hk
      refine ⟨[minus] ++ pre ++ pre2, ?_, g2⟩
      rw [e]; dsimp only at e2; rw [e2]; simp
    · obtain ⟨⟨a, r1⟩, hx, hk⟩ := Option.bind_eq_some_iff.mp h
      obtain ⟨pre, e, g⟩ := ih.mul _ _ _ hx
      obtain ⟨pre2, e2, g2⟩ := ih.addRest _ _ _ _ pre (G.up (by omega) g) hk
      exact ⟨pre ++ pre2, by rw [e]; dsimp only at e2; rw [e2]; simp, g2⟩
  case addRest =>
    intro acc ts s r pre0 g0 h
    unfold pAddRest at h
    split at h
    · obtain ⟨⟨b, r1⟩, hx, hk⟩ := Option.bind_eq_some_iff.mp h
      obtain ⟨pre, e, g⟩ := ih.mul _ _ _ hx
      obtain ⟨pre2, e2, g2⟩ := ih.addRest _ _ _ _ (pre0 ++ [plus] ++ pre) (G.add g0 g) hk
      refine ⟨[plus] ++ pre ++ pre2, ?_, by simpa using g2⟩
      rw [e]; dsimp only at e2; rw [e2]; simp
    · obtain ⟨⟨b, r1⟩, hx, hk⟩ := Option.bind_eq_some_iff.mp h
      obtain ⟨pre, e, g⟩ := ih.mul _ _ _ hx
      obtain ⟨pre2, e2, g2⟩ := ih.addRest _ _ _ _ (pre0 ++ [minus] ++ pre) (G.sub g0 g) hk
      refine ⟨[minus] ++ pre ++ pre2, ?_, by simpa using g2⟩
      rw [e]; dsimp only at e2; rw [e2]; simp
    · obtain ⟨rfl, rfl⟩ := some_pair_inj h
      exact ⟨[], rfl, by simpa using g0⟩
  case cmp =>
    intro ts s r h
    unfold pCmp at h
    obtain ⟨⟨a, r1⟩, hx, hk⟩ := Option.bind_eq_some_iff.mp h
    dsimp only at hk
    obtain ⟨pre, e, g⟩ := ih.add _ _ _ hx
    split at hk
    · rename_i o r'
      obtain ⟨⟨b, r2⟩, hy, hk2⟩ := Option.bind_eq_some_iff.mp hk
      obtain ⟨rfl, rfl⟩ := some_pair_inj hk2
      obtain ⟨pre2, e2, g2⟩ := ih.add _ _ _ hy
      refine ⟨pre ++ [Tok.cmp o] ++ pre2, ?_, G.cmp g g2⟩
      rw [e, e2]; simp
    · obtain ⟨rfl, rfl⟩ := some_pair_inj hk
      exact ⟨pre, e, G.up (by omega) g⟩
  case not =>
    intro ts s r h
    unfold pNot at h
    split at h
    · obtain ⟨⟨a, r1⟩, hx, hk⟩ := Option.bind_eq_some_iff.mp h
      obtain ⟨rfl, rfl⟩ := some_pair_inj hk
      obtain ⟨pre, e, g⟩ := ih.cmp _ _ _ hx
      exact ⟨[Tok.not] ++ pre, by rw [e]; simp, G.not g⟩
    · obtain ⟨pre, e, g⟩ := ih.cmp _ _ _ h
      exact ⟨pre, e, G.up (by omega) g⟩
  case and =>
    intro ts s r h
    unfold pAnd at h
    obtain ⟨⟨a, r1⟩, hx, hk⟩ := Option.bind_eq_some_iff.mp h
    obtain ⟨pre, e, g⟩ := ih.not _ _ _ hx
    obtain ⟨pre2, e2, g2⟩ := ih.andRest _ _ _ _ pre (G.up (by omega) g) hk
    exact ⟨pre ++ pre2, by rw [e]; dsimp only at e2; rw [e2]; simp, g2⟩
  case andRest =>
    intro acc ts s r pre0 g0 h
    unfold pAndRest at h
    split at h
    · obtain ⟨⟨b, r1⟩, hx, hk⟩ := Option.bind_eq_some_iff.mp h
      obtain ⟨pre, e, g⟩ := ih.not _ _ _ hx
      obtain ⟨pre2, e2, g2⟩ := ih.andRest _ _ _ _ (pre0 ++ [Tok.and] ++ pre) (G.and g0 g) hk
      refine ⟨[Tok.and] ++ pre ++ pre2, ?_, by simpa using g2⟩
      rw [e]; dsimp only at e2; rw [e2]; simp
    · obtain ⟨rfl, rfl⟩ := some_pair_inj h
      exact ⟨[], rfl, by simpa using g0⟩
  case or =>
    intro ts s r h
    unfold pOr at h
    obtain ⟨⟨a, r1⟩, hx, hk⟩ := Option.bind_eq_some_iff.mp h
    obtain ⟨pre, e, g⟩ := ih.and _ _ _ hx
    obtain ⟨pre2, e2, g2⟩ := ih.orRest _ _ _ _ pre (G.up (by omega) g) hk
    exact ⟨pre ++ pre2, by rw [e]; dsimp only at e2; rw [e2]; simp, g2⟩
  case orRest =>
    intro acc ts s r pre0 g0 h
    unfold pOrRest at h
    split at h
    · obtain ⟨⟨b, r1⟩, hx, hk⟩ := Option.bind_eq_some_iff.mp h
      obtain ⟨pre, e, g⟩ := ih.and _ _ _ hx
      obtain ⟨pre2, e2, g2⟩ := ih.orRest _ _ _ _ (pre0 ++ [Tok.or] ++ pre) (G.or g0 g) hk
      refine ⟨[Tok.or] ++ pre ++ pre2, ?_, by simpa using g2⟩
      rw [e]; dsimp only at e2; rw [e2]; simp
    · obtain ⟨rfl, rfl⟩ := some_pair_inj h
      exact ⟨[], rfl, by simpa using g0⟩

theorem sound_all (f : Nat) : Sound f := by
  induction f with
  | zero => exact sound_zero
  | succ f ih => exact sound_succ ih

/-- **soundness of the reference parser**: a result with nothing left over is a derivation of the whole input -/
theorem fparse_sound {f : Nat} {ts : List Tok} {s : S} (h : fparse f ts = some (s, [])) : G 0 ts s := by
  obtain ⟨pre, e, g⟩ := (sound_all f).or ts s [] h
  simp at e; subst e; exact g

/-- with a rest: the consumed prefix is derivable -/
theorem fparse_sound_prefix {f : Nat} {ts r : List Tok} {s : S} (h : fparse f ts = some (s, r)) :
    ∃ pre, ts = pre ++ r ∧ G 0 pre s :=
  (sound_all f).or ts s r h

end LokiModel.C07
