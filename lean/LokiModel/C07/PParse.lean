import LokiModel.C07.FParse
import LokiModel.C07.PSem
/-!
# The precedence-climbing loop against the grammar

`ParseOK ℓ ts e`: in continuation form, "parsing `ts ++ X` with minimum precedence `mp` is the same as having
parsed `ts` to the tree `e` and continuing the `while did_something` loop on `X`", for every `mp` below the
precedence of the operators of grammar level `ℓ` and every `X` whose first token the innermost right-operand
parse of level `ℓ` does not absorb (`stop`).  `loopChain`: the loop on the rest of a `* /` chain builds `T`.
-/
namespace LokiModel.C07
open LokiModel.Expr
open LokiModel.C06 (E den denFold denInt)
open PTab

/-- the order of pymbolic's precedence constants the proofs rely on (re-checked when the table is regenerated) -/
theorem prec_order : 0 < PREC_LOGICAL_OR ∧ PREC_LOGICAL_OR < PREC_LOGICAL_AND ∧ PREC_LOGICAL_AND < PREC_COMPARISON ∧
    PREC_COMPARISON < PREC_PLUS ∧ PREC_PLUS < PREC_TIMES ∧ PREC_TIMES < PREC_POWER ∧ PREC_POWER < PREC_UNARY ∧
    PREC_UNARY < PREC_CALL ∧ PREC_CALL < 1000 := by decide

/-- the loop does nothing on `X` at minimum precedence `mp` -/
def stop (mp : Nat) : List LTag → Bool
  | [] => true
  | .times :: _ | .over :: _ => !decide (PREC_TIMES > mp)
  | .plus :: _ | .minus :: _ => !decide (PREC_PLUS > mp)
  | .exp :: _ => !decide (PREC_POWER > mp)
  | .and :: _ => !decide (PREC_LOGICAL_AND > mp)
  | .or :: _ => !decide (PREC_LOGICAL_OR > mp)
  | .cmp _ :: _ => !decide (PREC_COMPARISON > mp)
  | .openpar :: _ | .dot :: _ => !decide (PREC_CALL > mp)
  | _ => true

theorem loop_stop {mp : Nat} {e : E} {X : List LTag} (h : stop mp X = true) : Ev (fun f => pLoop f mp e X) (e, X) := by
  refine Ev.pure fun f => ?_
  cases X with
  | nil => simp [pLoop]
  | cons t X' => cases t <;> simp_all [pLoop, stop] <;> (intro h'; omega)

theorem stop_mono {mp mp' : Nat} {X : List LTag} (h : stop mp X = true) (hle : mp ≤ mp') : stop mp' X = true := by
  cases X with
  | nil => rfl
  | cons t X' => cases t <;> simp_all [stop] <;> omega

theorem stop_call (X : List LTag) : stop PREC_CALL X = true := by
  cases X with
  | nil => rfl
  | cons t X' => cases t <;> simp [stop] <;> decide

/-- strict upper bound for the minimum precedence at which a level-`ℓ` expression is parsed as a whole -/
def Mlt (ℓ : Nat) : Nat :=
  if ℓ = 0 then PREC_LOGICAL_OR else if ℓ = 1 then PREC_LOGICAL_AND else if ℓ = 2 then PREC_COMPARISON
  else if ℓ = 3 then PREC_COMPARISON else if ℓ = 4 then PREC_PLUS else if ℓ = 5 then PREC_TIMES
  else if ℓ = 6 then PREC_POWER else 1000

/-- the follow condition of level `ℓ`: the loop at this precedence stops on `X` -/
def xc (ℓ : Nat) : Nat :=
  if ℓ = 0 then PREC_LOGICAL_OR else if ℓ = 1 then PREC_LOGICAL_AND else if ℓ = 2 then PREC_COMPARISON
  else if ℓ = 3 then PREC_COMPARISON else if ℓ = 4 then PREC_PLUS else if ℓ = 5 then PREC_PLUS
  else if ℓ = 6 then PREC_TIMES else PREC_CALL

theorem Mlt_mono {ℓ ℓ' : Nat} (h : ℓ' ≤ ℓ) : Mlt ℓ' ≤ Mlt ℓ := by
  have := prec_order
  unfold Mlt
  repeat' split
  all_goals omega

theorem xc_mono {ℓ ℓ' : Nat} (h : ℓ' ≤ ℓ) : xc ℓ' ≤ xc ℓ := by
  have := prec_order
  unfold xc
  repeat' split
  all_goals omega

def ParseOK (ℓ : Nat) (ts : List LTag) (e : E) : Prop :=
  ∀ mp X r, mp < Mlt ℓ → stop (xc ℓ) X = true →
    Ev (fun f => pLoop f mp e X) r → Ev (fun f => pExpr f mp (ts ++ X)) r

theorem ParseOK.mono {ℓ ℓ' ts e} (h : ParseOK ℓ ts e) (hle : ℓ' ≤ ℓ) : ParseOK ℓ' ts e :=
  fun mp X r hmp hX hr => h mp X r (Nat.lt_of_lt_of_le hmp (Mlt_mono hle)) (stop_mono hX (xc_mono hle)) hr

theorem pExpr_succ (f mp : Nat) (ts : List LTag) :
    pExpr (f+1) mp ts = (pPrefix f ts).bind fun x => pLoop f mp x.1 x.2 := by rw [pExpr]

/-- a terminal: `parse_terminal` then the loop -/
theorem parseOK_terminal {t : LTag} {e : E} (ht : ∀ f X, pPrefix (f+1) (t :: X) = some (e, X)) (ℓ : Nat) :
    ParseOK ℓ [t] e := by
  intro mp X r _ _ hr
  refine Ev.succ (p := fun f => (pPrefix f (t :: X)).bind fun x => pLoop f mp x.1 x.2) (fun f => pExpr_succ f mp _) ?_
  exact Ev.bind (Ev.pure fun f => ht f X) hr

/-! ### the rest of a `* /` chain -/

def opTag (o : Bool) : LTag := if o then .over else .times

def tagsOf : List (Bool × Opd) → List LTag
  | [] => []
  | x :: r => opTag x.1 :: (x.2.ts ++ tagsOf r)

theorem tagsOf_append (a b : List (Bool × Opd)) : tagsOf (a ++ b) = tagsOf a ++ tagsOf b := by
  induction a with
  | nil => rfl
  | cons x a ih => simp [tagsOf, ih]

theorem stop_tags {tl : List (Bool × Opd)} {X : List LTag} (h : stop PREC_PLUS X = true) :
    stop PREC_TIMES (tagsOf tl ++ X) = true := by
  cases tl with
  | nil => exact stop_mono h (by have := prec_order; omega)
  | cons x r => obtain ⟨o, n⟩ := x; cases o <;> simp [tagsOf, opTag, stop]

theorem loopChain : ∀ (tl : List (Bool × Opd)) (mp : Nat) (L : E) (X : List LTag) (r : PR),
    (∀ x ∈ tl, ParseOK 6 x.2.ts x.2.e) → mp < PREC_TIMES → stop PREC_PLUS X = true →
    Ev (fun f => pLoop f mp (T L (eOf tl)) X) r → Ev (fun f => pLoop f mp L (tagsOf tl ++ X)) r := by
  intro tl
  have ho := prec_order
  induction tl with
  | nil => intro mp L X r _ _ _ hr; simpa [tagsOf, eOf, T] using hr
  | cons x tl ih =>
    intro mp L X r hall hmp hX hr
    obtain ⟨o, n⟩ := x
    have hn : ParseOK 6 n.ts n.e := hall (o, n) (by simp)
    have hall' : ∀ x ∈ tl, ParseOK 6 x.2.ts x.2.e := fun x hx => hall x (by simp [hx])
    have hY : stop PREC_TIMES (tagsOf tl ++ X) = true := stop_tags hX
    cases o with
    | true =>
      simp only [eOf, List.map_cons, T] at hr
      show Ev (fun f => pLoop f mp L (LTag.over :: (n.ts ++ tagsOf tl) ++ X)) r
      simp only [List.cons_append, List.append_assoc]
      refine Ev.succ (p := fun f => (pExpr f PREC_TIMES (n.ts ++ (tagsOf tl ++ X))).bind fun x =>
          pLoop f mp (.quot false L x.1) x.2) (fun f => by rw [pLoop, if_pos hmp]) ?_
      have h1 : Ev (fun f => pExpr f PREC_TIMES (n.ts ++ (tagsOf tl ++ X))) (n.e, tagsOf tl ++ X) :=
        hn PREC_TIMES _ _ (by simp [Mlt]; omega) (by simpa [xc] using hY) (loop_stop hY)
      exact Ev.bind h1 (ih mp _ X r hall' hmp hX hr)
    | false =>
      simp only [eOf, List.map_cons, T] at hr
      show Ev (fun f => pLoop f mp L (LTag.times :: (n.ts ++ tagsOf tl) ++ X)) r
      simp only [List.cons_append, List.append_assoc]
      refine Ev.succ (p := fun f => (pExpr f PREC_PLUS (n.ts ++ (tagsOf tl ++ X))).bind fun x =>
          pLoop f mp (reassoc L x.1) x.2) (fun f => by rw [pLoop, if_pos hmp]) ?_
      have h2 : Ev (fun f => pLoop f PREC_PLUS n.e (tagsOf tl ++ X)) (T n.e (eOf tl), X) :=
        ih PREC_PLUS n.e X _ hall' (by omega) hX (loop_stop hX)
      have h1 : Ev (fun f => pExpr f PREC_PLUS (n.ts ++ (tagsOf tl ++ X))) (T n.e (eOf tl), X) :=
        hn PREC_PLUS _ _ (by simp [Mlt]; omega) (by simpa [xc] using hY) h2
      exact Ev.bind h1 hr

end LokiModel.C07
