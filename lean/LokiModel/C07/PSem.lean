import LokiModel.C07.Model
import LokiModel.Expr.SemLemmas
/-!
# Meaning of the trees Loki's parser builds for `* /` chains, signs and subtraction

`T L tl` is the tree the `while did_something` loop builds from a left operand `L` and the rest of a `* /` chain
(`true` = `/`): a `/` folds to the left, a `*` parses the *whole rest of the chain* as its right operand and
re-associates only the top node (`reassoc`).  `T_sem`: outside the class `badChain` the result has the value of
the left-to-right chain the grammar prescribes.
-/
namespace LokiModel.C07
open LokiModel.Expr
open LokiModel.C06 (E den denFold denInt)

def T : E → List (Bool × E) → E
  | L, [] => L
  | L, (true, m) :: r => T (.quot false L m) r
  | L, (false, m) :: r => reassoc L (T m r)

def semFold : S → List (Bool × S) → S
  | s, [] => s
  | s, (true, m) :: r => semFold (.div s m) r
  | s, (false, m) :: r => semFold (.mul s m) r

/-- the exact-type tests of the `*` branch fail on this tree -/
def notMulTop : E → Bool
  | .quot false _ _ => false
  | .prod false _ => false
  | _ => true

theorem den_prod2 (p : Bool) (a b : E) : den (.prod p [a, b]) = .mul (den a) (den b) := by
  simp [den, denFold]
theorem den_sum2 (p : Bool) (a b : E) : den (.sum p [a, b]) = .add (den a) (den b) := by
  simp [den, denFold]
theorem den_quot (p : Bool) (a b : E) : den (.quot p a b) = .div (den a) (den b) := by
  simp [den]
theorem den_pow (p : Bool) (a b : E) : den (.pow p a b) = .pow (den a) (den b) := by
  simp [den]
theorem den_land2 (a b : E) : den (.land [a, b]) = .and (den a) (den b) := by
  simp [den, denFold]
theorem den_lor2 (a b : E) : den (.lor [a, b]) = .or (den a) (den b) := by
  simp [den, denFold]

theorem den_parenthesise (e : E) : den (parenthesise e) = den e := by
  cases e with
  | sum p xs => cases xs <;> simp [parenthesise, den]
  | prod p xs => cases xs <;> simp [parenthesise, den]
  | quot p a b => simp [parenthesise, den]
  | pow p a b => simp [parenthesise, den]
  | _ => rfl

theorem notMulTop_parenthesise (e : E) : notMulTop (parenthesise e) = true := by
  cases e <;> simp [parenthesise, notMulTop]

theorem reassoc_notMul {L m : E} (h : notMulTop m = true) : reassoc L m = .prod false [L, m] := by
  unfold reassoc
  split
  · simp [notMulTop] at h
  · simp [notMulTop] at h
  · rfl

theorem SEq.mul_assoc (a b c : S) : SEq (.mul (.mul a b) c) (.mul a (.mul b c)) := fun env => by
  simp only [evalS]; exact bin_assoc Val.mul_assoc' _ _ _

theorem reassoc_cases (Y : E) :
    (∃ n d, Y = .quot false n d) ∨ (∃ x y r, Y = .prod false (x :: y :: r)) ∨ (∀ L, reassoc L Y = .prod false [L, Y]) := by
  cases Y with
  | quot p a b => cases p
                  · exact Or.inl ⟨a, b, rfl⟩
                  · exact Or.inr (Or.inr fun L => rfl)
  | prod p xs =>
    cases p
    · match xs with
      | [] => exact Or.inr (Or.inr fun L => rfl)
      | [x] => exact Or.inr (Or.inr fun L => rfl)
      | x :: y :: r => exact Or.inr (Or.inl ⟨x, y, r, rfl⟩)
    · exact Or.inr (Or.inr fun L => rfl)
  | _ => exact Or.inr (Or.inr fun L => rfl)

/-- re-associating twice = re-associating once against the product of the two left operands (up to value) -/
theorem reassoc_reassoc (L m Y : E) :
    SEq (den (reassoc L (reassoc m Y))) (den (reassoc (.prod false [L, m]) Y)) := by
  rcases reassoc_cases Y with ⟨n, d, rfl⟩ | ⟨x, y, r, rfl⟩ | h
  · simp only [reassoc, den_quot, den_prod2]
    exact SEq.div (SEq.symm (SEq.mul_assoc _ _ _)) (SEq.refl _)
  · simp only [reassoc, den_prod2]
    exact SEq.mul (SEq.symm (SEq.mul_assoc _ _ _)) (SEq.refl _)
  · rw [h m, h (.prod false [L, m])]
    simp only [reassoc]
    exact SEq.refl _

theorem slashNotLast_tail {o : Bool} {r : List Bool} (h : slashNotLast (o :: r) = false) : slashNotLast r = false := by
  cases r with
  | nil => rfl
  | cons o' r' => simp [slashNotLast] at h; simp [h]

/-- an operand of a chain: its lexer tags, the tree Loki builds for it, its meaning -/
structure Opd where
  ts : List LTag
  e : E
  s : S

def opsOf (tl : List (Bool × Opd)) : List Bool := tl.map Prod.fst
def eOf (tl : List (Bool × Opd)) : List (Bool × E) := tl.map fun x => (x.1, x.2.e)
def sOf (tl : List (Bool × Opd)) : List (Bool × S) := tl.map fun x => (x.1, x.2.s)

/-- tree not of the exact `Product`/`Quotient` types, and of the right value -/
def Opd.semOK (o : Opd) : Prop := notMulTop o.e = true ∧ SEq (den o.e) o.s

/-- a `*` whose rest of chain has no `/` except possibly as last operator -/
theorem star_sem : ∀ (tl : List (Bool × Opd)) (m L : E) (sm sL : S),
    (∀ x ∈ tl, x.2.semOK) → notMulTop m = true →
    SEq (den m) sm → SEq (den L) sL → slashNotLast (opsOf tl) = false →
    SEq (den (reassoc L (T m (eOf tl)))) (semFold (.mul sL sm) (sOf tl)) := by
  intro tl
  induction tl with
  | nil =>
    intro m L sm sL _ hm em eL _
    simp only [eOf, sOf, List.map_nil, T, semFold]
    rw [reassoc_notMul hm, den_prod2]
    exact SEq.mul eL em
  | cons x tl ih =>
    intro m L sm sL hall hm em eL hs
    obtain ⟨o, n⟩ := x
    obtain ⟨hn, en⟩ := hall (o, n) (by simp)
    have hall' : ∀ x ∈ tl, x.2.semOK := fun x hx => hall x (by simp [hx])
    cases o with
    | true =>
      cases tl with
      | cons z tl' => simp [opsOf, slashNotLast] at hs
      | nil =>
        simp only [eOf, sOf, List.map_cons, List.map_nil, T, semFold, reassoc, den_quot, den_prod2]
        exact SEq.div (SEq.mul eL em) en
    | false =>
      have hs' : slashNotLast (opsOf tl) = false := slashNotLast_tail (o := false) (by simpa [opsOf] using hs)
      simp only [eOf, sOf, List.map_cons, T, semFold]
      refine SEq.trans (reassoc_reassoc L m (T n.e (eOf tl))) ?_
      exact ih n.e (.prod false [L, m]) n.s (.mul sL sm) hall' hn en
        (by rw [den_prod2]; exact SEq.mul eL em) hs'

/-- **value of a chain**: outside the class `badChain`, the tree built for `L op₁ m₁ op₂ m₂ …` has the value of the
left-to-right chain -/
theorem T_sem : ∀ (tl : List (Bool × Opd)) (L : E) (sL : S),
    (∀ x ∈ tl, x.2.semOK) → SEq (den L) sL → badChain (opsOf tl) = false →
    SEq (den (T L (eOf tl))) (semFold sL (sOf tl)) := by
  intro tl
  induction tl with
  | nil => intro L sL _ eL _; exact eL
  | cons x tl ih =>
    intro L sL hall eL hb
    obtain ⟨o, n⟩ := x
    obtain ⟨hn, en⟩ := hall (o, n) (by simp)
    have hall' : ∀ x ∈ tl, x.2.semOK := fun x hx => hall x (by simp [hx])
    cases o with
    | true =>
      simp only [eOf, sOf, List.map_cons, T, semFold]
      exact ih (.quot false L n.e) (.div sL n.s) hall' (by rw [den_quot]; exact SEq.div eL en)
        (by simpa [opsOf, badChain] using hb)
    | false =>
      simp only [eOf, sOf, List.map_cons, T, semFold]
      exact star_sem tl n.e L n.s sL hall' hn en eL (by simpa [opsOf, badChain] using hb)

/-! ### signs and subtraction -/

theorem semFold_congr : ∀ (ss : List (Bool × S)) {s s' : S}, SEq s s' → SEq (semFold s ss) (semFold s' ss) := by
  intro ss
  induction ss with
  | nil => intro s s' h; exact h
  | cons x ss ih =>
    intro s s' h
    obtain ⟨o, m⟩ := x
    cases o
    · exact ih (SEq.mul h (SEq.refl _))
    · exact ih (SEq.div h (SEq.refl _))

theorem Val.neg_mul_left (a b : Val) : (Val.neg a).bind (fun x => Val.mul x b) = (Val.mul a b).bind Val.neg := by
  cases a <;> cases b <;> simp [Val.neg, Val.mul, Val.arith, Int.neg_mul, Rat.neg_mul, Rat.intCast_neg]

theorem Val.neg_div_left (a b : Val) : (Val.neg a).bind (fun x => Val.div x b) = (Val.div a b).bind Val.neg := by
  cases a <;> cases b <;> simp [Val.neg, Val.div, Val.arith] <;> split <;>
    simp_all [Val.neg, Rat.div_def, Rat.neg_mul]

theorem SEq.neg_mul (a b : S) : SEq (.mul (.neg a) b) (.neg (.mul a b)) := fun env => by
  simp only [evalS]
  cases evalS env a with
  | none => simp [bin]
  | some x =>
    cases evalS env b with
    | none => cases Val.neg x <;> simp [bin]
    | some y => simp only [bin, Option.bind]; exact Val.neg_mul_left x y

theorem SEq.neg_div (a b : S) : SEq (.div (.neg a) b) (.neg (.div a b)) := fun env => by
  simp only [evalS]
  cases evalS env a with
  | none => simp [bin]
  | some x =>
    cases evalS env b with
    | none => cases Val.neg x <;> simp [bin]
    | some y => simp only [bin, Option.bind]; exact Val.neg_div_left x y

theorem semFold_neg : ∀ (ss : List (Bool × S)) (s : S), SEq (semFold (.neg s) ss) (.neg (semFold s ss)) := by
  intro ss
  induction ss with
  | nil => intro s; exact SEq.refl _
  | cons x ss ih =>
    intro s
    obtain ⟨o, m⟩ := x
    cases o
    · exact SEq.trans (semFold_congr ss (SEq.neg_mul s m)) (ih _)
    · exact SEq.trans (semFold_congr ss (SEq.neg_div s m)) (ih _)

/-- `Product((-1, e))` means `-e` -/
theorem den_minus_one (e : E) (s : S) (h : SEq (den e) s) : SEq (den (.prod false [.pyint (-1), e])) (.neg s) := fun env => by
  rw [den_prod2]
  have : den (.pyint (-1)) = .neg (.int 1) := by simp [den, denInt]
  rw [this]
  simp only [evalS, ← h env]
  cases evalS env (den e) with
  | none => simp [bin]
  | some v => simp only [bin, Option.bind, Val.neg]; exact Val.neg_one_mul v

/-- `Sum((a, Product((-1, b))))` means `a - b` -/
theorem den_sub (a b : E) (sa sb : S) (ha : SEq (den a) sa) (hb : SEq (den b) sb) :
    SEq (den (.sum false [a, .prod false [.pyint (-1), b]])) (.sub sa sb) := fun env => by
  rw [den_sum2, den_prod2]
  have : den (.pyint (-1)) = .neg (.int 1) := by simp [den, denInt]
  rw [this]
  simp only [evalS, ← ha env, ← hb env]
  cases evalS env (den a) with
  | none => simp [bin]
  | some x =>
    cases evalS env (den b) with
    | none => simp [bin]
    | some y => simp only [bin, Option.bind, Val.neg]; exact Val.add_neg_one_mul x y

end LokiModel.C07
