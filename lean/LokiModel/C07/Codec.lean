import LokiModel.Sexp
import LokiModel.C06.Codec
import LokiModel.C07.Model
/-! Wire format of `E` (encoder), `C` and `XTok` (decoders) for the C07 driver (infrastructure). -/
namespace LokiModel.C07
open LokiModel.Expr LokiModel.C06 Sexp

mutual
def encE : E → Sexp
  | .ilit n => list [atom "ilit", ofInt n]
  | .rlit t => list [atom "rlit", str t]
  | .blit b => list [atom "blit", ofBool b]
  | .pyint n => list [atom "pyint", ofInt n]
  | .var s => list [atom "var", str s]
  | .sum par xs => list (atom "sum" :: ofBool par :: encEs xs)
  | .prod par xs => list (atom "prod" :: ofBool par :: encEs xs)
  | .quot par a b => list [atom "quot", ofBool par, encE a, encE b]
  | .pow par a b => list [atom "pow", ofBool par, encE a, encE b]
  | .cmp o a b => list [atom "cmp", atom (encCmp o), encE a, encE b]
  | .lnot a => list [atom "lnot", encE a]
  | .land xs => list (atom "land" :: encEs xs)
  | .lor xs => list (atom "lor" :: encEs xs)
def encEs : List E → List Sexp
  | [] => []
  | x :: xs => encE x :: encEs xs
end

def decC : Sexp → Option C
  | list [atom "int", n] => n.toNat?.map .int
  | list [atom "real", t] => t.toStr?.map .real
  | list [atom "var", x] => x.toStr?.map .var
  | list [atom "bool", b] => b.toBool?.map .bool
  | list [atom "paren", c] => (decC c).map .paren
  | list [atom "pow", a, b] => do pure (.pow (← decC a) (← decC b))
  | list [atom "mul", a, b] => do pure (.mul (← decC a) (← decC b))
  | list [atom "div", a, b] => do pure (.div (← decC a) (← decC b))
  | list [atom "neg", a] => (decC a).map .neg
  | list [atom "add", a, b] => do pure (.add (← decC a) (← decC b))
  | list [atom "sub", a, b] => do pure (.sub (← decC a) (← decC b))
  | list [atom "cmp", o, a, b] => do pure (.cmp (← decCmp o) (← decC a) (← decC b))
  | list [atom "not", a] => (decC a).map .not
  | list [atom "and", a, b] => do pure (.and (← decC a) (← decC b))
  | list [atom "or", a, b] => do pure (.or (← decC a) (← decC b))
  | _ => none

def decTok : Sexp → Option Tok
  | list [atom "rnum", t] => t.toStr?.map .rnum
  | list [atom "id", x] => x.toStr?.map .id
  | atom "tru" => some .tru | atom "fls" => some .fls
  | atom "plus" => some .plus | atom "minus" => some .minus | atom "star" => some .star
  | atom "slash" => some .slash | atom "pow" => some .pow | atom "lp" => some .lp | atom "rp" => some .rp
  | atom "not" => some .not | atom "and" => some .and | atom "or" => some .or
  | atom s =>
      if s.startsWith "num:" then (s.drop 4).toNat?.map .num
      else (decCmp (atom s)).map .cmp
  | _ => none

def decXTok : Sexp → Option XTok
  | atom "eqv" => some .eqv
  | atom "neqv" => some .neqv
  | x => (decTok x).map .t

def decXToks : List Sexp → Option (List XTok)
  | [] => some []
  | x :: xs => do pure ((← decXTok x) :: (← decXToks xs))

end LokiModel.C07
