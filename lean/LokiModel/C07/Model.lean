import LokiModel.Expr.Basic
import LokiModel.C06.Model
import LokiModel.Generated.C07Tables
/-!
# C07 model: Loki's standalone expression parser (`loki/expression/parser.py` on `pymbolic/parser.py`)

* `LTag`: the lexer tags `ExpressionParser.lex_table` produces for the modelled token kinds, `lex1`/`plex`:
  which tag each Fortran token gets (`.eqv.`/`.neqv.` are not in the table: they come out as
  `dot identifier dot`, i.e. member access).
* `pExpr` = `Parser.parse_expression(pstate, min_precedence)`: `parse_prefix`, then the `while did_something`
  loop `pLoop` calling `parse_postfix` (Loki's override first: `*` with the re-association branch on
  `type(right_exp) is Quotient / Product`, `+`, `-`; then pymbolic's branches `/`, `**`, `.and.`, `.or.`,
  comparisons), with pymbolic's `_PREC_*` constants regenerated from the installed package.
  `pPrefix` = Loki's `parse_prefix` (unary minus builds `Product((-1, parse(_PREC_UNARY)))`, parentheses call
  `_parenthesise`) falling back to pymbolic's (`+`, `not`) and `parse_terminal`.
  The result is given directly as the tree `PymbolicMapper` returns (`LokiModel.C06.E`): on the modelled node
  kinds the mapper is a structure-preserving relabelling (`pmbl.Product`/`sym.Product` → `Product`,
  `Parenthesised*` kept, Python `int` → `IntLiteral` except the bare `-1`), so the two passes are fused.
* `C`: concrete syntax trees (semantic tree + explicit parenthesis nodes), `unparse`, `sem`, `WF`: every
  well-formed expression text is `unparse c` for a well-formed `c` (`Cover.lean`), and the known-finding
  classes are decidable predicates on `c`.
Calls, subscripts, member access, strings, kinds, array constructors, slices are outside the model
(`pLoop` returns `none` where the real parser would enter those branches).  Core Lean only.
-/
namespace LokiModel.C07
open LokiModel.Expr
open LokiModel.C06 (E den)
open PTab

/-- lexer tags (pymbolic's and Loki's interned tag names; `dot` is both pymbolic's `.` and Loki's `%`) -/
inductive LTag where
  | int (n : Nat) | float (t : String) | ident (x : String) | ftrue | ffalse
  | plus | minus | exp | times | over | openpar | closepar
  | cmp (o : CmpOp) | and | or | not | dot
deriving Repr, DecidableEq, Inhabited

/-- Fortran tokens extended by the two logical equivalence operators (which have no entry in the lex table) -/
inductive XTok where
  | t (t : Tok) | eqv | neqv
deriving Repr, DecidableEq, Inhabited

def lex1 : Tok → LTag
  | .num n => .int n | .rnum t => .float t | .id x => .ident x | .tru => .ftrue | .fls => .ffalse
  | .plus => .plus | .minus => .minus | .star => .times | .slash => .over | .pow => .exp
  | .lp => .openpar | .rp => .closepar | .cmp o => .cmp o | .not => .not | .and => .and | .or => .or

def plex (ts : List Tok) : List LTag := ts.map lex1

def lexX : XTok → List LTag
  | .t t => [lex1 t]
  | .eqv => [.dot, .ident "eqv", .dot]
  | .neqv => [.dot, .ident "neqv", .dot]

def plexX (ts : List XTok) : List LTag := ts.flatMap lexX

/-- `ExpressionParser._parenthesise` -/
def parenthesise : E → E
  | .sum _ xs => .sum true xs
  | .prod _ xs => .prod true xs
  | .quot _ a b => .quot true a b
  | .pow _ a b => .pow true a b
  | e => e

/-- the `*` branch of Loki's `parse_postfix`: `type(right_exp) is pmbl.Quotient` / `is pmbl.Product` (exact types:
not the `Parenthesised*` subclasses) re-associate one level, otherwise `Product((left, right))` -/
def reassoc (left right : E) : E :=
  match right with
  | .quot false n d => .quot false (.prod false [left, n]) d
  | .prod false (x :: y :: _) => .prod false [.prod false [left, x], y]
  | _ => .prod false [left, right]

abbrev PR := E × List LTag

mutual
/-- `parse_expression(pstate, min_precedence)` -/
def pExpr : Nat → Nat → List LTag → Option PR
  | 0, _, _ => none
  | f+1, mp, ts => (pPrefix f ts).bind fun x => pLoop f mp x.1 x.2
/-- the `while did_something` loop around `parse_postfix(pstate, min_precedence, left_exp)` -/
def pLoop : Nat → Nat → E → List LTag → Option PR
  | 0, _, _, _ => none
  | f+1, mp, left, ts =>
    match ts with
    | [] => some (left, [])
    | .times :: r =>
        if PREC_TIMES > mp then (pExpr f PREC_PLUS r).bind fun x => pLoop f mp (reassoc left x.1) x.2
        else some (left, ts)
    | .plus :: r =>
        if PREC_PLUS > mp then (pExpr f PREC_PLUS r).bind fun x => pLoop f mp (.sum false [left, x.1]) x.2
        else some (left, ts)
    | .minus :: r =>
        if PREC_PLUS > mp then
          (pExpr f PREC_PLUS r).bind fun x => pLoop f mp (.sum false [left, .prod false [.pyint (-1), x.1]]) x.2
        else some (left, ts)
    | .over :: r =>
        if PREC_TIMES > mp then (pExpr f PREC_TIMES r).bind fun x => pLoop f mp (.quot false left x.1) x.2
        else some (left, ts)
    | .exp :: r =>
        if PREC_POWER > mp then (pExpr f PREC_TIMES r).bind fun x => pLoop f mp (.pow false left x.1) x.2
        else some (left, ts)
    | .and :: r =>
        if PREC_LOGICAL_AND > mp then (pExpr f PREC_LOGICAL_AND r).bind fun x => pLoop f mp (.land [left, x.1]) x.2
        else some (left, ts)
    | .or :: r =>
        if PREC_LOGICAL_OR > mp then (pExpr f PREC_LOGICAL_OR r).bind fun x => pLoop f mp (.lor [left, x.1]) x.2
        else some (left, ts)
    | .cmp o :: r =>
        if PREC_COMPARISON > mp then (pExpr f PREC_COMPARISON r).bind fun x => pLoop f mp (.cmp o left x.1) x.2
        else some (left, ts)
    | .openpar :: _ => if PREC_CALL > mp then none else some (left, ts)   -- call: outside the model
    | .dot :: _ => if PREC_CALL > mp then none else some (left, ts)       -- member access: outside the model
    | _ => some (left, ts)
/-- `parse_prefix` (Loki's override, then pymbolic's) and `parse_terminal` -/
def pPrefix : Nat → List LTag → Option PR
  | 0, _ => none
  | f+1, ts =>
    match ts with
    | .minus :: r => (pExpr f PREC_UNARY r).bind fun x => some (.prod false [.pyint (-1), x.1], x.2)
    | .openpar :: r =>
        match r with
        | .closepar :: _ => none                                          -- empty tuple: outside the model
        | _ => (pExpr f 0 r).bind fun x =>
            match x.2 with
            | .closepar :: r' => some (parenthesise x.1, r')
            | _ => none
    | .plus :: r => pExpr f PREC_UNARY r
    | .not :: r => (pExpr f PREC_UNARY r).bind fun x => some (.lnot x.1, x.2)
    | .int n :: r => some (.ilit n, r)
    | .float t :: r => some (.rlit t, r)
    | .ftrue :: r => some (.blit true, r)
    | .ffalse :: r => some (.blit false, r)
    | .ident x :: r => some (.var x, r)
    | _ => none
end

/-- `ExpressionParser.__call__` on the tag list: `parse_expression(pstate, 0)` and "leftover input" check -/
def pparseF (fuel : Nat) (ts : List LTag) : Option E :=
  match pExpr fuel 0 ts with
  | some (e, []) => some e
  | _ => none

def pparse (ts : List LTag) : Option E := pparseF (4 * ts.length + 4) ts

/-! ### concrete syntax trees -/

inductive C where
  | int (n : Nat) | real (t : String) | var (x : String) | bool (b : Bool)
  | paren (c : C)
  | pow (a b : C) | mul (a b : C) | div (a b : C)
  | neg (a : C) | add (a b : C) | sub (a b : C)
  | cmp (o : CmpOp) (a b : C)
  | not (a : C) | and (a b : C) | or (a b : C)
deriving Repr, DecidableEq, Inhabited

namespace C

/-- grammar level of the node (as in `LokiModel/Expr/Grammar.lean`) -/
def lvl : C → Nat
  | int _ | real _ | var _ | bool _ | paren _ => 7
  | pow .. => 6
  | mul .. | div .. => 5
  | neg _ | add .. | sub .. => 4
  | cmp .. => 3
  | not _ => 2
  | and .. => 1
  | or .. => 0

def unparse : C → List Tok
  | int n => [.num n] | real t => [.rnum t] | var x => [.id x] | bool b => [if b then .tru else .fls]
  | paren c => [.lp] ++ unparse c ++ [.rp]
  | pow a b => unparse a ++ [.pow] ++ unparse b
  | mul a b => unparse a ++ [.star] ++ unparse b
  | div a b => unparse a ++ [.slash] ++ unparse b
  | neg a => [.minus] ++ unparse a
  | add a b => unparse a ++ [.plus] ++ unparse b
  | sub a b => unparse a ++ [.minus] ++ unparse b
  | cmp o a b => unparse a ++ [.cmp o] ++ unparse b
  | not a => [.not] ++ unparse a
  | and a b => unparse a ++ [.and] ++ unparse b
  | or a b => unparse a ++ [.or] ++ unparse b

def sem : C → S
  | int n => .int n | real t => .real t | var x => .var x | bool b => .bool b
  | paren c => sem c
  | pow a b => .pow (sem a) (sem b) | mul a b => .mul (sem a) (sem b) | div a b => .div (sem a) (sem b)
  | neg a => .neg (sem a) | add a b => .add (sem a) (sem b) | sub a b => .sub (sem a) (sem b)
  | cmp o a b => .cmp o (sem a) (sem b)
  | not a => .not (sem a) | and a b => .and (sem a) (sem b) | or a b => .or (sem a) (sem b)

/-- the operand levels the grammar requires -/
def WF : C → Bool
  | int _ | real _ | var _ | bool _ => true
  | paren c => WF c
  | pow a b => decide (7 ≤ lvl a) && decide (6 ≤ lvl b) && WF a && WF b
  | mul a b | div a b => decide (5 ≤ lvl a) && decide (6 ≤ lvl b) && WF a && WF b
  | neg a => decide (5 ≤ lvl a) && WF a
  | add a b | sub a b => decide (4 ≤ lvl a) && decide (5 ≤ lvl b) && WF a && WF b
  | cmp _ a b => decide (4 ≤ lvl a) && decide (4 ≤ lvl b) && WF a && WF b
  | not a => decide (3 ≤ lvl a) && WF a
  | and a b => decide (1 ≤ lvl a) && decide (2 ≤ lvl b) && WF a && WF b
  | or a b => decide (1 ≤ lvl b) && WF a && WF b

/-- the operators of the `* /` chain ending in this node, left to right (`true` = `/`) -/
def ops : C → List Bool
  | mul a _ => ops a ++ [false]
  | div a _ => ops a ++ [true]
  | _ => []

/-- first operand of the `* /` chain -/
def headOperand : C → C
  | mul a _ => headOperand a
  | div a _ => headOperand a
  | c => c

end C

/-- a `/` that is not the last operator of the list -/
def slashNotLast : List Bool → Bool
  | [] => false
  | [_] => false
  | o :: r => o || slashNotLast r

/-- class `mul-chain-div-reassociated`: in a chain of `*` and `/`, a `*` is followed later by a `/` that is
not the last operator of the chain (`a*b/c*d`, `a*b/c/d`): the `*` branch parses the whole rest of the chain as
its right operand and re-associates only its top node -/
def badChain : List Bool → Bool
  | [] => false
  | false :: r => slashNotLast r
  | true :: r => badChain r

/-- class `unary-minus-power`: a sign directly applied to a chain whose first operand is a power (`-a**2`) -/
def negPow : C → Bool
  | .pow .. => true
  | _ => false

open C in
/-- the three known-finding classes, anywhere in the tree -/
def Known : C → Bool
  | .int _ | .real _ | .var _ | .bool _ => false
  | .paren c => Known c
  | .pow a b => Known a || Known b
  | .mul a b => badChain (ops (.mul a b)) || Known a || Known b
  | .div a b => badChain (ops (.div a b)) || Known a || Known b
  | .neg a => negPow (headOperand a) || Known a
  | .add a b | .sub a b => Known a || Known b
  | .cmp _ a b => Known a || Known b
  | .not a => decide (lvl a < 7) || Known a
  | .and a b | .or a b => Known a || Known b

/-! ### array sections: `PymbolicMapper.map_slice`

Primaries (subscripts, components, calls) are otherwise outside the Lean model; sections are modelled at the level of
which bounds are present.  `sliceChildren` summarises, by form, the children of the pymbolic `Slice` node the parser
builds for `lo:hi:st` (`:` → `(None,)`, `lo:` → `(lo, None)`, `::st` → `(None, None, st)` …); `mapSlice` is
`map_slice` on the mapped children (`len(children) == 1 and children[0] is None` → `(None, None)`);
`rangeOf` = `RangeIndex.lower / upper / step`. -/

def sliceChildren {α : Type} : Option α → Option α → Option α → List (Option α)
  | none, none, none => [none]
  | lo, hi, none => [lo, hi]
  | lo, hi, some st => [lo, hi, some st]

def mapSlice {α : Type} : List (Option α) → List (Option α)
  | [none] => [none, none]
  | cs => cs

def rangeOf {α : Type} (cs : List (Option α)) : Option α × Option α × Option α :=
  (cs[0]?.join, cs[1]?.join, cs[2]?.join)

/-- what the bounds of a section are to the mapper's tests: absent, the literal `0` (falsy in Python), anything else -/
inductive Bnd where
  | zero | other
deriving Repr, DecidableEq, Inhabited

end LokiModel.C07
