import LokiModel.C37.Frame
/-!
# C37 — model of SCCBase + SCCDevector + SCCDemote + SCCRevector on *flat* kernels

A kernel is *flat* when its body is a non-empty sequence of horizontal loops `do jl = lo, hi` (exactly the configured
bounds variables) whose bodies are non-empty and together satisfy `columnLocal`, and every local array is declared
`(1:size)` or `(1:size, 1:k…)` with literal `k`.  On such a kernel the real chain does the following
(`single_column/devector.py`, `demote.py`, `revector.py`, `array_indexing/demote.py`):
`RemoveLoopTransformer` splices all loop bodies; `extract_vector_sections` finds no separator, so the whole body is ONE
vector section; `get_locals_to_demote` selects every local array whose first shape entry is the horizontal size and
whose other entries are constants (they are used in at most one section and there are no calls), `demote_variables`
removes the horizontal dimension from declaration and uses; `RevectorSectionTransformer` wraps the section in one loop
`do jl = lo, hi` (plus marker comments/pragmas, dropped by the correspondence).
-/
namespace LokiModel.C37
open LokiModel.Fir
open LokiModel.Expr (Val)

structure Cfg where
  jl : String
  lo : String
  hi : String
  size : String

/-- body of a horizontal loop with exactly the configured bounds -/
def flatLoop (cfg : Cfg) : Stmt → Option (List Stmt)
  | .doLoop v (.var l) (.var h) none body =>
      if v == cfg.jl && l == cfg.lo && h == cfg.hi && !body.isEmpty then some body else none
  | _ => none

/-- concatenation of the loop bodies (what `RemoveLoopTransformer` leaves), `none` outside the flat class -/
def flatBodies (cfg : Cfg) : List Stmt → Option (List Stmt)
  | [] => some []
  | s :: rest => do
      let b ← flatLoop cfg s
      let r ← flatBodies cfg rest
      pure (b ++ r)

def isLit : Ex → Bool
  | .lit (.int _) => true
  | _ => false

/-- `(1:size)` or `(1:size, 1:k, …)` -/
def isOne : Ex → Bool
  | .lit (.int 1) => true
  | _ => false

def demotableDims (cfg : Cfg) : List (Ex × Ex) → Bool
  | (.lit (.int 1), .var s) :: rest => s == cfg.size && rest.all fun b => isOne b.1 && isLit b.2
  | _ => false

def localArrays (u : Fir.Unit) : List Decl := u.decls.filter fun d => !u.args.contains d.name && !d.dims.isEmpty

def flatKernel (cfg : Cfg) (u : Fir.Unit) : Bool :=
  match flatBodies cfg u.body with
  | some S =>
      !S.isEmpty && columnLocal cfg.jl S && cfg.lo != cfg.jl && cfg.hi != cfg.jl &&
      !(targets S).contains cfg.lo && !(targets S).contains cfg.hi &&
      (localArrays u).all fun d => demotableDims cfg d.dims
  | none => false

mutual
/-- remove the horizontal subscript of the demoted arrays `ds` -/
def demE (ds : List String) : Ex → Ex
  | .lit v => .lit v
  | .var x => .var x
  | .idx a subs =>
      if ds.contains a then
        match demEs ds subs with
        | _ :: [] => .var a
        | _ :: rest => .idx a rest
        | [] => .idx a []
      else .idx a (demEs ds subs)
  | .sec a dims => .sec a dims
  | .neg a => .neg (demE ds a)
  | .not a => .not (demE ds a)
  | .bin o a b => .bin o (demE ds a) (demE ds b)
  | .call f args => .call f (demEs ds args)
def demEs (ds : List String) : List Ex → List Ex
  | [] => []
  | e :: es => demE ds e :: demEs ds es
end

def demS (ds : List String) : Stmt → Stmt
  | .assign l r => .assign (demE ds l) (demE ds r)
  | s => s

def demDecl (ds : List String) (d : Decl) : Decl :=
  if ds.contains d.name then { d with dims := d.dims.drop 1 } else d

/-- the transformed kernel (flat class only) -/
def sccFlat (cfg : Cfg) (u : Fir.Unit) : Fir.Unit :=
  match flatBodies cfg u.body with
  | some S =>
      let ds := (localArrays u).map (·.name)
      { u with decls := u.decls.map (demDecl ds),
               body := [.doLoop cfg.jl (.var cfg.lo) (.var cfg.hi) none (S.map (demS ds))] }
  | none => u

end LokiModel.C37
