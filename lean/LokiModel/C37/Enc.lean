import LokiModel.Fir.Codec
/-!
# Encoder for FIR programs (wire form of `Fir/Codec.lean`, which only has the decoder) — driver infrastructure for C37 (copy of the C31 encoder)
-/
namespace LokiModel.C37
open LokiModel.Fir Sexp
open LokiModel.Expr (Val CmpOp)

def encOp : BinOp → Sexp
  | .add => atom "add" | .sub => atom "sub" | .mul => atom "mul" | .div => atom "div" | .pow => atom "pow"
  | .and => atom "and" | .or => atom "or"
  | .cmp .eq => atom "eq" | .cmp .ne => atom "ne" | .cmp .lt => atom "lt" | .cmp .le => atom "le"
  | .cmp .gt => atom "gt" | .cmp .ge => atom "ge"

mutual
def encEx : Ex → Sexp
  | .lit v => encVal v
  | .var x => list [atom "v", atom x]
  | .idx x es => list (atom "idx" :: atom x :: encExs es)
  | .sec x ds => list (atom "sec" :: atom x :: encDims ds)
  | .neg a => list [atom "neg", encEx a]
  | .not a => list [atom "not", encEx a]
  | .bin o a b => list [atom "bin", encOp o, encEx a, encEx b]
  | .call f es => list (atom "call" :: atom f :: encExs es)
def encExs : List Ex → List Sexp
  | [] => []
  | e :: es => encEx e :: encExs es
def encDims : List Dim → List Sexp
  | [] => []
  | .at e :: ds => list [atom "at", encEx e] :: encDims ds
  | .rng lo hi st :: ds => list [atom "rng", encOEx lo, encOEx hi, encOEx st] :: encDims ds
def encOEx : Option Ex → Sexp
  | none => atom "none"
  | some e => encEx e
end

def encTy : Ty → Sexp
  | .int => atom "int" | .real => atom "real" | .logical => atom "logical"

def encIntent : Intent → Sexp
  | .in_ => atom "in" | .out => atom "out" | .inout => atom "inout" | .none => atom "none"

def encDecl (d : Decl) : Sexp :=
  list [atom "decl", atom d.name, encTy d.ty, encIntent d.intent,
        list (d.dims.map fun b => list [encEx b.1, encEx b.2]), encOEx d.param]

mutual
def encStmt : Stmt → Sexp
  | .assign l r => list [atom "assign", encEx l, encEx r]
  | .doLoop v lo hi st body => list [atom "do", atom v, encEx lo, encEx hi, encOEx st, list (encStmts body)]
  | .while c body => list [atom "while", encEx c, list (encStmts body)]
  | .ifte c t e => list [atom "if", encEx c, list (encStmts t), list (encStmts e)]
  | .select e cs d => list [atom "select", encEx e, list (encCases cs), list (encStmts d)]
  | .assoc bs body => list [atom "assoc", list (bs.map fun b => list [atom b.1, encEx b.2]), list (encStmts body)]
  | .callSub f args => list (atom "callsub" :: atom f :: encExs args)
  | .print args => list (atom "print" :: encExs args)
  | .exit => list [atom "exit"]
  | .cycle => list [atom "cycle"]
  | .nop k t => list [atom "nop", atom k, str t]
def encStmts : List Stmt → List Sexp
  | [] => []
  | s :: ss => encStmt s :: encStmts ss
def encCases : List (List Int × List Stmt) → List Sexp
  | [] => []
  | (vs, b) :: cs => list [list (vs.map ofInt), list (encStmts b)] :: encCases cs
end

def encUnit (u : Fir.Unit) : Sexp :=
  list [atom "unit", atom u.name, list (u.args.map atom), list (u.decls.map encDecl), list (encStmts u.body)]

def encProgram (p : Program) : Sexp := list (atom "program" :: atom p.main :: p.units.map encUnit)

mutual
/-- drop comment nops (normalisation of the correspondence: the real transformations insert marker comments) -/
def dropComments : List Stmt → List Stmt
  | [] => []
  | s :: ss =>
      match s with
      | .nop k t => if k == "comment" then dropComments ss else .nop k t :: dropComments ss
      | .doLoop v lo hi st body => .doLoop v lo hi st (dropComments body) :: dropComments ss
      | .while c body => .while c (dropComments body) :: dropComments ss
      | .ifte c t e => .ifte c (dropComments t) (dropComments e) :: dropComments ss
      | .select e cs d => .select e (dropCommentsC cs) (dropComments d) :: dropComments ss
      | .assoc bs body => .assoc bs (dropComments body) :: dropComments ss
      | s => s :: dropComments ss
def dropCommentsC : List (List Int × List Stmt) → List (List Int × List Stmt)
  | [] => []
  | (vs, b) :: cs => (vs, dropComments b) :: dropCommentsC cs
end

end LokiModel.C37
