import LokiModel.C37.Loop
/-!
# C37 — from the FIR interpreter (`execStmts`, `doIter`) to step lists and back
-/
namespace LokiModel.C37
open LokiModel.Fir
open LokiModel.Expr (Val)

def runBody : List Stmt → St → Option St
  | [], s => some s
  | a :: rest, s => (stepA s a).bind (runBody rest)

theorem clBody_cons {jl : String} {Wt : List String} {A : Stmt} {S : List Stmt} (h : clBody jl Wt (A :: S) = true) :
    clStmt jl Wt A = true ∧ clBody jl Wt S = true := by
  simpa [clBody] using h

theorem clStmt_assign {jl : String} {Wt : List String} {A : Stmt} (h : clStmt jl Wt A = true) :
    ∃ l r, A = .assign l r := by
  cases A with
  | assign l r => exact ⟨l, r, rfl⟩
  | _ => simp [clStmt] at h

theorem exec_body_fwd (p : Program) {jl : String} {Wt : List String} :
    ∀ (S : List Stmt), clBody jl Wt S = true → ∀ (f : Nat) (s s2 : St) (sig : Sig),
      execStmts p f S s = .ok s2 sig → runBody S s = some s2 ∧ sig = .normal
  | [], _, f, s, s2, sig, h => by
      cases f with
      | zero => simp [execStmts] at h
      | succ f => simp [execStmts] at h; simp [runBody, h.1, h.2]
  | A :: S, hc, f, s, s2, sig, h => by
      obtain ⟨hA, hS⟩ := clBody_cons hc
      obtain ⟨l, r, rfl⟩ := clStmt_assign hA
      cases f with
      | zero => simp [execStmts] at h
      | succ f =>
        simp only [execStmts] at h
        cases f with
        | zero => simp [execStmt] at h
        | succ f =>
          simp only [execStmt] at h
          cases ha : assignStmt s l r with
          | none => simp [ha] at h
          | some s1 =>
            simp only [ha] at h
            have := exec_body_fwd p S hS (f + 1) s1 s2 sig h
            simp [runBody, stepA, ha, this.1, this.2]

theorem exec_body_bwd (p : Program) {jl : String} {Wt : List String} :
    ∀ (S : List Stmt), clBody jl Wt S = true → ∀ (f : Nat) (s s2 : St), S.length + 1 ≤ f →
      runBody S s = some s2 → execStmts p f S s = .ok s2 .normal
  | [], _, f, s, s2, hf, h => by
      cases f with
      | zero => omega
      | succ f => simp [runBody] at h; simp [execStmts, h]
  | A :: S, hc, f, s, s2, hf, h => by
      obtain ⟨hA, hS⟩ := clBody_cons hc
      obtain ⟨l, r, rfl⟩ := clStmt_assign hA
      simp only [runBody, stepA] at h
      cases ha : assignStmt s l r with
      | none => simp [ha] at h
      | some s1 =>
        simp only [ha, Option.bind_some] at h
        cases f with
        | zero => omega
        | succ f =>
          cases f with
          | zero => simp at hf
          | succ f =>
            simp only [execStmts, execStmt, ha]
            exact exec_body_bwd p S hS (f + 1) s1 s2 (by simp at hf ⊢; omega) h

/-- a column-local assignment keeps "the loop variable was just set to `cur`" -/
theorem idem_step {jl : String} {Wt : List String} (hjl : ¬ jl ∈ Wt) {A : Stmt} (hA : clStmt jl Wt A = true)
    {cur : Int} {s1 sA : St} (a1 : s1.alias = []) (i1 : Wj jl cur s1 = some s1) (h : stepA s1 A = some sA) :
    sA.alias = [] ∧ Wj jl cur sA = some sA ∧ ∀ c s0, Wj jl c s1 = some s0 → ∃ x, Wj jl c sA = some x := by
  obtain ⟨a, is, v, he, hw⟩ := stepA_some hA h
  have j1 : JlIs jl cur s1 := Wj_JlIs a1 i1
  obtain ⟨haW, _, rfl⟩ := evalA_shape j1 hA he
  have hja : jl ≠ a := fun e => hjl (e ▸ haW)
  have aA := writeAt_alias _ _ a1 _ _ _ hw
  refine ⟨aA, ?_, ?_⟩
  · obtain ⟨x, hx1, hx2⟩ := writeAt_comm_name a1 hja i1 hw
    rw [hw] at hx1; injection hx1 with hx1; subst hx1; exact hx2
  · intro c s0 h0
    exact writeAt_transfer a1 aA (lk_writeAt_ne a1 hw hja) h0

theorem block_fwd {jl : String} {Wt : List String} (hjl : ¬ jl ∈ Wt) {c cur : Int} :
    ∀ (S : List Stmt), clBody jl Wt S = true → ∀ (s1 s0 s2 s3 : St), s1.alias = [] → Wj jl cur s1 = some s1 →
      Wj jl c s1 = some s0 → runBody S s1 = some s2 → Wj jl c s2 = some s3 → steps jl c (colSteps cur S) s0 = some s3
  | [], _, s1, s0, s2, s3, _, _, h0, hr, h3 => by
      simp [runBody] at hr; subst hr
      rw [h0] at h3; injection h3 with h3; subst h3
      simp [colSteps, steps]
  | A :: S, hc, s1, s0, s2, s3, a1, i1, h0, hr, h3 => by
      obtain ⟨hA, hS⟩ := clBody_cons hc
      simp only [runBody] at hr
      cases hs : stepA s1 A with
      | none => simp [hs] at hr
      | some sA =>
        simp only [hs, Option.bind_some] at hr
        obtain ⟨aA, iA, hx⟩ := idem_step hjl hA a1 i1 hs
        obtain ⟨x, hxc⟩ := hx c s0 h0
        have e0 : Wj jl cur s0 = some s1 := by
          have := writeAt_absorb a1 (.int cur) h0
          unfold Wj at i1 ⊢; rw [this]; exact i1
        have hat : atom jl c cur A s0 = some x := atom_of e0 hs hxc
        have ih := block_fwd hjl S hS sA x s2 s3 aA iA hxc hr h3
        simp [colSteps, steps, hat] at ih ⊢
        exact ih

theorem block_bwd {jl : String} {Wt : List String} (hjl : ¬ jl ∈ Wt) {c cur : Int} :
    ∀ (S : List Stmt), clBody jl Wt S = true → ∀ (s1 s0 s3 : St), s1.alias = [] → Wj jl cur s1 = some s1 →
      Wj jl c s1 = some s0 → steps jl c (colSteps cur S) s0 = some s3 →
      ∃ s2, runBody S s1 = some s2 ∧ Wj jl c s2 = some s3
  | [], _, s1, s0, s3, _, _, h0, h => by
      simp [colSteps, steps] at h; subst h
      exact ⟨s1, rfl, h0⟩
  | A :: S, hc, s1, s0, s3, a1, i1, h0, h => by
      obtain ⟨hA, hS⟩ := clBody_cons hc
      simp only [colSteps, List.map_cons, steps] at h
      cases hat : atom jl c cur A s0 with
      | none => simp [hat] at h
      | some x =>
        simp only [hat, Option.bind_some] at h
        obtain ⟨y1, y2, hy1, hy2, hy3⟩ := atom_some hat
        have e0 : Wj jl cur s0 = some s1 := by
          have := writeAt_absorb a1 (.int cur) h0
          unfold Wj at i1 ⊢; rw [this]; exact i1
        rw [e0] at hy1; injection hy1 with hy1; subst hy1
        obtain ⟨aA, iA, _⟩ := idem_step hjl hA a1 i1 hy2
        obtain ⟨s2, hr, h3⟩ := block_bwd hjl S hS y2 x s3 aA iA hy3 (by simpa [colSteps] using h)
        exact ⟨s2, by simp [runBody, hy2, hr], h3⟩

theorem runBody_alias {jl : String} {Wt : List String} :
    ∀ (S : List Stmt), clBody jl Wt S = true → ∀ (s s2 : St), s.alias = [] → runBody S s = some s2 → s2.alias = []
  | [], _, s, s2, hs, hr => by simp [runBody] at hr; subst hr; exact hs
  | A :: S, hc, s, s2, hs, hr => by
      obtain ⟨hA, hS'⟩ := clBody_cons hc
      simp only [runBody] at hr
      cases hst : stepA s A with
      | none => simp [hst] at hr
      | some sA =>
        simp only [hst, Option.bind_some] at hr
        obtain ⟨a, is, v, _, hwa⟩ := stepA_some hA hst
        exact runBody_alias S hS' sA s2 (writeAt_alias _ _ hs _ _ _ hwa) hr

/-- a finished DO loop over a column-local body is a run of its step list -/
theorem loop_fwd (p : Program) {jl : String} {Wt : List String} (hjl : ¬ jl ∈ Wt) {S : List Stmt}
    (hS : clBody jl Wt S = true) :
    ∀ (n f : Nat) (cur : Int) (st st' : St) (sig : Sig), st.alias = [] →
      doIter p f jl S 1 n cur st = .ok st' sig →
      ∃ s0, Wj jl (cur + n) st = some s0 ∧ steps jl (cur + n) (loopSteps S n cur) s0 = some st'
  | n, 0, cur, st, st', sig, _, h => by simp [doIter] at h
  | 0, f + 1, cur, st, st', sig, _, h => by
      simp only [doIter] at h
      cases hw : writeAt st jl [] (.int cur) with
      | none => simp [hw] at h
      | some st1 =>
        simp [hw] at h
        exact ⟨st1, by simpa [Wj] using h.1 ▸ hw, by simp [loopSteps, steps, h.1]⟩
  | n + 1, f + 1, cur, st, st', sig, hs, h => by
      simp only [doIter] at h
      cases hw : writeAt st jl [] (.int cur) with
      | none => simp [hw] at h
      | some st1 =>
        simp only [hw] at h
        have a1 := writeAt_alias _ _ hs _ _ _ hw
        have i1 : Wj jl cur st1 = some st1 := writeAt_idem hs hw
        cases hb : execStmts p f S st1 with
        | fuel => simp [hb] at h
        | err m => simp [hb] at h
        | ok st2 sg =>
          obtain ⟨hr, rfl⟩ := exec_body_fwd p S hS f st1 st2 sg hb
          simp only [hb] at h
          have hcast : cur + ((n + 1 : Nat) : Int) = (cur + 1) + (n : Int) := by push_cast; omega
          rw [hcast]
          -- alias of st2
          obtain ⟨s0, hs0⟩ := Wj_total hs (show Wj jl cur st = some st1 from hw) (cur + 1 + n)
          have h0 : Wj jl (cur + 1 + n) st1 = some s0 := by
            have := writeAt_absorb hs (.int (cur + 1 + n)) hw
            unfold Wj at hs0 ⊢; rw [this]; exact hs0
          -- alias-freeness of st2 through the block
          have a2 : st2.alias = [] := runBody_alias S hS st1 st2 a1 hr
          obtain ⟨s0', hs0', hst'⟩ := loop_fwd p hjl hS n f (cur + 1) st2 st' sig a2 h
          have hblk := block_fwd hjl S hS st1 s0 st2 s0' a1 i1 h0 hr hs0'
          exact ⟨s0, hs0, by simp [loopSteps, steps_append, hblk, hst']⟩

/-- conversely a successful run of the step list is a finished DO loop, for every sufficiently large fuel -/
theorem loop_bwd (p : Program) {jl : String} {Wt : List String} (hjl : ¬ jl ∈ Wt) {S : List Stmt}
    (hS : clBody jl Wt S = true) :
    ∀ (n f : Nat) (cur : Int) (st s0 st' : St), st.alias = [] → n + S.length + 2 ≤ f →
      Wj jl (cur + n) st = some s0 → steps jl (cur + n) (loopSteps S n cur) s0 = some st' →
      doIter p f jl S 1 n cur st = .ok st' .normal
  | n, 0, cur, st, s0, st', _, hf, _, _ => by omega
  | 0, f + 1, cur, st, s0, st', _, _, h0, h => by
      simp [loopSteps, steps] at h; subst h
      simp only [Int.natCast_zero, Int.add_zero, Wj] at h0
      simp [doIter, h0]
  | n + 1, f + 1, cur, st, s0, st', hs, hf, h0, h => by
      have hcast : cur + ((n + 1 : Nat) : Int) = (cur + 1) + (n : Int) := by push_cast; omega
      rw [hcast] at h0 h
      obtain ⟨st1, hw⟩ := Wj_total hs h0 cur
      have a1 := writeAt_alias _ _ hs _ _ _ hw
      have i1 : Wj jl cur st1 = some st1 := writeAt_idem hs hw
      have h01 : Wj jl (cur + 1 + n) st1 = some s0 := by
        have := writeAt_absorb hs (.int (cur + 1 + n)) hw
        unfold Wj at h0 ⊢; rw [this]; exact h0
      simp only [loopSteps] at h
      rw [steps_append] at h
      cases hb : steps jl (cur + 1 + n) (colSteps cur S) s0 with
      | none => simp [hb] at h
      | some x =>
        simp only [hb, Option.bind_some] at h
        obtain ⟨st2, hr, hx⟩ := block_bwd hjl S hS st1 s0 x a1 i1 h01 hb
        have hex := exec_body_bwd p S hS f st1 st2 (by omega) hr
        have a2 : st2.alias = [] := runBody_alias S hS st1 st2 a1 hr
        have ih := loop_bwd p hjl hS n f (cur + 1) st2 x st' a2 (by simp at hf ⊢; omega) hx h
        simp only [doIter, Wj] at hw ⊢
        simp [hw, hex, ih]

end LokiModel.C37
