import LokiModel.C37.Frame
/-!
# C37 — iteration steps of a column-local loop body and their commutation across different columns
-/
namespace LokiModel.C37
open LokiModel.Fir
open LokiModel.Expr (Val)

/-- set the loop variable -/
def Wj (jl : String) (j : Int) (s : St) : Option St := writeAt s jl [] (.int j)

/-- target and value of an element assignment, evaluated in `s` -/
def evalA (s : St) : Stmt → Option (String × List Int × Val)
  | .assign (.idx a subs) rhs => (evalIdx s [] subs).bind fun is => (evalE s [] rhs).map fun v => (a, is, v)
  | _ => none

def stepA (s : St) : Stmt → Option St
  | .assign l r => assignStmt s l r
  | _ => none

theorem stepA_eq (s : St) (A : Stmt) (jl : String) (Wt : List String) (hA : clStmt jl Wt A = true) :
    stepA s A = (evalA s A).bind fun p => writeAt s p.1 p.2.1 p.2.2 := by
  cases A with
  | assign l r =>
    cases l with
    | idx a subs =>
      simp only [stepA, evalA, assignStmt]
      cases evalIdx s [] subs with
      | none => rfl
      | some is => cases evalE s [] r <;> rfl
    | _ => simp [clStmt] at hA
  | _ => simp [clStmt] at hA

/-- the loop variable holds `j` (if it holds an integer at all) -/
def JlIs (jl : String) (j : Int) (s : St) : Prop := ∀ i, readAt s jl [] = some (.int i) → i = j

theorem updCell_int_reads {c c' : Cell} {j i : Int} (h : updCell c [] (.int j) = some c')
    (hr : rdCell c' [] = some (.int i)) : i = j := by
  cases c with
  | scalar ty v0 =>
    cases ty <;> simp [updCell, coerce] at h <;> subst h <;> simp [rdCell] at hr
    exact hr.symm
  | array ty bs data =>
    cases bs with
    | nil =>
      simp only [updCell, offset, Option.bind_some] at h
      cases ty <;> simp [coerce] at h
      · obtain ⟨hlt, rfl⟩ := h
        simp [rdCell, offset, hlt] at hr
        exact hr.symm
      · obtain ⟨hlt, rfl⟩ := h
        simp [rdCell, offset, hlt] at hr
    | cons b bs' => simp [updCell, offset] at h

theorem Wj_JlIs {jl : String} {j : Int} {s u : St} (hs : s.alias = []) (h : Wj jl j s = some u) : JlIs jl j u := by
  intro i hr
  have hu := writeAt_alias s u hs jl _ _ h
  obtain ⟨s', hw, rfl⟩ := (writeAt_iff s u hs jl _ _).1 h
  obtain ⟨c, c', hl, hup, rfl⟩ := wrS_some hw
  rw [readAt_eq _ hu, rdS_eq] at hr
  simp only [lk_setCell_same, Option.bind_some] at hr
  exact updCell_int_reads hup hr

theorem updCell_int_total {c c' : Cell} {a : Int} (b : Int) (h : updCell c [] (.int a) = some c') :
    ∃ c'', updCell c [] (.int b) = some c'' := by
  cases c with
  | scalar ty v0 => cases ty <;> simp [updCell, coerce] at h ⊢
  | array ty bs data =>
    cases bs with
    | nil =>
      simp only [updCell, offset, Option.bind_some] at h ⊢
      cases ty <;> simp [coerce] at h ⊢ <;> exact h.1
    | cons b bs' => simp [updCell, offset] at h

theorem Wj_total {jl : String} {c : Int} {s s' : St} (hs : s.alias = []) (h : Wj jl c s = some s') (j : Int) :
    ∃ s'', Wj jl j s = some s'' := by
  obtain ⟨t, hw, rfl⟩ := (writeAt_iff s s' hs jl _ _).1 h
  obtain ⟨c0, c', hl, hup, rfl⟩ := wrS_some hw
  obtain ⟨c'', hc''⟩ := updCell_int_total j hup
  exact ⟨_, (writeAt_iff s _ hs jl _ _).2 ⟨_, wrS_of hl hc'', rfl⟩⟩

theorem JlIs_write {jl a : String} {j : Int} {s s2 : St} {is : List Int} {v : Val} (hs : s.alias = [])
    (ha : jl ≠ a) (hw : writeAt s a is v = some s2) (hj : JlIs jl j s) : JlIs jl j s2 := by
  intro i hr
  rw [readAt_writeAt_ne_name hs hw ha] at hr
  exact hj i hr

/-- the frame lemma with the weaker knowledge about the loop variable -/
theorem evalA_frame {Wt : List String} {jl : String} {j j' : Int} {s s2 : St} (F : Frame Wt j' s s2)
    (hjl : JlIs jl j s) (hne : j ≠ j') (A : Stmt) (hA : clStmt jl Wt A = true) : evalA s2 A = evalA s A := by
  -- either the loop variable holds an integer, then `evalE_frame` applies; or every subscript evaluation fails on both sides
  cases A with
  | assign l r =>
    cases l with
    | idx a subs =>
      cases subs with
      | nil => simp [clStmt] at hA
      | cons e es =>
        cases e with
        | var y =>
          simp only [clStmt, Bool.and_eq_true, beq_iff_eq] at hA
          obtain ⟨⟨⟨_, rfl⟩, hes⟩, hr⟩ := hA
          cases hv : readAt s y [] with
          | none =>
            have h1 : evalE s [] (.var y) = none := by
              cases he : evalE s [] (.var y) with
              | none => rfl
              | some v => rw [evalE_var_eq s y v he] at hv; cases hv
            have hv2 : readAt s2 y [] = none := by rw [F.reads y [] (by simp)]; exact hv
            have h2 : evalE s2 [] (.var y) = none := by
              cases he : evalE s2 [] (.var y) with
              | none => rfl
              | some v => rw [evalE_var_eq s2 y v he] at hv2; cases hv2
            simp [evalA, evalIdx, h1, h2]
          | some v =>
            cases v with
            | int i =>
              have hi : i = j := hjl i hv
              subst hi
              have e1 := evalIdx_frame (jl := y) F hv hne (.var y :: es) (by simp [clEs, clE, hes])
              have e2 := evalE_frame (jl := y) F hv hne r hr
              simp only [evalA, e1, e2]
            | real q =>
              have hv2 : readAt s2 y [] = some (.real q) := by rw [F.reads y [] (by simp)]; exact hv
              have h1 : ∀ w, evalE s [] (.var y) = some w → asInt w = none := by
                intro w hw; rw [evalE_var_eq s y w hw] at hv; injection hv with hv; subst hv; rfl
              have h2 : ∀ w, evalE s2 [] (.var y) = some w → asInt w = none := by
                intro w hw; rw [evalE_var_eq s2 y w hw] at hv2; injection hv2 with hv2; subst hv2; rfl
              have g1 : evalIdx s [] (.var y :: es) = none := by
                simp only [evalIdx]
                cases he : evalE s [] (.var y) with
                | none => rfl
                | some w => simp [h1 w he]
              have g2 : evalIdx s2 [] (.var y :: es) = none := by
                simp only [evalIdx]
                cases he : evalE s2 [] (.var y) with
                | none => rfl
                | some w => simp [h2 w he]
              simp [evalA, g1, g2]
            | bool q =>
              have hv2 : readAt s2 y [] = some (.bool q) := by rw [F.reads y [] (by simp)]; exact hv
              have h1 : ∀ w, evalE s [] (.var y) = some w → asInt w = none := by
                intro w hw; rw [evalE_var_eq s y w hw] at hv; injection hv with hv; subst hv; rfl
              have h2 : ∀ w, evalE s2 [] (.var y) = some w → asInt w = none := by
                intro w hw; rw [evalE_var_eq s2 y w hw] at hv2; injection hv2 with hv2; subst hv2; rfl
              have g1 : evalIdx s [] (.var y :: es) = none := by
                simp only [evalIdx]
                cases he : evalE s [] (.var y) with
                | none => rfl
                | some w => simp [h1 w he]
              have g2 : evalIdx s2 [] (.var y :: es) = none := by
                simp only [evalIdx]
                cases he : evalE s2 [] (.var y) with
                | none => rfl
                | some w => simp [h2 w he]
              simp [evalA, g1, g2]
        | _ => simp [clStmt] at hA
    | _ => simp [clStmt] at hA
  | _ => simp [clStmt] at hA

/-- the element a column-local assignment writes lies in column `jl` of an array in `Wt` -/
theorem evalA_shape {Wt : List String} {jl : String} {j : Int} {s : St} (hjl : JlIs jl j s) {A : Stmt}
    (hA : clStmt jl Wt A = true) {a : String} {is : List Int} {v : Val} (h : evalA s A = some (a, is, v)) :
    a ∈ Wt ∧ ∃ ks, is = j :: ks := by
  cases A with
  | assign l r =>
    cases l with
    | idx a' subs =>
      cases subs with
      | nil => simp [clStmt] at hA
      | cons e es =>
        cases e with
        | var y =>
          simp only [clStmt, Bool.and_eq_true, beq_iff_eq, List.contains_iff_mem] at hA
          obtain ⟨⟨⟨hmem, rfl⟩, _⟩, _⟩ := hA
          simp only [evalA, evalIdx] at h
          cases he : evalE s [] (.var y) with
          | none => simp [he] at h
          | some w =>
            have hr := evalE_var_eq s y w he
            cases w with
            | int i =>
              have := hjl i hr
              subst this
              simp only [he, asInt, Option.bind_eq_bind, Option.bind_some] at h
              cases hes : evalIdx s [] es with
              | none => simp [hes] at h
              | some ks =>
                cases hrv : evalE s [] r with
                | none => simp [hes, hrv] at h
                | some rv =>
                  simp [hes, hrv] at h
                  obtain ⟨rfl, rfl, _⟩ := h
                  exact ⟨hmem, ks, rfl⟩
            | real q => simp [he, asInt] at h
            | bool q => simp [he, asInt] at h
        | _ => simp [clStmt] at hA
    | _ => simp [clStmt] at hA
  | _ => simp [clStmt] at hA

end LokiModel.C37
