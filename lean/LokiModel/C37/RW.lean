import LokiModel.C37.Store
/-!
# C37 — `readAt` / `writeAt` on alias-free states as functions on stores, and their commutation lemmas
-/
namespace LokiModel.C37
open LokiModel.Fir
open LokiModel.Expr (Val)

def rdS (s : Store) (x : String) (is : List Int) : Option Val :=
  match lk s x with
  | some (.scalar _ v) => if is.isEmpty then v else none
  | some (.array _ bs data) => (offset bs is).bind fun o => (data[o]?).bind id
  | none => none

def wrS (s : Store) (x : String) (is : List Int) (v : Val) : Option Store :=
  match lk s x with
  | some (.scalar ty _) =>
      if is.isEmpty then (coerce ty v).map fun v' => setCell s x (.scalar ty (some v')) else none
  | some (.array ty bs data) =>
      (offset bs is).bind fun o => (coerce ty v).bind fun v' =>
        if o < data.length then some (setCell s x (.array ty bs (data.set o (some v')))) else none
  | none => none

theorem readAt_eq (st : St) (h : st.alias = []) (x : String) (is : List Int) :
    readAt st x is = rdS st.store x is := by
  unfold readAt resolve lookupAlias rdS
  rw [h]
  simp only [List.find?, Option.map, lookupCell_eq]
  cases hl : lk st.store x with
  | none => simp [hl]
  | some c =>
    cases c with
    | scalar ty v => simp [hl]
    | array ty bs data =>
      cases ho : offset bs is with
      | none => simp [hl, ho]
      | some o =>
        cases hd : data[o]? <;> simp [hl, ho, hd]

theorem writeAt_eq (st : St) (h : st.alias = []) (x : String) (is : List Int) (v : Val) :
    writeAt st x is v = (wrS st.store x is v).map fun s' => { st with store := s' } := by
  unfold writeAt resolve lookupAlias wrS
  rw [h]
  simp only [List.find?, Option.map, lookupCell_eq]
  cases hl : lk st.store x with
  | none => simp [hl]
  | some c =>
    cases c with
    | scalar ty v0 =>
      by_cases he : is = []
      · cases hc : coerce ty v <;> simp [hl, he, hc, h]
      · simp [hl, he]
    | array ty bs data =>
      cases ho : offset bs is with
      | none => simp [hl, ho]
      | some o =>
        cases hc : coerce ty v with
        | none => simp [hl, ho, hc]
        | some v' =>
          by_cases hlt : o < data.length <;> simp [hl, ho, hc, hlt, h]

theorem writeAt_alias (st st2 : St) (h : st.alias = []) (x : String) (is : List Int) (v : Val)
    (hw : writeAt st x is v = some st2) : st2.alias = [] := by
  rw [writeAt_eq st h] at hw
  cases hs : wrS st.store x is v with
  | none => simp [hs] at hw
  | some s' => simp [hs] at hw; subst hw; exact h

theorem writeAt_out (st st2 : St) (h : st.alias = []) (x : String) (is : List Int) (v : Val)
    (hw : writeAt st x is v = some st2) : st2.out = st.out := by
  rw [writeAt_eq st h] at hw
  cases hs : wrS st.store x is v with
  | none => simp [hs] at hw
  | some s' => simp [hs] at hw; subst hw; rfl

/-- alias-free states are determined by store and output -/
theorem writeAt_store (st st2 : St) (h : st.alias = []) (x : String) (is : List Int) (v : Val)
    (hw : writeAt st x is v = some st2) : wrS st.store x is v = some st2.store := by
  rw [writeAt_eq st h] at hw
  cases hs : wrS st.store x is v with
  | none => simp [hs] at hw
  | some s' => simp [hs] at hw; subst hw; rfl

/-! ### offsets -/

theorem offset_head_ne (lo hi : Int) (bs : List (Int × Int)) (i j : Int) (is js : List Int) (o1 o2 : Nat)
    (h1 : offset ((lo, hi) :: bs) (i :: is) = some o1) (h2 : offset ((lo, hi) :: bs) (j :: js) = some o2)
    (hij : i ≠ j) : o1 ≠ o2 := by
  simp only [offset] at h1 h2
  by_cases hi1 : lo ≤ i ∧ i ≤ hi
  · by_cases hj1 : lo ≤ j ∧ j ≤ hi
    · simp only [hi1, hj1, and_self, if_true] at h1 h2
      cases hr1 : offset bs is with
      | none => simp [hr1] at h1
      | some r1 =>
        cases hr2 : offset bs js with
        | none => simp [hr2] at h2
        | some r2 =>
          simp only [hr1, hr2, Option.map] at h1 h2
          injection h1 with h1; injection h2 with h2
          intro heq
          have e1 : o1 % (hi - lo + 1).toNat = (i - lo).toNat := by
            rw [← h1, Nat.add_mul_mod_self_left]; apply Nat.mod_eq_of_lt; omega
          have e2 : o2 % (hi - lo + 1).toNat = (j - lo).toNat := by
            rw [← h2, Nat.add_mul_mod_self_left]; apply Nat.mod_eq_of_lt; omega
          rw [heq] at e1
          omega
    · simp [hj1] at h2
  · simp [hi1] at h1

end LokiModel.C37
