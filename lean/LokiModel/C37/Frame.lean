import LokiModel.C37.Cells
/-!
# C37 — state level lemmas, the column-local check and the frame lemma for expression evaluation

`columnLocal jl S`: the decidable syntactic condition of `column_local_fusion`:
every statement of `S` is an assignment to an array element whose FIRST subscript is exactly the loop variable `jl`;
with `Wt` = the set of arrays assigned anywhere in `S`, every reference to an array of `Wt` (on either side, also inside
subscripts) has `jl` itself as first subscript; no array sections; `jl` is not one of the assigned arrays.
Consequently no scalar is written at all (nothing is carried from one iteration to the next through a scalar) and all
traffic between iterations would have to go through a column other than `jl` of an array in `Wt`, which the check excludes.
-/
namespace LokiModel.C37
open LokiModel.Fir
open LokiModel.Expr (Val)

/-! ### the check -/

mutual
def clE (jl : String) (Wt : List String) : Ex → Bool
  | .lit _ => true
  | .var _ => true
  | .idx a subs =>
      (if Wt.contains a then (match subs with | .var y :: _ => y == jl | _ => false) else true) && clEs jl Wt subs
  | .sec _ _ => false
  | .neg a => clE jl Wt a
  | .not a => clE jl Wt a
  | .bin _ a b => clE jl Wt a && clE jl Wt b
  | .call _ args => clEs jl Wt args
def clEs (jl : String) (Wt : List String) : List Ex → Bool
  | [] => true
  | e :: es => clE jl Wt e && clEs jl Wt es
end

/-- `a(jl, …) = rhs` with a column-local right-hand side and subscripts -/
def clStmt (jl : String) (Wt : List String) : Stmt → Bool
  | .assign (.idx a (.var y :: subs)) rhs => Wt.contains a && y == jl && clEs jl Wt subs && clE jl Wt rhs
  | _ => false

def targetOf : Stmt → List String
  | .assign (.idx a _) _ => [a]
  | _ => []

def targets (S : List Stmt) : List String := S.flatMap targetOf

def clBody (jl : String) (Wt : List String) (S : List Stmt) : Bool := S.all (clStmt jl Wt)

/-- the decidable column-local condition on a loop body (or on the concatenation of two bodies) -/
def columnLocal (jl : String) (S : List Stmt) : Bool :=
  !(targets S).contains jl && clBody jl (targets S) S

/-! ### states -/

theorem St.ext' {a b : St} (h1 : a.store = b.store) (h2 : a.alias = b.alias) (h3 : a.out = b.out) : a = b := by
  cases a; cases b; simp_all

theorem writeAt_iff (st st2 : St) (h : st.alias = []) (x : String) (is : List Int) (v : Val) :
    writeAt st x is v = some st2 ↔ ∃ s', wrS st.store x is v = some s' ∧ st2 = { st with store := s' } := by
  rw [writeAt_eq st h]
  cases wrS st.store x is v with
  | none => simp
  | some s' => simp [eq_comm]

theorem boundsOf_eq (st : St) (h : st.alias = []) (x : String) :
    boundsOf st x = (lk st.store x).bind bdCell := by
  unfold boundsOf lookupAlias
  rw [h]
  simp only [List.find?, Option.map, lookupCell_eq]
  cases lk st.store x with
  | none => rfl
  | some c => cases c <;> rfl

theorem readAt_writeAt_ne_name {st st2 : St} (h : st.alias = []) {a x : String} {is js : List Int} {v : Val}
    (hw : writeAt st a is v = some st2) (hx : x ≠ a) : readAt st2 x js = readAt st x js := by
  have h2 := writeAt_alias st st2 h a is v hw
  obtain ⟨s', hs, rfl⟩ := (writeAt_iff st st2 h a is v).1 hw
  rw [readAt_eq _ h2, readAt_eq _ h, rdS_eq, rdS_eq]
  obtain ⟨c, c', _, _, rfl⟩ := wrS_some hs
  simp [lk_setCell_ne _ _ _ _ (Ne.symm hx)]

theorem readAt_writeAt_ne_head {st st2 : St} (h : st.alias = []) {a : String} {i j : Int} {is js : List Int} {v : Val}
    (hw : writeAt st a (i :: is) v = some st2) (hij : j ≠ i) : readAt st2 a (j :: js) = readAt st a (j :: js) := by
  have h2 := writeAt_alias st st2 h a _ v hw
  obtain ⟨s', hs, rfl⟩ := (writeAt_iff st st2 h a _ v).1 hw
  rw [readAt_eq _ h2, readAt_eq _ h, rdS_eq, rdS_eq]
  obtain ⟨c, c', hl, hu, rfl⟩ := wrS_some hs
  simp [lk_setCell_same, hl, rdCell_upd_ne_head hu hij]

theorem readAt_writeAt_nil {st st2 : St} (h : st.alias = []) {a : String} {i : Int} {is : List Int} {v : Val}
    (hw : writeAt st a (i :: is) v = some st2) : readAt st2 a [] = readAt st a [] := by
  have h2 := writeAt_alias st st2 h a _ v hw
  obtain ⟨s', hs, rfl⟩ := (writeAt_iff st st2 h a _ v).1 hw
  rw [readAt_eq _ h2, readAt_eq _ h, rdS_eq, rdS_eq]
  obtain ⟨c, c', hl, hu, rfl⟩ := wrS_some hs
  simp [lk_setCell_same, hl, rdCell_upd_nil hu]

theorem boundsOf_writeAt {st st2 : St} (h : st.alias = []) {a : String} {is : List Int} {v : Val}
    (hw : writeAt st a is v = some st2) (x : String) : boundsOf st2 x = boundsOf st x := by
  have h2 := writeAt_alias st st2 h a _ v hw
  obtain ⟨s', hs, rfl⟩ := (writeAt_iff st st2 h a _ v).1 hw
  rw [boundsOf_eq _ h2, boundsOf_eq _ h]
  obtain ⟨c, c', hl, hu, rfl⟩ := wrS_some hs
  by_cases hx : x = a
  · subst hx; simp [lk_setCell_same, hl, updCell_bd hu]
  · simp [lk_setCell_ne _ _ _ _ (Ne.symm hx)]

/-- writes to different variables commute -/
theorem writeAt_comm_name {st s1 s2 : St} (h : st.alias = []) {a b : String} {is js : List Int} {v w : Val}
    (hab : a ≠ b) (h1 : writeAt st a is v = some s1) (h2 : writeAt s1 b js w = some s2) :
    ∃ s1', writeAt st b js w = some s1' ∧ writeAt s1' a is v = some s2 := by
  have ha1 := writeAt_alias st s1 h a _ v h1
  obtain ⟨t1, ht1, rfl⟩ := (writeAt_iff st s1 h a _ v).1 h1
  obtain ⟨t2, ht2, rfl⟩ := (writeAt_iff _ s2 ha1 b _ w).1 h2
  obtain ⟨ca, ca', hla, hua, rfl⟩ := wrS_some ht1
  obtain ⟨cb, cb', hlb, hub, rfl⟩ := wrS_some ht2
  simp only at hlb
  rw [lk_setCell_ne _ _ _ _ hab] at hlb
  refine ⟨{ st with store := setCell st.store b cb' }, ?_, ?_⟩
  · exact (writeAt_iff st _ h b _ w).2 ⟨_, wrS_of hlb hub, rfl⟩
  · refine (writeAt_iff { st with store := setCell st.store b cb' } _ h a _ v).2 ⟨setCell (setCell st.store b cb') a ca', ?_, ?_⟩
    · apply wrS_of (c := ca) _ hua
      simp only; rw [lk_setCell_ne _ _ _ _ (Ne.symm hab)]; exact hla
    · simp only
      rw [setCell_comm st.store a b ca' cb' hab (by simp [hla]) (by simp [hlb])]

/-- writes to different columns of the same array commute -/
theorem writeAt_comm_head {st s1 s2 : St} (h : st.alias = []) {a : String} {i j : Int} {is js : List Int} {v w : Val}
    (hij : i ≠ j) (h1 : writeAt st a (i :: is) v = some s1) (h2 : writeAt s1 a (j :: js) w = some s2) :
    ∃ s1', writeAt st a (j :: js) w = some s1' ∧ writeAt s1' a (i :: is) v = some s2 := by
  have ha1 := writeAt_alias st s1 h a _ v h1
  obtain ⟨t1, ht1, rfl⟩ := (writeAt_iff st s1 h a _ v).1 h1
  obtain ⟨t2, ht2, rfl⟩ := (writeAt_iff _ s2 ha1 a _ w).1 h2
  obtain ⟨c, c1, hl, hu1, rfl⟩ := wrS_some ht1
  obtain ⟨c1x, c2, hl1, hu2, rfl⟩ := wrS_some ht2
  simp only at hl1
  rw [lk_setCell_same] at hl1
  injection hl1 with hl1; subst hl1
  obtain ⟨c1', hu1', hu2'⟩ := updCell_comm hu1 hu2 hij
  refine ⟨{ st with store := setCell st.store a c1' }, ?_, ?_⟩
  · exact (writeAt_iff st _ h a _ w).2 ⟨_, wrS_of hl hu1', rfl⟩
  · refine (writeAt_iff { st with store := setCell st.store a c1' } _ h a _ v).2 ⟨setCell (setCell st.store a c1') a c2, ?_, ?_⟩
    · apply wrS_of (c := c1') _ hu2'
      simp only; rw [lk_setCell_same]
    · simp only
      rw [setCell_setCell, setCell_setCell]

/-- a scalar write absorbs an earlier write to the same scalar -/
theorem writeAt_absorb {st s1 : St} (h : st.alias = []) {x : String} {v : Val} (w : Val)
    (h1 : writeAt st x [] v = some s1) : writeAt s1 x [] w = writeAt st x [] w := by
  have ha1 := writeAt_alias st s1 h x _ v h1
  obtain ⟨t1, ht1, rfl⟩ := (writeAt_iff st s1 h x _ v).1 h1
  obtain ⟨c, c1, hl, hu1, rfl⟩ := wrS_some ht1
  rw [writeAt_eq _ ha1, writeAt_eq _ h, wrS_eq, wrS_eq]
  simp only [lk_setCell_same, hl, Option.bind_some, updCell_scalar_absorb hu1]
  cases updCell c [] w with
  | none => rfl
  | some c2 => simp [setCell_setCell]

/-- writing the same value again changes nothing -/
theorem writeAt_idem {st s1 : St} (h : st.alias = []) {x : String} {v : Val}
    (h1 : writeAt st x [] v = some s1) : writeAt s1 x [] v = some s1 := by
  rw [writeAt_absorb h v h1]; exact h1

/-! ### frames -/

/-- `s2` differs from `s` at most in column `j'` of the arrays in `Wt` -/
structure Frame (Wt : List String) (j' : Int) (s s2 : St) : Prop where
  bounds : ∀ x, boundsOf s2 x = boundsOf s x
  reads : ∀ x is, (x ∈ Wt → is.head? ≠ some j') → readAt s2 x is = readAt s x is

theorem Frame.of_write {Wt : List String} {s s2 : St} (h : s.alias = []) {a : String} {j' : Int} {ks : List Int} {v : Val}
    (ha : a ∈ Wt) (hw : writeAt s a (j' :: ks) v = some s2) : Frame Wt j' s s2 := by
  constructor
  · intro x; exact boundsOf_writeAt h hw x
  · intro x is hx
    by_cases hxa : x = a
    · subst hxa
      have := hx ha
      cases is with
      | nil => exact readAt_writeAt_nil h hw
      | cons j js =>
        have hj : j ≠ j' := by intro e; subst e; simp at this
        exact readAt_writeAt_ne_head h hw hj
    · exact readAt_writeAt_ne_name h hw hxa

theorem evalE_var_eq (s : St) (x : String) (v : Val) (h : evalE s [] (.var x) = some v) : readAt s x [] = some v := by
  simp only [evalE] at h
  cases hb : boundsOf s x with
  | none => simpa [hb] using h
  | some bs =>
    simp only [hb] at h
    cases bs with
    | nil => simpa using h
    | cons b bs' => simp at h

mutual
theorem evalE_frame {Wt : List String} {jl : String} {j j' : Int} {s s2 : St} (F : Frame Wt j' s s2)
    (hjl : readAt s jl [] = some (.int j)) (hne : j ≠ j') :
    ∀ (e : Ex), clE jl Wt e = true → evalE s2 [] e = evalE s [] e
  | .lit v, _ => by simp [evalE]
  | .var x, _ => by
      simp only [evalE, F.bounds x]
      cases boundsOf s x with
      | none => exact F.reads x [] (by simp)
      | some bs =>
        cases bs with
        | nil => simpa using F.reads x [] (by simp)
        | cons b bs' => simp
  | .idx a subs, hc => by
      simp only [clE, Bool.and_eq_true] at hc
      simp only [evalE]
      rw [evalIdx_frame F hjl hne subs hc.2]
      cases hi : evalIdx s [] subs with
      | none => rfl
      | some is =>
        simp only [Option.bind_eq_bind, Option.bind_some]
        apply F.reads
        intro ha
        have hc1 := hc.1
        simp only [List.contains_iff_mem, ha, if_true] at hc1
        cases subs with
        | nil => simp at hc1
        | cons e es =>
          cases e with
          | var y =>
            simp only [beq_iff_eq] at hc1
            subst hc1
            simp only [evalIdx] at hi
            cases hv : evalE s [] (.var y) with
            | none => simp [hv] at hi
            | some v =>
              have hr := evalE_var_eq s y v hv
              rw [hjl] at hr
              injection hr with hr
              subst hr
              simp only [hv, Option.bind_eq_bind, Option.bind_some, asInt] at hi
              cases hr2 : evalIdx s [] es with
              | none => simp [hr2] at hi
              | some r =>
                simp [hr2] at hi
                subst hi
                simp [hne]
          | _ => simp at hc1
  | .sec _ _, hc => by simp [clE] at hc
  | .neg a, hc => by
      simp only [clE] at hc
      simp only [evalE]; rw [evalE_frame F hjl hne a hc]
  | .not a, hc => by
      simp only [clE] at hc
      simp only [evalE]; rw [evalE_frame F hjl hne a hc]
  | .bin o a b, hc => by
      simp only [clE, Bool.and_eq_true] at hc
      simp only [evalE]; rw [evalE_frame F hjl hne a hc.1, evalE_frame F hjl hne b hc.2]
  | .call f args, hc => by
      simp only [clE] at hc
      simp only [evalE]; rw [evalArgs_frame F hjl hne args hc]
theorem evalIdx_frame {Wt : List String} {jl : String} {j j' : Int} {s s2 : St} (F : Frame Wt j' s s2)
    (hjl : readAt s jl [] = some (.int j)) (hne : j ≠ j') :
    ∀ (es : List Ex), clEs jl Wt es = true → evalIdx s2 [] es = evalIdx s [] es
  | [], _ => by simp [evalIdx]
  | e :: es, hc => by
      simp only [clEs, Bool.and_eq_true] at hc
      simp only [evalIdx]; rw [evalE_frame F hjl hne e hc.1, evalIdx_frame F hjl hne es hc.2]
theorem evalArgs_frame {Wt : List String} {jl : String} {j j' : Int} {s s2 : St} (F : Frame Wt j' s s2)
    (hjl : readAt s jl [] = some (.int j)) (hne : j ≠ j') :
    ∀ (es : List Ex), clEs jl Wt es = true → evalArgs s2 [] es = evalArgs s [] es
  | [], _ => by simp [evalArgs]
  | e :: es, hc => by
      simp only [clEs, Bool.and_eq_true] at hc
      simp only [evalArgs]; rw [evalE_frame F hjl hne e hc.1, evalArgs_frame F hjl hne es hc.2]
end

end LokiModel.C37
