import LokiModel.C37.RW
/-!
# C37 — cell level view of reads and writes; commutation of writes to different columns
-/
namespace LokiModel.C37
open LokiModel.Fir
open LokiModel.Expr (Val)

def rdCell (c : Cell) (is : List Int) : Option Val :=
  match c with
  | .scalar _ v => if is.isEmpty then v else none
  | .array _ bs data => (offset bs is).bind fun o => (data[o]?).bind id

def updCell (c : Cell) (is : List Int) (v : Val) : Option Cell :=
  match c with
  | .scalar ty _ => if is.isEmpty then (coerce ty v).map fun v' => .scalar ty (some v') else none
  | .array ty bs data =>
      (offset bs is).bind fun o => (coerce ty v).bind fun v' =>
        if o < data.length then some (.array ty bs (data.set o (some v'))) else none

def bdCell : Cell → Option (List (Int × Int))
  | .array _ bs _ => some bs
  | .scalar _ _ => none

theorem rdS_eq (s : Store) (x : String) (is : List Int) : rdS s x is = (lk s x).bind fun c => rdCell c is := by
  unfold rdS rdCell
  cases lk s x with
  | none => rfl
  | some c => cases c <;> rfl

theorem wrS_eq (s : Store) (x : String) (is : List Int) (v : Val) :
    wrS s x is v = (lk s x).bind fun c => (updCell c is v).map (setCell s x) := by
  unfold wrS updCell
  cases lk s x with
  | none => rfl
  | some c =>
    cases c with
    | scalar ty v0 =>
      by_cases he : is = []
      · cases hc : coerce ty v <;> simp [he, hc]
      · simp [he]
    | array ty bs data =>
      cases ho : offset bs is with
      | none => simp [ho]
      | some o =>
        cases hc : coerce ty v with
        | none => simp [ho, hc]
        | some v' => by_cases hlt : o < data.length <;> simp [ho, hc, hlt]

/-- what a successful write looks like -/
theorem wrS_some {s s2 : Store} {x : String} {is : List Int} {v : Val} (h : wrS s x is v = some s2) :
    ∃ c c', lk s x = some c ∧ updCell c is v = some c' ∧ s2 = setCell s x c' := by
  rw [wrS_eq] at h
  cases hl : lk s x with
  | none => simp [hl] at h
  | some c =>
    cases hu : updCell c is v with
    | none => simp [hl, hu] at h
    | some c' =>
      simp [hl, hu] at h
      exact ⟨c, c', rfl, hu, h.symm⟩

theorem wrS_of {s : Store} {x : String} {is : List Int} {v : Val} {c c' : Cell}
    (hl : lk s x = some c) (hu : updCell c is v = some c') : wrS s x is v = some (setCell s x c') := by
  rw [wrS_eq]; simp [hl, hu]

/-! ### cell level facts -/

theorem updCell_bd {c c' : Cell} {is : List Int} {v : Val} (h : updCell c is v = some c') : bdCell c' = bdCell c := by
  cases c with
  | scalar ty v0 =>
    simp only [updCell] at h
    by_cases he : is.isEmpty = true
    · simp only [he, if_true] at h
      cases hc : coerce ty v with
      | none => simp [hc] at h
      | some w => simp [hc] at h; subst h; rfl
    · simp [he] at h
  | array ty bs data =>
    simp only [updCell] at h
    cases ho : offset bs is with
    | none => simp [ho] at h
    | some o =>
      cases hc : coerce ty v with
      | none => simp [ho, hc] at h
      | some w =>
        by_cases hlt : o < data.length
        · simp [ho, hc, hlt] at h; subst h; rfl
        · simp [ho, hc, hlt] at h

/-- a successful write with a non-empty subscript list hits an array -/
theorem updCell_cons {c c' : Cell} {i : Int} {is : List Int} {v : Val} (h : updCell c (i :: is) v = some c') :
    ∃ ty bs data o w, c = .array ty bs data ∧ offset bs (i :: is) = some o ∧ coerce ty v = some w ∧ o < data.length ∧
      c' = .array ty bs (data.set o (some w)) := by
  cases c with
  | scalar ty v0 => simp [updCell] at h
  | array ty bs data =>
    simp only [updCell] at h
    cases ho : offset bs (i :: is) with
    | none => simp [ho] at h
    | some o =>
      cases hc : coerce ty v with
      | none => simp [ho, hc] at h
      | some w =>
        by_cases hlt : o < data.length
        · simp [ho, hc, hlt] at h
          exact ⟨ty, bs, data, o, w, rfl, ho, hc, hlt, h.symm⟩
        · simp [ho, hc, hlt] at h

theorem offset_cons_bs {bs : List (Int × Int)} {i : Int} {is : List Int} {o : Nat} (h : offset bs (i :: is) = some o) :
    ∃ lo hi bs', bs = (lo, hi) :: bs' := by
  cases bs with
  | nil => simp [offset] at h
  | cons b bs' => exact ⟨b.1, b.2, bs', rfl⟩

theorem rdCell_upd_ne_head {c c' : Cell} {i j : Int} {is js : List Int} {v : Val}
    (h : updCell c (i :: is) v = some c') (hij : j ≠ i) : rdCell c' (j :: js) = rdCell c (j :: js) := by
  obtain ⟨ty, bs, data, o, w, rfl, ho, _, _, rfl⟩ := updCell_cons h
  obtain ⟨lo, hi, bs', rfl⟩ := offset_cons_bs ho
  simp only [rdCell]
  cases ho2 : offset ((lo, hi) :: bs') (j :: js) with
  | none => rfl
  | some o2 =>
    have hne : o ≠ o2 := offset_head_ne lo hi bs' i j is js o o2 ho ho2 (Ne.symm hij)
    simp only [Option.bind_some]
    rw [List.getElem?_set_ne hne]

theorem rdCell_upd_nil {c c' : Cell} {i : Int} {is : List Int} {v : Val}
    (h : updCell c (i :: is) v = some c') : rdCell c' [] = rdCell c [] := by
  obtain ⟨ty, bs, data, o, w, rfl, ho, _, _, rfl⟩ := updCell_cons h
  obtain ⟨lo, hi, bs', rfl⟩ := offset_cons_bs ho
  simp [rdCell, offset]

/-- writes to different columns of one array commute -/
theorem updCell_comm {c c1 c2 : Cell} {i j : Int} {is js : List Int} {v w : Val}
    (h1 : updCell c (i :: is) v = some c1) (h2 : updCell c1 (j :: js) w = some c2) (hij : i ≠ j) :
    ∃ c1', updCell c (j :: js) w = some c1' ∧ updCell c1' (i :: is) v = some c2 := by
  obtain ⟨ty, bs, data, o, v', rfl, ho, hcv, hlt, rfl⟩ := updCell_cons h1
  obtain ⟨ty2, bs2, data2, o2, w', heq, ho2, hcw, hlt2, rfl⟩ := updCell_cons h2
  injection heq with e1 e2 e3
  subst e1; subst e2; subst e3
  obtain ⟨lo, hi, bs', rfl⟩ := offset_cons_bs ho
  have hne : o ≠ o2 := offset_head_ne lo hi bs' i j is js o o2 ho ho2 hij
  simp only [List.length_set] at hlt2
  refine ⟨.array ty ((lo, hi) :: bs') (data.set o2 (some w')), ?_, ?_⟩
  · simp [updCell, ho2, hcw, hlt2]
  · simp only [updCell, ho, hcv, Option.bind_some, List.length_set, hlt, if_true]
    rw [List.set_comm _ _ hne]

/-- a scalar write forgets the old value -/
theorem updCell_scalar_absorb {c c1 : Cell} {v w : Val} (h1 : updCell c [] v = some c1) :
    updCell c1 [] w = updCell c [] w := by
  cases c with
  | scalar ty v0 =>
    simp only [updCell, List.isEmpty_nil, if_true] at h1
    cases hc : coerce ty v with
    | none => simp [hc] at h1
    | some v' => simp [hc] at h1; subst h1; simp [updCell]
  | array ty bs data =>
    simp only [updCell] at h1
    cases ho : offset bs [] with
    | none => simp [ho] at h1
    | some o =>
      cases bs with
      | nil =>
        cases hc : coerce ty v with
        | none => simp [ho, hc] at h1
        | some v' =>
          by_cases hlt : o < data.length
          · simp [ho, hc, hlt] at h1; subst h1
            simp only [offset] at ho; injection ho with ho; subst ho
            cases hcw : coerce ty w with
            | none => simp [updCell, offset, hcw]
            | some w' =>
              by_cases h0 : 0 < data.length <;> simp [updCell, offset, hcw, h0, List.length_set, List.set_set]
          · simp [ho, hc, hlt] at h1
      | cons b bs' => simp [offset] at ho

end LokiModel.C37
