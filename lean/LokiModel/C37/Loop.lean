import LokiModel.C37.Fusion
/-!
# C37 — flat step lists, the fusion law on step lists
-/
namespace LokiModel.C37
open LokiModel.Fir
open LokiModel.Expr (Val)

/-- a list of (column, assignment) steps, each executed by `atom` -/
def steps (jl : String) (c : Int) : List (Int × Stmt) → St → Option St
  | [], s => some s
  | x :: r, s => (atom jl c x.1 x.2 s).bind (steps jl c r)

def ClSteps (jl : String) (Wt : List String) (xs : List (Int × Stmt)) : Prop := ∀ x ∈ xs, clStmt jl Wt x.2 = true

theorem steps_append (jl : String) (c : Int) (xs ys : List (Int × Stmt)) (s : St) :
    steps jl c (xs ++ ys) s = (steps jl c xs s).bind (steps jl c ys) := by
  induction xs generalizing s with
  | nil => simp [steps]
  | cons x r ih =>
    simp only [List.cons_append, steps]
    cases atom jl c x.1 x.2 s with
    | none => rfl
    | some s1 => simp [ih]

theorem steps_alias {jl : String} {c : Int} {Wt : List String} {xs : List (Int × Stmt)} (hc : ClSteps jl Wt xs)
    {s t : St} (hs : s.alias = []) (h : steps jl c xs s = some t) : t.alias = [] := by
  induction xs generalizing s with
  | nil => simp [steps] at h; subst h; exact hs
  | cons x r ih =>
    simp only [steps] at h
    cases h1 : atom jl c x.1 x.2 s with
    | none => simp [h1] at h
    | some s1 =>
      simp [h1] at h
      exact ih (fun y hy => hc y (List.mem_cons_of_mem _ hy)) (atom_alias (hc x (List.mem_cons_self ..)) hs h1) h

/-- one step moves behind a list of steps of other columns -/
theorem step_past {jl : String} {c : Int} {Wt : List String} (hjl : ¬ jl ∈ Wt) (x : Int × Stmt)
    (hx : clStmt jl Wt x.2 = true) :
    ∀ (ys : List (Int × Stmt)), ClSteps jl Wt ys → (∀ y ∈ ys, x.1 ≠ y.1) → ∀ (s t : St), s.alias = [] →
      (atom jl c x.1 x.2 s).bind (steps jl c ys) = some t → (steps jl c ys s).bind (atom jl c x.1 x.2) = some t
  | [], _, _, s, t, _, h => by simpa [steps] using h
  | y :: r, hc, hne, s, t, hs, h => by
      cases h1 : atom jl c x.1 x.2 s with
      | none => simp [h1] at h
      | some s1 =>
        simp only [h1, Option.bind_some, steps] at h
        cases h2 : atom jl c y.1 y.2 s1 with
        | none => simp [h2] at h
        | some s2 =>
          simp only [h2, Option.bind_some] at h
          have hy := hc y (List.mem_cons_self ..)
          have hxy := hne y (List.mem_cons_self ..)
          have hsw := atom_comm hjl hxy hx hy hs (show (atom jl c x.1 x.2 s).bind (atom jl c y.1 y.2) = some s2 by simp [h1, h2])
          cases h3 : atom jl c y.1 y.2 s with
          | none => rw [h3] at hsw; cases hsw
          | some s1' =>
            simp only [h3, Option.bind_some] at hsw
            have a1' := atom_alias hy hs h3
            have ih := step_past (c := c) hjl x hx r (fun z hz => hc z (List.mem_cons_of_mem _ hz))
              (fun z hz => hne z (List.mem_cons_of_mem _ hz)) s1' t a1' (by simp [hsw, h])
            simp [steps, h3, ih]

/-- a list of steps moves behind a list of steps of other columns -/
theorem steps_past {jl : String} {c : Int} {Wt : List String} (hjl : ¬ jl ∈ Wt) :
    ∀ (xs ys : List (Int × Stmt)), ClSteps jl Wt xs → ClSteps jl Wt ys → (∀ x ∈ xs, ∀ y ∈ ys, x.1 ≠ y.1) →
      ∀ (s t : St), s.alias = [] →
      (steps jl c xs s).bind (steps jl c ys) = some t → (steps jl c ys s).bind (steps jl c xs) = some t
  | [], ys, _, _, _, s, t, _, h => by
      simp only [steps, Option.bind_some] at h
      simp [steps, h]
  | x :: r, ys, hcx, hcy, hne, s, t, hs, h => by
      simp only [steps] at h
      cases h1 : atom jl c x.1 x.2 s with
      | none => simp [h1] at h
      | some s1 =>
        simp only [h1, Option.bind_some] at h
        have hx := hcx x (List.mem_cons_self ..)
        have a1 := atom_alias hx hs h1
        have ih := steps_past (c := c) hjl r ys (fun z hz => hcx z (List.mem_cons_of_mem _ hz)) hcy
          (fun z hz => hne z (List.mem_cons_of_mem _ hz)) s1 t a1 h
        cases h2 : steps jl c ys s1 with
        | none => simp [h2] at ih
        | some s2' =>
          simp only [h2, Option.bind_some] at ih
          have hp := step_past (c := c) hjl x hx ys hcy (fun y hy => hne x (List.mem_cons_self ..) y hy) s s2' hs
            (by simp [h1, h2])
          cases h3 : steps jl c ys s with
          | none => rw [h3] at hp; cases hp
          | some s1' =>
            simp only [h3, Option.bind_some] at hp
            simp [steps, hp, ih]

/-! ### loops as step lists -/

def colSteps (j : Int) (S : List Stmt) : List (Int × Stmt) := S.map fun A => (j, A)

def loopSteps (S : List Stmt) : Nat → Int → List (Int × Stmt)
  | 0, _ => []
  | n + 1, cur => colSteps cur S ++ loopSteps S n (cur + 1)

theorem colSteps_append (j : Int) (S1 S2 : List Stmt) : colSteps j (S1 ++ S2) = colSteps j S1 ++ colSteps j S2 := by
  simp [colSteps]

theorem colSteps_cl {jl : String} {Wt : List String} {S : List Stmt} (h : clBody jl Wt S = true) (j : Int) :
    ClSteps jl Wt (colSteps j S) := by
  intro x hx
  simp only [colSteps, List.mem_map] at hx
  obtain ⟨A, hA, rfl⟩ := hx
  simp only [clBody, List.all_eq_true] at h
  exact h A hA

theorem loopSteps_cl {jl : String} {Wt : List String} {S : List Stmt} (h : clBody jl Wt S = true) :
    ∀ (n : Nat) (cur : Int), ClSteps jl Wt (loopSteps S n cur)
  | 0, _ => by intro x hx; simp [loopSteps] at hx
  | n + 1, cur => by
      intro x hx
      simp only [loopSteps, List.mem_append] at hx
      cases hx with
      | inl h1 => exact colSteps_cl h cur x h1
      | inr h2 => exact loopSteps_cl h n (cur + 1) x h2

theorem loopSteps_col (S : List Stmt) : ∀ (n : Nat) (cur : Int), ∀ x ∈ loopSteps S n cur, cur ≤ x.1
  | 0, _ => by intro x hx; simp [loopSteps] at hx
  | n + 1, cur => by
      intro x hx
      simp only [loopSteps, List.mem_append] at hx
      cases hx with
      | inl h1 =>
        simp only [colSteps, List.mem_map] at h1
        obtain ⟨A, _, rfl⟩ := h1
        simp
      | inr h2 => have := loopSteps_col S n (cur + 1) x h2; omega

theorem clBody_append {jl : String} {Wt : List String} {S1 S2 : List Stmt} (h : clBody jl Wt (S1 ++ S2) = true) :
    clBody jl Wt S1 = true ∧ clBody jl Wt S2 = true := by
  simp only [clBody, List.all_append, Bool.and_eq_true] at h
  exact h

/-- **fusion on step lists**: the steps of two successive loops over the same columns, rearranged into one loop -/
theorem fusion_steps {jl : String} {c : Int} {Wt : List String} (hjl : ¬ jl ∈ Wt) {S1 S2 : List Stmt}
    (h12 : clBody jl Wt (S1 ++ S2) = true) :
    ∀ (n : Nat) (cur : Int) (s t : St), s.alias = [] →
      steps jl c (loopSteps S1 n cur ++ loopSteps S2 n cur) s = some t →
      steps jl c (loopSteps (S1 ++ S2) n cur) s = some t
  | 0, _, s, t, _, h => by simpa [loopSteps] using h
  | n + 1, cur, s, t, hs, h => by
      obtain ⟨h1, h2⟩ := clBody_append h12
      simp only [loopSteps, List.append_assoc] at h
      rw [steps_append] at h
      cases e1 : steps jl c (colSteps cur S1) s with
      | none => simp [e1] at h
      | some s1 =>
        simp only [e1, Option.bind_some] at h
        rw [steps_append] at h
        have a1 := steps_alias (colSteps_cl h1 cur) hs e1
        cases e2 : steps jl c (loopSteps S1 n (cur + 1)) s1 with
        | none => simp [e2] at h
        | some s2 =>
          simp only [e2, Option.bind_some] at h
          rw [steps_append] at h
          cases e3 : steps jl c (colSteps cur S2) s2 with
          | none => simp [e3] at h
          | some s3 =>
            simp only [e3, Option.bind_some] at h
            -- move the column-`cur` steps of S2 in front of the remaining columns of S1
            have hp := steps_past (c := c) hjl (loopSteps S1 n (cur + 1)) (colSteps cur S2) (loopSteps_cl h1 n (cur + 1))
              (colSteps_cl h2 cur)
              (by
                intro x hx y hy
                have := loopSteps_col S1 n (cur + 1) x hx
                simp only [colSteps, List.mem_map] at hy
                obtain ⟨A, _, rfl⟩ := hy
                simp only; omega)
              s1 s3 a1 (by simp [e2, e3])
            cases e4 : steps jl c (colSteps cur S2) s1 with
            | none => rw [e4] at hp; cases hp
            | some s2' =>
              simp only [e4, Option.bind_some] at hp
              have a2' := steps_alias (colSteps_cl h2 cur) a1 e4
              have ih := fusion_steps (c := c) hjl h12 n (cur + 1) s2' t a2' (by simp [steps_append, hp, h])
              simp [loopSteps, colSteps_append, steps_append, e1, e4, ih]

end LokiModel.C37
