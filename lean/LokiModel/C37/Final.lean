import LokiModel.C37.Bridge
/-!
# C37 — loop bounds, and the fusion theorem on `execStmts` (proof; the statement is repeated in `Props/C37.lean`)
-/
namespace LokiModel.C37
open LokiModel.Fir
open LokiModel.Expr (Val)

/-- loop bounds the theorem covers: literals and scalars that are neither the loop variable nor assigned in the bodies -/
def boundOK (jl : String) (Wt : List String) : Ex → Bool
  | .lit _ => true
  | .var x => x != jl && !Wt.contains x
  | _ => false

def Keeps (jl : String) (Wt : List String) (s t : St) : Prop :=
  ∀ x, x ≠ jl → ¬ x ∈ Wt → readAt t x [] = readAt s x [] ∧ boundsOf t x = boundsOf s x

theorem Keeps.refl (jl : String) (Wt : List String) (s : St) : Keeps jl Wt s s := fun _ _ _ => ⟨rfl, rfl⟩

theorem Keeps.trans {jl : String} {Wt : List String} {s t u : St} (h1 : Keeps jl Wt s t) (h2 : Keeps jl Wt t u) :
    Keeps jl Wt s u := fun x a b => ⟨(h2 x a b).1.trans (h1 x a b).1, (h2 x a b).2.trans (h1 x a b).2⟩

theorem Keeps.of_write {jl : String} {Wt : List String} {s t : St} (hs : s.alias = []) {a : String} {is : List Int}
    {v : Val} (ha : a = jl ∨ a ∈ Wt) (h : writeAt s a is v = some t) : Keeps jl Wt s t := by
  intro x hx1 hx2
  have hxa : x ≠ a := by
    intro e; subst e
    cases ha with
    | inl h => exact hx1 h
    | inr h => exact hx2 h
  exact ⟨readAt_writeAt_ne_name hs h hxa, boundsOf_writeAt hs h x⟩

theorem atom_keeps {jl : String} {Wt : List String} {c j : Int} {A : Stmt} (hA : clStmt jl Wt A = true) {s t : St}
    (hs : s.alias = []) (h : atom jl c j A s = some t) : Keeps jl Wt s t := by
  obtain ⟨s1, s2, h1, h2, h3⟩ := atom_some h
  have a1 := writeAt_alias _ _ hs _ _ _ h1
  obtain ⟨a, is, v, he, hw⟩ := stepA_some hA h2
  have a2 := writeAt_alias _ _ a1 _ _ _ hw
  obtain ⟨haW, _⟩ := evalA_shape (Wj_JlIs hs h1) hA he
  exact ((Keeps.of_write hs (Or.inl rfl) h1).trans (Keeps.of_write a1 (Or.inr haW) hw)).trans
    (Keeps.of_write a2 (Or.inl rfl) h3)

theorem steps_keeps {jl : String} {Wt : List String} {c : Int} :
    ∀ (xs : List (Int × Stmt)), ClSteps jl Wt xs → ∀ (s t : St), s.alias = [] → steps jl c xs s = some t → Keeps jl Wt s t
  | [], _, s, t, _, h => by simp [steps] at h; subst h; exact Keeps.refl jl Wt s
  | x :: r, hc, s, t, hs, h => by
      simp only [steps] at h
      cases h1 : atom jl c x.1 x.2 s with
      | none => simp [h1] at h
      | some s1 =>
        simp only [h1, Option.bind_some] at h
        have hx := hc x (List.mem_cons_self ..)
        exact (atom_keeps hx hs h1).trans
          (steps_keeps r (fun z hz => hc z (List.mem_cons_of_mem _ hz)) s1 t (atom_alias hx hs h1) h)

theorem evalE_bound {jl : String} {Wt : List String} {s t : St} (hk : Keeps jl Wt s t) (e : Ex)
    (he : boundOK jl Wt e = true) : evalE t [] e = evalE s [] e := by
  cases e with
  | lit v => simp [evalE]
  | var x =>
    simp only [boundOK, Bool.and_eq_true, bne_iff_ne, ne_eq] at he
    obtain ⟨h1, h2⟩ := hk x he.1 (by simpa using he.2)
    simp only [evalE, h2]
    cases boundsOf s x with
    | none => exact h1
    | some bs =>
      cases bs with
      | nil => simpa using h1
      | cons b bs' => simp
  | _ => simp [boundOK] at he

theorem steps_norm {jl : String} {Wt : List String} {c : Int} :
    ∀ (xs : List (Int × Stmt)), ClSteps jl Wt xs → ∀ (s t : St), s.alias = [] → Wj jl c s = some s →
      steps jl c xs s = some t → Wj jl c t = some t
  | [], _, s, t, _, hn, h => by simp [steps] at h; subst h; exact hn
  | x :: r, hc, s, t, hs, _, h => by
      simp only [steps] at h
      cases h1 : atom jl c x.1 x.2 s with
      | none => simp [h1] at h
      | some s1 =>
        simp only [h1, Option.bind_some] at h
        have hx := hc x (List.mem_cons_self ..)
        obtain ⟨y1, y2, hy1, hy2, hy3⟩ := atom_some h1
        have b1 := writeAt_alias _ _ hs _ _ _ hy1
        obtain ⟨a, is, v, _, hw⟩ := stepA_some hx hy2
        have b2 := writeAt_alias _ _ b1 _ _ _ hw
        exact steps_norm r (fun z hz => hc z (List.mem_cons_of_mem _ hz)) s1 t (atom_alias hx hs h1)
          (writeAt_idem b2 hy3) h

theorem exec_do {p : Program} {g : Nat} {jl : String} {lo hi : Ex} {S : List Stmt} {st st' : St} {sig : Sig}
    (h : execStmt p (g + 1) (.doLoop jl lo hi none S) st = .ok st' sig) :
    ∃ l h', (evalE st [] lo).bind asInt = some l ∧ (evalE st [] hi).bind asInt = some h' ∧
      doIter p g jl S 1 (tripCount l h' 1) l st = .ok st' sig := by
  simp only [execStmt] at h
  cases h1 : (evalE st [] lo).bind asInt with
  | none => simp [h1] at h
  | some l =>
    cases h2 : (evalE st [] hi).bind asInt with
    | none => simp [h1, h2] at h
    | some h' =>
      simp [h1, h2] at h
      exact ⟨l, h', rfl, rfl, h⟩

theorem exec_do_of {p : Program} {g : Nat} {jl : String} {lo hi : Ex} {S : List Stmt} {st : St} {r : Res} {l h' : Int}
    (h1 : (evalE st [] lo).bind asInt = some l) (h2 : (evalE st [] hi).bind asInt = some h')
    (h : doIter p g jl S 1 (tripCount l h' 1) l st = r) :
    execStmt p (g + 1) (.doLoop jl lo hi none S) st = r := by
  simp [execStmt, h1, h2, h]

theorem fusion_exec (p : Program) (jl : String) (lo hi : Ex) (S1 S2 : List Stmt)
    (hcl : columnLocal jl (S1 ++ S2) = true)
    (hlo : boundOK jl (targets (S1 ++ S2)) lo = true) (hhi : boundOK jl (targets (S1 ++ S2)) hi = true)
    (f : Nat) (st st' : St) (hs : st.alias = [])
    (h : execStmts p f [.doLoop jl lo hi none S1, .doLoop jl lo hi none S2] st = .ok st' .normal) :
    ∃ f', ∀ f'', f' ≤ f'' → execStmts p f'' [.doLoop jl lo hi none (S1 ++ S2)] st = .ok st' .normal := by
  simp only [columnLocal, Bool.and_eq_true] at hcl
  have hjl : ¬ jl ∈ targets (S1 ++ S2) := by simpa using hcl.1
  have h12 := hcl.2
  obtain ⟨hc1, hc2⟩ := clBody_append h12
  cases f with
  | zero => simp [execStmts] at h
  | succ f1 =>
    simp only [execStmts] at h
    cases e1 : execStmt p f1 (.doLoop jl lo hi none S1) st with
    | fuel => simp [e1] at h
    | err m => simp [e1] at h
    | ok stA sg =>
      cases f1 with
      | zero => simp [execStmt] at e1
      | succ f2 =>
        obtain ⟨l, hh, hl, hhh, hd1⟩ := exec_do e1
        obtain ⟨s0, hs0, hst1⟩ := loop_fwd p hjl hc1 _ _ _ _ _ _ hs hd1
        have sgn : sg = .normal := by
          cases sg with
          | normal => rfl
          | exit => simp [e1] at h
          | cycle => simp [e1] at h
        subst sgn
        simp only [e1, execStmts] at h
        cases e2 : execStmt p f2 (.doLoop jl lo hi none S2) stA with
        | fuel => simp [e2] at h
        | err m => simp [e2] at h
        | ok stB sg2 =>
          cases f2 with
          | zero => simp [execStmt] at e2
          | succ f3 =>
            have sgn2 : sg2 = .normal ∧ stB = st' := by
              cases sg2 with
              | normal =>
                simp only [e2] at h
                simp [execStmts] at h; exact ⟨rfl, h⟩
              | exit => simp [e2] at h
              | cycle => simp [e2] at h
            obtain ⟨rfl, rfl⟩ := sgn2
            obtain ⟨l2, hh2, hl2, hhh2, hd2⟩ := exec_do e2
            -- the state after the first loop
            have a0 : s0.alias = [] := writeAt_alias _ _ hs _ _ _ hs0
            obtain ⟨c, hc⟩ : ∃ c : Int, c = l + (tripCount l hh 1 : Nat) := ⟨_, rfl⟩
            rw [← hc] at hs0 hst1
            have aA : stA.alias = [] := steps_alias (loopSteps_cl hc1 _ _) a0 hst1
            have kA : Keeps jl (targets (S1 ++ S2)) st stA :=
              (Keeps.of_write hs (Or.inl rfl) hs0).trans (steps_keeps _ (loopSteps_cl hc1 _ _) s0 stA a0 hst1)
            -- same bounds
            have el : l = l2 := by
              rw [evalE_bound kA lo hlo, hl] at hl2; injection hl2 with hl2
            have eh : hh = hh2 := by
              rw [evalE_bound kA hi hhi, hhh] at hhh2; injection hhh2 with hhh2
            subst el; subst eh
            obtain ⟨s0b, hs0b, hst2⟩ := loop_fwd p hjl hc2 _ _ _ _ _ _ aA hd2
            rw [← hc] at hs0b hst2
            have nA : Wj jl c stA = some stA :=
              steps_norm _ (loopSteps_cl hc1 _ _) s0 stA a0 (writeAt_idem hs hs0) hst1
            rw [nA] at hs0b; injection hs0b with hs0b; subst hs0b
            have hall : steps jl c (loopSteps S1 (tripCount l hh 1) l ++ loopSteps S2 (tripCount l hh 1) l) s0 = some stB := by
              rw [steps_append, hst1]; exact hst2
            have hfused := fusion_steps hjl h12 _ _ _ _ a0 hall
            refine ⟨tripCount l hh 1 + (S1 ++ S2).length + 2 + 2, ?_⟩
            intro f'' hf''
            obtain ⟨g, rfl⟩ : ∃ g, f'' = g + 2 := ⟨f'' - 2, by omega⟩
            have hd := loop_bwd p hjl h12 (tripCount l hh 1) g l st s0 stB hs (by omega) (hc ▸ hs0) (hc ▸ hfused)
            have := exec_do_of (p := p) (g := g) (jl := jl) (S := S1 ++ S2) hl hhh hd
            simp [execStmts, this]

end LokiModel.C37
