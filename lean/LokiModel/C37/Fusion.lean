import LokiModel.C37.Atoms
/-!
# C37 — commutation of iteration steps of different columns and the fusion law on the fuel-free loop function
-/
namespace LokiModel.C37
open LokiModel.Fir
open LokiModel.Expr (Val)

/-- one assignment executed for column `j`, the loop variable being reset to `c` afterwards -/
def atom (jl : String) (c j : Int) (A : Stmt) (s : St) : Option St :=
  (Wj jl j s).bind fun s1 => (stepA s1 A).bind (Wj jl c)

theorem atom_some {jl : String} {c j : Int} {A : Stmt} {s t : St} (h : atom jl c j A s = some t) :
    ∃ s1 s2, Wj jl j s = some s1 ∧ stepA s1 A = some s2 ∧ Wj jl c s2 = some t := by
  unfold atom at h
  cases h1 : Wj jl j s with
  | none => simp [h1] at h
  | some s1 =>
    cases h2 : stepA s1 A with
    | none => simp [h1, h2] at h
    | some s2 => simp [h1, h2] at h; exact ⟨s1, s2, rfl, h2, h⟩

theorem atom_of {jl : String} {c j : Int} {A : Stmt} {s s1 s2 t : St} (h1 : Wj jl j s = some s1)
    (h2 : stepA s1 A = some s2) (h3 : Wj jl c s2 = some t) : atom jl c j A s = some t := by
  simp [atom, h1, h2, h3]

theorem stepA_some {Wt : List String} {jl : String} {A : Stmt} (hA : clStmt jl Wt A = true) {s s2 : St}
    (h : stepA s A = some s2) : ∃ a is v, evalA s A = some (a, is, v) ∧ writeAt s a is v = some s2 := by
  rw [stepA_eq s A jl Wt hA] at h
  cases he : evalA s A with
  | none => simp [he] at h
  | some p => obtain ⟨a, is, v⟩ := p; simp [he] at h; exact ⟨a, is, v, rfl, h⟩

theorem stepA_of {Wt : List String} {jl : String} {A : Stmt} (hA : clStmt jl Wt A = true) {s s2 : St}
    {a : String} {is : List Int} {v : Val} (he : evalA s A = some (a, is, v)) (hw : writeAt s a is v = some s2) :
    stepA s A = some s2 := by
  rw [stepA_eq s A jl Wt hA]; simp [he, hw]

theorem atom_alias {Wt : List String} {jl : String} {c j : Int} {A : Stmt} (hA : clStmt jl Wt A = true) {s t : St}
    (hs : s.alias = []) (h : atom jl c j A s = some t) : t.alias = [] := by
  obtain ⟨s1, s2, h1, h2, h3⟩ := atom_some h
  have a1 := writeAt_alias _ _ hs _ _ _ h1
  obtain ⟨a, is, v, _, hw⟩ := stepA_some hA h2
  have a2 := writeAt_alias _ _ a1 _ _ _ hw
  exact writeAt_alias _ _ a2 _ _ _ h3

theorem lk_writeAt_ne {s t : St} (hs : s.alias = []) {x y : String} {is : List Int} {v : Val}
    (h : writeAt s x is v = some t) (hxy : y ≠ x) : lk t.store y = lk s.store y := by
  obtain ⟨s', hw', rfl⟩ := (writeAt_iff s t hs x _ _).1 h
  obtain ⟨c0, c1, _, _, rfl⟩ := wrS_some hw'
  exact lk_setCell_ne _ _ _ _ (Ne.symm hxy)

theorem writeAt_transfer {s s' t : St} (hs : s.alias = []) (hs' : s'.alias = []) {a : String} {is : List Int} {v : Val}
    (hl : lk s'.store a = lk s.store a) (h : writeAt s a is v = some t) : ∃ t', writeAt s' a is v = some t' := by
  obtain ⟨s0, hw, rfl⟩ := (writeAt_iff s t hs a _ _).1 h
  obtain ⟨c, c', hl0, hu, rfl⟩ := wrS_some hw
  exact ⟨_, (writeAt_iff s' _ hs' a _ _).2 ⟨_, wrS_of (hl ▸ hl0) hu, rfl⟩⟩

/-- steps of different columns commute (as partial functions, in the direction needed; the statement is symmetric) -/
theorem atom_comm {Wt : List String} {jl : String} (hjl : ¬ jl ∈ Wt) {c j j' : Int} (hne : j ≠ j') {A B : Stmt}
    (hA : clStmt jl Wt A = true) (hB : clStmt jl Wt B = true) {s t : St} (hs : s.alias = [])
    (h : (atom jl c j A s).bind (atom jl c j' B) = some t) : (atom jl c j' B s).bind (atom jl c j A) = some t := by
  cases h3 : atom jl c j A s with
  | none => simp [h3] at h
  | some s3 =>
    simp only [h3, Option.bind_some] at h
    obtain ⟨s1, s2, hs1, hs2, hs3⟩ := atom_some h3
    obtain ⟨s4, s5, hs4, hs5, hs6⟩ := atom_some h
    have a1 : s1.alias = [] := writeAt_alias _ _ hs _ _ _ hs1
    obtain ⟨a, isA, vA, heA, hwA⟩ := stepA_some hA hs2
    have a2 : s2.alias = [] := writeAt_alias _ _ a1 _ _ _ hwA
    have a3 : s3.alias = [] := writeAt_alias _ _ a2 _ _ _ hs3
    have a4 : s4.alias = [] := writeAt_alias _ _ a3 _ _ _ hs4
    obtain ⟨b, isB, vB, heB, hwB⟩ := stepA_some hB hs5
    have a5 : s5.alias = [] := writeAt_alias _ _ a4 _ _ _ hwB
    -- shapes of the two targets
    have j1 : JlIs jl j s1 := Wj_JlIs hs hs1
    obtain ⟨haW, ksA, rfl⟩ := evalA_shape j1 hA heA
    have j4 : JlIs jl j' s4 := Wj_JlIs a3 hs4
    obtain ⟨hbW, ksB, rfl⟩ := evalA_shape j4 hB heB
    have hja : jl ≠ a := fun e => hjl (e ▸ haW)
    have hjb : jl ≠ b := fun e => hjl (e ▸ hbW)
    -- W j' s2 = s4
    have e1 : Wj jl j' s2 = some s4 := by
      have := writeAt_absorb a2 (.int j') hs3
      unfold Wj at hs4 ⊢; rw [← this]; exact hs4
    -- move W j' before the write of A
    obtain ⟨u1, hu1, hu1A⟩ := writeAt_comm_name a1 (Ne.symm hja) hwA e1
    have e2 : Wj jl j' s = some u1 := by
      have := writeAt_absorb hs (.int j') hs1
      unfold Wj at hs1 ⊢; rw [← this]; exact hu1
    have b1 : u1.alias = [] := writeAt_alias _ _ hs _ _ _ e2
    have ju1 : JlIs jl j' u1 := Wj_JlIs hs e2
    -- B sees the same values in u1 as in s4
    have F1 : Frame Wt j u1 s4 := Frame.of_write b1 haW hu1A
    have heB' : evalA u1 B = some (b, j' :: ksB, vB) := by
      rw [← evalA_frame F1 ju1 (Ne.symm hne) B hB]; exact heB
    -- the write of B before the write of A
    obtain ⟨u2, hu2, hu2A⟩ : ∃ u2, writeAt u1 b (j' :: ksB) vB = some u2 ∧ writeAt u2 a (j :: ksA) vA = some s5 := by
      by_cases hab : a = b
      · subst hab; exact writeAt_comm_head b1 hne hu1A hwB
      · exact writeAt_comm_name b1 hab hu1A hwB
    have b2 : u2.alias = [] := writeAt_alias _ _ b1 _ _ _ hu2
    have hstepB : stepA u1 B = some u2 := stepA_of hB heB' hu2
    -- W c after B
    obtain ⟨u3, hu3, hu3A⟩ := writeAt_comm_name b2 (Ne.symm hja) hu2A hs6
    have b3 : u3.alias = [] := writeAt_alias _ _ b2 _ _ _ hu3
    have hatomB : atom jl c j' B s = some u3 := atom_of e2 hstepB hu3
    -- now the step of A from u3
    obtain ⟨u4, hu4⟩ := Wj_total b3 (show Wj jl c u3 = some u3 from writeAt_idem b2 hu3) j
    have b4 : u4.alias = [] := writeAt_alias _ _ b3 _ _ _ hu4
    -- u4 is s1 plus the write of B
    have e3 : Wj jl j u2 = some u4 := by
      have := writeAt_absorb b2 (.int j) hu3
      unfold Wj at hu4 ⊢; rw [← this]; exact hu4
    obtain ⟨w1, hw1, hw1B⟩ := writeAt_comm_name b1 (Ne.symm hjb) hu2 e3
    have e4 : w1 = s1 := by
      have := writeAt_absorb hs (.int j) e2
      unfold Wj at hs1; rw [this, hs1] at hw1; injection hw1 with hw1; exact hw1.symm
    subst e4
    have F2 : Frame Wt j' w1 u4 := Frame.of_write a1 hbW hw1B
    have heA' : evalA u4 A = some (a, j :: ksA, vA) := by
      rw [evalA_frame F2 j1 hne A hA]; exact heA
    -- the write of A in u4 exists (same cell of `a` as in u3) …
    have hlk : lk u4.store a = lk u3.store a := lk_writeAt_ne b3 hu4 (Ne.symm hja)
    obtain ⟨u5, hu5⟩ := writeAt_transfer b3 b4 hlk hu3A
    -- … and resetting the loop variable afterwards gives t
    obtain ⟨x, hx1, hx2⟩ := writeAt_comm_name b3 hja hu4 hu5
    rw [hu3A] at hx1; injection hx1 with hx1; subst hx1
    have i3 : Wj jl c u3 = some u3 := writeAt_idem b2 hu3
    obtain ⟨y, hy1, hy2⟩ := writeAt_comm_name b3 hja i3 hu3A
    rw [hu3A] at hy1; injection hy1 with hy1; subst hy1
    have at_ : t.alias = [] := writeAt_alias _ _ b3 _ _ _ hu3A
    have e5 : Wj jl c u5 = some t := by
      have := writeAt_absorb at_ (.int c) hx2
      unfold Wj; rw [this]; exact hy2
    have hatomA : atom jl c j A u3 = some t := atom_of hu4 (stepA_of hA heA' hu5) e5
    simp [hatomB, hatomA]

end LokiModel.C37
