import LokiModel.Fir.Sem
/-!
# C37 — store lemmas for the FIR semantics (states without ASSOCIATE aliases)

`readAt` / `writeAt` on states whose association table is empty (the situation at the statement level of a unit after
`do_resolve_associates`, which SCCBase applies first): reading after writing elsewhere, writes to different places commute,
a repeated write to the same place absorbs the first one.
-/
namespace LokiModel.C37
open LokiModel.Fir
open LokiModel.Expr (Val)

abbrev Store := List (String × Cell)

def lk (s : Store) (x : String) : Option Cell := (s.find? (·.1 == x)).map (·.2)

theorem lookupCell_eq (st : St) (x : String) : lookupCell st x = lk st.store x := rfl

theorem lk_cons (z : String) (d : Cell) (rest : Store) (y : String) :
    lk ((z, d) :: rest) y = if (z == y) = true then some d else lk rest y := by
  by_cases h : (z == y) = true <;> simp [lk, List.find?, h]

theorem lk_nil (y : String) : lk [] y = none := rfl

theorem lk_setCell_same (s : Store) (x : String) (c : Cell) : lk (setCell s x c) x = some c := by
  induction s with
  | nil => simp [setCell, lk]
  | cons p rest ih =>
    obtain ⟨y, d⟩ := p
    by_cases hy : (y == x) = true
    · simp [setCell, hy, lk_cons]
    · simp [setCell, hy, lk_cons, ih]

theorem lk_setCell_ne (s : Store) (x y : String) (c : Cell) (h : x ≠ y) : lk (setCell s x c) y = lk s y := by
  induction s with
  | nil =>
    have : (x == y) = false := by simpa using h
    simp [setCell, lk_cons, lk_nil, this]
  | cons p rest ih =>
    obtain ⟨z, d⟩ := p
    by_cases hz : (z == x) = true
    · have hzx : z = x := by simpa using hz
      have : (x == y) = false := by simpa using h
      subst hzx
      simp [setCell, lk_cons, this]
    · by_cases hzy : (z == y) = true
      · simp [setCell, hz, lk_cons, hzy]
      · simp [setCell, hz, lk_cons, hzy, ih]

/-- overwriting an existing key twice keeps the second value -/
theorem setCell_setCell (s : Store) (x : String) (c d : Cell) : setCell (setCell s x c) x d = setCell s x d := by
  induction s with
  | nil => simp [setCell]
  | cons p rest ih =>
    obtain ⟨y, e⟩ := p
    by_cases hy : (y == x) = true
    · simp [setCell, hy]
    · simp [setCell, hy, ih]

/-- writing back the value already stored changes nothing -/
theorem setCell_same (s : Store) (x : String) (c : Cell) (h : lk s x = some c) : setCell s x c = s := by
  induction s with
  | nil => simp [lk_nil] at h
  | cons p rest ih =>
    obtain ⟨y, e⟩ := p
    by_cases hy : (y == x) = true
    · have hyx : y = x := by simpa using hy
      simp only [lk_cons, hy, if_true] at h
      simp only [setCell, hy, if_true]
      injection h with h; subst h; subst hyx; rfl
    · simp only [lk_cons, hy] at h
      simp only [setCell, hy]
      have := ih (by simpa using h)
      simp [this]

/-- writes to two different existing keys commute -/
theorem setCell_comm (s : Store) (x y : String) (c d : Cell) (h : x ≠ y)
    (hx : (lk s x).isSome) (hy : (lk s y).isSome) :
    setCell (setCell s x c) y d = setCell (setCell s y d) x c := by
  induction s with
  | nil => simp [lk_nil] at hx
  | cons p rest ih =>
    obtain ⟨z, e⟩ := p
    by_cases hzx : (z == x) = true
    · have hz : z = x := by simpa using hzx
      subst hz
      have hzy : (z == y) = false := by simpa using h
      have hyz : (y == z) = false := by simpa using (Ne.symm h)
      simp [setCell, hzy, hyz]
    · by_cases hzy : (z == y) = true
      · have hz : z = y := by simpa using hzy
        subst hz
        have hxz : (x == z) = false := by simpa using h
        simp [setCell, hzx, hxz]
      · simp only [lk_cons, hzx] at hx
        simp only [lk_cons, hzy] at hy
        simp [setCell, hzx, hzy, ih (by simpa using hx) (by simpa using hy)]

end LokiModel.C37
