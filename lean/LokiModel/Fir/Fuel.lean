import LokiModel.Fir.Sem
/-!
# Fuel monotonicity of the FIR interpreter

If a run finishes (with a state or an error) with fuel `f`, it finishes identically with any larger fuel.
This is what lets theorems about transformed programs combine the fuel needs of their parts.
-/
namespace LokiModel.Fir

def Res.isFuel : Res → Bool
  | .fuel => true
  | _ => false

/-- one-step statement: all four mutually recursive functions agree between fuel `f` and `f+1` when the run with `f` finishes -/
structure Mono (p : Program) (f : Nat) : Prop where
  stmts : ∀ ss st, (execStmts p f ss st).isFuel = false → execStmts p (f + 1) ss st = execStmts p f ss st
  stmt : ∀ s st, (execStmt p f s st).isFuel = false → execStmt p (f + 1) s st = execStmt p f s st
  doI : ∀ v body step n cur st, (doIter p f v body step n cur st).isFuel = false →
      doIter p (f + 1) v body step n cur st = doIter p f v body step n cur st
  whileI : ∀ c body st, (whileIter p f c body st).isFuel = false →
      whileIter p (f + 1) c body st = whileIter p f c body st

theorem mono_zero (p : Program) : Mono p 0 := by
  constructor
  · intro ss st h; simp [execStmts, Res.isFuel] at h
  · intro s st h; simp [execStmt, Res.isFuel] at h
  · intro v body step n cur st h; simp [doIter, Res.isFuel] at h
  · intro c body st h; simp [whileIter, Res.isFuel] at h

theorem mono_succ (p : Program) (f : Nat) (ih : Mono p f) : Mono p (f + 1) := by
  constructor
  · -- execStmts
    intro ss st h
    cases ss with
    | nil => simp [execStmts]
    | cons s rest =>
      simp only [execStmts] at h ⊢
      cases hs : execStmt p f s st with
      | fuel => rw [hs] at h; simp [Res.isFuel] at h
      | err m => rw [ih.stmt s st (by rw [hs]; rfl), hs]
      | ok st' sig =>
        rw [ih.stmt s st (by rw [hs]; rfl), hs]
        rw [hs] at h
        cases sig with
        | normal => exact ih.stmts rest st' h
        | exit => rfl
        | cycle => rfl
  · -- execStmt
    intro s st h
    cases s with
    | assign lhs rhs => simp [execStmt]
    | doLoop v lo hi step body =>
      simp only [execStmt] at h ⊢
      generalize (evalE st [] lo).bind asInt = a at h ⊢
      generalize (evalE st [] hi).bind asInt = b at h ⊢
      cases step with
      | none =>
        cases a <;> cases b <;> try rfl
        rename_i l hh
        simp only at h ⊢
        exact ih.doI _ _ _ _ _ _ (by simpa using h)
      | some e =>
        simp only at h ⊢
        generalize (evalE st [] e).bind asInt = c at h ⊢
        cases a <;> cases b <;> cases c <;> try rfl
        rename_i l hh s
        simp only at h ⊢
        by_cases hs0 : s = 0
        · simp [hs0]
        · simp only [hs0, if_false] at h ⊢
          exact ih.doI _ _ _ _ _ _ h
    | «while» c body =>
      simp only [execStmt] at h ⊢
      exact ih.whileI _ _ _ h
    | ifte c thn els =>
      simp only [execStmt] at h ⊢
      split
      · rename_i heq; simp only [heq] at h; exact ih.stmts _ _ h
      · rename_i heq; simp only [heq] at h; exact ih.stmts _ _ h
      · rfl
    | select e cases dflt =>
      simp only [execStmt] at h ⊢
      split
      · rename_i i heq
        simp only [heq] at h
        split
        · rename_i c hc; simp only [hc] at h; exact ih.stmts _ _ h
        · rename_i hc; simp only [hc] at h; exact ih.stmts _ _ h
      · rfl
    | assoc binds body =>
      simp only [execStmt] at h ⊢
      split
      · rename_i st1 heq
        simp only [heq] at h
        cases hb : execStmts p f body st1 with
        | fuel => rw [hb] at h; simp [Res.isFuel] at h
        | err m => rw [ih.stmts body st1 (by rw [hb]; rfl), hb]
        | ok st2 sig => rw [ih.stmts body st1 (by rw [hb]; rfl), hb]
      · rfl
    | callSub g args =>
      simp only [execStmt] at h ⊢
      split
      · rfl
      · rename_i u hu
        simp only [hu] at h
        split
        · rfl
        · rename_i hlen
          simp only [hlen, if_false] at h
          split
          · rfl
          · rename_i fargs hfa
            simp only [hfa] at h
            split
            · rfl
            · rename_i cs hcs
              simp only [hcs] at h
              cases hb : execStmts p f u.body cs with
              | fuel => rw [hb] at h; simp [Res.isFuel] at h
              | err m => rw [ih.stmts u.body cs (by rw [hb]; rfl), hb]
              | ok st2 sig => rw [ih.stmts u.body cs (by rw [hb]; rfl), hb]
    | print args => simp [execStmt]
    | exit => simp [execStmt]
    | cycle => simp [execStmt]
    | nop k t => simp [execStmt]
  · -- doIter
    intro v body step n cur st h
    simp only [doIter] at h ⊢
    split
    · rfl
    · rename_i st1 hw
      simp only [hw] at h
      cases n with
      | zero => rfl
      | succ n' =>
        simp only at h ⊢
        cases hb : execStmts p f body st1 with
        | fuel => rw [hb] at h; simp [Res.isFuel] at h
        | err m => rw [ih.stmts body st1 (by rw [hb]; rfl), hb]
        | ok st2 sig =>
          rw [ih.stmts body st1 (by rw [hb]; rfl), hb]
          rw [hb] at h
          cases sig with
          | exit => rfl
          | normal => exact ih.doI _ _ _ _ _ _ h
          | cycle => exact ih.doI _ _ _ _ _ _ h
  · -- whileIter
    intro c body st h
    simp only [whileIter] at h ⊢
    split
    · rename_i heq
      simp only [heq] at h
      cases hb : execStmts p f body st with
      | fuel => rw [hb] at h; simp [Res.isFuel] at h
      | err m => rw [ih.stmts body st (by rw [hb]; rfl), hb]
      | ok st2 sig =>
        rw [ih.stmts body st (by rw [hb]; rfl), hb]
        rw [hb] at h
        cases sig with
        | exit => rfl
        | normal => exact ih.whileI _ _ _ h
        | cycle => exact ih.whileI _ _ _ h
    · rfl
    · rfl

theorem mono (p : Program) : ∀ f, Mono p f
  | 0 => mono_zero p
  | f + 1 => mono_succ p f (mono p f)

/-- **fuel monotonicity**: a finished run is reproduced with any larger fuel -/
theorem execStmts_mono (p : Program) {f f' : Nat} (hle : f ≤ f') (ss : List Stmt) (st : St)
    (h : (execStmts p f ss st).isFuel = false) : execStmts p f' ss st = execStmts p f ss st := by
  induction hle with
  | refl => rfl
  | step hle ih => rw [(mono p _).stmts ss st (by rw [ih]; exact h), ih]

theorem execStmt_mono (p : Program) {f f' : Nat} (hle : f ≤ f') (s : Stmt) (st : St)
    (h : (execStmt p f s st).isFuel = false) : execStmt p f' s st = execStmt p f s st := by
  induction hle with
  | refl => rfl
  | step hle ih => rw [(mono p _).stmt s st (by rw [ih]; exact h), ih]

theorem doIter_mono (p : Program) {f f' : Nat} (hle : f ≤ f') (v body step n cur st)
    (h : (doIter p f v body step n cur st).isFuel = false) :
    doIter p f' v body step n cur st = doIter p f v body step n cur st := by
  induction hle with
  | refl => rfl
  | step hle ih => rw [(mono p _).doI v body step n cur st (by rw [ih]; exact h), ih]

end LokiModel.Fir
