import LokiModel.Fir.Sem
/-!
# Substitution of a scalar variable in FIR expressions and statements

`substE x r e` replaces every occurrence of the scalar variable `x` in `e` by `r`.
`evalE_subst`: if in state `st` the expression `r` has (at every position) the value that reading `x` yields, the substituted
expression evaluates like the original — the lemma behind loop unrolling, parametrisation, inlining and associate resolution.
-/
namespace LokiModel.Fir
open LokiModel.Expr (Val)

mutual
def substE (x : String) (r : Ex) : Ex → Ex
  | .lit v => .lit v
  | .var y => if y == x then r else .var y
  | .idx y subs => .idx y (substEs x r subs)
  | .sec y dims => .sec y (substDims x r dims)
  | .neg a => .neg (substE x r a)
  | .not a => .not (substE x r a)
  | .bin o a b => .bin o (substE x r a) (substE x r b)
  | .call f args => .call f (substEs x r args)
def substEs (x : String) (r : Ex) : List Ex → List Ex
  | [] => []
  | e :: es => substE x r e :: substEs x r es
def substDims (x : String) (r : Ex) : List Dim → List Dim
  | [] => []
  | .at e :: ds => .at (substE x r e) :: substDims x r ds
  | .rng lo hi st :: ds => .rng (substO x r lo) (substO x r hi) (substO x r st) :: substDims x r ds
def substO (x : String) (r : Ex) : Option Ex → Option Ex
  | none => none
  | some e => some (substE x r e)
end

/-- `x` denotes a scalar with a defined value that `r` reproduces at every position -/
structure SubstOK (st : St) (x : String) (r : Ex) : Prop where
  scalar : boundsOf st x = none
  same : ∀ pos, evalE st pos r = readAt st x []

mutual
theorem evalE_subst {st : St} {x : String} {r : Ex} (h : SubstOK st x r) :
    ∀ (e : Ex) (pos : List Nat), evalE st pos (substE x r e) = evalE st pos e
  | .lit v, pos => by simp [substE]
  | .var y, pos => by
      by_cases hy : (y == x) = true
      · have : y = x := by simpa using hy
        subst this
        simp only [substE, hy, if_true]
        rw [h.same pos]
        simp [evalE, h.scalar]
      · simp [substE, hy]
  | .idx y subs, pos => by simp only [substE, evalE]; rw [evalIdx_subst h subs pos]
  | .sec y dims, pos => by
      simp only [substE, evalE]
      cases boundsOf st y with
      | none => rfl
      | some bs => simp only [Option.bind_eq_bind, Option.bind]; rw [evalSec_subst h dims bs pos pos]
  | .neg a, pos => by simp only [substE, evalE]; rw [evalE_subst h a pos]
  | .not a, pos => by simp only [substE, evalE]; rw [evalE_subst h a pos]
  | .bin o a b, pos => by simp only [substE, evalE]; rw [evalE_subst h a pos, evalE_subst h b pos]
  | .call f args, pos => by simp only [substE, evalE]; rw [evalArgs_subst h args pos]
theorem evalIdx_subst {st : St} {x : String} {r : Ex} (h : SubstOK st x r) :
    ∀ (es : List Ex) (pos : List Nat), evalIdx st pos (substEs x r es) = evalIdx st pos es
  | [], pos => by simp [substEs]
  | e :: es, pos => by simp only [substEs, evalIdx]; rw [evalE_subst h e pos, evalIdx_subst h es pos]
theorem evalArgs_subst {st : St} {x : String} {r : Ex} (h : SubstOK st x r) :
    ∀ (es : List Ex) (pos : List Nat), evalArgs st pos (substEs x r es) = evalArgs st pos es
  | [], pos => by simp [substEs]
  | e :: es, pos => by simp only [substEs, evalArgs]; rw [evalE_subst h e pos, evalArgs_subst h es pos]
theorem evalSec_subst {st : St} {x : String} {r : Ex} (h : SubstOK st x r) :
    ∀ (ds : List Dim) (bs : List (Int × Int)) (pos ks : List Nat),
      evalSec st pos bs (substDims x r ds) ks = evalSec st pos bs ds ks
  | [], bs, pos, ks => by simp [substDims]
  | .at e :: ds, bs, pos, ks => by
      cases bs with
      | nil => simp [substDims, evalSec]
      | cons b bs' => simp only [substDims, evalSec]; rw [evalE_subst h e pos, evalSec_subst h ds bs' pos ks]
  | .rng lo hi stp :: ds, bs, pos, ks => by
      cases bs with
      | nil => simp [substDims, evalSec]
      | cons b bs' =>
        cases ks with
        | nil => simp [substDims, evalSec]
        | cons k ks' =>
          have ihd := evalSec_subst h ds bs' pos ks'
          cases lo with
          | none =>
            cases stp with
            | none => simp only [substDims, substO, evalSec, ihd]
            | some s => simp only [substDims, substO, evalSec, ihd, evalE_subst h s pos]
          | some l =>
            cases stp with
            | none => simp only [substDims, substO, evalSec, ihd, evalE_subst h l pos]
            | some s => simp only [substDims, substO, evalSec, ihd, evalE_subst h l pos, evalE_subst h s pos]
end

end LokiModel.Fir
