import LokiModel.Expr.Basic
/-!
# Mini-Fortran (FIR): the shared program model for C01/C02/C26–C41

A small, typed, structured subset of Fortran: integer/real/logical scalars and explicit-shape arrays
(any lower bounds), expressions with array elements and sections, assignments (scalar, element, section),
counted DO loops (trip count fixed at entry), DO WHILE, IF/ELSE, SELECT CASE on integers, ASSOCIATE,
PRINT, EXIT, CYCLE, calls to other units (copy-in/copy-out, which is what by-reference passing means for
standard-conforming, alias-free programs), comments and pragmas (no-ops).
Names are lower-case strings (the exporter folds case).  Core Lean only.
-/
namespace LokiModel.Fir
open LokiModel.Expr (Val CmpOp)

inductive Ty where
  | int | real | logical
deriving Repr, DecidableEq, Inhabited

inductive BinOp where
  | add | sub | mul | div | pow | cmp (o : CmpOp) | and | or
deriving Repr, DecidableEq, Inhabited

mutual
/-- expressions; `sec` is an array section (array valued), everything else is elementwise -/
inductive Ex where
  | lit (v : Val)
  | var (x : String)                       -- scalar variable, or a whole array when used as section/actual
  | idx (x : String) (subs : List Ex)      -- array element
  | sec (x : String) (dims : List Dim)     -- array section
  | neg (a : Ex)
  | not (a : Ex)
  | bin (o : BinOp) (a b : Ex)
  | call (f : String) (args : List Ex)     -- intrinsic function: mod min max abs
/-- one subscript position of a section: a single index or a triplet `lo:hi:step` (absent = declared bound / 1) -/
inductive Dim where
  | at (e : Ex)
  | rng (lo hi step : Option Ex)
end

inductive Intent where
  | in_ | out | inout | none
deriving Repr, DecidableEq, Inhabited

structure Decl where
  name : String
  ty : Ty
  dims : List (Ex × Ex)        -- (lower, upper) per dimension; [] = scalar
  intent : Intent := .none     -- for dummy arguments
  param : Option Ex := none    -- PARAMETER initial value

inductive Stmt where
  | assign (lhs : Ex) (rhs : Ex)           -- lhs is var / idx / sec
  | doLoop (v : String) (lo hi : Ex) (step : Option Ex) (body : List Stmt)
  | while (c : Ex) (body : List Stmt)
  | ifte (c : Ex) (thn els : List Stmt)
  | select (e : Ex) (cases : List (List Int × List Stmt)) (dflt : List Stmt)
  | assoc (binds : List (String × Ex)) (body : List Stmt)
  | callSub (f : String) (args : List Ex)
  | print (args : List Ex)
  | exit
  | cycle
  | nop (kind : String) (text : String)    -- comment / pragma

structure Unit where
  name : String
  args : List String
  decls : List Decl
  body : List Stmt

structure Program where
  units : List Unit
  main : String

end LokiModel.Fir
