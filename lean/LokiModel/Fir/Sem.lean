import LokiModel.Fir.Syntax
/-!
# FIR semantics: an executable big-step interpreter (fuel bounded)

Reference semantics (my reading of the Fortran standard, tied to gfortran by the harness):
* values and scalar operators are those of `LokiModel.Expr` (`Val`, truncating integer division, mixed mode, …);
* assignment converts to the declared type of the target (real → integer truncates toward zero);
* `DO v = lo, hi, step`: bounds and trip count `max 0 ((hi - lo + step) / step)` are fixed at entry; `v` is set at the
  start of each iteration and holds `lo + trips*step` after normal termination; `EXIT` leaves `v` as it is;
* array assignment evaluates the whole right-hand side before storing anything;
* `ASSOCIATE` binds the *location* of a variable/element/section selector (and the *value* of any other expression) at entry;
* calls are copy-in/copy-out in dummy order (by-reference semantics for alias-free conforming programs); array actuals are
  sequence associated (flat copy);
* reading an undefined variable, an out-of-bounds subscript, a type error, division by zero are errors (`Res.err`).
Core Lean only; no `partial`.
-/
namespace LokiModel.Fir
open LokiModel.Expr (Val CmpOp)

inductive Cell where
  | scalar (ty : Ty) (v : Option Val)
  | array (ty : Ty) (bounds : List (Int × Int)) (data : List (Option Val))
deriving Repr, Inhabited

/-- where an ASSOCIATE name points -/
inductive Loc where
  | whole (x : String)
  | elem (x : String) (idx : List Int)
  | section (x : String) (dims : List (Int × Option (Int × Int)))   -- per target dimension: fixed index, or (lo, step) of a triplet
deriving Repr, Inhabited

structure St where
  store : List (String × Cell)
  alias : List (String × Loc) := []
  out : List (List Val) := []
deriving Repr, Inhabited

inductive Sig where
  | normal | exit | cycle
deriving Repr, DecidableEq, Inhabited

inductive Res where
  | ok (s : St) (sig : Sig)
  | err (msg : String)
  | fuel
deriving Repr, Inhabited

/-! ### stores -/

def lookupCell (st : St) (x : String) : Option Cell := (st.store.find? (·.1 == x)).map (·.2)

def setCell (store : List (String × Cell)) (x : String) (c : Cell) : List (String × Cell) :=
  match store with
  | [] => [(x, c)]
  | (y, d) :: rest => if y == x then (x, c) :: rest else (y, d) :: setCell rest x c

def lookupAlias (st : St) (x : String) : Option Loc := (st.alias.find? (·.1 == x)).map (·.2)

/-- column-major offset of an index tuple, bounds checked -/
def offset : List (Int × Int) → List Int → Option Nat
  | [], [] => some 0
  | (lo, hi) :: bs, i :: is =>
      if lo ≤ i ∧ i ≤ hi then (offset bs is).map fun r => (i - lo).toNat + (hi - lo + 1).toNat * r else none
  | _, _ => none

def extent (b : Int × Int) : Nat := (b.2 - b.1 + 1).toNat
def sizeOf' (bs : List (Int × Int)) : Nat := bs.foldl (fun a b => a * extent b) 1

/-- conversion on assignment to a variable of type `ty` -/
def coerce (ty : Ty) (v : Val) : Option Val :=
  match ty, v with
  | .int, .int i => some (.int i)
  | .int, .real q => some (.int (q.num.tdiv q.den))
  | .real, .int i => some (.real i)
  | .real, .real q => some (.real q)
  | .logical, .bool b => some (.bool b)
  | _, _ => none

/-- resolve a (possibly associated) name and subscripts to a real cell name and index tuple -/
def resolve (st : St) (x : String) (subs : List Int) : Option (String × List Int) :=
  match lookupAlias st x with
  | none => some (x, subs)
  | some (.whole y) => some (y, subs)
  | some (.elem y idx) => if subs.isEmpty then some (y, idx) else none
  | some (.section y dims) =>
      let rec go : List (Int × Option (Int × Int)) → List Int → Option (List Int)
        | [], [] => some []
        | (i, none) :: ds, ss => (go ds ss).map (i :: ·)
        | (_, some (lo, step)) :: ds, s :: ss => (go ds ss).map ((lo + (s - 1) * step) :: ·)
        | _, _ => none
      (go dims subs).map fun idx => (y, idx)

def readAt (st : St) (x : String) (subs : List Int) : Option Val := do
  let (y, idx) ← resolve st x subs
  match ← lookupCell st y with
  | .scalar _ v => if idx.isEmpty then v else none
  | .array _ bs data => do
      let o ← offset bs idx
      (← data[o]?)

def writeAt (st : St) (x : String) (subs : List Int) (v : Val) : Option St := do
  let (y, idx) ← resolve st x subs
  match ← lookupCell st y with
  | .scalar ty _ =>
      if idx.isEmpty then do
        let v' ← coerce ty v
        pure { st with store := setCell st.store y (.scalar ty (some v')) }
      else none
  | .array ty bs data => do
      let o ← offset bs idx
      let v' ← coerce ty v
      if o < data.length then pure { st with store := setCell st.store y (.array ty bs (data.set o (some v'))) } else none

/-- bounds of the array a name denotes, as seen through associations (`none` for scalars) -/
def boundsOf (st : St) (x : String) : Option (List (Int × Int)) :=
  match lookupAlias st x with
  | some (.elem _ _) => none
  | some (.section y dims) =>
      -- an associated section has lower bound 1 and unknown extents here; extents are stored in the triplets' absence,
      -- so the harness only uses explicit subscripts on associated sections
      match lookupCell st y with
      | some (.array _ _ _) => some (dims.filterMap fun d => d.2.map fun _ => ((1 : Int), (1 : Int)))
      | _ => none
  | some (.whole y) => match lookupCell st y with | some (.array _ bs _) => some bs | _ => none
  | none => match lookupCell st x with | some (.array _ bs _) => some bs | _ => none

/-! ### expressions -/

def tripCount (lo hi step : Int) : Nat := ((hi - lo + step).tdiv step).toNat

def asInt : Val → Option Int
  | .int i => some i
  | _ => none

def applyBin (o : BinOp) (a b : Val) : Option Val :=
  match o with
  | .add => Val.add a b | .sub => Val.sub a b | .mul => Val.mul a b | .div => Val.div a b | .pow => Val.pow a b
  | .cmp c => Val.cmp c a b | .and => Val.land a b | .or => Val.lor a b

def vmin (a b : Val) : Option Val := do
  match ← Val.cmp .le a b with
  | .bool true => (Val.add a (.int 0)).bind fun _ => match a, b with
      | .int _, .real _ => (Val.add a (.real 0))
      | _, _ => some a
  | _ => match a, b with
      | .real _, .int _ => (Val.add b (.real 0))
      | _, _ => some b

def vmax (a b : Val) : Option Val := do
  match ← Val.cmp .ge a b with
  | .bool true => match a, b with
      | .int _, .real _ => (Val.add a (.real 0))
      | _, _ => some a
  | _ => match a, b with
      | .real _, .int _ => (Val.add b (.real 0))
      | _, _ => some b

def applyIntrinsic (f : String) (args : List Val) : Option Val :=
  match f, args with
  | "mod", [.int a, .int b] => if b = 0 then none else some (.int (a - a.tdiv b * b))
  | "abs", [.int a] => some (.int a.natAbs)
  | "abs", [.real q] => some (.real (if q < 0 then -q else q))
  | "min", a :: rest => rest.foldlM vmin a
  | "max", a :: rest => rest.foldlM vmax a
  | "real", [.int a] => some (.real a)
  | "real", [.real q] => some (.real q)
  | "int", [.int a] => some (.int a)
  | "int", [.real q] => some (.int (q.num.tdiv q.den))
  | _, _ => none

mutual
/-- value of a scalar expression (`pos` = current element position inside an array assignment, one 0-based
counter per triplet dimension of the left-hand side) -/
def evalE (st : St) (pos : List Nat) : Ex → Option Val
  | .lit v => some v
  | .var x =>
      match boundsOf st x with
      | some bs =>
          -- whole array inside an array assignment: the element at `pos`
          if bs.length = pos.length then
            readAt st x ((bs.zip pos).map fun (b, k) => b.1 + (k : Int))
          else none
      | none => readAt st x []
  | .idx x subs => do
      let is ← evalIdx st pos subs
      readAt st x is
  | .sec x dims => do
      let bs ← boundsOf st x
      let is ← evalSec st pos bs dims pos
      readAt st x is
  | .neg a => (evalE st pos a).bind Val.neg
  | .not a => (evalE st pos a).bind Val.lnot
  | .bin o a b => do
      let va ← evalE st pos a
      let vb ← evalE st pos b
      applyBin o va vb
  | .call f args => do
      let vs ← evalArgs st pos args
      applyIntrinsic f vs
def evalIdx (st : St) (pos : List Nat) : List Ex → Option (List Int)
  | [] => some []
  | e :: es => do
      let v ← evalE st pos e
      let i ← asInt v
      let r ← evalIdx st pos es
      pure (i :: r)
def evalArgs (st : St) (pos : List Nat) : List Ex → Option (List Val)
  | [] => some []
  | e :: es => do
      let v ← evalE st pos e
      let r ← evalArgs st pos es
      pure (v :: r)
/-- the element of a section selected by the remaining position counters `ks` (one per triplet) -/
def evalSec (st : St) (pos : List Nat) : List (Int × Int) → List Dim → List Nat → Option (List Int)
  | [], [], _ => some []
  | _ :: bs, .at e :: ds, ks => do
      let v ← evalE st pos e
      let i ← asInt v
      let r ← evalSec st pos bs ds ks
      pure (i :: r)
  | b :: bs, .rng lo _ step :: ds, k :: ks => do
      let l ← match lo with
        | some e => (evalE st pos e).bind asInt
        | none => some b.1
      let s ← match step with
        | some e => (evalE st pos e).bind asInt
        | none => some 1
      let r ← evalSec st pos bs ds ks
      pure ((l + (k : Int) * s) :: r)
  | _, _, _ => none
end

/-- number of elements along each triplet dimension of a section (or whole array) used as assignment target -/
def secShape (st : St) (bs : List (Int × Int)) : List Dim → Option (List Nat)
  | [] => if bs.isEmpty then some [] else none
  | .at _ :: ds => match bs with
      | _ :: bs' => secShape st bs' ds
      | [] => none
  | .rng lo hi step :: ds => match bs with
      | b :: bs' => do
          let l ← match lo with | some e => (evalE st [] e).bind asInt | none => some b.1
          let h ← match hi with | some e => (evalE st [] e).bind asInt | none => some b.2
          let s ← match step with | some e => (evalE st [] e).bind asInt | none => some 1
          if s = 0 then none else
          let r ← secShape st bs' ds
          pure (tripCount l h s :: r)
      | [] => none

/-- all position tuples of a shape, first dimension fastest (array element order) -/
def positions : List Nat → List (List Nat)
  | [] => [[]]
  | n :: ns => (positions ns).flatMap fun p => (List.range n).map fun k => k :: p

/-! ### statements -/

def bindLoc (st : St) (e : Ex) : Option (Option Loc) :=
  match e with
  | .var x => match lookupAlias st x with
      | some l => some (some l)
      | none => some (some (.whole x))
  | .idx x subs => do
      let is ← evalIdx st [] subs
      let (y, idx) ← resolve st x is
      pure (some (.elem y idx))
  | .sec x dims =>
      match lookupAlias st x with
      | some _ => none        -- sections of associated names are outside the model
      | none => do
          let bs ← boundsOf st x
          let rec go : List (Int × Int) → List Dim → Option (List (Int × Option (Int × Int)))
            | [], [] => some []
            | _ :: bs, .at e :: ds => do
                let i ← (evalE st [] e).bind asInt
                let r ← go bs ds
                pure ((i, none) :: r)
            | b :: bs, .rng lo _ step :: ds => do
                let l ← match lo with | some e => (evalE st [] e).bind asInt | none => some b.1
                let s ← match step with | some e => (evalE st [] e).bind asInt | none => some 1
                let r ← go bs ds
                pure ((l, some (l, s)) :: r)
            | _, _ => none
          (go bs dims).map fun d => some (.section x d)
  | _ => some none

def assignStmt (st : St) (lhs rhs : Ex) : Option St :=
  match lhs with
  | .idx x subs => do
      let is ← evalIdx st [] subs
      let v ← evalE st [] rhs
      writeAt st x is v
  | .var x =>
      match boundsOf st x with
      | none => do
          let v ← evalE st [] rhs
          writeAt st x [] v
      | some bs => do
          let shape := bs.map extent
          let ps := positions shape
          let vals ← ps.mapM fun p => evalE st p rhs
          (ps.zip vals).foldlM (fun s (p, v) => writeAt s x ((bs.zip p).map fun (b, k) => b.1 + (k : Int)) v) st
  | .sec x dims => do
      let bs ← boundsOf st x
      let shape ← secShape st bs dims
      let ps := positions shape
      let vals ← ps.mapM fun p => evalE st p rhs
      let targets ← ps.mapM fun p => evalSec st p bs dims p
      (targets.zip vals).foldlM (fun s (t, v) => writeAt s x t v) st
  | _ => none

def printVals (st : St) (e : Ex) : Option (List Val) :=
  match e with
  | .var x =>
      match boundsOf st x with
      | some bs => (positions (bs.map extent)).mapM fun p => evalE st p (.var x)
      | none => (evalE st [] e).map ([·])
  | _ => (evalE st [] e).map ([·])

/-- allocate the cells of a unit: scalars first (so that array bounds may mention dummy scalars) -/
def declCell (st : St) (d : Decl) : Option Cell :=
  match d.dims with
  | [] => some (.scalar d.ty none)
  | ds => do
      let bs ← ds.mapM fun (lo, hi) => do
        let l ← (evalE st [] lo).bind asInt
        let h ← (evalE st [] hi).bind asInt
        pure (l, h)
      pure (.array d.ty bs (List.replicate (sizeOf' bs) none))

def findUnit (p : Program) (f : String) : Option Unit := p.units.find? (·.name == f)
def findDecl (u : Unit) (x : String) : Option Decl := u.decls.find? (·.name == x)

/-- flat data of an actual argument: (values, write-back function) -/
def actualData (st : St) (a : Ex) : Option (List (Option Val)) :=
  match a with
  | .var x =>
      match lookupAlias st x with
      | some _ => (readAt st x []).map fun v => [some v]
      | none => match lookupCell st x with
          | some (.scalar _ v) => some [v]
          | some (.array _ _ data) => some data
          | none => none
  | .idx x subs => do
      let is ← evalIdx st [] subs
      let (y, idx) ← resolve st x is
      match ← lookupCell st y with
      | .array _ bs data => do
          let o ← offset bs idx
          pure (data.drop o)           -- sequence association: from this element on
      | .scalar _ v => some [v]
  | e => (evalE st [] e).map fun v => [some v]

def writeBack (st : St) (a : Ex) (vals : List (Option Val)) : Option St :=
  match a with
  | .var x =>
      match lookupAlias st x with
      | some _ => match vals with
          | some v :: _ => writeAt st x [] v
          | _ => some st
      | none => match lookupCell st x with
          | some (.scalar ty _) => match vals with
              | some v :: _ => (coerce ty v).map fun v' => { st with store := setCell st.store x (.scalar ty (some v')) }
              | _ => some st
          | some (.array ty bs data) =>
              some { st with store := setCell st.store x (.array ty bs (vals.take data.length ++ data.drop vals.length)) }
          | none => none
  | .idx x subs => do
      let is ← evalIdx st [] subs
      let (y, idx) ← resolve st x is
      match ← lookupCell st y with
      | .array ty bs data => do
          let o ← offset bs idx
          let n := min vals.length (data.length - o)
          pure { st with store := setCell st.store y (.array ty bs (data.take o ++ vals.take n ++ data.drop (o + n))) }
      | .scalar ty _ => match vals with
          | some v :: _ => (coerce ty v).map fun v' => { st with store := setCell st.store y (.scalar ty (some v')) }
          | _ => some st
  | _ => some st

/-- an element actual is resolved ONCE, at the call (F2018 15.5.2.3): its subscripts are evaluated before the callee runs and
the same element receives the copy-out, whatever the callee does to the subscript variables -/
def freezeActual (st : St) (a : Ex) : Option Ex :=
  match a with
  | .idx x subs => do
      let is ← evalIdx st [] subs
      let (y, idx) ← resolve st x is
      pure (.idx y (idx.map fun i => .lit (.int i)))
  | e => some e

def cellData : Cell → List (Option Val)
  | .scalar _ v => [v]
  | .array _ _ d => d

def fillCell (c : Cell) (vals : List (Option Val)) : Option Cell :=
  match c with
  | .scalar ty _ => match vals with
      | some v :: _ => (coerce ty v).map fun v' => .scalar ty (some v')
      | _ => some (.scalar ty none)
  | .array ty bs d =>
      let n := min vals.length d.length
      some (.array ty bs (vals.take n ++ d.drop n))

mutual
def execStmts (p : Program) : Nat → List Stmt → St → Res
  | 0, _, _ => .fuel
  | _ + 1, [], st => .ok st .normal
  | f + 1, s :: rest, st =>
      match execStmt p f s st with
      | .ok st' .normal => execStmts p f rest st'
      | r => r
def execStmt (p : Program) : Nat → Stmt → St → Res
  | 0, _, _ => .fuel
  | f + 1, s, st =>
    match s with
    | .assign lhs rhs => match assignStmt st lhs rhs with
        | some st' => .ok st' .normal
        | none => .err "assign"
    | .doLoop v lo hi step body =>
        match (evalE st [] lo).bind asInt, (evalE st [] hi).bind asInt,
              (match step with | some e => (evalE st [] e).bind asInt | none => some 1) with
        | some l, some h, some s =>
            if s = 0 then .err "zero step" else doIter p f v body s (tripCount l h s) l st
        | _, _, _ => .err "do bounds"
    | .while c body => whileIter p f c body st
    | .ifte c thn els =>
        match evalE st [] c with
        | some (.bool true) => execStmts p f thn st
        | some (.bool false) => execStmts p f els st
        | _ => .err "if condition"
    | .select e cases dflt =>
        match (evalE st [] e).bind asInt with
        | some i => match cases.find? (fun c => c.1.contains i) with
            | some c => execStmts p f c.2 st
            | none => execStmts p f dflt st
        | none => .err "select"
    | .assoc binds body =>
        let rec bindAll : List (String × Ex) → St → Option St
          | [], s => some s
          | (n, e) :: bs, s =>
              match bindLoc st e with
              | some (some l) => bindAll bs { s with alias := (n, l) :: s.alias }
              | some none => match evalE st [] e with
                  | some v =>
                      let ty := match v with | .int _ => Ty.int | .real _ => Ty.real | .bool _ => Ty.logical
                      bindAll bs { s with store := (n, .scalar ty (some v)) :: s.store, alias := s.alias.filter (·.1 != n) }
                  | none => none
              | none => none
        match bindAll binds st with
        | some st1 =>
            match execStmts p f body st1 with
            | .ok st2 sig =>
                -- leave the block: restore the association table and drop value cells bound by it
                let names := binds.map (·.1)
                let valueCells := names.filter fun n => (st1.alias.find? (·.1 == n)).isNone
                let store' := valueCells.foldl (fun s n => s.eraseP (·.1 == n)) st2.store
                .ok { st2 with alias := st.alias, store := store' } sig
            | r => r
        | none => .err "associate"
    | .callSub g args =>
        match findUnit p g with
        | none => .err "unknown unit"
        | some u =>
            if u.args.length ≠ args.length then .err "argument count" else
            match args.mapM (freezeActual st) with
            | none => .err "actual argument"
            | some fargs =>
            -- copy in: scalars first, then arrays (their bounds may use scalar dummies)
            let pairs := u.args.zip fargs
            let isScalar := fun (x : String) => match findDecl u x with | some d => d.dims.isEmpty | none => true
            let init : Option St := some { store := [], alias := [], out := st.out }
            let bindArgs (sel : String → Bool) (s0 : Option St) : Option St :=
              pairs.foldl (fun acc (x, a) => do
                let s ← acc
                if sel x then do
                  let d ← findDecl u x
                  let c ← declCell s d
                  let data ← actualData st a
                  let c' ← fillCell c data
                  pure { s with store := s.store ++ [(x, c')] }
                else pure s) s0
            let s1 := bindArgs isScalar init
            let s2 := bindArgs (fun x => !isScalar x) s1
            -- locals
            let s3 : Option St := u.decls.foldl (fun acc d => do
                let s ← acc
                if u.args.contains d.name then pure s else do
                  let c ← declCell s d
                  match d.param with
                  | some e => do
                      let v ← evalE s [] e
                      let c' ← fillCell c [some v]
                      pure { s with store := s.store ++ [(d.name, c')] }
                  | none => pure { s with store := s.store ++ [(d.name, c)] }) s2
            match s3 with
            | none => .err "call binding"
            | some cs =>
                match execStmts p f u.body cs with
                | .ok cs' .normal =>
                    -- copy out in dummy order
                    let back : Option St := pairs.foldl (fun acc (x, a) => do
                        let s ← acc
                        let d ← findDecl u x
                        if d.intent == .in_ then pure s else do
                          let c ← (cs'.store.find? (·.1 == x)).map (·.2)
                          writeBack s a (cellData c)) (some { st with out := cs'.out })
                    match back with
                    | some st' => .ok st' .normal
                    | none => .err "copy out"
                | .ok _ _ => .err "exit/cycle outside loop"
                | r => r
    | .print args =>
        match args.mapM (printVals st) with
        | some vss => .ok { st with out := st.out ++ [vss.flatten] } .normal
        | none => .err "print"
    | .exit => .ok st .exit
    | .cycle => .ok st .cycle
    | .nop _ _ => .ok st .normal
/-- `n` remaining iterations of a DO loop with current index value `cur` -/
def doIter (p : Program) : Nat → String → List Stmt → Int → Nat → Int → St → Res
  | 0, _, _, _, _, _, _ => .fuel
  | f + 1, v, body, step, n, cur, st =>
      match writeAt st v [] (.int cur) with
      | none => .err "loop variable"
      | some st1 =>
        match n with
        | 0 => .ok st1 .normal
        | n' + 1 =>
          match execStmts p f body st1 with
          | .ok st2 .exit => .ok st2 .normal
          | .ok st2 _ => doIter p f v body step n' (cur + step) st2
          | r => r
def whileIter (p : Program) : Nat → Ex → List Stmt → St → Res
  | 0, _, _, _ => .fuel
  | f + 1, c, body, st =>
      match evalE st [] c with
      | some (.bool true) =>
          match execStmts p f body st with
          | .ok st2 .exit => .ok st2 .normal
          | .ok st2 _ => whileIter p f c body st2
          | r => r
      | some (.bool false) => .ok st .normal
      | _ => .err "while condition"
end

/-- run the main unit: `inputs` are (dummy name, flat data) in any order; result = final cells of the dummies + output -/
def runMain (p : Program) (fuel : Nat) (inputs : List (String × List (Option Val))) : Res :=
  match findUnit p p.main with
  | none => .err "no main"
  | some u =>
      let isScalar := fun (x : String) => match findDecl u x with | some d => d.dims.isEmpty | none => true
      let bindArgs (sel : String → Bool) (s0 : Option St) : Option St :=
        u.args.foldl (fun acc x => do
          let s ← acc
          if sel x then do
            let d ← findDecl u x
            let c ← declCell s d
            let data := ((inputs.find? (·.1 == x)).map (·.2)).getD []
            let c' ← fillCell c data
            pure { s with store := s.store ++ [(x, c')] }
          else pure s) s0
      let s1 := bindArgs isScalar (some { store := [] })
      let s2 := bindArgs (fun x => !isScalar x) s1
      let s3 : Option St := u.decls.foldl (fun acc d => do
          let s ← acc
          if u.args.contains d.name then pure s else do
            let c ← declCell s d
            match d.param with
            | some e => do
                let v ← evalE s [] e
                let c' ← fillCell c [some v]
                pure { s with store := s.store ++ [(d.name, c')] }
            | none => pure { s with store := s.store ++ [(d.name, c)] }) s2
      match s3 with
      | none => .err "main binding"
      | some cs => execStmts p fuel u.body cs

end LokiModel.Fir
