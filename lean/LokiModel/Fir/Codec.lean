import LokiModel.Sexp
import LokiModel.Fir.Sem
/-!
# Wire format of FIR programs, values and results (infrastructure for drivers)

```
val   ::= (i n) | (r num den) | (b true|false) | undef
ex    ::= val-literal | (v x) | (idx x ex…) | (sec x dim…) | (neg ex) | (not ex) | (bin op ex ex) | (call f ex…)
op    ::= add sub mul div pow eq ne lt le gt ge and or
dim   ::= (at ex) | (rng lo hi step)           with lo/hi/step ::= ex | none
decl  ::= (decl x int|real|logical in|out|inout|none ((lo hi)…) param)     param ::= ex | none
stmt  ::= (assign lhs ex) | (do v lo hi step (stmt…)) | (while ex (stmt…)) | (if ex (stmt…) (stmt…))
        | (select ex (((n…) (stmt…))…) (stmt…)) | (assoc ((x ex)…) (stmt…)) | (callsub f ex…) | (print ex…)
        | (exit) | (cycle) | (nop kind "text")
unit  ::= (unit name (x…) (decl…) (stmt…))
prog  ::= (program main unit…)
```
-/
namespace LokiModel.Fir
open LokiModel.Expr (Val CmpOp)
open Sexp

def decVal : Sexp → Option Val
  | list [atom "i", n] => n.toInt?.map .int
  | list [atom "r", n, d] => do
      let n ← n.toInt?; let d ← d.toNat?
      if d = 0 then none else pure (.real ((n : Rat) / (d : Rat)))
  | list [atom "b", b] => b.toBool?.map .bool
  | _ => none

def encVal : Val → Sexp
  | .int i => list [atom "i", ofInt i]
  | .real q => list [atom "r", ofInt q.num, ofNat q.den]
  | .bool b => list [atom "b", ofBool b]

def encOVal : Option Val → Sexp
  | some v => encVal v
  | none => atom "undef"

def decOVal : Sexp → Option (Option Val)
  | atom "undef" => some none
  | x => (decVal x).map some

def decOp : Sexp → Option BinOp
  | atom "add" => some .add | atom "sub" => some .sub | atom "mul" => some .mul | atom "div" => some .div
  | atom "pow" => some .pow | atom "and" => some .and | atom "or" => some .or
  | atom "eq" => some (.cmp .eq) | atom "ne" => some (.cmp .ne) | atom "lt" => some (.cmp .lt)
  | atom "le" => some (.cmp .le) | atom "gt" => some (.cmp .gt) | atom "ge" => some (.cmp .ge)
  | _ => none

mutual
def decEx : Sexp → Option Ex
  | list [atom "i", n] => n.toInt?.map fun i => .lit (.int i)
  | list [atom "r", n, d] => (decVal (list [atom "r", n, d])).map .lit
  | list [atom "b", b] => b.toBool?.map fun v => .lit (.bool v)
  | list [atom "v", x] => x.toStr?.map .var
  | list (atom "idx" :: x :: es) => do pure (.idx (← x.toStr?) (← decExs es))
  | list (atom "sec" :: x :: ds) => do pure (.sec (← x.toStr?) (← decDims ds))
  | list [atom "neg", a] => do pure (.neg (← decEx a))
  | list [atom "not", a] => do pure (.not (← decEx a))
  | list [atom "bin", o, a, b] => do pure (.bin (← decOp o) (← decEx a) (← decEx b))
  | list (atom "call" :: f :: es) => do pure (.call (← f.toStr?) (← decExs es))
  | _ => none
def decExs : List Sexp → Option (List Ex)
  | [] => some []
  | x :: xs => do pure ((← decEx x) :: (← decExs xs))
def decDims : List Sexp → Option (List Dim)
  | [] => some []
  | list [atom "at", e] :: xs => do pure (.at (← decEx e) :: (← decDims xs))
  | list [atom "rng", lo, hi, st] :: xs => do
      let l ← decOEx lo; let h ← decOEx hi; let s ← decOEx st
      pure (.rng l h s :: (← decDims xs))
  | _ => none
def decOEx : Sexp → Option (Option Ex)
  | atom "none" => some none
  | x => do pure (some (← decEx x))
end

def decTy : Sexp → Option Ty
  | atom "int" => some .int | atom "real" => some .real | atom "logical" => some .logical | _ => none

def decIntent : Sexp → Option Intent
  | atom "in" => some .in_ | atom "out" => some .out | atom "inout" => some .inout | atom "none" => some .none | _ => none

def decBounds : List Sexp → Option (List (Ex × Ex))
  | [] => some []
  | list [lo, hi] :: xs => do pure ((← decEx lo, ← decEx hi) :: (← decBounds xs))
  | _ => none

def decDecl : Sexp → Option Decl
  | list [atom "decl", x, ty, it, list bs, pm] => do
      pure { name := ← x.toStr?, ty := ← decTy ty, intent := ← decIntent it, dims := ← decBounds bs, param := ← decOEx pm }
  | _ => none

def decInts : List Sexp → Option (List Int)
  | [] => some []
  | x :: xs => do pure ((← x.toInt?) :: (← decInts xs))

mutual
def decStmt : Sexp → Option Stmt
  | list [atom "assign", l, r] => do pure (.assign (← decEx l) (← decEx r))
  | list [atom "do", v, lo, hi, st, list body] => do
      pure (.doLoop (← v.toStr?) (← decEx lo) (← decEx hi) (← decOEx st) (← decStmts body))
  | list [atom "while", c, list body] => do pure (.while (← decEx c) (← decStmts body))
  | list [atom "if", c, list t, list e] => do pure (.ifte (← decEx c) (← decStmts t) (← decStmts e))
  | list [atom "select", e, list cs, list d] => do pure (.select (← decEx e) (← decCases cs) (← decStmts d))
  | list [atom "assoc", list bs, list body] => do pure (.assoc (← decBinds bs) (← decStmts body))
  | list (atom "callsub" :: f :: args) => do pure (.callSub (← f.toStr?) (← decExs args))
  | list (atom "print" :: args) => do pure (.print (← decExs args))
  | list [atom "exit"] => some .exit
  | list [atom "cycle"] => some .cycle
  | list [atom "nop", k, t] => do pure (.nop (← k.toStr?) (← t.toStr?))
  | _ => none
def decStmts : List Sexp → Option (List Stmt)
  | [] => some []
  | x :: xs => do pure ((← decStmt x) :: (← decStmts xs))
def decCases : List Sexp → Option (List (List Int × List Stmt))
  | [] => some []
  | list [list vs, list body] :: xs => do pure ((← decInts vs, ← decStmts body) :: (← decCases xs))
  | _ => none
def decBinds : List Sexp → Option (List (String × Ex))
  | [] => some []
  | list [x, e] :: xs => do pure ((← x.toStr?, ← decEx e) :: (← decBinds xs))
  | _ => none
end

def decStrs : List Sexp → Option (List String)
  | [] => some []
  | x :: xs => do pure ((← x.toStr?) :: (← decStrs xs))

def decDecls : List Sexp → Option (List Decl)
  | [] => some []
  | x :: xs => do pure ((← decDecl x) :: (← decDecls xs))

def decUnit : Sexp → Option Unit
  | list [atom "unit", n, list args, list ds, list body] => do
      pure { name := ← n.toStr?, args := ← decStrs args, decls := ← decDecls ds, body := ← decStmts body }
  | _ => none

def decUnits : List Sexp → Option (List Unit)
  | [] => some []
  | x :: xs => do pure ((← decUnit x) :: (← decUnits xs))

def decProgram : Sexp → Option Program
  | list (atom "program" :: m :: us) => do pure { main := ← m.toStr?, units := ← decUnits us }
  | _ => none

def decOVals : List Sexp → Option (List (Option Val))
  | [] => some []
  | x :: xs => do pure ((← decOVal x) :: (← decOVals xs))

/-- inputs: `((x val…)…)` -/
def decInputs : List Sexp → Option (List (String × List (Option Val)))
  | [] => some []
  | list (x :: vs) :: xs => do pure ((← x.toStr?, ← decOVals vs) :: (← decInputs xs))
  | _ => none

def encCell : Cell → Sexp
  | .scalar _ v => list [encOVal v]
  | .array _ _ d => list (d.map encOVal)

/-- observable result of a run: final values of the given names, then the printed lines -/
def encRes (names : List String) : Res → Sexp
  | .ok st _ =>
      list [atom "ok",
        list (names.map fun x => match lookupCell st x with
          | some c => list (str x :: (match encCell c with | list l => l | s => [s]))
          | none => list [str x, atom "missing"]),
        list (st.out.map fun line => list (line.map encVal))]
  | .err m => list [atom "error", str m]
  | .fuel => list [atom "fuel"]

end LokiModel.Fir
