import LokiModel.C33.Sim
/-!
# C33: the call to an outlined unit, split into entry state / body / copy-out

`entryState` and `copyOut` are the two halves of `execStmt … (.callSub g args)` of `Fir/Sem.lean` (copied text; `call_unfold`
proves that the interpreter's CALL is exactly `entryState` → body → `copyOut`).
-/
namespace LokiModel.C33
open LokiModel.Fir
open LokiModel.Expr (Val)

/-- the callee's initial state: scalar dummies, then array dummies, then locals (text of `Sem.lean`) -/
def entryState (u : Fir.Unit) (fargs : List Ex) (st : St) : Option St :=
  let pairs := u.args.zip fargs
  let isScalar := fun (x : String) => match findDecl u x with | some d => d.dims.isEmpty | none => true
  let init : Option St := some { store := [], alias := [], out := st.out }
  let bindArgs (sel : String → Bool) (s0 : Option St) : Option St :=
    pairs.foldl (fun acc (x, a) => do
      let s ← acc
      if sel x then do
        let d ← findDecl u x
        let c ← declCell s d
        let data ← actualData st a
        let c' ← fillCell c data
        pure { s with store := s.store ++ [(x, c')] }
      else pure s) s0
  let s1 := bindArgs isScalar init
  let s2 := bindArgs (fun x => !isScalar x) s1
  u.decls.foldl (fun acc d => do
      let s ← acc
      if u.args.contains d.name then pure s else do
        let c ← declCell s d
        match d.param with
        | some e => do
            let v ← evalE s [] e
            let c' ← fillCell c [some v]
            pure { s with store := s.store ++ [(d.name, c')] }
        | none => pure { s with store := s.store ++ [(d.name, c)] }) s2

/-- copy-out in dummy order (text of `Sem.lean`) -/
def copyOut (u : Fir.Unit) (fargs : List Ex) (st cs' : St) : Option St :=
  (u.args.zip fargs).foldl (fun acc (x, a) => do
      let s ← acc
      let d ← findDecl u x
      if d.intent == .in_ then pure s else do
        let c ← (cs'.store.find? (·.1 == x)).map (·.2)
        writeBack s a (cellData c)) (some { st with out := cs'.out })

/-- what the interpreter does after the entry state has been built -/
def afterBody (u : Fir.Unit) (fargs : List Ex) (st : St) : Res → Res
  | .ok cs' .normal =>
      match copyOut u fargs st cs' with
      | some st' => .ok st' .normal
      | none => .err "copy out"
  | .ok _ _ => .err "exit/cycle outside loop"
  | r => r

theorem call_unfold (P : Program) (f : Nat) (g : String) (args fargs : List Ex) (u : Fir.Unit) (st cs : St)
    (hu : findUnit P g = some u) (hlen : u.args.length = args.length)
    (hfa : args.mapM (freezeActual st) = some fargs) (hent : entryState u fargs st = some cs) :
    execStmt P (f + 1) (.callSub g args) st = afterBody u fargs st (execStmts P f u.body cs) := by
  simp only [execStmt, hu, hfa]
  have hne : ¬ (u.args.length ≠ args.length) := by simp [hlen]
  simp only [hne, if_false]
  simp only [entryState] at hent
  erw [hent]
  dsimp only
  unfold afterBody copyOut
  cases execStmts P f u.body cs with
  | fuel => rfl
  | err m => rfl
  | ok cs' sg => cases sg <;> rfl

theorem freeze_vars (st : St) : ∀ (xs : List String), (xs.map Ex.var).mapM (freezeActual st) = some (xs.map Ex.var)
  | [] => by simp
  | x :: xs => by simp [List.mapM_cons, freezeActual, freeze_vars st xs]

end LokiModel.C33
