import LokiModel.C33.Model
import LokiModel.Fir.Fuel
/-!
# C33: coincidence (simulation) lemma for region bodies

`Agree V a b`: two FIR states without active associations have the same printed output and the same cell for every name in `V`.
`Ok V ss`: the statement list is inside the covered class of the outlining theorem (no ASSOCIATE, no CALL) and every variable
occurring in it — PRINT arguments included — is in `V`.
`sim`: for such a list the interpreter produces related results from related states (same signal, same error, same fuel
exhaustion), whatever the two stores contain outside `V` and in whatever order.  This is what makes "run the region in the
caller's state" and "run it in the fresh state of the outlined routine" comparable.
-/
namespace LokiModel.C33
open LokiModel.Fir
open LokiModel.Expr (Val)

def Agree (V : String → Prop) (a b : St) : Prop :=
  a.alias = [] ∧ b.alias = [] ∧ a.out = b.out ∧ ∀ x, V x → lookupCell a x = lookupCell b x

def OAgree (V : String → Prop) : Option St → Option St → Prop
  | some a, some b => Agree V a b
  | none, none => True
  | _, _ => False

def RAgree (V : String → Prop) : Res → Res → Prop
  | .ok a s, .ok b s' => s = s' ∧ Agree V a b
  | .err m, .err m' => m = m'
  | .fuel, .fuel => True
  | _, _ => False

/-! ### the covered class, as a predicate that also bounds the variables -/

mutual
def okE (V : String → Prop) : Ex → Prop
  | .lit _ => True
  | .var x => V x
  | .idx x subs => V x ∧ okEs V subs
  | .sec x dims => V x ∧ okDims V dims
  | .neg a => okE V a
  | .not a => okE V a
  | .bin _ a b => okE V a ∧ okE V b
  | .call _ args => okEs V args
def okEs (V : String → Prop) : List Ex → Prop
  | [] => True
  | e :: es => okE V e ∧ okEs V es
def okDims (V : String → Prop) : List Dim → Prop
  | [] => True
  | .at e :: ds => okE V e ∧ okDims V ds
  | .rng lo hi st :: ds => okO V lo ∧ okO V hi ∧ okO V st ∧ okDims V ds
def okO (V : String → Prop) : Option Ex → Prop
  | none => True
  | some e => okE V e
end

mutual
def Ok (V : String → Prop) : List Stmt → Prop
  | [] => True
  | s :: rest => OkS V s ∧ Ok V rest
def OkS (V : String → Prop) : Stmt → Prop
  | .assign lhs rhs => okE V lhs ∧ okE V rhs
  | .doLoop v lo hi st body => V v ∧ okE V lo ∧ okE V hi ∧ okO V st ∧ Ok V body
  | .while c body => okE V c ∧ Ok V body
  | .ifte c t e => okE V c ∧ Ok V t ∧ Ok V e
  | .select e cases d => okE V e ∧ OkC V cases ∧ Ok V d
  | .assoc _ _ => False
  | .callSub _ _ => False
  | .print args => okEs V args
  | .exit => True
  | .cycle => True
  | .nop _ _ => True
def OkC (V : String → Prop) : List (List Int × List Stmt) → Prop
  | [] => True
  | (_, b) :: cs => Ok V b ∧ OkC V cs
end

/-! ### stores -/

theorem lookupAlias_nil {st : St} (h : st.alias = []) (x : String) : lookupAlias st x = none := by
  simp [lookupAlias, h]

theorem resolve_nil {st : St} (h : st.alias = []) (x : String) (subs : List Int) : resolve st x subs = some (x, subs) := by
  simp [resolve, lookupAlias_nil h]

theorem find_setCell (store : List (String × Cell)) (x y : String) (c : Cell) :
    ((setCell store x c).find? (·.1 == y)).map (·.2) =
      if x == y then some c else (store.find? (·.1 == y)).map (·.2) := by
  induction store with
  | nil => by_cases h : x == y <;> simp [setCell, List.find?, h]
  | cons p rest ih =>
    obtain ⟨z, d⟩ := p
    simp only [setCell]
    by_cases hzx : (z == x) = true
    · have ezx : z = x := by simpa using hzx
      subst ezx
      simp only [if_true, beq_self_eq_true]
      by_cases hzy : (z == y) = true
      · simp [List.find?, hzy]
      · simp [List.find?, hzy]
    · simp only [hzx]
      by_cases hzy : (z == y) = true
      · have ezy : z = y := by simpa using hzy
        subst ezy
        have hxz : (x == z) = false := by
          cases h : x == z
          · rfl
          · have : x = z := by simpa using h
            subst this; simp at hzx
        simp [List.find?, hxz]
      · simp only [Bool.false_eq_true, if_false, List.find?, hzy]
        exact ih

theorem lookupCell_set (st : St) (x y : String) (c : Cell) :
    lookupCell { st with store := setCell st.store x c } y = if x == y then some c else lookupCell st y := by
  simp only [lookupCell]; exact find_setCell st.store x y c

theorem agree_set {V : String → Prop} {a b : St} (h : Agree V a b) (x : String) (c : Cell) :
    Agree V { a with store := setCell a.store x c } { b with store := setCell b.store x c } := by
  obtain ⟨ha, hb, ho, hl⟩ := h
  refine ⟨ha, hb, ho, fun y hy => ?_⟩
  rw [lookupCell_set, lookupCell_set, hl y hy]

theorem readAt_agree {V : String → Prop} {a b : St} (h : Agree V a b) {x : String} (hx : V x) (is : List Int) :
    readAt a x is = readAt b x is := by
  obtain ⟨ha, hb, _, hl⟩ := h
  simp only [readAt, resolve_nil ha, resolve_nil hb, Option.bind_eq_bind, Option.bind_some, hl x hx]

theorem boundsOf_agree {V : String → Prop} {a b : St} (h : Agree V a b) {x : String} (hx : V x) :
    boundsOf a x = boundsOf b x := by
  obtain ⟨ha, hb, _, hl⟩ := h
  simp only [boundsOf, lookupAlias_nil ha, lookupAlias_nil hb, hl x hx]

theorem writeAt_agree {V : String → Prop} {a b : St} (h : Agree V a b) {x : String} (hx : V x) (is : List Int) (v : Val) :
    OAgree V (writeAt a x is v) (writeAt b x is v) := by
  have hl := h.2.2.2 x hx
  simp only [writeAt, resolve_nil h.1, resolve_nil h.2.1, Option.bind_eq_bind, Option.bind_some, Option.pure_def]
  rw [hl]
  cases hc : lookupCell b x with
  | none => simp [OAgree]
  | some c =>
    cases c with
    | scalar ty w =>
      simp only [Option.bind_some]
      by_cases hi : is.isEmpty = true
      · simp only [hi, if_true]
        cases coerce ty v with
        | none => simp [OAgree]
        | some v' => simp only [Option.bind_some, OAgree]; exact agree_set h x _
      · simp [hi, OAgree]
    | array ty bs data =>
      simp only [Option.bind_some]
      cases offset bs is with
      | none => simp [OAgree]
      | some o =>
        simp only [Option.bind_some]
        cases coerce ty v with
        | none => simp [OAgree]
        | some v' =>
          simp only [Option.bind_some]
          by_cases ho : o < data.length
          · simp only [ho, if_true, OAgree]; exact agree_set h x _
          · simp [ho, OAgree]

/-! ### expressions -/

mutual
theorem evalE_agree {V : String → Prop} {a b : St} (h : Agree V a b) :
    ∀ (e : Ex) (pos : List Nat), okE V e → evalE a pos e = evalE b pos e
  | .lit v, pos, _ => by simp [evalE]
  | .var x, pos, hx => by
      simp only [okE] at hx
      simp only [evalE, boundsOf_agree h hx, readAt_agree h hx]
  | .idx x subs, pos, hx => by
      simp only [okE] at hx
      simp only [evalE, evalIdx_agree h subs pos hx.2, readAt_agree h hx.1]
  | .sec x dims, pos, hx => by
      simp only [okE] at hx
      simp only [evalE, boundsOf_agree h hx.1]
      cases boundsOf b x with
      | none => rfl
      | some bs =>
        simp only [Option.bind_eq_bind, Option.bind_some, evalSec_agree h dims bs pos pos hx.2, readAt_agree h hx.1]
  | .neg e, pos, hx => by simp only [okE] at hx; simp only [evalE, evalE_agree h e pos hx]
  | .not e, pos, hx => by simp only [okE] at hx; simp only [evalE, evalE_agree h e pos hx]
  | .bin o e1 e2, pos, hx => by
      simp only [okE] at hx
      simp only [evalE, evalE_agree h e1 pos hx.1, evalE_agree h e2 pos hx.2]
  | .call f args, pos, hx => by
      simp only [okE] at hx
      simp only [evalE, evalArgs_agree h args pos hx]
theorem evalIdx_agree {V : String → Prop} {a b : St} (h : Agree V a b) :
    ∀ (es : List Ex) (pos : List Nat), okEs V es → evalIdx a pos es = evalIdx b pos es
  | [], pos, _ => by simp [evalIdx]
  | e :: es, pos, hx => by
      simp only [okEs] at hx
      simp only [evalIdx, evalE_agree h e pos hx.1, evalIdx_agree h es pos hx.2]
theorem evalArgs_agree {V : String → Prop} {a b : St} (h : Agree V a b) :
    ∀ (es : List Ex) (pos : List Nat), okEs V es → evalArgs a pos es = evalArgs b pos es
  | [], pos, _ => by simp [evalArgs]
  | e :: es, pos, hx => by
      simp only [okEs] at hx
      simp only [evalArgs, evalE_agree h e pos hx.1, evalArgs_agree h es pos hx.2]
theorem evalSec_agree {V : String → Prop} {a b : St} (h : Agree V a b) :
    ∀ (ds : List Dim) (bs : List (Int × Int)) (pos ks : List Nat), okDims V ds →
      evalSec a pos bs ds ks = evalSec b pos bs ds ks
  | [], bs, pos, ks, _ => by cases bs <;> simp [evalSec]
  | .at e :: ds, bs, pos, ks, hx => by
      simp only [okDims] at hx
      cases bs with
      | nil => simp [evalSec]
      | cons b0 bs' => simp only [evalSec, evalE_agree h e pos hx.1, evalSec_agree h ds bs' pos ks hx.2]
  | .rng lo hi stp :: ds, bs, pos, ks, hx => by
      simp only [okDims] at hx
      cases bs with
      | nil => simp [evalSec]
      | cons b0 bs' =>
        cases ks with
        | nil => simp [evalSec]
        | cons k ks' =>
          have ihd := evalSec_agree h ds bs' pos ks' hx.2.2.2
          cases lo with
          | none =>
            cases stp with
            | none => simp only [evalSec, ihd]
            | some s => simp only [okO] at hx; simp only [evalSec, ihd, evalE_agree h s pos hx.2.2.1]
          | some l =>
            cases stp with
            | none => simp only [okO] at hx; simp only [evalSec, ihd, evalE_agree h l pos hx.1]
            | some s =>
              simp only [okO] at hx
              simp only [evalSec, ihd, evalE_agree h l pos hx.1, evalE_agree h s pos hx.2.2.1]
end

theorem secShape_agree {V : String → Prop} {a b : St} (h : Agree V a b) :
    ∀ (ds : List Dim) (bs : List (Int × Int)), okDims V ds → secShape a bs ds = secShape b bs ds
  | [], bs, _ => by simp [secShape]
  | .at e :: ds, bs, hx => by
      simp only [okDims] at hx
      cases bs with
      | nil => simp [secShape]
      | cons b0 bs' => simp only [secShape]; exact secShape_agree h ds bs' hx.2
  | .rng lo hi stp :: ds, bs, hx => by
      simp only [okDims] at hx
      cases bs with
      | nil => simp [secShape]
      | cons b0 bs' =>
        have ihd := secShape_agree h ds bs' hx.2.2.2
        match lo, hi, stp, hx with
        | none, none, none, hx =>
          simp only [secShape, ihd]
        | none, none, some s, hx =>
          have h3 : okE V s := by simpa only [okO] using hx.2.2.1
          simp only [secShape, ihd, evalE_agree h s [] h3]
        | none, some u, none, hx =>
          have h2 : okE V u := by simpa only [okO] using hx.2.1
          simp only [secShape, ihd, evalE_agree h u [] h2]
        | none, some u, some s, hx =>
          have h2 : okE V u := by simpa only [okO] using hx.2.1
          have h3 : okE V s := by simpa only [okO] using hx.2.2.1
          simp only [secShape, ihd, evalE_agree h u [] h2, evalE_agree h s [] h3]
        | some l, none, none, hx =>
          have h1 : okE V l := by simpa only [okO] using hx.1
          simp only [secShape, ihd, evalE_agree h l [] h1]
        | some l, none, some s, hx =>
          have h1 : okE V l := by simpa only [okO] using hx.1
          have h3 : okE V s := by simpa only [okO] using hx.2.2.1
          simp only [secShape, ihd, evalE_agree h l [] h1, evalE_agree h s [] h3]
        | some l, some u, none, hx =>
          have h1 : okE V l := by simpa only [okO] using hx.1
          have h2 : okE V u := by simpa only [okO] using hx.2.1
          simp only [secShape, ihd, evalE_agree h l [] h1, evalE_agree h u [] h2]
        | some l, some u, some s, hx =>
          have h1 : okE V l := by simpa only [okO] using hx.1
          have h2 : okE V u := by simpa only [okO] using hx.2.1
          have h3 : okE V s := by simpa only [okO] using hx.2.2.1
          simp only [secShape, ihd, evalE_agree h l [] h1, evalE_agree h u [] h2, evalE_agree h s [] h3]

/-! ### assignment, PRINT -/

theorem foldlM_agree {V : String → Prop} {α : Type} (g : St → α → Option St)
    (hg : ∀ s1 s2 p, Agree V s1 s2 → OAgree V (g s1 p) (g s2 p)) :
    ∀ (xs : List α) (s1 s2 : St), Agree V s1 s2 → OAgree V (xs.foldlM g s1) (xs.foldlM g s2)
  | [], s1, s2, h => by simpa [OAgree] using h
  | x :: xs, s1, s2, h => by
      have h1 := hg s1 s2 x h
      simp only [List.foldlM_cons, Option.bind_eq_bind]
      cases e1 : g s1 x with
      | none =>
        cases e2 : g s2 x with
        | none => simp [OAgree]
        | some t2 => rw [e1, e2] at h1; exact absurd h1 (by simp [OAgree])
      | some t1 =>
        cases e2 : g s2 x with
        | none => rw [e1, e2] at h1; exact absurd h1 (by simp [OAgree])
        | some t2 =>
          rw [e1, e2] at h1
          simp only [Option.bind_some]
          exact foldlM_agree g hg xs t1 t2 h1

theorem oagree_bind {V : String → Prop} {α : Type} (o : Option α) (k1 k2 : α → Option St)
    (hk : ∀ x, OAgree V (k1 x) (k2 x)) : OAgree V (o.bind k1) (o.bind k2) := by
  cases o with
  | none => simp [OAgree]
  | some x => simpa using hk x

theorem assignStmt_agree {V : String → Prop} {a b : St} (h : Agree V a b) (lhs rhs : Ex)
    (hl : okE V lhs) (hr : okE V rhs) : OAgree V (assignStmt a lhs rhs) (assignStmt b lhs rhs) := by
  have er : (fun p => evalE a p rhs) = (fun p => evalE b p rhs) := funext fun p => evalE_agree h rhs p hr
  cases lhs with
  | idx x subs =>
    simp only [okE] at hl
    simp only [assignStmt, evalIdx_agree h subs [] hl.2, evalE_agree h rhs [] hr, Option.bind_eq_bind]
    refine oagree_bind _ _ _ fun is => oagree_bind _ _ _ fun v => writeAt_agree h hl.1 is v
  | var x =>
    simp only [okE] at hl
    simp only [assignStmt, boundsOf_agree h hl]
    cases boundsOf b x with
    | none =>
      simp only [evalE_agree h rhs [] hr, Option.bind_eq_bind]
      exact oagree_bind _ _ _ fun v => writeAt_agree h hl [] v
    | some bs =>
      simp only [Option.bind_eq_bind, er]
      refine oagree_bind _ _ _ fun vals => ?_
      refine foldlM_agree _ ?_ _ a b h
      intro s1 s2 p hs
      exact writeAt_agree hs hl _ _
  | sec x dims =>
    simp only [okE] at hl
    simp only [assignStmt, boundsOf_agree h hl.1, Option.bind_eq_bind]
    refine oagree_bind _ _ _ fun bs => ?_
    rw [secShape_agree h dims bs hl.2]
    refine oagree_bind _ _ _ fun shape => ?_
    simp only [er]
    refine oagree_bind _ _ _ fun vals => ?_
    have et' : (fun p => evalSec a p bs dims p) = (fun p => evalSec b p bs dims p) :=
      funext fun p => evalSec_agree h dims bs p p hl.2
    simp only [et']
    refine oagree_bind _ _ _ fun targets => ?_
    refine foldlM_agree _ ?_ _ a b h
    intro s1 s2 p hs
    exact writeAt_agree hs hl.1 _ _
  | lit v => simp [assignStmt, OAgree]
  | neg e => simp [assignStmt, OAgree]
  | not e => simp [assignStmt, OAgree]
  | bin o e1 e2 => simp [assignStmt, OAgree]
  | call f args => simp [assignStmt, OAgree]

theorem printVals_agree {V : String → Prop} {a b : St} (h : Agree V a b) (e : Ex) (he : okE V e) :
    printVals a e = printVals b e := by
  cases e with
  | var x =>
    have hx : V x := by simpa [okE] using he
    have ev : (fun p => evalE a p (.var x)) = (fun p => evalE b p (.var x)) :=
      funext fun p => evalE_agree h (.var x) p he
    simp only [printVals, boundsOf_agree h hx, ev, evalE_agree h (.var x) [] he]
  | lit v => simp only [printVals, evalE_agree h _ [] he]
  | idx x subs => simp only [printVals, evalE_agree h _ [] he]
  | sec x dims => simp only [printVals, evalE_agree h _ [] he]
  | neg e => simp only [printVals, evalE_agree h _ [] he]
  | not e => simp only [printVals, evalE_agree h _ [] he]
  | bin o e1 e2 => simp only [printVals, evalE_agree h _ [] he]
  | call f args => simp only [printVals, evalE_agree h _ [] he]

theorem printArgs_agree {V : String → Prop} {a b : St} (h : Agree V a b) :
    ∀ (args : List Ex), okEs V args → args.mapM (printVals a) = args.mapM (printVals b)
  | [], _ => by simp
  | e :: es, hx => by
      simp only [okEs] at hx
      simp only [List.mapM_cons, printVals_agree h e hx.1, printArgs_agree h es hx.2]

theorem okC_find {V : String → Prop} : ∀ (cases : List (List Int × List Stmt)) (p : List Int × List Stmt → Bool)
    (c : List Int × List Stmt), OkC V cases → cases.find? p = some c → Ok V c.2
  | [], _, _, _, hf => by simp at hf
  | (vs, b0) :: cs, p, c, hok, hf => by
      simp only [OkC] at hok
      simp only [List.find?] at hf
      by_cases hp : p (vs, b0) = true
      · simp only [hp] at hf
        have : c = (vs, b0) := by simpa using hf.symm
        subst this; exact hok.1
      · simp only [hp] at hf
        exact okC_find cs p c hok.2 hf

/-! ### statements -/

structure Sim (P : Program) (V : String → Prop) (f : Nat) : Prop where
  stmts : ∀ ss a b, Ok V ss → Agree V a b → RAgree V (execStmts P f ss a) (execStmts P f ss b)
  stmt : ∀ s a b, OkS V s → Agree V a b → RAgree V (execStmt P f s a) (execStmt P f s b)
  doI : ∀ v body step n cur a b, V v → Ok V body → Agree V a b →
      RAgree V (doIter P f v body step n cur a) (doIter P f v body step n cur b)
  whileI : ∀ c body a b, okE V c → Ok V body → Agree V a b →
      RAgree V (whileIter P f c body a) (whileIter P f c body b)

theorem sim_zero (P : Program) (V : String → Prop) : Sim P V 0 := by
  constructor
  · intro ss a b _ _; simp [execStmts, RAgree]
  · intro s a b _ _; simp [execStmt, RAgree]
  · intro v body step n cur a b _ _ _; simp [doIter, RAgree]
  · intro c body a b _ _ _; simp [whileIter, RAgree]

theorem sim_succ (P : Program) (V : String → Prop) (f : Nat) (ih : Sim P V f) : Sim P V (f + 1) := by
  constructor
  · -- execStmts
    intro ss a b hok h
    cases ss with
    | nil => simp only [execStmts]; exact ⟨rfl, h⟩
    | cons s rest =>
      simp only [Ok] at hok
      simp only [execStmts]
      have h1 := ih.stmt s a b hok.1 h
      cases ea : execStmt P f s a with
      | fuel =>
        cases eb : execStmt P f s b with
        | fuel => simp [RAgree]
        | err m => rw [ea, eb] at h1; exact absurd h1 (by simp [RAgree])
        | ok b' sg => rw [ea, eb] at h1; exact absurd h1 (by simp [RAgree])
      | err m =>
        cases eb : execStmt P f s b with
        | fuel => rw [ea, eb] at h1; exact absurd h1 (by simp [RAgree])
        | err m' => rw [ea, eb] at h1; simpa [RAgree] using h1
        | ok b' sg => rw [ea, eb] at h1; exact absurd h1 (by simp [RAgree])
      | ok a' sg =>
        cases eb : execStmt P f s b with
        | fuel => rw [ea, eb] at h1; exact absurd h1 (by simp [RAgree])
        | err m' => rw [ea, eb] at h1; exact absurd h1 (by simp [RAgree])
        | ok b' sg' =>
          rw [ea, eb] at h1
          simp only [RAgree] at h1
          obtain ⟨es, hab⟩ := h1
          subst es
          cases sg with
          | normal => exact ih.stmts rest a' b' hok.2 hab
          | exit => exact ⟨rfl, hab⟩
          | cycle => exact ⟨rfl, hab⟩
  · -- execStmt
    intro s a b hok h
    cases s with
    | assign lhs rhs =>
      simp only [OkS] at hok
      have h1 := assignStmt_agree h lhs rhs hok.1 hok.2
      simp only [execStmt]
      cases ea : assignStmt a lhs rhs with
      | none =>
        cases eb : assignStmt b lhs rhs with
        | none => simp [RAgree]
        | some b' => rw [ea, eb] at h1; exact absurd h1 (by simp [OAgree])
      | some a' =>
        cases eb : assignStmt b lhs rhs with
        | none => rw [ea, eb] at h1; exact absurd h1 (by simp [OAgree])
        | some b' => rw [ea, eb] at h1; exact ⟨rfl, h1⟩
    | doLoop v lo hi step body =>
      simp only [OkS] at hok
      obtain ⟨hv, hlo, hhi, hst, hbody⟩ := hok
      cases step with
      | none =>
        simp only [execStmt, evalE_agree h lo [] hlo, evalE_agree h hi [] hhi]
        split
        · split
          · simp [RAgree]
          · exact ih.doI _ _ _ _ _ a b hv hbody h
        · simp [RAgree]
      | some e =>
        have hst' : okE V e := by simpa only [okO] using hst
        simp only [execStmt, evalE_agree h lo [] hlo, evalE_agree h hi [] hhi, evalE_agree h e [] hst']
        split
        · split
          · simp [RAgree]
          · exact ih.doI _ _ _ _ _ a b hv hbody h
        · simp [RAgree]
    | «while» c body =>
      simp only [OkS] at hok
      simp only [execStmt]
      exact ih.whileI c body a b hok.1 hok.2 h
    | ifte c t e =>
      simp only [OkS] at hok
      simp only [execStmt, evalE_agree h c [] hok.1]
      split
      · exact ih.stmts t a b hok.2.1 h
      · exact ih.stmts e a b hok.2.2 h
      · simp [RAgree]
    | select e cases d =>
      simp only [OkS] at hok
      simp only [execStmt, evalE_agree h e [] hok.1]
      split
      · split
        · rename_i c hc
          exact ih.stmts c.2 a b (okC_find cases _ c hok.2.1 hc) h
        · exact ih.stmts d a b hok.2.2 h
      · simp [RAgree]
    | assoc binds body => simp only [OkS] at hok
    | callSub g args => simp only [OkS] at hok
    | print args =>
      simp only [OkS] at hok
      simp only [execStmt, printArgs_agree h args hok]
      cases args.mapM (printVals b) with
      | none => simp [RAgree]
      | some vss =>
        obtain ⟨ha, hb, ho, hl⟩ := h
        exact ⟨rfl, ha, hb, by simp [ho], fun x hx => by simpa [lookupCell] using hl x hx⟩
    | exit => simp only [execStmt]; exact ⟨rfl, h⟩
    | cycle => simp only [execStmt]; exact ⟨rfl, h⟩
    | nop k t => simp only [execStmt]; exact ⟨rfl, h⟩
  · -- doIter
    intro v body step n cur a b hv hbody h
    have hw := writeAt_agree h hv [] (.int cur)
    simp only [doIter]
    cases ea : writeAt a v [] (.int cur) with
    | none =>
      cases eb : writeAt b v [] (.int cur) with
      | none => simp [RAgree]
      | some b1 => rw [ea, eb] at hw; exact absurd hw (by simp [OAgree])
    | some a1 =>
      cases eb : writeAt b v [] (.int cur) with
      | none => rw [ea, eb] at hw; exact absurd hw (by simp [OAgree])
      | some b1 =>
        rw [ea, eb] at hw
        simp only [OAgree] at hw
        cases n with
        | zero => exact ⟨rfl, hw⟩
        | succ n' =>
          simp only
          have h1 := ih.stmts body a1 b1 hbody hw
          cases ea2 : execStmts P f body a1 with
          | fuel =>
            cases eb2 : execStmts P f body b1 with
            | fuel => simp [RAgree]
            | err m => rw [ea2, eb2] at h1; exact absurd h1 (by simp [RAgree])
            | ok b' sg => rw [ea2, eb2] at h1; exact absurd h1 (by simp [RAgree])
          | err m =>
            cases eb2 : execStmts P f body b1 with
            | fuel => rw [ea2, eb2] at h1; exact absurd h1 (by simp [RAgree])
            | err m' => rw [ea2, eb2] at h1; simpa [RAgree] using h1
            | ok b' sg => rw [ea2, eb2] at h1; exact absurd h1 (by simp [RAgree])
          | ok a' sg =>
            cases eb2 : execStmts P f body b1 with
            | fuel => rw [ea2, eb2] at h1; exact absurd h1 (by simp [RAgree])
            | err m' => rw [ea2, eb2] at h1; exact absurd h1 (by simp [RAgree])
            | ok b' sg' =>
              rw [ea2, eb2] at h1
              simp only [RAgree] at h1
              obtain ⟨es, hab⟩ := h1
              subst es
              cases sg with
              | exit => exact ⟨rfl, hab⟩
              | normal => exact ih.doI v body step n' (cur + step) a' b' hv hbody hab
              | cycle => exact ih.doI v body step n' (cur + step) a' b' hv hbody hab
  · -- whileIter
    intro c body a b hc hbody h
    simp only [whileIter, evalE_agree h c [] hc]
    split
    · have h1 := ih.stmts body a b hbody h
      cases ea2 : execStmts P f body a with
      | fuel =>
        cases eb2 : execStmts P f body b with
        | fuel => simp [RAgree]
        | err m => rw [ea2, eb2] at h1; exact absurd h1 (by simp [RAgree])
        | ok b' sg => rw [ea2, eb2] at h1; exact absurd h1 (by simp [RAgree])
      | err m =>
        cases eb2 : execStmts P f body b with
        | fuel => rw [ea2, eb2] at h1; exact absurd h1 (by simp [RAgree])
        | err m' => rw [ea2, eb2] at h1; simpa [RAgree] using h1
        | ok b' sg => rw [ea2, eb2] at h1; exact absurd h1 (by simp [RAgree])
      | ok a' sg =>
        cases eb2 : execStmts P f body b with
        | fuel => rw [ea2, eb2] at h1; exact absurd h1 (by simp [RAgree])
        | err m' => rw [ea2, eb2] at h1; exact absurd h1 (by simp [RAgree])
        | ok b' sg' =>
          rw [ea2, eb2] at h1
          simp only [RAgree] at h1
          obtain ⟨es, hab⟩ := h1
          subst es
          cases sg with
          | exit => exact ⟨rfl, hab⟩
          | normal => exact ih.whileI c body a' b' hc hbody hab
          | cycle => exact ih.whileI c body a' b' hc hbody hab
    · exact ⟨rfl, h⟩
    · simp [RAgree]

theorem sim (P : Program) (V : String → Prop) : ∀ f, Sim P V f
  | 0 => sim_zero P V
  | f + 1 => sim_succ P V f (sim P V f)

end LokiModel.C33
