import LokiModel.Fir.Sem
/-!
# C33 model: `outline_pragma_regions` / `outline_region` (loki/transformations/extract/outline.py) on FIR programs

The real pipeline: `pragma_regions_attached(routine)` → `dataflow_analysis_attached(routine)` → for every
`PragmaRegion` whose pragma is `!$loki outline …` (in `FindNodes` order): `outline_region` builds a new `Subroutine`
and a `CallStatement`; afterwards one `Transformer` pass replaces every region by its call.  New routines are
appended to the source file in the order of creation (`ExtractTransformation.transform_file`).

What is modelled, line by line:

* the dataflow sets of the region (`DataflowAnalysisAttacher`, only the part `outline_region` reads:
  `region.uses_symbols`, `region.defines_symbols`), `dfBody`/`dfStmt`:
  `_visit_body` (`uses |= node.uses - defines; defines |= node.defines`), `visit_Assignment` (lhs name defined, lhs
  subscripts and rhs used), `visit_Loop` (bounds used, induction variable discarded from both sets),
  `visit_WhileLoop`, `visit_Conditional` (condition used, then/else visited with fresh `defines`, union of the defines:
  a conditional definition counts as a definition), `visit_MultiConditional`, PRINT/EXIT/CYCLE/comments/pragmas contribute
  nothing (`visit_Node`; PRINT is an opaque `Intrinsic` text node for Loki);
* `outline_region`: `in = uses − defines` (PARAMETERs removed), `inout = uses ∩ defines`, `out = defines − uses`, the
  pragma overrides `(in − (p_inout ∪ p_out)) ∪ p_in` … with Loki's symbol identity (an array taken from the parent's
  `variable_map` carries its declared dimensions and is therefore a *different* symbol from the dimension-stripped array of
  the dataflow sets: `Sym.dimmed`), the variables of the new routine (`FindVariables` over the region body: PRINT text is not
  seen), arguments in the order in/inout/out, then `order_variables_by_type` (sort by `str`, arrays before scalars) for
  arguments and for locals, declarations = arguments then locals with the parent's types (shape = declared shape), the call
  with the arguments in the sorted order; default name `<routine>_outlined_<counter>` or `name(…)`.

Covered input language (everything else gives `none` = `excluded` in the driver): regions that are a contiguous part of one
statement list of the main unit (any nesting inside DO/WHILE/IF/SELECT), not nested in each other, no ASSOCIATE around or
inside a region, no CALL inside a region (class `outline-call-in-region`: the real code declares the procedure name as a
typeless variable), pragma overrides that do not name an array (class `outline-override-array`: duplicate dummy).
Core Lean only.
-/
namespace LokiModel.C33
open LokiModel.Fir
open LokiModel.Expr (Val)

/-! ### variables of expressions (`FindVariables`) -/

mutual
def exVars : Ex → List String
  | .lit _ => []
  | .var x => [x]
  | .idx x subs => x :: exsVars subs
  | .sec x dims => x :: dimsVars dims
  | .neg a => exVars a
  | .not a => exVars a
  | .bin _ a b => exVars a ++ exVars b
  | .call _ args => exsVars args
def exsVars : List Ex → List String
  | [] => []
  | e :: es => exVars e ++ exsVars es
def dimsVars : List Dim → List String
  | [] => []
  | .at e :: ds => exVars e ++ dimsVars ds
  | .rng lo hi st :: ds => oexVars lo ++ oexVars hi ++ oexVars st ++ dimsVars ds
def oexVars : Option Ex → List String
  | none => []
  | some e => exVars e
end

/-- name and subscript variables of an assignment target (`_symbols_from_lhs_expr`) -/
def lhsName : Ex → List String
  | .var x => [x]
  | .idx x _ => [x]
  | .sec x _ => [x]
  | _ => []

def lhsSubVars : Ex → List String
  | .idx _ subs => exsVars subs
  | .sec _ dims => dimsVars dims
  | _ => []

/-! ### ordered sets of names -/

def union (a b : List String) : List String := a ++ b.filter fun x => !a.contains x
def diff (a b : List String) : List String := a.filter fun x => !b.contains x
def inter (a b : List String) : List String := a.filter fun x => b.contains x
def dedup : List String → List String
  | [] => []
  | x :: xs => x :: (dedup xs).filter (· != x)

/-! ### the dataflow sets of a statement list (defines, uses) -/

mutual
/-- `_visit_body` with accumulators `defs`, `uses` -/
def dfBody : List Stmt → List String → List String → List String × List String
  | [], defs, uses => (defs, uses)
  | s :: rest, defs, uses =>
      let r := dfStmt s
      dfBody rest (union defs r.1) (union uses (diff r.2 defs))
def dfStmt : Stmt → List String × List String
  | .assign lhs rhs => (lhsName lhs, union (dedup (lhsSubVars lhs)) (dedup (exVars rhs)))
  | .doLoop v lo hi st body =>
      let r := dfBody body [] (dedup (exVars lo ++ exVars hi ++ oexVars st))
      (r.1.filter (· != v), r.2.filter (· != v))
  | .while c body => dfBody body [] (dedup (exVars c))
  | .ifte c t e =>
      let r1 := dfBody t [] (dedup (exVars c))
      let r2 := dfBody e [] r1.2
      (union r1.1 r2.1, r2.2)
  | .select e cases d =>
      let r := dfCases cases [] (dedup (exVars e))
      let r2 := dfBody d [] r.2
      (union r.1 r2.1, r2.2)
  | .assoc _ _ => ([], [])          -- outside the covered class
  | .callSub _ args =>              -- `visit_CallStatement` without call context (outside the covered class inside regions)
      let dims := dedup (args.flatMap lhsSubVars)
      let defs := diff (dedup (exsVars args)) dims
      (defs, union defs dims)
  | .print _ => ([], [])
  | .exit => ([], [])
  | .cycle => ([], [])
  | .nop _ _ => ([], [])
/-- the bodies of a `MultiConditional`: each visited with fresh `defines` and the running `uses` -/
def dfCases : List (List Int × List Stmt) → List String → List String → List String × List String
  | [], defs, uses => (defs, uses)
  | (_, b) :: cs, defs, uses =>
      let r := dfBody b [] uses
      dfCases cs (union defs r.1) r.2
end

/-! ### variables, loop variables, syntactic class tests of a region body -/

mutual
/-- `FindVariables().visit(region.body)` as names (PRINT arguments are text for Loki and not seen) -/
def bodyVars : List Stmt → List String
  | [] => []
  | s :: rest => stmtVars s ++ bodyVars rest
def stmtVars : Stmt → List String
  | .assign lhs rhs => exVars lhs ++ exVars rhs
  | .doLoop v lo hi st body => v :: (exVars lo ++ exVars hi ++ oexVars st ++ bodyVars body)
  | .while c body => exVars c ++ bodyVars body
  | .ifte c t e => exVars c ++ bodyVars t ++ bodyVars e
  | .select e cases d => exVars e ++ casesVars cases ++ bodyVars d
  | .assoc bs body => bs.flatMap (fun b => exVars b.2) ++ bodyVars body
  | .callSub f args => f :: exsVars args
  | .print _ => []
  | .exit => []
  | .cycle => []
  | .nop _ _ => []
def casesVars : List (List Int × List Stmt) → List String
  | [] => []
  | (_, b) :: cs => bodyVars b ++ casesVars cs
end

mutual
/-- variables mentioned by PRINT statements -/
def printVars : List Stmt → List String
  | [] => []
  | s :: rest => printVarsS s ++ printVars rest
def printVarsS : Stmt → List String
  | .print args => exsVars args
  | .doLoop _ _ _ _ body => printVars body
  | .while _ body => printVars body
  | .ifte _ t e => printVars t ++ printVars e
  | .select _ cases d => printVarsC cases ++ printVars d
  | .assoc _ body => printVars body
  | _ => []
def printVarsC : List (List Int × List Stmt) → List String
  | [] => []
  | (_, b) :: cs => printVars b ++ printVarsC cs
end

mutual
/-- DO variables of the loops in a statement list -/
def loopVars : List Stmt → List String
  | [] => []
  | s :: rest => loopVarsS s ++ loopVars rest
def loopVarsS : Stmt → List String
  | .doLoop v _ _ _ body => v :: loopVars body
  | .while _ body => loopVars body
  | .ifte _ t e => loopVars t ++ loopVars e
  | .select _ cases d => loopVarsC cases ++ loopVars d
  | .assoc _ body => loopVars body
  | _ => []
def loopVarsC : List (List Int × List Stmt) → List String
  | [] => []
  | (_, b) :: cs => loopVars b ++ loopVarsC cs
end

mutual
/-- a CALL statement somewhere in the list -/
def hasCall : List Stmt → Bool
  | [] => false
  | s :: rest => hasCallS s || hasCall rest
def hasCallS : Stmt → Bool
  | .callSub _ _ => true
  | .doLoop _ _ _ _ body => hasCall body
  | .while _ body => hasCall body
  | .ifte _ t e => hasCall t || hasCall e
  | .select _ cases d => hasCallC cases || hasCall d
  | .assoc _ body => hasCall body
  | _ => false
def hasCallC : List (List Int × List Stmt) → Bool
  | [] => false
  | (_, b) :: cs => hasCall b || hasCallC cs
end

mutual
/-- an ASSOCIATE block somewhere in the list -/
def hasAssoc : List Stmt → Bool
  | [] => false
  | s :: rest => hasAssocS s || hasAssoc rest
def hasAssocS : Stmt → Bool
  | .assoc _ _ => true
  | .doLoop _ _ _ _ body => hasAssoc body
  | .while _ body => hasAssoc body
  | .ifte _ t e => hasAssoc t || hasAssoc e
  | .select _ cases d => hasAssocC cases || hasAssoc d
  | _ => false
def hasAssocC : List (List Int × List Stmt) → Bool
  | [] => false
  | (_, b) :: cs => hasAssoc b || hasAssocC cs
end

/-! ### liveness after a region (for the classes that depend on what follows the region) -/

mutual
/-- `x` may be read before it is written again when `ss` is executed (sound over-approximation: `none` = surely read first
is reported as `some true`; `some false` = surely overwritten first; `none` = falls through unread and unwritten) -/
def liveIn (x : String) : List Stmt → Option Bool
  | [] => none
  | s :: rest =>
      match liveInS x s with
      | some b => some b
      | none => liveIn x rest
def liveInS (x : String) : Stmt → Option Bool
  | .assign lhs rhs =>
      if (exVars rhs).contains x || (lhsSubVars lhs).contains x then some true
      else match lhs with
        | .var y => if y == x then some false else none      -- scalar or whole-array assignment overwrites
        | _ => none
  | .doLoop v lo hi st body =>
      if (exVars lo ++ exVars hi ++ oexVars st).contains x then some true
      else if v == x then some false
      else match liveIn x body with
        | some true => some true
        | _ => none
  | .while c body =>
      if (exVars c).contains x then some true
      else match liveIn x body with
        | some true => some true
        | _ => none
  | .ifte c t e =>
      if (exVars c).contains x then some true
      else match liveIn x t, liveIn x e with
        | some true, _ => some true
        | _, some true => some true
        | some false, some false => some false
        | _, _ => none
  | .select e cases d =>
      if (exVars e).contains x then some true
      else match liveInC x cases, liveIn x d with
        | some true, _ => some true
        | _, some true => some true
        | some false, some false => some false
        | _, _ => none
  | .assoc bs body =>
      if (bs.flatMap fun b => exVars b.2).contains x then some true
      else match liveIn x body with
        | some true => some true
        | _ => none
  | .callSub _ args => if (exsVars args).contains x then some true else none
  | .print args => if (exsVars args).contains x then some true else none
  | .exit => none
  | .cycle => none
  | .nop _ _ => none
/-- all case bodies: `some false` only when every body overwrites first (and there is at least one) -/
def liveInC (x : String) : List (List Int × List Stmt) → Option Bool
  | [] => some false
  | (_, b) :: cs =>
      match liveIn x b, liveInC x cs with
      | some true, _ => some true
      | _, some true => some true
      | some false, some false => some false
      | _, _ => none
end

/-- `x` is live after a point whose continuation is `k` in a unit with dummies `dummies` -/
def liveAfter (dummies : List String) (k : List Stmt) (x : String) : Bool :=
  match liveIn x k with
  | some b => b
  | none => dummies.contains x

mutual
/-- `x` is written on every path through `ss` before the end (scalar / whole-array assignment, DO variable) -/
def mustDef (x : String) : List Stmt → Bool
  | [] => false
  | s :: rest => mustDefS x s || mustDef x rest
def mustDefS (x : String) : Stmt → Bool
  | .assign (.var y) _ => y == x
  | .doLoop v _ _ _ _ => v == x
  | .ifte _ t e => mustDef x t && mustDef x e
  | _ => false
end

/-! ### pragma text -/

def splitOn1 (c : Char) (s : List Char) : List Char × List Char :=
  (s.takeWhile (· != c), (s.dropWhile (· != c)).drop 1)

/-- words of a text separated by blanks -/
def words (s : String) : List String := (s.splitOn " ").filter (· != "")

/-- `key(val)` → `(key, val)`; a bare word → `(word, "")` -/
def keyVal (w : String) : String × String :=
  let p := splitOn1 '(' w.toList
  (String.ofList p.1, String.ofList (p.2.takeWhile (· != ')')))

def commaList (s : String) : List String := (s.splitOn ",").filter (· != "")

structure Hdr where
  name : Option String
  pin : List String
  pinout : List String
  pout : List String
deriving Repr

/-- `loki outline [name(f)] [in(a,b)] [inout(…)] [out(…)]` -/
def parseStart (text : String) : Option Hdr :=
  match words text with
  | "loki" :: "outline" :: ws =>
      let kv := ws.map keyVal
      let get := fun (k : String) => (kv.find? (·.1 == k)).map (·.2)
      some { name := get "name", pin := commaList ((get "in").getD ""), pinout := commaList ((get "inout").getD ""),
             pout := commaList ((get "out").getD "") }
  | _ => none

def isEnd (s : Stmt) : Bool :=
  match s with
  | .nop k t => k == "pragma" && words t == ["loki", "end", "outline"]
  | _ => false

def startOf (s : Stmt) : Option Hdr :=
  match s with
  | .nop k t => if k == "pragma" then parseStart t else none
  | _ => none

mutual
/-- an outline start / end pragma somewhere in the list (nested regions are outside the covered class) -/
def hasMarker : List Stmt → Bool
  | [] => false
  | s :: rest => hasMarkerS s || hasMarker rest
def hasMarkerS : Stmt → Bool
  | .nop k t => k == "pragma" && ((parseStart t).isSome || words t == ["loki", "end", "outline"])
  | .doLoop _ _ _ _ body => hasMarker body
  | .while _ body => hasMarker body
  | .ifte _ t e => hasMarker t || hasMarker e
  | .select _ cases d => hasMarkerC cases || hasMarker d
  | .assoc _ body => hasMarker body
  | _ => false
def hasMarkerC : List (List Int × List Stmt) → Bool
  | [] => false
  | (_, b) :: cs => hasMarker b || hasMarkerC cs
end

/-! ### `outline_region` -/

/-- Loki's symbol identity in the in/inout/out sets: arrays taken from the parent's `variable_map` (pragma overrides) carry
their declared dimensions and differ from the dimension-stripped arrays of the dataflow sets -/
structure Sym where
  name : String
  dimmed : Bool
deriving Repr, DecidableEq, BEq

def symDiff (a b : List Sym) : List Sym := a.filter fun x => !b.contains x
def symUnion (a b : List Sym) : List Sym := a ++ b.filter fun x => !a.contains x

def insertSorted (x : String) : List String → List String
  | [] => [x]
  | y :: ys => if x < y then x :: y :: ys else y :: insertSorted x ys

/-- `sorted(…, key=str)` (names are distinct identifiers, so the order of `str(v)` is the order of the names) -/
def sortNames (xs : List String) : List String := xs.foldr insertSorted []

def findD (decls : List Decl) (x : String) : Option Decl := decls.find? (·.name == x)

def isArray (decls : List Decl) (x : String) : Bool :=
  match findD decls x with
  | some d => !d.dims.isEmpty
  | none => false

def isParam (decls : List Decl) (x : String) : Bool :=
  match findD decls x with
  | some d => d.param.isSome
  | none => false

/-- `order_variables_by_type`: sorted by name, arrays first, then scalars -/
def orderByType (decls : List Decl) (xs : List String) : List String :=
  let s := sortNames xs
  s.filter (isArray decls) ++ s.filter (fun x => !isArray decls x)

structure Outlined where
  unit : Fir.Unit
  call : Stmt
  /-- argument names with their intent, in the order in / inout / out (before sorting) -/
  ins : List String
  inouts : List String
  outs : List String
  locals : List String


/-- the new routine and the call for one region (parent declarations `decls`) -/
def outlineRegion (decls : List Decl) (name : String) (h : Hdr) (body : List Stmt) : Outlined :=
  let df := dfBody body [] []
  let defs := df.1
  let uses := df.2
  let sym := fun (x : String) => ({ name := x, dimmed := false } : Sym)
  let psym := fun (x : String) => ({ name := x, dimmed := isArray decls x } : Sym)
  let in0 := ((diff uses defs).filter fun x => !isParam decls x).map sym
  let inout0 := (inter uses defs).map sym
  let out0 := (diff defs uses).map sym
  let pIn := h.pin.map psym
  let pInout := h.pinout.map psym
  let pOut := h.pout.map psym
  let rIn := symUnion (symDiff in0 (symUnion pInout pOut)) pIn
  let rInout := symUnion (symDiff inout0 (symUnion pIn pOut)) pInout
  let rOut := symUnion (symDiff out0 (symUnion pIn pInout)) pOut
  let ins := rIn.map (·.name)
  let inouts := rInout.map (·.name)
  let outs := rOut.map (·.name)
  let argNames := ins ++ inouts ++ outs
  let vars := dedup (bodyVars body)
  let locals := vars.filter fun x => !argNames.contains x
  let sortedArgs := orderByType decls argNames
  let sortedLocals := orderByType decls locals
  let intentOf := fun (x : String) =>
    if outs.contains x then Intent.out else if inouts.contains x then Intent.inout else Intent.in_
  let argDecls := sortedArgs.filterMap fun x => (findD decls x).map fun d => { d with intent := intentOf x }
  let localDecls := sortedLocals.filterMap fun x => findD decls x
  { unit := { name := name, args := sortedArgs, decls := argDecls ++ localDecls, body := body },
    call := .callSub name (sortedArgs.map .var),
    ins := ins, inouts := inouts, outs := outs, locals := sortedLocals }

/-! ### known-finding classes (decidable; Python mirrors in harness/props/c33.py) -/

/-- `outline-call-in-region`: the region contains a CALL: `FindVariables` returns the procedure symbol, which is declared in
the new routine as a variable without type (` :: sub1`) — rejected by any compiler -/
def KnownCallInRegion (body : List Stmt) : Bool := hasCall body

/-- `outline-override-array`: a pragma override names an array that the region mentions: the array from `variable_map`
(with dimensions) and the stripped array of the dataflow sets are different symbols, the array becomes a dummy twice -/
def KnownOverrideArray (decls : List Decl) (h : Hdr) (body : List Stmt) : Bool :=
  (h.pin ++ h.pinout ++ h.pout).any fun x => isArray decls x && (bodyVars body).contains x

/-- `outline-print-var`: a PRINT statement of the region mentions a variable that no other statement of the region mentions:
PRINT is text for Loki, the variable is neither passed nor declared (the new routine has no IMPLICIT NONE) -/
def KnownPrintVar (o : Outlined) : Bool :=
  (printVars o.unit.body).any fun x => !(o.unit.decls.any (·.name == x))

/-- `outline-shape-symbol`: an array of the new routine is declared with the parent's shape, and a variable of that shape is
not a scalar dummy of the new routine (it is undeclared there, or a local) -/
def KnownShapeSymbol (o : Outlined) : Bool :=
  o.unit.decls.any fun d =>
    (d.dims.flatMap fun b => exVars b.1 ++ exVars b.2).any fun x =>
      !(o.unit.args.contains x && (o.unit.decls.any fun d' => d'.name == x && d'.dims.isEmpty))

/-- `outline-loopvar-intent-in`: the variable of a DO loop of the region is also read outside that loop in the region
(before any definition): `visit_Loop` discards the induction variable from `defines`, so the variable is `uses − defines`
= INTENT(IN) although the loop assigns it -/
def KnownLoopVarIn (o : Outlined) : Bool := (loopVars o.unit.body).any fun v => o.ins.contains v

/-- `outline-local-live`: a variable that the region writes but the new routine keeps as a local (the DO variables) is read
after the region before being written again (the caller's variable keeps its old value) -/
def KnownLocalLive (decls : List Decl) (dummies : List String) (k : List Stmt) (o : Outlined) : Bool :=
  o.locals.any fun x => !isParam decls x && liveAfter dummies k x

/-- `outline-out-maybe-undefined` (standard conformance, invisible under by-reference argument passing): an INTENT(OUT)
dummy may be read in the region before it is overwritten as a whole (an element assignment "defines" the array for the
dataflow analysis and hides later reads), or it is not surely overwritten (only on some paths / only some elements) and the
actual argument is read after the call -/
def KnownOutMaybe (dummies : List String) (k : List Stmt) (o : Outlined) : Bool :=
  o.outs.any fun x =>
    match liveIn x o.unit.body with
    | some true => true
    | some false => false
    | none => liveAfter dummies k x

def classesOf (decls : List Decl) (dummies : List String) (k : List Stmt) (h : Hdr) (o : Outlined) : List String :=
  (if KnownCallInRegion o.unit.body then ["outline-call-in-region"] else []) ++
  (if KnownOverrideArray decls h o.unit.body then ["outline-override-array"] else []) ++
  (if KnownPrintVar o then ["outline-print-var"] else []) ++
  (if KnownShapeSymbol o then ["outline-shape-symbol"] else []) ++
  (if KnownLoopVarIn o then ["outline-loopvar-intent-in"] else []) ++
  (if KnownLocalLive decls dummies k o then ["outline-local-live"] else []) ++
  (if KnownOutMaybe dummies k o then ["outline-out-maybe-undefined"] else [])

/-! ### `outline_pragma_regions`: all regions of a unit -/

structure Acc where
  counter : Nat := 0
  units : List Fir.Unit := []
  classes : List String := []
  /-- a region lies in or around an ASSOCIATE block, or regions are nested (outside the covered class) -/
  bad : Bool := false

structure Ctx where
  mainName : String
  decls : List Decl
  dummies : List String

def regionName (c : Ctx) (h : Hdr) (n : Nat) : String :=
  match h.name with
  | some f => f
  | none => c.mainName ++ "_outlined_" ++ toString n

mutual
/-- one statement list; `open_` = header and reversed body of the region being collected; `k` = what is executed after this
list (over-approximated: a loop is followed by itself) -/
def olStmts (c : Ctx) : List Stmt → Option (Hdr × List Stmt) → List Stmt → Acc → List Stmt × Acc
  | [], none, _, acc => ([], acc)
  | [], some (_, revBody), _, acc => (revBody.reverse, acc)       -- unreachable: a region is only opened when its end exists
  | s :: rest, some (h, revBody), k, acc =>
      if isEnd s then
        let body := revBody.reverse
        let o := outlineRegion c.decls (regionName c h acc.counter) h body
        let acc' : Acc := { counter := acc.counter + 1, units := acc.units ++ [o.unit],
                            classes := acc.classes ++ classesOf c.decls c.dummies (rest ++ k) h o,
                            bad := acc.bad || hasAssoc body || hasMarker body }
        let r := olStmts c rest none k acc'
        (o.call :: r.1, r.2)
      else olStmts c rest (some (h, s :: revBody)) k acc
  | s :: rest, none, k, acc =>
      match startOf s with
      | some h =>
          if rest.any isEnd then olStmts c rest (some (h, [])) k acc
          else
            let r := olStmts c rest none k acc
            (s :: r.1, r.2)
      | none =>
          let r1 := olStmt c s (rest ++ k) acc
          let r := olStmts c rest none k r1.2
          (r1.1 :: r.1, r.2)
def olStmt (c : Ctx) : Stmt → List Stmt → Acc → Stmt × Acc
  | .doLoop v lo hi st body, k, acc =>
      let r := olStmts c body none (.doLoop v lo hi st body :: k) acc
      (.doLoop v lo hi st r.1, r.2)
  | .while cnd body, k, acc =>
      let r := olStmts c body none (.while cnd body :: k) acc
      (.while cnd r.1, r.2)
  | .ifte cnd t e, k, acc =>
      let r1 := olStmts c t none k acc
      let r2 := olStmts c e none k r1.2
      (.ifte cnd r1.1 r2.1, r2.2)
  | .select e cases d, k, acc =>
      let r1 := olCases c cases k acc
      let r2 := olStmts c d none k r1.2
      (.select e r1.1 r2.1, r2.2)
  | .assoc bs body, k, acc =>
      let r := olStmts c body none k acc
      (.assoc bs r.1, { r.2 with bad := r.2.bad || r.2.counter != acc.counter })
  | s, _, acc => (s, acc)
def olCases (c : Ctx) : List (List Int × List Stmt) → List Stmt → Acc → List (List Int × List Stmt) × Acc
  | [], _, acc => ([], acc)
  | (vs, b) :: cs, k, acc =>
      let r1 := olStmts c b none k acc
      let r2 := olCases c cs k r1.2
      ((vs, r1.1) :: r2.1, r2.2)
end

structure Result where
  prog : Program
  /-- classes in a fixed order; for an excluded program only the two classes that are decided on the source alone -/
  classes : List String
  excluded : Bool

/-- `ExtractTransformation(outline_regions=True).transform_file` on a program whose regions are in the main unit -/
def outlineProgram (p : Program) : Result :=
  match findUnit p p.main with
  | none => { prog := p, classes := [], excluded := true }
  | some u =>
      let c : Ctx := { mainName := u.name, decls := u.decls, dummies := u.args }
      let r := olStmts c u.body none [] {}
      let u' : Fir.Unit := { u with body := r.1 }
      let all := dedup r.2.classes
      let excluded := r.2.bad || all.contains "outline-call-in-region" || all.contains "outline-override-array"
      let order := ["outline-call-in-region", "outline-override-array", "outline-print-var", "outline-shape-symbol",
                    "outline-loopvar-intent-in", "outline-local-live", "outline-out-maybe-undefined"]
      let cls := order.filter fun c => all.contains c &&
        (!excluded || c == "outline-call-in-region" || c == "outline-override-array")
      { prog := { p with units := (p.units.map fun w => if w.name == u.name then u' else w) ++ r.2.units },
        classes := cls,
        excluded := excluded }

end LokiModel.C33
