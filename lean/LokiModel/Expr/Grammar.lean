import LokiModel.Expr.Basic
/-!
# The Fortran expression grammar as a derivation relation

`G ℓ ts s`: the token list `ts` is derivable at grammar level `ℓ` and means the semantic tree `s`.
Levels (F2018 R1001–R1022 restricted to the tokens of `Tok`):

| ℓ | nonterminal | rule |
|---|---|---|
| 7 | primary | constant, variable, `( expr )` |
| 6 | mult-operand | primary `[ ** mult-operand ]` (right associative) |
| 5 | add-operand | `[ add-operand mult-op ]` mult-operand (left associative `* /`) |
| 4 | level-2-expr | `[ [ level-2-expr ] add-op ]` add-operand (left associative `+ -`, leading sign) |
| 3 | level-4-expr | `[ level-2 rel-op ]` level-2 (not associative) |
| 2 | and-operand | `[ .not. ]` level-4-expr |
| 1 | or-operand | `[ or-operand .and. ]` and-operand |
| 0 | expr | `[ expr .or. ]` or-operand |

(character concatenation, defined operators, `.eqv./.neqv.` and unary plus are outside the token set.)
-/
namespace LokiModel.Expr
open Tok

inductive G : Nat → List Tok → S → Prop where
  | num (n : Nat) : G 7 [num n] (.int n)
  | rnum (t : String) : G 7 [rnum t] (.real t)
  | ident (x : String) : G 7 [id x] (.var x)
  | tru : G 7 [tru] (.bool true)
  | fls : G 7 [fls] (.bool false)
  | paren {ts s} : G 0 ts s → G 7 ([lp] ++ ts ++ [rp]) s
  | up {ℓ ts s} : ℓ < 7 → G (ℓ + 1) ts s → G ℓ ts s
  | pow {xs ys a b} : G 7 xs a → G 6 ys b → G 6 (xs ++ [Tok.pow] ++ ys) (.pow a b)
  | mul {xs ys a b} : G 5 xs a → G 6 ys b → G 5 (xs ++ [star] ++ ys) (.mul a b)
  | div {xs ys a b} : G 5 xs a → G 6 ys b → G 5 (xs ++ [slash] ++ ys) (.div a b)
  | neg {xs a} : G 5 xs a → G 4 ([minus] ++ xs) (.neg a)
  | add {xs ys a b} : G 4 xs a → G 5 ys b → G 4 (xs ++ [plus] ++ ys) (.add a b)
  | sub {xs ys a b} : G 4 xs a → G 5 ys b → G 4 (xs ++ [minus] ++ ys) (.sub a b)
  | cmp {o xs ys a b} : G 4 xs a → G 4 ys b → G 3 (xs ++ [Tok.cmp o] ++ ys) (.cmp o a b)
  | not {xs a} : G 3 xs a → G 2 ([Tok.not] ++ xs) (.not a)
  | and {xs ys a b} : G 1 xs a → G 2 ys b → G 1 (xs ++ [Tok.and] ++ ys) (.and a b)
  | or {xs ys a b} : G 0 xs a → G 1 ys b → G 0 (xs ++ [Tok.or] ++ ys) (.or a b)

/-- a derivation at a higher level is a derivation at every lower level -/
theorem G.weaken {ℓ ℓ' : Nat} {ts s} (h : G ℓ' ts s) (hle : ℓ ≤ ℓ') (h7 : ℓ' ≤ 7) : G ℓ ts s := by
  induction hle' : ℓ' - ℓ generalizing ℓ with
  | zero => have : ℓ = ℓ' := by omega
            subst this; exact h
  | succ k ih =>
    have := ih (ℓ := ℓ + 1) (by omega) (by omega)
    exact G.up (by omega) this

theorem G.nonempty {ℓ ts s} (h : G ℓ ts s) : ts ≠ [] := by
  induction h <;> simp_all

end LokiModel.Expr
