import LokiModel.Expr.Basic
/-! Algebraic facts about the reference semantics used by printer/parser proofs. -/
namespace LokiModel.Expr

theorem SEq.refl (a : S) : SEq a a := fun _ => rfl
theorem SEq.symm {a b : S} (h : SEq a b) : SEq b a := fun env => (h env).symm
theorem SEq.trans {a b c : S} (h1 : SEq a b) (h2 : SEq b c) : SEq a c := fun env => (h1 env).trans (h2 env)

theorem SEq.neg {a a'} (h : SEq a a') : SEq (.neg a) (.neg a') := fun env => by simp [evalS, h env]
theorem SEq.add {a a' b b'} (h : SEq a a') (k : SEq b b') : SEq (.add a b) (.add a' b') := fun env => by simp [evalS, h env, k env]
theorem SEq.sub {a a' b b'} (h : SEq a a') (k : SEq b b') : SEq (.sub a b) (.sub a' b') := fun env => by simp [evalS, h env, k env]
theorem SEq.mul {a a' b b'} (h : SEq a a') (k : SEq b b') : SEq (.mul a b) (.mul a' b') := fun env => by simp [evalS, h env, k env]
theorem SEq.div {a a' b b'} (h : SEq a a') (k : SEq b b') : SEq (.div a b) (.div a' b') := fun env => by simp [evalS, h env, k env]
theorem SEq.pow {a a' b b'} (h : SEq a a') (k : SEq b b') : SEq (.pow a b) (.pow a' b') := fun env => by simp [evalS, h env, k env]
theorem SEq.cmp {o a a' b b'} (h : SEq a a') (k : SEq b b') : SEq (.cmp o a b) (.cmp o a' b') := fun env => by simp [evalS, h env, k env]
theorem SEq.not {a a'} (h : SEq a a') : SEq (.not a) (.not a') := fun env => by simp [evalS, h env]
theorem SEq.and {a a' b b'} (h : SEq a a') (k : SEq b b') : SEq (.and a b) (.and a' b') := fun env => by simp [evalS, h env, k env]
theorem SEq.or {a a' b b'} (h : SEq a a') (k : SEq b b') : SEq (.or a b) (.or a' b') := fun env => by simp [evalS, h env, k env]

namespace Val

theorem add_assoc' (a b c : Val) : (add a b).bind (fun x => add x c) = (add b c).bind (fun y => add a y) := by
  cases a <;> cases b <;> cases c <;> simp [add, arith, Int.add_assoc, Rat.add_assoc, Rat.intCast_add]

theorem add_sub_assoc' (a b c : Val) : (add a b).bind (fun x => sub x c) = (sub b c).bind (fun y => add a y) := by
  cases a <;> cases b <;> cases c <;> simp [add, sub, arith, Rat.intCast_add, Rat.intCast_sub] <;> grind

theorem mul_assoc' (a b c : Val) : (mul a b).bind (fun x => mul x c) = (mul b c).bind (fun y => mul a y) := by
  cases a <;> cases b <;> cases c <;> simp [mul, arith, Int.mul_assoc, Rat.mul_assoc, Rat.intCast_mul]

theorem neg_one_mul (a : Val) : mul (int (-1)) a = neg a := by
  cases a <;> simp [mul, arith, neg] <;> grind

theorem add_neg_one_mul (a b : Val) : (mul (int (-1)) b).bind (fun y => add a y) = sub a b := by
  cases a <;> cases b <;> simp [mul, add, sub, arith] <;> grind

theorem land_assoc' (a b c : Val) : (land a b).bind (fun x => land x c) = (land b c).bind (fun y => land a y) := by
  cases a <;> cases b <;> cases c <;> simp [land, Bool.and_assoc]

theorem lor_assoc' (a b c : Val) : (lor a b).bind (fun x => lor x c) = (lor b c).bind (fun y => lor a y) := by
  cases a <;> cases b <;> cases c <;> simp [lor, Bool.or_assoc]

end Val

theorem bin_assoc {f g h k : Val → Val → Option Val}
    (hyp : ∀ a b c, (f a b).bind (fun x => g x c) = (h b c).bind (fun y => k a y))
    (x y z : Option Val) : bin g (bin f x y) z = bin k x (bin h y z) := by
  cases x <;> cases y <;> cases z <;> simp [bin] <;> first | exact hyp _ _ _ | skip
  all_goals (try (rename_i a b; cases hfa : f a b <;> simp))
  all_goals (try (rename_i a b; cases hfa : h a b <;> simp))

end LokiModel.Expr
