/-!
# Shared expression layer: tokens, semantic trees, Fortran values and evaluation

`S` is the *meaning* of a Fortran expression: a binary tree without parenthesis nodes.
`evalS` is the reference semantics (my reading of F2018 10.1: integer division truncates toward
zero, mixed-mode operands are promoted to real, `**` with an integer exponent, relational operators
on numbers, `.not. .and. .or.` on logicals).  Reals are exact rationals (`Rat`); floating-point
rounding is outside the model.  `none` = type error, division by zero, or `0**negative`.
Core Lean only.
-/
namespace LokiModel.Expr

inductive CmpOp where
  | eq | ne | lt | le | gt | ge
deriving Repr, DecidableEq, Inhabited

/-- tokens of the expression sub-language (kind suffixes are stripped by the harness tokeniser) -/
inductive Tok where
  | num (n : Nat)            -- unsigned integer literal
  | rnum (txt : String)      -- unsigned real literal, identified by its text; value from the valuation
  | id (s : String)          -- variable
  | tru | fls
  | plus | minus | star | slash | pow | lp | rp
  | cmp (o : CmpOp) | not | and | or
deriving Repr, DecidableEq, Inhabited

/-- semantic expression tree -/
inductive S where
  | int (n : Nat)
  | real (txt : String)
  | var (s : String)
  | bool (b : Bool)
  | neg (a : S)
  | add (a b : S) | sub (a b : S) | mul (a b : S) | div (a b : S) | pow (a b : S)
  | cmp (o : CmpOp) (a b : S)
  | not (a : S) | and (a b : S) | or (a b : S)
deriving Repr, DecidableEq, Inhabited

inductive Val where
  | int (i : Int) | real (q : Rat) | bool (b : Bool)
deriving Repr, DecidableEq, Inhabited

/-- a valuation: variables (lower-cased names) and the values of real literal texts -/
structure Env where
  var : String → Option Val
  lit : String → Rat

namespace Val

def toRat? : Val → Option Rat
  | int i => some (i : Rat)
  | real q => some q
  | bool _ => none

def neg : Val → Option Val
  | int i => some (int (-i))
  | real q => some (real (-q))
  | bool _ => none

/-- mixed-mode binary arithmetic: both integer → `fi`, otherwise promote to real → `fr` -/
def arith (fi : Int → Int → Option Int) (fr : Rat → Rat → Option Rat) : Val → Val → Option Val
  | int a, int b => (fi a b).map int
  | int a, real b => (fr a b).map real
  | real a, int b => (fr a b).map real
  | real a, real b => (fr a b).map real
  | _, _ => none

def add := arith (fun a b => some (a + b)) (fun a b => some (a + b))
def sub := arith (fun a b => some (a - b)) (fun a b => some (a - b))
def mul := arith (fun a b => some (a * b)) (fun a b => some (a * b))
def div := arith (fun a b => if b = 0 then none else some (a.tdiv b))
                 (fun a b => if b = 0 then none else some (a / b))

/-- integer power of an integer, Fortran rules for negative exponents -/
def ipow (a : Int) (b : Int) : Option Int :=
  if 0 ≤ b then some (a ^ b.toNat)
  else if a = 0 then none
  else if a = 1 then some 1
  else if a = -1 then some (if b % 2 = 0 then 1 else -1)
  else some 0

def rpowNat (q : Rat) : Nat → Rat
  | 0 => 1
  | n + 1 => rpowNat q n * q

def rpow (q : Rat) (b : Int) : Option Rat :=
  if 0 ≤ b then some (rpowNat q b.toNat)
  else if q = 0 then none
  else some (1 / rpowNat q (-b).toNat)

/-- `a ** b`; only integer exponents are in the model -/
def pow : Val → Val → Option Val
  | int a, int b => (ipow a b).map int
  | real a, int b => (rpow a b).map real
  | _, _ => none

def cmpRat (o : CmpOp) (a b : Rat) : Bool :=
  match o with
  | .eq => a == b | .ne => a != b | .lt => a < b | .le => a ≤ b | .gt => b < a | .ge => b ≤ a

def cmp (o : CmpOp) (a b : Val) : Option Val := do
  let x ← a.toRat?
  let y ← b.toRat?
  pure (bool (cmpRat o x y))

def lnot : Val → Option Val
  | bool b => some (bool (!b))
  | _ => none

def land : Val → Val → Option Val
  | bool a, bool b => some (bool (a && b))
  | _, _ => none

def lor : Val → Val → Option Val
  | bool a, bool b => some (bool (a || b))
  | _, _ => none

end Val

def bin (f : Val → Val → Option Val) (x y : Option Val) : Option Val := do
  let a ← x
  let b ← y
  f a b

def evalS (env : Env) : S → Option Val
  | .int n => some (.int n)
  | .real t => some (.real (env.lit t))
  | .var s => env.var s
  | .bool b => some (.bool b)
  | .neg a => (evalS env a).bind Val.neg
  | .add a b => bin Val.add (evalS env a) (evalS env b)
  | .sub a b => bin Val.sub (evalS env a) (evalS env b)
  | .mul a b => bin Val.mul (evalS env a) (evalS env b)
  | .div a b => bin Val.div (evalS env a) (evalS env b)
  | .pow a b => bin Val.pow (evalS env a) (evalS env b)
  | .cmp o a b => bin (Val.cmp o) (evalS env a) (evalS env b)
  | .not a => (evalS env a).bind Val.lnot
  | .and a b => bin Val.land (evalS env a) (evalS env b)
  | .or a b => bin Val.lor (evalS env a) (evalS env b)

/-- two semantic trees are equivalent when they have the same value (or the same failure) under every valuation -/
def SEq (a b : S) : Prop := ∀ env, evalS env a = evalS env b

end LokiModel.Expr
