/-!
# C22 — model of `Scheduler.process_transformation`, `SFilter`, `SGraph.as_filegraph`
and the `Transformation.apply*` dispatch (loki/batch/{scheduler,sfilter,sgraph,transformation}.py)

The dependency graph is *given* (items with their attributes, edge list); `nx.topological_sort`
is a parameter `order` (contract `IsTopo`, decidable as `isTopo`, checked on every real run).
Core Lean only.
-/
namespace LokiModel.C22

/-! ## Data -/

/-- `Item` subclasses.  For an `ExternalItem` the kind is its `origin_cls`. -/
inductive Kind | proc | module | typedef | iface | binding | file
deriving DecidableEq, Repr, Inhabited

/-- a `FileItem` as far as processing looks at it -/
structure FileNode where
  name : String
  mode : Option String
  role : Option String
deriving DecidableEq, Repr, Inhabited

/-- one entry that `Item._get_children` derives from an IR dependency node: the child name, the name
variants `match_item_keys(.., match_item_parents=True)` compares with the exclusion keys
(`scope#name`, `name`, `scope`), for imported symbols also the variants of the module entry, and
`symbol.type.parameter` -/
structure Dep where
  name : String
  variants : List String
  modVariants : List String
  param : Bool
deriving DecidableEq, Repr, Inhabited

/-- a `Subroutine` IR node: its name and the names of its internal procedures -/
structure Sub where
  name : String
  members : List String
deriving DecidableEq, Repr, Inhabited

structure Item where
  name : String
  kind : Kind
  ext : Bool              -- isinstance(item, ExternalItem)
  generated : Bool        -- ExternalItem.is_generated
  ignored : Bool          -- item.is_ignored
  mode : Option String
  role : Option String
  file : FileNode         -- file item of item.source (unused for externals)
  scope : Option String   -- item.scope_name
  deps : List Dep         -- abstraction of item.dependencies
  excl : List String      -- item.disable ++ item.block, lower-cased
  irMod : Bool            -- transformation_ir is a Module (else a Subroutine)
  irName : String
  irMembers : List String -- Subroutine: internal procedures
  irSubs : List Sub       -- Module: its subroutines
deriving DecidableEq, Repr, Inhabited

structure Graph where
  items : List Item                -- sgraph.items (node insertion order)
  edges : List (Item × Item)       -- sgraph.dependencies

/-- the class attributes of a `Transformation` read by the scheduler and by `apply*` -/
structure Manifest where
  flt : List Kind          -- as_tuple(item_filter); [] = no filter (falls back to `Item`)
  reverse : Bool
  fileGraph : Bool
  procIgnored : Bool
  recMod : Bool
  recProc : Bool
  recInt : Bool
deriving Repr

structure Cfg where
  strict : Bool            -- config.default.get('strict', True)
  mode : Option String     -- `mode` argument of process_transformation
  plan : Bool              -- proc_strategy == PLAN
deriving Repr

/-! ## SFilter -/

structure SF where
  flt : List Kind
  reverse : Bool
  exclIgn : Bool
  inclExt : Bool
  mode : Option String

/-- what `SFilter.__next__` reads from a node -/
structure Attr where
  ext : Bool
  kind : Kind
  ignored : Bool
  mode : Option String
  modeExempt : Bool    -- isinstance(node, (ExternalItem, TypeDefItem, InterfaceItem))

def Item.attr (it : Item) : Attr :=
  ⟨it.ext, it.kind, it.ignored, it.mode, it.ext || it.kind == .typedef || it.kind == .iface⟩

def FileNode.attr (f : FileNode) : Attr := ⟨false, .file, false, f.mode, false⟩

/-- `issubclass(node_cls, self.item_filter)`; an empty filter was replaced by `Item` in `__init__` -/
def kindMatch (flt : List Kind) (k : Kind) : Bool := flt.isEmpty || flt.contains k

/-- body of the `while` loop in `SFilter.__next__`: `true` = `break` (node is returned), `false` = next node -/
def accepts (sf : SF) (a : Attr) : Bool :=
  if a.ext && !sf.inclExt then false            -- `continue`
  else if kindMatch sf.flt a.kind && !(sf.exclIgn && a.ignored) then
    if sf.mode.isNone then true
    else if a.modeExempt then true
    else if a.mode == sf.mode then true
    else false
  else false

/-- the iterator drained: every `__next__` skips rejected nodes and returns the next accepted one -/
def drain {α} (attr : α → Attr) (sf : SF) : List α → List α
  | [] => []
  | n :: rest => if accepts sf (attr n) then n :: drain attr sf rest else drain attr sf rest

/-- `list(SFilter(graph, ...))` where `order = list(nx.topological_sort(graph._graph))` -/
def sfilter {α} (attr : α → Attr) (sf : SF) (order : List α) : List α :=
  drain attr sf (if sf.reverse then order.reverse else order)

/-! ## Item.targets -/

def matchAny (keys vars : List String) : Bool := keys.any (fun k => vars.contains k)

/-- `is_excluded` as computed per dependency entry in `_get_children` -/
def Dep.excluded (excl : List String) (d : Dep) : Bool :=
  matchAny excl d.modVariants || d.param || matchAny excl d.variants

/-- `_add_new_child`: insert or OR-update, keeping first-insertion order (CaseInsensitiveDict) -/
def addChild (name : String) (ex : Bool) : List (String × Bool) → List (String × Bool)
  | [] => [(name, ex)]
  | (n, e) :: rest => if n == name then (n, e || ex) :: rest else (n, e) :: addChild name ex rest

def childMap (excl : List String) : List Dep → List (String × Bool) → List (String × Bool)
  | [], acc => acc
  | d :: ds, acc => childMap excl ds (addChild d.name (d.excluded excl) acc)

/-- `Item.targets` -/
def targets (it : Item) : List String :=
  ((childMap it.excl it.deps []).filter (fun p => !p.2)).map (·.1)

/-! ## Calls recorded by a probe transformation -/

inductive Meth | file | module | sub
deriving DecidableEq, Repr

structure Call where
  meth : Meth
  plan : Bool
  ir : String
  item : String
  role : Option String
  mode : Option String
  targets : List String
  items : Option (List String)    -- the `items` keyword (none: None or absent)
  top : Bool                      -- first call of a `Transformation.apply` issued by the scheduler
deriving DecidableEq, Repr

/-- `apply_subroutine`: the routine, then (recurse_to_internal_procedures) its members, same kwargs -/
def applySub (m : Manifest) (base : Call) (s : Sub) (top : Bool) : List Call :=
  { base with meth := .sub, ir := s.name, top := top } ::
    (if m.recInt then s.members.map (fun n => { base with meth := .sub, ir := n, top := false }) else [])

/-- `transformation.apply(item.transformation_ir, item=item, role=item.role, mode=item.mode,
targets=item.targets, items=None, ...)` for a non-file item -/
def applyItem (m : Manifest) (c : Cfg) (it : Item) : List Call :=
  let base : Call := ⟨.sub, c.plan, it.irName, it.name, it.role, it.mode, targets it, none, false⟩
  if it.irMod then
    { base with meth := .module, top := true } ::
      (if m.recProc then it.irSubs.flatMap (fun s => applySub m base s false) else [])
  else applySub m base ⟨it.irName, it.irMembers⟩ true

/-- the loop of `process_transformation` over the traversal of the item graph: calls and the item on
which `RuntimeError('... Item is marked as external')` was raised -/
def processItems (m : Manifest) (c : Cfg) : List Item → List Call × Option String
  | [] => ([], none)
  | it :: rest =>
    if it.ext then
      if c.plan && it.generated then processItems m c rest      -- `continue`
      else ([], some it.name)                                   -- raise
    else
      let r := processItems m c rest
      (applyItem m c it ++ r.1, r.2)

/-! ## File graph -/

/-- the filter both loops of `_populate_filegraph` use: `SFilter(sgraph, item_filter, exclude_ignored=..)` -/
def fgSF (m : Manifest) : SF := ⟨m.flt, false, !m.procIgnored, false, none⟩

def insertNew {α} [DecidableEq α] (x : α) (l : List α) : List α := if l.contains x then l else l ++ [x]

/-- nodes of the file graph in insertion order -/
def fileNodesAcc : List Item → List FileNode → List FileNode
  | [], acc => acc
  | it :: rest, acc => fileNodesAcc rest (insertNew it.file acc)

def fileNodes (sel : List Item) : List FileNode := fileNodesAcc sel []

def succs (g : Graph) (a : Item) : List Item := (g.edges.filter (fun e => e.1 == a)).map (·.2)

/-- edges inserted for one item: successors that are in `item_2_file_item_map` (keyed by name) and live in
another file -/
def fileEdgesOf (g : Graph) (sel : List Item) (a : Item) : List (FileNode × FileNode) :=
  (succs g a).filterMap fun b =>
    if sel.any (fun s => s.name == b.name) && !(b.file.name == a.file.name) then some (a.file, b.file) else none

def fileEdges (g : Graph) (sel : List Item) : List (FileNode × FileNode) :=
  sel.flatMap (fileEdgesOf g sel)

structure FGraph where
  nodes : List FileNode
  edges : List (FileNode × FileNode)

/-- `sgraph.as_filegraph(item_factory, config, item_filter, exclude_ignored=not process_ignored_items)` -/
def asFileGraph (g : Graph) (order : List Item) (m : Manifest) : FGraph :=
  let sel := sfilter Item.attr (fgSF m) order
  ⟨fileNodes sel, fileEdges g sel⟩

/-- definition items of a file (`create_definition_items`, recursively) -/
inductive DefTree where
  | node (it : Item) (children : List DefTree)

mutual
/-- `_get_definition_items` for one definition item -/
def defItems (m : Manifest) (sg : List Item) : DefTree → List Item
  | .node it ch =>
    let cs := defItemsL m sg ch
    if (!cs.isEmpty || sg.any (fun s => s.name == it.name)) && (m.procIgnored || !it.ignored) then it :: cs else []
def defItemsL (m : Manifest) (sg : List Item) : List DefTree → List Item
  | [] => []
  | t :: ts => defItems m sg t ++ defItemsL m sg ts
end

/-- what `apply_file` reads from a `Sourcefile` and the definition items of its file item -/
structure FileIR where
  file : String
  mods : List String         -- sourcefile.modules
  allSubs : List String      -- sourcefile.all_subroutines
  defs : List DefTree

/-- role passed for a module in `apply_file`: the module item's role if all its definition items in `items`
have exactly that role, else None -/
def moduleRole (items : List Item) (it : Item) : Option String :=
  let roles := (items.filter (fun d => d.scope == some it.name)).map (·.role)
  if !roles.isEmpty && roles.all (· == it.role) then it.role else none

/-- the call `apply_file` issues on the file itself -/
def fileCall (c : Cfg) (f : FileNode) (items : List Item) : Call :=
  ⟨.file, c.plan, f.name, f.name, f.role, f.mode, [], some (items.map (·.name)), true⟩

/-- `apply_file`, recurse_to_modules: over the ModuleItems in `items`, or (no items) over `sourcefile.modules`
with the file's own keyword arguments -/
def fileModCalls (m : Manifest) (c : Cfg) (f : FileNode) (ir : FileIR) (items : List Item) : List Call :=
  if m.recMod then
    if !items.isEmpty then
      (items.filter (fun it => it.kind == .module)).map fun it =>
        ⟨.module, c.plan, it.irName, it.name, moduleRole items it, f.mode, targets it,
          some ((items.filter (fun d => d.scope == some it.name)).map (·.name)), false⟩
    else ir.mods.map fun n => { fileCall c f items with meth := .module, ir := n, top := false }
  else []

/-- `apply_file`, recurse_to_procedures: over the ProcedureItems in `items` (role and targets of the item, but
the `mode` keyword is still the file's), or over `sourcefile.all_subroutines` -/
def fileSubCalls (m : Manifest) (c : Cfg) (f : FileNode) (ir : FileIR) (items : List Item) : List Call :=
  if m.recProc then
    if !items.isEmpty then
      (items.filter (fun it => it.kind == .proc)).map fun it =>
        ⟨.sub, c.plan, it.irName, it.name, it.role, f.mode, targets it, none, false⟩
    else ir.allSubs.map fun n => { fileCall c f items with meth := .sub, ir := n, items := none, top := false }
  else []

/-- `apply_file` -/
def applyFile (m : Manifest) (c : Cfg) (f : FileNode) (ir : FileIR) (items : List Item) : List Call :=
  fileCall c f items :: (fileModCalls m c f ir items ++ fileSubCalls m c f ir items)

def lookupIR (irs : List FileIR) (f : FileNode) : FileIR :=
  (irs.find? (fun r => r.file == f.name)).getD ⟨f.name, [], [], []⟩

def processFiles (m : Manifest) (c : Cfg) (g : Graph) (irs : List FileIR) : List FileNode → List Call
  | [] => []
  | f :: rest =>
    let ir := lookupIR irs f
    applyFile m c f ir (defItemsL m g.items ir.defs) ++ processFiles m c g irs rest

/-! ## process_transformation -/

inductive Err | external (name : String) | unfeasible
deriving DecidableEq, Repr

structure Result where
  calls : List Call
  err : Option Err
deriving Repr

/-- traversal filter of the item graph -/
def itemSF (m : Manifest) (c : Cfg) : SF := ⟨m.flt, m.reverse, !m.procIgnored, c.strict, c.mode⟩
/-- traversal filter of the file graph -/
def fileSF (m : Manifest) (c : Cfg) : SF := ⟨[], m.reverse, false, c.strict, c.mode⟩

/-- `order`: nx.topological_sort of the item graph; `forder`: of the file graph built by `as_filegraph`,
`none` when networkx raises `NetworkXUnfeasible` (already in `graph.depths`, before any call) -/
def process (g : Graph) (irs : List FileIR) (order : List Item) (forder : Option (List FileNode))
    (m : Manifest) (c : Cfg) : Result :=
  if m.fileGraph then
    match forder with
    | none => ⟨[], some .unfeasible⟩
    | some fo => ⟨processFiles m c g irs (sfilter FileNode.attr (fileSF m c) fo), none⟩
  else
    let r := processItems m c (sfilter Item.attr (itemSF m c) order)
    ⟨r.1, r.2.map .external⟩

/-! ## Topological orders -/

/-- contract of `nx.topological_sort`: a duplicate-free enumeration of the nodes with every edge forward -/
def IsTopoL {α} (nodes : List α) (edges : List (α × α)) (order : List α) : Prop :=
  order.Nodup ∧ (∀ x, x ∈ order ↔ x ∈ nodes) ∧ ∀ e ∈ edges, [e.1, e.2].Sublist order

def isTopoL {α} [DecidableEq α] (nodes : List α) (edges : List (α × α)) (order : List α) : Bool :=
  decide order.Nodup && order.all (fun x => nodes.contains x) && nodes.all (fun x => order.contains x)
    && edges.all (fun e => [e.1, e.2].isSublist order)

/-- item graph: additionally item *names* are pairwise different (networkx nodes are hashed by name) -/
def IsTopo (g : Graph) (order : List Item) : Prop :=
  (order.map (·.name)).Nodup ∧ IsTopoL g.items g.edges order

def isTopo (g : Graph) (order : List Item) : Bool :=
  decide (order.map (·.name)).Nodup && isTopoL g.items g.edges order

def IsTopoF (fg : FGraph) (fo : List FileNode) : Prop :=
  (fo.map (·.name)).Nodup ∧ IsTopoL fg.nodes fg.edges fo

def isTopoF (fg : FGraph) (fo : List FileNode) : Bool :=
  decide (fo.map (·.name)).Nodup && isTopoL fg.nodes fg.edges fo

/-- Kahn's algorithm: repeatedly remove the first remaining node without an incoming edge from a remaining
node; `none` when stuck (cycle) -/
def kahnPick {α} [DecidableEq α] (edges : List (α × α)) (rem : List α) : Option α :=
  rem.find? (fun n => !edges.any (fun e => e.2 == n && rem.contains e.1))

def kahnGo {α} [DecidableEq α] (edges : List (α × α)) : Nat → List α → List α → Option (List α)
  | 0, rem, acc => if rem.isEmpty then some acc.reverse else none
  | fuel + 1, rem, acc =>
    if rem.isEmpty then some acc.reverse else
    match kahnPick edges rem with
    | none => none
    | some n => kahnGo edges fuel (rem.erase n) (n :: acc)

def kahn {α} [DecidableEq α] (nodes : List α) (edges : List (α × α)) : Option (List α) :=
  kahnGo edges nodes.length nodes []

end LokiModel.C22
