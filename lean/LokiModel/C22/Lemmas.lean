import LokiModel.C22.Model
/-! # C22 — helper lemmas (core Lean only) -/
namespace LokiModel.C22

/-! ## SFilter -/

theorem drain_eq_filter {α} (attr : α → Attr) (sf : SF) (l : List α) :
    drain attr sf l = l.filter (fun n => accepts sf (attr n)) := by
  induction l with
  | nil => rfl
  | cons n rest ih =>
    simp only [drain, List.filter_cons]
    split <;> simp [ih]

theorem sfilter_eq_filter {α} (attr : α → Attr) (sf : SF) (order : List α) :
    sfilter attr sf order =
      (if sf.reverse then order.reverse else order).filter (fun n => accepts sf (attr n)) := by
  simp [sfilter, drain_eq_filter]

/-- the decision `SFilter.__next__` takes, stated outright -/
theorem accepts_iff (sf : SF) (a : Attr) :
    accepts sf a = true ↔
      (a.ext = true → sf.inclExt = true) ∧ kindMatch sf.flt a.kind = true ∧
      ¬ (sf.exclIgn = true ∧ a.ignored = true) ∧
      (sf.mode = none ∨ a.modeExempt = true ∨ a.mode = sf.mode) := by
  unfold accepts
  cases h1 : a.ext <;> cases h2 : sf.inclExt <;> cases h3 : kindMatch sf.flt a.kind <;>
    cases h4 : sf.exclIgn <;> cases h5 : a.ignored <;> cases h6 : a.modeExempt <;>
    cases h7 : sf.mode <;> simp [Option.isNone]

/-! ## top-level calls -/

/-- names of the items of the calls issued directly by the scheduler (first call of each `apply`) -/
def topNames (cs : List Call) : List String := (cs.filter (·.top)).map (·.item)

theorem topNames_append (a b : List Call) : topNames (a ++ b) = topNames a ++ topNames b := by
  simp [topNames]

theorem topNames_applySub_false (m : Manifest) (base : Call) (s : Sub) :
    topNames (applySub m base s false) = [] := by
  simp only [applySub, topNames]
  split <;> simp [List.filter_map, Function.comp_def]

theorem topNames_applySub_true (m : Manifest) (base : Call) (s : Sub) :
    topNames (applySub m base s true) = [base.item] := by
  simp only [applySub, topNames]
  split <;> simp [List.filter_map, Function.comp_def]

theorem topNames_flatMap_applySub (m : Manifest) (base : Call) (ss : List Sub) :
    topNames (ss.flatMap (fun s => applySub m base s false)) = [] := by
  induction ss with
  | nil => rfl
  | cons s rest ih => simp [List.flatMap_cons, topNames_append, topNames_applySub_false, ih]

theorem topNames_applyItem (m : Manifest) (c : Cfg) (it : Item) :
    topNames (applyItem m c it) = [it.name] := by
  unfold applyItem
  split
  · split
    · show topNames (_ :: _) = _
      rw [show ∀ (x : Call) (xs : List Call), x :: xs = [x] ++ xs from fun _ _ => rfl, topNames_append,
        topNames_flatMap_applySub]
      simp [topNames]
    · simp [topNames]
  · simp [topNames_applySub_true]

/-- an external item on which the loop raises -/
def Blocking (c : Cfg) (it : Item) : Prop := it.ext = true ∧ ¬ (c.plan = true ∧ it.generated = true)

theorem processItems_ok (m : Manifest) (c : Cfg) (l : List Item)
    (h : (processItems m c l).2 = none) :
    topNames (processItems m c l).1 = (l.filter (fun it => !it.ext)).map (·.name) := by
  induction l with
  | nil => rfl
  | cons it rest ih =>
    simp only [processItems] at h ⊢
    by_cases he : it.ext = true
    · simp only [he, if_true] at h ⊢
      by_cases hg : (c.plan && it.generated) = true
      · simp only [hg, if_true] at h ⊢
        simp [he, ih h]
      · simp [hg] at h
    · simp only [he] at h ⊢
      simp only [Bool.false_eq_true, if_false] at h ⊢
      simp [he, topNames_append, topNames_applyItem, ih h]

theorem processItems_prefix (m : Manifest) (c : Cfg) (l : List Item) :
    topNames (processItems m c l).1 <+: (l.filter (fun it => !it.ext)).map (·.name) := by
  induction l with
  | nil => simp [processItems, topNames]
  | cons it rest ih =>
    simp only [processItems]
    by_cases he : it.ext = true
    · simp only [he, if_true]
      by_cases hg : (c.plan && it.generated) = true
      · simp only [hg, if_true]
        simpa [List.filter_cons, he] using ih
      · simp [hg, topNames]
    · simp only [he]
      simp only [Bool.false_eq_true, if_false]
      simp only [topNames_append, topNames_applyItem, List.filter_cons, he]
      simpa using ih

theorem processItems_err_iff (m : Manifest) (c : Cfg) (l : List Item) :
    (processItems m c l).2 ≠ none ↔ ∃ it ∈ l, Blocking c it := by
  induction l with
  | nil => simp [processItems]
  | cons it rest ih =>
    simp only [processItems]
    by_cases he : it.ext = true
    · simp only [he, if_true]
      by_cases hg : (c.plan && it.generated) = true
      · simp only [hg, if_true]
        rw [ih]
        constructor
        · rintro ⟨x, hx, hb⟩; exact ⟨x, List.mem_cons_of_mem _ hx, hb⟩
        · rintro ⟨x, hx, hb⟩
          rcases List.mem_cons.1 hx with rfl | hx
          · exfalso; apply hb.2; simpa using hg
          · exact ⟨x, hx, hb⟩
      · simp only [hg]
        simp only [Bool.false_eq_true, if_false]
        constructor
        · intro _; refine ⟨it, List.mem_cons_self, he, ?_⟩
          intro h; apply hg; simp [h.1, h.2]
        · intro _; simp
    · simp only [he]
      simp only [Bool.false_eq_true, if_false]
      rw [ih]
      constructor
      · rintro ⟨x, hx, hb⟩; exact ⟨x, List.mem_cons_of_mem _ hx, hb⟩
      · rintro ⟨x, hx, hb⟩
        rcases List.mem_cons.1 hx with rfl | hx
        · exact absurd hb.1 he
        · exact ⟨x, hx, hb⟩

/-- the item named in the error is the first blocking item of the traversal -/
theorem processItems_err_first (m : Manifest) (c : Cfg) (l : List Item) (n : String)
    (h : (processItems m c l).2 = some n) :
    ∃ pre it post, l = pre ++ it :: post ∧ it.name = n ∧ Blocking c it ∧ ∀ x ∈ pre, ¬ Blocking c x := by
  induction l with
  | nil => simp [processItems] at h
  | cons it rest ih =>
    simp only [processItems] at h
    by_cases he : it.ext = true
    · simp only [he, if_true] at h
      by_cases hg : (c.plan && it.generated) = true
      · simp only [hg, if_true] at h
        obtain ⟨pre, x, post, rfl, hn, hb, hpre⟩ := ih h
        refine ⟨it :: pre, x, post, rfl, hn, hb, ?_⟩
        intro y hy
        rcases List.mem_cons.1 hy with rfl | hy
        · intro hb'; apply hb'.2; simpa using hg
        · exact hpre y hy
      · simp only [hg] at h
        simp only [Bool.false_eq_true, if_false, Option.some.injEq] at h
        refine ⟨[], it, rest, rfl, h, ⟨he, ?_⟩, by simp⟩
        intro hh; apply hg; simp [hh.1, hh.2]
    · simp only [he] at h
      simp only [Bool.false_eq_true, if_false] at h
      obtain ⟨pre, x, post, rfl, hn, hb, hpre⟩ := ih h
      refine ⟨it :: pre, x, post, rfl, hn, hb, ?_⟩
      intro y hy
      rcases List.mem_cons.1 hy with rfl | hy
      · intro hb'; exact he hb'.1
      · exact hpre y hy

/-! ## order -/

theorem pair_sublist_filter {α} (p : α → Bool) {a b : α} {l : List α}
    (h : [a, b].Sublist l) (ha : p a = true) (hb : p b = true) : [a, b].Sublist (l.filter p) := by
  have := h.filter p
  simpa [List.filter_cons, ha, hb] using this

theorem pair_sublist_reverse {α} {a b : α} {l : List α} (h : [a, b].Sublist l) :
    [b, a].Sublist l.reverse := by
  have := h.reverse
  simpa using this

/-- in a duplicate-free list `[a, b] <+ l` means: `a` occurs strictly before `b` -/
theorem idxOf_lt_of_pair_sublist {α} [DecidableEq α] {a b : α} {l : List α}
    (hn : l.Nodup) (h : [a, b].Sublist l) : l.idxOf a < l.idxOf b := by
  induction l with
  | nil => cases h
  | cons x xs ih =>
    have hx : x ∉ xs := (List.nodup_cons.1 hn).1
    have hn' := (List.nodup_cons.1 hn).2
    cases h with
    | cons _ h' =>
      have ha : a ∈ xs := h'.subset (by simp)
      have hb : b ∈ xs := h'.subset (by simp)
      have hxa : (x == a) = false := by
        simp only [beq_eq_false_iff_ne]; exact fun e => hx (e ▸ ha)
      have hxb : (x == b) = false := by
        simp only [beq_eq_false_iff_ne]; exact fun e => hx (e ▸ hb)
      have := ih hn' h'
      simp only [List.idxOf_cons, hxa, hxb, cond_false]
      omega
    | cons_cons _ h' =>
      have hb : b ∈ xs := h'.subset (by simp)
      have hxb : (a == b) = false := by
        simp only [beq_eq_false_iff_ne]; exact fun e => hx (e ▸ hb)
      simp only [List.idxOf_cons, hxb, cond_false, beq_self_eq_true, cond_true]
      omega

/-! ## file graph -/

theorem mem_insertNew {α} [DecidableEq α] (x y : α) (l : List α) :
    y ∈ insertNew x l ↔ y = x ∨ y ∈ l := by
  unfold insertNew
  split
  · rename_i h
    constructor
    · exact Or.inr
    · rintro (rfl | h') <;> simp_all
  · simp [or_comm]

theorem nodup_insertNew {α} [DecidableEq α] (x : α) (l : List α) (h : l.Nodup) : (insertNew x l).Nodup := by
  unfold insertNew
  split
  · exact h
  · rename_i hx
    rw [List.nodup_append]
    refine ⟨h, by simp, ?_⟩
    intro a ha b hb
    simp at hb hx
    subst hb
    intro e; subst e; exact hx ha

theorem mem_fileNodesAcc (sel : List Item) (acc : List FileNode) (f : FileNode) :
    f ∈ fileNodesAcc sel acc ↔ f ∈ acc ∨ ∃ it ∈ sel, it.file = f := by
  induction sel generalizing acc with
  | nil => simp [fileNodesAcc]
  | cons it rest ih =>
    simp only [fileNodesAcc, ih, mem_insertNew]
    constructor
    · rintro ((rfl | h) | ⟨x, hx, rfl⟩)
      · exact Or.inr ⟨it, by simp, rfl⟩
      · exact Or.inl h
      · exact Or.inr ⟨x, by simp [hx], rfl⟩
    · rintro (h | ⟨x, hx, rfl⟩)
      · exact Or.inl (Or.inr h)
      · rcases List.mem_cons.1 hx with rfl | hx
        · exact Or.inl (Or.inl rfl)
        · exact Or.inr ⟨x, hx, rfl⟩

theorem nodup_fileNodesAcc (sel : List Item) (acc : List FileNode) (h : acc.Nodup) :
    (fileNodesAcc sel acc).Nodup := by
  induction sel generalizing acc with
  | nil => simpa [fileNodesAcc]
  | cons it rest ih => exact ih _ (nodup_insertNew _ _ h)

/-- file-graph nodes: exactly the files of the selected items, each once -/
theorem mem_fileNodes (sel : List Item) (f : FileNode) :
    f ∈ fileNodes sel ↔ ∃ it ∈ sel, it.file = f := by
  simp [fileNodes, mem_fileNodesAcc]

theorem nodup_fileNodes (sel : List Item) : (fileNodes sel).Nodup :=
  nodup_fileNodesAcc sel [] List.nodup_nil

theorem mem_succs (g : Graph) (a b : Item) : b ∈ succs g a ↔ (a, b) ∈ g.edges := by
  simp only [succs, List.mem_map, List.mem_filter, beq_iff_eq]
  constructor
  · rintro ⟨⟨x, y⟩, ⟨h, rfl⟩, rfl⟩; exact h
  · intro h; exact ⟨(a, b), ⟨h, rfl⟩, rfl⟩

/-- file-graph edges: exactly the pairs of files of a dependency between two selected items in different files -/
theorem mem_fileEdges (g : Graph) (sel : List Item) (fa fb : FileNode) :
    (fa, fb) ∈ fileEdges g sel ↔
      ∃ a ∈ sel, ∃ b, (a, b) ∈ g.edges ∧ (∃ s ∈ sel, s.name = b.name) ∧ b.file.name ≠ a.file.name ∧
        fa = a.file ∧ fb = b.file := by
  simp only [fileEdges, List.mem_flatMap, fileEdgesOf, List.mem_filterMap, mem_succs]
  constructor
  · rintro ⟨a, ha, b, hab, hb⟩
    split at hb
    · rename_i hc
      simp only [Option.some.injEq, Prod.mk.injEq] at hb
      simp only [Bool.and_eq_true, List.any_eq_true, beq_iff_eq, Bool.not_eq_true', beq_eq_false_iff_ne] at hc
      exact ⟨a, ha, b, hab, hc.1, hc.2, hb.1.symm, hb.2.symm⟩
    · simp at hb
  · rintro ⟨a, ha, b, hab, hs, hne, rfl, rfl⟩
    refine ⟨a, ha, b, hab, ?_⟩
    have hc : (sel.any (fun s => s.name == b.name) && !(b.file.name == a.file.name)) = true := by
      simp only [Bool.and_eq_true, List.any_eq_true, beq_iff_eq, Bool.not_eq_true', beq_eq_false_iff_ne]
      exact ⟨hs, hne⟩
    simp [hc]

/-! ## processing files -/

theorem fileModCalls_top (m : Manifest) (c : Cfg) (f : FileNode) (ir : FileIR) (items : List Item) :
    ∀ x ∈ fileModCalls m c f ir items, x.top = false := by
  intro x hx
  unfold fileModCalls at hx
  split at hx
  · split at hx
    · simp only [List.mem_map] at hx; obtain ⟨_, _, rfl⟩ := hx; rfl
    · simp only [List.mem_map] at hx; obtain ⟨_, _, rfl⟩ := hx; rfl
  · simp at hx

theorem fileSubCalls_top (m : Manifest) (c : Cfg) (f : FileNode) (ir : FileIR) (items : List Item) :
    ∀ x ∈ fileSubCalls m c f ir items, x.top = false := by
  intro x hx
  unfold fileSubCalls at hx
  split at hx
  · split at hx
    · simp only [List.mem_map] at hx; obtain ⟨_, _, rfl⟩ := hx; rfl
    · simp only [List.mem_map] at hx; obtain ⟨_, _, rfl⟩ := hx; rfl
  · simp at hx

theorem topNames_applyFile (m : Manifest) (c : Cfg) (f : FileNode) (ir : FileIR) (items : List Item) :
    topNames (applyFile m c f ir items) = [f.name] := by
  have h1 : ∀ (l : List Call), (∀ x ∈ l, x.top = false) → (l.filter (·.top)) = [] := by
    intro l hl; simp only [List.filter_eq_nil_iff]; intro x hx; simp [hl x hx]
  simp only [applyFile, topNames, List.filter_cons, List.filter_append,
    h1 _ (fileModCalls_top m c f ir items), h1 _ (fileSubCalls_top m c f ir items)]
  simp [fileCall]

theorem topNames_processFiles (m : Manifest) (c : Cfg) (g : Graph) (irs : List FileIR) (l : List FileNode) :
    topNames (processFiles m c g irs l) = l.map (·.name) := by
  induction l with
  | nil => rfl
  | cons f rest ih => simp [processFiles, topNames_append, topNames_applyFile, ih]

/-! ## targets -/

theorem addChild_keys (name : String) (ex : Bool) (l : List (String × Bool)) :
    (addChild name ex l).map (·.1) = if name ∈ l.map (·.1) then l.map (·.1) else l.map (·.1) ++ [name] := by
  induction l with
  | nil => simp [addChild]
  | cons p rest ih =>
    obtain ⟨n, e⟩ := p
    simp only [addChild]
    by_cases h : n = name
    · subst h; simp
    · have h' : ¬ name = n := fun e => h e.symm
      simp only [beq_iff_eq, h, if_false, List.map_cons, ih, List.mem_cons, h', false_or]
      split <;> simp

theorem addChild_nodup (name : String) (ex : Bool) (l : List (String × Bool)) (h : (l.map (·.1)).Nodup) :
    ((addChild name ex l).map (·.1)).Nodup := by
  rw [addChild_keys]
  split
  · exact h
  · rename_i hn
    rw [List.nodup_append]
    refine ⟨h, by simp, ?_⟩
    intro a ha b hb
    simp at hb; subst hb
    intro e; subst e; exact hn ha

/-- value stored for `k` after `_add_new_child(name, ex)` -/
theorem addChild_lookup (name : String) (ex : Bool) (l : List (String × Bool)) (h : (l.map (·.1)).Nodup)
    (k : String) (v : Bool) :
    (k, v) ∈ addChild name ex l ↔
      if k = name then v = (((l.find? (fun p => p.1 == name)).map (·.2)).getD false || ex) else (k, v) ∈ l := by
  induction l with
  | nil =>
    simp only [addChild, List.mem_singleton, Prod.mk.injEq, List.find?_nil, Option.map_none, Option.getD_none,
      Bool.false_or, List.not_mem_nil]
    by_cases hk : k = name <;> simp [hk]
  | cons p rest ih =>
    obtain ⟨n, e⟩ := p
    have hn : n ∉ rest.map (·.1) ∧ (rest.map (·.1)).Nodup := List.nodup_cons.1 h
    simp only [addChild]
    by_cases hne : n = name
    · subst hne
      simp only [beq_self_eq_true, if_true, List.mem_cons, Prod.mk.injEq, List.find?_cons, Option.map_some,
        Option.getD_some]
      by_cases hk : k = n
      · subst hk
        simp only [true_and, if_true]
        constructor
        · rintro (h1 | h1)
          · exact h1
          · exfalso; exact hn.1 (List.mem_map.2 ⟨(k, v), h1, rfl⟩)
        · intro h1; exact Or.inl h1
      · simp [hk]
    · have hne' : (n == name) = false := by simpa using hne
      simp only [hne', Bool.false_eq_true, if_false, List.mem_cons, Prod.mk.injEq, List.find?_cons]
      rw [ih hn.2]
      by_cases hk : k = name
      · subst hk
        have : ¬ k = n := fun e => hne e.symm
        simp [this]
      · simp [hk]

/-- invariant of the `child_exclusion_map` loop after the dependency entries `seen` -/
def ChildInv (excl : List String) (seen : List Dep) (l : List (String × Bool)) : Prop :=
  (l.map (·.1)).Nodup ∧
  ∀ k v, (k, v) ∈ l ↔ (∃ d ∈ seen, d.name = k) ∧ v = seen.any (fun d => d.name == k && d.excluded excl)

theorem childInv_lookup {excl : List String} {seen : List Dep} {l : List (String × Bool)}
    (h : ChildInv excl seen l) (n : String) :
    ((l.find? (fun p => p.1 == n)).map (·.2)).getD false
      = seen.any (fun d => d.name == n && d.excluded excl) := by
  cases hf : l.find? (fun p => p.1 == n) with
  | none =>
    simp only [Option.map_none, Option.getD_none]
    symm
    rw [Bool.eq_false_iff]
    intro hany
    obtain ⟨d, hd, hdn⟩ := List.any_eq_true.1 hany
    simp only [Bool.and_eq_true, beq_iff_eq] at hdn
    have hmem := (h.2 n _).2 ⟨⟨d, hd, hdn.1⟩, rfl⟩
    have := List.find?_eq_none.1 hf _ hmem
    simp at this
  | some p =>
    simp only [Option.map_some, Option.getD_some]
    have hp : p ∈ l := List.mem_of_find?_eq_some hf
    have hn : p.1 = n := by simpa using List.find?_some hf
    obtain ⟨k, v⟩ := p
    simp only at hn; subst hn
    exact ((h.2 k v).1 hp).2

theorem childInv_step {excl : List String} {seen : List Dep} {l : List (String × Bool)} (d : Dep)
    (h : ChildInv excl seen l) :
    ChildInv excl (seen ++ [d]) (addChild d.name (d.excluded excl) l) := by
  refine ⟨addChild_nodup _ _ _ h.1, ?_⟩
  intro k v
  rw [addChild_lookup _ _ _ h.1, childInv_lookup h]
  by_cases hk : k = d.name
  · subst hk
    simp only [if_true, List.any_append, List.any_cons, beq_self_eq_true, Bool.true_and, List.any_nil,
      Bool.or_false]
    constructor
    · intro hv; exact ⟨⟨d, by simp, rfl⟩, hv⟩
    · intro hv; exact hv.2
  · have hk' : (d.name == k) = false := by
      simp only [beq_eq_false_iff_ne]; exact fun e => hk e.symm
    simp only [hk, if_false, h.2, List.any_append, List.any_cons, hk', Bool.false_and, List.any_nil,
      Bool.or_false]
    constructor
    · rintro ⟨⟨x, hx, hxn⟩, hv⟩; exact ⟨⟨x, by simp [hx], hxn⟩, hv⟩
    · rintro ⟨⟨x, hx, hxn⟩, hv⟩
      refine ⟨⟨x, ?_, hxn⟩, hv⟩
      rcases List.mem_append.1 hx with hx | hx
      · exact hx
      · simp at hx; subst hx; exact absurd hxn.symm hk

theorem childInv_childMap (excl : List String) (ds seen : List Dep) (l : List (String × Bool))
    (h : ChildInv excl seen l) : ChildInv excl (seen ++ ds) (childMap excl ds l) := by
  induction ds generalizing seen l with
  | nil => simpa [childMap] using h
  | cons d rest ih =>
    simp only [childMap]
    have := ih (seen ++ [d]) _ (childInv_step d h)
    simpa [List.append_assoc] using this

theorem childInv_final (excl : List String) (ds : List Dep) : ChildInv excl ds (childMap excl ds []) := by
  have := childInv_childMap excl ds [] [] ⟨by simp, by simp⟩
  simpa using this

/-! ## the decidable contract check -/

theorem isTopoL_iff {α} [DecidableEq α] (nodes : List α) (edges : List (α × α)) (order : List α) :
    isTopoL nodes edges order = true ↔ IsTopoL nodes edges order := by
  simp only [isTopoL, IsTopoL, Bool.and_eq_true, decide_eq_true_eq, List.all_eq_true, List.contains_iff_mem,
    List.isSublist_iff_sublist]
  constructor
  · rintro ⟨⟨⟨h1, h2⟩, h3⟩, h4⟩
    exact ⟨h1, fun x => ⟨h2 x, h3 x⟩, h4⟩
  · rintro ⟨h1, h2, h3⟩
    exact ⟨⟨⟨h1, fun x hx => (h2 x).1 hx⟩, fun x hx => (h2 x).2 hx⟩, h3⟩

theorem isTopo_iff (g : Graph) (order : List Item) : isTopo g order = true ↔ IsTopo g order := by
  simp [isTopo, IsTopo, isTopoL_iff]

theorem isTopoF_iff (fg : FGraph) (fo : List FileNode) : isTopoF fg fo = true ↔ IsTopoF fg fo := by
  simp [isTopoF, IsTopoF, isTopoL_iff]

/-! ## Kahn's sort -/

theorem kahnPick_spec {α} [DecidableEq α] {edges : List (α × α)} {rem : List α} {n : α}
    (h : kahnPick edges rem = some n) : n ∈ rem ∧ ∀ e ∈ edges, e.2 = n → e.1 ∉ rem := by
  unfold kahnPick at h
  refine ⟨List.mem_of_find?_eq_some h, ?_⟩
  have := List.find?_some h
  simp only [Bool.not_eq_true', List.any_eq_false, Bool.and_eq_true, beq_iff_eq, List.contains_iff_mem,
    not_and] at this
  intro e he hn
  exact this e he hn

/-- invariant of Kahn's loop: placed ++ remaining enumerate the nodes without repetition, and every edge into a
placed node comes from an earlier placed node -/
def KahnInv {α} (nodes : List α) (edges : List (α × α)) (rem acc : List α) : Prop :=
  (acc.reverse ++ rem).Nodup ∧ (∀ x, x ∈ acc.reverse ++ rem ↔ x ∈ nodes) ∧
  ∀ e ∈ edges, e.2 ∈ acc → [e.1, e.2].Sublist acc.reverse

theorem kahnGo_sound {α} [DecidableEq α] (nodes : List α) (edges : List (α × α))
    (hE : ∀ e ∈ edges, e.1 ∈ nodes ∧ e.2 ∈ nodes) :
    ∀ (fuel : Nat) (rem acc : List α) (o : List α), KahnInv nodes edges rem acc →
      kahnGo edges fuel rem acc = some o → IsTopoL nodes edges o := by
  have fin : ∀ (acc : List α), KahnInv nodes edges [] acc → IsTopoL nodes edges acc.reverse := by
    intro acc ⟨h1, h2, h3⟩
    simp only [List.append_nil] at h1 h2
    refine ⟨h1, h2, ?_⟩
    intro e he
    have : e.2 ∈ acc := by
      have := (h2 e.2).2 (hE e he).2
      simpa using this
    exact h3 e he this
  intro fuel
  induction fuel with
  | zero =>
    intro rem acc o hinv h
    simp only [kahnGo] at h
    split at h
    · rename_i hr
      have : rem = [] := by simpa using hr
      subst this
      simp only [Option.some.injEq] at h; subst h
      exact fin acc hinv
    · simp at h
  | succ fuel ih =>
    intro rem acc o hinv h
    simp only [kahnGo] at h
    split at h
    · rename_i hr
      have : rem = [] := by simpa using hr
      subst this
      simp only [Option.some.injEq] at h; subst h
      exact fin acc hinv
    · split at h
      · simp at h
      · rename_i n hp
        obtain ⟨hn, hin⟩ := kahnPick_spec hp
        apply ih (rem.erase n) (n :: acc) o ?_ h
        obtain ⟨h1, h2, h3⟩ := hinv
        have hnd := List.nodup_append.1 h1
        have hperm : (acc.reverse ++ [n] ++ rem.erase n).Perm (acc.reverse ++ rem) := by
          rw [List.append_assoc]
          exact List.Perm.append_left _ (List.perm_cons_erase hn).symm
        refine ⟨?_, ?_, ?_⟩
        · simp only [List.reverse_cons]
          exact hperm.symm.nodup h1
        · intro x
          simp only [List.reverse_cons]
          rw [hperm.mem_iff]; exact h2 x
        · intro e he hmem
          simp only [List.reverse_cons]
          rcases List.mem_cons.1 hmem with hen | hacc
          · -- edge into the node just placed: its source is not among the remaining nodes, hence placed before
            have hsrc : e.1 ∉ rem := hin e he hen
            have : e.1 ∈ acc.reverse ++ rem := (h2 e.1).2 (hE e he).1
            have hsrc' : e.1 ∈ acc.reverse := by
              rcases List.mem_append.1 this with h | h
              · exact h
              · exact absurd h hsrc
            rw [hen]
            have : [e.1].Sublist acc.reverse := List.singleton_sublist.2 hsrc'
            exact this.append (List.Sublist.refl [n])
          · exact (h3 e he hacc).trans (List.sublist_append_left _ _)

/-- **Kahn's sort is a topological sort**: whenever it returns an order, the order satisfies the contract -/
theorem kahn_sound {α} [DecidableEq α] (nodes : List α) (edges : List (α × α)) (hn : nodes.Nodup)
    (hE : ∀ e ∈ edges, e.1 ∈ nodes ∧ e.2 ∈ nodes) (o : List α) (h : kahn nodes edges = some o) :
    IsTopoL nodes edges o :=
  kahnGo_sound nodes edges hE nodes.length nodes [] o ⟨by simpa using hn, by simp, by simp⟩ h


end LokiModel.C22
