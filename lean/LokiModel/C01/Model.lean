import LokiModel.C02.Model
import LokiModel.C06.Model
import LokiModel.C07.FParse
/-!
# C01 model: regenerate with Loki's expression printer, re-read with the reference Fortran expression parser

The statement layer is C02's (`gStmts` = `fgen`'s statement visitors, `pStmts` = the reference statement parser); the
expression slots are C06's trees `E` (Loki/pymbolic expression nodes incl. `Parenthesised*`) printed by `printF fcfg`
(the model of `FCodeMapper`), and re-read by C07's `fparse`, the executable parser that is sound and complete for the
Fortran expression grammar `G` — i.e. the regenerated text is read the way a Fortran processor reads it.  Core Lean only.
-/
namespace LokiModel.C01
open LokiModel.Expr LokiModel.C06 LokiModel.C02

/-- `fgen` of an expression slot -/
def pe (t : E) : List Tok := printF fcfg t 0

/-- `str(step) == '1'` in `FCodeMapper.map_loop_range` -/
def isOneE : E → Bool
  | .ilit 1 => true
  | .pyint 1 => true
  | _ => false

/-- the reference reader: the whole slot must be one expression -/
def reS (f : Nat) (ts : List Tok) : Option S :=
  match LokiModel.C07.fparse f ts with
  | some (s, []) => some s
  | _ => none

/-- regenerated text of a statement list -/
def regen (st : Style) (ss : List (Stmt E)) : List Line := gStmts st pe isOneE ss

end LokiModel.C01
