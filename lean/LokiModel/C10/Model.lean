/-!
# C10 model: loop-range helpers (`loki/expression/symbolic.py`, `loki/expression/symbols.py`)

* `doSeq s e st` — reference: the values a Fortran `DO v = s, e, st` visits (trip count
  `max 0 ((e - s + st) / st)` with truncating division, F2018 11.1.7.4.1).
* `pyRange a b c` — Python's `range(a, b, c)`.
* `getPyrange` — `get_pyrange`: `range(start, stop+1[, step])` for an absent or positive step and
  `range(start, stop-1, step)` for a negative one (the code after the `fix:` commit; before it
  `stop+1` was used whatever the sign, see `known_findings.json`).
* `numIter`, `iterNumber`, `iterIndex` — the *values* (under Fortran integer semantics: `Quotient`
  truncates toward zero) of the expressions built by `LoopRange.num_iterations`,
  `iteration_number`, `iteration_index`.
Core Lean only.
-/
namespace LokiModel.C10

/-- Fortran trip count -/
def tripCount (s e st : Int) : Nat := ((e - s + st).tdiv st).toNat

/-- values visited by `DO v = s, e, st` -/
def doSeq (s e st : Int) : List Int := (List.range (tripCount s e st)).map fun (k : Nat) => s + (k : Int) * st

/-- `len(range(a, b, c))` as CPython computes it -/
def pyRangeLen (a b c : Int) : Nat :=
  if 0 < c then ((b - a + c - 1) / c).toNat
  else if c < 0 then ((a - b + (-c) - 1) / (-c)).toNat
  else 0

/-- Python `range(a, b, c)` (c = 0 raises ValueError in Python; the model returns `none`) -/
def pyRange (a b c : Int) : Option (List Int) :=
  if c = 0 then none else some ((List.range (pyRangeLen a b c)).map fun (k : Nat) => a + (k : Int) * c)

/-- `get_pyrange(LoopRange((s, e, st)))` on integer literals; `st = none` is an absent step -/
def getPyrange (s e : Int) (st : Option Int) : Option (List Int) :=
  match st with
  | none => pyRange s (e + 1) 1
  | some c => if c < 0 then pyRange s (e - 1) c else pyRange s (e + 1) c

/-- value of `LoopRange.num_iterations` under Fortran semantics -/
def numIter (s e : Int) (st : Option Int) : Int :=
  match st with
  | none => e - s + 1
  | some c => (e - s).tdiv c + 1

/-- value of `iteration_number(i, range)` -/
def iterNumber (i s : Int) (st : Option Int) : Int :=
  match st with
  | none => i - s + 1
  | some c => (i - s).tdiv c + 1

/-- value of `iteration_index(k, range)` -/
def iterIndex (k s : Int) (st : Option Int) : Int :=
  match st with
  | none => k - 1 + s
  | some c => (k - 1) * c + s

end LokiModel.C10
