import LokiModel.C10.Model
/-! Helper lemmas for C10 (truncating vs flooring division). -/
namespace LokiModel.C10

theorem toNat_tdiv_pos (x c : Int) (hc : 0 < c) : (x.tdiv c).toNat = (x / c).toNat := by
  by_cases hx : 0 ≤ x
  · rw [Int.tdiv_eq_ediv_of_nonneg hx]
  · have hx' : x < 0 := by omega
    have h1 : x / c < 0 := Int.ediv_neg_of_neg_of_pos hx' hc
    have h2 : x.tdiv c ≤ 0 := by
      have : x = -(-x) := by omega
      rw [this, Int.neg_tdiv]
      have := Int.tdiv_nonneg (a := -x) (b := c) (by omega) (by omega)
      omega
    omega

/-- for a negative step the trip count can be computed with the negated operands -/
theorem tdiv_neg_neg (x c : Int) : x.tdiv c = (-x).tdiv (-c) := by
  rw [Int.tdiv_neg, Int.neg_tdiv]; omega

theorem tripCount_neg (s e st : Int) : tripCount s e st = tripCount e s (-st) := by
  unfold tripCount
  rw [tdiv_neg_neg]
  congr 2; omega

/-- `(x + c).tdiv c = x.tdiv c + 1` when `x` and `c` have the same sign (c > 0 case) -/
theorem tdiv_add_self_pos (x c : Int) (hx : 0 ≤ x) (hc : 0 < c) : (x + c).tdiv c = x.tdiv c + 1 := by
  rw [Int.tdiv_eq_ediv_of_nonneg hx, Int.tdiv_eq_ediv_of_nonneg (by omega)]
  have := Int.add_mul_ediv_right x 1 (c := c) (by omega)
  simpa using this

theorem tdiv_add_self_neg (x c : Int) (hx : x ≤ 0) (hc : c < 0) : (x + c).tdiv c = x.tdiv c + 1 := by
  rw [tdiv_neg_neg (x + c), tdiv_neg_neg x]
  have := tdiv_add_self_pos (-x) (-c) (by omega) (by omega)
  have e : -(x + c) = -x + -c := by omega
  rw [e]; exact this

/-- a non-empty loop has `e - s` on the side of the step -/
theorem nonempty_pos (s e st : Int) (hst : 0 < st) (h : tripCount s e st ≠ 0) : 0 ≤ e - s := by
  unfold tripCount at h
  by_cases hx : 0 ≤ e - s
  · exact hx
  · exfalso
    apply h
    have h0 : e - s + st < st := by omega
    by_cases hy : 0 ≤ e - s + st
    · rw [Int.tdiv_eq_ediv_of_nonneg hy, Int.ediv_eq_zero_of_lt hy h0]; rfl
    · have : (e - s + st).tdiv st ≤ 0 := by
        have e1 : e - s + st = -(-(e - s + st)) := by omega
        rw [e1, Int.neg_tdiv]
        have := Int.tdiv_nonneg (a := -(e - s + st)) (b := st) (by omega) (by omega)
        omega
      omega

theorem nonempty_neg (s e st : Int) (hst : st < 0) (h : tripCount s e st ≠ 0) : e - s ≤ 0 := by
  rw [tripCount_neg] at h
  have := nonempty_pos e s (-st) (by omega) h
  omega

end LokiModel.C10
