import LokiModel.C41.Model
import LokiModel.C40.Lemmas
/-! # C41 — `wf` is preserved by the modelled normalisers (lemmas) -/
namespace LokiModel.C41
open LokiModel.Fir LokiModel.C40

theorem nameEq_lower_left (a b : String) : nameEq (lowerName a) b = nameEq a b := by
  simp [nameEq, lowerName_idem]

theorem nameEq_lower_right (a b : String) : nameEq a (lowerName b) = nameEq a b := by
  simp [nameEq, lowerName_idem]

/-- look-ups that do not distinguish letter case -/
def CI (lk : Lk) : Prop := ∀ x, lk (lowerName x) = lk x

theorem lookup_ci (env : Env) : CI (lookup env) := by
  intro x
  induction env with
  | nil => rfl
  | cons h t ih => obtain ⟨n, i⟩ := h; simp [lookup, nameEq_lower_right, ih]

theorem extend_ci (bs : Env) (lk : Lk) (h : CI lk) : CI (extend bs lk) := by
  intro x
  simp [extend, lookup_ci bs x, h x]

mutual
theorem lenExs_lower : ∀ es, lenExs (lowerExs es) = lenExs es
  | [] => by simp [lowerExs, lenExs]
  | e :: es => by simp [lowerExs, lenExs, lenExs_lower es]
theorem lenDims_lower : ∀ ds, lenDims (lowerDims ds) = lenDims ds
  | [] => by simp [lowerDims, lenDims]
  | .at e :: ds => by simp [lowerDims, lenDims, lenDims_lower ds]
  | .rng lo hi st :: ds => by simp [lowerDims, lenDims, lenDims_lower ds]
end

theorem rankOk_lower (lk : Lk) (h : CI lk) (x : String) (n : Nat) : rankOk lk (lowerName x) n = rankOk lk x n := by
  simp [rankOk, h x]

mutual
theorem wfEx_lower (lk : Lk) (h : CI lk) : ∀ e, wfEx lk (lowerEx e) = wfEx lk e
  | .lit v => by simp [lowerEx, wfEx]
  | .var x => by simp [lowerEx, wfEx, h x]
  | .idx x es => by simp [lowerEx, wfEx, rankOk_lower lk h, lenExs_lower, wfExs_lower lk h es]
  | .sec x ds => by simp [lowerEx, wfEx, rankOk_lower lk h, lenDims_lower, wfDims_lower lk h ds]
  | .neg a => by simp [lowerEx, wfEx, wfEx_lower lk h a]
  | .not a => by simp [lowerEx, wfEx, wfEx_lower lk h a]
  | .bin o a b => by simp [lowerEx, wfEx, wfEx_lower lk h a, wfEx_lower lk h b]
  | .call f es => by simp [lowerEx, wfEx, wfExs_lower lk h es]
theorem wfExs_lower (lk : Lk) (h : CI lk) : ∀ es, wfExs lk (lowerExs es) = wfExs lk es
  | [] => by simp [lowerExs, wfExs]
  | e :: es => by simp [lowerExs, wfExs, wfEx_lower lk h e, wfExs_lower lk h es]
theorem wfDims_lower (lk : Lk) (h : CI lk) : ∀ ds, wfDims lk (lowerDims ds) = wfDims lk ds
  | [] => by simp [lowerDims, wfDims]
  | .at e :: ds => by simp [lowerDims, wfDims, wfEx_lower lk h e, wfDims_lower lk h ds]
  | .rng lo hi st :: ds => by
      simp [lowerDims, wfDims, wfOEx_lower lk h lo, wfOEx_lower lk h hi, wfOEx_lower lk h st, wfDims_lower lk h ds]
theorem wfOEx_lower (lk : Lk) (h : CI lk) : ∀ o, wfOEx lk (lowerOEx o) = wfOEx lk o
  | none => by simp [lowerOEx, wfOEx]
  | some e => by simp [lowerOEx, wfOEx, wfEx_lower lk h e]
end

theorem lookup_bindEnv_lower : ∀ bs, lookup (bindEnv (lowerBinds bs)) = lookup (bindEnv bs)
  | [] => by simp [lowerBinds, bindEnv]
  | (x, e) :: bs => by
      funext y
      simp [lowerBinds, bindEnv, lookup, nameEq_lower_left, lookup_bindEnv_lower bs]

theorem extend_lower (bs : List (String × Ex)) (lk : Lk) :
    extend (bindEnv (lowerBinds bs)) lk = extend (bindEnv bs) lk := by
  funext y
  simp [extend, lookup_bindEnv_lower bs]

theorem wfBinds_lower (lk : Lk) (h : CI lk) : ∀ bs, wfBinds lk (lowerBinds bs) = wfBinds lk bs
  | [] => by simp [lowerBinds, wfBinds]
  | (x, e) :: bs => by simp [lowerBinds, wfBinds, wfEx_lower lk h e, wfBinds_lower lk h bs]

theorem isIntScalar_lower (lk : Lk) (h : CI lk) (v : String) : isIntScalar lk (lowerName v) = isIntScalar lk v := by
  simp [isIntScalar, h v]

mutual
theorem wfStmt_lower (sigs : Sigs) : ∀ (s : Stmt) (lk : Lk), CI lk → wfStmt sigs lk (lowerStmt s) = wfStmt sigs lk s
  | .assign l r, lk, h => by simp [lowerStmt, wfStmt, wfEx_lower lk h]
  | .doLoop v lo hi st body, lk, h => by
      simp [lowerStmt, wfStmt, isIntScalar_lower lk h, wfEx_lower lk h, wfOEx_lower lk h, wfStmts_lower sigs body lk h]
  | .while c body, lk, h => by simp [lowerStmt, wfStmt, wfEx_lower lk h, wfStmts_lower sigs body lk h]
  | .ifte c t e, lk, h => by
      simp [lowerStmt, wfStmt, wfEx_lower lk h, wfStmts_lower sigs t lk h, wfStmts_lower sigs e lk h]
  | .select e cs d, lk, h => by
      simp [lowerStmt, wfStmt, wfEx_lower lk h, wfCases_lower sigs cs lk h, wfStmts_lower sigs d lk h]
  | .assoc bs body, lk, h => by
      simp [lowerStmt, wfStmt, wfBinds_lower lk h, extend_lower,
        wfStmts_lower sigs body (extend (bindEnv bs) lk) (extend_ci _ lk h)]
  | .callSub f args, lk, h => by simp [lowerStmt, wfStmt, lenExs_lower, wfExs_lower lk h]
  | .print args, lk, h => by simp [lowerStmt]
  | .exit, lk, h => by simp [lowerStmt]
  | .cycle, lk, h => by simp [lowerStmt]
  | .nop k t, lk, h => by simp [lowerStmt]
theorem wfStmts_lower (sigs : Sigs) : ∀ (ss : List Stmt) (lk : Lk), CI lk → wfStmts sigs lk (lowerStmts ss) = wfStmts sigs lk ss
  | [], lk, h => by simp [lowerStmts, wfStmts]
  | s :: ss, lk, h => by simp [lowerStmts, wfStmts, wfStmt_lower sigs s lk h, wfStmts_lower sigs ss lk h]
theorem wfCases_lower (sigs : Sigs) : ∀ (cs : List (List Int × List Stmt)) (lk : Lk), CI lk →
    wfCases sigs lk (lowerCases cs) = wfCases sigs lk cs
  | [], lk, h => by simp [lowerCases, wfCases]
  | (vs, b) :: cs, lk, h => by simp [lowerCases, wfCases, wfStmts_lower sigs b lk h, wfCases_lower sigs cs lk h]
end

theorem lenBounds_lower : ∀ bs, lenBounds (lowerBounds bs) = lenBounds bs
  | [] => by simp [lowerBounds, lenBounds]
  | (lo, hi) :: bs => by simp [lowerBounds, lenBounds, lenBounds_lower bs]

theorem lookup_declEnv_lower : ∀ ds, lookup (declEnv (lowerDecls ds)) = lookup (declEnv ds)
  | [] => by simp [lowerDecls, declEnv]
  | d :: ds => by
      funext y
      simp [lowerDecls, declEnv, lookup, lowerDecl, nameEq_lower_left, lenBounds_lower, lookup_declEnv_lower ds]

theorem wfBounds_lower (lk : Lk) (h : CI lk) : ∀ bs, wfBounds lk (lowerBounds bs) = wfBounds lk bs
  | [] => by simp [lowerBounds, wfBounds]
  | (lo, hi) :: bs => by simp [lowerBounds, wfBounds, wfEx_lower lk h, wfBounds_lower lk h bs]

theorem wfDecls_lower (lk : Lk) (h : CI lk) : ∀ ds, wfDecls lk (lowerDecls ds) = wfDecls lk ds
  | [] => by simp [lowerDecls, wfDecls]
  | d :: ds => by simp [lowerDecls, wfDecls, lowerDecl, wfBounds_lower lk h, wfOEx_lower lk h, wfDecls_lower lk h ds]

theorem argsDeclared_lower (lk : Lk) (h : CI lk) : ∀ xs, argsDeclared lk (lowerNames xs) = argsDeclared lk xs
  | [] => by simp [lowerNames, argsDeclared]
  | x :: xs => by simp [lowerNames, argsDeclared, h x, argsDeclared_lower lk h xs]

theorem lenStrs_lower : ∀ xs, lenStrs (lowerNames xs) = lenStrs xs
  | [] => by simp [lowerNames, lenStrs]
  | x :: xs => by simp [lowerNames, lenStrs, lenStrs_lower xs]

theorem wfUnit_lower (sigs : Sigs) (u : Fir.Unit) : wfUnit sigs (lowerUnit u) = wfUnit sigs u := by
  have h := lookup_ci (declEnv u.decls)
  simp [wfUnit, lowerUnit, lookup_declEnv_lower, argsDeclared_lower _ h, wfDecls_lower _ h, wfStmts_lower sigs _ _ h]

theorem sigsOf_lower : ∀ us, sigsOf (lowerUnits us) = sigsOf us
  | [] => by simp [lowerUnits, sigsOf]
  | u :: us => by simp [lowerUnits, sigsOf, lowerUnit, lenStrs_lower, sigsOf_lower us]

theorem wfUnits_lower (sigs : Sigs) : ∀ us, wfUnits sigs (lowerUnits us) = wfUnits sigs us
  | [] => by simp [lowerUnits, wfUnits]
  | u :: us => by simp [lowerUnits, wfUnits, wfUnit_lower, wfUnits_lower sigs us]

/-! ## dead-code removal keeps `wf` -/

theorem wfStmts_append (sigs : Sigs) (lk : Lk) : ∀ a b, wfStmts sigs lk (a ++ b) = (wfStmts sigs lk a && wfStmts sigs lk b)
  | [], b => by simp [wfStmts]
  | s :: a, b => by simp [wfStmts, wfStmts_append sigs lk a b, Bool.and_assoc]

theorem findCase_wf (sigs : Sigs) (lk : Lk) (n : Int) : ∀ cs b, wfCases sigs lk cs = true → findCase n cs = some b →
    wfStmts sigs lk b = true
  | [], _, _, h => by simp [findCase] at h
  | (vs, b0) :: cs, b, hw, h => by
      simp only [wfCases, Bool.and_eq_true] at hw
      simp only [findCase] at h
      split at h
      · cases h; exact hw.1
      · exact findCase_wf sigs lk n cs b hw.2 h

mutual
theorem wf_deadStmt (sigs : Sigs) : ∀ (s : Stmt) (lk : Lk), wfStmt sigs lk s = true → wfStmts sigs lk (deadStmt s) = true
  | .ifte c t e, lk, h => by
      simp only [wfStmt, Bool.and_eq_true] at h
      simp only [deadStmt]
      split
      · exact wf_deadS sigs t lk h.1.2
      · split
        · exact wf_deadS sigs e lk h.2
        · simp [wfStmts, wfStmt, h.1.1, wf_deadS sigs t lk h.1.2, wf_deadS sigs e lk h.2]
  | .select e cs d, lk, h => by
      simp only [wfStmt, Bool.and_eq_true] at h
      simp only [deadStmt]
      split
      · split
        · rename_i b hb
          exact findCase_wf sigs lk _ _ b (wf_deadCases sigs cs lk h.1.2) hb
        · simp [wfStmts, wfStmt, h.1.1, wf_deadCases sigs cs lk h.1.2, wf_deadS sigs d lk h.2]
      · simp [wfStmts, wfStmt, h.1.1, wf_deadCases sigs cs lk h.1.2, wf_deadS sigs d lk h.2]
  | .doLoop v lo hi st body, lk, h => by
      simp only [wfStmt, Bool.and_eq_true] at h
      simp [deadStmt, wfStmts, wfStmt, h.1, wf_deadS sigs body lk h.2]
  | .while c body, lk, h => by
      simp only [wfStmt, Bool.and_eq_true] at h
      simp [deadStmt, wfStmts, wfStmt, h.1, wf_deadS sigs body lk h.2]
  | .assoc bs body, lk, h => by
      simp only [wfStmt, Bool.and_eq_true] at h
      simp [deadStmt, wfStmts, wfStmt, h.1, wf_deadS sigs body _ h.2]
  | .assign l r, lk, h => by simpa [deadStmt, wfStmts] using h
  | .callSub f args, lk, h => by simpa [deadStmt, wfStmts] using h
  | .print args, lk, h => by simpa [deadStmt, wfStmts] using h
  | .exit, lk, h => by simp [deadStmt, wfStmts, wfStmt]
  | .cycle, lk, h => by simp [deadStmt, wfStmts, wfStmt]
  | .nop k t, lk, h => by simp [deadStmt, wfStmts, wfStmt]
theorem wf_deadS (sigs : Sigs) : ∀ (ss : List Stmt) (lk : Lk), wfStmts sigs lk ss = true → wfStmts sigs lk (deadS ss) = true
  | [], lk, h => by simp [deadS, wfStmts]
  | s :: ss, lk, h => by
      simp only [wfStmts, Bool.and_eq_true] at h
      simp only [deadS]
      rw [wfStmts_append, wf_deadStmt sigs s lk h.1, wf_deadS sigs ss lk h.2]; rfl
theorem wf_deadCases (sigs : Sigs) : ∀ (cs : List (List Int × List Stmt)) (lk : Lk), wfCases sigs lk cs = true →
    wfCases sigs lk (deadCases cs) = true
  | [], lk, h => by simp [deadCases, wfCases]
  | (vs, b) :: cs, lk, h => by
      simp only [wfCases, Bool.and_eq_true] at h
      simp [deadCases, wfCases, wf_deadS sigs b lk h.1, wf_deadCases sigs cs lk h.2]
end

theorem sigsOf_dead : ∀ us, sigsOf (deadUnits us) = sigsOf us
  | [] => by simp [deadUnits, sigsOf]
  | u :: us => by simp [deadUnits, sigsOf, deadUnit, sigsOf_dead us]

theorem wfUnits_dead (sigs : Sigs) : ∀ us, wfUnits sigs us = true → wfUnits sigs (deadUnits us) = true
  | [], _ => by simp [deadUnits, wfUnits]
  | u :: us, h => by
      simp only [wfUnits, Bool.and_eq_true] at h
      have hu := h.1
      simp only [wfUnit, Bool.and_eq_true] at hu
      simp [deadUnits, wfUnits, wfUnit, deadUnit, hu.1.1, hu.1.2, wf_deadS sigs u.body _ hu.2, wfUnits_dead sigs us h.2]

end LokiModel.C41
