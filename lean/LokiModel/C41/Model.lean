import LokiModel.C40.Model
import LokiModel.C40.Abstract
/-!
# C41 — well-formedness of FIR programs (`wf`) and of the abstract declaration / import domains

`wf p`: in every unit, every variable used (in the body, in declared bounds and PARAMETER values) is declared in the unit or
is an ASSOCIATE name in scope; every dummy argument is declared; every `callSub` names a unit of the program with the same number
of arguments; the number of subscripts of an element / section reference equals the declared rank (ASSOCIATE names: any);
DO variables are declared integer scalars.  Fortran names are case-insensitive, so are all look-ups (first match).
Core Lean only.
-/
namespace LokiModel.C41
open LokiModel.Fir LokiModel.C40

def nameEq (a b : String) : Bool := lowerName a == lowerName b

/-- names in scope: declared (type, rank) or ASSOCIATE-bound (`none`: shape unknown) -/
abbrev Env := List (String × Option (Ty × Nat))

def lookup : Env → String → Option (Option (Ty × Nat))
  | [], _ => none
  | (n, info) :: rest, x => if nameEq n x then some info else lookup rest x

/-- a scope as a look-up function -/
abbrev Lk := String → Option (Option (Ty × Nat))

/-- inner names (ASSOCIATE) shadow the outer scope -/
def extend (bs : Env) (lk : Lk) : Lk := fun x =>
  match lookup bs x with
  | some i => some i
  | none => lk x

def rankOk (env : Lk) (x : String) (n : Nat) : Bool :=
  match env x with
  | some (some (_, r)) => r == n
  | some none => true
  | none => false

mutual
def wfEx (env : Lk) : Ex → Bool
  | .lit _ => true
  | .var x => (env x).isSome
  | .idx x es => rankOk env x (lenExs es) && wfExs env es
  | .sec x ds => rankOk env x (lenDims ds) && wfDims env ds
  | .neg a => wfEx env a
  | .not a => wfEx env a
  | .bin _ a b => wfEx env a && wfEx env b
  | .call _ es => wfExs env es
def wfExs (env : Lk) : List Ex → Bool
  | [] => true
  | e :: es => wfEx env e && wfExs env es
def wfDims (env : Lk) : List Dim → Bool
  | [] => true
  | .at e :: ds => wfEx env e && wfDims env ds
  | .rng lo hi st :: ds => wfOEx env lo && wfOEx env hi && wfOEx env st && wfDims env ds
def wfOEx (env : Lk) : Option Ex → Bool
  | none => true
  | some e => wfEx env e
def lenExs : List Ex → Nat
  | [] => 0
  | _ :: es => lenExs es + 1
def lenDims : List Dim → Nat
  | [] => 0
  | _ :: ds => lenDims ds + 1
end

def isIntScalar (env : Lk) (v : String) : Bool :=
  match env v with
  | some (some (.int, 0)) => true
  | _ => false

/-- signatures of the program's units: (name, number of dummy arguments) -/
abbrev Sigs := List (String × Nat)

def callOk : Sigs → String → Nat → Bool
  | [], _, _ => false
  | (n, k) :: rest, f, m => if nameEq n f then k == m else callOk rest f m

def bindEnv : List (String × Ex) → Env
  | [] => []
  | (x, _) :: bs => (x, none) :: bindEnv bs

def wfBinds (env : Lk) : List (String × Ex) → Bool
  | [] => true
  | (_, e) :: bs => wfEx env e && wfBinds env bs

mutual
def wfStmt (sigs : Sigs) (env : Lk) : Stmt → Bool
  | .assign l r => wfEx env l && wfEx env r
  | .doLoop v lo hi st body => isIntScalar env v && wfEx env lo && wfEx env hi && wfOEx env st && wfStmts sigs env body
  | .while c body => wfEx env c && wfStmts sigs env body
  | .ifte c t e => wfEx env c && wfStmts sigs env t && wfStmts sigs env e
  | .select e cs d => wfEx env e && wfCases sigs env cs && wfStmts sigs env d
  | .assoc bs body => wfBinds env bs && wfStmts sigs (extend (bindEnv bs) env) body
  | .callSub f args => callOk sigs f (lenExs args) && wfExs env args
  | .print args => wfExs env args
  | .exit => true
  | .cycle => true
  | .nop _ _ => true
def wfStmts (sigs : Sigs) (env : Lk) : List Stmt → Bool
  | [] => true
  | s :: ss => wfStmt sigs env s && wfStmts sigs env ss
def wfCases (sigs : Sigs) (env : Lk) : List (List Int × List Stmt) → Bool
  | [] => true
  | (_, b) :: cs => wfStmts sigs env b && wfCases sigs env cs
end

def lenBounds : List (Ex × Ex) → Nat
  | [] => 0
  | _ :: bs => lenBounds bs + 1

def declEnv : List Decl → Env
  | [] => []
  | d :: ds => (d.name, some (d.ty, lenBounds d.dims)) :: declEnv ds

def wfBounds (env : Lk) : List (Ex × Ex) → Bool
  | [] => true
  | (lo, hi) :: bs => wfEx env lo && wfEx env hi && wfBounds env bs

def wfDecls (env : Lk) : List Decl → Bool
  | [] => true
  | d :: ds => wfBounds env d.dims && wfOEx env d.param && wfDecls env ds

def argsDeclared (env : Lk) : List String → Bool
  | [] => true
  | a :: as => (env a).isSome && argsDeclared env as

def wfUnit (sigs : Sigs) (u : Fir.Unit) : Bool :=
  let env : Lk := lookup (declEnv u.decls)
  argsDeclared env u.args && wfDecls env u.decls && wfStmts sigs env u.body

def lenStrs : List String → Nat
  | [] => 0
  | _ :: xs => lenStrs xs + 1

def sigsOf : List Fir.Unit → Sigs
  | [] => []
  | u :: us => (u.name, lenStrs u.args) :: sigsOf us

def wfUnits (sigs : Sigs) : List Fir.Unit → Bool
  | [] => true
  | u :: us => wfUnit sigs u && wfUnits sigs us

def wf (p : Program) : Bool := wfUnits (sigsOf p.units) p.units

/-! ## abstract domains -/

/-- all declared symbols of a declaration list, in order -/
def declared : List DeclStmt → List (String × Sym)
  | [] => []
  | d :: ds => (d.syms.map fun s => (d.attrs, s)) ++ declared ds

/-- import list is adequate for the used names `need` (lower case): each is imported explicitly, or some USE without ONLY list
remains that may provide it (`bare` = the modules that were imported without ONLY list and are needed) -/
def importsProvide (imps : List Imp) (s : String) : Bool := (importedSyms imps).any fun t => t.toLower == s

def bareModules : List Imp → List String
  | [] => []
  | i :: is => (if i.syms == some [] then [i.modname] else []) ++ bareModules is

end LokiModel.C41
