import LokiModel.C14.Spec
/-! # C14 helper lemmas -/
namespace LokiModel.C14

/-! ## `_inject_tuple_mapping` is a parallel substitution when no spliced node is itself a key -/

def sub (k : Node) (hs : List Node) (x : Node) : List Node := if x = k then hs else [x]

theorem injectOne_eq (k : Node) (hs o : List Node) : injectOne k hs o = o.flatMap (sub k hs) := by
  induction o with
  | nil => simp [injectOne]
  | cons x xs ih =>
    simp only [injectOne, List.flatMap_cons, sub]
    by_cases h : x = k
    · simp [h, ih]
    · simp [h, ih]

theorem flatMap_sub_not_mem (k : Node) (hs o : List Node) (h : k ∉ o) : o.flatMap (sub k hs) = o := by
  induction o with
  | nil => simp
  | cons x xs ih =>
    have hx : x ≠ k := fun e => h (by simp [e])
    have hxs : k ∉ xs := fun e => h (by simp [e])
    simp [List.flatMap_cons, sub, hx, ih hxs]

theorem injectStep_tuple (o : List Node) (k : Node) (hs : List Node) :
    injectStep o (k, .tuple hs) = o.flatMap (sub k hs) := by
  simp only [injectStep]
  by_cases h : k ∈ o
  · simp [h, injectOne_eq]
  · simp [h, flatMap_sub_not_mem k hs o h]

/-- the nodes that take the place of `x` when the tuple mappings are injected -/
def S (m : Mapper) (x : Node) : List Node :=
  match lookup m x with
  | some (.tuple hs) => hs
  | _ => [x]

/-- no node spliced in by a one-to-many value (other than the key itself) is a key -/
def ElemsNotKeys (m : Mapper) : Prop :=
  ∀ k hs, (k, Handle.tuple hs) ∈ m → ∀ h ∈ hs, h ≠ k → lookup m h = none

theorem lookup_mem {m : Mapper} {x : Node} {h : Handle} (e : lookup m x = some h) : (x, h) ∈ m := by
  induction m with
  | nil => simp [lookup] at e
  | cons p m ih =>
    obtain ⟨k, h'⟩ := p
    simp only [lookup] at e
    by_cases hk : k = x
    · simp [hk] at e; simp [hk, e]
    · simp [hk] at e; simp [ih e]

theorem injectAll_eq (m : Mapper) (hd : KeysDistinct m) (hn : ElemsNotKeys m) (o : List Node) :
    injectAll m o = o.flatMap (S m) := by
  induction m generalizing o with
  | nil =>
    have : S [] = fun x => [x] := by funext x; simp [S, lookup]
    simp [injectAll, this]
  | cons p m ih =>
    obtain ⟨k, h⟩ := p
    obtain ⟨hk, hd'⟩ := hd
    have hn' : ElemsNotKeys m := by
      intro k' hs' hmem x hx hne
      have := hn k' hs' (by simp [hmem]) x hx hne
      simp only [lookup] at this
      by_cases e : k = x
      · simp [e] at this
      · simpa [e] using this
    have ih' := ih hd' hn'
    simp only [injectAll, List.foldl_cons] at ih' ⊢
    rw [ih']
    cases h with
    | tuple hs =>
      rw [injectStep_tuple, List.flatMap_assoc]
      congr 1
      funext x
      by_cases hx : x = k
      · subst hx
        have : S ((x, Handle.tuple hs) :: m) x = hs := by simp [S, lookup]
        rw [this]
        simp only [sub, if_true]
        have key : ∀ l : List Node, (∀ y ∈ l, y ∈ hs) → l.flatMap (S m) = l := by
          intro l
          induction l with
          | nil => simp
          | cons y ys ihl =>
            intro hall
            have hy : y ∈ hs := hall y (by simp)
            have hys := ihl (fun z hz => hall z (by simp [hz]))
            have : S m y = [y] := by
              by_cases e : y = x
              · simp [S, e, hk]
              · have := hn x hs (by simp) y hy e
                simp only [lookup] at this
                have e' : ¬ x = y := fun q => e q.symm
                simp [e'] at this
                simp [S, this]
            simp [List.flatMap_cons, this, hys]
        exact key hs (fun y hy => hy)
      · have e' : ¬ k = x := fun q => hx q.symm
        simp [sub, hx, S, lookup, e']
    | drop =>
      simp only [injectStep]
      congr 1
      funext x
      by_cases hx : k = x
      · subst hx; simp [S, lookup, hk]
      · simp [S, lookup, hx]
    | node n =>
      simp only [injectStep]
      congr 1
      funext x
      by_cases hx : k = x
      · subst hx; simp [S, lookup, hk]
      · simp [S, lookup, hx]

theorem mem_lookup {m : Mapper} {p : Node × Handle} (hp : p ∈ m) : lookup m p.1 ≠ none := by
  induction m with
  | nil => simp at hp
  | cons q m ih =>
    obtain ⟨k, h⟩ := q
    simp only [lookup]
    by_cases e : k = p.1
    · simp [e]
    · simp only [e, if_false]
      rcases List.mem_cons.mp hp with h1 | h1
      · exact absurd (by rw [h1]) e
      · exact ih h1

theorem injectAll_no_keys (m : Mapper) (o : List Node) (h : ∀ x ∈ o, lookup m x = none) : injectAll m o = o := by
  have gen : ∀ (m' : Mapper), (∀ p ∈ m', p.1 ∉ o) → injectAll m' o = o := by
    intro m'
    induction m' with
    | nil => intro _; rfl
    | cons p m' ih =>
      intro hp
      have h1 : p.1 ∉ o := hp p (by simp)
      have : injectStep o p = o := by
        obtain ⟨k, hd⟩ := p
        cases hd <;> simp [injectStep]
        exact fun q => absurd q h1
      simp only [injectAll, List.foldl_cons, this]
      exact ih (fun q hq => hp q (by simp [hq]))
  exact gen m (fun p hp hmem => mem_lookup hp (h _ hmem))

/-! ## visiting lists -/

/-- what one visited element contributes to the result tuple -/
def F (v : Node → Except Err VRes) (y : Node) : List Node :=
  match v y with
  | .ok r => r.res.toList
  | .error _ => []

theorem flatMap_congr_mem {α β} (l : List α) (f g : α → List β) (h : ∀ x ∈ l, f x = g x) :
    l.flatMap f = l.flatMap g := by
  induction l with
  | nil => rfl
  | cons x xs ih =>
    simp only [List.flatMap_cons]
    rw [h x (by simp), ih (fun y hy => h y (by simp [hy]))]

theorem visitEach_ok (v : Node → Except Err VRes) (l : List Node) (h : ∀ y ∈ l, ∃ r, v y = .ok r) :
    ∃ rs, visitEach v l = .ok rs ∧ rs.filterMap (·.res) = l.flatMap (F v) := by
  induction l with
  | nil => exact ⟨[], rfl, rfl⟩
  | cons y ys ih =>
    obtain ⟨r, hr⟩ := h y (by simp)
    obtain ⟨rs, hrs, hf⟩ := ih (fun z hz => h z (by simp [hz]))
    refine ⟨r :: rs, ?_, ?_⟩
    · simp [visitEach, hr, hrs]
    · simp only [List.flatMap_cons, F, hr, ← hf]
      cases hres : r.res <;> simp [List.filterMap_cons, hres]

theorem visitList_ok (m : Mapper) (v : Node → Except Err VRes) (o o' : List Node) (ho : injectAll m o = o')
    (h : ∀ y ∈ o', ∃ r, v y = .ok r) :
    ∃ r, visitListWith m v o = .ok r ∧ r.res = o'.flatMap (F v) := by
  obtain ⟨rs, hrs, hf⟩ := visitEach_ok v o' h
  simp only [visitListWith, ho, hrs]
  exact ⟨_, rfl, hf⟩

theorem visitKids_ok (vl : List Node → Except Err LRes) (g : List Node → List Node) (ks : List (List Node))
    (h : ∀ b ∈ ks, ∃ r, vl b = .ok r ∧ r.res = g b) :
    ∃ ls, visitKidsWith vl ks = .ok ls ∧ ls.map (·.res) = ks.map g := by
  induction ks with
  | nil => exact ⟨[], rfl, rfl⟩
  | cons b bs ih =>
    obtain ⟨r, hr, hg⟩ := h b (by simp)
    obtain ⟨ls, hls, hm⟩ := ih (fun c hc => h c (by simp [hc]))
    exact ⟨r :: ls, by simp [visitKidsWith, hr, hls], by simp [hg, hm]⟩

theorem descend_ok (cfg : Cfg) (vl : List Node → Except Err LRes) (o : Node) (ks' : List (List Node))
    (h : ∃ ls, visitKidsWith vl o.kids = .ok ls ∧ ls.map (·.res) = ks') :
    ∃ r, descendWith cfg vl o = .ok r ∧ r.res = some (.mk o.kind o.lbl ks') := by
  obtain ⟨ls, hls, hm⟩ := h
  simp only [descendWith, hls]
  exact ⟨_, rfl, by simp [hm]⟩

/-! ## structure lemmas -/

theorem specL_eq (m : Mapper) (o : List Node) : specL m o = o.flatMap (fun x => specAt m x (specKeep m x)) := by
  induction o with
  | nil => simp [specL]
  | cons x xs ih => simp [specL, ih]

theorem specLL_eq (m : Mapper) (ks : List (List Node)) : specLL m ks = ks.map (specL m) := by
  induction ks with
  | nil => simp [specLL]
  | cons b bs ih => simp [specLL, ih]

theorem depth_mk (k : Kind) (l : Nat) (ks : List (List Node)) : (Node.mk k l ks).depth = depthLL ks + 1 := by
  simp [Node.depth]

theorem depthLL_mem {ks : List (List Node)} {b : List Node} (h : b ∈ ks) : depthL b ≤ depthLL ks := by
  induction ks with
  | nil => simp at h
  | cons c cs ih =>
    simp only [depthLL]
    rcases List.mem_cons.mp h with e | e
    · subst e; omega
    · have := ih e; omega

theorem depthL_mem {b : List Node} {x : Node} (h : x ∈ b) : x.depth ≤ depthL b := by
  induction b with
  | nil => simp at h
  | cons c cs ih =>
    simp only [depthL]
    rcases List.mem_cons.mp h with e | e
    · subst e; omega
    · have := ih e; omega

theorem depth_pos (o : Node) : 1 ≤ o.depth := by
  cases o; simp [Node.depth]

theorem fixedL_mem {m : Mapper} {b : List Node} {x : Node} (hb : fixedL m b = true) (h : x ∈ b) : fixedN m x = true := by
  induction b with
  | nil => simp at h
  | cons c cs ih =>
    simp only [fixedL, Bool.and_eq_true] at hb
    rcases List.mem_cons.mp h with e | e
    · subst e; exact hb.1
    · exact ih hb.2 e

theorem fixedLL_mem {m : Mapper} {ks : List (List Node)} {b : List Node} (hk : fixedLL m ks = true) (h : b ∈ ks) :
    fixedL m b = true := by
  induction ks with
  | nil => simp at h
  | cons c cs ih =>
    simp only [fixedLL, Bool.and_eq_true] at hk
    rcases List.mem_cons.mp h with e | e
    · subst e; exact hk.1
    · exact ih hk.2 e

theorem fixedN_lookup {m : Mapper} {x : Node} (h : fixedN m x = true) : lookup m x = none := by
  cases x with
  | mk k l ks =>
    simp only [fixedN, Bool.and_eq_true, Option.isNone_iff_eq_none] at h
    exact h.1

/-! ## a node that cannot change is returned unchanged (given enough fuel) -/

theorem visit_fixed (cfg : Cfg) (m : Mapper) :
    ∀ (f : Nat) (h : Node), fixedN m h = true → h.depth ≤ f →
      ∃ r, visitNode cfg m f h = .ok r ∧ r.res = some h := by
  intro f
  induction f with
  | zero => intro h _ hd; have := depth_pos h; omega
  | succ f ih =>
    intro h hfix hd
    have hl := fixedN_lookup hfix
    cases h with
    | mk k l ks =>
      simp only [fixedN, Bool.and_eq_true] at hfix
      obtain ⟨_, hks⟩ := hfix
      rw [depth_mk] at hd
      have hkids : ∃ ls, visitKidsWith (visitListWith m (visitNode cfg m f)) ks = .ok ls ∧ ls.map (·.res) = ks.map id := by
        apply visitKids_ok
        intro b hb
        have hfb := fixedLL_mem hks hb
        have hdb : depthL b ≤ f := by have := depthLL_mem hb; omega
        have hinj : injectAll m b = b := injectAll_no_keys m b (fun x hx => fixedN_lookup (fixedL_mem hfb hx))
        have hall : ∀ y ∈ b, ∃ r, visitNode cfg m f y = .ok r ∧ r.res = some y := fun y hy =>
          ih y (fixedL_mem hfb hy) (by have := depthL_mem hy; omega)
        obtain ⟨r, hr, hres⟩ := visitList_ok m (visitNode cfg m f) b b hinj (fun y hy => (hall y hy).imp fun _ h => h.1)
        refine ⟨r, hr, ?_⟩
        rw [hres, id]
        have : b.flatMap (F (visitNode cfg m f)) = b.flatMap (fun y => [y]) := by
          apply flatMap_congr_mem
          intro y hy
          obtain ⟨r, hr, hs⟩ := hall y hy
          simp [F, hr, hs]
        rw [this]; simp
      simp only [List.map_id] at hkids
      obtain ⟨r, hr, hres⟩ := descend_ok cfg (visitListWith m (visitNode cfg m f)) (.mk k l ks) ks hkids
      refine ⟨r, ?_, ?_⟩
      · simp only [visitNode, hl]; exact hr
      · rw [hres]; simp only [Node.kind, Node.lbl]

/-! ## the main refinement: the traversal computes the reference rebuild -/

theorem mem_tupleElems {m : Mapper} {k : Node} {hs : List Node} {h : Node}
    (hl : lookup m k = some (.tuple hs)) (hh : h ∈ hs) (hne : h ≠ k) : h ∈ tupleElems m := by
  induction m with
  | nil => simp [lookup] at hl
  | cons p m ih =>
    obtain ⟨k', hd⟩ := p
    simp only [lookup] at hl
    by_cases e : k' = k
    · simp only [e, if_true, Option.some.injEq] at hl
      subst hl
      simp [tupleElems, e, hh, hne]
    · simp only [e, if_false] at hl
      have := ih hl
      cases hd <;> simp [tupleElems, this]

theorem mem_tupleElems' {m : Mapper} {k : Node} {hs : List Node} {h : Node}
    (hm : (k, Handle.tuple hs) ∈ m) (hh : h ∈ hs) (hne : h ≠ k) : h ∈ tupleElems m := by
  induction m with
  | nil => simp at hm
  | cons p m ih =>
    rcases List.mem_cons.mp hm with e | e
    · subst e; simp [tupleElems, hh, hne]
    · have := ih e
      obtain ⟨k', hd⟩ := p
      cases hd <;> simp [tupleElems, this]

theorem elemsNotKeys_of_fixed {m : Mapper} (hf : fixedL m (tupleElems m) = true) : ElemsNotKeys m := by
  intro k hs hm h hh hne
  exact fixedN_lookup (fixedL_mem hf (mem_tupleElems' hm hh hne))

/-- a node the traversal descends into: unmapped, or mapped to an iterable that mentions it -/
def Descends (m : Mapper) (o : Node) : Prop :=
  lookup m o = none ∨ ∃ hs, lookup m o = some (.tuple hs) ∧ o ∈ hs

theorem visit_descends (cfg : Cfg) (m : Mapper) (f : Nat) (o : Node) (h : Descends m o) :
    visitNode cfg m (f + 1) o = descendWith cfg (visitListWith m (visitNode cfg m f)) o := by
  rcases h with h | ⟨hs, h, hmem⟩
  · simp only [visitNode, h]
  · simp only [visitNode, h, hmem, if_true]

theorem list_step (cfg : Cfg) (m : Mapper) (D : Nat) (hd : KeysDistinct m)
    (hf : fixedL m (tupleElems m) = true) (hD : ∀ h ∈ tupleElems m, h.depth ≤ D) (f : Nat)
    (ih : ∀ o : Node, o.depth + D ≤ f → Descends m o →
      ∃ r, visitNode cfg m f o = .ok r ∧ r.res = some (specKeep m o))
    (b : List Node) (hdb : depthL b + D ≤ f) :
    ∃ r, visitListWith m (visitNode cfg m f) b = .ok r ∧ r.res = specL m b := by
  have hn := elemsNotKeys_of_fixed hf
  -- every element of the injected tuple is visited successfully, with the expected contribution
  have hx : ∀ x ∈ b, (∀ y ∈ S m x, ∃ r, visitNode cfg m f y = .ok r) ∧
      (S m x).flatMap (F (visitNode cfg m f)) = specAt m x (specKeep m x) := by
    intro x hxb
    have hdx : x.depth + D ≤ f := by have := depthL_mem hxb; omega
    have hf1 : ∃ f', f = f' + 1 := by
      have := depth_pos x
      exact ⟨f - 1, by omega⟩
    obtain ⟨f', hf'⟩ := hf1
    cases hl : lookup m x with
    | none =>
      obtain ⟨r, hr, hres⟩ := ih x hdx (Or.inl hl)
      constructor
      · intro y hy; simp [S, hl] at hy; subst hy; exact ⟨r, hr⟩
      · simp [S, hl, specAt, F, hr, hres]
    | some hd' =>
      cases hd' with
      | drop =>
        constructor
        · intro y hy; simp [S, hl] at hy; subst hy; rw [hf']; simp [visitNode, hl]
        · simp [S, hl, specAt, F, hf', visitNode]
      | node n =>
        constructor
        · intro y hy; simp [S, hl] at hy; subst hy; rw [hf']; simp [visitNode, hl]
        · simp [S, hl, specAt, F, hf', visitNode]
      | tuple hs =>
        have each : ∀ y ∈ hs, ∃ r, visitNode cfg m f y = .ok r ∧
            r.res = some (if y = x then specKeep m x else y) := by
          intro y hy
          by_cases e : y = x
          · subst e
            obtain ⟨r, hr, hres⟩ := ih y hdx (Or.inr ⟨hs, hl, hy⟩)
            exact ⟨r, hr, by simp [hres]⟩
          · have hmem := mem_tupleElems hl hy e
            obtain ⟨r, hr, hres⟩ := visit_fixed cfg m f y (fixedL_mem hf hmem) (by have := hD y hmem; omega)
            exact ⟨r, hr, by simp [hres, e]⟩
        constructor
        · intro y hy; simp [S, hl] at hy
          exact (each y hy).imp fun _ h => h.1
        · simp only [S, hl, specAt]
          apply flatMap_congr_mem
          intro y hy
          obtain ⟨r, hr, hres⟩ := each y hy
          by_cases e : y = x
          · subst e; simp [F, hr, hres]
          · simp [F, hr, hres, e]
  have hinj := injectAll_eq m hd hn b
  obtain ⟨r, hr, hres⟩ := visitList_ok m (visitNode cfg m f) b _ hinj (by
    intro y hy
    obtain ⟨x, hxb, hyx⟩ := List.mem_flatMap.mp hy
    exact (hx x hxb).1 y hyx)
  refine ⟨r, hr, ?_⟩
  rw [hres, List.flatMap_assoc, specL_eq]
  exact flatMap_congr_mem b _ _ (fun x hxb => (hx x hxb).2)

theorem visit_spec (cfg : Cfg) (m : Mapper) (D : Nat) (hd : KeysDistinct m)
    (hf : fixedL m (tupleElems m) = true) (hD : ∀ h ∈ tupleElems m, h.depth ≤ D) :
    ∀ (f : Nat) (o : Node), o.depth + D ≤ f → Descends m o →
      ∃ r, visitNode cfg m f o = .ok r ∧ r.res = some (specKeep m o) := by
  intro f
  induction f with
  | zero => intro o hdep; have := depth_pos o; omega
  | succ f ih =>
    intro o hdep hdesc
    rw [visit_descends cfg m f o hdesc]
    cases o with
    | mk k l ks =>
      rw [depth_mk] at hdep
      have hkids : ∃ ls, visitKidsWith (visitListWith m (visitNode cfg m f)) ks = .ok ls ∧
          ls.map (·.res) = ks.map (specL m) := by
        apply visitKids_ok
        intro b hb
        exact list_step cfg m D hd hf hD f ih b (by have := depthLL_mem hb; omega)
      obtain ⟨r, hr, hres⟩ := descend_ok cfg (visitListWith m (visitNode cfg m f)) (.mk k l ks) _ hkids
      refine ⟨r, hr, ?_⟩
      rw [hres]
      simp only [Node.kind, Node.lbl, specKeep, specLL_eq]

/-! ## the original tree is not touched when no visited object is updated in place -/

theorem nodes_mk (k : Kind) (l : Nat) (ks : List (List Node)) :
    (Node.mk k l ks).nodes = Node.mk k l ks :: nodesLL ks := by simp [Node.nodes]

theorem nodesL_mem {b : List Node} {x y : Node} (hx : x ∈ b) (hy : y ∈ x.nodes) : y ∈ nodesL b := by
  induction b with
  | nil => simp at hx
  | cons c cs ih =>
    simp only [nodesL, List.mem_append]
    rcases List.mem_cons.mp hx with e | e
    · subst e; exact Or.inl hy
    · exact Or.inr (ih e)

theorem nodesLL_mem {ks : List (List Node)} {b : List Node} {y : Node} (hb : b ∈ ks) (hy : y ∈ nodesL b) :
    y ∈ nodesLL ks := by
  induction ks with
  | nil => simp at hb
  | cons c cs ih =>
    simp only [nodesLL, List.mem_append]
    rcases List.mem_cons.mp hb with e | e
    · subst e; exact Or.inl hy
    · exact Or.inr (ih e)

theorem findPost_same (v : Node → Except Err VRes) (x : Node) (hx : ∀ r, v x = .ok r → r.post = x) :
    ∀ (o' : List Node) (rs : List VRes), visitEach v o' = .ok rs → findPost x o' rs = x := by
  intro o'
  induction o' with
  | nil => intro rs _; cases rs <;> simp [findPost]
  | cons y ys ih =>
    intro rs h
    simp only [visitEach] at h
    cases hv : v y with
    | error e => simp [hv] at h
    | ok r =>
      simp only [hv] at h
      cases hvs : visitEach v ys with
      | error e => simp [hvs] at h
      | ok rs' =>
        simp only [hvs, Except.ok.injEq] at h
        subst h
        simp only [findPost]
        by_cases e : y = x
        · subst e; simp [hx r hv]
        · simp [e, ih rs' hvs]

theorem visitList_post (m : Mapper) (v : Node → Except Err VRes) (o : List Node)
    (hx : ∀ x ∈ o, ∀ r, v x = .ok r → r.post = x) (r : LRes) (h : visitListWith m v o = .ok r) : r.post = o := by
  simp only [visitListWith] at h
  cases hv : visitEach v (injectAll m o) with
  | error e => simp [hv] at h
  | ok rs =>
    simp only [hv, Except.ok.injEq] at h
    subst h
    simp only
    have : ∀ x ∈ o, findPost x (injectAll m o) rs = x := fun x hxo => findPost_same v x (hx x hxo) _ _ hv
    calc o.map (fun x => findPost x (injectAll m o) rs) = o.map id := List.map_congr_left this
      _ = o := by simp

theorem visitKids_post (vl : List Node → Except Err LRes) (ks : List (List Node))
    (hb : ∀ b ∈ ks, ∀ r, vl b = .ok r → r.post = b) :
    ∀ ls, visitKidsWith vl ks = .ok ls → ls.map (·.post) = ks := by
  induction ks with
  | nil => intro ls h; simp [visitKidsWith] at h; simp [← h]
  | cons b bs ih =>
    intro ls h
    simp only [visitKidsWith] at h
    cases hv : vl b with
    | error e => simp [hv] at h
    | ok r =>
      simp only [hv] at h
      cases hvs : visitKidsWith vl bs with
      | error e => simp [hvs] at h
      | ok ls' =>
        simp only [hvs, Except.ok.injEq] at h
        subst h
        simp [hb b (by simp) r hv, ih (fun c hc => hb c (by simp [hc])) ls' hvs]

theorem visit_post (cfg : Cfg) (m : Mapper) :
    ∀ (f : Nat) (x : Node) (r : VRes), (∀ y ∈ x.nodes, sameObject cfg y.kind = false) →
      visitNode cfg m f x = .ok r → r.post = x := by
  intro f
  induction f with
  | zero => intro x r _ h; simp [visitNode] at h
  | succ f ih =>
    intro x r hno h
    have hdesc : ∀ r, descendWith cfg (visitListWith m (visitNode cfg m f)) x = .ok r → r.post = x := by
      intro r h
      cases x with
      | mk k l ks =>
        simp only [descendWith, Node.kids] at h
        cases hk : visitKidsWith (visitListWith m (visitNode cfg m f)) ks with
        | error e => simp [hk] at h
        | ok ls =>
          simp only [hk, Except.ok.injEq] at h
          subst h
          have hs : sameObject cfg k = false := hno (Node.mk k l ks) (by simp [nodes_mk])
          simp only [Node.kind, hs, Node.lbl]
          have := visitKids_post (visitListWith m (visitNode cfg m f)) ks (by
            intro b hb r hr
            apply visitList_post m (visitNode cfg m f) b _ r hr
            intro y hy r' hr'
            exact ih y r' (fun z hz => hno z (by
              rw [nodes_mk]; exact List.mem_cons_of_mem _ (nodesLL_mem hb (nodesL_mem hy hz)))) hr') ls hk
          simp [this]
    simp only [visitNode] at h
    cases hl : lookup m x with
    | none => simp only [hl] at h; exact hdesc r h
    | some hd =>
      cases hd with
      | drop => simp only [hl, Except.ok.injEq] at h; simp [← h]
      | node n => simp only [hl, Except.ok.injEq] at h; simp [← h]
      | tuple hs =>
        simp only [hl] at h
        by_cases e : x ∈ hs
        · simp only [e, if_true] at h; exact hdesc r h
        · simp [e] at h

/-! ## the `rebuilt` record -/

theorem lookup_of_mem {m : Mapper} (hd : KeysDistinct m) {k : Node} {h : Handle} (hm : (k, h) ∈ m) :
    lookup m k = some h := by
  induction m with
  | nil => simp at hm
  | cons p m ih =>
    obtain ⟨k', h'⟩ := p
    obtain ⟨hk, hd'⟩ := hd
    rcases List.mem_cons.mp hm with e | e
    · cases e; simp [lookup]
    · have := ih hd' e
      simp only [lookup]
      by_cases q : k' = k
      · subst q; rw [hk] at this; cases this
      · simp [q, this]

/-- a node that is not spliced away survives `_inject_tuple_mapping` -/
theorem mem_injectAll {m : Mapper} {x : Node} (hx : ∀ hs, (x, Handle.tuple hs) ∈ m → x ∈ hs) :
    ∀ o : List Node, x ∈ o → x ∈ injectAll m o := by
  induction m with
  | nil => intro o h; exact h
  | cons p m ih =>
    intro o h
    simp only [injectAll, List.foldl_cons]
    apply ih (fun hs hm => hx hs (by simp [hm]))
    obtain ⟨k, hd⟩ := p
    cases hd with
    | drop => exact h
    | node n => exact h
    | tuple hs =>
      rw [injectStep_tuple]
      apply List.mem_flatMap.mpr
      refine ⟨x, h, ?_⟩
      by_cases e : x = k
      · subst e; simp [sub, hx hs (by simp)]
      · simp [sub, e]

theorem visitEach_mem (v : Node → Except Err VRes) :
    ∀ (l : List Node) (rs : List VRes), visitEach v l = .ok rs → ∀ y ∈ l, ∃ r ∈ rs, v y = .ok r := by
  intro l
  induction l with
  | nil => intro rs _ y hy; simp at hy
  | cons z zs ih =>
    intro rs h y hy
    simp only [visitEach] at h
    cases hv : v z with
    | error e => simp [hv] at h
    | ok r =>
      simp only [hv] at h
      cases hvs : visitEach v zs with
      | error e => simp [hvs] at h
      | ok rs' =>
        simp only [hvs, Except.ok.injEq] at h
        subst h
        rcases List.mem_cons.mp hy with e | e
        · subst e; exact ⟨r, by simp, hv⟩
        · obtain ⟨r', hr', hv'⟩ := ih rs' hvs y e
          exact ⟨r', by simp [hr'], hv'⟩

theorem visitKids_mem (vl : List Node → Except Err LRes) :
    ∀ (ks : List (List Node)) (ls : List LRes), visitKidsWith vl ks = .ok ls → ∀ b ∈ ks, ∃ r ∈ ls, vl b = .ok r := by
  intro ks
  induction ks with
  | nil => intro ls _ b hb; simp at hb
  | cons c cs ih =>
    intro ls h b hb
    simp only [visitKidsWith] at h
    cases hv : vl c with
    | error e => simp [hv] at h
    | ok r =>
      simp only [hv] at h
      cases hvs : visitKidsWith vl cs with
      | error e => simp [hvs] at h
      | ok ls' =>
        simp only [hvs, Except.ok.injEq] at h
        subst h
        rcases List.mem_cons.mp hb with e | e
        · subst e; exact ⟨r, by simp, hv⟩
        · obtain ⟨r', hr', hv'⟩ := ih ls' hvs b e
          exact ⟨r', by simp [hr'], hv'⟩

theorem reachedL_mem {m : Mapper} {b : List Node} {n : Node} (h : n ∈ reachedL m b) : ∃ x ∈ b, n ∈ reachedN m x := by
  induction b with
  | nil => simp [reachedL] at h
  | cons c cs ih =>
    simp only [reachedL, List.mem_append] at h
    rcases h with h | h
    · exact ⟨c, by simp, h⟩
    · obtain ⟨x, hx, hn⟩ := ih h; exact ⟨x, by simp [hx], hn⟩

theorem reachedLL_mem {m : Mapper} {ks : List (List Node)} {n : Node} (h : n ∈ reachedLL m ks) :
    ∃ b ∈ ks, n ∈ reachedL m b := by
  induction ks with
  | nil => simp [reachedLL] at h
  | cons c cs ih =>
    simp only [reachedLL, List.mem_append] at h
    rcases h with h | h
    · exact ⟨c, by simp, h⟩
    · obtain ⟨x, hx, hn⟩ := ih h; exact ⟨x, by simp [hx], hn⟩

/-- a node with a non-empty `reachedN` is not spliced away -/
theorem reached_survives {m : Mapper} (hd : KeysDistinct m) {x n : Node} (hn : n ∈ reachedN m x) :
    ∀ hs, (x, Handle.tuple hs) ∈ m → x ∈ hs := by
  intro hs hm
  have hl := lookup_of_mem hd hm
  cases x with
  | mk k l ks =>
    simp only [reachedN, hl] at hn
    by_cases e : Node.mk k l ks ∈ hs
    · exact e
    · simp [e] at hn

theorem visit_cov (cfg : Cfg) (m : Mapper) (hd : KeysDistinct m) :
    ∀ (f : Nat) (x : Node) (r : VRes), (∀ y ∈ x.nodes, sameObject cfg y.kind = false) →
      visitNode cfg m f x = .ok r → ∀ n ∈ reachedN m x, n ∈ r.recd := by
  intro f
  induction f with
  | zero => intro x r _ h; simp [visitNode] at h
  | succ f ih =>
    intro x r hno h n hn
    have hdesc : ∀ r, descendWith cfg (visitListWith m (visitNode cfg m f)) x = .ok r →
        ∀ n, (n = x ∨ n ∈ reachedLL m x.kids) → n ∈ r.recd := by
      intro r h n hn
      cases x with
      | mk k l ks =>
        simp only [descendWith, Node.kids] at h
        cases hk : visitKidsWith (visitListWith m (visitNode cfg m f)) ks with
        | error e => simp [hk] at h
        | ok ls =>
          simp only [hk, Except.ok.injEq] at h
          subst h
          have hs : sameObject cfg k = false := hno (Node.mk k l ks) (by simp [nodes_mk])
          simp only [Node.kind, hs, List.mem_append]
          rcases hn with hn | hn
          · exact Or.inr (by simp [hn])
          · left
            simp only [Node.kids] at hn
            obtain ⟨b, hb, hnb⟩ := reachedLL_mem hn
            obtain ⟨y, hy, hny⟩ := reachedL_mem hnb
            obtain ⟨rb, hrb, hvb⟩ := visitKids_mem _ ks ls hk b hb
            apply List.mem_flatMap.mpr
            refine ⟨rb, hrb, ?_⟩
            simp only [visitListWith] at hvb
            cases hve : visitEach (visitNode cfg m f) (injectAll m b) with
            | error e => simp [hve] at hvb
            | ok rs =>
              simp only [hve, Except.ok.injEq] at hvb
              subst hvb
              simp only
              have hyin : y ∈ injectAll m b := mem_injectAll (reached_survives hd hny) b hy
              obtain ⟨ry, hry, hvy⟩ := visitEach_mem _ _ rs hve y hyin
              apply List.mem_flatMap.mpr
              refine ⟨ry, hry, ?_⟩
              exact ih y ry (fun z hz => hno z (by
                rw [nodes_mk]; exact List.mem_cons_of_mem _ (nodesLL_mem hb (nodesL_mem hy hz)))) hvy n hny
    simp only [visitNode] at h
    cases x with
    | mk k l ks =>
      simp only [reachedN] at hn
      cases hl : lookup m (Node.mk k l ks) with
      | none =>
        simp only [hl] at h hn
        exact hdesc r h n (by simpa [Node.kids] using hn)
      | some hd' =>
        cases hd' with
        | drop => simp only [hl, Except.ok.injEq] at h; simp only [hl] at hn; subst h; simpa using hn
        | node q => simp only [hl, Except.ok.injEq] at h; simp only [hl] at hn; subst h; simpa using hn
        | tuple hs =>
          simp only [hl] at h hn
          by_cases e : Node.mk k l ks ∈ hs
          · simp only [e, if_true] at h hn
            exact hdesc r h n (by simpa [Node.kids] using hn)
          · simp [e] at hn


theorem visitList_cov (cfg : Cfg) (m : Mapper) (hd : KeysDistinct m) (f : Nat) (b : List Node)
    (hno : ∀ y ∈ nodesL b, sameObject cfg y.kind = false) (rb : LRes)
    (hvb : visitListWith m (visitNode cfg m f) b = .ok rb) : ∀ n ∈ reachedL m b, n ∈ rb.recd := by
  intro n hnb
  obtain ⟨y, hy, hny⟩ := reachedL_mem hnb
  simp only [visitListWith] at hvb
  cases hve : visitEach (visitNode cfg m f) (injectAll m b) with
  | error e => simp [hve] at hvb
  | ok rs =>
    simp only [hve, Except.ok.injEq] at hvb
    subst hvb
    simp only
    have hyin : y ∈ injectAll m b := mem_injectAll (reached_survives hd hny) b hy
    obtain ⟨ry, hry, hvy⟩ := visitEach_mem _ _ rs hve y hyin
    apply List.mem_flatMap.mpr
    exact ⟨ry, hry, visit_cov cfg m hd f y ry (fun z hz => hno z (nodesL_mem hy hz)) hvy n hny⟩

/-! ## NestedTransformer -/

theorem injectAll_no_tuples (m : Mapper) (h : ∀ p ∈ m, ∀ hs, p.2 ≠ Handle.tuple hs) (o : List Node) :
    injectAll m o = o := by
  induction m generalizing o with
  | nil => rfl
  | cons p m ih =>
    simp only [injectAll, List.foldl_cons]
    have : injectStep o p = o := by
      obtain ⟨k, hd⟩ := p
      cases hd with
      | drop => rfl
      | node n => rfl
      | tuple hs => exact absurd rfl (h (k, .tuple hs) (by simp) hs)
    rw [this]
    exact ih (fun q hq => h q (by simp [hq])) o

theorem nestedOK_mem {m : Mapper} (hk : KnownNested m = false) {k : Node} {h : Handle} (hm : (k, h) ∈ m) :
    nestedOKPair k h = true := by
  simp only [KnownNested, Bool.not_eq_false', List.all_eq_true] at hk
  exact hk (k, h) hm

theorem nested_list_step (m : Mapper) (hk : KnownNested m = false) (v : Node → Except Err VRes) (b : List Node)
    (h : ∀ y ∈ b, ∃ r, v y = .ok r ∧ NSpecN m y r.res) :
    ∃ r, nestedListWith m v b = .ok r ∧ NSpecL m b r.res := by
  have hinj : ∀ l, injectAll m l = l := injectAll_no_tuples m (by
    intro p hp hs e
    have := nestedOK_mem hk (k := p.1) (h := p.2) hp
    rw [e] at this
    simp [nestedOKPair] at this)
  have each : ∃ rs, visitEach v b = .ok rs ∧ NSpecL m b (rs.filterMap (·.res)) := by
    induction b with
    | nil => exact ⟨[], rfl, .nil⟩
    | cons y ys ih =>
      obtain ⟨r, hr, hs⟩ := h y (by simp)
      obtain ⟨rs, hrs, hss⟩ := ih (fun z hz => h z (by simp [hz]))
      refine ⟨r :: rs, by simp [visitEach, hr, hrs], ?_⟩
      have : (r :: rs).filterMap (·.res) = r.res.toList ++ rs.filterMap (·.res) := by
        cases hres : r.res <;> simp [List.filterMap_cons, hres]
      rw [this]
      exact .cons hs hss
  obtain ⟨rs, hrs, hss⟩ := each
  simp only [nestedListWith, hrs, hinj]
  exact ⟨_, rfl, hss⟩

theorem nested_kids_step (m : Mapper) (vl : List Node → Except Err LRes) (ks : List (List Node))
    (h : ∀ b ∈ ks, ∃ r, vl b = .ok r ∧ NSpecL m b r.res) :
    ∃ ls, visitKidsWith vl ks = .ok ls ∧ NSpecLL m ks (ls.map (·.res)) := by
  induction ks with
  | nil => exact ⟨[], rfl, .nil⟩
  | cons b bs ih =>
    obtain ⟨r, hr, hs⟩ := h b (by simp)
    obtain ⟨ls, hls, hss⟩ := ih (fun c hc => h c (by simp [hc]))
    exact ⟨r :: ls, by simp [visitKidsWith, hr, hls], by simpa using NSpecLL.cons hs hss⟩

theorem nested_spec (cfg : Cfg) (m : Mapper) (hk : KnownNested m = false) :
    ∀ (f : Nat) (x : Node), x.depth ≤ f → ∃ r, nestedNode cfg m f x = .ok r ∧ NSpecN m x r.res := by
  intro f
  induction f with
  | zero => intro x hd; have := depth_pos x; omega
  | succ f ih =>
    intro x hd
    cases x with
    | mk k l ks =>
      rw [depth_mk] at hd
      have hkids : ∃ ls, visitKidsWith (nestedListWith m (nestedNode cfg m f)) ks = .ok ls ∧
          NSpecLL m ks (ls.map (·.res)) := by
        apply nested_kids_step
        intro b hb
        apply nested_list_step m hk
        intro y hy
        exact ih y (by have := depthLL_mem hb; have := depthL_mem hy; omega)
      obtain ⟨ls, hls, hss⟩ := hkids
      cases hl : lookup m (Node.mk k l ks) with
      | none =>
        simp only [nestedNode, hl, Node.kind, Node.kids, Node.lbl, hls, ne_eq, not_true_eq_false, if_false]
        refine ⟨_, rfl, ?_⟩
        have key := NSpecN.keep (x := Node.mk k l ks) hl hss
        simp only [Node.kind, Node.lbl, Node.kids] at key
        dsimp only
        by_cases hp : k.payloadTraversable = true
        · simp only [hp, if_true]; exact key
        · simp only [hp, if_false]; exact key
      | some hd' =>
        have hok := nestedOK_mem hk (lookup_mem hl)
        cases hd' with
        | drop => simp only [nestedNode, hl]; exact ⟨_, rfl, NSpecN.drop hl⟩
        | tuple hs => simp [nestedOKPair] at hok
        | node h =>
          obtain ⟨hk0, hl0, hks0⟩ := h
          simp only [nestedOKPair, Bool.and_eq_true, beq_iff_eq, Bool.or_eq_true, Bool.not_eq_true',
            Node.kind, Node.kids, Node.lbl] at hok
          obtain ⟨⟨hkind, hkids'⟩, hlbl⟩ := hok
          subst hkind; subst hkids'
          simp only [nestedNode, hl, Node.kind, Node.kids, Node.lbl, hls, ne_eq, not_true_eq_false, if_false]
          refine ⟨_, rfl, ?_⟩
          have key := NSpecN.repl (h := Node.mk hk0 hl0 hks0) hl hss
          simp only [Node.kind, Node.lbl, Node.kids] at key
          dsimp only
          rcases hlbl with e | e
          · simp only [e, Bool.false_eq_true, if_false]; exact key
          · subst e
            by_cases hp : hk0.payloadTraversable = true
            · simp only [hp, if_true]; exact key
            · simp only [hp, if_false]; exact key

theorem NSpecL_cons_inv {m : Mapper} {x : Node} {xs out : List Node} (h : NSpecL m (x :: xs) out) :
    ∃ r rs, NSpecN m x r ∧ NSpecL m xs rs ∧ out = r.toList ++ rs := by
  generalize hi : x :: xs = inp at h
  cases h with
  | nil => cases hi
  | cons hn hrest => cases hi; exact ⟨_, _, hn, hrest, rfl⟩

theorem NSpecL_nil_inv {m : Mapper} {out : List Node} (h : NSpecL m [] out) : out = [] := by
  generalize hi : ([] : List Node) = inp at h
  cases h with
  | nil => rfl
  | cons hn hrest => cases hi

theorem NSpecN_inv {m : Mapper} {x : Node} {r : Option Node} (h : NSpecN m x r) :
    (lookup m x = some .drop ∧ r = none)
    ∨ (∃ h' ks', lookup m x = some (.node h') ∧ r = some (.mk h'.kind h'.lbl ks'))
    ∨ (∃ ks', lookup m x = none ∧ r = some (.mk x.kind x.lbl ks')) := by
  cases h with
  | drop hd => exact Or.inl ⟨hd, rfl⟩
  | repl hd _ => exact Or.inr (Or.inl ⟨_, _, hd, rfl⟩)
  | keep hd _ => exact Or.inr (Or.inr ⟨_, hd, rfl⟩)

end LokiModel.C14
