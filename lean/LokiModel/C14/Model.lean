/-!
# C14 model: the tree transformer (`loki/ir/transformer.py`, `loki/ir/visitor.py`,
`loki/ir/nodes/abstract_nodes.py`)

Value-level model.  A `Node` is what Loki's dataclass equality sees of an IR node: its class
(`Kind`), a payload (`lbl`, standing for the non-node fields: the expressions of a statement, a
comment text, a section label …) and its child tuples (`kids`):

* leaf kinds (`assign`, `call`, `comment`): no child tuples,
* `sect`, `loop`, `assoc`, `preg`: one (`body`),
* `cond`: two (`body`, `else_body`),
* `mcond` (`MultiConditional`): `bodies ++ [else_body]` (the traversable field `bodies` is a tuple of
  tuples, `else_body` a tuple).

Python object identity is not part of a `Node` (Loki's `==`/`hash` ignore it, and `o in mapper`,
`k in o`, `nodes.index` all go through `==`).  What identity decides — whether `_update` hits an
object of the *original* tree — is modelled by the `post` component of a visit result: the state
of the visited object after the visit.  This is exact for alias-free inputs (every object occurs
once in the tree, replacement nodes are fresh objects, a one-to-many value mentions its key through
the very object that is in the tree); see `notes/C14.md`.

Mirrored code: `Transformer.visit_Node`, `visit_ScopedNode` (value level: same as `visit_Node`
except that without `rebuild_scopes` the visited object itself is `_update`d), `visit_tuple`
(`_inject_tuple_mapping` first, then the visits, then the filter: `None` results are dropped; the
result for an element that is itself a tuple — a case body in `MultiConditional.bodies` — keeps its
position even when empty, since the `fix:` commit recorded in `known_findings.json`; before it the
empty body was dropped, see `LokiModel/Findings/C14.lean`),
`Transformer._rebuild` (`inplace` → `_update`), `Transformer.visit` (the `rebuilt` record),
`NestedTransformer.visit_Node/visit_tuple`.  Python's unbounded recursion is modelled with fuel
(`Err.fuel` ↔ `RecursionError`); `handle._rebuild` on a tuple ↔ `Err.attr` (`AttributeError`).
Not modelled: `source` invalidation (all sources `None`), tuple-valued mapper keys
(`replace_windowed`), the `parent` pointer of scopes, `MaskedTransformer`.
Core Lean only.
-/
namespace LokiModel.C14

inductive Kind where
  | assign | call | comment | sect | loop | cond | assoc | preg | mcond
deriving DecidableEq, Repr

inductive Node where
  | mk (kind : Kind) (lbl : Nat) (kids : List (List Node))
deriving Repr

namespace Node
def kind : Node → Kind | mk k _ _ => k
def lbl : Node → Nat | mk _ l _ => l
def kids : Node → List (List Node) | mk _ _ ks => ks
end Node

mutual
def Node.decEq : (a b : Node) → Decidable (a = b)
  | .mk k l ks, .mk k' l' ks' =>
    if h1 : k = k' then
      if h2 : l = l' then
        match decEqLL ks ks' with
        | isTrue h => isTrue (by rw [h1, h2, h])
        | isFalse h => isFalse (by intro e; cases e; exact h rfl)
      else isFalse (by intro e; cases e; exact h2 rfl)
    else isFalse (by intro e; cases e; exact h1 rfl)
def decEqL : (a b : List Node) → Decidable (a = b)
  | [], [] => isTrue rfl
  | [], _ :: _ => isFalse (by intro e; cases e)
  | _ :: _, [] => isFalse (by intro e; cases e)
  | a :: as, b :: bs =>
    match Node.decEq a b with
    | isTrue h => match decEqL as bs with
      | isTrue h' => isTrue (by rw [h, h'])
      | isFalse h' => isFalse (by intro e; cases e; exact h' rfl)
    | isFalse h => isFalse (by intro e; cases e; exact h rfl)
def decEqLL : (a b : List (List Node)) → Decidable (a = b)
  | [], [] => isTrue rfl
  | [], _ :: _ => isFalse (by intro e; cases e)
  | _ :: _, [] => isFalse (by intro e; cases e)
  | a :: as, b :: bs =>
    match decEqL a b with
    | isTrue h => match decEqLL as bs with
      | isTrue h' => isTrue (by rw [h, h'])
      | isFalse h' => isFalse (by intro e; cases e; exact h' rfl)
    | isFalse h => isFalse (by intro e; cases e; exact h rfl)
end

/-- Loki's dataclass equality (field values, object identity excluded) -/
instance : DecidableEq Node := Node.decEq

/-- class names of the real node classes -/
def Kind.className : Kind → String
  | .assign => "Assignment" | .call => "CallStatement" | .comment => "Comment"
  | .sect => "Section" | .loop => "Loop" | .cond => "Conditional" | .assoc => "Associate"
  | .preg => "PragmaRegion" | .mcond => "MultiConditional"

/-- `isinstance(o, ScopedNode)`: dispatch to `visit_ScopedNode` -/
def Kind.isScoped : Kind → Bool
  | .assoc => true
  | _ => false

/-- the traversable fields that hold nodes, in `_traversable` order (expression fields are part of `lbl`) -/
def Kind.nodeFields : Kind → List String
  | .assign | .call | .comment => []
  | .sect | .loop | .assoc | .preg => ["body"]
  | .cond => ["body", "else_body"]
  | .mcond => ["bodies", "else_body"]

/-- a mapper value: `None`, a node, or an iterable of nodes (`Section`/`Associate` values are nodes:
`is_iterable` treats them as atomic) -/
inductive Handle where
  | drop
  | node (n : Node)
  | tuple (ns : List Node)
deriving Repr

/-- the mapper `dict` in insertion order -/
abbrev Mapper := List (Node × Handle)

/-- `self.mapper[o]` / `o in self.mapper` (keys compare by value) -/
def lookup : Mapper → Node → Option Handle
  | [], _ => none
  | (k, h) :: m, o => if k = o then some h else lookup m o

/-- building a `dict` from pairs: a later pair with an equal key overwrites the value in place -/
def dictInsert : Mapper → Node → Handle → Mapper
  | [], k, h => [(k, h)]
  | (k', h') :: m, k, h => if k' = k then (k', h) :: m else (k', h') :: dictInsert m k h

def mkDict (ps : List (Node × Handle)) : Mapper := ps.foldl (fun m p => dictInsert m p.1 p.2) []

structure Cfg where
  inplace : Bool
  rebuildScopes : Bool
deriving Repr

inductive Err where
  | attr      -- AttributeError: 'tuple' object has no attribute '_rebuild'
  | fuel      -- RecursionError
  | value     -- ValueError / AttributeError of NestedTransformer on one-to-many values
  | shape     -- NestedTransformer with a replacement of another class (outside the model)
deriving DecidableEq, Repr

/-- `_inject_handle` and the `while k in o[i:]` loop: every occurrence of `k` in the tuple is replaced by
`hs`; the scan resumes behind the inserted nodes, so occurrences of `k` inside `hs` are not touched -/
def injectOne (k : Node) (hs : List Node) : List Node → List Node
  | [] => []
  | x :: xs => if x = k then hs ++ injectOne k hs xs else x :: injectOne k hs xs

/-- body of the `for k, handle in self.mapper.items()` loop -/
def injectStep (o : List Node) (kh : Node × Handle) : List Node :=
  match kh.2 with
  | .tuple hs => if kh.1 ∈ o then injectOne kh.1 hs o else o
  | _ => o

/-- `_inject_tuple_mapping` -/
def injectAll (m : Mapper) (o : List Node) : List Node := m.foldl injectStep o

/-- result of visiting one node object -/
structure VRes where
  res : Option Node     -- the returned object (`none` = Python `None`)
  post : Node           -- value of the visited object after the visit
  recd : List Node      -- keys entered into `self.rebuilt` during the visit
deriving Repr

/-- result of visiting a tuple -/
structure LRes where
  res : List Node
  post : List Node      -- values of the objects of the *original* tuple after the visit
  recd : List Node
deriving Repr

def visitEach (v : Node → Except Err VRes) : List Node → Except Err (List VRes)
  | [] => .ok []
  | x :: xs =>
    match v x with
    | .error e => .error e
    | .ok r =>
      match visitEach v xs with
      | .error e => .error e
      | .ok rs => .ok (r :: rs)

/-- post-state of the original element `x`: that of the first visited element equal to it;
an element that was spliced away was not visited and is unchanged -/
def findPost (x : Node) : List Node → List VRes → Node
  | y :: ys, r :: rs => if y = x then r.post else findPost x ys rs
  | _, _ => x

/-- `Transformer.visit_tuple` -/
def visitListWith (m : Mapper) (v : Node → Except Err VRes) (o : List Node) : Except Err LRes :=
  let o' := injectAll m o
  match visitEach v o' with
  | .error e => .error e
  | .ok rs => .ok { res := rs.filterMap (·.res), post := o.map (fun x => findPost x o' rs),
                    recd := rs.flatMap (·.recd) }

def visitKidsWith (vl : List Node → Except Err LRes) : List (List Node) → Except Err (List LRes)
  | [] => .ok []
  | b :: bs =>
    match vl b with
    | .error e => .error e
    | .ok r =>
      match visitKidsWith vl bs with
      | .error e => .error e
      | .ok rs => .ok (r :: rs)

/-- is the returned object the visited object itself (`_update`) rather than a fresh one (`_rebuild`)? -/
def sameObject (cfg : Cfg) (k : Kind) : Bool := cfg.inplace || (k.isScoped && !cfg.rebuildScopes)

/-- the tail of `visit_Node` / `visit_ScopedNode`: visit the children, then `_rebuild` / `_update` -/
def descendWith (cfg : Cfg) (vl : List Node → Except Err LRes) (o : Node) : Except Err VRes :=
  match visitKidsWith vl o.kids with
  | .error e => .error e
  | .ok ls =>
    let r := Node.mk o.kind o.lbl (ls.map (·.res))
    .ok { res := some r,
          post := if sameObject cfg o.kind then r else Node.mk o.kind o.lbl (ls.map (·.post)),
          recd := ls.flatMap (·.recd) ++ (if sameObject cfg o.kind then [] else [o]) }

/-- `Transformer.visit` on a node (`visit_Node` / `visit_ScopedNode`) -/
def visitNode (cfg : Cfg) (m : Mapper) : Nat → Node → Except Err VRes
  | 0, _ => .error .fuel
  | f + 1, o =>
    match lookup m o with
    | some .drop => .ok { res := none, post := o, recd := [o] }
    | some (.node h) => .ok { res := some h, post := o, recd := [o] }
    | some (.tuple hs) =>
      if o ∈ hs then descendWith cfg (visitListWith m (visitNode cfg m f)) o else .error .attr
    | none => descendWith cfg (visitListWith m (visitNode cfg m f)) o

/-- `Transformer.visit` on a tuple -/
def visitList (cfg : Cfg) (m : Mapper) (f : Nat) (o : List Node) : Except Err LRes :=
  visitListWith m (visitNode cfg m f) o

/-! ## NestedTransformer -/

/-- kinds whose payload sits in traversable (expression) fields: `NestedTransformer` rebuilds the
replacement with the visited children *of the key*, so for these kinds the payload of the key survives -/
def Kind.payloadTraversable : Kind → Bool
  | .assign | .call | .loop | .cond | .assoc | .mcond => true
  | .comment | .sect | .preg => false

/-- `NestedTransformer.visit_tuple`: visit first, then inject into the visited tuple (`None` entries are
still present and never equal a key), then filter -/
def nestedListWith (m : Mapper) (v : Node → Except Err VRes) (o : List Node) : Except Err LRes :=
  match visitEach v o with
  | .error e => .error e
  | .ok rs => .ok { res := injectAll m (rs.filterMap (·.res)), post := rs.map (·.post),
                    recd := rs.flatMap (·.recd) }

/-- `NestedTransformer.visit_Node` / `visit_ScopedNode` (default `invalidate_source=True`) -/
def nestedNode (cfg : Cfg) (m : Mapper) : Nat → Node → Except Err VRes
  | 0, _ => .error .fuel
  | f + 1, o =>
    let go (h : Node) (mapped : Bool) : Except Err VRes :=
      if h.kind ≠ o.kind then .error .shape else
      match visitKidsWith (nestedListWith m (nestedNode cfg m f)) o.kids with
      | .error e => .error e
      | .ok ls =>
        let l := if o.kind.payloadTraversable then o.lbl else h.lbl
        let r := Node.mk h.kind l (ls.map (·.res))
        -- the object that is updated in place is the *handle*; it is the visited object only when unmapped
        let same := sameObject cfg o.kind && !mapped
        .ok { res := some r,
              post := if same then r else Node.mk o.kind o.lbl (ls.map (·.post)),
              recd := ls.flatMap (·.recd) ++ (if same then [] else [o]) }
    match lookup m o with
    | some .drop => .ok { res := none, post := o, recd := [o] }
    | some (.node h) => go h true
    | some (.tuple _) => .error .value
    | none => go o false

def nestedList (cfg : Cfg) (m : Mapper) (f : Nat) (o : List Node) : Except Err LRes :=
  nestedListWith m (nestedNode cfg m f) o

/-! ## measures and predicates used by the theorems, the driver and the classifier -/

mutual
def Node.depth : Node → Nat
  | .mk _ _ ks => depthLL ks + 1
def depthL : List Node → Nat
  | [] => 0
  | x :: xs => max x.depth (depthL xs)
def depthLL : List (List Node) → Nat
  | [] => 0
  | b :: bs => max (depthL b) (depthLL bs)
end

mutual
/-- pre-order list of the nodes of a tree -/
def Node.nodes : Node → List Node
  | .mk k l ks => Node.mk k l ks :: nodesLL ks
def nodesL : List Node → List Node
  | [] => []
  | x :: xs => x.nodes ++ nodesL xs
def nodesLL : List (List Node) → List Node
  | [] => []
  | b :: bs => nodesL b ++ nodesLL bs
end

def hasScoped (o : List Node) : Bool := (nodesL o).any (·.kind.isScoped)

end LokiModel.C14
