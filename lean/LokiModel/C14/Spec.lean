import LokiModel.C14.Model
/-!
# C14 specification: the reference rebuild, written from the `Transformer` class docstring

Independent of the traversal machinery (no injection, no indices, no fuel): a structural recursion over the
tree.  *Pre-order*: the mapping is applied to a node before its children are looked at; a replacement is not
looked at again.  `None` removes; a node replaces; an iterable is spliced into the containing tuple, and where
it mentions the key itself the node is kept (its children rebuilt); unmapped nodes keep content and order.
-/
namespace LokiModel.C14

/-- what stands for the node `x` in the tuple that contains it; `kept` is `x` with rebuilt children -/
def specAt (m : Mapper) (x kept : Node) : List Node :=
  match lookup m x with
  | none => [kept]
  | some .drop => []
  | some (.node h) => [h]
  | some (.tuple hs) => hs.flatMap (fun h => if h = x then [kept] else [h])

mutual
/-- an unmapped node keeps class and payload; each child tuple is rebuilt, position by position -/
def specKeep (m : Mapper) : Node → Node
  | .mk k l ks => .mk k l (specLL m ks)
def specL (m : Mapper) : List Node → List Node
  | [] => []
  | x :: xs => specAt m x (specKeep m x) ++ specL m xs
def specLL (m : Mapper) : List (List Node) → List (List Node)
  | [] => []
  | b :: bs => specL m b :: specLL m bs
end

/-- the reference for a root node (no containing tuple): `none` = removed -/
def specRoot (m : Mapper) (o : Node) : Option Node :=
  match lookup m o with
  | none => some (specKeep m o)
  | some .drop => none
  | some (.node h) => some h
  | some (.tuple _) => none   -- one-to-many needs a containing tuple: excluded by hypothesis where used

/-! ## the hypotheses under which the code meets the specification (complements of the known-finding classes) -/

/-- a Python `dict` has pairwise different keys -/
def KeysDistinct : Mapper → Prop
  | [] => True
  | (k, _) :: m => lookup m k = none ∧ KeysDistinct m

mutual
/-- visiting the node once more cannot change it: no node below is a key -/
def fixedN (m : Mapper) : Node → Bool
  | .mk k l ks => (lookup m (.mk k l ks)).isNone && fixedLL m ks
def fixedL (m : Mapper) : List Node → Bool
  | [] => true
  | x :: xs => fixedN m x && fixedL m xs
def fixedLL (m : Mapper) : List (List Node) → Bool
  | [] => true
  | b :: bs => fixedL m b && fixedLL m bs
end

/-- all nodes mentioned in one-to-many values, other than the key itself -/
def tupleElems : Mapper → List Node
  | [] => []
  | (k, .tuple hs) :: m => hs.filter (· ≠ k) ++ tupleElems m
  | _ :: m => tupleElems m

/-- `KnownRevisit m = false`: complement of the class `spliced-nodes-revisited` -/
def KnownRevisit (m : Mapper) : Bool := !(fixedL m (tupleElems m))

mutual
/-- the nodes of the original that have a counterpart in the new tree: reached by the pre-order descent and not
spliced away -/
def reachedN (m : Mapper) : Node → List Node
  | .mk k l ks =>
    match lookup m (.mk k l ks) with
    | none => .mk k l ks :: reachedLL m ks
    | some (.tuple hs) => if .mk k l ks ∈ hs then .mk k l ks :: reachedLL m ks else []
    | some _ => [.mk k l ks]
def reachedL (m : Mapper) : List Node → List Node
  | [] => []
  | x :: xs => reachedN m x ++ reachedL m xs
def reachedLL (m : Mapper) : List (List Node) → List Node
  | [] => []
  | b :: bs => reachedL m b ++ reachedLL m bs
end

/-- class `scoped-node-updated-in-place` -/
def KnownScopedUpdate (cfg : Cfg) (o : List Node) : Bool := !cfg.inplace && !cfg.rebuildScopes && hasScoped o

/-! ## NestedTransformer: reference, written from its docstring ("applies replacements in a depth-first fashion":
the children of a replacement are transformed too).  A relation, because the reference need not terminate when a
replacement contains its own key. -/

mutual
/-- `NSpecN m x r`: `r` stands for `x` (`none` = removed) -/
inductive NSpecN (m : Mapper) : Node → Option Node → Prop
  | drop {x : Node} : lookup m x = some .drop → NSpecN m x none
  | repl {x h : Node} {ks' : List (List Node)} :
      lookup m x = some (.node h) → NSpecLL m h.kids ks' → NSpecN m x (some (.mk h.kind h.lbl ks'))
  | keep {x : Node} {ks' : List (List Node)} :
      lookup m x = none → NSpecLL m x.kids ks' → NSpecN m x (some (.mk x.kind x.lbl ks'))
inductive NSpecL (m : Mapper) : List Node → List Node → Prop
  | nil : NSpecL m [] []
  | cons {x : Node} {r : Option Node} {xs rs : List Node} :
      NSpecN m x r → NSpecL m xs rs → NSpecL m (x :: xs) (r.toList ++ rs)
inductive NSpecLL (m : Mapper) : List (List Node) → List (List Node) → Prop
  | nil : NSpecLL m [] []
  | cons {b b' : List Node} {bs bs' : List (List Node)} :
      NSpecL m b b' → NSpecLL m bs bs' → NSpecLL m (b :: bs) (b' :: bs')
end

/-- a mapper value as `NestedTransformer` is used in Loki: `None`, or the key itself with other non-traversable
attributes (same class, same children, same expression fields) -/
def nestedOKPair (k : Node) : Handle → Bool
  | .drop => true
  | .node h => h.kind == k.kind && h.kids == k.kids && (!k.kind.payloadTraversable || h.lbl == k.lbl)
  | .tuple _ => false

/-- `KnownNested m = false`: complement of the class `nested-replacement-built-from-key` -/
def KnownNested (m : Mapper) : Bool := !(m.all fun p => nestedOKPair p.1 p.2)

end LokiModel.C14
