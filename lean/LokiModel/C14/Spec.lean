import LokiModel.C14.Model
/-!
# C14 specification: the reference rebuild, written from the `Transformer` class docstring

Independent of the traversal machinery (no injection, no indices, no fuel): a structural recursion over the
tree.  *Pre-order*: the mapping is applied to a node before its children are looked at; a replacement is not
looked at again.  `None` removes; a node replaces; an iterable is spliced into the containing tuple, and where
it mentions the key itself the node is kept (its children rebuilt); unmapped nodes keep content and order.
-/
namespace LokiModel.C14

/-- what stands for the node `x` in the tuple that contains it; `kept` is `x` with rebuilt children -/
def specAt (m : Mapper) (x kept : Node) : List Node :=
  match lookup m x with
  | none => [kept]
  | some .drop => []
  | some (.node h) => [h]
  | some (.tuple hs) => hs.flatMap (fun h => if h = x then [kept] else [h])

mutual
/-- an unmapped node keeps class and payload; each child tuple is rebuilt, position by position -/
def specKeep (m : Mapper) : Node → Node
  | .mk k l ks => .mk k l (specLL m ks)
def specL (m : Mapper) : List Node → List Node
  | [] => []
  | x :: xs => specAt m x (specKeep m x) ++ specL m xs
def specLL (m : Mapper) : List (List Node) → List (List Node)
  | [] => []
  | b :: bs => specL m b :: specLL m bs
end

/-- the reference for a root node (no containing tuple): `none` = removed -/
def specRoot (m : Mapper) (o : Node) : Option Node :=
  match lookup m o with
  | none => some (specKeep m o)
  | some .drop => none
  | some (.node h) => some h
  | some (.tuple _) => none   -- one-to-many needs a containing tuple: excluded by hypothesis where used

/-! ## the hypotheses under which the code meets the specification (complements of the known-finding classes) -/

/-- a Python `dict` has pairwise different keys -/
def KeysDistinct : Mapper → Prop
  | [] => True
  | (k, _) :: m => lookup m k = none ∧ KeysDistinct m

mutual
/-- visiting the node once more cannot change it: no node below is a key and no `MultiConditional`
has an empty case body -/
def fixedN (m : Mapper) : Node → Bool
  | .mk k l ks => (lookup m (.mk k l ks)).isNone && (k != .mcond || dropEmptyBodies ks == ks) && fixedLL m ks
def fixedL (m : Mapper) : List Node → Bool
  | [] => true
  | x :: xs => fixedN m x && fixedL m xs
def fixedLL (m : Mapper) : List (List Node) → Bool
  | [] => true
  | b :: bs => fixedL m b && fixedLL m bs
end

/-- all nodes mentioned in one-to-many values, other than the key itself -/
def tupleElems : Mapper → List Node
  | [] => []
  | (k, .tuple hs) :: m => hs.filter (· ≠ k) ++ tupleElems m
  | _ :: m => tupleElems m

/-- `KnownRevisit m = false`: complement of the class `spliced-nodes-revisited` -/
def KnownRevisit (m : Mapper) : Bool := !(fixedL m (tupleElems m))

mutual
/-- no `MultiConditional` of the tree has a case body that the mapping makes empty -/
def safeN (m : Mapper) : Node → Bool
  | .mk k _ ks => (k != .mcond || dropEmptyBodies (specLL m ks) == specLL m ks) && safeLL m ks
def safeL (m : Mapper) : List Node → Bool
  | [] => true
  | x :: xs => safeN m x && safeL m xs
def safeLL (m : Mapper) : List (List Node) → Bool
  | [] => true
  | b :: bs => safeL m b && safeLL m bs
end

/-- `KnownMcond m o = false`: complement of the class `multiconditional-empty-body-dropped` -/
def KnownMcond (m : Mapper) (o : List Node) : Bool := !(safeL m o)

mutual
/-- the nodes of the original that have a counterpart in the new tree: reached by the pre-order descent and not
spliced away -/
def reachedN (m : Mapper) : Node → List Node
  | .mk k l ks =>
    match lookup m (.mk k l ks) with
    | none => .mk k l ks :: reachedLL m ks
    | some (.tuple hs) => if .mk k l ks ∈ hs then .mk k l ks :: reachedLL m ks else []
    | some _ => [.mk k l ks]
def reachedL (m : Mapper) : List Node → List Node
  | [] => []
  | x :: xs => reachedN m x ++ reachedL m xs
def reachedLL (m : Mapper) : List (List Node) → List Node
  | [] => []
  | b :: bs => reachedL m b ++ reachedLL m bs
end

/-- class `scoped-node-updated-in-place` -/
def KnownScopedUpdate (cfg : Cfg) (o : List Node) : Bool := !cfg.inplace && !cfg.rebuildScopes && hasScoped o

end LokiModel.C14
