import LokiModel.C15.Lemmas
/-! `FindScopes`: reference (`pathsC`: the pruned pre-order with every node's chain of ancestors) and lemmas. -/
namespace LokiModel.C15

mutual
/-- pruned pre-order in which every node comes with its ancestors: `anc ++ … ++ [node]` -/
def pathsN (p : Node → Bool) (anc : List Node) : Node → List (List Node)
  | .mk k u l cs h =>
    (anc ++ [.mk k u l cs h]) ::
      (if p (.mk k u l cs h) || isTypeDef k then [] else pathsCs p (anc ++ [.mk k u l cs h]) cs)
def pathsC (p : Node → Bool) (anc : List Node) : Child → List (List Node)
  | .e _ => []
  | .junk _ => []
  | .n x => pathsN p anc x
  | .grp cs => pathsCs p anc cs
def pathsCs (p : Node → Bool) (anc : List Node) : List Child → List (List Node)
  | [] => []
  | c :: cs => pathsC p anc c ++ pathsCs p anc cs
end

/-- the chain ends in the object `m` -/
def endsIn (m : Nat) (ch : List Node) : Bool :=
  match ch.getLast? with
  | some n => ruleIs m n
  | none => false

theorem getLast?_snoc (anc : List Node) (n : Node) : (anc ++ [n]).getLast? = some n := by simp

theorem endsIn_snoc (m : Nat) (anc : List Node) (n : Node) : endsIn m (anc ++ [n]) = ruleIs m n := by
  simp [endsIn]

mutual
theorem scopesN_eq (m : Nat) (g : Bool) : ∀ (n : Node) (anc : List Node),
    scopesN m g anc n = (pathsN (fun x => ruleIs m x && g) anc n).filter (endsIn m)
  | .mk k u l cs h, anc => by
    have ih := scopesCs_eq m g cs (anc ++ [.mk k u l cs h])
    have hu : ruleIs m (.mk k u l cs h) = (u == m) := rfl
    simp only [scopesN, pathsN, List.filter_cons, endsIn_snoc, hu]
    cases g <;> by_cases hr : (u == m) = true <;> by_cases ht : isTypeDef k = true <;> simp_all
theorem scopesC_eq (m : Nat) (g : Bool) : ∀ (c : Child) (anc : List Node),
    scopesC m g anc c = (pathsC (fun x => ruleIs m x && g) anc c).filter (endsIn m)
  | .e _, _ => by simp [scopesC, pathsC]
  | .junk _, _ => by simp [scopesC, pathsC]
  | .n x, anc => by simp only [scopesC, pathsC]; exact scopesN_eq m g x anc
  | .grp cs, anc => by simp only [scopesC, pathsC]; exact scopesCs_eq m g cs anc
theorem scopesCs_eq (m : Nat) (g : Bool) : ∀ (cs : List Child) (anc : List Node),
    scopesCs m g anc cs = (pathsCs (fun x => ruleIs m x && g) anc cs).filter (endsIn m)
  | [], _ => by simp [scopesCs, pathsCs]
  | c :: cs, anc => by
    simp only [scopesCs, pathsCs, List.filter_append]
    rw [scopesC_eq m g c anc, scopesCs_eq m g cs anc]
end

mutual
/-- the last elements of the chains are the pruned pre-order -/
theorem pathsN_last (p : Node → Bool) : ∀ (n : Node) (anc : List Node),
    (pathsN p anc n).map List.getLast? = (prunedN p n).map some
  | .mk k u l cs h, anc => by
    have ih := pathsCs_last p cs (anc ++ [.mk k u l cs h])
    simp only [pathsN, prunedN, List.map_cons, getLast?_snoc]
    by_cases hc : (p (.mk k u l cs h) || isTypeDef k) = true
    · simp [hc]
    · simp only [hc, Bool.false_eq_true, if_false]; rw [ih]
theorem pathsC_last (p : Node → Bool) : ∀ (c : Child) (anc : List Node),
    (pathsC p anc c).map List.getLast? = (prunedC p c).map some
  | .e _, _ => by simp [pathsC, prunedC]
  | .junk _, _ => by simp [pathsC, prunedC]
  | .n x, anc => by simp only [pathsC, prunedC]; exact pathsN_last p x anc
  | .grp cs, anc => by simp only [pathsC, prunedC]; exact pathsCs_last p cs anc
theorem pathsCs_last (p : Node → Bool) : ∀ (cs : List Child) (anc : List Node),
    (pathsCs p anc cs).map List.getLast? = (prunedCs p cs).map some
  | [], _ => by simp [pathsCs, prunedCs]
  | c :: cs, anc => by
    simp only [pathsCs, prunedCs, List.map_append]
    rw [pathsC_last p c anc, pathsCs_last p cs anc]
end

mutual
/-- every chain starts with the ancestors passed in -/
theorem pathsN_prefix (p : Node → Bool) : ∀ (n : Node) (anc : List Node), ∀ ch ∈ pathsN p anc n, anc <+: ch
  | .mk k u l cs h, anc => by
    intro ch hch
    have ih := pathsCs_prefix p cs (anc ++ [.mk k u l cs h])
    simp only [pathsN, List.mem_cons] at hch
    rcases hch with rfl | hch
    · exact List.prefix_append _ _
    · by_cases hc : (p (.mk k u l cs h) || isTypeDef k) = true
      · simp [hc] at hch
      · simp only [hc, Bool.false_eq_true, if_false] at hch
        exact (List.prefix_append _ _).trans (ih ch hch)
theorem pathsC_prefix (p : Node → Bool) : ∀ (c : Child) (anc : List Node), ∀ ch ∈ pathsC p anc c, anc <+: ch
  | .e _, _ => by simp [pathsC]
  | .junk _, _ => by simp [pathsC]
  | .n x, anc => by simp only [pathsC]; exact pathsN_prefix p x anc
  | .grp cs, anc => by simp only [pathsC]; exact pathsCs_prefix p cs anc
theorem pathsCs_prefix (p : Node → Bool) : ∀ (cs : List Child) (anc : List Node), ∀ ch ∈ pathsCs p anc cs, anc <+: ch
  | [], _ => by simp [pathsCs]
  | c :: cs, anc => by
    intro ch hch
    simp only [pathsCs, List.mem_append] at hch
    rcases hch with h | h
    · exact pathsC_prefix p c anc ch h
    · exact pathsCs_prefix p cs anc ch h
end

mutual
/-- the matches `FindScopes` reports are those `FindNodes` finds by identity -/
theorem scopesN_last (m : Nat) (g : Bool) : ∀ (n : Node) (anc : List Node),
    (scopesN m g anc n).filterMap List.getLast? = findN (ruleIs m) g n
  | .mk k u l cs h, anc => by
    have ih := scopesCs_last m g cs (anc ++ [.mk k u l cs h])
    have hu : ruleIs m (.mk k u l cs h) = (u == m) := rfl
    simp only [scopesN, findN, List.filterMap_append, hu]
    cases g <;> by_cases hr : (u == m) = true <;> by_cases ht : isTypeDef k = true <;> simp_all
theorem scopesC_last (m : Nat) (g : Bool) : ∀ (c : Child) (anc : List Node),
    (scopesC m g anc c).filterMap List.getLast? = findC (ruleIs m) g c
  | .e _, _ => by simp [scopesC, findC]
  | .junk _, _ => by simp [scopesC, findC]
  | .n x, anc => by simp only [scopesC, findC]; exact scopesN_last m g x anc
  | .grp cs, anc => by simp only [scopesC, findC]; exact scopesCs_last m g cs anc
theorem scopesCs_last (m : Nat) (g : Bool) : ∀ (cs : List Child) (anc : List Node),
    (scopesCs m g anc cs).filterMap List.getLast? = findCs (ruleIs m) g cs
  | [], _ => by simp [scopesCs, findCs]
  | c :: cs, anc => by
    simp only [scopesCs, findCs, List.filterMap_append]
    rw [scopesC_last m g c anc, scopesCs_last m g cs anc]
end

end LokiModel.C15
