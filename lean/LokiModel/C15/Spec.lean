import LokiModel.C15.Model
/-!
# C15: reference results of the expression finders, written from the property statement

* `exprsN q t`: every retrieved sub-expression of every expression held by the tree, in traversal order
  (a node's traversable fields in order; nothing below a `TypeDef`; a declaration additionally contributes the
  initial values of its symbols).
* `pairsN cfg q t`: the pairing with IR nodes: for every node (children first, then the node itself) that directly
  holds a non-empty list of finds, one pair `(node, finds)`.
-/
namespace LokiModel.C15

def itemsE (xs : List E) : List Item := xs.map Item.e
def items (xs : List E) : List R := xs.map fun x => R.item (.e x)

mutual
def exprsN (q : E → Bool) : Node → List E
  | .mk k _ _ cs _ =>
    if isTypeDef k then [] else
    if isVarDecl k then exprsCs q cs ++ initials q (symbolsOf cs) else exprsCs q cs
def exprsC (q : E → Bool) : Child → List E
  | .e x => (postorder x).filter q
  | .junk _ => []
  | .n x => exprsN q x
  | .grp cs => exprsCs q cs
def exprsCs (q : E → Bool) : List Child → List E
  | [] => []
  | c :: cs => exprsC q c ++ exprsCs q cs
end

/-- the finds in the expressions a node holds itself -/
def dfinds (q : E → Bool) (cs : List Child) : List E := (directCs cs).flatMap fun x => (postorder x).filter q

def uq (cfg : Cfg) (xs : List E) : List E := if cfg.unique then uniqE xs else xs

/-- the finds a node holds itself: its traversable expressions, for a declaration also the initial values -/
def ownFinds (q : E → Bool) (k : String) (cs : List Child) : List E :=
  dfinds q cs ++ (if isVarDecl k then initials q (symbolsOf cs) else [])

mutual
def pairsN (cfg : Cfg) (q : E → Bool) : Node → List R
  | .mk k u _ cs _ =>
    if isTypeDef k then [] else
      pairsCs cfg q cs ++ (if (ownFinds q k cs).isEmpty then [] else [R.pair u (itemsE (uq cfg (ownFinds q k cs)))])
def pairsC (cfg : Cfg) (q : E → Bool) : Child → List R
  | .e _ => []
  | .junk _ => []
  | .n x => pairsN cfg q x
  | .grp cs => pairsCs cfg q cs
def pairsCs (cfg : Cfg) (q : E → Bool) : List Child → List R
  | [] => []
  | c :: cs => pairsC cfg q c ++ pairsCs cfg q cs
end

def R.found : R → List Item
  | .item i => [i]
  | .pair _ xs => xs
  | .tpair _ xs => xs

mutual
/-- some node that the finders reach has an expression in a field that is not traversable -/
def hasHiddenN (q : E → Bool) : Node → Bool
  | .mk k _ _ cs h => if isTypeDef k then false else (h.any fun x => !((postorder x).filter q).isEmpty) || hasHiddenCs q cs
def hasHiddenC (q : E → Bool) : Child → Bool
  | .e _ => false
  | .junk _ => false
  | .n x => hasHiddenN q x
  | .grp cs => hasHiddenCs q cs
def hasHiddenCs (q : E → Bool) : List Child → Bool
  | [] => false
  | c :: cs => hasHiddenC q c || hasHiddenCs q cs
end

mutual
/-- the statement's reading of "every expression of the tree": the non-traversable expression fields count too -/
def allExprsN (q : E → Bool) : Node → List E
  | .mk k _ _ cs h =>
    if isTypeDef k then [] else
      (if isVarDecl k then allExprsCs q cs ++ initials q (symbolsOf cs) else allExprsCs q cs)
        ++ h.flatMap fun x => (postorder x).filter q
def allExprsC (q : E → Bool) : Child → List E
  | .e x => (postorder x).filter q
  | .junk _ => []
  | .n x => allExprsN q x
  | .grp cs => allExprsCs q cs
def allExprsCs (q : E → Bool) : List Child → List E
  | [] => []
  | c :: cs => allExprsC q c ++ allExprsCs q cs
end

end LokiModel.C15
