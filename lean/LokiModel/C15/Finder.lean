import LokiModel.C15.Lemmas
import LokiModel.C15.Spec
/-! Lemmas about `ExpressionFinder` (plain mode and pairing mode). -/
namespace LokiModel.C15

theorem items_append (a b : List E) : items (a ++ b) = items a ++ items b := by simp [items]
theorem itemsE_append (a b : List E) : itemsE (a ++ b) = itemsE a ++ itemsE b := by simp [itemsE]

theorem flat1_items (xs : List E) : (items xs).flatMap flat1 = items xs := by
  induction xs with
  | nil => rfl
  | cons x xs ih => simp_all [items, flat1]

theorem item?_items (xs : List E) : (items xs).filterMap R.item? = itemsE xs := by
  induction xs with
  | nil => rfl
  | cons x xs ih => simp_all [items, itemsE, R.item?]

theorem isPair_items (xs : List E) : (items xs).filter R.isPair = [] := by
  induction xs with
  | nil => rfl
  | cons x xs ih => simp_all [items, R.isPair]

theorem expr?_itemsE (xs : List E) : (itemsE xs).filterMap Item.expr? = xs := by
  induction xs with
  | nil => rfl
  | cons x xs ih => simp_all [itemsE, Item.expr?]

theorem all_itemsE (xs : List E) : (itemsE xs).all (fun i => i.expr?.isSome) = true := by
  induction xs with
  | nil => rfl
  | cons x xs ih => simp_all [itemsE, Item.expr?]

theorem findUniques_itemsE (cfg : Cfg) (xs : List E) : findUniques cfg (itemsE xs) = .ok (itemsE (uq cfg xs)) := by
  unfold findUniques uq
  cases hu : cfg.unique
  · simp
  · simp only [if_true, all_itemsE, expr?_itemsE]; rfl

theorem map_item_itemsE (xs : List E) : (itemsE xs).map R.item = items xs := by simp [items, itemsE]

/-- `_return` without pairing, on a flat list of finds -/
theorem ret_plain (cfg : Cfg) (hp : cfg.pairing = false) (o : Owner) (xs : List E) :
    ret cfg o (items xs) = .ok (items (uq cfg xs)) := by
  unfold ret
  simp only [flat1_items, item?_items, hp, Bool.false_eq_true, if_false, findUniques_itemsE, map_item_itemsE]

/-! ### plain mode (`unique=False, with_ir_node=False`) -/

def plainCfg : Cfg := ⟨false, false⟩
/-- `unique=False, with_ir_node=True` -/
def plainPair : Cfg := ⟨false, true⟩

theorem uq_plain (xs : List E) : uq plainCfg xs = xs := rfl

mutual
theorem plainN (q : E → Bool) : ∀ n, finderN plainCfg q n = .ok (items (exprsN q n))
  | .mk k u l cs h => by
    have h1 := plainLeaves q cs
    have h2 := plainEach q cs
    simp only [finderN, exprsN]
    by_cases ht : isTypeDef k = true
    · simp only [ht, if_true]; exact ret_plain plainCfg rfl _ []
    · by_cases hd : isVarDecl k = true
      · simp only [ht, hd, if_true, Bool.false_eq_true, if_false, h1, bindE]
        have : items (exprsCs q cs) ++ List.map (fun x => R.item (Item.e x)) (initials q (symbolsOf cs))
            = items (exprsCs q cs ++ initials q (symbolsOf cs)) := by simp [items]
        rw [this, ret_plain plainCfg rfl, uq_plain]
      · simp only [ht, hd, Bool.false_eq_true, if_false, h1, bindE]
        rw [ret_plain plainCfg rfl, uq_plain]
theorem plainLeaf (q : E → Bool) : ∀ c, finderLeaf plainCfg q c = .ok (items (exprsC q c))
  | .e x => by simp only [finderLeaf, exprsC, walk_eq]; rfl
  | .junk _ => by simp [finderLeaf, exprsC, items]
  | .n x => by simp only [finderLeaf, exprsC]; exact plainN q x
  | .grp cs => by simp only [finderLeaf, exprsC]; exact plainLeaves q cs
theorem plainLeaves (q : E → Bool) : ∀ cs, finderLeaves plainCfg q cs = .ok (items (exprsCs q cs))
  | [] => by simp [finderLeaves, exprsCs, items]
  | c :: cs => by
    simp only [finderLeaves, exprsCs, plainLeaf q c, plainLeaves q cs, bindE, items_append]
theorem plainV (q : E → Bool) : ∀ c, finderV plainCfg q c = .ok (items (exprsC q c))
  | .e x => by simp only [finderV, exprsC, walk_eq]; rfl
  | .junk _ => by simp [finderV, exprsC, items]
  | .n x => by simp only [finderV, exprsC]; exact plainN q x
  | .grp cs => by
    simp only [finderV, exprsC, finderT, plainEach q cs, bindE]
    rw [ret_plain plainCfg rfl, uq_plain]
theorem plainEach (q : E → Bool) : ∀ cs, finderEach plainCfg q cs = .ok (items (exprsCs q cs))
  | [] => by simp [finderEach, exprsCs, items]
  | c :: cs => by
    simp only [finderEach, exprsCs, plainV q c, plainEach q cs, bindE, items_append]
end

/-! ### pairing mode -/

mutual
/-- what `[self.visit(c) for c in flatten(o.children)]` amounts to with pairing -/
def mixC (cfg : Cfg) (q : E → Bool) : Child → List R
  | .e x => items ((postorder x).filter q)
  | .junk _ => []
  | .n x => pairsN cfg q x
  | .grp cs => mixCs cfg q cs
def mixCs (cfg : Cfg) (q : E → Bool) : List Child → List R
  | [] => []
  | c :: cs => mixC cfg q c ++ mixCs cfg q cs
end

def AllPairs (rs : List R) : Prop := ∀ r ∈ rs, r.isPair = true

theorem AllPairs.append {a b : List R} (ha : AllPairs a) (hb : AllPairs b) : AllPairs (a ++ b) := by
  intro r hr; rcases List.mem_append.mp hr with h | h
  · exact ha r h
  · exact hb r h

theorem AllPairs.flat {rs : List R} (h : AllPairs rs) : rs.flatMap flat1 = rs := by
  induction rs with
  | nil => rfl
  | cons r rs ih =>
    have hr := h r (by simp)
    have := ih (fun x hx => h x (by simp [hx]))
    cases r <;> simp_all [flat1, R.isPair]

theorem AllPairs.filter {rs : List R} (h : AllPairs rs) : rs.filter R.isPair = rs := by
  apply List.filter_eq_self.mpr; exact h

theorem AllPairs.items {rs : List R} (h : AllPairs rs) : rs.filterMap R.item? = [] := by
  induction rs with
  | nil => rfl
  | cons r rs ih =>
    have hr := h r (by simp)
    have := ih (fun x hx => h x (by simp [hx]))
    cases r <;> simp_all [R.item?, R.isPair]

mutual
theorem pairsN_all (cfg : Cfg) (q : E → Bool) : ∀ n, AllPairs (pairsN cfg q n)
  | .mk k u l cs h => by
    have ih := pairsCs_all cfg q cs
    simp only [pairsN]
    by_cases ht : isTypeDef k = true
    · simp [ht, AllPairs]
    · simp only [ht, Bool.false_eq_true, if_false]
      apply AllPairs.append ih
      by_cases hd : (ownFinds q k cs).isEmpty = true <;> simp [hd, AllPairs, R.isPair]
theorem pairsC_all (cfg : Cfg) (q : E → Bool) : ∀ c, AllPairs (pairsC cfg q c)
  | .e _ => by simp [pairsC, AllPairs]
  | .junk _ => by simp [pairsC, AllPairs]
  | .n x => by simp only [pairsC]; exact pairsN_all cfg q x
  | .grp cs => by simp only [pairsC]; exact pairsCs_all cfg q cs
theorem pairsCs_all (cfg : Cfg) (q : E → Bool) : ∀ cs, AllPairs (pairsCs cfg q cs)
  | [] => by simp [pairsCs, AllPairs]
  | c :: cs => by simp only [pairsCs]; exact (pairsC_all cfg q c).append (pairsCs_all cfg q cs)
end

theorem dfinds_cons (q : E → Bool) (c : Child) (cs : List Child) :
    dfinds q (c :: cs) = dfinds q [c] ++ dfinds q cs := by
  simp [dfinds, directCs]

mutual
theorem mixC_facts (cfg : Cfg) (q : E → Bool) : ∀ c,
    (mixC cfg q c).flatMap flat1 = mixC cfg q c ∧ (mixC cfg q c).filter R.isPair = pairsC cfg q c
      ∧ (mixC cfg q c).filterMap R.item? = itemsE (dfinds q [c])
  | .e x => by simp [mixC, flat1_items, isPair_items, item?_items, pairsC, dfinds, directCs, directC]
  | .junk _ => by simp [mixC, pairsC, dfinds, directCs, directC, itemsE]
  | .n x => by
    have h := pairsN_all cfg q x
    simp [mixC, pairsC, h.flat, h.filter, h.items, dfinds, directCs, directC, itemsE]
  | .grp cs => by
    have h := mixCs_facts cfg q cs
    simp only [mixC, pairsC]
    refine ⟨h.1, h.2.1, ?_⟩
    rw [h.2.2]; simp [dfinds, directCs, directC]
theorem mixCs_facts (cfg : Cfg) (q : E → Bool) : ∀ cs,
    (mixCs cfg q cs).flatMap flat1 = mixCs cfg q cs ∧ (mixCs cfg q cs).filter R.isPair = pairsCs cfg q cs
      ∧ (mixCs cfg q cs).filterMap R.item? = itemsE (dfinds q cs)
  | [] => by simp [mixCs, pairsCs, dfinds, directCs, itemsE]
  | c :: cs => by
    have h1 := mixC_facts cfg q c
    have h2 := mixCs_facts cfg q cs
    simp only [mixCs, pairsCs, List.flatMap_append, List.filter_append, List.filterMap_append]
    rw [h1.1, h1.2.1, h1.2.2, h2.1, h2.2.1, h2.2.2, dfinds_cons q c cs, itemsE_append]
    exact ⟨rfl, rfl, rfl⟩
end

theorem isEmpty_itemsE (xs : List E) : (itemsE xs).isEmpty = xs.isEmpty := by cases xs <;> rfl

/-- `_return(node, …)` with pairing on what the children of a node deliver (plus the finds in initial values) -/
theorem ret_pairing (cfg : Cfg) (hp : cfg.pairing = true) (q : E → Bool) (u : Nat) (k : String) (cs : List Child) :
    ret cfg (.node u) (mixCs cfg q cs ++ items (if isVarDecl k then initials q (symbolsOf cs) else []))
      = .ok (pairsCs cfg q cs ++
          (if (ownFinds q k cs).isEmpty then [] else [R.pair u (itemsE (uq cfg (ownFinds q k cs)))])) := by
  obtain ⟨h1, h2, h3⟩ := mixCs_facts cfg q cs
  unfold ret
  simp only [List.flatMap_append, List.filter_append, List.filterMap_append, h1, h2, h3, flat1_items, isPair_items,
    item?_items, List.append_nil, hp, if_true, ← itemsE_append, isEmpty_itemsE, findUniques_itemsE]
  simp only [ownFinds]
  by_cases hd : (dfinds q cs ++ if isVarDecl k = true then initials q (symbolsOf cs) else []).isEmpty = true <;>
    simp only [hd, if_true, Bool.false_eq_true, if_false, List.append_nil]

mutual
theorem pairN (cfg : Cfg) (hp : cfg.pairing = true) (q : E → Bool) :
    ∀ n, finderN cfg q n = .ok (pairsN cfg q n)
  | .mk k u l cs h => by
    have ih := pairLeaves cfg hp q cs
    have hr := ret_pairing cfg hp q u k cs
    simp only [finderN, pairsN]
    by_cases ht : isTypeDef k = true
    · simp [ht, ret, hp]
    · by_cases hd : isVarDecl k = true
      · simp only [ht, hd, if_true, Bool.false_eq_true, if_false, ih, bindE] at hr ⊢
        exact hr
      · simp only [ht, hd, Bool.false_eq_true, if_false, ih, bindE, items, List.map_nil, List.append_nil] at hr ⊢
        exact hr
theorem pairLeaf (cfg : Cfg) (hp : cfg.pairing = true) (q : E → Bool) :
    ∀ c, finderLeaf cfg q c = .ok (mixC cfg q c)
  | .e x => by simp only [finderLeaf, mixC, walk_eq]; rfl
  | .junk _ => by simp [finderLeaf, mixC]
  | .n x => by simp only [finderLeaf, mixC]; exact pairN cfg hp q x
  | .grp cs => by simp only [finderLeaf, mixC]; exact pairLeaves cfg hp q cs
theorem pairLeaves (cfg : Cfg) (hp : cfg.pairing = true) (q : E → Bool) :
    ∀ cs, finderLeaves cfg q cs = .ok (mixCs cfg q cs)
  | [] => by simp [finderLeaves, mixCs]
  | c :: cs => by
    simp only [finderLeaves, mixCs, pairLeaf cfg hp q c, pairLeaves cfg hp q cs, bindE]
end

/-! ### the pairs add up to the plain result -/

theorem perm_shuffle {α} {a1 a2 p1 p2 d1 d2 : List α} (h1 : a1.Perm (p1 ++ d1)) (h2 : a2.Perm (p2 ++ d2)) :
    (a1 ++ a2).Perm ((p1 ++ p2) ++ (d1 ++ d2)) := by
  have := h1.append h2
  refine this.trans ?_
  simp only [List.append_assoc]
  apply List.Perm.append_left
  rw [← List.append_assoc, ← List.append_assoc]
  apply List.Perm.append_right
  exact List.perm_append_comm

mutual
theorem permN (q : E → Bool) : ∀ n,
    (itemsE (exprsN q n)).Perm ((pairsN plainPair q n).flatMap R.found)
  | .mk k u l cs h => by
    have ih := permCs q cs
    simp only [exprsN, pairsN]
    by_cases ht : isTypeDef k = true
    · simp [ht, itemsE]
    · have hown : ((if (ownFinds q k cs).isEmpty then [] else [R.pair u (itemsE (uq plainPair (ownFinds q k cs)))]).flatMap R.found)
          = itemsE (ownFinds q k cs) := by
        by_cases hd : (ownFinds q k cs).isEmpty = true
        · have : ownFinds q k cs = [] := by simpa using hd
          simp [this, itemsE]
        · simp [hd, R.found, uq, plainPair]
      simp only [ht, Bool.false_eq_true, if_false, List.flatMap_append]
      rw [hown]
      simp only [ownFinds]
      by_cases hd : isVarDecl k = true
      · simp only [hd, if_true, itemsE_append]
        rw [← List.append_assoc]
        exact ih.append_right _
      · simp only [hd, Bool.false_eq_true, if_false, List.append_nil]
        exact ih
theorem permC (q : E → Bool) : ∀ c,
    (itemsE (exprsC q c)).Perm ((pairsC plainPair q c).flatMap R.found ++ itemsE (dfinds q [c]))
  | .e x => by simp [exprsC, pairsC, dfinds, directCs, directC]
  | .junk _ => by simp [exprsC, pairsC, dfinds, directCs, directC, itemsE]
  | .n x => by
    have := permN q x
    simpa [exprsC, pairsC, dfinds, directCs, directC, itemsE] using this
  | .grp cs => by
    have := permCs q cs
    simpa [exprsC, pairsC, dfinds, directCs, directC] using this
theorem permCs (q : E → Bool) : ∀ cs,
    (itemsE (exprsCs q cs)).Perm ((pairsCs plainPair q cs).flatMap R.found ++ itemsE (dfinds q cs))
  | [] => by simp [exprsCs, pairsCs, dfinds, directCs, itemsE]
  | c :: cs => by
    simp only [exprsCs, pairsCs, itemsE_append, List.flatMap_append, dfinds_cons q c cs]
    exact perm_shuffle (permC q c) (permCs q cs)
end

end LokiModel.C15
