import LokiModel.C15.Model
/-! Helper lemmas for C15 (statements of the property are in `Props/C15.lean`). -/
namespace LokiModel.C15

/-! ## FindNodes -/

mutual
theorem findN_eq (rule : Node → Bool) (g : Bool) :
    ∀ n, findN rule g n = (prunedN (fun x => rule x && g) n).filter rule
  | .mk k u l cs h => by
    have ih := findCs_eq rule g cs
    simp only [findN, prunedN]
    cases g <;> by_cases hr : rule (.mk k u l cs h) = true <;> by_cases ht : isTypeDef k = true <;>
      simp_all [List.filter]
theorem findC_eq (rule : Node → Bool) (g : Bool) :
    ∀ c, findC rule g c = (prunedC (fun x => rule x && g) c).filter rule
  | .e _ => by simp [findC, prunedC]
  | .junk _ => by simp [findC, prunedC]
  | .n x => by simp only [findC, prunedC]; exact findN_eq rule g x
  | .grp cs => by simp only [findC, prunedC]; exact findCs_eq rule g cs
theorem findCs_eq (rule : Node → Bool) (g : Bool) :
    ∀ cs, findCs rule g cs = (prunedCs (fun x => rule x && g) cs).filter rule
  | [] => by simp [findCs, prunedCs]
  | c :: cs => by
    simp only [findCs, prunedCs, List.filter_append]
    rw [findC_eq rule g c, findCs_eq rule g cs]
end

mutual
theorem prunedN_false : ∀ n, prunedN (fun _ => false) n = preN n
  | .mk k u l cs h => by
    simp only [prunedN, preN, Bool.false_or]
    by_cases ht : isTypeDef k = true
    · simp [ht]
    · simp [ht, prunedCs_false cs]
theorem prunedC_false : ∀ c, prunedC (fun _ => false) c = preC c
  | .e _ => by simp [prunedC, preC]
  | .junk _ => by simp [prunedC, preC]
  | .n x => by simp only [prunedC, preC]; exact prunedN_false x
  | .grp cs => by simp only [prunedC, preC]; exact prunedCs_false cs
theorem prunedCs_false : ∀ cs, prunedCs (fun _ => false) cs = preCs cs
  | [] => by simp [prunedCs, preCs]
  | c :: cs => by simp only [prunedCs, preCs]; rw [prunedC_false c, prunedCs_false cs]
end

/-! ## the expression walk -/

theorem post_eq (q : E → Bool) (e : E) : post q e = [e].filter q := by
  unfold post; by_cases h : q e = true <;> simp [h]

mutual
theorem walk_eq (q : E → Bool) : ∀ e, walk q e = (postorder e).filter q
  | .sym t p => by simp only [walk, postorder, List.filter_append, post_eq]; rw [walkO_eq q p]
  | .msym t i ini => by simp only [walk, postorder, List.filter_append, post_eq]; rw [walk_eq q i]
  | .sub t a i => by simp only [walk, postorder, List.filter_append, post_eq]; rw [walk_eq q a, walk_eq q i]
  | .tup xs => by simp only [walk, postorder, List.filter_append, post_eq]; rw [walkL_eq q xs]
  | .klit t k => by simp only [walk, postorder, List.filter_append, post_eq]; rw [walkO_eq q k]
  | .const t => by simp only [walk, postorder, post_eq]
  | .call t f as ns vs => by
    simp only [walk, postorder, List.filter_append, post_eq]; rw [walk_eq q f, walkL_eq q as, walkL_eq q vs]
  | .cast t f as k => by
    simp only [walk, postorder, List.filter_append, post_eq]; rw [walk_eq q f, walkL_eq q as, walkO_eq q k]
  | .slice t a b c => by
    simp only [walk, postorder, List.filter_append, post_eq]; rw [walkO_eq q a, walkO_eq q b, walkO_eq q c]
  | .nary t xs => by simp only [walk, postorder, List.filter_append, post_eq]; rw [walkL_eq q xs]
  | .bin t a b => by simp only [walk, postorder, List.filter_append, post_eq]; rw [walk_eq q a, walk_eq q b]
  | .un t a => by simp only [walk, postorder, List.filter_append, post_eq]; rw [walk_eq q a]
  | .llist t es => by simp only [walk, postorder, List.filter_append, post_eq]; rw [walkS_eq q es]
  | .ido t v x b => by
    simp only [walk, postorder, List.filter_append, post_eq]; rw [walk_eq q v, walk_eq q x, walk_eq q b]
  | .pystr _ => by simp [walk, postorder]
theorem walkL_eq (q : E → Bool) : ∀ xs, walkL q xs = (postorderL xs).filter q
  | [] => by simp [walkL, postorderL]
  | x :: xs => by simp only [walkL, postorderL, List.filter_append]; rw [walk_eq q x, walkL_eq q xs]
theorem walkO_eq (q : E → Bool) : ∀ o, walkO q o = (postorderO o).filter q
  | none => by simp [walkO, postorderO]
  | some x => by simp only [walkO, postorderO]; exact walk_eq q x
theorem walkS_eq (q : E → Bool) : ∀ xs, walkS q xs = (postorderL xs).filter q
  | [] => by simp [walkS, postorderL]
  | x :: xs => by
    simp only [walkS, postorderL, List.filter_append]
    rw [walkS_eq q xs]
    have hw := walk_eq q x
    have : (if x.isPyStr = true then [] else walk q x) = (postorder x).filter q := by
      cases x <;> simp_all [E.isPyStr, postorder]
    rw [this]
end

end LokiModel.C15
