import LokiModel.C15.Finder
/-! Lemmas about `unique=True`. -/
namespace LokiModel.C15

/-- `unique=True, with_ir_node=False` -/
def uniqueCfg : Cfg := ⟨true, false⟩

theorem uq_unique (xs : List E) : uq uniqueCfg xs = uniqE xs := rfl

theorem mem_dictInsert {κ α} [DecidableEq κ] {m : List (κ × α)} {k : κ} {v : α} {p : κ × α}
    (h : p ∈ dictInsert m k v) : p.2 ∈ m.map (·.2) ∨ p.2 = v := by
  induction m with
  | nil => simp [dictInsert] at h; right; rw [h]
  | cons a m ih =>
    simp only [dictInsert] at h
    split at h
    · rcases List.mem_cons.mp h with h | h
      · right; rw [h]
      · left; exact List.mem_map.mpr ⟨p, List.mem_cons_of_mem _ h, rfl⟩
    · rcases List.mem_cons.mp h with h | h
      · left; rw [h]; simp
      · rcases ih h with h | h
        · left; simp only [List.map_cons, List.mem_cons]; right; exact h
        · right; exact h

theorem mem_foldl_dict {κ α} [DecidableEq κ] (key : α → κ) (xs : List α) :
    ∀ (m : List (κ × α)) (y : α), y ∈ (xs.foldl (fun m x => dictInsert m (key x) x) m).map (·.2) → y ∈ m.map (·.2) ∨ y ∈ xs := by
  induction xs with
  | nil => intro m y h; left; simpa using h
  | cons x xs ih =>
    intro m y h
    simp only [List.foldl_cons] at h
    rcases ih _ y h with h | h
    · obtain ⟨p, hp, rfl⟩ := List.mem_map.mp h
      rcases mem_dictInsert hp with h | h
      · left; exact h
      · right; rw [h]; simp
    · right; simp [h]

theorem mem_dictDedupe {κ α} [DecidableEq κ] (key : α → κ) (xs : List α) (y : α) (h : y ∈ dictDedupe key xs) : y ∈ xs := by
  rcases mem_foldl_dict key xs [] y h with h | h
  · simp at h
  · exact h

theorem mem_osetDedupe {σ α} [DecidableEq σ] (s : α → σ) : ∀ (xs : List α) (y : α), y ∈ osetDedupe s xs → y ∈ xs
  | [], _, h => by simp [osetDedupe] at h
  | x :: xs, y, h => by
    simp only [osetDedupe, List.mem_cons, List.mem_filter] at h
    rcases h with h | h
    · simp [h]
    · simp [mem_osetDedupe s xs y h.1]

/-- `find_uniques` returns nothing that was not passed in -/
theorem mem_uniqE {xs : List E} {y : E} (h : y ∈ uniqE xs) : y ∈ xs :=
  mem_dictDedupe dictKey xs y (mem_osetDedupe eqKey _ y h)

/-- the elements of an `OrderedSet` are pairwise not `==` -/
theorem osetDedupe_pairwise {σ α} [DecidableEq σ] (s : α → σ) : ∀ xs : List α, (osetDedupe s xs).Pairwise (fun a b => s a ≠ s b)
  | [] => by simp [osetDedupe]
  | x :: xs => by
    simp only [osetDedupe, List.pairwise_cons]
    refine ⟨?_, (osetDedupe_pairwise s xs).filter _⟩
    intro y hy
    have := (List.mem_filter.mp hy).2
    intro e; simp [e] at this

theorem uniqE_pairwise (xs : List E) : (uniqE xs).Pairwise (fun a b => eqKey a ≠ eqKey b) :=
  osetDedupe_pairwise eqKey _

/-! ### soundness of the nested `find_uniques` on every tree -/

def Sound (r : Except Err (List R)) (ref : List E) : Prop := ∃ ys, r = .ok (items ys) ∧ ∀ y ∈ ys, y ∈ ref

theorem sound_ret (o : Owner) (xs ref : List E) (h : ∀ y ∈ xs, y ∈ ref) : Sound (ret uniqueCfg o (items xs)) ref :=
  ⟨uniqE xs, by rw [ret_plain uniqueCfg rfl, uq_unique], fun y hy => h y (mem_uniqE hy)⟩

mutual
theorem uN (q : E → Bool) : ∀ n, Sound (finderN uniqueCfg q n) (exprsN q n)
  | .mk k u l cs h => by
    obtain ⟨y1, e1, s1⟩ := uLeaves q cs
    obtain ⟨y2, e2, s2⟩ := uEach q cs
    simp only [finderN, exprsN]
    by_cases ht : isTypeDef k = true
    · simp only [ht, if_true]; exact sound_ret _ [] [] (by simp)
    · by_cases hd : isVarDecl k = true
      · simp only [ht, hd, if_true, Bool.false_eq_true, if_false, e1, bindE]
        have : items y1 ++ List.map (fun x => R.item (Item.e x)) (initials q (symbolsOf cs))
            = items (y1 ++ initials q (symbolsOf cs)) := by simp [items]
        rw [this]
        apply sound_ret
        intro y hy
        rcases List.mem_append.mp hy with hy | hy
        · exact List.mem_append_left _ (s1 y hy)
        · exact List.mem_append_right _ hy
      · simp only [ht, hd, Bool.false_eq_true, if_false, e1, bindE]
        exact sound_ret _ y1 _ s1
theorem uLeaf (q : E → Bool) : ∀ c, Sound (finderLeaf uniqueCfg q c) (exprsC q c)
  | .e x => ⟨(postorder x).filter q, by simp only [finderLeaf, walk_eq]; rfl, by simp [exprsC]⟩
  | .junk _ => ⟨[], by simp [finderLeaf, items], by simp⟩
  | .n x => by simp only [finderLeaf, exprsC]; exact uN q x
  | .grp cs => by simp only [finderLeaf, exprsC]; exact uLeaves q cs
theorem uLeaves (q : E → Bool) : ∀ cs, Sound (finderLeaves uniqueCfg q cs) (exprsCs q cs)
  | [] => ⟨[], by simp [finderLeaves, items], by simp⟩
  | c :: cs => by
    obtain ⟨y1, e1, s1⟩ := uLeaf q c
    obtain ⟨y2, e2, s2⟩ := uLeaves q cs
    refine ⟨y1 ++ y2, by simp only [finderLeaves, e1, e2, bindE, items_append], ?_⟩
    intro y hy
    simp only [exprsCs]
    rcases List.mem_append.mp hy with hy | hy
    · exact List.mem_append_left _ (s1 y hy)
    · exact List.mem_append_right _ (s2 y hy)
theorem uV (q : E → Bool) : ∀ c, Sound (finderV uniqueCfg q c) (exprsC q c)
  | .e x => ⟨(postorder x).filter q, by simp only [finderV, walk_eq]; rfl, by simp [exprsC]⟩
  | .junk _ => ⟨[], by simp [finderV, items], by simp⟩
  | .n x => by simp only [finderV, exprsC]; exact uN q x
  | .grp cs => by
    obtain ⟨y2, e2, s2⟩ := uEach q cs
    simp only [finderV, exprsC, finderT, e2, bindE]
    exact sound_ret _ y2 _ s2
theorem uEach (q : E → Bool) : ∀ cs, Sound (finderEach uniqueCfg q cs) (exprsCs q cs)
  | [] => ⟨[], by simp [finderEach, items], by simp⟩
  | c :: cs => by
    obtain ⟨y1, e1, s1⟩ := uV q c
    obtain ⟨y2, e2, s2⟩ := uEach q cs
    refine ⟨y1 ++ y2, by simp only [finderEach, e1, e2, bindE, items_append], ?_⟩
    intro y hy
    simp only [exprsCs]
    rcases List.mem_append.mp hy with hy | hy
    · exact List.mem_append_left _ (s1 y hy)
    · exact List.mem_append_right _ (s2 y hy)
end

/-! ### statements (nodes that hold expressions only): one flat `find_uniques` -/

mutual
def noNodesC : Child → Bool
  | .e _ => true
  | .junk _ => true
  | .n _ => false
  | .grp cs => noNodesCs cs
def noNodesCs : List Child → Bool
  | [] => true
  | c :: cs => noNodesC c && noNodesCs cs
end

mutual
theorem stmtLeaf (cfg : Cfg) (q : E → Bool) : ∀ c, noNodesC c = true → finderLeaf cfg q c = .ok (items (exprsC q c))
  | .e x => by intro _; simp only [finderLeaf, exprsC, walk_eq]; rfl
  | .junk _ => by intro _; simp [finderLeaf, exprsC, items]
  | .n x => by intro h; simp [noNodesC] at h
  | .grp cs => by intro h; simp only [finderLeaf, exprsC]; exact stmtLeaves cfg q cs (by simpa [noNodesC] using h)
theorem stmtLeaves (cfg : Cfg) (q : E → Bool) : ∀ cs, noNodesCs cs = true → finderLeaves cfg q cs = .ok (items (exprsCs q cs))
  | [] => by intro _; simp [finderLeaves, exprsCs, items]
  | c :: cs => by
    intro h
    simp only [noNodesCs, Bool.and_eq_true] at h
    simp only [finderLeaves, exprsCs, stmtLeaf cfg q c h.1, stmtLeaves cfg q cs h.2, bindE, items_append]
end

theorem stmt_unique (q : E → Bool) (k : String) (u l : Nat) (cs : List Child) (h : List E)
    (ht : isTypeDef k = false) (hd : isVarDecl k = false) (hn : noNodesCs cs = true) :
    finderN uniqueCfg q (.mk k u l cs h) = .ok (items (uniqE (exprsN q (.mk k u l cs h)))) := by
  simp only [finderN, exprsN, ht, hd, Bool.false_eq_true, if_false, stmtLeaves uniqueCfg q cs hn, bindE]
  rw [ret_plain uniqueCfg rfl, uq_unique]

end LokiModel.C15
