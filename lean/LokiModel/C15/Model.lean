/-!
# C15 model: node and expression finders (`loki/ir/find.py`, `loki/ir/expr_visitors.py`,
`loki/expression/mappers.py`, `pymbolic.mapper.WalkMapper`)

Two layers.

**Expressions.**  `E` mirrors the *object graph* the walk sees (not the user-level view): a `Scalar`/`Array` is a
`msym` node around its `_symbol`, which is a `VariableSymbol` (`sym`) or, for an array with dimensions, an
`ArraySubscript` (`sub`) around the symbol and the index *tuple* (`tup`, a foreign Python tuple that pymbolic's
`map_foreign` sends to `map_list`).  One constructor per mapper method of `LokiWalkMapper`; every constructor
carries a `Tag` with the concrete class name, `str(e)` and (symbols) `e.name`.  `walk q e` is
`ExpressionRetriever(q).retrieve(e)`: the list `self.exprs`, appended to in `post_visit` (children first).
`postorder` is the independent reference: all expression-valued data fields, in `__getinitargs__` order, then
the node itself.

**IR nodes.**  `Node.mk kind uid lbl children hidden`: `children` is `o.children` (the `_traversable` fields, in
order), each child an expression, a node, a tuple/list (`grp`, arbitrarily nested) or something else (`junk`:
`None`, a `str`, …); `hidden` are the expression-valued dataclass fields that are *not* traversable
(`PrintStmt.values`, `FormatStmt.values`, `Enumeration.symbols`).  `uid` stands for object identity (`is`),
`lbl` for the equivalence class under Loki's dataclass `==`.

`findN rule greedy` is `FindNodes(...).visit`; the threaded `ret` list with its `ret or default_retval()` returns
is modelled by its denotation (concatenation: a fresh list is substituted only for an empty one).
`scopesN` is `FindScopes`; `finder cfg q` is `ExpressionFinder(unique, with_ir_node)` with retriever query `q`,
including `_return`'s `flatten(..., is_leaf)` (a `(tuple, finds)` pair produced by `visit_tuple` is not a leaf: if it is
passed on to another `_return` its raw content is flattened into the result) and `find_uniques` (dict keyed by `dict_key`, last value wins,
then `OrderedSet`, first wins; `assert isinstance(var, Expression)`).
Core Lean only.
-/
namespace LokiModel.C15

structure Tag where
  cls : String
  txt : String
  name : String
deriving DecidableEq, Repr

inductive E where
  | sym (t : Tag) (parent : Option E)                       -- map_variable_symbol (VariableSymbol, DeferredTypeSymbol, ProcedureSymbol, DerivedTypeSymbol)
  | msym (t : Tag) (inner : E) (initial : Option E)         -- map_meta_symbol (Scalar, Array); `initial` = `type.initial`, a type attribute, not a subterm
  | sub (t : Tag) (agg idx : E)                             -- map_array_subscript (ArraySubscript, StringSubscript)
  | tup (xs : List E)                                       -- map_list / map_tuple on a foreign tuple or list
  | klit (t : Tag) (kind : Option E)                        -- map_float_literal (FloatLiteral, IntLiteral)
  | const (t : Tag)                                         -- map_constant / map_variable (Logic/String/IntrinsicLiteral, pymbolic Variable, Python numbers)
  | call (t : Tag) (fn : E) (args : List E) (kwNames : List String) (kwVals : List E)   -- map_call_with_kwargs (InlineCall)
  | cast (t : Tag) (fn : E) (args : List E) (kind : Option E)                           -- map_cast
  | slice (t : Tag) (start stop step : Option E)            -- map_slice (Range, RangeIndex, LoopRange)
  | nary (t : Tag) (xs : List E)                            -- map_sum (Sum, Product, Parenthesised*, StringConcat, LogicalAnd/Or)
  | bin (t : Tag) (a b : E)                                 -- map_quotient / map_power / map_comparison
  | un (t : Tag) (a : E)                                    -- map_bitwise_not (LogicalNot), map_c_reference, map_c_dereference
  | llist (t : Tag) (elems : List E)                        -- map_literal_list; a `str` element is `pystr`
  | ido (t : Tag) (vals ivar bnds : E)              -- map_inline_do
  | pystr (s : String)                                      -- a Python `str` where an expression is expected
deriving Repr

namespace E
def tag : E → Tag
  | sym t _ | msym t _ _ | sub t _ _ | klit t _ | const t | call t _ _ _ _ | cast t _ _ _ | slice t _ _ _
  | nary t _ | bin t _ _ | un t _ | llist t _ | ido t _ _ _ => t
  | tup _ => ⟨"tuple", "", ""⟩
  | pystr s => ⟨"str", s, ""⟩

def isPyStr : E → Bool
  | pystr _ => true
  | _ => false
end E

/-- `post_visit`: `if self.query(expr): self.exprs.append(expr)` -/
def post (q : E → Bool) (e : E) : List E := if q e then [e] else []

mutual
/-- `ExpressionRetriever(q).retrieve(e)` (default `visit` = `True`: no pruning) -/
def walk (q : E → Bool) : E → List E
  | .sym t p => walkO q p ++ post q (.sym t p)                                -- `if expr.parent: rec(parent)`
  | .msym t i ini => walk q i ++ post q (.msym t i ini)                       -- `rec(expr._symbol)`
  | .sub t a i => walk q a ++ walk q i ++ post q (.sub t a i)                 -- aggregate, index
  | .tup xs => walkL q xs ++ post q (.tup xs)
  | .klit t k => walkO q k ++ post q (.klit t k)                              -- `if expr.kind: rec(kind)`
  | .const t => post q (.const t)
  | .call t f as ns vs => walk q f ++ walkL q as ++ walkL q vs ++ post q (.call t f as ns vs)
  | .cast t f as k => walk q f ++ walkL q as ++ walkO q k ++ post q (.cast t f as k)
  | .slice t a b c => walkO q a ++ walkO q b ++ walkO q c ++ post q (.slice t a b c)
  | .nary t xs => walkL q xs ++ post q (.nary t xs)
  | .bin t a b => walk q a ++ walk q b ++ post q (.bin t a b)
  | .un t a => walk q a ++ post q (.un t a)
  | .llist t es => walkS q es ++ post q (.llist t es)
  | .ido t v x b => walk q v ++ walk q x ++ walk q b ++ post q (.ido t v x b)
  | .pystr _ => []        -- (`rec` on a `str` raises ValueError in `map_foreign`; only reachable through `llist`, which skips it)
def walkL (q : E → Bool) : List E → List E
  | [] => []
  | x :: xs => walk q x ++ walkL q xs
def walkO (q : E → Bool) : Option E → List E
  | none => []
  | some x => walk q x
/-- elements of a literal list: `if not isinstance(elem, str): rec(elem)` -/
def walkS (q : E → Bool) : List E → List E
  | [] => []
  | x :: xs => (if x.isPyStr then [] else walk q x) ++ walkS q xs
end

mutual
/-- reference: every expression-valued data field in order, then the node (string elements are not expressions) -/
def postorder : E → List E
  | .sym t p => postorderO p ++ [.sym t p]
  | .msym t i ini => postorder i ++ [.msym t i ini]
  | .sub t a i => postorder a ++ postorder i ++ [.sub t a i]
  | .tup xs => postorderL xs ++ [.tup xs]
  | .klit t k => postorderO k ++ [.klit t k]
  | .const t => [.const t]
  | .call t f as ns vs => postorder f ++ postorderL as ++ postorderL vs ++ [.call t f as ns vs]
  | .cast t f as k => postorder f ++ postorderL as ++ postorderO k ++ [.cast t f as k]
  | .slice t a b c => postorderO a ++ postorderO b ++ postorderO c ++ [.slice t a b c]
  | .nary t xs => postorderL xs ++ [.nary t xs]
  | .bin t a b => postorder a ++ postorder b ++ [.bin t a b]
  | .un t a => postorder a ++ [.un t a]
  | .llist t es => postorderL es ++ [.llist t es]
  | .ido t v x b => postorder v ++ postorder x ++ postorder b ++ [.ido t v x b]
  | .pystr _ => []
def postorderL : List E → List E
  | [] => []
  | x :: xs => postorder x ++ postorderL xs
def postorderO : Option E → List E
  | none => []
  | some x => postorder x
end

/-! ## keys of `find_uniques` -/

def canon (s : String) : String := String.ofList ((s.toList.filter (· ≠ ' ')).map Char.toLower)

/-- what `==` between two expressions of the result compares: the class and the canonical string
(`StrCompareMixin.__eq__`; literals: value and kind, which is what their string shows) -/
def eqKey (e : E) : String × String := (e.tag.cls, canon e.tag.txt)

def symParentName : E → Option String
  | .sym _ (some p) => some p.tag.name
  | _ => none

/-- `var.parent.name if var.parent else None` and `var.dimensions` of a `Scalar`/`Array` -/
def parentName : E → Option String
  | .msym _ (.sub _ a _) _ => symParentName a
  | .msym _ i _ => symParentName i
  | _ => none

def dims : E → List E
  | .msym _ (.sub _ _ (.tup ds)) _ => ds
  | .msym _ (.sub _ _ i) _ => [i]
  | _ => []

inductive Key where
  | var (name : String) (parent : Option String) (dims : Option (List (String × String)))
  | str (s : String)
deriving DecidableEq, Repr

/-- `dict_key` of `find_uniques` -/
def dictKey (e : E) : Key :=
  if e.tag.cls == "Scalar" then .var e.tag.name (parentName e) none
  else if e.tag.cls == "Array" then .var e.tag.name (parentName e) (some ((dims e).map eqKey))
  else .str e.tag.txt

/-- `{dict_key(v): v for v in vs}`: position of the first occurrence of a key, value of the last -/
def dictInsert {κ α} [DecidableEq κ] : List (κ × α) → κ → α → List (κ × α)
  | [], k, v => [(k, v)]
  | (k', v') :: m, k, v => if k' = k then (k', v) :: m else (k', v') :: dictInsert m k v

def dictDedupe {κ α} [DecidableEq κ] (key : α → κ) (xs : List α) : List α :=
  (xs.foldl (fun m x => dictInsert m (key x) x) []).map (·.2)

/-- `OrderedSet(values)`: the first of `==`-equal elements stays -/
def osetDedupe {σ α} [DecidableEq σ] (s : α → σ) : List α → List α
  | [] => []
  | x :: xs => x :: (osetDedupe s xs).filter (fun y => s y ≠ s x)

def uniqE (xs : List E) : List E := osetDedupe eqKey (dictDedupe dictKey xs)

/-! ## IR trees -/

mutual
inductive Child where
  | e (x : E)
  | n (node : Node)
  | grp (cs : List Child)
  | junk (s : String)
inductive Node where
  | mk (kind : String) (uid lbl : Nat) (children : List Child) (hidden : List E)
end

namespace Node
def kind : Node → String | mk k _ _ _ _ => k
def uid : Node → Nat | mk _ u _ _ _ => u
def lbl : Node → Nat | mk _ _ l _ _ => l
def children : Node → List Child | mk _ _ _ cs _ => cs
def hidden : Node → List E | mk _ _ _ _ h => h
end Node

/-- classes dispatched to `visit_TypeDef` (by both finders) / `visit_VariableDeclaration` (expression finder) -/
def isTypeDef (kind : String) : Bool := kind == "TypeDef"
def isVarDecl (kind : String) : Bool := kind == "VariableDeclaration"

/-! ### FindNodes -/

mutual
/-- `FindNodes.visit_Node` / `visit_TypeDef` -/
def findN (rule : Node → Bool) (greedy : Bool) : Node → List Node
  | .mk k u l cs h =>
    (if rule (.mk k u l cs h) then [Node.mk k u l cs h] else [])
      ++ (if (rule (.mk k u l cs h) && greedy) || isTypeDef k then [] else findCs rule greedy cs)
/-- `visit` on one child: tuple/list → `visit_tuple`, node → `visit_Node`, anything else → `visit_object` -/
def findC (rule : Node → Bool) (greedy : Bool) : Child → List Node
  | .e _ => []
  | .junk _ => []
  | .n x => findN rule greedy x
  | .grp cs => findCs rule greedy cs
def findCs (rule : Node → Bool) (greedy : Bool) : List Child → List Node
  | [] => []
  | c :: cs => findC rule greedy c ++ findCs rule greedy cs
end

mutual
/-- the nodes among `flatten(children)` -/
def leafNodesC : Child → List Node
  | .e _ => []
  | .junk _ => []
  | .n x => [x]
  | .grp cs => leafNodesCs cs
def leafNodesCs : List Child → List Node
  | [] => []
  | c :: cs => leafNodesC c ++ leafNodesCs cs
end

/-- `rules['type']` with `match` given as the list of concrete class names that are subclasses of it -/
def ruleType (names : List String) (o : Node) : Bool := names.contains o.kind
/-- `rules['scope']`: `match in flatten(o.children)` (`in` compares with `==`; an expression never equals a node) -/
def ruleScope (matchLbl : Nat) (o : Node) : Bool := (leafNodesCs o.children).any (·.lbl == matchLbl)
/-- `FindScopes.rule`: `match is o` -/
def ruleIs (matchUid : Nat) (o : Node) : Bool := o.uid == matchUid

/-! ### FindScopes -/

mutual
/-- `FindScopes.visit_Node` / `visit_TypeDef` (the latter records the ancestors like every other node and does not
enter the body): the result is a list of ancestor lists, each ending in the match -/
def scopesN (m : Nat) (greedy : Bool) (anc : List Node) : Node → List (List Node)
  | .mk k u l cs h =>
    (if u == m then [anc ++ [.mk k u l cs h]] else [])
      ++ (if (u == m && greedy) || isTypeDef k then [] else scopesCs m greedy (anc ++ [.mk k u l cs h]) cs)
def scopesC (m : Nat) (greedy : Bool) (anc : List Node) : Child → List (List Node)
  | .e _ => []
  | .junk _ => []
  | .n x => scopesN m greedy anc x
  | .grp cs => scopesCs m greedy anc cs
def scopesCs (m : Nat) (greedy : Bool) (anc : List Node) : List Child → List (List Node)
  | [] => []
  | c :: cs => scopesC m greedy anc c ++ scopesCs m greedy anc cs
end

/-! ### ExpressionFinder -/

/-- what can end up in a result list: an expression or (through the tuple-owner leak) a raw object -/
inductive Item where
  | e (x : E)
  | junk (s : String)
  | node (uid : Nat)

inductive R where
  | item (i : Item)
  | pair (uid : Nat) (xs : List Item)                 -- `(node, found)`, a leaf of `flatten`
  | tpair (raw : List Item) (xs : List Item)          -- `(tuple, found)`: not a leaf, `flatten` goes through both

structure Cfg where
  unique : Bool
  pairing : Bool

inductive Err where
  | assertion        -- `assert isinstance(var, Expression)` in `dict_key`
deriving DecidableEq

def Item.expr? : Item → Option E
  | .e x => some x
  | _ => none

/-- `find_uniques` -/
def findUniques (cfg : Cfg) (xs : List Item) : Except Err (List Item) :=
  if cfg.unique then
    if xs.all (fun i => i.expr?.isSome) then .ok ((uniqE (xs.filterMap Item.expr?)).map Item.e)
    else .error .assertion
  else .ok xs

mutual
/-- `flatten(tuple)` of a raw child tuple -/
def rawC : Child → List Item
  | .e x => [.e x]
  | .junk s => [.junk s]
  | .n x => [.node x.uid]
  | .grp cs => rawCs cs
def rawCs : List Child → List Item
  | [] => []
  | c :: cs => rawC c ++ rawCs cs
end

inductive Owner where
  | node (uid : Nat)
  | tuple (raw : List Item)

/-- one step of `flatten(expressions, is_leaf)` -/
def flat1 : R → List R
  | .item i => [.item i]
  | .pair u xs => [.pair u xs]
  | .tpair raw xs => (raw ++ xs).map R.item

def R.isPair : R → Bool
  | .pair _ _ => true
  | _ => false
def R.item? : R → Option Item
  | .item i => some i
  | _ => none

/-- `ExpressionFinder._return(owner, expressions)` -/
def ret (cfg : Cfg) (owner : Owner) (rs : List R) : Except Err (List R) :=
  let flat := rs.flatMap flat1
  let exprs := flat.filterMap R.item?
  if cfg.pairing then
    let leaves := flat.filter R.isPair
    if exprs.isEmpty then .ok leaves
    else match findUniques cfg exprs with
      | .error e => .error e
      | .ok us => .ok (leaves ++ [match owner with | .node u => R.pair u us | .tuple raw => R.tpair raw us])
  else
    -- (without pairing no pair is ever produced: `flat` consists of items)
    match findUniques cfg exprs with
    | .error e => .error e
    | .ok us => .ok (us.map R.item)

/-- `for v in o.symbols: if v.type.initial is not None: expressions += retrieve(v.type.initial)` -/
def initials (q : E → Bool) : List Child → List E
  | [] => []
  | .e (.msym _ _ (some i)) :: cs => walk q i ++ initials q cs
  | _ :: cs => initials q cs

def symbolsOf : List Child → List Child
  | .grp ss :: _ => ss
  | _ => []

def bindE {α β} (x : Except Err α) (f : α → Except Err β) : Except Err β :=
  match x with
  | .error e => .error e
  | .ok a => f a

mutual
/-- `ExpressionFinder.visit_Node` / `visit_TypeDef` / `visit_VariableDeclaration` -/
def finderN (cfg : Cfg) (q : E → Bool) : Node → Except Err (List R)
  | .mk k u _ cs _ =>
    if isTypeDef k then ret cfg (.node u) []
    else if isVarDecl k then
      bindE (finderLeaves cfg q cs) fun rs =>
        ret cfg (.node u) (rs ++ ((initials q (symbolsOf cs)).map fun x => R.item (.e x)))
    else
      bindE (finderLeaves cfg q cs) fun rs => ret cfg (.node u) rs
/-- `[self.visit(c) for c in flatten(o.children)]`, concatenated (the concatenation is what `flatten` makes of it) -/
def finderLeaf (cfg : Cfg) (q : E → Bool) : Child → Except Err (List R)
  | .e x => .ok ((walk q x).map fun y => R.item (.e y))
  | .junk _ => .ok []
  | .n x => finderN cfg q x
  | .grp cs => finderLeaves cfg q cs
def finderLeaves (cfg : Cfg) (q : E → Bool) : List Child → Except Err (List R)
  | [] => .ok []
  | c :: cs => bindE (finderLeaf cfg q c) fun r => bindE (finderLeaves cfg q cs) fun rs => .ok (r ++ rs)
/-- `ExpressionFinder.visit_tuple(o)`: `_return(o, [self.visit(c) for c in o])` -/
def finderT (cfg : Cfg) (q : E → Bool) (cs : List Child) : Except Err (List R) :=
  bindE (finderEach cfg q cs) fun rs => ret cfg (.tuple (rawCs cs)) rs
/-- `self.visit(c)` by type: expression, node, tuple/list, other -/
def finderV (cfg : Cfg) (q : E → Bool) : Child → Except Err (List R)
  | .e x => .ok ((walk q x).map fun y => R.item (.e y))
  | .junk _ => .ok []
  | .n x => finderN cfg q x
  | .grp cs => finderT cfg q cs
def finderEach (cfg : Cfg) (q : E → Bool) : List Child → Except Err (List R)
  | [] => .ok []
  | c :: cs => bindE (finderV cfg q c) fun r => bindE (finderEach cfg q cs) fun rs => .ok (r ++ rs)
end

/-! ## reference traversals used by the theorems -/

mutual
/-- pre-order list of the nodes of a tree; the body of a `TypeDef` is not part of it -/
def preN : Node → List Node
  | .mk k u l cs h => Node.mk k u l cs h :: (if isTypeDef k then [] else preCs cs)
def preC : Child → List Node
  | .e _ => []
  | .junk _ => []
  | .n x => preN x
  | .grp cs => preCs cs
def preCs : List Child → List Node
  | [] => []
  | c :: cs => preC c ++ preCs cs
end

mutual
/-- pruned pre-order: nothing below a node that satisfies `p` -/
def prunedN (p : Node → Bool) : Node → List Node
  | .mk k u l cs h =>
    Node.mk k u l cs h :: (if p (.mk k u l cs h) || isTypeDef k then [] else prunedCs p cs)
def prunedC (p : Node → Bool) : Child → List Node
  | .e _ => []
  | .junk _ => []
  | .n x => prunedN p x
  | .grp cs => prunedCs p cs
def prunedCs (p : Node → Bool) : List Child → List Node
  | [] => []
  | c :: cs => prunedC p c ++ prunedCs p cs
end

mutual
/-- the expressions held directly by a node's traversable fields, in order -/
def directC : Child → List E
  | .e x => [x]
  | .junk _ => []
  | .n _ => []
  | .grp cs => directCs cs
def directCs : List Child → List E
  | [] => []
  | c :: cs => directC c ++ directCs cs
end

end LokiModel.C15
