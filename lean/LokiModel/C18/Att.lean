import LokiModel.C17.Copy
import LokiModel.C18.Model
/-!
# C18: in pickle mode every symbol of a cell of the copy ends up attached, or the ghost flag is raised
-/
namespace LokiModel.C18
open LokiModel.C17

/-- all symbol occurrences in node cells owned by the copy are attached — unless the flag reports an undeclared name -/
def AttInv (h : Heap) : Prop :=
  h.unres = true ∨ ∀ (a : Nat) (lbl : String) (sc : Option (Addr × Option Addr)) (syms : List Sym) (kids : List Addr),
    h.cells[a]? = some (2, .node lbl sc syms kids) → ∀ s ∈ syms, s.scope.isSome = true

def Attached : Cell → Prop
  | .node _ _ syms _ => ∀ s ∈ syms, s.scope.isSome = true
  | _ => True

theorem att_alloc {h : Heap} {t : Nat} {c : Cell} (hi : AttInv h) (hc : Attached c) : AttInv (h.alloc t c).1 := by
  rcases hi with e | e
  · exact Or.inl (by simpa [Heap.alloc] using e)
  · refine Or.inr fun a lbl sc syms kids ha s hs => ?_
    rcases cells_alloc h t c a 2 _ ha with e0 | ⟨_, _, e1⟩
    · exact e a lbl sc syms kids e0 s hs
    · rw [← e1] at hc; exact hc s hs

theorem att_set {h : Heap} {a : Addr} {c : Cell} (hi : AttInv h) (hc : Attached c) : AttInv (h.set a c) := by
  rcases hi with e | e
  · exact Or.inl ((le_set h a c).2 e)
  · refine Or.inr fun b lbl sc syms kids hb s hs => ?_
    rcases cells_set h a c b 2 _ hb with e0 | ⟨_, e1, _⟩
    · exact e b lbl sc syms kids e0 s hs
    · rw [← e1] at hc; exact hc s hs

/-- flag + cell whose symbols are attached when the flag argument is false -/
theorem att_flag {h : Heap} (b : Bool) (hi : AttInv h) : AttInv (h.flag b) := by
  rcases hi with e | e
  · exact Or.inl (by simp [Heap.flag, e])
  · exact Or.inr (by simpa [Heap.flag] using e)

theorem att_flag_true (h : Heap) : AttInv (h.flag true) := Or.inl (by simp [Heap.flag])

theorem att_of_unres {h h' : Heap} (l : Le h h') (e : h.unres = true) : AttInv h' := Or.inl (l.2 e)

theorem rescope_attached {m : Mode} (hp : m.pickle = true) {h : Heap} {chain : List Addr} {syms : List Sym}
    (hu : unresolved m h chain syms = false) : ∀ s ∈ syms.map (rescope m h chain), s.scope.isSome = true := by
  intro s' hs'
  obtain ⟨s, hs, rfl⟩ := List.mem_map.mp hs'
  have : ¬ ((s.scope.isSome || m.pickle) && (resolve h chain s.name).isNone) = true := by
    intro hc
    have : unresolved m h chain syms = true := by
      simp only [unresolved, List.any_eq_true]; exact ⟨s, hs, hc⟩
    rw [hu] at this; cases this
  simp only [rescope]
  cases hr : resolve h chain s.name with
  | some sc => rfl
  | none => simp [hp, hr] at this

theorem thread_pres (step : Heap → Addr → Heap × Addr) (P : Heap → Prop) (hs : ∀ h a, P h → P (step h a).1) :
    ∀ (l : List Addr) (h : Heap), P h → P (thread step h l).1 := by
  intro l
  induction l with
  | nil => intro h hp; exact hp
  | cons a r ih => intro h hp; simp only [thread]; exact ih _ (hs h a hp)

theorem copyNode_att (m : Mode) (hp : m.pickle = true) : ∀ (f : Nat) (h : Heap) (chain : List Addr) (a : Addr),
    AttInv h → AttInv (copyNode m f h chain a).1 := by
  intro f
  induction f with
  | zero => intro h chain a hi; simp only [copyNode]; exact att_alloc hi (by simp [Attached])
  | succ f ih =>
    intro h chain a hi
    simp only [copyNode]
    split
    · rename_i lbl syms kids _
      have h1 := thread_pres (fun h k => copyNode m f h chain k) AttInv (fun h a hp' => ih h chain a hp') kids h hi
      generalize thread (fun h k => copyNode m f h chain k) h kids = r at h1
      cases hu : unresolved m r.1 chain syms with
      | true => exact Or.inl (by simp [Heap.alloc, Heap.flag])
      | false => exact att_alloc (att_flag _ h1) (rescope_attached hp hu)
    · rename_i lbl t0 p0 syms kids _
      have h1 : AttInv (h.alloc m.tag (.tab (chain.head?.bind (tabOf h)) (copyEnts m (entsOf h t0)))).1 := att_alloc hi (by simp [Attached])
      generalize h.alloc m.tag (.tab (chain.head?.bind (tabOf h)) (copyEnts m (entsOf h t0))) = r1 at h1
      have h2 : AttInv (r1.1.alloc m.tag (.node lbl (some (r1.2, chain.head?)) [] [])).1 := att_alloc h1 (by simp [Attached])
      generalize r1.1.alloc m.tag (.node lbl (some (r1.2, chain.head?)) [] []) = r2 at h2
      have h3 := thread_pres (fun h k => copyNode m f h (r2.2 :: chain) k) AttInv (fun h a hp' => ih h (r2.2 :: chain) a hp') kids r2.1 h2
      generalize thread (fun h k => copyNode m f h (r2.2 :: chain) k) r2.1 kids = r3 at h3
      cases hu : unresolved m r3.1 (r2.2 :: chain) syms with
      | true => exact Or.inl ((le_set _ _ _).2 (by simp [Heap.flag]))
      | false => exact att_set (att_flag _ h3) (rescope_attached hp hu)
    · exact att_alloc hi (by simp [Attached])

theorem register_att {h : Heap} (hi : AttInv h) (parent : Option Addr) (name : String) (u : Addr) :
    AttInv (register h parent name u) := by
  simp only [register]
  split
  · exact hi
  · split
    · split
      · exact att_set hi (by simp [Attached])
      · exact hi
    · exact hi

theorem copyUnit_att (m : Mode) (hp : m.pickle = true) : ∀ (f : Nat) (h : Heap) (parent : Option Addr) (u : Addr),
    AttInv h → AttInv (copyUnit m f h parent u).1 := by
  intro f
  induction f with
  | zero => intro h parent u hi; simp only [copyUnit]; exact att_alloc hi (by simp [Attached])
  | succ f ih =>
    intro h parent u hi
    simp only [copyUnit]
    split
    · rename_i isMod name attrs p0 t0 secs mems _
      have h1 : AttInv (h.alloc m.tag (.tab (parent.bind (tabOf h)) (copyEnts m (entsOf h t0)))).1 := att_alloc hi (by simp [Attached])
      generalize h.alloc m.tag (.tab (parent.bind (tabOf h)) (copyEnts m (entsOf h t0))) = r1 at h1
      have h2 : AttInv (r1.1.alloc m.tag (.unit isMod name attrs parent r1.2 [] [])).1 := att_alloc h1 (by simp [Attached])
      generalize r1.1.alloc m.tag (.unit isMod name attrs parent r1.2 [] []) = r2 at h2
      have h3 := thread_pres (fun h k => copyUnit m f h (some r2.2) k) AttInv (fun h a hp' => ih h (some r2.2) a hp') mems r2.1 h2
      generalize thread (fun h k => copyUnit m f h (some r2.2) k) r2.1 mems = r3 at h3
      have h4 := thread_pres (fun h k => copyNode m (f + 1) h (r2.2 :: chainOf (f + 1) r2.1 parent) k) AttInv
        (fun h a hp' => copyNode_att m hp (f + 1) h _ a hp') secs r3.1 h3
      generalize thread (fun h k => copyNode m (f + 1) h (r2.2 :: chainOf (f + 1) r2.1 parent) k) r3.1 secs = r4 at h4
      exact register_att (att_set h4 (by simp [Attached])) parent name r2.2
    · exact att_alloc hi (by simp [Attached])

end LokiModel.C18
