import LokiModel.C17.Model
/-!
# C18 — pickling round trip, on the heap model of C17 (`LokiModel.C17.Model`)

`pickle.loads(pickle.dumps(u))` = `C17.unpickle` = `copyUnit` in mode `pickle`:

* `Subroutine.__getstate__` drops `_ast`, `_parent`; `Module.__getstate__` drops `_ast`; `SymbolTable.__getstate__` drops `_parent`
  (re-linked by `_reset_parent` / `AttachScopes.visit_Scope`); `ProcedureType.__getstate__` drops `_procedure`;
  `TypedSymbol.__getinitargs__` stores scope `None` (and the local `_type`, which is `None` for an attached symbol).
* `__setstate__`: `Subroutine` re-registers its members in its table and calls `rescope_symbols()` — it does NOT reset the members'
  parent; `Module` resets the parent of contained subroutines, registers them, rescopes; `ScopedNode` keeps its table, its parent is
  set by `AttachScopes.visit_Scope`.
* what raises while unpickling (classes of inputs, decided on the exported heap by node labels the exporter sets):
  an `Import` carrying a `DerivedTypeSymbol` (`AttachScopesMapper` has no `map_derived_type_symbol`: AssertionError),
  a statement containing a `Cast` (pymbolic `__setstate__` sets the read-only property `name`: AttributeError).
-/
namespace LokiModel.C18
open LokiModel.C17

inductive Outcome where
  | ok (h : Heap) (roots : List Addr)
  | assertion        -- KnownImportDT
  | attribute        -- KnownCast

def hasLabelSuffix (h : Heap) (suf : String) : Bool :=
  h.cells.any fun tc => tc.1 == 1 && match tc.2 with
    | .node lbl _ _ _ => lbl.endsWith suf
    | _ => false

/-- known class `pickle-derived-type-import-crash` -/
def KnownImportDT (h : Heap) : Bool := hasLabelSuffix h "!dt"
/-- known class `pickle-cast-crash` -/
def KnownCast (h : Heap) : Bool := hasLabelSuffix h "!cast"

/-- known class `pickle-member-parent-lost`: a subroutine of the pickled tree has member procedures -/
def KnownMemberLost (h : Heap) : Bool :=
  h.cells.any fun tc => tc.1 == 1 && match tc.2 with
    | .unit false _ _ _ _ mems => !mems.isEmpty
    | _ => false

def roundtrip (f : Nat) (h : Heap) (roots : List Addr) : Outcome :=
  if KnownCast h then .attribute
  else if KnownImportDT h then .assertion
  else
    let r := thread (fun h u => unpickle f h u) h roots
    .ok r.1 r.2

end LokiModel.C18
