import LokiModel.C17.Model
/-!
# C18 — pickling round trip, on the heap model of C17 (`LokiModel.C17.Model`)

`pickle.loads(pickle.dumps(u))` = `C17.unpickle` = `copyUnit` in mode `pickle`:

* `Subroutine.__getstate__` drops `_ast`, `_parent`; `Module.__getstate__` drops `_ast`; `SymbolTable.__getstate__` drops `_parent`
  (re-linked by `_reset_parent` / `AttachScopes.visit_Scope`); `ProcedureType.__getstate__` drops `_procedure`;
  `TypedSymbol.__getinitargs__` stores scope `None` (and the local `_type`, which is `None` for an attached symbol).
* `__setstate__`: `Subroutine` and `Module` reset the parent of their contained units, re-register them in their table and call
  `rescope_symbols()` (`AttachScopesMapper` handles variable, deferred-type, derived-type and procedure symbols); `ScopedNode`
  keeps its table, its parent is set by `AttachScopes.visit_Scope`; `Sourcefile`/`Module`/`Subroutine` get `_ast = None`.
* a `Sourcefile` is the list of its top-level units.
-/
namespace LokiModel.C18
open LokiModel.C17

def roundtrip (f : Nat) (h : Heap) (roots : List Addr) : Heap × List Addr :=
  thread (fun h u => unpickle f h u) h roots

end LokiModel.C18
