import LokiModel.C29.Model
import LokiModel.Fir.Sem
/-!
# C29: the substitution lemma for associate names (one block)

`Sim b σL σR`: `σL` is `σR` plus the association table of one ASSOCIATE block `b` whose selectors are whole variables or
array elements; in `σR` (no associations) every element selector's subscripts evaluate to the element bound in `σL`.
`rsE_sound`: under `Sim`, an expression of the covered class evaluates in `σL` exactly like its resolved form in `σR`
(at every position of an array assignment).
-/
namespace LokiModel.C29
open LokiModel.Fir
open LokiModel.Expr (Val)

/-- what a selector denotes in a state without associations -/
inductive Denotes (σ : St) : Ex → Loc → Prop
  | whole (y : String) : Denotes σ (.var y) (.whole y)
  | elem (y : String) (subs : List Ex) (is : List Int) :
      (∀ pos, evalIdx σ pos subs = some is) → Denotes σ (.idx y subs) (.elem y is)

structure Sim (b : Binds) (σL σR : St) : Prop where
  store : σL.store = σR.store
  out : σL.out = σR.out
  noAliasR : σR.alias = []
  den : ∀ x e, lookupB b x = some e → ∃ l, lookupAlias σL x = some l ∧ Denotes σR e l
  other : ∀ x, lookupB b x = none → lookupAlias σL x = none

def wholeOrFree (b : Binds) (x : String) : Bool :=
  match lookupB b x with
  | none => true
  | some (.var _) => true
  | _ => false

mutual
/-- covered expressions: subscripted names are free or bound to whole variables; sections have a triplet -/
def covE (b : Binds) : Ex → Bool
  | .lit _ => true
  | .var _ => true
  | .idx x subs => !subs.isEmpty && wholeOrFree b x && covEs b subs
  | .sec x dims => dims.any isRng && wholeOrFree b x && covD b dims
  | .neg a => covE b a
  | .not a => covE b a
  | .bin _ a c => covE b a && covE b c
  | .call _ args => covEs b args
def covEs (b : Binds) : List Ex → Bool
  | [] => true
  | e :: es => covE b e && covEs b es
def covD (b : Binds) : List Dim → Bool
  | [] => true
  | .at e :: ds => covE b e && covD b ds
  | .rng lo hi st :: ds => covO b lo && covO b hi && covO b st && covD b ds
def covO (b : Binds) : Option Ex → Bool
  | none => true
  | some e => covE b e
end

theorem lookupAlias_nil {σ : St} (h : σ.alias = []) (x : String) : lookupAlias σ x = none := by
  simp [lookupAlias, h]

theorem lookupCell_eq {σL σR : St} (h : σL.store = σR.store) (y : String) : lookupCell σL y = lookupCell σR y := by
  simp [lookupCell, h]

theorem map_dimEx_atDims (l : List Ex) : (atDims l).map dimEx = l := by
  induction l with
  | nil => rfl
  | cons a t ih =>
    simp only [atDims, List.map_cons, dimEx] at ih ⊢
    rw [ih]

theorem any_isRng_atDims (l : List Ex) : (atDims l).any isRng = false := by
  induction l with
  | nil => rfl
  | cons a t ih => simp [atDims, isRng]

theorem mkRef_atDims (y : String) (l : List Ex) (h : l ≠ []) : mkRef y (atDims l) = .idx y l := by
  unfold mkRef
  have h1 : (atDims l).isEmpty = false := by
    cases l with
    | nil => exact absurd rfl h
    | cons a t => rfl
  simp only [h1, any_isRng_atDims, map_dimEx_atDims]
  simp

theorem rsEs_ne_nil (b : Binds) (l : List Ex) (h : l ≠ []) : rsEs b l ≠ [] := by
  cases l with
  | nil => exact absurd rfl h
  | cons a t => simp [rsEs]

theorem any_isRng_rsDims (b : Binds) (ds : List Dim) : (rsDims b ds).any isRng = ds.any isRng := by
  induction ds with
  | nil => rfl
  | cons d t ih =>
    cases d with
    | «at» e => simp only [rsDims, List.any_cons, isRng, ih]
    | rng lo hi st => simp only [rsDims, List.any_cons, isRng, ih]

theorem mkRef_rng (y : String) (ds : List Dim) (h : ds.any isRng = true) : mkRef y ds = .sec y ds := by
  unfold mkRef
  have h1 : ds.isEmpty = false := by
    cases ds with
    | nil => simp at h
    | cons a t => rfl
  simp [h1, h]

section
variable {b : Binds} {σL σR : St} (S : Sim b σL σR)
include S

/-- the location a name denotes agrees on both sides -/
theorem readAt_free {x : String} (hx : lookupB b x = none) (is : List Int) : readAt σL x is = readAt σR x is := by
  have hL := S.other x hx
  have hR := lookupAlias_nil S.noAliasR x
  simp only [readAt, resolve, hL, hR, lookupCell_eq S.store]

theorem boundsOf_free {x : String} (hx : lookupB b x = none) : boundsOf σL x = boundsOf σR x := by
  have hL := S.other x hx
  have hR := lookupAlias_nil S.noAliasR x
  simp only [boundsOf, hL, hR, lookupCell_eq S.store]

theorem readAt_whole {x y : String} (hL : lookupAlias σL x = some (.whole y)) (is : List Int) :
    readAt σL x is = readAt σR y is := by
  have hR := lookupAlias_nil S.noAliasR y
  simp only [readAt, resolve, hL, hR, lookupCell_eq S.store]

theorem boundsOf_whole {x y : String} (hL : lookupAlias σL x = some (.whole y)) : boundsOf σL x = boundsOf σR y := by
  have hR := lookupAlias_nil S.noAliasR y
  simp only [boundsOf, hL, hR, lookupCell_eq S.store]

theorem readAt_elem {x y : String} {is : List Int} (hL : lookupAlias σL x = some (.elem y is)) :
    readAt σL x [] = readAt σR y is := by
  have hR := lookupAlias_nil S.noAliasR y
  simp only [readAt, resolve, hL, hR, lookupCell_eq S.store, List.isEmpty_nil, if_true]

end

mutual
theorem rsE_sound {b : Binds} {σL σR : St} (S : Sim b σL σR) :
    ∀ (e : Ex) (pos : List Nat), covE b e = true → evalE σL pos e = evalE σR pos (rsE b e)
  | .lit v, pos, _ => by simp [rsE, evalE]
  | .var x, pos, _ => by
      cases hx : lookupB b x with
      | none =>
        simp only [rsE, hx, evalE, boundsOf_free S hx, readAt_free S hx]
      | some e =>
        obtain ⟨l, hl, hd⟩ := S.den x e hx
        simp only [rsE, hx]
        cases hd with
        | whole y =>
          simp only [evalE, boundsOf_whole S hl, readAt_whole S hl]
        | elem y subs is hsub =>
          have hb : boundsOf σL x = none := by simp [boundsOf, hl]
          simp only [evalE, hb, readAt_elem S hl, hsub pos]
          rfl
  | .idx x subs, pos, h => by
      simp only [covE, Bool.and_eq_true, Bool.not_eq_true'] at h
      obtain ⟨⟨hne, hw⟩, hc⟩ := h
      have hne' : subs ≠ [] := by intro h0; simp [h0] at hne
      have ih := rsEs_sound S subs pos hc
      simp only [rsE, applyRef]
      cases hx : lookupB b x with
      | none =>
        simp only [mkRef_atDims x _ (rsEs_ne_nil b subs hne'), evalE, ih]
        cases evalIdx σR pos (rsEs b subs) with
        | none => rfl
        | some is => exact readAt_free S hx is
      | some e =>
        obtain ⟨l, hl, hd⟩ := S.den x e hx
        cases hd with
        | whole y =>
          simp only [mkRef_atDims y _ (rsEs_ne_nil b subs hne'), evalE, ih]
          cases evalIdx σR pos (rsEs b subs) with
          | none => rfl
          | some is => exact readAt_whole S hl is
        | elem y ss is hsub => simp [wholeOrFree, hx] at hw
  | .sec x dims, pos, h => by
      simp only [covE, Bool.and_eq_true] at h
      obtain ⟨⟨hr, hw⟩, hc⟩ := h
      have hr' : (rsDims b dims).any isRng = true := by rw [any_isRng_rsDims]; exact hr
      simp only [rsE, applyRef]
      cases hx : lookupB b x with
      | none =>
        simp only [mkRef_rng x _ hr', evalE, boundsOf_free S hx]
        cases boundsOf σR x with
        | none => rfl
        | some bs =>
          simp only [Option.bind_eq_bind, Option.bind]
          rw [rsD_sound S dims bs pos pos hc]
          cases evalSec σR pos bs (rsDims b dims) pos with
          | none => rfl
          | some is => exact readAt_free S hx is
      | some e =>
        obtain ⟨l, hl, hd⟩ := S.den x e hx
        cases hd with
        | whole y =>
          simp only [mkRef_rng y _ hr', evalE, boundsOf_whole S hl]
          cases boundsOf σR y with
          | none => rfl
          | some bs =>
            simp only [Option.bind_eq_bind, Option.bind]
            rw [rsD_sound S dims bs pos pos hc]
            cases evalSec σR pos bs (rsDims b dims) pos with
            | none => rfl
            | some is => exact readAt_whole S hl is
        | elem y ss is hsub => simp [wholeOrFree, hx] at hw
  | .neg a, pos, h => by
      simp only [covE] at h
      simp only [rsE, evalE, rsE_sound S a pos h]
  | .not a, pos, h => by
      simp only [covE] at h
      simp only [rsE, evalE, rsE_sound S a pos h]
  | .bin o a c, pos, h => by
      simp only [covE, Bool.and_eq_true] at h
      simp only [rsE, evalE, rsE_sound S a pos h.1, rsE_sound S c pos h.2]
  | .call f args, pos, h => by
      simp only [covE] at h
      simp only [rsE, evalE, rsArgs_sound S args pos h]
theorem rsArgs_sound {b : Binds} {σL σR : St} (S : Sim b σL σR) :
    ∀ (es : List Ex) (pos : List Nat), covEs b es = true → evalArgs σL pos es = evalArgs σR pos (rsEs b es)
  | [], pos, _ => by simp [rsEs, evalArgs]
  | e :: es, pos, h => by
      simp only [covEs, Bool.and_eq_true] at h
      simp only [rsEs, evalArgs, rsE_sound S e pos h.1, rsArgs_sound S es pos h.2]
theorem rsEs_sound {b : Binds} {σL σR : St} (S : Sim b σL σR) :
    ∀ (es : List Ex) (pos : List Nat), covEs b es = true → evalIdx σL pos es = evalIdx σR pos (rsEs b es)
  | [], pos, _ => by simp [rsEs, evalIdx]
  | e :: es, pos, h => by
      simp only [covEs, Bool.and_eq_true] at h
      simp only [rsEs, evalIdx, rsE_sound S e pos h.1, rsEs_sound S es pos h.2]
theorem rsD_sound {b : Binds} {σL σR : St} (S : Sim b σL σR) :
    ∀ (ds : List Dim) (bs : List (Int × Int)) (pos ks : List Nat), covD b ds = true →
      evalSec σL pos bs ds ks = evalSec σR pos bs (rsDims b ds) ks
  | [], bs, pos, ks, _ => by
      cases bs <;> simp [rsDims, evalSec]
  | .at e :: ds, bs, pos, ks, h => by
      simp only [covD, Bool.and_eq_true] at h
      cases bs with
      | nil => simp [rsDims, evalSec]
      | cons b0 bs' =>
        simp only [rsDims, evalSec, rsE_sound S e pos h.1, rsD_sound S ds bs' pos ks h.2]
  | .rng lo hi st :: ds, bs, pos, ks, h => by
      simp only [covD, Bool.and_eq_true] at h
      obtain ⟨⟨⟨hlo, hhi⟩, hst⟩, hds⟩ := h
      cases bs with
      | nil => simp [rsDims, evalSec]
      | cons b0 bs' =>
        cases ks with
        | nil => simp [rsDims, evalSec]
        | cons k ks' =>
          have ihd := rsD_sound S ds bs' pos ks' hds
          cases lo with
          | none =>
            cases st with
            | none => simp only [rsDims, rsO, evalSec, ihd]
            | some s =>
              simp only [covO] at hst
              simp only [rsDims, rsO, evalSec, ihd, rsE_sound S s pos hst]
          | some l =>
            simp only [covO] at hlo
            cases st with
            | none => simp only [rsDims, rsO, evalSec, ihd, rsE_sound S l pos hlo]
            | some s =>
              simp only [covO] at hst
              simp only [rsDims, rsO, evalSec, ihd, rsE_sound S l pos hlo, rsE_sound S s pos hst]
end

end LokiModel.C29
