import LokiModel.Fir.Syntax
/-!
# C29 model: associate resolution and merging (loki/transformations/sanitise/associates.py) on FIR programs

* `rsE`/`rsStmts b` — what `ResolveAssociateMapper` does with the names of ONE associate block (`scope.inverse_map`): a name is
  replaced by its selector; a subscripted name `x(i…)` on a whole-array selector keeps the subscripts, on an element/section
  selector the subscripts fill the free ranges in sequence when their number matches (`_match_range_indices`, no offset
  arithmetic — the bounds-shift defect is modelled), otherwise the selector's own subscripts win.  PRINT arguments are not
  visited (`PrintStmt.values` is not a traversed expression child — defect modelled).
* `resolveStmts sd d` — `ResolveAssociatesTransformer`: blocks deeper than `start_depth` are replaced by their resolved body.
  The mapper looks every symbol up in its own defining scope and recurses into the selector (`self.rec(expr_candidate)`), the
  selector's symbols belonging to outer scopes.  That is the same as substituting block by block from the innermost block
  outwards, which is how the model is written (structural recursion; the correspondence check compares the results).
* `mergeStmts` — `MergeAssociatesTransformer`: a binding whose selector's root name is not bound by the parent block moves to
  the parent (duplicates of identical pairs dropped), bottom-up, so bindings bubble up to the outermost block.
  `max_parents` counts derived-type parents; FIR has no derived types, so it never filters (not modelled).
  Since the `fix:` commit that rebuilds the outermost block with its parent scope, merging followed by resolving
  (`Mode.both`) is simply the composition (before, `start_depth = 0` raised IndexError whenever a block contained an
  intrinsic function reference: former class `merge_resolve_crash`).
* `flags` — decidable known-finding classes (mirrored by `harness/props/c29.py: classify`), `transform` — the whole thing with
  the crashes of the real code as errors.
Core Lean only.
-/
namespace LokiModel.C29
open LokiModel.Fir
open LokiModel.Expr (Val)

abbrev Binds := List (String × Ex)

/-- `scope.inverse_map[name]`: a dict built from the pairs in order, so a later duplicate name wins -/
def lookupB : Binds → String → Option Ex
  | [], _ => none
  | (n, e) :: rest, x =>
      match lookupB rest x with
      | some e' => some e'
      | none => if n == x then some e else none

def isLoc : Ex → Bool
  | .var _ | .idx _ _ | .sec _ _ => true
  | _ => false

def isRng : Dim → Bool
  | .rng _ _ _ => true
  | _ => false

def atDims (es : List Ex) : List Dim := es.map Dim.at

def dimEx : Dim → Ex
  | .at e => e
  | .rng _ _ _ => .lit (.int 0)

/-- replace the free ranges by the given indices, in sequence -/
def fillRanges : List Dim → List Dim → List Dim
  | [], _ => []
  | .rng lo hi st :: ds, [] => .rng lo hi st :: fillRanges ds []
  | .rng _ _ _ :: ds, i :: is => i :: fillRanges ds is
  | .at e :: ds, is => .at e :: fillRanges ds is

/-- `_match_range_indices(expressions, indices)` -/
def matchRangeIndices (exprs indices : List Dim) : List Dim :=
  if (exprs.filter isRng).length = indices.length then fillRanges exprs indices else exprs

/-- an array reference with the given subscript list, in the form the exporter produces -/
def mkRef (y : String) (dims : List Dim) : Ex :=
  if dims.isEmpty then .var y
  else if dims.any isRng then .sec y dims else .idx y (dims.map dimEx)

/-- `map_array` on `x(dims)` (dims already resolved) for the names of one block -/
def applyRef (b : Binds) (x : String) (dims : List Dim) : Ex :=
  match lookupB b x with
  | none => mkRef x dims
  | some (.var y) => mkRef y dims
  | some (.idx y ss) => mkRef y (matchRangeIndices (atDims ss) dims)
  | some (.sec y ds) => mkRef y (matchRangeIndices ds dims)
  | some _ => mkRef x dims      -- subscripted value selector: the real code raises; never valid Fortran

mutual
def rsE (b : Binds) : Ex → Ex
  | .lit v => .lit v
  | .var x => match lookupB b x with
      | some e => e
      | none => .var x
  | .idx x subs => applyRef b x (atDims (rsEs b subs))
  | .sec x dims => applyRef b x (rsDims b dims)
  | .neg a => .neg (rsE b a)
  | .not a => .not (rsE b a)
  | .bin o a c => .bin o (rsE b a) (rsE b c)
  | .call f args => .call f (rsEs b args)
def rsEs (b : Binds) : List Ex → List Ex
  | [] => []
  | e :: es => rsE b e :: rsEs b es
def rsDims (b : Binds) : List Dim → List Dim
  | [] => []
  | .at e :: ds => .at (rsE b e) :: rsDims b ds
  | .rng lo hi st :: ds => .rng (rsO b lo) (rsO b hi) (rsO b st) :: rsDims b ds
def rsO (b : Binds) : Option Ex → Option Ex
  | none => none
  | some e => some (rsE b e)
end

mutual
def rsStmt (b : Binds) : Stmt → Stmt
  | .assign l r => .assign (rsE b l) (rsE b r)
  | .doLoop v lo hi st body => .doLoop v (rsE b lo) (rsE b hi) (rsO b st) (rsStmts b body)
  | .while c body => .while (rsE b c) (rsStmts b body)
  | .ifte c t e => .ifte (rsE b c) (rsStmts b t) (rsStmts b e)
  | .select e cs d => .select (rsE b e) (rsCases b cs) (rsStmts b d)
  | .assoc bs body => .assoc bs (rsStmts b body)       -- selectors of a (kept) block are never visited
  | .callSub f args => .callSub f (rsEs b args)
  | .print args => .print args                         -- defect: PRINT values are not visited
  | .exit => .exit
  | .cycle => .cycle
  | .nop k t => .nop k t
def rsStmts (b : Binds) : List Stmt → List Stmt
  | [] => []
  | s :: ss => rsStmt b s :: rsStmts b ss
def rsCases (b : Binds) : List (List Int × List Stmt) → List (List Int × List Stmt)
  | [] => []
  | (vs, body) :: cs => (vs, rsStmts b body) :: rsCases b cs
end

mutual
/-- `ResolveAssociatesTransformer(start_depth = sd)`; `d` = depth of the next associate block (1 at routine level) -/
def resolveStmt (sd d : Nat) : Stmt → List Stmt
  | .assoc bs body =>
      if d ≤ sd then [.assoc bs (resolveStmts sd (d + 1) body)] else rsStmts bs (resolveStmts sd (d + 1) body)
  | .doLoop v lo hi st body => [.doLoop v lo hi st (resolveStmts sd d body)]
  | .while c body => [.while c (resolveStmts sd d body)]
  | .ifte c t e => [.ifte c (resolveStmts sd d t) (resolveStmts sd d e)]
  | .select e cs dflt => [.select e (resolveCases sd d cs) (resolveStmts sd d dflt)]
  | s => [s]
def resolveStmts (sd d : Nat) : List Stmt → List Stmt
  | [] => []
  | s :: ss => resolveStmt sd d s ++ resolveStmts sd d ss
def resolveCases (sd d : Nat) : List (List Int × List Stmt) → List (List Int × List Stmt)
  | [] => []
  | (vs, body) :: cs => (vs, resolveStmts sd d body) :: resolveCases sd d cs
end

/-! ### equality of expressions (bindings are compared as pairs by the merger) -/

mutual
def beqEx : Ex → Ex → Bool
  | .lit a, .lit b => a == b
  | .var x, .var y => x == y
  | .idx x a, .idx y b => x == y && beqExs a b
  | .sec x a, .sec y b => x == y && beqDims a b
  | .neg a, .neg b => beqEx a b
  | .not a, .not b => beqEx a b
  | .bin o a b, .bin p c d => o == p && beqEx a c && beqEx b d
  | .call f a, .call g b => f == g && beqExs a b
  | _, _ => false
def beqExs : List Ex → List Ex → Bool
  | [], [] => true
  | a :: as, b :: bs => beqEx a b && beqExs as bs
  | _, _ => false
def beqDims : List Dim → List Dim → Bool
  | [], [] => true
  | .at a :: as, .at b :: bs => beqEx a b && beqDims as bs
  | .rng a b c :: as, .rng d e f :: bs => beqO a d && beqO b e && beqO c f && beqDims as bs
  | _, _ => false
def beqO : Option Ex → Option Ex → Bool
  | none, none => true
  | some a, some b => beqEx a b
  | _, _ => false
end

def beqBind (a b : String × Ex) : Bool := a.1 == b.1 && beqEx a.2 b.2
def memBind (a : String × Ex) (bs : Binds) : Bool := bs.any (beqBind a)

/-- append the bindings not yet present (as identical pairs), one after the other -/
def addNew : Binds → Binds → Binds
  | bs, [] => bs
  | bs, a :: rest => if memBind a bs then addNew bs rest else addNew (bs ++ [a]) rest

def rootOf : Ex → String
  | .var x | .idx x _ | .sec x _ => x
  | _ => ""

mutual
/-- `MergeAssociatesTransformer`: result = (new statements, bindings handed to the enclosing associate block);
`parent` = names bound by the enclosing block (`none` outside any block) -/
def mergeStmt (parent : Option (List String)) : Stmt → Stmt × Binds
  | .assoc bs body =>
      let r := mergeStmts (some (bs.map (·.1))) body
      let binds := addNew bs r.2
      match parent with
      | none => (.assoc binds r.1, [])
      | some pn =>
          let move := binds.filter fun b => isLoc b.2 && !(pn.contains (rootOf b.2))
          let keep := binds.filter fun b => !(memBind b move)
          (.assoc keep r.1, move)
  | .doLoop v lo hi st body => let r := mergeStmts parent body; (.doLoop v lo hi st r.1, r.2)
  | .while c body => let r := mergeStmts parent body; (.while c r.1, r.2)
  | .ifte c t e =>
      let r1 := mergeStmts parent t
      let r2 := mergeStmts parent e
      (.ifte c r1.1 r2.1, r1.2 ++ r2.2)
  | .select e cs d =>
      let r1 := mergeCases parent cs
      let r2 := mergeStmts parent d
      (.select e r1.1 r2.1, r1.2 ++ r2.2)
  | s => (s, [])
def mergeStmts (parent : Option (List String)) : List Stmt → List Stmt × Binds
  | [] => ([], [])
  | s :: ss =>
      let r1 := mergeStmt parent s
      let r2 := mergeStmts parent ss
      (r1.1 :: r2.1, r1.2 ++ r2.2)
def mergeCases (parent : Option (List String)) : List (List Int × List Stmt) → List (List Int × List Stmt) × Binds
  | [] => ([], [])
  | (vs, body) :: cs =>
      let r1 := mergeStmts parent body
      let r2 := mergeCases parent cs
      ((vs, r1.1) :: r2.1, r1.2 ++ r2.2)
end

/-! ### names occurring in expressions and statements -/

mutual
def exVars : Ex → List String
  | .lit _ => []
  | .var x => [x]
  | .idx x subs => x :: exsVars subs
  | .sec x dims => x :: dimsVars dims
  | .neg a => exVars a
  | .not a => exVars a
  | .bin _ a b => exVars a ++ exVars b
  | .call _ args => exsVars args
def exsVars : List Ex → List String
  | [] => []
  | e :: es => exVars e ++ exsVars es
def dimsVars : List Dim → List String
  | [] => []
  | .at e :: ds => exVars e ++ dimsVars ds
  | .rng lo hi st :: ds => oVars lo ++ oVars hi ++ oVars st ++ dimsVars ds
def oVars : Option Ex → List String
  | none => []
  | some e => exVars e
end

/-- names in the subscripts of a location selector (root excluded); every name of a value selector -/
def subVars : Ex → List String
  | .var _ => []
  | .idx _ subs => exsVars subs
  | .sec _ dims => dimsVars dims
  | e => exVars e

def oList : Option Ex → List Ex
  | none => []
  | some e => [e]

/-- the expressions of one statement that the resolver visits (not: PRINT values, ASSOCIATE selectors) -/
def visited : Stmt → List Ex
  | .assign l r => [l, r]
  | .doLoop _ lo hi st _ => [lo, hi] ++ oList st
  | .while c _ => [c]
  | .ifte c _ _ => [c]
  | .select e _ _ => [e]
  | .callSub _ args => args
  | _ => []

abbrev Intents := List (String × List Intent)

def intentsOf (p : Program) : Intents :=
  p.units.map fun u => (u.name, u.args.map fun a =>
    match u.decls.find? (·.name == a) with
    | some d => d.intent
    | none => Intent.none)

def lookupI (its : Intents) (f : String) : Option (List Intent) := (its.find? (·.1 == f)).map (·.2)

/-- roots of the actual arguments a call may modify -/
def callWrites (its : Option (List Intent)) : Nat → List Ex → List String
  | _, [] => []
  | k, a :: rest =>
      let w := match its with
        | none => true
        | some l => match l[k]? with
            | some .in_ => false
            | _ => true
      (if isLoc a && w then [rootOf a] else []) ++ callWrites its (k + 1) rest

mutual
/-- names whose storage a statement may modify: assignment targets, DO variables, non-intent(in) actual arguments -/
def writtenS (its : Intents) : Stmt → List String
  | .assign l _ => [rootOf l]
  | .doLoop v _ _ _ body => v :: writtenL its body
  | .while _ body => writtenL its body
  | .ifte _ t e => writtenL its t ++ writtenL its e
  | .select _ cs d => writtenC its cs ++ writtenL its d
  | .assoc _ body => writtenL its body
  | .callSub f args => callWrites (lookupI its f) 0 args
  | _ => []
def writtenL (its : Intents) : List Stmt → List String
  | [] => []
  | s :: ss => writtenS its s ++ writtenL its ss
def writtenC (its : Intents) : List (List Int × List Stmt) → List String
  | [] => []
  | (_, body) :: cs => writtenL its body ++ writtenC its cs
end

def inter (a b : List String) : Bool := a.any fun x => b.contains x

/-! ### classes -/

/-- an enclosing associate block as the classifier sees it -/
structure Fr where
  removed : Bool
  binds : Binds
  bad : List String := []      -- names typed as arrays by the frontend: value selectors mentioning a value-associated name

/-- the innermost frame binding `x` -/
def innermost : List Fr → String → Option Fr
  | [], _ => none
  | fr :: rest, x => if (lookupB fr.binds x).isSome then some fr else innermost rest x

def removedName (frames : List Fr) (x : String) : Bool :=
  match innermost frames x with
  | some fr => fr.removed
  | none => false

def valueBound (frames : List Fr) (x : String) : Bool :=
  match innermost frames x with
  | some fr => match lookupB fr.binds x with
      | some e => !isLoc e
      | none => false
  | none => false

def badUse (frames : List Fr) (x : String) : Bool :=
  match innermost frames x with
  | some fr => fr.removed && fr.bad.contains x
  | none => false

def isLit1 : Ex → Bool
  | .lit (.int 1) => true
  | _ => false

def isLit1O : Option Ex → Bool
  | none => true
  | some e => isLit1 e

/-- the declared lower bound of dimension `j` of `root`, seen through whole-array associations, is the literal 1 -/
def lowerOne (decls : List Decl) : List Fr → String → Nat → Bool
  | [], root, j =>
      match decls.find? (·.name == root) with
      | some d => match d.dims[j]? with
          | some b => isLit1 b.1
          | none => false
      | none => false
  | fr :: rest, root, j =>
      match lookupB fr.binds root with
      | some (.var y) => lowerOne decls rest y j
      | some _ => false
      | none => lowerOne decls rest root j

/-- replacing the triplet (dimension `j` of `root`) by a 1-based index keeps the meaning -/
def unitBased (decls : List Decl) (outer : List Fr) (root : String) (j : Nat) : Dim → Bool
  | .rng lo _ st => isLit1O st && (match lo with
      | some e => isLit1 e
      | none => lowerOne decls outer root j)
  | .at _ => true

/-- some free range filled by `fillRanges` is not unit based (`k` = position of the first listed dimension) -/
def shiftFill (ub : Nat → Dim → Bool) : Nat → List Dim → List Dim → Bool
  | _, [], _ => false
  | k, .rng lo hi st :: ds, _ :: is => !(ub k (.rng lo hi st)) || shiftFill ub (k + 1) ds is
  | k, .rng _ _ _ :: ds, [] => shiftFill ub (k + 1) ds []
  | k, .at _ :: ds, is => shiftFill ub (k + 1) ds is

def shiftMatch (ub : String → Nat → Dim → Bool) (y : String) (exprs indices : List Dim) : Bool :=
  (exprs.filter isRng).length = indices.length && shiftFill (ub y) 0 exprs indices

def shiftRef (ub : String → Nat → Dim → Bool) (b : Binds) (x : String) (dims : List Dim) : Bool :=
  match lookupB b x with
  | some (.idx y ss) => shiftMatch ub y (atDims ss) dims
  | some (.sec y ds) => shiftMatch ub y ds dims
  | _ => false

mutual
/-- a bounds-shifting replacement happens when `rsE b` is applied -/
def shiftE (ub : String → Nat → Dim → Bool) (b : Binds) : Ex → Bool
  | .lit _ => false
  | .var _ => false
  | .idx x subs => shiftEs ub b subs || shiftRef ub b x (atDims (rsEs b subs))
  | .sec x dims => shiftD ub b dims || shiftRef ub b x (rsDims b dims)
  | .neg a => shiftE ub b a
  | .not a => shiftE ub b a
  | .bin _ a c => shiftE ub b a || shiftE ub b c
  | .call _ args => shiftEs ub b args
def shiftEs (ub : String → Nat → Dim → Bool) (b : Binds) : List Ex → Bool
  | [] => false
  | e :: es => shiftE ub b e || shiftEs ub b es
def shiftD (ub : String → Nat → Dim → Bool) (b : Binds) : List Dim → Bool
  | [] => false
  | .at e :: ds => shiftE ub b e || shiftD ub b ds
  | .rng lo hi st :: ds => shiftO ub b lo || shiftO ub b hi || shiftO ub b st || shiftD ub b ds
def shiftO (ub : String → Nat → Dim → Bool) (b : Binds) : Option Ex → Bool
  | none => false
  | some e => shiftE ub b e
end

/-- apply the removed frames innermost first; report a bounds shift on the way -/
def shiftThrough (decls : List Decl) : List Fr → Ex → Bool
  | [], _ => false
  | fr :: rest, e =>
      if fr.removed then shiftE (unitBased decls rest) fr.binds e || shiftThrough decls rest (rsE fr.binds e)
      else shiftThrough decls rest e

/-- full resolution of an expression through all enclosing frames (innermost first), kept ones included -/
def fullE : List Fr → Ex → Ex
  | [], e => e
  | fr :: rest, e => fullE rest (rsE fr.binds e)

def fullStmts : List Fr → List Stmt → List Stmt
  | [], ss => ss
  | fr :: rest, ss => fullStmts rest (rsStmts fr.binds ss)

def badNames (outer : List Fr) (bs : Binds) : List String :=
  (bs.filter fun b => !isLoc b.2 && (exVars b.2).any (valueBound outer)).map (·.1)

mutual
/-- classes of `resolve` (start_depth `sd`) on a statement; `frames` = enclosing blocks, innermost first -/
def flagsS (decls : List Decl) (its : Intents) (sd d : Nat) (frames : List Fr) : Stmt → List String
  | .assoc bs body =>
      let removed := decide (sd < d)
      let fr : Fr := { removed := removed, binds := bs, bad := if removed then badNames frames bs else [] }
      let inner := flagsL decls its sd (d + 1) (fr :: frames) body
      let wr := writtenL its (fullStmts (fr :: frames) (resolveStmts 0 1 body))
      let im := removed && bs.any fun b => inter (subVars (fullE frames b.2)) wr
      (if im then ["index_modified"] else []) ++ inner
  | .print args => if (exsVars args).any (removedName frames) then ["print_unresolved"] else []
  | .doLoop v lo hi st body =>
      flagsV decls frames (.doLoop v lo hi st []) ++ flagsL decls its sd d frames body
  | .while c body => flagsV decls frames (.while c []) ++ flagsL decls its sd d frames body
  | .ifte c t e => flagsV decls frames (.ifte c [] []) ++ flagsL decls its sd d frames t ++ flagsL decls its sd d frames e
  | .select e cs dflt =>
      flagsV decls frames (.select e [] []) ++ flagsC decls its sd d frames cs ++ flagsL decls its sd d frames dflt
  | s => flagsV decls frames s
def flagsL (decls : List Decl) (its : Intents) (sd d : Nat) (frames : List Fr) : List Stmt → List String
  | [] => []
  | s :: ss => flagsS decls its sd d frames s ++ flagsL decls its sd d frames ss
def flagsC (decls : List Decl) (its : Intents) (sd d : Nat) (frames : List Fr) :
    List (List Int × List Stmt) → List String
  | [] => []
  | (_, body) :: cs => flagsL decls its sd d frames body ++ flagsC decls its sd d frames cs
/-- the visited expressions of one statement -/
def flagsV (decls : List Decl) (frames : List Fr) (s : Stmt) : List String :=
  (if (visited s).any (shiftThrough decls frames) then ["bounds_shift"] else []) ++
  (if (visited s).any (fun e => (exVars e).any (badUse frames)) then ["value_of_value_crash"] else [])
end

def distinctNames : List String → Bool
  | [] => true
  | x :: xs => !(xs.contains x) && distinctNames xs

mutual
/-- classes of `merge` (same traversal as `mergeStmt`) -/
def mflagsS (its : Intents) (parent : Option (List String)) : Stmt → List String
  | .assoc bs body =>
      let r := mergeStmts (some (bs.map (·.1))) body
      let inner := mflagsL its (some (bs.map (·.1))) body
      let binds := addNew bs r.2
      match parent with
      | none =>
          let moved := binds.drop bs.length
          let wr := writtenL its (fullStmts [{ removed := true, binds := binds }] (resolveStmts 0 1 r.1))
          inner ++ (if distinctNames (binds.map (·.1)) then [] else ["merge_name_clash"]) ++
            (if moved.any (fun b => inter (subVars b.2) wr) then ["merge_moved_not_invariant"] else [])
      | some pn =>
          let move := binds.filter fun b => isLoc b.2 && !(pn.contains (rootOf b.2))
          let keep := binds.filter fun b => !(memBind b move)
          inner ++ (if binds.any (fun b => !isLoc b.2) then ["merge_crash"] else []) ++
            (if move.any (fun b => inter (subVars b.2) pn) then ["merge_moved_dependent"] else []) ++
            (if keep.isEmpty then ["merge_empty_associate"] else [])
  | .doLoop _ _ _ _ body => mflagsL its parent body
  | .while _ body => mflagsL its parent body
  | .ifte _ t e => mflagsL its parent t ++ mflagsL its parent e
  | .select _ cs d => mflagsC its parent cs ++ mflagsL its parent d
  | _ => []
def mflagsL (its : Intents) (parent : Option (List String)) : List Stmt → List String
  | [] => []
  | s :: ss => mflagsS its parent s ++ mflagsL its parent ss
def mflagsC (its : Intents) (parent : Option (List String)) : List (List Int × List Stmt) → List String
  | [] => []
  | (_, body) :: cs => mflagsL its parent body ++ mflagsC its parent cs
end

inductive Mode where
  | resolve | merge | both
deriving DecidableEq, Repr

def Mode.merges : Mode → Bool
  | .resolve => false
  | _ => true
def Mode.resolves : Mode → Bool
  | .merge => false
  | _ => true

/-- classes of one unit; a crash class comes alone -/
def flagsUnit (its : Intents) (m : Mode) (sd : Nat) (u : Fir.Unit) : List String :=
  let mf := if m.merges then mflagsL its none u.body else []
  if mf.contains "merge_crash" then ["merge_crash"] else
  let body := if m.merges then (mergeStmts none u.body).1 else u.body
  let rf := if m.resolves then flagsL u.decls its sd 1 [] body else []
  if rf.contains "value_of_value_crash" then ["value_of_value_crash"] else mf ++ rf

def isCrash (f : String) : Bool := f == "merge_crash" || f == "value_of_value_crash"

/-- units are transformed in order; the first crash ends the run -/
def flagsUnits (its : Intents) (m : Mode) (sd : Nat) : List Fir.Unit → List String
  | [] => []
  | u :: us =>
      let f := flagsUnit its m sd u
      if f.any isCrash then f else f ++ flagsUnits its m sd us

def insertSorted (x : String) : List String → List String
  | [] => [x]
  | y :: ys => if x == y then y :: ys else if x < y then x :: y :: ys else y :: insertSorted x ys

/-- sorted, duplicate-free class names of a program -/
def flags (m : Mode) (sd : Nat) (p : Program) : List String :=
  (flagsUnits (intentsOf p) m sd p.units).foldl (fun acc x => insertSorted x acc) []

def transformBody (m : Mode) (sd : Nat) (body : List Stmt) : List Stmt :=
  let b1 := if m.merges then (mergeStmts none body).1 else body
  if m.resolves then resolveStmts sd 1 b1 else b1

/-- the whole transformation: the crashes of the real code are errors (named like the Python exception) -/
def transform (m : Mode) (sd : Nat) (p : Program) : Except String Program :=
  let f := flags m sd p
  if f.contains "merge_crash" || f.contains "value_of_value_crash" then .error "attributeerror"
  else .ok { p with units := p.units.map fun u => { u with body := transformBody m sd u.body } }

end LokiModel.C29
