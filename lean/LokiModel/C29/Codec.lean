import LokiModel.Fir.Codec
import LokiModel.C29.Model
/-!
# Encoder for FIR programs (wire form of `Fir/Codec.lean`, which only has the decoder) and the C29 request decoder —
driver infrastructure, not model
-/
namespace LokiModel.C29
open LokiModel.Fir Sexp
open LokiModel.Expr (Val CmpOp)

def encOp : BinOp → Sexp
  | .add => atom "add" | .sub => atom "sub" | .mul => atom "mul" | .div => atom "div" | .pow => atom "pow"
  | .and => atom "and" | .or => atom "or"
  | .cmp .eq => atom "eq" | .cmp .ne => atom "ne" | .cmp .lt => atom "lt" | .cmp .le => atom "le"
  | .cmp .gt => atom "gt" | .cmp .ge => atom "ge"

mutual
def encEx : Ex → Sexp
  | .lit v => encVal v
  | .var x => list [atom "v", atom x]
  | .idx x es => list (atom "idx" :: atom x :: encExs es)
  | .sec x ds => list (atom "sec" :: atom x :: encDims ds)
  | .neg a => list [atom "neg", encEx a]
  | .not a => list [atom "not", encEx a]
  | .bin o a b => list [atom "bin", encOp o, encEx a, encEx b]
  | .call f es => list (atom "call" :: atom f :: encExs es)
def encExs : List Ex → List Sexp
  | [] => []
  | e :: es => encEx e :: encExs es
def encDims : List Dim → List Sexp
  | [] => []
  | .at e :: ds => list [atom "at", encEx e] :: encDims ds
  | .rng lo hi st :: ds => list [atom "rng", encOEx lo, encOEx hi, encOEx st] :: encDims ds
def encOEx : Option Ex → Sexp
  | none => atom "none"
  | some e => encEx e
end

def encTy : Ty → Sexp
  | .int => atom "int" | .real => atom "real" | .logical => atom "logical"

def encIntent : Intent → Sexp
  | .in_ => atom "in" | .out => atom "out" | .inout => atom "inout" | .none => atom "none"

def encDecl (d : Decl) : Sexp :=
  list [atom "decl", atom d.name, encTy d.ty, encIntent d.intent,
        list (d.dims.map fun b => list [encEx b.1, encEx b.2]), encOEx d.param]

mutual
def encStmt : Stmt → Sexp
  | .assign l r => list [atom "assign", encEx l, encEx r]
  | .doLoop v lo hi st body => list [atom "do", atom v, encEx lo, encEx hi, encOEx st, list (encStmts body)]
  | .while c body => list [atom "while", encEx c, list (encStmts body)]
  | .ifte c t e => list [atom "if", encEx c, list (encStmts t), list (encStmts e)]
  | .select e cs d => list [atom "select", encEx e, list (encCases cs), list (encStmts d)]
  | .assoc bs body => list [atom "assoc", list (bs.map fun b => list [atom b.1, encEx b.2]), list (encStmts body)]
  | .callSub f args => list (atom "callsub" :: atom f :: encExs args)
  | .print args => list (atom "print" :: encExs args)
  | .exit => list [atom "exit"]
  | .cycle => list [atom "cycle"]
  | .nop k t => list [atom "nop", atom k, str t]
def encStmts : List Stmt → List Sexp
  | [] => []
  | s :: ss => encStmt s :: encStmts ss
def encCases : List (List Int × List Stmt) → List Sexp
  | [] => []
  | (vs, b) :: cs => list [list (vs.map ofInt), list (encStmts b)] :: encCases cs
end

def encUnit (u : Fir.Unit) : Sexp :=
  list [atom "unit", atom u.name, list (u.args.map atom), list (u.decls.map encDecl), list (encStmts u.body)]

def encProgram (p : Program) : Sexp := list (atom "program" :: atom p.main :: p.units.map encUnit)


def decMode : Sexp → Option Mode
  | atom "resolve" => some .resolve
  | atom "merge" => some .merge
  | atom "both" => some .both
  | _ => none

/-- `(c29 MODE SD PROG INPUTS)` → `(ok (FLAGS…) PROG')` | `(error KIND)` -/
def step : Sexp → Option Sexp
  | list [atom "c29", m, sd, prog, _] => do
      let m ← decMode m
      let sd ← sd.toNat?
      let p ← decProgram prog
      match transform m sd p with
      | .ok p' => pure (list [atom "ok", list ((flags m sd p).map atom), encProgram p'])
      | .error k => pure (list [atom "error", atom k])
  -- derived-type sources are outside FIR: judged by the structural oracle on the real IR only (harness/props/c29.py)
  | list [atom "c29s", _, _, _, _, _] => some (list [atom "ok", atom "structural"])
  | _ => none

end LokiModel.C29
