import LokiModel.C03.Lemmas
/-!
# C03: untouched regions and "VALID ⇒ untouched"
-/
namespace LokiModel.C03

/-! ## a region without keys is only re-flagged -/

mutual
def cleanB (m : Mapper) : Node → Bool
  | .mk info src body els => (lookup m (.mk info src body els)).isNone && cleanLB m body && cleanLB m els
def cleanLB (m : Mapper) : List Node → Bool
  | [] => true
  | n :: ns => cleanB m n && cleanLB m ns
end

mutual
theorem visitElem_clean (rs : Bool) (m : Mapper) : ∀ n, cleanB m n = true → visitElem rs m n = [refresh rs n]
  | .mk info src body els => by
    intro h
    simp only [cleanB, Bool.and_eq_true, Option.isNone_iff_eq_none] at h
    rw [visitElem, refresh]
    simp only [h.1.1, visitL_clean rs m body h.1.2, visitL_clean rs m els h.2]
theorem visitL_clean (rs : Bool) (m : Mapper) : ∀ ns, cleanLB m ns = true → visitL rs m ns = refreshL rs ns
  | [] => by intro _; simp [visitL, refreshL]
  | n :: ns => by
    intro h
    simp only [cleanLB, Bool.and_eq_true] at h
    rw [visitL, refreshL, visitElem_clean rs m n h.1, visitL_clean rs m ns h.2]; rfl
end

/-! ## membership in pre-order listings -/

theorem preorder_mk (info : Info) (src : Option Src) (body els : List Node) :
    preorder (.mk info src body els) = .mk info src body els :: (preorderL body ++ preorderL els) := by
  rw [preorder]

theorem mem_preorder_self : ∀ n : Node, n ∈ preorder n
  | .mk _ _ _ _ => by rw [preorder]; exact List.mem_cons_self

theorem preorderL_append : ∀ a b : List Node, preorderL (a ++ b) = preorderL a ++ preorderL b
  | [], b => by simp [preorderL]
  | x :: a, b => by simp [preorderL, preorderL_append a b]

theorem mem_preorderL {x : Node} : ∀ {ns : List Node}, x ∈ preorderL ns ↔ ∃ n ∈ ns, x ∈ preorder n
  | [] => by simp [preorderL]
  | n :: ns => by simp [preorderL, mem_preorderL (ns := ns)]

/-! ## "still VALID" forces "nothing below changed" (while `_rebuild` lets every node child trigger) -/

theorem rebuildSrc_valid (hT : rebuildTestsChildSource = false) (src : Option Src) (cs : List Node) (k : Nat)
    (h : (rebuildSrc src cs k).map (·.status) = some .valid) : cs = [] ∧ k = 0 ∧ rebuildSrc src cs k = src := by
  cases src with
  | none => simp [rebuildSrc] at h
  | some s =>
    rcases rebuildSrc_cases s cs k with h1 | ⟨_, h1⟩
    · rw [h1] at h
      simp only [Option.map_some, Option.some.injEq] at h
      have hno : (cs.any childTriggers || cs.length != k) = false := by
        cases hc : (cs.any childTriggers || cs.length != k) with
        | false => rfl
        | true =>
          exfalso
          have : rebuildSrc (some s) cs k = some { s with status := .ichildren } := by
            unfold rebuildSrc; simp [h, hc]
          rw [this] at h1
          have := congrArg (Option.map (·.status)) h1
          simp [h] at this
      rw [Bool.or_eq_false_iff] at hno
      obtain ⟨ha, hl⟩ := hno
      have hcs : cs = [] := by
        cases cs with
        | nil => rfl
        | cons c cs => simp [childTriggers, hT] at ha
      subst hcs
      refine ⟨rfl, ?_, h1⟩
      have := hl; simp at this; exact this.symm
    · rw [h1] at h; simp at h

theorem rebuildWith_valid (hT : rebuildTestsChildSource = false) (rs : Bool) (info : Info) (src : Option Src)
    (body els b' e' : List Node)
    (hv : (rebuildWith rs info src body els b' e').status = some .valid)
    (hs : info.kind = .scoped → rs = true)
    (hb : body = [] → b' = []) (he : els = [] → e' = []) :
    rebuildWith rs info src body els b' e' = .mk info src body els := by
  unfold rebuildWith at hv ⊢
  by_cases hk : info.kind = .scoped
  · simp only [hk, if_true, hs hk] at hv ⊢
    simp only [Node.status, Node.src] at hv
    obtain ⟨h1, _, h2⟩ := rebuildSrc_valid hT src (body ++ els) _ hv
    rw [h2]
    have hb0 : body = [] := (List.append_eq_nil_iff.mp h1).1
    have he0 : els = [] := (List.append_eq_nil_iff.mp h1).2
    rw [hb hb0, he he0, hb0, he0]
  · simp only [hk, if_false] at hv ⊢
    simp only [Node.status, Node.src] at hv
    obtain ⟨h1, h0, h2⟩ := rebuildSrc_valid hT src (b' ++ e') _ hv
    have h0' : body ++ els = [] := List.eq_nil_of_length_eq_zero h0
    have hb0 : body = [] := (List.append_eq_nil_iff.mp h0').1
    have he0 : els = [] := (List.append_eq_nil_iff.mp h0').2
    rw [h2, (List.append_eq_nil_iff.mp h1).1, (List.append_eq_nil_iff.mp h1).2, hb0, he0]

theorem rebuildWith_mk (rs : Bool) (info : Info) (src : Option Src) (body els b' e' : List Node) :
    ∃ s', rebuildWith rs info src body els b' e' = .mk info s' b' e' := by
  unfold rebuildWith; split <;> (try split) <;> exact ⟨_, rfl⟩

theorem rebuildWith_info (rs : Bool) (info : Info) (src : Option Src) (body els b' e' : List Node) :
    (rebuildWith rs info src body els b' e').info = info := by
  obtain ⟨s', h⟩ := rebuildWith_mk rs info src body els b' e'; rw [h]; rfl

/-! ### expression substitution -/

theorem substL_nil (rs : Bool) (e : Nat → Option Nat) : ∀ ns, substL rs e ns = [] ↔ ns = []
  | [] => by simp [substL]
  | _ :: _ => by simp [substL]

mutual
theorem subst_valid_mem (hT : rebuildTestsChildSource = false) (rs : Bool) (e : Nat → Option Nat) :
    ∀ (n n' : Node), n' ∈ preorder (subst rs e n) → n'.status = some .valid → (n'.info.kind = .scoped → rs = true) →
      n' ∈ preorder n
  | .mk info src body els, n' => by
    intro hm hv hs
    rw [subst] at hm
    rw [preorder_mk]
    have hkids : n' ∈ preorderL (substL rs e body) ++ preorderL (substL rs e els) →
        n' ∈ Node.mk info src body els :: (preorderL body ++ preorderL els) := by
      intro h1
      refine List.mem_cons.mpr (Or.inr ?_)
      rcases List.mem_append.mp h1 with h | h
      · exact List.mem_append.mpr (Or.inl (substL_valid_mem hT rs e body n' h hv hs))
      · exact List.mem_append.mpr (Or.inr (substL_valid_mem hT rs e els n' h hv hs))
    cases hel : e info.lbl with
    | none =>
      simp only [hel, substSrc, Option.isSome_none, Bool.false_eq_true, if_false] at hm
      obtain ⟨s', hr'⟩ := rebuildWith_mk rs info src body els (substL rs e body) (substL rs e els)
      rw [hr', preorder_mk] at hm
      rcases List.mem_cons.mp hm with h0 | h1
      · refine List.mem_cons.mpr (Or.inl ?_)
        rw [h0, ← hr'] at hv hs ⊢
        exact rebuildWith_valid hT rs info src body els (substL rs e body) (substL rs e els) hv
          (by simpa [rebuildWith_info] using hs)
          (fun h => (substL_nil rs e body).mpr h) (fun h => (substL_nil rs e els).mpr h)
      · exact hkids h1
    | some l =>
      simp only [hel, substSrc, Option.isSome_some, if_true] at hm
      obtain ⟨s', hr'⟩ := rebuildWith_mk rs { info with lbl := l } (src.map fun s => { s with status := Status.inode })
        body els (substL rs e body) (substL rs e els)
      rw [hr', preorder_mk] at hm
      rcases List.mem_cons.mp hm with h0 | h1
      · exfalso
        rw [h0, ← hr'] at hv
        cases src with
        | none => simp [rebuildWith_none, Node.status, Node.src] at hv
        | some s0 =>
          obtain ⟨st, hsh, hst⟩ := rebuildWith_shape rs { info with lbl := l } { s0 with status := .inode } body els
            (substL rs e body) (substL rs e els)
          simp only [Option.map_some] at hv
          rw [hsh] at hv
          simp only [Node.status, Node.src, Option.map_some, Option.some.injEq] at hv
          rcases hst with h | ⟨h, _⟩ <;> simp_all
      · exact hkids h1
theorem substL_valid_mem (hT : rebuildTestsChildSource = false) (rs : Bool) (e : Nat → Option Nat) :
    ∀ (ns : List Node) (n' : Node), n' ∈ preorderL (substL rs e ns) → n'.status = some .valid →
      (n'.info.kind = .scoped → rs = true) → n' ∈ preorderL ns
  | [], n' => by intro h; simp [substL, preorderL] at h
  | n :: ns, n' => by
    intro h hv hs
    rw [substL, preorderL] at h
    rw [preorderL]
    rcases List.mem_append.mp h with h | h
    · exact List.mem_append.mpr (Or.inl (subst_valid_mem hT rs e n n' h hv hs))
    · exact List.mem_append.mpr (Or.inr (substL_valid_mem hT rs e ns n' h hv hs))
end

mutual
theorem subst_none (rs : Bool) : ∀ n, subst rs (fun _ => none) n = refresh rs n
  | .mk info src body els => by
    rw [subst, refresh, substL_none rs body, substL_none rs els]; rfl
theorem substL_none (rs : Bool) : ∀ ns, substL rs (fun _ => none) ns = refreshL rs ns
  | [] => by simp [substL, refreshL]
  | n :: ns => by rw [substL, refreshL, subst_none rs n, substL_none rs ns]
end

theorem refresh_valid_mem (hT : rebuildTestsChildSource = false) (rs : Bool) (n n' : Node)
    (hm : n' ∈ preorder (refresh rs n)) (hv : n'.status = some .valid) (hs : n'.info.kind = .scoped → rs = true) :
    n' ∈ preorder n := by
  rw [← subst_none] at hm
  exact subst_valid_mem hT rs _ n n' hm hv hs

/-! ### the transformer -/

def handleNodes : Handle → List Node
  | .drop => []
  | .node n => [n]
  | .tuple ns => ns

/-- all nodes that occur as (elements of) mapper values -/
def mapperValues : Mapper → List Node
  | [] => []
  | (_, h) :: m => handleNodes h ++ mapperValues m

theorem lookup_values : ∀ {m : Mapper} {k : Node} {h : Handle}, lookup m k = some h → ∀ x ∈ handleNodes h, x ∈ mapperValues m
  | [], _, _ => by intro h; simp [lookup] at h
  | (k', h') :: m, k, h => by
    intro hl x hx
    simp only [lookup] at hl
    simp only [mapperValues, List.mem_append]
    split at hl
    · injection hl with hl; subst hl; exact Or.inl hx
    · exact Or.inr (lookup_values hl x hx)

theorem visitL_nil_of_nil (rs : Bool) (m : Mapper) : visitL rs m [] = [] := by simp [visitL]

mutual
theorem visitElem_valid_mem (hT : rebuildTestsChildSource = false) (rs : Bool) (m : Mapper) :
    ∀ (n n' : Node), n' ∈ preorderL (visitElem rs m n) → n'.status = some .valid → (n'.info.kind = .scoped → rs = true) →
      n' ∈ preorder n ∨ n' ∈ preorderL (mapperValues m)
  | .mk info src body els, n' => by
    intro hm hv hs
    rw [visitElem] at hm
    -- what holds for the rebuilt node
    have hreb : n' ∈ preorder (rebuildWith rs info src body els (visitL rs m body) (visitL rs m els)) →
        n' ∈ preorder (.mk info src body els) ∨ n' ∈ preorderL (mapperValues m) := by
      intro hin
      obtain ⟨s', hr'⟩ := rebuildWith_mk rs info src body els (visitL rs m body) (visitL rs m els)
      rw [hr', preorder_mk] at hin
      rw [preorder_mk]
      rcases List.mem_cons.mp hin with h0 | h1
      · left
        refine List.mem_cons.mpr (Or.inl ?_)
        rw [h0, ← hr'] at hv hs ⊢
        refine rebuildWith_valid hT rs info src body els _ _ hv (by simpa [rebuildWith_info] using hs) ?_ ?_
        · intro h; rw [h]; exact visitL_nil_of_nil rs m
        · intro h; rw [h]; exact visitL_nil_of_nil rs m
      · rcases List.mem_append.mp h1 with h | h
        · rcases visitL_valid_mem hT rs m body n' h hv hs with h | h
          · exact Or.inl (List.mem_cons.mpr (Or.inr (List.mem_append.mpr (Or.inl h))))
          · exact Or.inr h
        · rcases visitL_valid_mem hT rs m els n' h hv hs with h | h
          · exact Or.inl (List.mem_cons.mpr (Or.inr (List.mem_append.mpr (Or.inr h))))
          · exact Or.inr h
    cases hl : lookup m (.mk info src body els) with
    | none =>
      simp only [hl] at hm
      rw [preorderL, preorderL, List.append_nil] at hm
      exact hreb hm
    | some h =>
      cases h with
      | drop => simp only [hl] at hm; simp [preorderL] at hm
      | node h =>
        simp only [hl] at hm
        rw [preorderL, preorderL, List.append_nil] at hm
        exact Or.inr (mem_preorderL.mpr ⟨h, lookup_values hl h (by simp [handleNodes]), hm⟩)
      | tuple hl' =>
        simp only [hl] at hm
        obtain ⟨x, hx, hin⟩ := mem_preorderL.mp hm
        obtain ⟨h, hh, rfl⟩ := List.mem_map.mp hx
        by_cases heq : h = .mk info src body els
        · simp only [heq, if_true] at hin
          exact hreb hin
        · simp only [heq, if_false] at hin
          have := refresh_valid_mem hT rs h n' hin hv hs
          exact Or.inr (mem_preorderL.mpr ⟨h, lookup_values hl h (by simpa [handleNodes] using hh), this⟩)
theorem visitL_valid_mem (hT : rebuildTestsChildSource = false) (rs : Bool) (m : Mapper) :
    ∀ (ns : List Node) (n' : Node), n' ∈ preorderL (visitL rs m ns) → n'.status = some .valid →
      (n'.info.kind = .scoped → rs = true) →
      n' ∈ preorderL ns ∨ n' ∈ preorderL (mapperValues m)
  | [], n' => by intro h; simp [visitL, preorderL] at h
  | n :: ns, n' => by
    intro h hv hs
    rw [visitL, preorderL_append] at h
    rw [preorderL]
    rcases List.mem_append.mp h with h | h
    · rcases visitElem_valid_mem hT rs m n n' h hv hs with h | h
      · exact Or.inl (List.mem_append.mpr (Or.inl h))
      · exact Or.inr h
    · rcases visitL_valid_mem hT rs m ns n' h hv hs with h | h
      · exact Or.inl (List.mem_append.mpr (Or.inr h))
      · exact Or.inr h
end

end LokiModel.C03
