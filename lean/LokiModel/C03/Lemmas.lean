import LokiModel.C03.Tiles
/-!
# C03: re-flagging keeps `Tiles`; untouched regions; valid ⇒ untouched
-/
namespace LokiModel.C03

/-! ## `refresh` (a visit that replaces nothing) changes status flags only -/

theorem rebuildSrc_cases (s : Src) (cs : List Node) (k : Nat) :
    rebuildSrc (some s) cs k = some s ∨
    (s.status = .valid ∧ rebuildSrc (some s) cs k = some { s with status := .ichildren }) := by
  unfold rebuildSrc
  by_cases h : (decide (s.status = .valid) && (cs.any childTriggers || cs.length != k)) = true
  · right
    refine ⟨?_, ?_⟩
    · simp only [Bool.and_eq_true, decide_eq_true_eq] at h; exact h.1
    · simp only [h, ↓reduceIte]
  · left; simp only [h]; rfl

theorem recover_status (info : Info) (s : Src) (st : Status) (e : Bool) (b v : Res) :
    recover info { s with status := st } e b v = recover info s e b v := by
  unfold recover; rfl

theorem out1_status (k : Kind) (s : Src) (st : Status) : out1 k { s with status := st } = out1 k s := rfl

/-- the node a non-replacing visit produces: same payload and text, possibly another flag -/
theorem rebuildWith_shape (rs : Bool) (info : Info) (s : Src) (body els b' e' : List Node) :
    ∃ st, rebuildWith rs info (some s) body els b' e' = .mk info (some { s with status := st }) b' e' ∧
      (st = s.status ∨ (s.status = .valid ∧ st = .ichildren)) := by
  unfold rebuildWith
  split
  · split
    · rcases rebuildSrc_cases s (body ++ els) (body ++ els).length with h | ⟨hv, h⟩
      · exact ⟨s.status, by rw [h], Or.inl rfl⟩
      · exact ⟨.ichildren, by rw [h], Or.inr ⟨hv, rfl⟩⟩
    · exact ⟨s.status, rfl, Or.inl rfl⟩
  · rcases rebuildSrc_cases s (b' ++ e') (body ++ els).length with h | ⟨hv, h⟩
    · exact ⟨s.status, by rw [h], Or.inl rfl⟩
    · exact ⟨.ichildren, by rw [h], Or.inr ⟨hv, rfl⟩⟩

theorem rebuildWith_none (rs : Bool) (info : Info) (body els b' e' : List Node) :
    rebuildWith rs info none body els b' e' = .mk info none b' e' := by
  unfold rebuildWith
  split <;> (try split) <;> simp [rebuildSrc]

theorem rebuildWith_leaf (rs : Bool) (info : Info) (s : Src) :
    rebuildWith rs info (some s) [] [] [] [] = .mk info (some s) [] [] := by
  unfold rebuildWith rebuildSrc; simp

mutual
theorem emit_refresh (rs : Bool) : ∀ n : Node, emit (refresh rs n) = emit n
  | .mk info src body els => by
    rw [refresh]
    cases src with
    | none => rw [rebuildWith_none]; rfl
    | some s =>
      obtain ⟨st, h, _⟩ := rebuildWith_shape rs info s body els (refreshL rs body) (refreshL rs els)
      rw [h]; rfl
theorem emits_refreshL (rs : Bool) : ∀ ns : List Node, emits (refreshL rs ns) = emits ns
  | [] => by simp [refreshL, emits]
  | n :: ns => by rw [refreshL, emits, emits, emit_refresh rs n, emits_refreshL rs ns]
end

theorem refreshL_isEmpty (rs : Bool) : ∀ ns : List Node, (refreshL rs ns).isEmpty = ns.isEmpty
  | [] => by simp [refreshL]
  | _ :: _ => by simp [refreshL]

mutual
theorem tiles_refresh (R : Render) (rs : Bool) : ∀ (n : Node) (ie : Bool), tilesB R ie (refresh rs n) = tilesB R ie n
  | .mk info src body els => by
    intro ie
    rw [refresh]
    cases src with
    | none => rw [rebuildWith_none]; simp [tilesB]
    | some s =>
      obtain ⟨st, h, _⟩ := rebuildWith_shape rs info s body els (refreshL rs body) (refreshL rs els)
      rw [h]
      simp only [tilesB, recover_status, refreshL_isEmpty, emits_refreshL, tilesL_refresh R rs body, tilesL_refresh R rs els]
theorem tilesL_refresh (R : Render) (rs : Bool) : ∀ (ns : List Node) (ie : Bool), tilesLB R ie (refreshL rs ns) = tilesLB R ie ns
  | [] => by intro _; simp [refreshL]
  | n :: ns => by intro ie; rw [refreshL, tilesLB, tilesLB, tiles_refresh R rs n ie, tilesL_refresh R rs ns ie]
end

mutual
theorem flagsOK_refresh (R : Render) (rs : Bool) : ∀ (n : Node) (ie : Bool),
    allValid n = true → tilesB R ie n = true → flagsOK (refresh rs n) = true
  | .mk info src body els => by
    intro ie hv ht
    simp only [allValid, Bool.and_eq_true] at hv
    obtain ⟨⟨hs, hvb⟩, hve⟩ := hv
    cases src with
    | none => simp at hs
    | some s =>
      simp only [beq_iff_eq] at hs
      rw [refresh]
      cases hk : info.kind <;> simp only [hk, tilesB, Bool.and_eq_true, List.isEmpty_iff, Bool.not_eq_true', reduceCtorEq] at ht
      case assign | call | decl | imprt | comment =>
        obtain ⟨rfl, rfl⟩ := ht
        simp only [refreshL]
        rw [rebuildWith_leaf]
        simp [flagsOK, flagsOKL, hk, hs]
      all_goals
        obtain ⟨st, h, hst⟩ := rebuildWith_shape rs info s body els (refreshL rs body) (refreshL rs els)
        rw [h]
        have hst' : st = .valid ∨ st = .ichildren := by
          rcases hst with h1 | ⟨_, h2⟩
          · left; rw [h1, hs]
          · right; exact h2
      case «section» =>
        obtain ⟨⟨rfl, htb⟩, _⟩ := ht
        simp only [flagsOK, Bool.and_eq_true, hk, refreshL, flagsOKL]
        refine ⟨⟨flagsOKL_refresh R rs body ie hvb htb, trivial⟩, ?_⟩
        rcases hst' with rfl | rfl <;> simp
      case loop =>
        obtain ⟨⟨rfl, htb⟩, _⟩ := ht
        simp only [flagsOK, Bool.and_eq_true, hk, refreshL, flagsOKL]
        refine ⟨⟨flagsOKL_refresh R rs body ie hvb htb, trivial⟩, ?_⟩
        rcases hst' with rfl | rfl <;> simp
      case cond =>
        obtain ⟨⟨⟨_, htb⟩, hte⟩, _⟩ := ht
        simp only [flagsOK, Bool.and_eq_true, hk]
        refine ⟨⟨flagsOKL_refresh R rs body false hvb htb, ?_⟩, ?_⟩
        · cases hei : info.elseif
          · simp only [hei, Bool.false_eq_true, if_false] at hte; exact flagsOKL_refresh R rs els false hve hte
          · simp only [hei, if_true] at hte; exact flagsOKL_refresh R rs els true hve hte
        · rcases hst' with rfl | rfl <;> simp
theorem flagsOKL_refresh (R : Render) (rs : Bool) : ∀ (ns : List Node) (ie : Bool),
    allValidL ns = true → tilesLB R ie ns = true → flagsOKL (refreshL rs ns) = true
  | [] => by intros; simp [refreshL, flagsOKL]
  | n :: ns => by
    intro ie hv ht
    simp only [allValidL, tilesLB, Bool.and_eq_true] at hv ht
    simp only [refreshL, flagsOKL, Bool.and_eq_true]
    exact ⟨flagsOK_refresh R rs n ie hv.1 ht.1, flagsOKL_refresh R rs ns ie hv.2 ht.2⟩
end

end LokiModel.C03
