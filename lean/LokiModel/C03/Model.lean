import LokiModel.Generated.C03Tables
/-!
# C03 model: conservative code generation and source invalidation
(`loki/backend/fgencon.py`, `loki/frontend/source.py`, `loki/ir/transformer.py: Transformer._rebuild`,
`loki/ir/expr_visitors.py: ExpressionTransformer`, the fallback handlers of `loki/backend/fgen.py`)

A `Node` is what the conservative backend and the transformer see of an IR node:

* `info.kind`: the class, grouped by how `FortranCodegenConservative` treats it — `assign, call, comment, decl, imprt, loop, cond,
  section` have a handler that consults `o.source`; `scoped` (`Associate`), `iother` (other one-body internal nodes, e.g. `WhileLoop`)
  and `lother` (every other leaf) do not and are always printed by the regular backend;
* `info.lbl`: a payload id standing for all non-node fields (expressions, comment text …); what the regular backend prints for the
  node itself is the abstract `Render` table indexed by it (`hdr`, the `ELSE IF` variant `hdrEI`, the `ELSE` line `mid`, `ftr`);
* `src`: the `Source` (`status`, the text as the list of its lines, the line span), `none` for `source=None`;
* `body`, `els`: the child tuples.

Text is modelled as the list of lines `s.split('\n')` (a bijection with strings); `join_lines` is then `flatten`, with Python's
corner cases kept (`join_lines()` = `None`, all entries `None` = `''`).  `str.splitlines()` agrees with `split('\n')` on the indices
used as long as the text has no exotic line separators and does not end in a newline (the harness rejects such inputs).
Core Lean only.
-/
namespace LokiModel.C03

abbrev Lines := List String

inductive Status where
  | valid | inode | ichildren
deriving DecidableEq, Repr

structure Src where
  status : Status
  text : Lines
  l0 : Nat
  l1 : Nat
deriving DecidableEq, Repr

inductive Kind where
  | assign | call | comment | decl | imprt | loop | cond | section | scoped | lother | iother
deriving DecidableEq, Repr

structure Info where
  kind : Kind
  lbl : Nat
  inline : Bool
  elseif : Bool
  label : Option String
  endDo : Bool := true      -- `Loop.has_end_do`
  name : Option String := none   -- the construct name of a `Conditional` (for an `ELSE IF` branch: the one handed down in `kwargs`)
deriving DecidableEq, Repr

inductive Node where
  | mk (info : Info) (src : Option Src) (body : List Node) (els : List Node)
deriving Repr

namespace Node
def info : Node → Info | mk i _ _ _ => i
def src : Node → Option Src | mk _ s _ _ => s
def body : Node → List Node | mk _ _ b _ => b
def els : Node → List Node | mk _ _ _ e => e
def status (n : Node) : Option Status := n.src.map (·.status)
end Node

mutual
def Node.decEq : (a b : Node) → Decidable (a = b)
  | .mk i s b e, .mk i' s' b' e' =>
    if h1 : i = i' then
      if h2 : s = s' then
        match decEqL b b' with
        | isTrue h3 =>
          match decEqL e e' with
          | isTrue h4 => isTrue (by rw [h1, h2, h3, h4])
          | isFalse h4 => isFalse (by intro h; cases h; exact h4 rfl)
        | isFalse h3 => isFalse (by intro h; cases h; exact h3 rfl)
      else isFalse (by intro h; cases h; exact h2 rfl)
    else isFalse (by intro h; cases h; exact h1 rfl)
def decEqL : (a b : List Node) → Decidable (a = b)
  | [], [] => isTrue rfl
  | [], _ :: _ => isFalse (by intro e; cases e)
  | _ :: _, [] => isFalse (by intro e; cases e)
  | a :: as, b :: bs =>
    match Node.decEq a b with
    | isTrue h => match decEqL as bs with
      | isTrue h' => isTrue (by rw [h, h'])
      | isFalse h' => isFalse (by intro e; cases e; exact h' rfl)
    | isFalse h => isFalse (by intro e; cases e; exact h rfl)
end

/-- Loki's dataclass equality (field values including `source`; object identity excluded) -/
instance : DecidableEq Node := Node.decEq

/-! ## strings -/

def isWs (c : Char) : Bool := c = ' ' || c = '\t' || c = '\n' || c = '\r' || c = '\x0b' || c = '\x0c'

def lstripL (p : Char → Bool) : List Char → List Char
  | [] => []
  | c :: cs => if p c then lstripL p cs else c :: cs

def rstripL (p : Char → Bool) (cs : List Char) : List Char := (lstripL p cs.reverse).reverse

def lstrip (s : String) : String := String.ofList (lstripL isWs s.toList)
def rstrip (s : String) : String := String.ofList (rstripL isWs s.toList)
def strip (s : String) : String := lstrip (rstrip s)
def upper (s : String) : String := String.ofList (s.toList.map Char.toUpper)
def lower (s : String) : String := String.ofList (s.toList.map Char.toLower)
def spaces (n : Nat) : String := String.ofList (List.replicate n ' ')
/-- `str.isspace()`: non-empty and all whitespace -/
def isSpaceStr (s : String) : Bool := !s.toList.isEmpty && s.toList.all isWs

/-- `s.split(c, maxsplit=1)`: `none` when `c` does not occur -/
def splitFirstL (c : Char) : List Char → Option (List Char × List Char)
  | [] => none
  | x :: xs => if x = c then some ([], xs) else
      match splitFirstL c xs with
      | some (a, b) => some (x :: a, b)
      | none => none

def splitFirst (c : Char) (s : String) : Option (String × String) :=
  (splitFirstL c s.toList).map fun p => (String.ofList p.1, String.ofList p.2)

/-- `s.split('\n')` -/
def splitNlL : List Char → List Char → List String
  | acc, [] => [String.ofList acc.reverse]
  | acc, c :: cs => if c = '\n' then String.ofList acc.reverse :: splitNlL [] cs else splitNlL (c :: acc) cs

def splitNl (s : String) : Lines := splitNlL [] s.toList
def joinNl (ls : Lines) : String := "\n".intercalate ls

/-- remove every occurrence of `&\n&` (`''.join(body.split('&\n&'))`) -/
def dropContL : List Char → List Char
  | '&' :: '\n' :: '&' :: cs => dropContL cs
  | c :: cs => c :: dropContL cs
  | [] => []

/-- `StrCompareMixin._canonical`: lower case, blanks removed -/
def canon (s : String) : String := String.ofList ((s.toList.map Char.toLower).filter (· ≠ ' '))

/-! ## results of a backend visit: a string (as lines), `None`, or an exception -/

inductive Res where
  | err (e : String)
  | none
  | some (ls : Lines)
deriving DecidableEq, Repr

def firstErr : List Res → Option String
  | [] => none
  | .err e :: _ => some e
  | _ :: rs => firstErr rs

def someLines : List Res → List Lines
  | [] => []
  | .some ls :: rs => ls :: someLines rs
  | _ :: rs => someLines rs

/-- `Stringifier.join_lines(*lines)`: no arguments → `None`; `None` entries skipped; `'\n'.join` -/
def joinRes (xs : List Res) : Res :=
  match xs with
  | [] => .none
  | _ =>
    match firstErr xs with
    | some e => .err e
    | none =>
      match someLines xs with
      | [] => .some [""]
      | ys => .some ys.flatten

/-- a piece of regular-backend output: the empty list stands for `None` (e.g. the footer of a loop without `END DO`) -/
def ofLines (ls : Lines) : Res := if ls.isEmpty then .none else .some ls

/-- `format_line` puts `self.indent` in front (continuation lines produced by wrapping carry it too); blank results are `rstrip`ped -/
def indentLines (d : Nat) (ls : Lines) : Lines := ls.map fun l => if l = "" then "" else spaces d ++ l

/-- `FortranCodegen.apply_label(line, label)` on the first line of the visited item -/
def applyLab (lab : String) (line : String) : String :=
  let ls := lstrip line
  let indent := max 1 (line.length - ls.length - 1)
  lab ++ spaces (indent - lab.length) ++ " " ++ ls

def applyLabel (label : Option String) (r : Res) : Res :=
  match label with
  | none => r
  | some lab =>
    match r with
    | .some (l :: ls) => .some (applyLab lab l :: ls)
    | .some [] => .some []
    | .none => .err "typeerror"
    | .err e => .err e

/-- the first blank-separated word of a string (`line.split(maxsplit=1)[:1]`) -/
def firstWord (s : String) : List Char := (lstripL isWs s.toList).takeWhile (fun c => !isWs c)

/-- `FortranCodegenConservative.visit_tuple`: the label is applied unless the visited text already starts with it -/
def applyLabelC (label : Option String) (r : Res) : Res :=
  match label, r with
  | some lab, .some ls => if firstWord (joinNl ls) = lab.toList then r else applyLabel label r
  | _, _ => applyLabel label r

/-! ## the regular backend's output for a node itself -/

structure Asg where
  lhs : String      -- `self.visit(o.lhs)`
  rhs : String
  lhsStr : String   -- `str(o.lhs)`, what `StrCompareMixin` compares
  rhsStr : String
  comment : String
  ptr : Bool
deriving Repr, DecidableEq

structure RData where
  hdr : Lines := []
  hdrEI : Lines := []
  mid : Lines := []
  ftr : Lines := []
  bind : Nat := 0          -- indentation step of the body
  noind : Bool := false    -- printed with `no_indent=True`
  asg : Option Asg := none
deriving Repr, DecidableEq

abbrev Render := Nat → RData

/-! ## `FortranCodegenConservative` -/

def lineAt (ls : Lines) (k : Nat) : Res :=
  match ls[k]? with
  | some l => .some [l]
  | none => .err "indexerror"

/-- `s.split()`: the blank-separated words -/
def wordsL : List Char → List Char → List (List Char)
  | acc, [] => if acc.isEmpty then [] else [acc.reverse]
  | acc, c :: cs => if isWs c then (if acc.isEmpty then wordsL [] cs else acc.reverse :: wordsL [] cs) else wordsL (c :: acc) cs

/-- `s.upper().split('!', maxsplit=1)[0].split()` -/
def stmtWords (s : String) : List (List Char) := wordsL [] ((s.toList.takeWhile (· ≠ '!')).map Char.toUpper)

/-- the last line that is the statement `ELSE`, optionally followed by the name of this construct (`elseline[-1]`) -/
def elseLine (ls : Lines) (name : Option String) : Res :=
  let ok := fun (s : String) =>
    let w := stmtWords s
    w == ["ELSE".toList] || (match name with | some n => w == ["ELSE".toList, (upper n).toList] | none => false)
  match (ls.filter ok).getLast? with
  | some l => .some [l]
  | none => .err "indexerror"

/-- `visit_Comment` on a valid source: an inline comment prints only its blanks and text -/
def commentValid (text : Lines) : Lines :=
  let s := joinNl text
  match splitFirst '!' s with
  | some (pre, txt) =>
    if pre ≠ "" && !isSpaceStr pre then
      let ws := pre.length - (String.ofList (rstripL (· = ' ') pre.toList)).length
      splitNl (spaces ws ++ "!" ++ txt)
    else text
  | none => text

/-- `visit_Assignment` on `INVALID_NODE`: keep the side of `=` that still compares equal to the expression -/
def assignSplit (d : Nat) (a : Asg) (text : Lines) : Res :=
  let s := joinNl text
  match splitFirst '=' s with
  | none => .err "assertionerror"
  | some (s0, s1) =>
    let ind := s.length - (lstrip s).length
    let lhs := if canon s0 = canon a.lhsStr then s0 else spaces ind ++ a.lhs ++ " "
    let rhs := if canon s1 = canon a.rhsStr then s1 else " " ++ a.rhs
    let line := if a.ptr then spaces d ++ lhs ++ "=>" ++ rhs else lhs ++ "=" ++ rhs
    .some (splitNl (if a.comment ≠ "" then line ++ a.comment else rstrip line))

def leafFallback (rd : RData) (d : Nat) : Res :=
  ofLines (if rd.noind then rd.hdr else indentLines d rd.hdr)

/-- `FortranCodegen.visit_Conditional` (the regular handler; `kwargs.pop('is_elseif')` happens after the inline branch) -/
def condFallback (rd : RData) (d : Nat) (ie : Bool) (info : Info) (elsEmpty : Bool) (B E : Nat → Bool → Res) : Res :=
  if info.inline then
    match B 0 ie with
    | .some ls =>
      let body := String.ofList (dropContL (lstrip (joinNl ls)).toList)
      .some (splitNl (rstrip (spaces d ++ joinNl rd.hdr ++ body)))
    | .none => .err "attributeerror"
    | .err e => .err e
  else
    let header := ofLines (indentLines d (if ie then rd.hdrEI else rd.hdr))
    let body := B (d + conditionalIndent) false
    if info.elseif then joinRes [header, body, E d true]
    else
      let e := E (d + conditionalIndent) false
      let elsePart := if elsEmpty then [e] else [ofLines (indentLines d rd.mid), e]
      joinRes (header :: body :: (elsePart ++ [ofLines (indentLines d rd.ftr)]))

/-- the `INVALID_CHILDREN` branches of `visit_Loop` / `visit_Conditional` (block form): header, `ELSE` and footer lines are taken
from the source text (the footer of a loop only when it has an `END DO`), `Bv` / `Ev` are the visited `body` / `else_body` -/
def recover (info : Info) (s : Src) (elsEmpty : Bool) (Bv Ev : Res) : Res :=
  match info.kind with
  | .loop => joinRes [.none, lineAt s.text 0, Bv, if info.endDo then lineAt s.text (s.l1 - s.l0) else .none, .none]
  | _ =>
    let header := lineAt s.text 0
    if info.elseif then joinRes [header, Bv, Ev]
    else
      let elsePart := if elsEmpty then [Ev] else [elseLine s.text info.name, Ev]
      joinRes (header :: Bv :: (elsePart ++ [lineAt s.text (s.l1 - s.l0)]))

/-- one level of the conservative visitor: `B d' ie'` / `E d' ie'` are the visits of `o.body` / `o.else_body` at depth `d'`
with `is_elseif=ie'` in `kwargs` -/
def assemble (R : Render) (d : Nat) (ie : Bool) (info : Info) (src : Option Src) (elsEmpty : Bool)
    (B E : Nat → Bool → Res) : Res :=
  let rd := R info.lbl
  match info.kind with
  | .call | .decl | .imprt =>
    match src with
    | some s => if s.status = .valid then .some s.text
                else if info.kind = .decl && s.status = .inode then .err "unmodelled" else leafFallback rd d
    | none => leafFallback rd d
  | .assign =>
    match src with
    | some s =>
      if s.status = .valid then .some s.text
      else if s.status = .inode then
        match rd.asg with
        | some a => assignSplit d a s.text
        | none => .err "unmodelled"
      else leafFallback rd d
    | none => leafFallback rd d
  | .comment =>
    match src with
    | some s => if s.status = .valid then .some (commentValid s.text) else leafFallback rd d
    | none => leafFallback rd d
  | .lother => leafFallback rd d
  | .section =>
    match src with
    | some s => if s.status = .valid then .some s.text else B d ie
    | none => B d ie
  | .loop =>
    match src with
    | some s =>
      if s.status = .valid then .some s.text
      else if s.status = .ichildren then recover info s elsEmpty (B (d + loopIndent) ie) .none
      else joinRes [.none, ofLines (indentLines d rd.hdr), B (d + loopIndent) ie, ofLines (indentLines d rd.ftr), .none]
    | none => joinRes [.none, ofLines (indentLines d rd.hdr), B (d + loopIndent) ie, ofLines (indentLines d rd.ftr), .none]
  | .scoped | .iother =>
    joinRes [ofLines (indentLines d rd.hdr), B (d + rd.bind) ie, ofLines (indentLines d rd.ftr)]
  | .cond =>
    match src with
    | some s =>
      if s.status = .valid then .some s.text
      else if s.status = .ichildren && !info.inline then
        -- `kwargs.pop('is_elseif', None)`: the header comes from the source, the marker stops here
        recover info s elsEmpty (B (d + conditionalIndent) false)
          (if info.elseif then E d true else E (d + conditionalIndent) false)
      else condFallback rd d ie info elsEmpty B E
    | none => condFallback rd d ie info elsEmpty B E

mutual
/-- `FortranCodegenConservative.visit(o)` at `self.depth = d` with `is_elseif = ie` in `kwargs` -/
def cgen (R : Render) (d : Nat) (ie : Bool) : Node → Res
  | .mk info src body els =>
    assemble R d ie info src els.isEmpty
      (fun d' ie' => joinRes (cgenItems R d' ie' body))
      (fun d' ie' => joinRes (cgenItems R d' ie' els))
/-- the items of `visit_tuple`: each element visited, its label applied -/
def cgenItems (R : Render) (d : Nat) (ie : Bool) : List Node → List Res
  | [] => []
  | n :: ns => applyLabelC n.info.label (cgen R d ie n) :: cgenItems R d ie ns
end

/-- `visit_tuple` -/
def cgenList (R : Render) (d : Nat) (ie : Bool) (ns : List Node) : Res := joinRes (cgenItems R d ie ns)

/-! ## `Transformer` with `invalidate_source=True`, `inplace=False` -/

inductive Handle where
  | drop
  | node (n : Node)
  | tuple (ns : List Node)
deriving Repr

abbrev Mapper := List (Node × Handle)

def lookup : Mapper → Node → Option Handle
  | [], _ => none
  | (k, h) :: m, o => if k = o then some h else lookup m o

/-- `Transformer._rebuild`'s treatment of `source`: a valid source is cloned and marked `INVALID_CHILDREN` when
`any(not is_source_valid(c) for c in nodes) or len(nodes) != n_before` (`nodes`: the node children after the visit, `n_before`: their
number before).  `is_source_valid` expects a `Source`; whether it is
handed the child node `c` itself (then it is `False` for every node and any node child triggers) or `c.source` is read off the code
into the generated table `rebuildTestsChildSource`. -/
def childTriggers (c : Node) : Bool :=
  if rebuildTestsChildSource then c.status != some .valid else true

def rebuildSrc (src : Option Src) (children : List Node) (before : Nat) : Option Src :=
  match src with
  | some s =>
    if s.status = .valid && (children.any childTriggers || children.length != before) then some { s with status := .ichildren }
    else some s
  | none => none

/-- rebuild of a node that is not replaced, given its visited child tuples: `visit_Node` → `_rebuild`; `visit_ScopedNode` →
with `rebuild_scopes` a `_rebuild` with the *old* children (source treatment included) and then `_update(*rebuilt)`, without it just
`_update(*rebuilt)` (the source is not looked at) -/
def rebuildWith (rs : Bool) (info : Info) (src : Option Src) (body els b' e' : List Node) : Node :=
  if info.kind = .scoped then
    if rs then .mk info (rebuildSrc src (body ++ els) (body ++ els).length) b' e' else .mk info src b' e'
  else .mk info (rebuildSrc src (b' ++ e') (body ++ els).length) b' e'

mutual
/-- a visit with the empty mapper (what happens to a spliced-in node that is not a key): content unchanged, sources re-flagged -/
def refresh (rs : Bool) : Node → Node
  | .mk info src body els => rebuildWith rs info src body els (refreshL rs body) (refreshL rs els)
def refreshL (rs : Bool) : List Node → List Node
  | [] => []
  | n :: ns => refresh rs n :: refreshL rs ns
end

mutual
/-- what one element of a tuple becomes: `_inject_tuple_mapping` followed by the visits.  A one-to-many value is spliced in and
its elements visited: the key itself falls through to the rebuild, other elements are assumed key-free (`Mapper.ok`) -/
def visitElem (rs : Bool) (m : Mapper) : Node → List Node
  | .mk info src body els =>
    let self := Node.mk info src body els
    let rebuilt := rebuildWith rs info src body els (visitL rs m body) (visitL rs m els)
    match lookup m self with
    | some .drop => []
    | some (.node h) => [h]
    | some (.tuple hs) => hs.map fun h => if h = self then rebuilt else refresh rs h
    | none => [rebuilt]
def visitL (rs : Bool) (m : Mapper) : List Node → List Node
  | [] => []
  | n :: ns => visitElem rs m n ++ visitL rs m ns
end

/-- `Transformer(mapper).visit(root)` for a root that is not a key -/
def visitRoot (rs : Bool) (m : Mapper) (root : Node) : Node :=
  match visitElem rs m root with
  | [r] => r
  | _ => root

/-! ## `SubstituteExpressions` (an `ExpressionTransformer`): `e lbl = some lbl'` when the mapping changes the node's own expressions -/

def substSrc (changed : Bool) (src : Option Src) : Option Src :=
  if changed then src.map fun s => { s with status := .inode } else src

mutual
def subst (rs : Bool) (e : Nat → Option Nat) : Node → Node
  | .mk info src body els =>
    let info' := match e info.lbl with | some l => { info with lbl := l } | none => info
    let src' := substSrc (e info.lbl).isSome src
    rebuildWith rs info' src' body els (substL rs e body) (substL rs e els)
def substL (rs : Bool) (e : Nat → Option Nat) : List Node → List Node
  | [] => []
  | n :: ns => subst rs e n :: substL rs e ns
end

/-! ## traversal helpers -/

mutual
def preorder : Node → List Node
  | .mk info src body els => Node.mk info src body els :: (preorderL body ++ preorderL els)
def preorderL : List Node → List Node
  | [] => []
  | n :: ns => preorder n ++ preorderL ns
end

end LokiModel.C03
