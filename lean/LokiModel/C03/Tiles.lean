import LokiModel.C03.Model
/-!
# C03: `Tiles` and the verbatim theorems

`tilesB R ie n` is a statement about texts and spans only (no status flag is read): every node has a `Source`; every node is of a
kind the conservative visitor prints from its source; for every `Loop` / block `Conditional` / `Section` the text is exactly what
the `INVALID_CHILDREN` branch re-assembles from the first line, the `ELSE` line, the line at index `l1 - l0` and the emitted texts
of the children (`emit`: the text, for an inline comment its blanks and text only, with `apply_label` on top).  `ie` is the
`is_elseif` keyword: set for the `ELSE IF` branch only, consumed by the next `Conditional`.
-/
namespace LokiModel.C03

/-- what a node with a valid source prints -/
def out1 (k : Kind) (s : Src) : Lines := if k = .comment then commentValid s.text else s.text

def emit (n : Node) : Res :=
  applyLabelC n.info.label (match n.src with | some s => .some (out1 n.info.kind s) | none => .none)

def emits : List Node → List Res
  | [] => []
  | n :: ns => emit n :: emits ns

mutual
def tilesB (R : Render) (ie : Bool) : Node → Bool
  | .mk info src body els =>
    match src with
    | none => false
    | some s =>
      match info.kind with
      | .assign | .call | .decl | .imprt | .comment => body.isEmpty && els.isEmpty
      | .section => els.isEmpty && tilesLB R ie body && joinRes (emits body) == .some s.text
      | .loop => els.isEmpty && tilesLB R ie body &&
          recover info s els.isEmpty (joinRes (emits body)) .none == .some s.text
      | .cond =>
          !info.inline && tilesLB R false body &&
          (if info.elseif then tilesLB R true els else tilesLB R false els) &&
          recover info s els.isEmpty (joinRes (emits body)) (joinRes (emits els)) == .some s.text
      | .scoped | .lother | .iother => false
def tilesLB (R : Render) (ie : Bool) : List Node → Bool
  | [] => true
  | n :: ns => tilesB R ie n && tilesLB R ie ns
end

/-! `flagsOK`: the status pattern that re-flagging alone can produce: leaves `VALID`, inner nodes `VALID` or `INVALID_CHILDREN` -/
mutual
def flagsOK : Node → Bool
  | .mk info src body els =>
    flagsOKL body && flagsOKL els &&
    match src with
    | none => false
    | some s =>
      match info.kind with
      | .loop | .cond | .section => s.status == .valid || s.status == .ichildren
      | _ => s.status == .valid
def flagsOKL : List Node → Bool
  | [] => true
  | n :: ns => flagsOK n && flagsOKL ns
end

mutual
def allValid : Node → Bool
  | .mk _ src body els => (match src with | some s => s.status == .valid | none => false) && allValidL body && allValidL els
def allValidL : List Node → Bool
  | [] => true
  | n :: ns => allValid n && allValidL ns
end

theorem allValid_flagsOK : ∀ n, allValid n = true → flagsOK n = true
  | .mk info src body els => by
    intro h
    simp only [allValid, Bool.and_eq_true] at h
    obtain ⟨⟨h1, h2⟩, h3⟩ := h
    simp only [flagsOK, Bool.and_eq_true]
    refine ⟨⟨allValidL_flagsOKL body h2, allValidL_flagsOKL els h3⟩, ?_⟩
    cases src with
    | none => simp at h1
    | some s =>
      simp only at h1 ⊢
      cases info.kind <;> simp [h1]
where
  allValidL_flagsOKL : ∀ ns, allValidL ns = true → flagsOKL ns = true
  | [] => by intro _; rfl
  | n :: ns => by
    intro h
    simp only [allValidL, Bool.and_eq_true] at h
    simp only [flagsOKL, Bool.and_eq_true]
    exact ⟨allValid_flagsOK n h.1, allValidL_flagsOKL ns h.2⟩

mutual
/-- **Tiles ⇒ verbatim**, for every pattern of `VALID` / `INVALID_CHILDREN` flags, at every depth -/
theorem cgen_of_tiles (R : Render) : ∀ (n : Node) (d : Nat) (ie : Bool),
    tilesB R ie n = true → flagsOK n = true →
    cgen R d ie n = match n.src with | some s => .some (out1 n.info.kind s) | none => .none
  | .mk info src body els => by
    intro d ie ht hf
    cases src with
    | none => simp [tilesB] at ht
    | some s =>
      simp only [flagsOK, Bool.and_eq_true] at hf
      obtain ⟨⟨hfb, hfe⟩, hs⟩ := hf
      simp only [Node.src, Node.info]
      rw [cgen]
      cases hk : info.kind <;> simp only [hk, tilesB, Bool.and_eq_true, beq_iff_eq, Bool.not_eq_true', reduceCtorEq] at ht hs
      case assign => simp [assemble, hk, hs, out1]
      case call => simp [assemble, hk, hs, out1]
      case decl => simp [assemble, hk, hs, out1]
      case imprt => simp [assemble, hk, hs, out1]
      case comment => simp [assemble, hk, hs, out1]
      case «section» =>
        rcases Bool.or_eq_true _ _ |>.mp hs with hv | hi
        · simp [assemble, hk, beq_iff_eq.mp hv, out1]
        · have hi' := beq_iff_eq.mp hi
          simp only [assemble, hk, hi', out1]
          simp [cgenItems_of_tiles R body d ie ht.1.2 hfb, ht.2]
      case loop =>
        rcases Bool.or_eq_true _ _ |>.mp hs with hv | hi
        · simp [assemble, hk, beq_iff_eq.mp hv, out1]
        · have hi' := beq_iff_eq.mp hi
          simp only [assemble, hk, hi', out1]
          simp [cgenItems_of_tiles R body (d + loopIndent) ie ht.1.2 hfb, ht.2]
      case cond =>
        rcases Bool.or_eq_true _ _ |>.mp hs with hv | hi
        · simp [assemble, hk, beq_iff_eq.mp hv, out1]
        · have hi' := beq_iff_eq.mp hi
          obtain ⟨⟨⟨hinl, htb⟩, hte⟩, hloc⟩ := ht
          simp only [assemble, hk, hi', out1, hinl]
          rw [cgenItems_of_tiles R body (d + conditionalIndent) false htb hfb]
          cases hei : info.elseif
          · simp only [hei] at hte hloc ⊢
            rw [cgenItems_of_tiles R els (d + conditionalIndent) false hte hfe]
            simpa using hloc
          · simp only [hei, if_true] at hte hloc ⊢
            rw [cgenItems_of_tiles R els d true hte hfe]
            simpa using hloc
theorem cgenItems_of_tiles (R : Render) : ∀ (ns : List Node) (d : Nat) (ie : Bool),
    tilesLB R ie ns = true → flagsOKL ns = true → cgenItems R d ie ns = emits ns
  | [] => by intros; rfl
  | n :: ns => by
    intro d ie ht hf
    simp only [tilesLB, flagsOKL, Bool.and_eq_true] at ht hf
    rw [cgenItems, emits, cgen_of_tiles R n d ie ht.1 hf.1, cgenItems_of_tiles R ns d ie ht.2 hf.2]
    rfl
end

end LokiModel.C03
