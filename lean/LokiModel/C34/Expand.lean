/-!
# Derived-type argument expansion as record flattening: caller and callee stay consistent

`DerivedTypeArgumentsTransformation` replaces, position by position, a derived-type dummy by the list of its used members
(`expansion_map[arg]`, sorted) and the actual argument at the same position by the list of the same members of the actual
(`_expand_call_argument` maps over the SAME `expansion_map` entry).  Abstractly: dummies and actuals are expanded by functions
`fd`, `fa` that produce lists of equal length at every position.  Then the expanded lists pair up exactly the members that
belonged together, in order.
-/
namespace LokiModel.C34

theorem zip_append_eq {α β : Type} (a₁ a₂ : List α) (b₁ b₂ : List β) (h : a₁.length = b₁.length) :
    (a₁ ++ a₂).zip (b₁ ++ b₂) = a₁.zip b₁ ++ a₂.zip b₂ := by
  induction a₁ generalizing b₁ with
  | nil => cases b₁ with
    | nil => rfl
    | cons b bs => simp at h
  | cons a as ih => cases b₁ with
    | nil => simp at h
    | cons b bs => simp only [List.cons_append, List.zip_cons_cons]; rw [ih bs (by simpa using h)]

/-- zipping the expanded dummy list with the expanded actual list = expanding every (dummy, actual) pair -/
theorem expand_zip {δ α δ' α' : Type} (fd : δ → List δ') (fa : δ → α → List α') :
    ∀ (ds : List δ) (as : List α), ds.length = as.length →
      (∀ p ∈ ds.zip as, (fd p.1).length = (fa p.1 p.2).length) →
      (ds.flatMap fd).zip ((ds.zip as).flatMap fun p => fa p.1 p.2)
        = (ds.zip as).flatMap fun p => (fd p.1).zip (fa p.1 p.2) := by
  intro ds
  induction ds with
  | nil => intro as _ _; simp
  | cons d ds ih =>
    intro as hl hp
    cases as with
    | nil => simp at hl
    | cons a as =>
      simp only [List.zip_cons_cons, List.flatMap_cons]
      rw [zip_append_eq _ _ _ _ (hp (d, a) (by simp))]
      rw [ih as (by simpa using hl) (fun p hp' => hp p (by simp [hp']))]

theorem expand_length {δ α δ' α' : Type} (fd : δ → List δ') (fa : δ → α → List α') :
    ∀ (ds : List δ) (as : List α), ds.length = as.length →
      (∀ p ∈ ds.zip as, (fd p.1).length = (fa p.1 p.2).length) →
      (ds.flatMap fd).length = ((ds.zip as).flatMap fun p => fa p.1 p.2).length := by
  intro ds
  induction ds with
  | nil => intro as _ _; simp
  | cons d ds ih =>
    intro as hl hp
    cases as with
    | nil => simp at hl
    | cons a as =>
      simp only [List.zip_cons_cons, List.flatMap_cons, List.length_append]
      rw [hp (d, a) (by simp), ih as (by simpa using hl) (fun p hp' => hp p (by simp [hp']))]

end LokiModel.C34
