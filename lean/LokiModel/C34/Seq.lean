import LokiModel.C34.Model
/-!
# Sequence association: the section written by the transformation denotes the storage sequence the element started

FIR's `callSub` (Sem.lean) binds an element actual `x(i, js)` to an array dummy by flat copy from that element on
(`actualData`: `data.drop o`, `writeBack`: `data.take o ++ vals.take n ++ data.drop (o+n)`), and has no section actuals.
The rewritten actual `x(i:u, js)` is therefore given its meaning here (`secElems`: the index tuples of the section in array
element order, computed with the SAME `secShape` / `positions` / `evalSec` the interpreter uses for section assignment;
`secRead` / `secWrite`: copy-in / copy-out through these elements) and shown to coincide with the flat copy for a rank-1
dummy that is not longer than the section.
-/
namespace LokiModel.C34
open LokiModel.Fir
open LokiModel.Expr (Val)

/-- index tuples of the elements of the section `x(dims)` in array element order -/
def secElems (st : St) (x : String) (dims : List Dim) : Option (List (List Int)) := do
  let bs ← boundsOf st x
  let shape ← secShape st bs dims
  (positions shape).mapM fun p => evalSec st [] bs dims p

/-- copy-in through a list of flat offsets -/
def secRead (data : List (Option Val)) (offs : List Nat) : List (Option Val) := offs.map fun o => (data[o]?).join

/-- copy-out through a list of flat offsets (as many values as there are, at most one per element) -/
def secWrite (data : List (Option Val)) : List Nat → List (Option Val) → List (Option Val)
  | o :: os, v :: vs => secWrite (data.set o v) os vs
  | _, _ => data

/-! ### index arithmetic -/

/-- moving `k` steps along the first dimension moves the flat offset by `k` -/
theorem offset_shift {l h : Int} {rest : List (Int × Int)} {i : Int} {is : List Int} {o : Nat}
    (ho : offset ((l, h) :: rest) (i :: is) = some o) (k : Nat) (hk : i + (k : Int) ≤ h) :
    offset ((l, h) :: rest) ((i + (k : Int)) :: is) = some (o + k) := by
  simp only [offset] at ho ⊢
  by_cases hb : l ≤ i ∧ i ≤ h
  · rw [if_pos hb] at ho
    have hb' : l ≤ i + (k : Int) ∧ i + (k : Int) ≤ h := ⟨by omega, hk⟩
    rw [if_pos hb']
    cases hr : offset rest is with
    | none => rw [hr] at ho; simp at ho
    | some r =>
      rw [hr] at ho
      simp only [Option.map_some, Option.some.injEq] at ho ⊢
      have : (i + (k : Int) - l).toNat = (i - l).toNat + k := by omega
      rw [this]; omega
  · rw [if_neg hb] at ho; simp at ho

theorem tripCount_one (i h : Int) : tripCount i h 1 = (h - i + 1).toNat := by
  simp [tripCount, Int.tdiv_one]

/-- the flat offsets of the section `x(i:h, is)`: consecutive from the offset of `x(i, is)` -/
theorem offsets_consecutive {l h : Int} {rest : List (Int × Int)} {i : Int} {is : List Int} {o : Nat}
    (ho : offset ((l, h) :: rest) (i :: is) = some o) (n : Nat) (hn : i + (n : Int) ≤ h + 1) :
    ((List.range n).map fun (k : Nat) => (i + (k : Int)) :: is).mapM (offset ((l, h) :: rest))
      = some ((List.range n).map fun k => o + k) := by
  induction n with
  | zero => rfl
  | succ n ih =>
    have ih' := ih (by omega)
    rw [List.range_succ, List.map_append, List.mapM_append, ih']
    simp only [List.map_cons, List.map_nil, List.mapM_cons, List.mapM_nil]
    rw [offset_shift ho n (by omega)]
    simp [List.map_append]

/-! ### flat data -/

theorem secRead_consecutive (data : List (Option Val)) (o n : Nat) (hfit : o + n ≤ data.length) :
    secRead data ((List.range n).map fun k => o + k) = (data.drop o).take n := by
  apply List.ext_getElem
  · simp [secRead]; omega
  · intro j h1 h2
    simp only [secRead, List.length_map, List.length_range] at h1
    have hj : o + j < data.length := by omega
    simp [secRead, List.getElem_take, List.getElem_drop, List.getElem?_eq_getElem hj]

theorem secWrite_consecutive (vals : List (Option Val)) :
    ∀ (data : List (Option Val)) (o n : Nat), o + n ≤ data.length → vals.length ≤ n →
      secWrite data ((List.range' o n)) vals = data.take o ++ vals ++ data.drop (o + vals.length) := by
  induction vals with
  | nil => intro data o n _ _; cases n <;> simp [secWrite, List.range']
  | cons v vs ih =>
    intro data o n hfit hlen
    cases n with
    | zero => simp at hlen
    | succ n =>
      simp only [List.range', secWrite]
      have hlen' : vs.length ≤ n := by simpa using hlen
      rw [ih (data.set o v) (o + 1) n (by simp; omega) hlen']
      have ho : o < data.length := by omega
      have e1 : (data.set o v).take (o + 1) = data.take o ++ [v] := by
        rw [List.take_succ_eq_append_getElem (by simpa using ho)]
        have : List.take o (data.set o v) = List.take o data := by
          rw [List.take_set]
          exact List.set_eq_of_length_le (by simp; omega)
        simp [this]
      have e2 : (data.set o v).drop (o + 1 + vs.length) = data.drop (o + (vs.length + 1)) := by
        rw [List.drop_set_of_lt (by omega)]
        congr 1; omega
      rw [e1, e2]
      simp

theorem range_map_add (o n : Nat) : ((List.range n).map fun k => o + k) = List.range' o n := by
  rw [List.range_eq_range']
  simp [List.map_add_range']

/-! ### what the interpreter's section functions compute for `x(s:hi, ss)` -/

theorem evalSec_ats (st : St) (pos : List Nat) :
    ∀ (rest : List (Int × Int)) (ss : List Ex) (is : List Int), rest.length = ss.length →
      evalIdx st pos ss = some is → evalSec st pos rest (ss.map .at) [] = some is := by
  intro rest ss
  induction ss generalizing rest with
  | nil => intro is hl he; cases rest <;> simp_all [evalIdx, evalSec]
  | cons e es ih =>
    intro is hl he
    cases rest with
    | nil => simp at hl
    | cons b bs =>
      simp only [List.map_cons, evalSec]
      simp only [evalIdx] at he
      cases hv : evalE st pos e with
      | none => simp [hv] at he
      | some v =>
        cases hi : asInt v with
        | none => simp [hv, hi] at he
        | some i =>
          cases hr : evalIdx st pos es with
          | none => simp [hv, hi, hr] at he
          | some r =>
            simp [hv, hi, hr] at he
            rw [ih bs r (by simpa using hl) hr]
            simp [hi, he]

theorem secShape_ats (st : St) :
    ∀ (rest : List (Int × Int)) (ss : List Ex), rest.length = ss.length → secShape st rest (ss.map .at) = some [] := by
  intro rest ss
  induction ss generalizing rest with
  | nil => intro hl; cases rest <;> simp_all [secShape]
  | cons e es ih =>
    intro hl
    cases rest with
    | nil => simp at hl
    | cons b bs => simp only [List.map_cons, secShape]; exact ih bs (by simpa using hl)

theorem positions_one (n : Nat) : positions [n] = (List.range n).map fun k => [k] := by
  simp [positions]

/-- the elements of the rewritten actual `x(s:hi, ss)` -/
theorem secElems_seq {st : St} {x : String} {l h : Int} {rest : List (Int × Int)} {s hiE : Ex} {ss : List Ex}
    {i : Int} {is : List Int}
    (hb : boundsOf st x = some ((l, h) :: rest))
    (hs : evalE st [] s = some (.int i)) (hss : evalIdx st [] ss = some is) (hlen : rest.length = ss.length)
    (hh : evalE st [] hiE = some (.int h)) :
    secElems st x (.rng (some s) (some hiE) none :: ss.map .at)
      = some ((List.range (h - i + 1).toNat).map fun (k : Nat) => (i + (k : Int)) :: is) := by
  simp only [secElems, hb, Option.bind_eq_bind, Option.bind_some, secShape, hs, hh, asInt]
  rw [secShape_ats st rest ss hlen]
  simp only [Option.bind_some, tripCount_one, Option.pure_def]
  simp only [show ((1 : Int) = 0) = False by simp, if_false, Option.bind_some]
  rw [positions_one, List.mapM_map]
  have : (fun k : Nat => evalSec st [] ((l, h) :: rest) (.rng (some s) (some hiE) none :: ss.map .at) [k])
      = fun k : Nat => some ((i + (k : Int)) :: is) := by
    funext k
    simp only [evalSec, hs, asInt, Option.bind_eq_bind, Option.bind_some]
    rw [evalSec_ats st [] rest ss is hlen hss]
    simp
  simp only [Function.comp_def]
  rw [this]
  clear this
  generalize (h - i + 1).toNat = n
  induction n with
  | zero => rfl
  | succ n ih => rw [List.range_succ, List.mapM_append, ih]; simp [List.map_append]

end LokiModel.C34
