import LokiModel.C34.Model
/-!
# Duplicate-argument removal: renaming the removed dummies to the kept one preserves evaluation

`renFullE m` is the COMPLETE renaming (every occurrence, also inside the subscripts of a renamed array reference); the real
`renE m` (Model.lean) differs from it exactly on the inputs of class `dedup-removed-name-left-behind`.
State relation `Merged m σ σ'`: σ is the callee's state after the original call (one cell per dummy, the dummies of a group hold
equal cells because they were copied from the same actual), σ' the state after the rewritten call (only the kept dummy);
reading `ren m y` in σ' gives what reading `y` gives in σ.
-/
namespace LokiModel.C34
open LokiModel.Fir
open LokiModel.Expr (Val)

mutual
def renFullE (m : List (String × String)) : Ex → Ex
  | .lit v => .lit v
  | .var y => .var (ren m y)
  | .idx y subs => .idx (ren m y) (renFullEs m subs)
  | .sec y dims => .sec (ren m y) (renFullDims m dims)
  | .neg a => .neg (renFullE m a)
  | .not a => .not (renFullE m a)
  | .bin o a b => .bin o (renFullE m a) (renFullE m b)
  | .call f args => .call f (renFullEs m args)
def renFullEs (m : List (String × String)) : List Ex → List Ex
  | [] => []
  | e :: es => renFullE m e :: renFullEs m es
def renFullDims (m : List (String × String)) : List Dim → List Dim
  | [] => []
  | .at e :: ds => .at (renFullE m e) :: renFullDims m ds
  | .rng lo hi st :: ds => .rng (renFullO m lo) (renFullO m hi) (renFullO m st) :: renFullDims m ds
def renFullO (m : List (String × String)) : Option Ex → Option Ex
  | none => none
  | some e => some (renFullE m e)
end

/-- σ' is σ with the removed dummies merged into the kept ones (no ASSOCIATE names in either) -/
structure Merged (m : List (String × String)) (σ σ' : St) : Prop where
  noAlias : σ.alias = []
  noAlias' : σ'.alias = []
  cell : ∀ y, lookupCell σ' (ren m y) = lookupCell σ y

theorem Merged.resolve_eq {m σ σ'} (h : Merged m σ σ') (y : String) (subs : List Int) :
    Fir.resolve σ y subs = some (y, subs) ∧ Fir.resolve σ' (ren m y) subs = some (ren m y, subs) := by
  simp [Fir.resolve, lookupAlias, h.noAlias, h.noAlias']

theorem Merged.readAt_eq {m σ σ'} (h : Merged m σ σ') (y : String) (subs : List Int) :
    Fir.readAt σ' (ren m y) subs = Fir.readAt σ y subs := by
  simp only [Fir.readAt, (h.resolve_eq y subs).1, (h.resolve_eq y subs).2, h.cell y, Option.bind_eq_bind, Option.bind_some]

theorem Merged.boundsOf_eq {m σ σ'} (h : Merged m σ σ') (y : String) :
    Fir.boundsOf σ' (ren m y) = Fir.boundsOf σ y := by
  simp [Fir.boundsOf, lookupAlias, h.noAlias, h.noAlias', h.cell y]

mutual
theorem evalE_renFull {m σ σ'} (h : Merged m σ σ') :
    ∀ (e : Ex) (pos : List Nat), evalE σ' pos (renFullE m e) = evalE σ pos e
  | .lit v, pos => by simp [renFullE, evalE]
  | .var y, pos => by simp only [renFullE, evalE, h.boundsOf_eq y, h.readAt_eq y]
  | .idx y subs, pos => by simp only [renFullE, evalE, h.readAt_eq y]; rw [evalIdx_renFull h subs pos]
  | .sec y dims, pos => by
      simp only [renFullE, evalE, h.boundsOf_eq y, h.readAt_eq y]
      cases Fir.boundsOf σ y with
      | none => rfl
      | some bs => simp only [Option.bind_eq_bind, Option.bind]; rw [evalSec_renFull h dims bs pos pos]
  | .neg a, pos => by simp only [renFullE, evalE]; rw [evalE_renFull h a pos]
  | .not a, pos => by simp only [renFullE, evalE]; rw [evalE_renFull h a pos]
  | .bin o a b, pos => by simp only [renFullE, evalE]; rw [evalE_renFull h a pos, evalE_renFull h b pos]
  | .call f args, pos => by simp only [renFullE, evalE]; rw [evalArgs_renFull h args pos]
theorem evalIdx_renFull {m σ σ'} (h : Merged m σ σ') :
    ∀ (es : List Ex) (pos : List Nat), evalIdx σ' pos (renFullEs m es) = evalIdx σ pos es
  | [], pos => by simp [renFullEs, evalIdx]
  | e :: es, pos => by simp only [renFullEs, evalIdx]; rw [evalE_renFull h e pos, evalIdx_renFull h es pos]
theorem evalArgs_renFull {m σ σ'} (h : Merged m σ σ') :
    ∀ (es : List Ex) (pos : List Nat), evalArgs σ' pos (renFullEs m es) = evalArgs σ pos es
  | [], pos => by simp [renFullEs, evalArgs]
  | e :: es, pos => by simp only [renFullEs, evalArgs]; rw [evalE_renFull h e pos, evalArgs_renFull h es pos]
theorem evalSec_renFull {m σ σ'} (h : Merged m σ σ') :
    ∀ (ds : List Dim) (bs : List (Int × Int)) (pos ks : List Nat),
      evalSec σ' pos bs (renFullDims m ds) ks = evalSec σ pos bs ds ks
  | [], bs, pos, ks => by cases bs <;> simp [renFullDims, evalSec]
  | .at e :: ds, bs, pos, ks => by
      cases bs with
      | nil => simp [renFullDims, evalSec]
      | cons b bs' => simp only [renFullDims, evalSec]; rw [evalE_renFull h e pos, evalSec_renFull h ds bs' pos ks]
  | .rng lo hi stp :: ds, bs, pos, ks => by
      cases bs with
      | nil => simp [renFullDims, evalSec]
      | cons b bs' =>
        cases ks with
        | nil => simp [renFullDims, evalSec]
        | cons k ks' =>
          have ihd := evalSec_renFull h ds bs' pos ks'
          cases lo with
          | none =>
            cases stp with
            | none => simp only [renFullDims, renFullO, evalSec, ihd]
            | some s => simp only [renFullDims, renFullO, evalSec, ihd, evalE_renFull h s pos]
          | some l =>
            cases stp with
            | none => simp only [renFullDims, renFullO, evalSec, ihd, evalE_renFull h l pos]
            | some s => simp only [renFullDims, renFullO, evalSec, ihd, evalE_renFull h l pos, evalE_renFull h s pos]
end

/-! ### the entry states of the two calls are `Merged` -/

/-- cells of the rewritten callee: drop the cells of the removed dummies -/
def mergeStore (m : List (String × String)) (store : List (String × Cell)) : List (String × Cell) :=
  store.filter fun c => !inMap m c.1

theorem ren_of_not_inMap {m : List (String × String)} {y : String} (hy : inMap m y = false) : ren m y = y := by
  unfold ren
  cases hf : m.find? (·.1 == y) with
  | none => rfl
  | some p =>
    have := List.find?_some hf
    have hmem := List.mem_of_find?_eq_some hf
    have : inMap m y = true := by
      unfold inMap; exact List.any_eq_true.mpr ⟨p, hmem, this⟩
    rw [hy] at this; cases this

theorem find_filter_of_keep {store : List (String × Cell)} {m : List (String × String)} {y : String}
    (hy : inMap m y = false) :
    (mergeStore m store).find? (·.1 == y) = store.find? (·.1 == y) := by
  induction store with
  | nil => rfl
  | cons c rest ih =>
    simp only [mergeStore, List.filter_cons]
    by_cases hc : inMap m c.1 = true
    · have hne : (c.1 == y) = false := by
        cases hcy : (c.1 == y) with
        | false => rfl
        | true =>
          have : c.1 = y := by simpa using hcy
          rw [this, hy] at hc; cases hc
      simp only [hc, Bool.not_true, Bool.false_eq_true, if_false, List.find?_cons, hne]
      exact ih
    · have hc' : inMap m c.1 = false := by simpa using hc
      simp only [hc', Bool.not_false, if_true, List.find?_cons]
      cases (c.1 == y) with
      | true => rfl
      | false => exact ih

/-- the state of the rewritten callee, obtained from the state of the original callee by dropping the removed dummies, is
`Merged` with it — provided every removed dummy holds the same cell as the dummy it is renamed to (they were copied in from
the same actual argument and, being read-only, stay equal) and the kept dummies are not themselves removed -/
theorem merged_of_equal_cells {m : List (String × String)} {σ : St}
    (hal : σ.alias = [])
    (hkept : ∀ y, inMap m y = true → inMap m (ren m y) = false)
    (heq : ∀ y, inMap m y = true → lookupCell σ (ren m y) = lookupCell σ y) :
    Merged m σ { σ with store := mergeStore m σ.store } := by
  refine ⟨hal, hal, ?_⟩
  intro y
  by_cases hy : inMap m y = true
  · have hk := hkept y hy
    have : lookupCell { σ with store := mergeStore m σ.store } (ren m y) = lookupCell σ (ren m y) := by
      simp only [lookupCell]; rw [find_filter_of_keep hk]
    rw [this, heq y hy]
  · have hy' : inMap m y = false := by simpa using hy
    rw [ren_of_not_inMap hy']
    simp only [lookupCell]; rw [find_filter_of_keep hy']

end LokiModel.C34
