import LokiModel.Fir.Sem
/-!
# C34 — call-signature rewrites on FIR programs: executable models of the real algorithms

* `seqProgram` — `SequenceAssociationTransformer.visit_CallStatement` (loki/transformations/sanitise/sequence_associations.py):
  every call whose callee is known; for every (dummy, actual) pair (`call.arg_map`, i.e. `zip`): an array ELEMENT actual
  (`Array` with dimensions, none of them a range) bound to an ARRAY dummy becomes the section
  `x(s₁:u₁, …, s_k:u_k, s_{k+1}, …)`, k = rank of the dummy (cut by `zip` to the number of subscripts), `u_j` the declared
  upper bound of `x` in the caller; all other actuals stay.
* `dedupProgram` — `remove_duplicate_args_from_calls` (loki/transformations/routine_signatures.py), applied to every unit in
  file order: per call (pre-order) group the callee's dummies by the actual they receive (`arg_map`, first-occurrence order,
  expression equality), drop repeated actuals from the call (`dict.fromkeys`); per callee (dict keyed by callee: the LAST call
  wins) delete all but the first dummy of every group from the argument list and the declarations and rename their
  occurrences in the BODY to the first one — exactly as `SubstituteExpressions(var_map)` does it: a matched array reference is
  replaced as a whole (its subscripts are NOT visited again), PRINT statements are opaque text, declarations are not renamed.

Covered input language: all of FIR (positional arguments only; FIR has no keyword arguments, no derived types).
Core Lean only.
-/
namespace LokiModel.C34
open LokiModel.Fir
open LokiModel.Expr (Val)

/-! ### structural equality of expressions (Loki compares the actual arguments as expressions) -/

mutual
def beqEx : Ex → Ex → Bool
  | .lit a, .lit b => decide (a = b)
  | .var x, .var y => x == y
  | .idx x a, .idx y b => x == y && beqExs a b
  | .sec x a, .sec y b => x == y && beqDims a b
  | .neg a, .neg b => beqEx a b
  | .not a, .not b => beqEx a b
  | .bin o a b, .bin p c d => decide (o = p) && beqEx a c && beqEx b d
  | .call f a, .call g b => f == g && beqExs a b
  | _, _ => false
def beqExs : List Ex → List Ex → Bool
  | [], [] => true
  | a :: as, b :: bs => beqEx a b && beqExs as bs
  | _, _ => false
def beqDims : List Dim → List Dim → Bool
  | [], [] => true
  | .at a :: as, .at b :: bs => beqEx a b && beqDims as bs
  | .rng a b c :: as, .rng d e f :: bs => beqOEx a d && beqOEx b e && beqOEx c f && beqDims as bs
  | _, _ => false
def beqOEx : Option Ex → Option Ex → Bool
  | none, none => true
  | some a, some b => beqEx a b
  | _, _ => false
end

/-! ### sequence association -/

/-- `zip(arg.shape[:n], arg.dimensions[:n])`: start subscript and declared upper bound per position -/
def seqZip : List (Ex × Ex) → List Ex → List Dim
  | (_, hi) :: ds, s :: ss => .rng (some s) (some hi) none :: seqZip ds ss
  | _, _ => []

/-- `new_dims` of the real code: the zipped ranges, then `arg.dimensions[len(dummy.shape):]` -/
def seqNewDims (k : Nat) (shape : List (Ex × Ex)) (subs : List Ex) : List Dim :=
  seqZip (shape.take k) (subs.take k) ++ (subs.drop k).map .at

/-- one actual argument against one dummy -/
def seqArg (caller callee : Fir.Unit) (dummy : String) (a : Ex) : Ex :=
  match a with
  | .idx x subs =>
      match findDecl caller x, findDecl callee dummy with
      | some dx, some dd =>
          if dx.dims.isEmpty || dd.dims.isEmpty || subs.isEmpty then a
          else .sec x (seqNewDims dd.dims.length dx.dims subs)
      | _, _ => a
  | _ => a

def seqArgs (caller callee : Fir.Unit) : List String → List Ex → List Ex
  | d :: ds, a :: as => seqArg caller callee d a :: seqArgs caller callee ds as
  | _, _ => []                          -- `call.arg_map` is a zip

def anyChanged (caller callee : Fir.Unit) : List String → List Ex → Bool
  | d :: ds, a :: as =>
      (match seqArg caller callee d a with | .sec _ _ => (match a with | .sec _ _ => false | _ => true) | _ => false)
        || anyChanged caller callee ds as
  | _, _ => false

def seqCall (p : Program) (caller : Fir.Unit) (g : String) (args : List Ex) : Stmt :=
  match findUnit p g with
  | none => .callSub g args                                  -- `if not call.procedure_type: return call`
  | some callee =>
      if anyChanged caller callee callee.args args then .callSub g (seqArgs caller callee callee.args args)
      else .callSub g args                                   -- `found_scalar` false: the call is returned unchanged

mutual
def seqStmts (p : Program) (u : Fir.Unit) : List Stmt → List Stmt
  | [] => []
  | s :: ss => seqStmt p u s :: seqStmts p u ss
def seqStmt (p : Program) (u : Fir.Unit) : Stmt → Stmt
  | .doLoop v lo hi st body => .doLoop v lo hi st (seqStmts p u body)
  | .while c body => .while c (seqStmts p u body)
  | .ifte c t e => .ifte c (seqStmts p u t) (seqStmts p u e)
  | .select e cs d => .select e (seqCases p u cs) (seqStmts p u d)
  | .assoc bs body => .assoc bs (seqStmts p u body)
  | .callSub g args => seqCall p u g args
  | s => s
def seqCases (p : Program) (u : Fir.Unit) : List (List Int × List Stmt) → List (List Int × List Stmt)
  | [] => []
  | (vs, b) :: cs => (vs, seqStmts p u b) :: seqCases p u cs
end

def seqProgram (p : Program) : Program :=
  { p with units := p.units.map fun u => { u with body := seqStmts p u u.body } }

/-- class `seq-multirank-dummy-offset` at one rewritten actual: the dummy has rank ≥ 2 and one of the first rank−1 start
subscripts is not (syntactically) the declared lower bound: the section is then not the storage sequence starting at the element -/
def KnownSeqRank (k : Nat) (shape : List (Ex × Ex)) (subs : List Ex) : Bool :=
  decide (k ≥ 2) && !(((shape.zip subs).take (k - 1)).all fun (d, s) => beqEx d.1 s)

/-- class `seq-section-shorter-than-dummy` (decided on the run-time data of the call): the dummy has `n` elements, the
section passed instead of the element has `len` -/
def KnownSeqShort (n len : Nat) : Bool := decide (len < n)

/-! ### duplicate arguments -/

/-- `arg_map.setdefault(call_arg, []).append(routine_arg)` over `zip(dummies, actuals)`: groups in first-occurrence order -/
def addGroup (gs : List (Ex × List String)) (a : Ex) (d : String) : List (Ex × List String) :=
  match gs with
  | [] => [(a, [d])]
  | (b, ds) :: rest => if beqEx b a then (b, ds ++ [d]) :: rest else (b, ds) :: addGroup rest a d

def groupArgs : List String → List Ex → List (Ex × List String) → List (Ex × List String)
  | d :: ds, a :: as, gs => groupArgs ds as (addGroup gs a d)
  | _, _, gs => gs

/-- `dict.fromkeys(call.arguments)` -/
def uniqArgs : List Ex → List Ex → List Ex
  | [], _ => []
  | a :: as, seen => if seen.any (beqEx · a) then uniqArgs as seen else a :: uniqArgs as (seen ++ [a])

/-- rename map of a callee: redundant dummy ↦ first dummy of its group -/
def renameMap (gs : List (Ex × List String)) : List (String × String) :=
  gs.flatMap fun g => match g.2 with
    | first :: rest => rest.map fun r => (r, first)
    | [] => []

def ren (m : List (String × String)) (x : String) : String :=
  match m.find? (·.1 == x) with
  | some (_, y) => y
  | none => x

def inMap (m : List (String × String)) (x : String) : Bool := m.any (·.1 == x)

mutual
/-- `SubstituteExpressions(var_map)`: a variable occurrence whose name is in the map is replaced as a whole (subscripts kept
as they are); everything else is rebuilt from its renamed children -/
def renE (m : List (String × String)) : Ex → Ex
  | .lit v => .lit v
  | .var y => .var (ren m y)
  | .idx y subs => if inMap m y then .idx (ren m y) subs else .idx y (renEs m subs)
  | .sec y dims => if inMap m y then .sec (ren m y) dims else .sec y (renDims m dims)
  | .neg a => .neg (renE m a)
  | .not a => .not (renE m a)
  | .bin o a b => .bin o (renE m a) (renE m b)
  | .call f args => .call f (renEs m args)
def renEs (m : List (String × String)) : List Ex → List Ex
  | [] => []
  | e :: es => renE m e :: renEs m es
def renDims (m : List (String × String)) : List Dim → List Dim
  | [] => []
  | .at e :: ds => .at (renE m e) :: renDims m ds
  | .rng lo hi st :: ds => .rng (renO m lo) (renO m hi) (renO m st) :: renDims m ds
def renO (m : List (String × String)) : Option Ex → Option Ex
  | none => none
  | some e => some (renE m e)
end

mutual
def renStmts (m : List (String × String)) : List Stmt → List Stmt
  | [] => []
  | s :: ss => renStmt m s :: renStmts m ss
def renStmt (m : List (String × String)) : Stmt → Stmt
  | .assign l r => .assign (renE m l) (renE m r)
  | .doLoop v lo hi st body => .doLoop (ren m v) (renE m lo) (renE m hi) (renO m st) (renStmts m body)
  | .while c body => .while (renE m c) (renStmts m body)
  | .ifte c t e => .ifte (renE m c) (renStmts m t) (renStmts m e)
  | .select e cs d => .select (renE m e) (renCases m cs) (renStmts m d)
  | .assoc bs body => .assoc (renBinds m bs) (renStmts m body)
  | .callSub g args => .callSub g (renEs m args)
  | .print args => .print args                        -- I/O statements are text for Loki: not renamed
  | s => s
def renCases (m : List (String × String)) : List (List Int × List Stmt) → List (List Int × List Stmt)
  | [] => []
  | (vs, b) :: cs => (vs, renStmts m b) :: renCases m cs
def renBinds (m : List (String × String)) : List (String × Ex) → List (String × Ex)
  | [] => []
  | (n, e) :: bs => (n, renE m e) :: renBinds m bs
end

/-- `modify_callee` -/
def dedupCallee (u : Fir.Unit) (gs : List (Ex × List String)) : Fir.Unit :=
  let m := renameMap gs
  if m.isEmpty then u else
  { u with
    args := u.args.filter fun a => !inMap m a,
    decls := u.decls.filter fun d => !inMap m d.name,
    body := renStmts m u.body }

/- all calls of a statement list in `FindNodes` order -/
mutual
def callsOf : List Stmt → List (String × List Ex)
  | [] => []
  | s :: ss => callsOfS s ++ callsOf ss
def callsOfS : Stmt → List (String × List Ex)
  | .doLoop _ _ _ _ body => callsOf body
  | .while _ body => callsOf body
  | .ifte _ t e => callsOf t ++ callsOf e
  | .select _ cs d => callsOfC cs ++ callsOf d
  | .assoc _ body => callsOf body
  | .callSub g args => [(g, args)]
  | _ => []
def callsOfC : List (List Int × List Stmt) → List (String × List Ex)
  | [] => []
  | (_, b) :: cs => callsOf b ++ callsOfC cs
end

/-- `call_arg_map[call.routine] = …` (a dict: the position of the first insertion, the value of the last) -/
def putMap (cm : List (String × List (Ex × List String))) (g : String) (gs : List (Ex × List String)) :
    List (String × List (Ex × List String)) :=
  match cm with
  | [] => [(g, gs)]
  | (h, v) :: rest => if h == g then (g, gs) :: rest else (h, v) :: putMap rest g gs

/- the call statements of the caller are updated in place: repeated actuals dropped (only for known callees) -/
mutual
def dedupStmts (p : Program) : List Stmt → List Stmt
  | [] => []
  | s :: ss => dedupStmt p s :: dedupStmts p ss
def dedupStmt (p : Program) : Stmt → Stmt
  | .doLoop v lo hi st body => .doLoop v lo hi st (dedupStmts p body)
  | .while c body => .while c (dedupStmts p body)
  | .ifte c t e => .ifte c (dedupStmts p t) (dedupStmts p e)
  | .select e cs d => .select e (dedupCases p cs) (dedupStmts p d)
  | .assoc bs body => .assoc bs (dedupStmts p body)
  | .callSub g args => match findUnit p g with
      | some _ => .callSub g (uniqArgs args [])
      | none => .callSub g args
  | s => s
def dedupCases (p : Program) : List (List Int × List Stmt) → List (List Int × List Stmt)
  | [] => []
  | (vs, b) :: cs => (vs, dedupStmts p b) :: dedupCases p cs
end

def replaceUnit (us : List Fir.Unit) (u : Fir.Unit) : List Fir.Unit :=
  us.map fun v => if v.name == u.name then u else v

/-- `remove_duplicate_args_from_calls(routine)` for the unit called `name` of the current program -/
def dedupUnit (p : Program) (name : String) : Program :=
  match findUnit p name with
  | none => p
  | some u =>
      let calls := (callsOf u.body).filter fun c => (findUnit p c.1).isSome
      let cm := calls.foldl (fun cm c =>
        match findUnit p c.1 with
        | some g => putMap cm c.1 (groupArgs g.args c.2 [])
        | none => cm) []
      let u' : Fir.Unit := { u with body := dedupStmts p u.body }
      let us1 := replaceUnit p.units u'
      let us2 := cm.foldl (fun us (g, gs) =>
        match us.find? (·.name == g) with
        | some gu => replaceUnit us (dedupCallee gu gs)
        | none => us) us1
      { p with units := us2 }

def dedupProgram (p : Program) : Program :=
  (p.units.map (·.name)).foldl dedupUnit p

/-! ### decidable classes of the duplicate-argument removal -/

mutual
def exNames : Ex → List String
  | .lit _ => []
  | .var y => [y]
  | .idx y subs => y :: exsNames subs
  | .sec y dims => y :: dimsNames dims
  | .neg a => exNames a
  | .not a => exNames a
  | .bin _ a b => exNames a ++ exNames b
  | .call _ args => exsNames args
def exsNames : List Ex → List String
  | [] => []
  | e :: es => exNames e ++ exsNames es
def dimsNames : List Dim → List String
  | [] => []
  | .at e :: ds => exNames e ++ dimsNames ds
  | .rng lo hi st :: ds => oNames lo ++ oNames hi ++ oNames st ++ dimsNames ds
def oNames : Option Ex → List String
  | none => []
  | some e => exNames e
end

mutual
def stmtsNames : List Stmt → List String
  | [] => []
  | s :: ss => stmtNames s ++ stmtsNames ss
def stmtNames : Stmt → List String
  | .assign l r => exNames l ++ exNames r
  | .doLoop v lo hi st body => v :: exNames lo ++ exNames hi ++ oNames st ++ stmtsNames body
  | .while c body => exNames c ++ stmtsNames body
  | .ifte c t e => exNames c ++ stmtsNames t ++ stmtsNames e
  | .select e cs d => exNames e ++ casesNames cs ++ stmtsNames d
  | .assoc bs body => bindsNames bs ++ stmtsNames body
  | .callSub _ args => exsNames args
  | .print args => exsNames args
  | _ => []
def casesNames : List (List Int × List Stmt) → List String
  | [] => []
  | (_, b) :: cs => stmtsNames b ++ casesNames cs
def bindsNames : List (String × Ex) → List String
  | [] => []
  | (_, e) :: bs => exNames e ++ bindsNames bs
end

/- names bound by ASSOCIATE somewhere in the body (they are not declared) -/
mutual
def assocNames : List Stmt → List String
  | [] => []
  | s :: ss => assocNamesS s ++ assocNames ss
def assocNamesS : Stmt → List String
  | .doLoop _ _ _ _ body => assocNames body
  | .while _ body => assocNames body
  | .ifte _ t e => assocNames t ++ assocNames e
  | .select _ cs d => assocNamesC cs ++ assocNames d
  | .assoc bs body => bs.map (·.1) ++ assocNames body
  | _ => []
def assocNamesC : List (List Int × List Stmt) → List String
  | [] => []
  | (_, b) :: cs => assocNames b ++ assocNamesC cs
end

/-- class `dedup-removed-name-left-behind`: a unit of the rewritten program mentions a name it does not declare (a removed
dummy that survived in a declaration bound, in the subscripts of a renamed array reference or in a PRINT statement) -/
def undeclaredUse (u : Fir.Unit) : Bool :=
  let declared := u.decls.map (·.name) ++ assocNames u.body
  let used := stmtsNames u.body ++ u.decls.flatMap fun d => d.dims.flatMap fun b => exNames b.1 ++ exNames b.2
  used.any fun x => !declared.contains x

def KnownDedupLeft (p' : Program) : Bool := p'.units.any undeclaredUse

/- names assigned somewhere in a body (left-hand sides, DO variables, actuals of calls bound to non-IN dummies) -/
mutual
def writtenIn (p : Program) : List Stmt → List String
  | [] => []
  | s :: ss => writtenInS p s ++ writtenIn p ss
def writtenInS (p : Program) : Stmt → List String
  | .assign l _ => (match l with | .var x => [x] | .idx x _ => [x] | .sec x _ => [x] | _ => [])
  | .doLoop v _ _ _ body => v :: writtenIn p body
  | .while _ body => writtenIn p body
  | .ifte _ t e => writtenIn p t ++ writtenIn p e
  | .select _ cs d => writtenInC p cs ++ writtenIn p d
  | .assoc _ body => writtenIn p body
  | .callSub g args => match findUnit p g with
      | some gu => (gu.args.zip args).flatMap fun (d, a) =>
          match findDecl gu d with
          | some dd => if dd.intent == .in_ then [] else (match a with | .var x => [x] | .idx x _ => [x] | .sec x _ => [x] | _ => [])
          | none => []
      | none => exsNames args
  | _ => []
def writtenInC (p : Program) : List (List Int × List Stmt) → List String
  | [] => []
  | (_, b) :: cs => writtenIn p b ++ writtenInC p cs
end

/-- class `dedup-kept-dummy-intent-in`: a group whose first (kept) dummy is INTENT(IN) while a removed dummy of the group is
written in the callee: the merged dummy keeps the declaration of the first one -/
def KnownDedupIntent (p : Program) (g : Fir.Unit) (gs : List (Ex × List String)) : Bool :=
  gs.any fun grp => match grp.2 with
    | first :: rest =>
        (match findDecl g first with | some d => d.intent == .in_ | none => false) &&
        rest.any fun r => (writtenIn p g.body).contains r
    | [] => false

/-- precondition class `dedup-aliased-dummy-written` (the original call is then not standard conforming unless the other
members of the group are never referenced): some dummy of a group of ≥ 2 is written in the callee -/
def DedupAliasWritten (p : Program) (g : Fir.Unit) (gs : List (Ex × List String)) : Bool :=
  gs.any fun grp => grp.2.length ≥ 2 && grp.2.any fun r => (writtenIn p g.body).contains r

end LokiModel.C34

namespace LokiModel.C34
open LokiModel.Fir

/-- class `dedup-second-caller-misaligned`: some callee receives duplicated actuals in calls from two different units -/
def KnownDedupMulti (p : Program) : Bool :=
  p.units.any fun g =>
    decide ((p.units.filter fun u =>
      (callsOf u.body).any fun c => c.1 == g.name && (groupArgs g.args c.2 []).any fun grp => decide (grp.2.length ≥ 2)).length ≥ 2)

/-! ### classes of the oracle-only kinds (generated Fortran call trees; the parameters are those of the generating spec) -/

/-- `shape-lower-bound-imported`: declared lower bounds of the passed dimensions -/
def KnownShapeLb (lbs : List Int) : Bool := lbs.any (· != 1)
/-- `shape-symbol-captured` -/
def KnownShapeCapture (calleeDeclaresShapeSymbol : Bool) : Bool := calleeDeclaresShapeSymbol
/-- `dtype-member-lower-bound-lost`: lower bounds of the expanded member arrays -/
def KnownDtLb (lbs : List Int) : Bool := lbs.any (· != 1)
/-- `dtype-expanded-name-clash`: names declared in the kernel vs expanded names -/
def KnownDtClash (declared expanded : List String) : Bool := expanded.any declared.contains
/-- `tbound-pass-not-first`: position of the passed-object dummy -/
def KnownTbPass (passPos : Nat) : Bool := passPos != 0
/-- `tbound-nopass` -/
def KnownTbNopass (nopass : Bool) : Bool := nopass
/-- `seq-keyword-arguments-duplicated`: number of keyword arguments of a call that is rewritten -/
def KnownSeqKw (nKeyword : Nat) : Bool := nKeyword != 0

end LokiModel.C34

namespace LokiModel.C34
open LokiModel.Fir

def beqBounds : List (Ex × Ex) → List (Ex × Ex) → Bool
  | [], [] => true
  | (a, b) :: xs, (c, d) :: ys => beqEx a c && beqEx b d && beqBounds xs ys
  | _, _ => false

/-- class `dedup-differing-dummy-declarations`: the dummies of a group are declared with different types or bounds (the merged
dummy keeps the declaration of the first one, the body keeps the subscripts written for the others) -/
def KnownDedupShape (g : Fir.Unit) (gs : List (Ex × List String)) : Bool :=
  gs.any fun grp => match grp.2 with
    | first :: rest => rest.any fun r =>
        match findDecl g first, findDecl g r with
        | some a, some b => !(decide (a.ty = b.ty) && beqBounds a.dims b.dims)
        | _, _ => false
    | [] => false

end LokiModel.C34
