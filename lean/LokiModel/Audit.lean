import Lean
/-!
# Audit command (infrastructure)

`#audit_module LokiModel.Props.C10` prints, for every theorem declared in that module,
one line `AUDIT <name> : <axioms, comma separated>`; definitions are listed as `AUDITDEF`.
The check driver compares the axiom sets against {propext, Classical.choice, Quot.sound}.
-/
open Lean Elab Command

elab "#audit_module " id:ident : command => do
  let env ← getEnv
  let modName := id.getId
  let some modIdx := env.getModuleIdx? modName
    | throwError "unknown module {modName}"
  let names := env.constants.fold (init := #[]) fun acc n ci =>
    if env.getModuleIdxFor? n == some modIdx && !n.isInternal then acc.push (n, ci) else acc
  let names := names.qsort (fun a b => a.1.toString < b.1.toString)
  for (n, ci) in names do
    match ci with
    | .thmInfo _ =>
      let axs ← Lean.collectAxioms n
      let axs := axs.qsort (fun a b => a.toString < b.toString)
      logInfo m!"AUDIT {n} : {", ".intercalate (axs.toList.map toString)}"
    | .defnInfo _ =>
      let axs ← Lean.collectAxioms n
      let axs := axs.qsort (fun a b => a.toString < b.toString)
      logInfo m!"AUDITDEF {n} : {", ".intercalate (axs.toList.map toString)}"
    | .axiomInfo _ => logInfo m!"AUDITAXIOM {n}"
    | _ => pure ()
