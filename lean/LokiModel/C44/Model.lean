/-!
# C44 model: the parallel JIT library build protocol
(`loki/jit_build/lib.py: Lib.build/_build_objs`, `builder.py: Builder.get_dependency_graph`,
`obj.py: Obj.__new__/__init__/dependencies/build`, `workqueue.py: wait_and_check, ParallelQueue`)

Two layers.

**A. How the code derives dependency edges.**  A source file has a *stem* (the `Obj` cache key:
`Path(source_path).stem.lower()`), defines one module and `USE`s a list of module names.
`Obj.dependencies` is the list of used names (regex `_re_use`), and `get_dependency_graph` turns every
used name `u` into the node `Obj(name=u)`: the object cached under *that name*.  That node has a source
file iff some file's **stem** equals `u` (`hasSrc`); otherwise `source_path is None`, the node is never
built and never waited for.  `trueDeps` is the ground truth the property talks about (the files that
*define* the used modules).  The two coincide exactly when module name = file stem
(`KnownStemMismatch` is the failing family).

**B. The wait/submit protocol** over an arbitrary dependency function `deps`, a source predicate `src`,
the order `walk` in which the main thread visits the nodes that have a source (the code computes
`reversed(topological_sort(dep_graph))`; here a *parameter* with the checked contract `isTopo`) and `w`
workers.  Events: `submit o` (main thread: `Obj.build` puts the compile job on the queue, after
`wait_and_check(dep.q_task)` for every `dep in obj.obj_dependencies` — a dependency whose `q_task` is
`None`, i.e. that was never submitted, is not waited for), `start o` / `fin o` (a worker picks any queued
job while fewer than `w` are running / finishes it), `link` (after the final barrier).  `step` is the
partial transition function; every interleaving of enabled events is a run.  The serial path of
`Lib.build` (`workers <= 1`: `execute(args)` in the main process) produces the runs
`submit o, start o, fin o, …` which are runs of the model with `w = 1`.

Names are natural numbers (the harness numbers the lower-cased names).  Core Lean only.
-/
namespace LokiModel.C44

/-! ## A. dependency derivation -/

structure FileRec where
  stem : Nat
  mod : Nat
  uses : List Nat
deriving Repr, DecidableEq

/-- the `Obj` cached under name `n` that has a source file (`Obj(name=n)` hits the cache entry
created from `Obj(source_path=…)` iff a file's stem is `n`) -/
def lookup (fs : List FileRec) (n : Nat) : Option FileRec := fs.find? (fun f => f.stem == n)

/-- `Obj(name=n).source_path is not None` -/
def hasSrc (fs : List FileRec) (n : Nat) : Bool := (lookup fs n).isSome

/-- `Obj.dependencies` → `obj_dependencies`: one node per used *name* -/
def codeDeps (fs : List FileRec) (n : Nat) : List Nat :=
  match lookup fs n with
  | some f => f.uses
  | none => []

/-- stems of the files (other than `self`) that define module `u` -/
def providers (fs : List FileRec) (u self : Nat) : List Nat :=
  (fs.filter (fun g => g.mod == u && g.stem != self)).map (·.stem)

/-- ground truth: the objects providing the modules object `n` uses -/
def trueDeps (fs : List FileRec) (n : Nat) : List Nat :=
  match lookup fs n with
  | some f => f.uses.flatMap (fun u => providers fs u n)
  | none => []

/-- the failing family: some file uses a module that another file of the set defines under a stem
different from the module name -/
def KnownStemMismatch (fs : List FileRec) : Bool :=
  fs.any (fun f => f.uses.any (fun u => fs.any (fun g => g.mod == u && g.stem != f.stem && g.stem != u)))

/-- node set of `get_dependency_graph(roots)`: closure of the roots under `codeDeps` (fuel = rounds) -/
def closure (fs : List FileRec) : Nat → List Nat → List Nat
  | 0, nodes => nodes
  | fuel + 1, nodes =>
    let new := (nodes.flatMap (codeDeps fs)).filter (fun d => !nodes.contains d)
    closure fs fuel (nodes ++ new.eraseDups)

/-! ## B. protocol -/

structure Cfg where
  deps : Nat → List Nat
  src : Nat → Bool
  /-- order in which the main thread visits the nodes that have a source -/
  walk : List Nat
  w : Nat

inductive Ev where
  | submit (o : Nat)
  | start (o : Nat)
  | fin (o : Nat)
  | link
deriving Repr, DecidableEq

structure State where
  todo : List Nat
  queued : List Nat
  running : List Nat
  done : List Nat
  linked : Bool
  /-- events so far, newest first -/
  trace : List Ev
deriving Repr, DecidableEq

def init (c : Cfg) : State :=
  { todo := c.walk, queued := [], running := [], done := [], linked := false, trace := [] }

/-- `o.q_task is not None` -/
def submitted (s : State) (o : Nat) : Bool :=
  s.queued.contains o || s.running.contains o || s.done.contains o

/-- `for dep in obj.obj_dependencies: wait_and_check(dep.q_task)` returns: every dependency that has
a task has finished -/
def waitOK (c : Cfg) (s : State) (o : Nat) : Bool :=
  (c.deps o).all (fun d => !(submitted s d) || s.done.contains d)

def step (c : Cfg) (s : State) : Ev → Option State
  | .submit o =>
    match s.todo with
    | [] => none
    | o' :: rest =>
      if o' == o && waitOK c s o then
        some { s with todo := rest, queued := s.queued ++ [o], trace := .submit o :: s.trace }
      else none
  | .start o =>
    if s.queued.contains o && decide (s.running.length < c.w) then
      some { s with queued := s.queued.erase o, running := o :: s.running, trace := .start o :: s.trace }
    else none
  | .fin o =>
    if s.running.contains o then
      some { s with running := s.running.erase o, done := o :: s.done, trace := .fin o :: s.trace }
    else none
  | .link =>
    if s.todo.isEmpty && s.queued.isEmpty && s.running.isEmpty && !s.linked then
      some { s with linked := true, trace := .link :: s.trace }
    else none

/-- run a chronological event list -/
def replay (c : Cfg) (s : State) : List Ev → Option State
  | [] => some s
  | e :: es =>
    match step c s e with
    | some s' => replay c s' es
    | none => none

/-- index of the first event the model does not allow (for diagnostics) -/
def firstReject (c : Cfg) (s : State) : List Ev → Nat → Option Nat
  | [], _ => none
  | e :: es, k =>
    match step c s e with
    | some s' => firstReject c s' es (k + 1)
    | none => some k

/-- reachable states: all interleavings -/
inductive Reach (c : Cfg) : State → Prop
  | init : Reach c (init c)
  | step {s s' : State} {e : Ev} : Reach c s → step c s e = some s' → Reach c s'

/-- contract on the order (checked on every observed run by the driver): no repetition, and every
dependency that has a source comes earlier -/
def topoGo (c : Cfg) : List Nat → List Nat → Bool
  | _, [] => true
  | seen, o :: rest =>
    !seen.contains o && (c.deps o).all (fun d => !c.src d || seen.contains d) && topoGo c (o :: seen) rest

def isTopo (c : Cfg) : Bool := topoGo c [] c.walk

/-! projections of a trace -/

def subs : List Ev → List Nat
  | [] => []
  | .submit o :: t => o :: subs t
  | .start _ :: t => subs t
  | .fin _ :: t => subs t
  | .link :: t => subs t

def starts : List Ev → List Nat
  | [] => []
  | .start o :: t => o :: starts t
  | .submit _ :: t => starts t
  | .fin _ :: t => starts t
  | .link :: t => starts t

def fins : List Ev → List Nat
  | [] => []
  | .fin o :: t => o :: fins t
  | .submit _ :: t => fins t
  | .start _ :: t => fins t
  | .link :: t => fins t

/-- "every `d ∈ deps o` has finished before `o` starts", decided on a chronological event list
(`finished` = objects whose `fin` has been seen) -/
def precOK (deps : Nat → List Nat) : List Nat → List Ev → Bool
  | _, [] => true
  | finished, .start o :: t => (deps o).all finished.contains && precOK deps finished t
  | finished, .fin o :: t => precOK deps (o :: finished) t
  | finished, .submit _ :: t => precOK deps finished t
  | finished, .link :: t => precOK deps finished t

/-- the configuration the code derives from a file set -/
def cfgOf (fs : List FileRec) (walk : List Nat) (w : Nat) : Cfg :=
  { deps := codeDeps fs, src := hasSrc fs, walk := walk, w := w }

/-- incremental build (`force=False`): the objects in `fresh` are up to date (`Obj.build` returns before a job
is queued: `t_time > s_time`), so like nodes without a source they get **no task** and nobody waits for them.
The protocol layer is unchanged: "has a task" is the predicate `src` of the configuration. -/
def cfgOfInc (fs : List FileRec) (fresh walk : List Nat) (w : Nat) : Cfg :=
  { deps := codeDeps fs, src := fun d => hasSrc fs d && !fresh.contains d, walk := walk, w := w }

/-- dependencies that get a task in an incremental build -/
def srcDepsInc (fs : List FileRec) (fresh : List Nat) (n : Nat) : List Nat :=
  (codeDeps fs n).filter (fun d => hasSrc fs d && !fresh.contains d)

/-- ground-truth dependencies that are rebuilt -/
def trueDepsInc (fs : List FileRec) (fresh : List Nat) (n : Nat) : List Nat :=
  (trueDeps fs n).filter (fun d => !fresh.contains d)

/-- dependencies that have a source (the edges the build can honour) -/
def srcDeps (fs : List FileRec) (n : Nat) : List Nat := (codeDeps fs n).filter (hasSrc fs)

end LokiModel.C44
