import LokiModel.C44.Model
/-!
# C44 lemmas: the inductive invariant of the wait/submit protocol
-/
namespace LokiModel.C44

/-! ### trace projections -/

theorem mem_subs {tr : List Ev} {o : Nat} : o ∈ subs tr ↔ Ev.submit o ∈ tr := by
  induction tr with
  | nil => simp [subs]
  | cons e t ih => cases e <;> simp [subs, ih]

theorem mem_starts {tr : List Ev} {o : Nat} : o ∈ starts tr ↔ Ev.start o ∈ tr := by
  induction tr with
  | nil => simp [starts]
  | cons e t ih => cases e <;> simp [starts, ih]

theorem mem_fins {tr : List Ev} {o : Nat} : o ∈ fins tr ↔ Ev.fin o ∈ tr := by
  induction tr with
  | nil => simp [fins]
  | cons e t ih => cases e <;> simp [fins, ih]

/-! ### the order contract -/

/-- Prop form of the contract `isTopo` -/
def IsTopo (c : Cfg) : Prop :=
  c.walk.Nodup ∧ ∀ pre o post, c.walk = pre ++ o :: post → ∀ d ∈ c.deps o, c.src d = true → d ∈ pre

theorem topoGo_spec (c : Cfg) : ∀ (l seen : List Nat), topoGo c seen l = true →
    (l.Nodup ∧ (∀ x ∈ l, x ∉ seen)) ∧
    ∀ pre o post, l = pre ++ o :: post → ∀ d ∈ c.deps o, c.src d = true → d ∈ seen ∨ d ∈ pre := by
  intro l
  induction l with
  | nil =>
    intro seen _
    refine ⟨⟨List.nodup_nil, by simp⟩, ?_⟩
    intro pre o post h
    simp at h
  | cons a rest ih =>
    intro seen h
    simp only [topoGo, Bool.and_eq_true, Bool.not_eq_true', List.all_eq_true, Bool.or_eq_true] at h
    obtain ⟨⟨ha, hd⟩, hr⟩ := h
    obtain ⟨⟨hnd, hns⟩, hpre⟩ := ih (a :: seen) hr
    have ha' : a ∉ seen := by
      intro hm
      have : seen.contains a = true := List.contains_iff_mem.mpr hm
      rw [this] at ha; exact Bool.noConfusion ha
    refine ⟨⟨?_, ?_⟩, ?_⟩
    · refine List.nodup_cons.mpr ⟨?_, hnd⟩
      intro hm
      exact hns a hm (List.mem_cons_self)
    · intro x hx
      rcases List.mem_cons.mp hx with rfl | hx
      · exact ha'
      · intro hm
        exact hns x hx (List.mem_cons_of_mem _ hm)
    · intro pre o post heq d hdm hsrc
      cases pre with
      | nil =>
        simp only [List.nil_append, List.cons.injEq] at heq
        obtain ⟨rfl, _⟩ := heq
        left
        rcases hd d hdm with h1 | h1
        · rw [hsrc] at h1; exact Bool.noConfusion h1
        · exact List.contains_iff_mem.mp h1
      | cons p pre' =>
        simp only [List.cons_append, List.cons.injEq] at heq
        obtain ⟨rfl, heq⟩ := heq
        rcases hpre pre' o post heq d hdm hsrc with h1 | h1
        · rcases List.mem_cons.mp h1 with rfl | h1
          · right; exact List.mem_cons_self
          · left; exact h1
        · right; exact List.mem_cons_of_mem _ h1

theorem isTopo_spec (c : Cfg) (h : isTopo c = true) : IsTopo c := by
  obtain ⟨⟨hnd, _⟩, hpre⟩ := topoGo_spec c c.walk [] h
  refine ⟨hnd, ?_⟩
  intro pre o post heq d hd hs
  rcases hpre pre o post heq d hd hs with h1 | h1
  · simp at h1
  · exact h1

/-! ### the invariant -/

structure Inv (c : Cfg) (s : State) : Prop where
  walk : c.walk = (subs s.trace).reverse ++ s.todo
  psub : (subs s.trace).Perm (s.queued ++ s.running ++ s.done)
  pstart : (starts s.trace).Perm (s.running ++ s.done)
  pfin : (fins s.trace).Perm s.done
  depsDone : ∀ o, o ∈ s.queued ++ s.running ++ s.done → ∀ d ∈ c.deps o, c.src d = true → d ∈ s.done
  prec : ∀ o d post pre, s.trace = post ++ Ev.start o :: pre → d ∈ c.deps o → c.src d = true → Ev.fin d ∈ pre
  lnk : s.linked = true → s.todo = [] ∧ s.queued = [] ∧ s.running = []

theorem inv_init (c : Cfg) : Inv c (init c) := by
  refine ⟨by simp [init, subs], by simp [init, subs], by simp [init, starts], by simp [init, fins], ?_, ?_, ?_⟩
  · intro o h; simp [init] at h
  · intro o d post pre h; simp [init] at h
  · intro h; simp [init] at h

theorem submitted_iff (s : State) (o : Nat) :
    submitted s o = true ↔ o ∈ s.queued ++ s.running ++ s.done := by
  simp [submitted, or_assoc]

/-- extending the precedence fact by one event that is not a `start` -/
theorem prec_cons {c : Cfg} {tr : List Ev} {e : Ev}
    (hp : ∀ o d post pre, tr = post ++ Ev.start o :: pre → d ∈ c.deps o → c.src d = true → Ev.fin d ∈ pre)
    (hnew : ∀ o, e = Ev.start o → ∀ d ∈ c.deps o, c.src d = true → Ev.fin d ∈ tr) :
    ∀ o d post pre, e :: tr = post ++ Ev.start o :: pre → d ∈ c.deps o → c.src d = true → Ev.fin d ∈ pre := by
  intro o d post pre heq hd hs
  cases post with
  | nil =>
    simp only [List.nil_append, List.cons.injEq] at heq
    obtain ⟨he, rfl⟩ := heq
    exact hnew o he d hd hs
  | cons p post' =>
    simp only [List.cons_append, List.cons.injEq] at heq
    exact hp o d post' pre heq.2 hd hs

theorem inv_step (c : Cfg) (ht : IsTopo c) {s s' : State} {e : Ev} (hi : Inv c s)
    (h : step c s e = some s') : Inv c s' := by
  cases e with
  | submit o =>
    simp only [step] at h
    split at h
    · cases h
    · rename_i o' rest htodo
      split at h
      · rename_i hc
        simp only [Bool.and_eq_true, beq_iff_eq] at hc
        obtain ⟨rfl, hw⟩ := hc
        simp only [Option.some.injEq] at h
        subst h
        have hwalk : c.walk = (subs s.trace).reverse ++ o' :: rest := by rw [hi.walk, htodo]
        refine ⟨?_, ?_, ?_, ?_, ?_, ?_, ?_⟩
        · simp [subs, hwalk]
        · simp only [subs]
          have h1 : (o' :: subs s.trace).Perm (o' :: (s.queued ++ s.running ++ s.done)) := hi.psub.cons o'
          refine h1.trans ?_
          simp only [List.append_assoc]
          exact (List.perm_middle (l₁ := s.queued) (a := o') (l₂ := s.running ++ s.done)).symm.trans (by simp)
        · simpa [starts] using hi.pstart
        · simpa [fins] using hi.pfin
        · intro x hx d hd hs
          simp only [List.append_assoc, List.mem_append, List.mem_cons, List.not_mem_nil, or_false] at hx
          have hold : x ∈ s.queued ++ s.running ++ s.done → d ∈ s.done := fun hm => hi.depsDone x hm d hd hs
          rcases hx with hx | rfl | hx | hx
          · exact hold (by simp [hx])
          · -- the new object: topological order + wait
            have hpre := ht.2 _ _ _ hwalk d hd hs
            have hsub : d ∈ s.queued ++ s.running ++ s.done := by
              have : d ∈ subs s.trace := by simpa using hpre
              exact hi.psub.mem_iff.mp this
            simp only [waitOK, List.all_eq_true, Bool.or_eq_true, Bool.not_eq_true'] at hw
            rcases hw d hd with h1 | h1
            · have := (submitted_iff s d).mpr hsub
              rw [this] at h1; exact Bool.noConfusion h1
            · exact List.contains_iff_mem.mp h1
          · exact hold (by simp [hx])
          · exact hold (by simp [hx])
        · exact prec_cons hi.prec (by intro o he; exact Ev.noConfusion he)
        · intro hl
          have := hi.lnk hl
          rw [htodo] at this
          cases this.1
      · cases h
  | start o =>
    simp only [step] at h
    split at h
    · rename_i hc
      simp only [Bool.and_eq_true, decide_eq_true_eq] at hc
      obtain ⟨hq, _⟩ := hc
      have hq' : o ∈ s.queued := List.contains_iff_mem.mp hq
      simp only [Option.some.injEq] at h
      subst h
      have hperm : (s.queued.erase o ++ (o :: s.running) ++ s.done).Perm (s.queued ++ s.running ++ s.done) := by
        have h1 : (o :: s.queued.erase o).Perm s.queued := (List.perm_cons_erase hq').symm
        have h2 : (s.queued.erase o ++ o :: s.running).Perm (o :: s.queued.erase o ++ s.running) := by
          simpa using (List.perm_middle (l₁ := s.queued.erase o) (a := o) (l₂ := s.running))
        exact (h2.trans (h1.append_right _)).append_right _
      refine ⟨?_, ?_, ?_, ?_, ?_, ?_, ?_⟩
      · simpa [subs] using hi.walk
      · simpa [subs] using hi.psub.trans hperm.symm
      · simpa [starts] using hi.pstart.cons o
      · simpa [fins] using hi.pfin
      · intro x hx d hd hs
        exact hi.depsDone x (hperm.mem_iff.mp hx) d hd hs
      · refine prec_cons hi.prec ?_
        intro o2 he d hd hs
        cases he
        have : d ∈ s.done := hi.depsDone o (by simp [hq']) d hd hs
        exact mem_fins.mp (hi.pfin.mem_iff.mpr this)
      · intro hl
        have := hi.lnk hl
        rw [this.2.1] at hq'
        simp at hq'
    · cases h
  | fin o =>
    simp only [step] at h
    split at h
    · rename_i hr
      have hr' : o ∈ s.running := List.contains_iff_mem.mp hr
      simp only [Option.some.injEq] at h
      subst h
      have h1 : (o :: s.running.erase o).Perm s.running := (List.perm_cons_erase hr').symm
      have hrd : (s.running.erase o ++ o :: s.done).Perm (s.running ++ s.done) := by
        have h2 : (s.running.erase o ++ o :: s.done).Perm (o :: s.running.erase o ++ s.done) := by
          simpa using (List.perm_middle (l₁ := s.running.erase o) (a := o) (l₂ := s.done))
        exact h2.trans (h1.append_right _)
      have hperm : (s.queued ++ s.running.erase o ++ (o :: s.done)).Perm (s.queued ++ s.running ++ s.done) := by
        simp only [List.append_assoc]
        exact hrd.append_left _
      refine ⟨?_, ?_, ?_, ?_, ?_, ?_, ?_⟩
      · simpa [subs] using hi.walk
      · simpa [subs] using hi.psub.trans hperm.symm
      · simpa [starts] using hi.pstart.trans hrd.symm
      · simpa [fins] using hi.pfin.cons o
      · intro x hx d hd hs
        exact List.mem_cons_of_mem _ (hi.depsDone x (hperm.mem_iff.mp hx) d hd hs)
      · exact prec_cons hi.prec (by intro o he; exact Ev.noConfusion he)
      · intro hl
        have := hi.lnk hl
        rw [this.2.2] at hr'
        simp at hr'
    · cases h
  | link =>
    simp only [step] at h
    split at h
    · rename_i hc
      simp only [Bool.and_eq_true, List.isEmpty_iff, Bool.not_eq_true'] at hc
      obtain ⟨⟨⟨h1, h2⟩, h3⟩, _⟩ := hc
      simp only [Option.some.injEq] at h
      subst h
      refine ⟨?_, ?_, ?_, ?_, ?_, ?_, ?_⟩
      · simpa [subs] using hi.walk
      · simpa [subs] using hi.psub
      · simpa [starts] using hi.pstart
      · simpa [fins] using hi.pfin
      · exact hi.depsDone
      · exact prec_cons hi.prec (by intro o he; exact Ev.noConfusion he)
      · intro _; exact ⟨h1, h2, h3⟩
    · cases h

theorem inv_reach (c : Cfg) (ht : IsTopo c) {s : State} (hr : Reach c s) : Inv c s := by
  induction hr with
  | init => exact inv_init c
  | step _ hs ih => exact inv_step c ht ih hs

theorem replay_reach (c : Cfg) : ∀ (es : List Ev) (s s' : State), Reach c s → replay c s es = some s' → Reach c s' := by
  intro es
  induction es with
  | nil => intro s s' hr h; simp only [replay, Option.some.injEq] at h; subst h; exact hr
  | cons e es ih =>
    intro s s' hr h
    simp only [replay] at h
    split at h
    · rename_i s1 hs1
      exact ih s1 s' (Reach.step hr hs1) h
    · cases h

end LokiModel.C44
