import LokiModel.C40.Abstract
/-! # C40 — idempotence lemmas for `singleDecl` and `elimImports` -/
namespace LokiModel.C40

/-! ## single-variable declarations -/

theorem flatMapD_append (f : DeclStmt → List DeclStmt) : ∀ a b, flatMapD f (a ++ b) = flatMapD f a ++ flatMapD f b
  | [], b => by simp [flatMapD]
  | d :: a, b => by simp [flatMapD, flatMapD_append f a b]

theorem flatMapD_fix (f : DeclStmt → List DeclStmt) : ∀ ds, (∀ d ∈ ds, f d = [d]) → flatMapD f ds = ds
  | [], _ => by simp [flatMapD]
  | d :: ds, h => by
      simp only [flatMapD]
      rw [h d (by simp), flatMapD_fix f ds (fun x hx => h x (by simp [hx]))]
      rfl

/-- composition: `flatMapD g (flatMapD f ds) = flatMapD f ds` when `g` fixes every output of `f` -/
theorem flatMapD_idem (f g : DeclStmt → List DeclStmt) (h : ∀ d, ∀ d' ∈ f d, g d' = [d']) :
    ∀ ds, flatMapD g (flatMapD f ds) = flatMapD f ds
  | [] => by simp [flatMapD]
  | d :: ds => by
      simp only [flatMapD]
      rw [flatMapD_append, flatMapD_fix g (f d) (h d), flatMapD_idem f g h ds]

theorem mem_flatMapD (f : DeclStmt → List DeclStmt) : ∀ ds x, x ∈ flatMapD f ds → ∃ d ∈ ds, x ∈ f d
  | [], x, hx => by simp [flatMapD] at hx
  | d :: ds, x, hx => by
      simp only [flatMapD, List.mem_append] at hx
      cases hx with
      | inl h => exact ⟨d, by simp, h⟩
      | inr h =>
          obtain ⟨d', hd', hx'⟩ := mem_flatMapD f ds x h
          exact ⟨d', by simp [hd'], hx'⟩

theorem filter_selected_retained (vars : Option (List String)) (l : List Sym) :
    (l.filter (retained vars)).filter (selected vars) = [] := by
  rw [List.filter_filter]
  apply List.filter_eq_nil_iff.mpr
  intro s _
  cases vars <;> simp [selected, retained]

/-- outputs of `splitDecl` are fixed by `splitDecl` -/
theorem splitDecl_fix (vars : Option (List String)) (d : DeclStmt) : ∀ d' ∈ splitDecl vars d, splitDecl vars d' = [d'] := by
  intro d' hd'
  unfold splitDecl at hd'
  split at hd'
  · rename_i hlen
    simp only at hd'
    split at hd'
    · rename_i hu
      simp only [List.mem_singleton] at hd'
      subst hd'
      simp [splitDecl, hlen, hu]
    · simp only [List.mem_append, List.mem_map] at hd'
      cases hd' with
      | inl h =>
          split at h
          · simp at h
          · simp only [List.mem_singleton] at h
            subst h
            unfold splitDecl
            simp only [filter_selected_retained]
            simp
      | inr h =>
          obtain ⟨s, _, hs⟩ := h
          subst hs
          simp [splitDecl]
  · rename_i hlen
    simp only [List.mem_singleton] at hd'
    subst hd'
    simp [splitDecl, hlen]

/-- all symbols of the declaration have the same shape key -/
def Homog (d : DeclStmt) : Prop := ∀ s ∈ d.syms, ∀ t ∈ d.syms, s.shape = t.shape

def GroupsOK (acc : List (Option (List String) × List Sym)) : Prop :=
  ∀ kg ∈ acc, ∀ s ∈ kg.2, s.shape = kg.1

theorem insertGroup_ok (s : Sym) : ∀ acc, GroupsOK acc → GroupsOK (insertGroup s acc)
  | [], _ => by
      intro kg hkg t ht
      simp only [insertGroup, List.mem_singleton] at hkg
      subst hkg
      simp only [List.mem_singleton] at ht
      subst ht; rfl
  | (k, g) :: rest, h => by
      unfold insertGroup
      split
      · rename_i hk
        intro kg hkg t ht
        simp only [List.mem_cons] at hkg
        cases hkg with
        | inl h1 =>
            subst h1
            simp only [List.mem_append, List.mem_singleton] at ht
            cases ht with
            | inl h2 => exact h (k, g) (by simp) t h2
            | inr h2 => subst h2; exact hk.symm
        | inr h1 => exact h kg (by simp [h1]) t ht
      · intro kg hkg t ht
        simp only [List.mem_cons] at hkg
        cases hkg with
        | inl h1 => subst h1; exact h (k, g) (by simp) t ht
        | inr h1 =>
            exact insertGroup_ok s rest (fun x hx => h x (by simp [hx])) kg h1 t ht

theorem groupFrom_ok : ∀ ss acc, GroupsOK acc → GroupsOK (groupFrom acc ss)
  | [], acc, h => by simpa [groupFrom] using h
  | s :: ss, acc, h => by
      simp only [groupFrom]
      exact groupFrom_ok ss _ (insertGroup_ok s acc h)

/-- grouping a list whose symbols all have key `k`, starting from the single group `(k, g0)` -/
theorem groupFrom_homog (k : Option (List String)) : ∀ ss g0, (∀ s ∈ ss, s.shape = k) →
    groupFrom [(k, g0)] ss = [(k, g0 ++ ss)]
  | [], g0, _ => by simp [groupFrom]
  | s :: ss, g0, h => by
      have hs : s.shape = k := h s (by simp)
      simp only [groupFrom, insertGroup, hs, if_true]
      rw [groupFrom_homog k ss (g0 ++ [s]) (fun x hx => h x (by simp [hx]))]
      simp

theorem groupDecl_fix_of_homog (d : DeclStmt) (h : Homog d) : groupDecl d = [d] := by
  unfold groupDecl
  split
  · rename_i hlen
    match hs : d.syms with
    | [] => simp [hs] at hlen
    | s :: ss =>
        have hall : ∀ x ∈ ss, x.shape = s.shape := by
          intro x hx
          exact h x (by simp [hs, hx]) s (by simp [hs])
        simp only [groupFrom, insertGroup]
        rw [groupFrom_homog s.shape ss [s] hall]
        simp only [List.map_cons, List.map_nil, List.singleton_append]
        cases d
        simp_all
  · rfl

theorem groupDecl_homog (d : DeclStmt) : ∀ d' ∈ groupDecl d, Homog d' ∨ d' = d ∧ ¬ d.syms.length > 1 := by
  intro d' hd'
  unfold groupDecl at hd'
  split at hd'
  · left
    simp only [List.mem_map] at hd'
    obtain ⟨kg, hkg, hd⟩ := hd'
    subst hd
    have hok := groupFrom_ok d.syms [] (by intro kg h; simp at h) kg hkg
    intro s hs t ht
    rw [hok s hs, hok t ht]
  · rename_i hlen
    right
    simp only [List.mem_singleton] at hd'
    exact ⟨hd', hlen⟩

theorem homog_of_short (d : DeclStmt) (h : ¬ d.syms.length > 1) : Homog d := by
  intro s hs t ht
  match hd : d.syms with
  | [] => simp [hd] at hs
  | [x] => simp [hd] at hs ht; rw [hs, ht]
  | _ :: _ :: _ => simp [hd] at h

theorem groupDecl_out_homog (d : DeclStmt) : ∀ d' ∈ groupDecl d, Homog d' := by
  intro d' hd'
  cases groupDecl_homog d d' hd' with
  | inl h => exact h
  | inr h => rw [h.1]; exact homog_of_short d h.2

theorem groupDecl_fix (d : DeclStmt) : ∀ d' ∈ groupDecl d, groupDecl d' = [d'] :=
  fun d' hd' => groupDecl_fix_of_homog d' (groupDecl_out_homog d d' hd')

/-- splitting keeps declarations homogeneous -/
theorem splitDecl_homog (vars : Option (List String)) (d : DeclStmt) (h : Homog d) : ∀ d' ∈ splitDecl vars d, Homog d' := by
  intro d' hd'
  unfold splitDecl at hd'
  split at hd'
  · simp only at hd'
    split at hd'
    · simp only [List.mem_singleton] at hd'; subst hd'; exact h
    · simp only [List.mem_append, List.mem_map] at hd'
      cases hd' with
      | inl h1 =>
          split at h1
          · simp at h1
          · simp only [List.mem_singleton] at h1
            subst h1
            intro s hs t ht
            simp only [List.mem_filter] at hs ht
            exact h s hs.1 t ht.1
      | inr h1 =>
          obtain ⟨s, _, hs⟩ := h1
          subst hs
          intro a ha b hb
          simp only [List.mem_singleton] at ha hb
          rw [ha, hb]
  · simp only [List.mem_singleton] at hd'; subst hd'; exact h

/-! ## import sanitising -/

theorem elimOne_all (used : List String) (i i' : Imp) (h : elimOne used i = some i') :
    (i'.syms.getD []).all (isUsed used) = true := by
  unfold elimOne at h
  split at h
  · rename_i hs
    cases h
    simp [hs]
  · rename_i hs
    cases h
    simp [hs]
  · rename_i s ss0 hs
    simp only at h
    generalize s :: ss0 = ss at h hs
    split at h
    · cases h
    · split at h
      · cases h
        simp [List.all_filter]
      · rename_i h1 h2
        cases h
        have hlen : (ss.filter (isUsed used)).length = ss.length := by
          have := List.length_filter_le (isUsed used) ss
          omega
        have := List.length_filter_eq_length_iff.mp hlen
        simpa [hs, List.all_eq_true] using this

theorem importedSyms_elimAll (used : List String) : ∀ imps, (importedSyms (elimAll used imps)).all (isUsed used) = true
  | [] => by simp [elimAll, importedSyms]
  | i :: is => by
      have ih := importedSyms_elimAll used is
      simp only [elimAll]
      cases h : elimOne used i with
      | none => exact ih
      | some i' =>
          simp only [importedSyms, List.all_append, ih, Bool.and_true]
          exact elimOne_all used i i' h

theorem elimImports_all (used : List String) (imps : List Imp) :
    (importedSyms (elimImports used imps)).all (isUsed used) = true := by
  unfold elimImports
  split
  · rename_i h; exact h
  · exact importedSyms_elimAll used imps

theorem elimImports_idem (used : List String) (imps : List Imp) :
    elimImports used (elimImports used imps) = elimImports used imps := by
  have h := elimImports_all used imps
  generalize elimImports used imps = r at h
  simp [elimImports, h]

theorem cleanMembers_idem : ∀ ms, cleanMembers (cleanMembers ms) = cleanMembers ms
  | [] => by simp [cleanMembers]
  | (u, is) :: ms => by simp [cleanMembers, elimImports_idem, cleanMembers_idem ms]

theorem membersUsed_clean : ∀ ms, membersUsed (cleanMembers ms) = membersUsed ms
  | [] => by simp [cleanMembers, membersUsed]
  | (u, is) :: ms => by simp [cleanMembers, membersUsed, membersUsed_clean ms]

end LokiModel.C40
