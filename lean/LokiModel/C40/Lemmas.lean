import LokiModel.C40.Model
/-! # C40 — idempotence lemmas for `lowerProgram` and `deadProgram` (structural inductions) -/
namespace LokiModel.C40
open LokiModel.Fir

/-! ## lower-casing -/

theorem char_toLower_idem (c : Char) : c.toLower.toLower = c.toLower := by
  unfold Char.toLower
  split
  · rename_i h
    split
    · rename_i h2
      exfalso
      simp only [Char.reduceVal, ge_iff_le] at h h2
      have := h.1; have := h.2; have := h2.1; have := h2.2
      simp only [UInt32.le_iff_toNat_le, UInt32.toNat_add] at *
      simp at *
      omega
    · rfl
  · rename_i h
    simp

theorem lowerName_idem (s : String) : lowerName (lowerName s) = lowerName s := by
  unfold lowerName String.toLower
  rw [String.map_map]
  congr 1
  funext c
  exact char_toLower_idem c

mutual
theorem lowerEx_idem : ∀ e, lowerEx (lowerEx e) = lowerEx e
  | .lit v => by simp [lowerEx]
  | .var x => by simp [lowerEx, lowerName_idem]
  | .idx x es => by simp [lowerEx, lowerName_idem, lowerExs_idem es]
  | .sec x ds => by simp [lowerEx, lowerName_idem, lowerDims_idem ds]
  | .neg a => by simp [lowerEx, lowerEx_idem a]
  | .not a => by simp [lowerEx, lowerEx_idem a]
  | .bin o a b => by simp [lowerEx, lowerEx_idem a, lowerEx_idem b]
  | .call f es => by simp [lowerEx, lowerName_idem, lowerExs_idem es]
theorem lowerExs_idem : ∀ es, lowerExs (lowerExs es) = lowerExs es
  | [] => by simp [lowerExs]
  | e :: es => by simp [lowerExs, lowerEx_idem e, lowerExs_idem es]
theorem lowerDims_idem : ∀ ds, lowerDims (lowerDims ds) = lowerDims ds
  | [] => by simp [lowerDims]
  | .at e :: ds => by simp [lowerDims, lowerEx_idem e, lowerDims_idem ds]
  | .rng lo hi st :: ds => by
      simp [lowerDims, lowerOEx_idem lo, lowerOEx_idem hi, lowerOEx_idem st, lowerDims_idem ds]
theorem lowerOEx_idem : ∀ o, lowerOEx (lowerOEx o) = lowerOEx o
  | none => by simp [lowerOEx]
  | some e => by simp [lowerOEx, lowerEx_idem e]
end

theorem lowerBounds_idem : ∀ bs, lowerBounds (lowerBounds bs) = lowerBounds bs
  | [] => by simp [lowerBounds]
  | (lo, hi) :: bs => by simp [lowerBounds, lowerEx_idem, lowerBounds_idem bs]

theorem lowerDecl_idem (d : Decl) : lowerDecl (lowerDecl d) = lowerDecl d := by
  simp [lowerDecl, lowerName_idem, lowerBounds_idem, lowerOEx_idem]

theorem lowerBinds_idem : ∀ bs, lowerBinds (lowerBinds bs) = lowerBinds bs
  | [] => by simp [lowerBinds]
  | (x, e) :: bs => by simp [lowerBinds, lowerName_idem, lowerEx_idem, lowerBinds_idem bs]

mutual
theorem lowerStmt_idem : ∀ s, lowerStmt (lowerStmt s) = lowerStmt s
  | .assign l r => by simp [lowerStmt, lowerEx_idem]
  | .doLoop v lo hi st body => by
      simp [lowerStmt, lowerName_idem, lowerEx_idem, lowerOEx_idem, lowerStmts_idem body]
  | .while c body => by simp [lowerStmt, lowerEx_idem, lowerStmts_idem body]
  | .ifte c t e => by simp [lowerStmt, lowerEx_idem, lowerStmts_idem t, lowerStmts_idem e]
  | .select e cs d => by simp [lowerStmt, lowerEx_idem, lowerCases_idem cs, lowerStmts_idem d]
  | .assoc bs body => by simp [lowerStmt, lowerBinds_idem, lowerStmts_idem body]
  | .callSub f args => by simp [lowerStmt, lowerExs_idem]
  | .print args => by simp [lowerStmt]
  | .exit => by simp [lowerStmt]
  | .cycle => by simp [lowerStmt]
  | .nop k t => by simp [lowerStmt]
theorem lowerStmts_idem : ∀ ss, lowerStmts (lowerStmts ss) = lowerStmts ss
  | [] => by simp [lowerStmts]
  | s :: ss => by simp [lowerStmts, lowerStmt_idem s, lowerStmts_idem ss]
theorem lowerCases_idem : ∀ cs, lowerCases (lowerCases cs) = lowerCases cs
  | [] => by simp [lowerCases]
  | (vs, b) :: cs => by simp [lowerCases, lowerStmts_idem b, lowerCases_idem cs]
end

theorem lowerDecls_idem : ∀ ds, lowerDecls (lowerDecls ds) = lowerDecls ds
  | [] => by simp [lowerDecls]
  | d :: ds => by simp [lowerDecls, lowerDecl_idem, lowerDecls_idem ds]

theorem lowerNames_idem : ∀ xs, lowerNames (lowerNames xs) = lowerNames xs
  | [] => by simp [lowerNames]
  | x :: xs => by simp [lowerNames, lowerName_idem, lowerNames_idem xs]

theorem lowerUnit_idem (u : Fir.Unit) : lowerUnit (lowerUnit u) = lowerUnit u := by
  simp [lowerUnit, lowerDecls_idem, lowerStmts_idem, lowerNames_idem]

theorem lowerUnits_idem : ∀ us, lowerUnits (lowerUnits us) = lowerUnits us
  | [] => by simp [lowerUnits]
  | u :: us => by simp [lowerUnits, lowerUnit_idem, lowerUnits_idem us]

/-! ## dead-code removal -/

theorem deadS_append : ∀ a b, deadS (a ++ b) = deadS a ++ deadS b
  | [], b => by simp [deadS]
  | s :: a, b => by simp [deadS, deadS_append a b]

theorem crashS_append : ∀ a b, crashS (a ++ b) = (crashS a || crashS b)
  | [], b => by simp [crashS]
  | s :: a, b => by simp [crashS, crashS_append a b, Bool.or_assoc]

theorem deadS_singleton (s : Stmt) : deadS [s] = deadStmt s := by simp [deadS]

theorem findCase_fixed (n : Int) : ∀ cs b, deadCases cs = cs → findCase n cs = some b → deadS b = b
  | [], _, _, h => by simp [findCase] at h
  | (vs, b0) :: cs, b, hfix, h => by
      simp only [deadCases, List.cons.injEq, Prod.mk.injEq, true_and] at hfix
      simp only [findCase] at h
      split at h
      · cases h; exact hfix.1
      · exact findCase_fixed n cs b hfix.2 h

theorem findCase_nocrash (n : Int) : ∀ cs b, crashCases cs = false → findCase n cs = some b → crashS b = false
  | [], _, _, h => by simp [findCase] at h
  | (vs, b0) :: cs, b, hc, h => by
      simp only [crashCases, Bool.or_eq_false_iff] at hc
      simp only [findCase] at h
      split at h
      · cases h; exact hc.1
      · exact findCase_nocrash n cs b hc.2 h

mutual
theorem deadStmt_idem : ∀ s, deadS (deadStmt s) = deadStmt s
  | .ifte c t e => by
      simp only [deadStmt]
      split
      · exact deadS_idem t
      · split
        · exact deadS_idem e
        · rename_i h1 h2
          simp [deadS, deadStmt, h1, h2, deadS_idem t, deadS_idem e]
  | .select e cs d => by
      simp only [deadStmt]
      split
      · rename_i n hn
        split
        · rename_i b hb
          exact findCase_fixed n _ b (deadCases_idem cs) hb
        · rename_i hb
          simp [deadS, deadStmt, hn, deadCases_idem cs, hb, deadS_idem d]
      · rename_i hn
        simp [deadS, deadStmt, hn, deadCases_idem cs, deadS_idem d]
  | .doLoop v lo hi st body => by simp [deadS, deadStmt, deadS_idem body]
  | .while c body => by simp [deadS, deadStmt, deadS_idem body]
  | .assoc bs body => by simp [deadS, deadStmt, deadS_idem body]
  | .assign l r => by simp [deadS, deadStmt]
  | .callSub f args => by simp [deadS, deadStmt]
  | .print args => by simp [deadS, deadStmt]
  | .exit => by simp [deadS, deadStmt]
  | .cycle => by simp [deadS, deadStmt]
  | .nop k t => by simp [deadS, deadStmt]
theorem deadS_idem : ∀ ss, deadS (deadS ss) = deadS ss
  | [] => by simp [deadS]
  | s :: ss => by
      simp only [deadS]
      rw [deadS_append, deadStmt_idem s, deadS_idem ss]
theorem deadCases_idem : ∀ cs, deadCases (deadCases cs) = deadCases cs
  | [] => by simp [deadCases]
  | (vs, b) :: cs => by simp [deadCases, deadS_idem b, deadCases_idem cs]
end

theorem elseifCrash_self (e : List Stmt) : elseifCrash e e = false := by
  unfold elseifCrash
  match e with
  | [] => simp [isSingleIf]
  | [.ifte _ _ _] => simp [isSingleIf, startsWithIf]
  | [.assign _ _] => simp [isSingleIf]
  | [.doLoop _ _ _ _ _] => simp [isSingleIf]
  | [.while _ _] => simp [isSingleIf]
  | [.select _ _ _] => simp [isSingleIf]
  | [.assoc _ _] => simp [isSingleIf]
  | [.callSub _ _] => simp [isSingleIf]
  | [.print _] => simp [isSingleIf]
  | [.exit] => simp [isSingleIf]
  | [.cycle] => simp [isSingleIf]
  | [.nop _ _] => simp [isSingleIf]
  | _ :: _ :: _ => simp [isSingleIf]

mutual
theorem crash_deadStmt : ∀ s, crashS (deadStmt s) = false
  | .ifte c t e => by
      simp only [deadStmt]
      split
      · exact crash_deadS t
      · split
        · exact crash_deadS e
        · rename_i h1 h2
          simp [crashS, crashStmt, crash_deadS t, crash_deadS e, deadS_idem e, elseifCrash_self]
  | .select e cs d => by
      simp only [deadStmt]
      split
      · rename_i n hn
        split
        · rename_i b hb
          exact findCase_nocrash n _ b (crash_deadCases cs) hb
        · simp [crashS, crashStmt, crash_deadCases cs, crash_deadS d]
      · simp [crashS, crashStmt, crash_deadCases cs, crash_deadS d]
  | .doLoop v lo hi st body => by simp [crashS, crashStmt, deadStmt, crash_deadS body]
  | .while c body => by simp [crashS, crashStmt, deadStmt, crash_deadS body]
  | .assoc bs body => by simp [crashS, crashStmt, deadStmt, crash_deadS body]
  | .assign l r => by simp [crashS, crashStmt, deadStmt]
  | .callSub f args => by simp [crashS, crashStmt, deadStmt]
  | .print args => by simp [crashS, crashStmt, deadStmt]
  | .exit => by simp [crashS, crashStmt, deadStmt]
  | .cycle => by simp [crashS, crashStmt, deadStmt]
  | .nop k t => by simp [crashS, crashStmt, deadStmt]
theorem crash_deadS : ∀ ss, crashS (deadS ss) = false
  | [] => by simp [deadS, crashS]
  | s :: ss => by
      simp only [deadS]
      rw [crashS_append, crash_deadStmt s, crash_deadS ss]; rfl
theorem crash_deadCases : ∀ cs, crashCases (deadCases cs) = false
  | [] => by simp [deadCases, crashCases]
  | (vs, b) :: cs => by simp [deadCases, crashCases, crash_deadS b, crash_deadCases cs]
end

theorem deadUnits_idem : ∀ us, deadUnits (deadUnits us) = deadUnits us
  | [] => by simp [deadUnits]
  | u :: us => by simp [deadUnits, deadUnit, deadS_idem, deadUnits_idem us]

theorem crash_deadUnits : ∀ us, crashUnits (deadUnits us) = false
  | [] => by simp [deadUnits, crashUnits]
  | u :: us => by simp [deadUnits, crashUnits, deadUnit, crash_deadS, crash_deadUnits us]

end LokiModel.C40
