import LokiModel.Fir.Syntax
/-!
# C40 — models of the normalising transformations that can be stated on FIR programs

* `lowerProgram`  — `convert_to_lower_case` (loki/transformations/utilities.py): every variable symbol (scalars, arrays,
  loop variables, ASSOCIATE names and selectors, declared names (the printed dummy-argument list follows the declarations), names inside declared bounds and PARAMETER values, actual
  arguments) and every inline-call name is replaced by its lower-case form.  NOT touched by the real code, and therefore not
  by the model: the routine's name, the names of called subroutines, and the items of PRINT statements (`PrintStmt.values` is not traversed by expression visitors).
* `deadProgram`   — `do_remove_dead_code(routine, use_simplify=False)` (loki/transformations/remove_code.py,
  `RemoveDeadCodeTransformer`): bottom-up; an IF whose condition *prints as* `True`/`False` (the literal — or a variable
  that happens to be called `true`/`false`, because the test is the string comparison `condition == 'True'`) is replaced by the
  chosen (already pruned) branch; a SELECT CASE whose selector is an integer literal is replaced by the first case body
  containing that value (no match: the construct stays, the default is not chosen); everything else is rebuilt around its
  pruned children.  `deadCrash` says when the real code raises instead of returning (the `has_elseif` bookkeeping of
  `visit_Conditional`).  Covered class for the correspondence (`DeadCovered`): SELECT selectors are integer literals
  (any other selector is sent through `simplify`, which this model does not follow).

Core Lean only.
-/
namespace LokiModel.C40
open LokiModel.Fir
open LokiModel.Expr (Val)

/-! ## lower-casing -/

def lowerName (s : String) : String := s.toLower

mutual
def lowerEx : Ex → Ex
  | .lit v => .lit v
  | .var x => .var (lowerName x)
  | .idx x es => .idx (lowerName x) (lowerExs es)
  | .sec x ds => .sec (lowerName x) (lowerDims ds)
  | .neg a => .neg (lowerEx a)
  | .not a => .not (lowerEx a)
  | .bin o a b => .bin o (lowerEx a) (lowerEx b)
  | .call f es => .call (lowerName f) (lowerExs es)
def lowerExs : List Ex → List Ex
  | [] => []
  | e :: es => lowerEx e :: lowerExs es
def lowerDims : List Dim → List Dim
  | [] => []
  | .at e :: ds => .at (lowerEx e) :: lowerDims ds
  | .rng lo hi st :: ds => .rng (lowerOEx lo) (lowerOEx hi) (lowerOEx st) :: lowerDims ds
def lowerOEx : Option Ex → Option Ex
  | none => none
  | some e => some (lowerEx e)
end

def lowerBounds : List (Ex × Ex) → List (Ex × Ex)
  | [] => []
  | (lo, hi) :: bs => (lowerEx lo, lowerEx hi) :: lowerBounds bs

def lowerDecl (d : Decl) : Decl :=
  { name := lowerName d.name, ty := d.ty, dims := lowerBounds d.dims, intent := d.intent, param := lowerOEx d.param }

def lowerBinds : List (String × Ex) → List (String × Ex)
  | [] => []
  | (x, e) :: bs => (lowerName x, lowerEx e) :: lowerBinds bs

mutual
def lowerStmt : Stmt → Stmt
  | .assign l r => .assign (lowerEx l) (lowerEx r)
  | .doLoop v lo hi st body => .doLoop (lowerName v) (lowerEx lo) (lowerEx hi) (lowerOEx st) (lowerStmts body)
  | .while c body => .while (lowerEx c) (lowerStmts body)
  | .ifte c t e => .ifte (lowerEx c) (lowerStmts t) (lowerStmts e)
  | .select e cs d => .select (lowerEx e) (lowerCases cs) (lowerStmts d)
  | .assoc bs body => .assoc (lowerBinds bs) (lowerStmts body)
  | .callSub f args => .callSub f (lowerExs args)
  | .print args => .print args
  | .exit => .exit
  | .cycle => .cycle
  | .nop k t => .nop k t
def lowerStmts : List Stmt → List Stmt
  | [] => []
  | s :: ss => lowerStmt s :: lowerStmts ss
def lowerCases : List (List Int × List Stmt) → List (List Int × List Stmt)
  | [] => []
  | (vs, b) :: cs => (vs, lowerStmts b) :: lowerCases cs
end

def lowerDecls : List Decl → List Decl
  | [] => []
  | d :: ds => lowerDecl d :: lowerDecls ds

def lowerNames : List String → List String
  | [] => []
  | x :: xs => lowerName x :: lowerNames xs

def lowerUnit (u : Fir.Unit) : Fir.Unit :=
  { name := u.name, args := lowerNames u.args, decls := lowerDecls u.decls, body := lowerStmts u.body }

def lowerUnits : List Fir.Unit → List Fir.Unit
  | [] => []
  | u :: us => lowerUnit u :: lowerUnits us

def lowerProgram (p : Program) : Program := { units := lowerUnits p.units, main := p.main }

/-! ## dead-code removal (`use_simplify=False`) -/

/-- `condition == 'True'`: `StrCompareMixin` compares the printed form case-insensitively, so a logical variable named `true`
is taken for the constant -/
def isTrueC : Ex → Bool
  | .lit (.bool true) => true
  | .var x => x.toLower == "true"
  | _ => false

def isFalseC : Ex → Bool
  | .lit (.bool false) => true
  | .var x => x.toLower == "false"
  | _ => false

/-- selector that is an integer constant in the shapes the frontend produces -/
def selLit : Ex → Option Int
  | .lit (.int n) => some n
  | .neg (.lit (.int n)) => some (-n)
  | _ => none

/-- first case (in source order) one of whose values equals `n` -/
def findCase (n : Int) : List (List Int × List Stmt) → Option (List Stmt)
  | [] => none
  | (vs, b) :: cs => if vs.contains n then some b else findCase n cs

mutual
def deadStmt : Stmt → List Stmt
  | .ifte c t e =>
      if isTrueC c then deadS t else if isFalseC c then deadS e else [.ifte c (deadS t) (deadS e)]
  | .select e cs d =>
      match selLit e with
      | some n =>
          match findCase n (deadCases cs) with
          | some b => b
          | none => [.select e (deadCases cs) (deadS d)]
      | none => [.select e (deadCases cs) (deadS d)]
  | .doLoop v lo hi st body => [.doLoop v lo hi st (deadS body)]
  | .while c body => [.while c (deadS body)]
  | .assoc bs body => [.assoc bs (deadS body)]
  | .assign l r => [.assign l r]
  | .callSub f args => [.callSub f args]
  | .print args => [.print args]
  | .exit => [.exit]
  | .cycle => [.cycle]
  | .nop k t => [.nop k t]
def deadS : List Stmt → List Stmt
  | [] => []
  | s :: ss => deadStmt s ++ deadS ss
def deadCases : List (List Int × List Stmt) → List (List Int × List Stmt)
  | [] => []
  | (vs, b) :: cs => (vs, deadS b) :: deadCases cs
end

/-- the ELSE part is a single IF: that is how an `ELSE IF` chain (`has_elseif`) looks in FIR -/
def isSingleIf : List Stmt → Bool
  | [.ifte _ _ _] => true
  | _ => false

def startsWithIf : List Stmt → Bool
  | .ifte _ _ _ :: _ => true
  | _ => false

/-- `has_elseif = bool(o.has_elseif and else_body and isinstance(else_body[0], Conditional))` is handed to the constructor:
a pruned ELSE part that starts with an IF but has more statements violates the constructor's assertion
(`len(self.else_body) == 1`).  (Until /repo commit 9f8cf55 an empty pruned ELSE part raised as well: the value was `()`.) -/
def elseifCrash (e e' : List Stmt) : Bool :=
  isSingleIf e && (startsWithIf e' && e'.length != 1)

mutual
/-- the real transformer raises somewhere in this statement (every child is visited, also branches that are dropped) -/
def crashStmt : Stmt → Bool
  | .ifte c t e =>
      crashS t || crashS e || (!isTrueC c && !isFalseC c && elseifCrash e (deadS e))
  | .select _ cs d => crashCases cs || crashS d
  | .doLoop _ _ _ _ body => crashS body
  | .while _ body => crashS body
  | .assoc _ body => crashS body
  | _ => false
def crashS : List Stmt → Bool
  | [] => false
  | s :: ss => crashStmt s || crashS ss
def crashCases : List (List Int × List Stmt) → Bool
  | [] => false
  | (_, b) :: cs => crashS b || crashCases cs
end

def deadUnit (u : Fir.Unit) : Fir.Unit := { u with body := deadS u.body }

def deadUnits : List Fir.Unit → List Fir.Unit
  | [] => []
  | u :: us => deadUnit u :: deadUnits us

def crashUnits : List Fir.Unit → Bool
  | [] => false
  | u :: us => crashS u.body || crashUnits us

/-- `none`: the real code raises on (some routine of) this program -/
def deadProgram (p : Program) : Option Program :=
  if crashUnits p.units then none else some { units := deadUnits p.units, main := p.main }

mutual
/-- covered class of the correspondence: selectors are integer literals -/
def coveredStmt : Stmt → Bool
  | .ifte _ t e => coveredS t && coveredS e
  | .select e cs d => (selLit e).isSome && coveredCases cs && coveredS d
  | .doLoop _ _ _ _ body => coveredS body
  | .while _ body => coveredS body
  | .assoc _ body => coveredS body
  | _ => true
def coveredS : List Stmt → Bool
  | [] => true
  | s :: ss => coveredStmt s && coveredS ss
def coveredCases : List (List Int × List Stmt) → Bool
  | [] => true
  | (_, b) :: cs => coveredS b && coveredCases cs
end

def DeadCovered (p : Program) : Bool := p.units.all fun u => coveredS u.body

end LokiModel.C40
