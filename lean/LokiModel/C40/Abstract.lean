/-!
# C40 — models of the normalisers FIR cannot express, on small abstract domains

* `singleDecl` — `single_variable_declaration(routine, variables, group_by_shape)` (loki/transformations/utilities.py) on a list
  of declaration statements, each a list of declared symbols (name + shape key) sharing the statement's attributes.
* `elimImports` — `eliminate_unused_imports` / `sanitise_imports` on a list of USE statements and the set of (lower-cased) names
  the scope uses.  A USE statement without ONLY list (`symbols == ()`) is left alone (`if im.symbols:`; until the fix commit
  for class `sanitise-imports-drops-bare-use` it was dropped as soon as any imported symbol of the scope was redundant).

Core Lean only.
-/
namespace LokiModel.C40

/-! ## single-variable declarations -/

structure Sym where
  name : String
  shape : Option (List String)      -- `getattr(symbol, 'shape', None)` as a key (printed dimensions), `none` for scalars
deriving Repr, DecidableEq

structure DeclStmt where
  attrs : String                    -- everything the statement's symbols share (type, kind, intent, DIMENSION attribute …)
  syms : List Sym
deriving Repr, DecidableEq

/-- `s.name in variables` (tuple of strings), `variables is None` ⇒ every symbol -/
def selected (vars : Option (List String)) (s : Sym) : Bool :=
  match vars with
  | none => true
  | some vs => vs.contains s.name

def retained (vars : Option (List String)) (s : Sym) : Bool :=
  match vars with
  | none => false
  | some vs => !vs.contains s.name

/-- the `not group_by_shape` branch for one declaration -/
def splitDecl (vars : Option (List String)) (d : DeclStmt) : List DeclStmt :=
  if d.syms.length > 1 then
    let unique := d.syms.filter (selected vars)
    if unique.isEmpty then [d] else
      let retain := d.syms.filter (retained vars)
      (if retain.isEmpty then [] else [{ d with syms := retain }]) ++ unique.map fun s => { d with syms := [s] }
  else [d]

/-- `smbls_by_shape[shape] += [smbl]` on a dict (insertion order of first occurrence) -/
def insertGroup (s : Sym) : List (Option (List String) × List Sym) → List (Option (List String) × List Sym)
  | [] => [(s.shape, [s])]
  | (k, g) :: rest => if k = s.shape then (k, g ++ [s]) :: rest else (k, g) :: insertGroup s rest

def groupFrom (acc : List (Option (List String) × List Sym)) : List Sym → List (Option (List String) × List Sym)
  | [] => acc
  | s :: ss => groupFrom (insertGroup s acc) ss

def groupDecl (d : DeclStmt) : List DeclStmt :=
  if d.syms.length > 1 then (groupFrom [] d.syms).map fun kg => { d with syms := kg.2 } else [d]

def flatMapD (f : DeclStmt → List DeclStmt) : List DeclStmt → List DeclStmt
  | [] => []
  | d :: ds => f d ++ flatMapD f ds

def varsGiven : Option (List String) → Bool
  | some (_ :: _) => true
  | _ => false

/-- the whole function: one pass (grouping ignores `variables`), then — `if variables and group_by_shape` — a second pass
that splits by `variables` -/
def singleDecl (vars : Option (List String)) (groupByShape : Bool) (ds : List DeclStmt) : List DeclStmt :=
  if groupByShape then
    let r := flatMapD groupDecl ds
    if varsGiven vars then flatMapD (splitDecl vars) r else r
  else flatMapD (splitDecl vars) ds

/-! ## import sanitising -/

structure Imp where
  modname : String
  syms : Option (List String)       -- `Import.symbols`: `some []` is a USE without ONLY list, `none` is python `None`
deriving Repr, DecidableEq

def isUsed (used : List String) (s : String) : Bool := used.contains s.toLower

def importedSyms : List Imp → List String
  | [] => []
  | i :: is => (i.syms.getD []) ++ importedSyms is

def elimOne (used : List String) (im : Imp) : Option Imp :=
  match im.syms with
  | none => some im
  | some [] => some im               -- `if im.symbols:` — a USE without ONLY list has nothing to sanitise
  | some (s :: ss0) =>
      let ss := s :: ss0
      let ss' := ss.filter (isUsed used)
      if ss'.isEmpty then none
      else if ss'.length < ss.length then some { im with syms := some ss' }
      else some im

def elimAll (used : List String) : List Imp → List Imp
  | [] => []
  | i :: is => match elimOne used i with
      | some i' => i' :: elimAll used is
      | none => elimAll used is

/-- `eliminate_unused_imports(scope, used_symbols)` -/
def elimImports (used : List String) (imps : List Imp) : List Imp :=
  if (importedSyms imps).all (isUsed used) then imps else elimAll used imps

/-- a routine with member procedures (`find_and_eliminate_unused_imports`): every member is cleaned with its own used set,
the parent with the union (own names first, then the members' in order) -/
structure Scope1 where
  used : List String
  imps : List Imp
  members : List (List String × List Imp)

def membersUsed : List (List String × List Imp) → List String
  | [] => []
  | (u, _) :: ms => u ++ membersUsed ms

def cleanMembers : List (List String × List Imp) → List (List String × List Imp)
  | [] => []
  | (u, is) :: ms => (u, elimImports u is) :: cleanMembers ms

def sanitiseRoutine (s : Scope1) : Scope1 :=
  { used := s.used, imps := elimImports (s.used ++ membersUsed s.members) s.imps, members := cleanMembers s.members }

end LokiModel.C40
