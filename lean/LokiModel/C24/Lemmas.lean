import LokiModel.C24.Model
/-! # C24 — helper lemmas -/
namespace LokiModel.C24

/-! ## per-library dicts -/

theorem lookupLib_appendTo (k k' : Option String) (x : String) (m : LibMap) :
    lookupLib k (appendTo k' x m) = if k = k' then lookupLib k m ++ [x] else lookupLib k m := by
  induction m with
  | nil =>
    by_cases h : k = k'
    · subst h; simp [appendTo, lookupLib]
    · have h' : ¬ k' = k := fun e => h e.symm
      simp [appendTo, lookupLib, h, h']
  | cons p rest ih =>
    obtain ⟨k'', xs⟩ := p
    simp only [appendTo]
    by_cases h1 : k'' = k'
    · subst h1
      simp only [beq_self_eq_true, if_true]
      by_cases h2 : k = k''
      · subst h2; simp [lookupLib]
      · have h2' : ¬ k'' = k := fun e => h2 e.symm
        simp [lookupLib, h2, h2']
    · have h1' : (k'' == k') = false := by simpa using h1
      simp only [h1', Bool.false_eq_true, if_false]
      by_cases h2 : k'' = k
      · subst h2
        have : ¬ k'' = k' := h1
        simp [lookupLib, this]
      · have h2' : (k'' == k) = false := by simpa using h2
        have := ih
        simp only [lookupLib, List.find?_cons, h2'] at this ⊢
        exact this

theorem allOf_appendTo_perm (k : Option String) (x : String) (m : LibMap) :
    (allOf (appendTo k x m)).Perm (x :: allOf m) := by
  induction m with
  | nil => simp [appendTo, allOf]
  | cons p rest ih =>
    obtain ⟨k', xs⟩ := p
    simp only [appendTo]
    split
    · simp only [allOf, List.flatMap_cons, List.append_assoc]
      have : (xs ++ ([x] ++ List.flatMap (fun x => x.snd) rest)).Perm
          (x :: (xs ++ List.flatMap (fun x => x.snd) rest)) := by
        simpa using (List.perm_middle (a := x) (l₁ := xs) (l₂ := List.flatMap (fun x => x.snd) rest))
      simpa using this
    · simp only [allOf, List.flatMap_cons] at ih ⊢
      have h1 : (xs ++ List.flatMap (fun x => x.snd) (appendTo k x rest)).Perm
          (xs ++ x :: List.flatMap (fun x => x.snd) rest) := List.Perm.append_left xs ih
      exact h1.trans List.perm_middle

/-- `appendTo` for several entries of the same library -/
def appendAll (k : Option String) (xs : List String) (m : LibMap) : LibMap :=
  xs.foldl (fun m x => appendTo k x m) m

theorem lookupLib_appendAll (k k' : Option String) (xs : List String) (m : LibMap) :
    lookupLib k (appendAll k' xs m) = if k = k' then lookupLib k m ++ xs else lookupLib k m := by
  induction xs generalizing m with
  | nil => simp [appendAll]
  | cons x rest ih =>
    simp only [appendAll, List.foldl_cons] at ih ⊢
    rw [ih, lookupLib_appendTo]
    split <;> simp

theorem allOf_appendAll_perm (k : Option String) (xs : List String) (m : LibMap) :
    (allOf (appendAll k xs m)).Perm (allOf m ++ xs) := by
  induction xs generalizing m with
  | nil => simp [appendAll]
  | cons x rest ih =>
    simp only [appendAll, List.foldl_cons] at ih ⊢
    refine (ih _).trans ?_
    have := (allOf_appendTo_perm k x m).append_right rest
    refine this.trans ?_
    simpa using (List.perm_middle (a := x) (l₁ := allOf m) (l₂ := rest)).symm

/-! ## one planner step -/

/-- with the de-duplication test never firing, a `plan_file` call on a file the writer has planned appends the file's
origins to `transform`, its new path to `append`, and (if replaced) its path to `remove`, all under the file's library -/
theorem planFile_true (w : WCfg) (st : Plan) (fi : FInfo) :
    planFile w st fi true =
      ⟨appendAll fi.lib (originsOf fi) st.transform, appendTo fi.lib (getFilePath w fi) st.append,
       appendAll fi.lib (replacedOf fi) st.remove⟩ := by
  unfold planFile originsOf replacedOf pathInKeys appendAll
  cases fi.pathExists <;> cases fi.replicate <;> cases fi.origExists <;> simp

theorem planFile_false (w : WCfg) (st : Plan) (fi : FInfo) : planFile w st fi false = st := by
  simp [planFile]

/-! ## the planner run -/

theorem planRun_append_lib {α} (w : WCfg) (info : α → FInfo) (hasFW : α → Bool) (k : Option String)
    (l : List α) (st : Plan) :
    lookupLib k (planRun w info hasFW l st).append =
      lookupLib k st.append ++
        (l.filter (fun f => hasFW f && decide ((info f).lib = k))).map (fun f => getFilePath w (info f)) := by
  induction l generalizing st with
  | nil => simp [planRun]
  | cons f rest ih =>
    simp only [planRun]
    rw [ih]
    cases h : hasFW f
    · simp [planFile_false, h]
    · rw [planFile_true]
      simp only [lookupLib_appendTo, List.filter_cons, h, Bool.true_and]
      by_cases hk : (info f).lib = k
      · simp [hk]
      · have : ¬ k = (info f).lib := fun e => hk e.symm
        simp [hk, this]

theorem planRun_transform_lib {α} (w : WCfg) (info : α → FInfo) (hasFW : α → Bool) (k : Option String)
    (l : List α) (st : Plan) :
    lookupLib k (planRun w info hasFW l st).transform =
      lookupLib k st.transform ++
        (l.filter (fun f => hasFW f && decide ((info f).lib = k))).flatMap (fun f => originsOf (info f)) := by
  induction l generalizing st with
  | nil => simp [planRun]
  | cons f rest ih =>
    simp only [planRun]
    rw [ih]
    cases h : hasFW f
    · simp [planFile_false, h]
    · rw [planFile_true]
      simp only [lookupLib_appendAll, List.filter_cons, h, Bool.true_and]
      by_cases hk : (info f).lib = k
      · simp [hk]
      · have : ¬ k = (info f).lib := fun e => hk e.symm
        simp [hk, this]

theorem planRun_remove_lib {α} (w : WCfg) (info : α → FInfo) (hasFW : α → Bool) (k : Option String)
    (l : List α) (st : Plan) :
    lookupLib k (planRun w info hasFW l st).remove =
      lookupLib k st.remove ++
        (l.filter (fun f => hasFW f && decide ((info f).lib = k))).flatMap (fun f => replacedOf (info f)) := by
  induction l generalizing st with
  | nil => simp [planRun]
  | cons f rest ih =>
    simp only [planRun]
    rw [ih]
    cases h : hasFW f
    · simp [planFile_false, h]
    · rw [planFile_true]
      simp only [lookupLib_appendAll, List.filter_cons, h, Bool.true_and]
      by_cases hk : (info f).lib = k
      · simp [hk]
      · have : ¬ k = (info f).lib := fun e => hk e.symm
        simp [hk, this]

theorem planRun_append_all {α} (w : WCfg) (info : α → FInfo) (hasFW : α → Bool) (l : List α) (st : Plan) :
    (allOf (planRun w info hasFW l st).append).Perm
      (allOf st.append ++ (l.filter hasFW).map (fun f => getFilePath w (info f))) := by
  induction l generalizing st with
  | nil => simp [planRun]
  | cons f rest ih =>
    simp only [planRun]
    refine (ih _).trans ?_
    cases h : hasFW f
    · simp [planFile_false, h]
    · rw [planFile_true]
      simp only [List.filter_cons, h, if_true, List.map_cons]
      have := (allOf_appendTo_perm (info f).lib (getFilePath w (info f)) st.append).append_right
        ((rest.filter hasFW).map (fun f => getFilePath w (info f)))
      refine this.trans ?_
      simpa using (List.perm_middle (a := getFilePath w (info f)) (l₁ := allOf st.append)
        (l₂ := (rest.filter hasFW).map (fun f => getFilePath w (info f)))).symm

theorem planRun_transform_all {α} (w : WCfg) (info : α → FInfo) (hasFW : α → Bool) (l : List α) (st : Plan) :
    (allOf (planRun w info hasFW l st).transform).Perm
      (allOf st.transform ++ (l.filter hasFW).flatMap (fun f => originsOf (info f))) := by
  induction l generalizing st with
  | nil => simp [planRun]
  | cons f rest ih =>
    simp only [planRun]
    refine (ih _).trans ?_
    cases h : hasFW f
    · simp [planFile_false, h]
    · rw [planFile_true]
      simp only [List.filter_cons, h, if_true, List.flatMap_cons]
      have := (allOf_appendAll_perm (info f).lib (originsOf (info f)) st.transform).append_right
        ((rest.filter hasFW).flatMap (fun f => originsOf (info f)))
      refine this.trans ?_
      simp [List.append_assoc]

theorem planRun_remove_all {α} (w : WCfg) (info : α → FInfo) (hasFW : α → Bool) (l : List α) (st : Plan) :
    (allOf (planRun w info hasFW l st).remove).Perm
      (allOf st.remove ++ (l.filter hasFW).flatMap (fun f => replacedOf (info f))) := by
  induction l generalizing st with
  | nil => simp [planRun]
  | cons f rest ih =>
    simp only [planRun]
    refine (ih _).trans ?_
    cases h : hasFW f
    · simp [planFile_false, h]
    · rw [planFile_true]
      simp only [List.filter_cons, h, if_true, List.flatMap_cons]
      have := (allOf_appendAll_perm (info f).lib (replacedOf (info f)) st.remove).append_right
        ((rest.filter hasFW).flatMap (fun f => replacedOf (info f)))
      refine this.trans ?_
      simp [List.append_assoc]

end LokiModel.C24
