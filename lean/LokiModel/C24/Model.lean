import LokiModel.C22.Model
import LokiModel.Generated.C24Tables
/-!
# C24 — model of `FileWriteTransformation._get_file_path / plan_file / transform_file` and of the
`CMakePlanTransformation.plan_file` state machine (loki/transformations/build_system/{file_write,plan}.py)

The traversals (which file items each transformation visits, in which order) come from the C22 model of
`SGraph.as_filegraph` + `SFilter`; what this file adds is what happens per visited file.
Paths are strings; the abstraction function (harness) splits `item.path` with pathlib.
-/
namespace LokiModel.C24
open LokiModel.C22

/-- what the two transformations read from a `FileItem` -/
structure FInfo where
  dir : String            -- str(item.path.parent)
  stem : String           -- item.path.stem
  suffix : String         -- item.path.suffix
  shown : String          -- the path as it is listed: str(item.path), or resolved relative to `rootpath` if that is given
  pathExists : Bool       -- item.path.exists()
  origShown : String      -- item.orig_path, same convention
  origExists : Bool
  replicate : Bool        -- item.replicate (set by `_populate_filegraph`: any item of the file)
  lib : Option String     -- item.lib
  mode : Option String    -- item.mode
deriving DecidableEq, Repr, Inhabited

/-- constructor arguments of `FileWriteTransformation` and `build_args['output_dir']` -/
structure WCfg where
  suffix : Option String
  outputDir : Option String
deriving Repr

/-- `_mode.replace('-', '_')` -/
def sanitize (s : String) : String := String.ofList (s.toList.map fun c => if c = Tables.sanFrom then Tables.sanTo else c)

/-- `item.mode if item.mode else 'loki'` (None and '' are falsy), sanitised -/
def modeOf (fi : FInfo) : String :=
  sanitize (match fi.mode with
    | some m => if m.isEmpty then Tables.defaultMode else m
    | none => Tables.defaultMode)

/-- `self.suffix if self.suffix else path.suffix` -/
def suffixOf (w : WCfg) (fi : FInfo) : String :=
  match w.suffix with
  | some s => if s.isEmpty then fi.suffix else s
  | none => fi.suffix

/-- name of `Path(item.path).with_suffix(f'.{_mode}{suffix}')` -/
def newName (w : WCfg) (fi : FInfo) : String := fi.stem ++ "." ++ modeOf fi ++ suffixOf w fi

/-- `_get_file_path`: with an output directory only the file *name* survives -/
def getFilePath (w : WCfg) (fi : FInfo) : String :=
  match w.outputDir with
  | some o => o ++ "/" ++ newName w fi
  | none => fi.dir ++ "/" ++ newName w fi

/-! ## the conversion run: `FileWriteTransformation.transform_file` over its traversal -/

/-- the sequence of `sourcefile.write(path=…)` calls -/
def writes {α} (w : WCfg) (info : α → FInfo) (visitedW : List α) : List String :=
  visitedW.map (fun f => getFilePath w (info f))

/-- distinct entries, first occurrences kept -/
def dedup : List String → List String
  | [] => []
  | x :: xs => x :: (dedup xs).filter (fun y => !(y == x))

/-- the files that exist afterwards (a later write to the same path overwrites the earlier one) -/
def written {α} (w : WCfg) (info : α → FInfo) (visitedW : List α) : List String :=
  dedup (writes w info visitedW)

/-! ## the planning run: `CMakePlanTransformation.plan_file` -/

/-- the three per-library dicts (insertion ordered) -/
abbrev LibMap := List (Option String × List String)

/-- `d.setdefault(key, []).append(x)` -/
def appendTo (k : Option String) (x : String) : LibMap → LibMap
  | [] => [(k, [x])]
  | (k', xs) :: rest => if k' == k then (k', xs ++ [x]) :: rest else (k', xs) :: appendTo k x rest

def lookupLib (k : Option String) (m : LibMap) : List String :=
  ((m.find? (fun p => p.1 == k)).map (·.2)).getD []

/-- `_write_plan`: all libraries flattened -/
def allOf (m : LibMap) : List String := m.flatMap (·.2)

structure Plan where
  transform : LibMap := []
  append : LibMap := []
  remove : LibMap := []
deriving Repr

/-- `newsource in self.sources_to_append`: a `PosixPath` is looked up among the *keys* of the per-library dict,
which are `None` or library-name strings; `PosixPath.__eq__` returns NotImplemented for those, so the test is
never true (the de-duplication it was meant to provide never happens) -/
def pathInKeys (_newsource : String) (_m : LibMap) : Bool := false

/-- one `plan_file` call; `hasFW` = `'FileWriteTransformation' in item.trafo_data` -/
def planFile (w : WCfg) (st : Plan) (fi : FInfo) (hasFW : Bool) : Plan :=
  if !hasFW then st else
  let newsource := getFilePath w fi
  let key := fi.lib
  if !pathInKeys newsource st.append then
    let st := if fi.pathExists then { st with transform := appendTo key fi.shown st.transform } else st
    if fi.replicate then
      let st := if fi.origExists && !fi.pathExists
                then { st with transform := appendTo key fi.origShown st.transform } else st
      { st with append := appendTo key newsource st.append }
    else
      let st := { st with append := appendTo key newsource st.append }
      if fi.pathExists then { st with remove := appendTo key fi.shown st.remove } else st
  else st

/-- the traversal of the planner; `hasFW f` = the file-write transformation has planned `f` before -/
def planRun {α} (w : WCfg) (info : α → FInfo) (hasFW : α → Bool) : List α → Plan → Plan
  | [], st => st
  | f :: rest, st => planRun w info hasFW rest (planFile w st (info f) (hasFW f))

/-! ## `write_plan`: the CMake plan file -/

/-- `key.replace('.', '_')` (characters from the generated table) -/
def sanitizeKey (k : String) : String :=
  String.ofList (k.toList.map fun c => if c = Tables.keyFrom then Tables.keyTo else c)

/-- the libraries that get their own blocks: keys of the three dicts except `None` -/
def libKeys (p : Plan) : List String := dedup ((p.transform ++ p.append ++ p.remove).filterMap (·.1))

/-- the three lists written for one library: each from the dict of the same name -/
def planFileLib (p : Plan) (k : String) : List (String × List String) :=
  [("LOKI_SOURCES_TO_TRANSFORM_" ++ sanitizeKey k, lookupLib (some k) p.transform),
   ("LOKI_SOURCES_TO_APPEND_" ++ sanitizeKey k, lookupLib (some k) p.append),
   ("LOKI_SOURCES_TO_REMOVE_" ++ sanitizeKey k, lookupLib (some k) p.remove)]

/-- all `set( NAME … )` blocks of the plan file: the global lists, then three per library (the order of the
libraries is that of a Python `set`; the harness compares the blocks sorted by name) -/
def planFileSets (p : Plan) : List (String × List String) :=
  [("LOKI_SOURCES_TO_TRANSFORM", allOf p.transform), ("LOKI_SOURCES_TO_APPEND", allOf p.append),
   ("LOKI_SOURCES_TO_REMOVE", allOf p.remove)] ++ (libKeys p).flatMap (planFileLib p)

/-! ## what the property says the lists should be -/

/-- the original file(s) a planned file is derived from: its own path if that exists, else (replicated duplicate)
the path it was cloned from -/
def originsOf (fi : FInfo) : List String :=
  (if fi.pathExists then [fi.shown] else []) ++
  (if fi.replicate && fi.origExists && !fi.pathExists then [fi.origShown] else [])

/-- an original that is replaced rather than replicated -/
def replacedOf (fi : FInfo) : List String :=
  if !fi.replicate && fi.pathExists then [fi.shown] else []

/-! ## the two runs of `loki_transform` on top of the C22 traversal model -/

/-- manifest of `FileWriteTransformation` (item filter depends on `include_module_var_imports`) -/
def mW (modvars : Bool) : Manifest :=
  ⟨if modvars then [.proc, .module] else [.proc], false, true, false, false, false, false⟩

/-- manifest of `CMakePlanTransformation` (`item_filter = None`) -/
def mC : Manifest := ⟨[], false, true, false, false, false, false⟩

/-- both are run through `scheduler.process(transformation)`: no mode argument -/
def cfgOf (plan : Bool) : Cfg := ⟨true, none, plan⟩

/-- file items a transformation with manifest `m` visits, given the topological order of its file graph -/
def visited (m : Manifest) (plan : Bool) (fo : List FileNode) : List FileNode :=
  sfilter FileNode.attr (fileSF m (cfgOf plan)) fo

/-- planning: the writer's `plan_file` stores the new path in `trafo_data` of every file item it visits, then the
planner walks its own (larger) file graph -/
def planOf (w : WCfg) (info : FileNode → FInfo) (modvars : Bool) (foW foC : List FileNode) : Plan :=
  planRun w info (fun f => (visited (mW modvars) true foW).contains f) (visited mC true foC) {}

/-- conversion: the writer's `transform_file` on every file item it visits -/
def convWrites (w : WCfg) (info : FileNode → FInfo) (modvars : Bool) (foWv : List FileNode) : List String :=
  writes w info (visited (mW modvars) false foWv)

end LokiModel.C24
