/-!
# C05 model: frontend input sanitisation (`loki/frontend/preprocessing.py`)

`sanitize_input(source, FP)` applies the six rules of `sanitize_registry[FP]` one after the other; every
rule is applied line by line (`source.splitlines(keepends=True)`), the outputs are concatenated and
re-split for the next rule, and the rule records what it matched in `pp_info[name][lineno]`.

A line is modelled as its *body* (`List Char`, everything except a final `'\n'`) plus a flag `nl`
(the line ends with `'\n'`).  `splitlines` never leaves a `'\n'` inside the body.  Each rule is an
explicit function that reproduces what the backtracking regex (leftmost match, greedy/lazy priorities)
does on such a line:

* `ruleIbm`      — `(^\s*@PROCESS.*\n)` → `\n`
* `ruleStrPP`    — `(?P<pp>^\s*#.*__(?:FILE|FILENAME|DATE|VERSION)__)|(?P<else>__(?:FILE|…)__)`,
                   replacement `m['pp'] or '"' + m['else'] + '"'`
* `ruleIntPP`    — `(?P<pp>^\s*#.*__LINE__)|(?P<else>__LINE__)`, replacement `m['pp'] or '0'`
* `ruleConvert`  — `(?P<ws>^\s*)(?P<pre>OPEN\s*\(.*?)(?P<convert>,?\s*CONVERT=['"](?:BIG|LITTLE)_ENDIAN['"]\s*)(?P<post>.*?$)`, `re.I`
* `ruleNewunit`  — `(?P<ws>^\s*)(?P<open>OPEN\s*\()(?P<args1>.*?)(?P<delim>,)?(?P<newunit_key>,?\s*NEWUNIT=)(?P<newunit_val>.*?(?=,|\)|&))(?P<args2>.*?$)`, `re.I`
* `ruleFypp`     — `(^\s*# [1-9].*\".*\.(?:fypp|hypp)\"(?:\s+\d+)?\n)` → `''`

`reinsertConvert` / `reinsertNewunit` model the text that `reinsert_convert_endian` /
`reinsert_open_newunit` give the statement node of that line (single-line statements; `effectiveCont` adds the
`&` continuation branch of both callbacks for a statement of several lines), `effective` what the statement text is after both
post-processing callbacks ran in *reverse* registry order (`sanitize_ir` undoes the last rewrite first).

`segments` is a Fortran free-form segmenter of one line into pieces `code ++ protected` where the
protected part is a character literal (`'…'` or `"…"`; a doubled quote inside a literal shows up as two
adjacent literal pieces, which cover the same characters) or a trailing `!` comment.
Core Lean only.
-/
namespace LokiModel.C05

abbrev Line := List Char

/-! ## character classes of Python `re` (str patterns) -/

/-- `\s` for `str` patterns: exactly the 29 code points for which `re.match(r'\s', c)` succeeds -/
def isWs (c : Char) : Bool :=
  let n := c.toNat
  (0x9 ≤ n && n ≤ 0xd) || (0x1c ≤ n && n ≤ 0x20) || n == 0x85 || n == 0xa0 || n == 0x1680 ||
  (0x2000 ≤ n && n ≤ 0x200a) || n == 0x2028 || n == 0x2029 || n == 0x202f || n == 0x205f || n == 0x3000

/-- `re.I` comparison of an (upper-case ASCII or symbol) pattern character with a text character.
Besides the two ASCII cases, `I` also matches U+0130 and U+0131 (checked on CPython 3.12). -/
def ciEq (p c : Char) : Bool :=
  c == p || (p.isUpper && c == p.toLower) || (p == 'I' && (c.toNat == 0x130 || c.toNat == 0x131))

/-- length matched by a case-sensitive literal at the head of `l` -/
def litLen : Line → Line → Option Nat
  | [], _ => some 0
  | _ :: _, [] => none
  | p :: ps, c :: cs => if p = c then (litLen ps cs).map (· + 1) else none

/-- length matched by a literal under `re.I` at the head of `l` -/
def ciLen : Line → Line → Option Nat
  | [], _ => some 0
  | _ :: _, [] => none
  | p :: ps, c :: cs => if ciEq p c then (ciLen ps cs).map (· + 1) else none

/-- `pat in l` (case sensitive) -/
def hasSub (pat : Line) : Line → Bool
  | [] => (litLen pat []).isSome
  | c :: cs => (litLen pat (c :: cs)).isSome || hasSub pat cs

/-- `pat` occurs in `l` under `re.I` -/
def hasCiSub (pat : Line) : Line → Bool
  | [] => (ciLen pat []).isSome
  | c :: cs => (ciLen pat (c :: cs)).isSome || hasCiSub pat cs

/-- number of leading `\s` characters -/
def wsLen (l : Line) : Nat := (l.takeWhile isWs).length

/-! ## the trigger literals -/

def tProcess : Line := ['@', 'P', 'R', 'O', 'C', 'E', 'S', 'S']
def tFile : Line := ['_', '_', 'F', 'I', 'L', 'E', '_', '_']
def tFilename : Line := ['_', '_', 'F', 'I', 'L', 'E', 'N', 'A', 'M', 'E', '_', '_']
def tDate : Line := ['_', '_', 'D', 'A', 'T', 'E', '_', '_']
def tVersion : Line := ['_', '_', 'V', 'E', 'R', 'S', 'I', 'O', 'N', '_', '_']
def tLine : Line := ['_', '_', 'L', 'I', 'N', 'E', '_', '_']
def tConvert : Line := ['C', 'O', 'N', 'V', 'E', 'R', 'T', '=']
def tNewunit : Line := ['N', 'E', 'W', 'U', 'N', 'I', 'T', '=']
def tFypp : Line := ['.', 'f', 'y', 'p', 'p', '"']
def tHypp : Line := ['.', 'h', 'y', 'p', 'p', '"']

/-- alternation order of the regex: `FILE|FILENAME|DATE|VERSION` -/
def strToks : List Line := [tFile, tFilename, tDate, tVersion]
def intToks : List Line := [tLine]

/-! ## rule 1: IBM directives -/

/-- returns body, nl, fired: the pattern is anchored (`^\s*@PROCESS`), the whole line is replaced by `\n` -/
def ruleIbm (b : Line) (nl : Bool) : Line × Bool × Bool :=
  if nl && (litLen tProcess (b.dropWhile isWs)).isSome then ([], true, true) else (b, nl, false)

/-! ## generic left-to-right, non-overlapping token scan (used by rules 2 and 3) -/

/-- first alternative (in list order) that matches at the head of `l` -/
def firstTok : List Line → Line → Option Line
  | [], _ => none
  | t :: ts, l => if (litLen t l).isSome then some t else firstTok ts l

/-- `scan toks f k l`: skip `k` characters (the tail of a token just replaced), then at every position
replace the first matching token `t` by `f t` and continue after it -/
def scan (toks : List Line) (f : Line → Line) : Nat → Line → Line
  | _, [] => []
  | k + 1, _ :: cs => scan toks f k cs
  | 0, c :: cs =>
    match firstTok toks (c :: cs) with
    | some t => f t ++ scan toks f (t.length - 1) cs
    | none => c :: scan toks f 0 cs

/-- the tokens hit by `scan`, in order -/
def scanHits (toks : List Line) : Nat → Line → List Line
  | _, [] => []
  | k + 1, _ :: cs => scanHits toks k cs
  | 0, c :: cs =>
    match firstTok toks (c :: cs) with
    | some t => t :: scanHits toks (t.length - 1) cs
    | none => scanHits toks 0 cs

/-- is some token of `toks` found anywhere in `l` -/
def hasTok (toks : List Line) : Line → Bool
  | [] => false
  | c :: cs => (firstTok toks (c :: cs)).isSome || hasTok toks cs

/-! ## rule 2: string-valued preprocessor macros -/

inductive PPHit where
  | pp (text : Line)      -- the `pp` alternative (inside a `#` directive), text kept
  | els (tok : Line)      -- the `else` alternative, token gets quoted
deriving Repr, DecidableEq

/-- offset of the end of the token with the rightmost start (what `.*` + backtracking finds) -/
def lastTokEnd (toks : List Line) : Line → Option Nat
  | [] => none
  | c :: cs =>
    match lastTokEnd toks cs with
    | some e => some (e + 1)
    | none => (firstTok toks (c :: cs)).map (·.length)

/-- `^\s*#.*TOKEN` matches: length of the `pp` group -/
def directiveLen (toks : List Line) (b : Line) : Option Nat :=
  match b.dropWhile isWs with
  | '#' :: r => (lastTokEnd toks r).map (· + (wsLen b + 1))
  | _ => none

def quoteTok (t : Line) : Line := '"' :: t ++ ['"']

/-- a rule of the shape `(?P<pp>^\s*#.*TOK)|(?P<else>TOK)` with replacement `m['pp'] or f(m['else'])` -/
def rulePP (toks : List Line) (f : Line → Line) (b : Line) : Line × List PPHit :=
  match directiveLen toks b with
  | some n => (b, [PPHit.pp (b.take n)])
  | none => (scan toks f 0 b, (scanHits toks 0 b).map PPHit.els)

def ruleStrPP (b : Line) : Line × List PPHit := rulePP strToks quoteTok b

/-! ## rule 3: `__LINE__` → `0` (outside `#` directive lines) -/

def zeroTok (_ : Line) : Line := ['0']

def ruleIntPP (b : Line) : Line × List PPHit := rulePP intToks zeroTok b

/-! ## rules 4 and 5: OPEN statements -/

/-- `^\s*OPEN\s*\(` under `re.I`: (length of ws, length of the `OPEN\s*(` part) -/
def openHead (b : Line) : Option (Nat × Nat) :=
  let r0 := b.dropWhile isWs
  match ciLen ['O', 'P', 'E', 'N'] r0 with
  | none => none
  | some n =>
    let r1 := r0.drop n
    match r1.dropWhile isWs with
    | '(' :: _ => some (wsLen b, n + wsLen r1 + 1)
    | _ => none

def commaLen : Line → Nat
  | ',' :: _ => 1
  | _ => 0

def isQuote (c : Char) : Bool := c == '\'' || c == '"'

def quoteLen : Line → Option Nat
  | c :: _ => if isQuote c then some 1 else none
  | [] => none

def endianLen (l : Line) : Option Nat :=
  match ciLen ['B', 'I', 'G'] l with
  | some n => some n
  | none => ciLen ['L', 'I', 'T', 'T', 'L', 'E'] l

/-- `,?\s*CONVERT=['"](?:BIG|LITTLE)_ENDIAN['"]\s*` at the head of `l`: matched length (trailing `\s*` included) -/
def convertAt (l : Line) : Option Nat := do
  let a := commaLen l
  let l1 := l.drop a
  let w := wsLen l1
  let l2 := l1.drop w
  let k ← ciLen tConvert l2
  let l3 := l2.drop k
  let q1 ← quoteLen l3
  let l4 := l3.drop q1
  let e ← endianLen l4
  let l5 := l4.drop e
  let u ← ciLen ['_', 'E', 'N', 'D', 'I', 'A', 'N'] l5
  let l6 := l5.drop u
  let q2 ← quoteLen l6
  let l7 := l6.drop q2
  pure (a + w + k + q1 + e + u + q2 + wsLen l7)

/-- lazy `.*?` in front of the convert group: smallest start offset at which `convertAt` succeeds -/
def findConvert : Line → Option (Nat × Nat)
  | [] => (convertAt []).map fun n => (0, n)
  | c :: cs =>
    match convertAt (c :: cs) with
    | some n => some (0, n)
    | none => (findConvert cs).map fun (s, n) => (s + 1, n)

structure ConvertGroups where
  ws : Line
  pre : Line
  convert : Line
  post : Line
deriving Repr, DecidableEq

/-- returns body, nl, groups -/
def ruleConvert (b : Line) (nl : Bool) : Line × Bool × Option ConvertGroups :=
  match openHead b with
  | none => (b, nl, none)
  | some (w, o) =>
    let rest := b.drop (w + o)
    match findConvert rest with
    | none => (b, nl, none)
    | some (s, n) =>
      let ws := b.take w
      let pre := (b.drop w).take (o + s)
      let conv := (rest.drop s).take n
      let post := (rest.drop s).drop n
      -- the trailing `\s*` of the convert group also swallows the line's newline when nothing follows
      let eaten := post.isEmpty && nl
      (ws ++ pre ++ post, nl && !eaten,
       some ⟨ws, pre, if eaten then conv ++ ['\n'] else conv, post⟩)

/-- `,?\s*NEWUNIT=` at the head of `l` -/
def keyAt (l : Line) : Option Nat :=
  let a := commaLen l
  let l1 := l.drop a
  let w := wsLen l1
  (ciLen tNewunit (l1.drop w)).map (a + w + ·)

def isValEnd (c : Char) : Bool := c == ',' || c == ')' || c == '&'

structure NewunitGroups where
  ws : Line
  opn : Line
  args1 : Line
  delim : Option Line
  key : Line
  val : Line
  args2 : Line
deriving Repr, DecidableEq

/-- `(?P<delim>,)?(?P<newunit_key>,?\s*NEWUNIT=)` at the head of `l`: (delimiter length, key length);
the greedy optional delimiter is tried first -/
def delimKeyAt (l : Line) : Option (Nat × Nat) :=
  match l with
  | ',' :: r =>
    match keyAt r with
    | some k => some (1, k)
    | none => (keyAt l).map fun k => (0, k)
  | _ => (keyAt l).map fun k => (0, k)

/-- lazy `args1`: smallest offset at which delimiter+key match: (offset, delimiter length, key length) -/
def findKey : Line → Option (Nat × Nat × Nat)
  | [] => (delimKeyAt []).map fun (d, k) => (0, d, k)
  | c :: cs =>
    match delimKeyAt (c :: cs) with
    | some (d, k) => some (0, d, k)
    | none => (findKey cs).map fun (s, d, k) => (s + 1, d, k)

def ruleNewunit (b : Line) : Line × Option NewunitGroups :=
  match openHead b with
  | none => (b, none)
  | some (w, o) =>
    let rest := b.drop (w + o)
    match findKey rest with
    | none => (b, none)
    | some (s, d, k) =>
      let after := rest.drop (s + d + k)
      let val := after.takeWhile (fun c => !isValEnd c)
      let args2 := after.dropWhile (fun c => !isValEnd c)
      if args2.isEmpty then (b, none)     -- the lookahead `(?=,|\)|&)` fails for every later candidate too
      else
        let ws := b.take w
        let opn := (b.drop w).take o
        let args1 := rest.take s
        let delim := if d = 1 then some [','] else none
        let key := (rest.drop (s + d)).take k
        (ws ++ opn ++ val ++ (delim.getD []) ++ args1 ++ args2,
         some ⟨ws, opn, args1, delim, key, val, args2⟩)

/-! ## rule 6: Fypp line annotations -/

/-- `(?:\s+\d+)?` followed by the end of the body (`\d` modelled for ASCII digits) -/
def fyppTailOk (t : Line) : Bool :=
  t.isEmpty ||
    (let d := t.dropWhile isWs
     0 < wsLen t && !d.isEmpty && d.all Char.isDigit)

/-- `\.(?:fypp|hypp)\"(?:\s+\d+)?` up to the end of the body -/
def fyppTailAt : Line → Bool
  | '.' :: x :: 'y' :: 'p' :: 'p' :: '"' :: t => (x == 'f' || x == 'h') && fyppTailOk t
  | _ => false

/-- `.*\".*` then the tail: `q` = a `"` has been passed -/
def fyppRest : Bool → Line → Bool
  | _, [] => false
  | q, c :: cs => (q && fyppTailAt (c :: cs)) || fyppRest (q || c == '"') cs

def isD19 (c : Char) : Bool := c.isDigit && c != '0'

def fyppAt : Line → Bool
  | '#' :: ' ' :: d :: r => isD19 d && fyppRest false r
  | _ => false

/-- anchored pattern (`^\s*# [1-9]…`): the whole line including its newline is deleted -/
def ruleFypp (b : Line) (nl : Bool) : Line × Bool × Bool :=
  if nl && fyppAt (b.dropWhile isWs) then ([], false, true) else (b, nl, false)

/-! ## the pipeline on one line -/

structure Info where
  ibm : Bool
  strpp : List PPHit
  intpp : List PPHit
  convert : Option ConvertGroups
  newunit : Option NewunitGroups
  fypp : Bool
deriving Repr, DecidableEq

structure Out where
  text : Line
  nl : Bool
  info : Info
deriving Repr, DecidableEq

/-- the rules in registry order.  Faithful for a one-line source; in a longer source a rule that removes the
newline (rule 4 in its corner case; rule 6 deletes whole lines) merges the line with the next one before the following rule runs. -/
def sanitizeLine (b : Line) (nl : Bool) : Out :=
  let r1 := ruleIbm b nl
  let r2 := ruleStrPP r1.1
  let r3 := ruleIntPP r2.1
  let r4 := ruleConvert r3.1 r1.2.1
  let r5 := ruleNewunit r4.1
  let r6 := ruleFypp r5.1 r4.2.1
  ⟨r6.1, r6.2.1, ⟨r1.2.2, r2.2, r3.2, r4.2.2, r5.2, r6.2.2⟩⟩

/-- full text of the output line -/
def Out.full (o : Out) : Line := if o.nl then o.text ++ ['\n'] else o.text

/-! ## re-insertion (post-processing of the IR) -/

/-- `match['ws'] + match['pre'] + match['convert'] + match['post']` -/
def reinsertConvert (g : ConvertGroups) : Line := g.ws ++ g.pre ++ g.convert ++ g.post

/-- `ws + open + args1 + (delim or '') + newunit_key + newunit_val + args2` -/
def reinsertNewunit (g : NewunitGroups) : Line :=
  g.ws ++ g.opn ++ g.args1 ++ (g.delim.getD []) ++ g.key ++ g.val ++ g.args2

/-- text of the statement on this line after `sanitize_ir` applied the post-processing callbacks in *reverse*
registry order (`reinsert_open_newunit` first, then `reinsert_convert_endian`, whose text is built from the match
taken before NEWUNIT was moved) -/
def effective (o : Out) : Line :=
  match o.info.convert with
  | some g => reinsertConvert g
  | none =>
    match o.info.newunit with
    | some g => reinsertNewunit g
    | none => o.text

/-! ## statements continued with `&` (the continuation branch of the callbacks) -/

/-- `str.find`: index of the first occurrence -/
def findSub (pat : Line) : Line → Option Nat
  | [] => if (litLen pat []).isSome then some 0 else none
  | c :: cs => if (litLen pat (c :: cs)).isSome then some 0 else (findSub pat cs).map (· + 1)

/-- `str.rstrip()` -/
def rstripWs (l : Line) : Line := (l.reverse.dropWhile isWs).reverse

/-- `x.rstrip().endswith('&')` -/
def endsAmp (l : Line) : Bool :=
  match l.reverse.dropWhile isWs with
  | '&' :: _ => true
  | _ => false

/-- `S[S.find(part) + len(part):].rstrip()`; when `part` is not found `find` gives -1 and the slice starts at
`len(part) - 1` (the defect class `open-continued-tail-missing`) -/
def contTail (part S : Line) : Line :=
  match findSub part S with
  | some i => rstripWs (S.drop (i + part.length))
  | none => rstripWs (S.drop (part.length - 1))

/-- `reinsert_open_newunit` on a node whose source string is `S`: new text (= new source string) -/
def newunitCont (g : NewunitGroups) (S : Line) : Line :=
  if endsAmp g.args2 then reinsertNewunit g ++ contTail g.args2 S else reinsertNewunit g

/-- `reinsert_convert_endian` on a node whose source string is `S` -/
def convertCont (g : ConvertGroups) (S : Line) : Line :=
  if endsAmp g.post then reinsertConvert g ++ contTail g.post S else reinsertConvert g

/-- statement text after both callbacks (reverse registry order: NEWUNIT first, it also replaces the source string)
for a statement whose first line gave `o` and whose node carries the source string `S` (all lines of the statement
joined by newlines: the raw text when parsed through `Sourcefile`, the sanitised text through `from_source` /
`make_complete`) -/
def effectiveCont (o : Out) (S : Line) : Line :=
  let S1 := match o.info.newunit with
    | some g => newunitCont g S
    | none => S
  match o.info.convert with
  | some g => convertCont g S1
  | none => S1

/-- a tail group that ends with `&` is not found in the source string when its callback runs -/
def KnownContTailMissing (o : Out) (S : Line) : Bool :=
  let m5 := match o.info.newunit with
    | some g => endsAmp g.args2 && (findSub g.args2 S).isNone
    | none => false
  let S1 := match o.info.newunit with
    | some g => newunitCont g S
    | none => S
  let m4 := match o.info.convert with
    | some g => endsAmp g.post && (findSub g.post S1).isNone
    | none => false
  m5 || m4

/-- join lines with `\n` -/
def joinLines : List Line → Line
  | [] => []
  | [l] => l
  | l :: ls => l ++ '\n' :: joinLines ls

/-! ## segmenter -/

inductive Kind where
  | none | str | comment
deriving Repr, DecidableEq

/-- a stretch of code followed by a protected stretch (`kind = none` iff `prot = []`, only at the end) -/
structure Piece where
  code : Line
  kind : Kind
  prot : Line
deriving Repr, DecidableEq

def isPlain (c : Char) : Bool := !(c == '!' || c == '\'' || c == '"')

def segF : Nat → Line → List Piece
  | 0, _ => []
  | n + 1, l =>
    let code := l.takeWhile isPlain
    match l.dropWhile isPlain with
    | [] => [⟨code, .none, []⟩]
    | d :: r =>
      if d = '!' then [⟨code, .comment, d :: r⟩]
      else
        match r.dropWhile (· != d) with
        | [] => [⟨code, .str, d :: r⟩]
        | z :: after => ⟨code, .str, d :: (r.takeWhile (· != d) ++ [z])⟩ :: segF n after

def segments (l : Line) : List Piece := segF (l.length + 1) l

def flat : List Piece → Line
  | [] => []
  | p :: ps => p.code ++ p.prot ++ flat ps

/-- rewrite the code stretches only -/
def mapCode (g : Line → Line) : List Piece → List Piece
  | [] => []
  | p :: ps => ⟨g p.code, p.kind, p.prot⟩ :: mapCode g ps

/-- all preprocessor-macro tokens of rules 2 and 3 -/
def ppToks : List Line := strToks ++ intToks

/-- known-finding class predicates: a macro token lies inside a character literal / inside a comment -/
def tokInKind (k : Kind) (l : Line) : Bool :=
  (segments l).any fun p => p.kind == k && hasTok ppToks p.prot

def KnownTokInString (l : Line) : Bool := tokInKind .str l
def KnownTokInComment (l : Line) : Bool := tokInKind .comment l

/-- an OPEN line that carries `CONVERT=` / `NEWUNIT=` inside a literal or comment -/
def KnownOpenKeyInProt (l : Line) : Bool :=
  (openHead l).isSome && (segments l).any fun p => hasCiSub tConvert p.prot || hasCiSub tNewunit p.prot

/-- `CONVERT=` is the first argument of OPEN: the sanitised text is `OPEN(, …)` -/
def KnownConvertFirst (l : Line) (nl : Bool) : Bool :=
  match (sanitizeLine l nl).info.convert with
  | some g =>
    (match g.pre.reverse.dropWhile isWs with
     | '(' :: _ => true
     | _ => false)
  | none => false

def isIdentChar (c : Char) : Bool := c.isAlphanum || c == '_'

/-- a macro token in `l` with an identifier character right before or after it (`prev` = previous character) -/
def tokAdjIdent : Option Char → Line → Bool
  | _, [] => false
  | prev, c :: cs =>
    (match firstTok ppToks (c :: cs) with
     | some t =>
       (match prev with | some p => isIdentChar p | none => false) ||
       (match (c :: cs).drop t.length with | n :: _ => isIdentChar n | [] => false)
     | none => false) || tokAdjIdent (some c) cs

/-- a macro token glued to an identifier in a code stretch -/
def KnownMacroInIdent (l : Line) : Bool :=
  (segments l).any fun p => tokAdjIdent none p.code

end LokiModel.C05
