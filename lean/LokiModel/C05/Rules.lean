import LokiModel.C05.Lemmas
/-!
# C05: per-rule lemmas — identity without trigger, groups re-assemble to the line
-/
namespace LokiModel.C05

/-! ## generic facts about "occurs somewhere" predicates -/

theorem any_drop {Q : Line → Bool} (hcons : ∀ c cs, Q cs = true → Q (c :: cs) = true) :
    ∀ (n : Nat) (l : Line), Q (l.drop n) = true → Q l = true := by
  intro n
  induction n with
  | zero => intro l h; simpa using h
  | succ n ih =>
    intro l h
    cases l with
    | nil => simpa using h
    | cons c cs => exact hcons c cs (ih cs (by simpa using h))

theorem any_dropWhile {Q : Line → Bool} (hcons : ∀ c cs, Q cs = true → Q (c :: cs) = true) (p : Char → Bool) :
    ∀ (l : Line), Q (l.dropWhile p) = true → Q l = true := by
  intro l
  induction l with
  | nil => intro h; simpa using h
  | cons c cs ih =>
    intro h
    simp only [List.dropWhile_cons] at h
    by_cases hp : p c = true
    · simp only [hp, if_true] at h; exact hcons c cs (ih h)
    · simpa [hp] using h

theorem hasSub_cons (p : Line) (c : Char) (cs : Line) (h : hasSub p cs = true) : hasSub p (c :: cs) = true := by
  simp [hasSub, h]

theorem hasCiSub_cons (p : Line) (c : Char) (cs : Line) (h : hasCiSub p cs = true) : hasCiSub p (c :: cs) = true := by
  simp [hasCiSub, h]

theorem hasSub_of_litLen {p l : Line} (h : (litLen p l).isSome) : hasSub p l = true := by
  cases l with
  | nil => simpa [hasSub] using h
  | cons c cs => simp [hasSub, h]

theorem hasCiSub_of_ciLen {p l : Line} (h : (ciLen p l).isSome) : hasCiSub p l = true := by
  cases l with
  | nil => simpa [hasCiSub] using h
  | cons c cs => simp [hasCiSub, h]

theorem hasSub_tail_false {p : Line} {c : Char} {cs : Line} (h : hasSub p (c :: cs) = false) :
    (litLen p (c :: cs)).isSome = false ∧ hasSub p cs = false := by
  simpa [hasSub] using h

theorem hasCiSub_tail_false {p : Line} {c : Char} {cs : Line} (h : hasCiSub p (c :: cs) = false) :
    hasCiSub p cs = false := by
  simp only [hasCiSub, Bool.or_eq_false_iff] at h; exact h.2

/-! ## rule 1 -/

theorem ruleIbm_id {b : Line} (nl : Bool) (h : hasSub tProcess b = false) : ruleIbm b nl = (b, nl, false) := by
  unfold ruleIbm
  have : (litLen tProcess (b.dropWhile isWs)).isSome = false := by
    cases hl : (litLen tProcess (b.dropWhile isWs)).isSome with
    | false => rfl
    | true =>
      rw [any_dropWhile (hasSub_cons _) isWs b (hasSub_of_litLen hl)] at h
      exact absurd h (by simp)
  simp [this]

theorem ruleIbm_not_fired {b : Line} {nl : Bool} (h : (ruleIbm b nl).2.2 = false) : ruleIbm b nl = (b, nl, false) := by
  unfold ruleIbm at h ⊢
  split
  · rename_i hc; simp [hc] at h
  · rfl

/-! ## rule 2 -/

theorem lastTokEnd_none {toks : List Line} : ∀ {r : Line}, hasTok toks r = false → lastTokEnd toks r = none := by
  intro r
  induction r with
  | nil => intro _; rfl
  | cons c cs ih =>
    intro h
    obtain ⟨h1, h2⟩ := hasTok_cons_false h
    simp [lastTokEnd, ih h2, h1]

theorem directiveLen_none {toks : List Line} {b : Line} (h : hasTok toks b = false) : directiveLen toks b = none := by
  unfold directiveLen
  have hsplit := List.takeWhile_append_dropWhile (p := isWs) (l := b)
  split
  · rename_i r hr
    rw [hr] at hsplit
    have : hasTok toks r = false := by
      apply hasTok_suffix (List.takeWhile isWs b ++ ['#'])
      simpa [hsplit] using h
    simp [lastTokEnd_none this]
  · rfl

theorem rulePP_id {toks : List Line} {f : Line → Line} {b : Line} (h : hasTok toks b = false) : rulePP toks f b = (b, []) := by
  unfold rulePP
  rw [directiveLen_none h]
  simp [scan_id h, scanHits_nil h]

/-! ## rules 4 and 5 -/

theorem convertAt_some {l : Line} {n : Nat} (h : convertAt l = some n) : hasCiSub tConvert l = true := by
  by_cases hk : (ciLen tConvert (l.drop (commaLen l + wsLen (l.drop (commaLen l))))).isSome
  · exact any_drop (hasCiSub_cons _) _ _ (hasCiSub_of_ciLen hk)
  · have := Option.not_isSome_iff_eq_none.mp hk
    simp [convertAt, this] at h

theorem findConvert_none : ∀ {l : Line}, hasCiSub tConvert l = false → findConvert l = none := by
  intro l
  induction l with
  | nil =>
    intro h
    cases hc : convertAt [] with
    | none => simp [findConvert, hc]
    | some n => rw [convertAt_some hc] at h; exact absurd h (by simp)
  | cons c cs ih =>
    intro h
    cases hc : convertAt (c :: cs) with
    | none => simp [findConvert, hc, ih (hasCiSub_tail_false h)]
    | some n => rw [convertAt_some hc] at h; exact absurd h (by simp)

theorem ruleConvert_id {b : Line} (nl : Bool) (h : hasCiSub tConvert b = false) : ruleConvert b nl = (b, nl, none) := by
  unfold ruleConvert
  cases openHead b with
  | none => rfl
  | some wo =>
    obtain ⟨w, o⟩ := wo
    have : hasCiSub tConvert (b.drop (w + o)) = false := by
      cases hh : hasCiSub tConvert (b.drop (w + o)) with
      | false => rfl
      | true => rw [any_drop (hasCiSub_cons _) _ _ hh] at h; exact absurd h (by simp)
    simp [findConvert_none this]

theorem keyAt_some {l : Line} {k : Nat} (h : keyAt l = some k) : hasCiSub tNewunit l = true := by
  by_cases hk : (ciLen tNewunit (l.drop (commaLen l + wsLen (l.drop (commaLen l))))).isSome
  · exact any_drop (hasCiSub_cons _) _ _ (hasCiSub_of_ciLen hk)
  · have := Option.not_isSome_iff_eq_none.mp hk
    simp [keyAt, this] at h

theorem delimKeyAt_some {l : Line} {dk : Nat × Nat} (h : delimKeyAt l = some dk) : hasCiSub tNewunit l = true := by
  unfold delimKeyAt at h
  split at h
  · rename_i r
    cases hr : keyAt r with
    | some k => exact hasCiSub_cons _ _ _ (keyAt_some hr)
    | none =>
      rw [hr] at h
      cases hl : keyAt (',' :: r) with
      | some k => exact keyAt_some hl
      | none => rw [hl] at h; simp at h
  · rename_i l' _
    cases hl : keyAt l with
    | some k => exact keyAt_some hl
    | none => rw [hl] at h; simp at h

theorem findKey_none : ∀ {l : Line}, hasCiSub tNewunit l = false → findKey l = none := by
  intro l
  induction l with
  | nil =>
    intro h
    cases hc : delimKeyAt [] with
    | none => simp [findKey, hc]
    | some n => rw [delimKeyAt_some hc] at h; exact absurd h (by simp)
  | cons c cs ih =>
    intro h
    cases hc : delimKeyAt (c :: cs) with
    | none => simp [findKey, hc, ih (hasCiSub_tail_false h)]
    | some n => rw [delimKeyAt_some hc] at h; exact absurd h (by simp)

theorem ruleNewunit_id {b : Line} (h : hasCiSub tNewunit b = false) : ruleNewunit b = (b, none) := by
  unfold ruleNewunit
  cases openHead b with
  | none => rfl
  | some wo =>
    obtain ⟨w, o⟩ := wo
    have : hasCiSub tNewunit (b.drop (w + o)) = false := by
      cases hh : hasCiSub tNewunit (b.drop (w + o)) with
      | false => rfl
      | true => rw [any_drop (hasCiSub_cons _) _ _ hh] at h; exact absurd h (by simp)
    simp [findKey_none this]

/-! ## rule 6 -/

theorem fyppTailAt_sub {l : Line} (h : fyppTailAt l = true) : hasSub tFypp l = true ∨ hasSub tHypp l = true := by
  unfold fyppTailAt at h
  split at h
  · rename_i x t
    simp only [Bool.and_eq_true, Bool.or_eq_true, beq_iff_eq] at h
    rcases h.1 with rfl | rfl
    · left; apply hasSub_of_litLen; simp [tFypp, litLen]
    · right; apply hasSub_of_litLen; simp [tHypp, litLen]
  · simp at h

theorem fyppRest_sub : ∀ {l : Line} {q : Bool}, fyppRest q l = true → hasSub tFypp l = true ∨ hasSub tHypp l = true := by
  intro l
  induction l with
  | nil => intro q h; simp [fyppRest] at h
  | cons c cs ih =>
    intro q h
    simp only [fyppRest, Bool.or_eq_true, Bool.and_eq_true] at h
    rcases h with h | h
    · exact fyppTailAt_sub h.2
    · rcases ih h with h' | h'
      · exact Or.inl (hasSub_cons _ _ _ h')
      · exact Or.inr (hasSub_cons _ _ _ h')

theorem fyppAt_sub {l : Line} (h : fyppAt l = true) : hasSub tFypp l = true ∨ hasSub tHypp l = true := by
  unfold fyppAt at h
  split at h
  · rename_i d r
    simp only [Bool.and_eq_true] at h
    rcases fyppRest_sub h.2 with h' | h'
    · exact Or.inl (hasSub_cons _ _ _ (hasSub_cons _ _ _ (hasSub_cons _ _ _ h')))
    · exact Or.inr (hasSub_cons _ _ _ (hasSub_cons _ _ _ (hasSub_cons _ _ _ h')))
  · simp at h

theorem ruleFypp_id {b : Line} (nl : Bool) (h1 : hasSub tFypp b = false) (h2 : hasSub tHypp b = false) :
    ruleFypp b nl = (b, nl, false) := by
  unfold ruleFypp
  have : fyppAt (b.dropWhile isWs) = false := by
    cases ha : fyppAt (b.dropWhile isWs) with
    | false => rfl
    | true =>
      rcases fyppAt_sub ha with h | h
      · rw [any_dropWhile (hasSub_cons _) isWs b h] at h1; exact absurd h1 (by simp)
      · rw [any_dropWhile (hasSub_cons _) isWs b h] at h2; exact absurd h2 (by simp)
  simp [this]

theorem ruleFypp_not_fired {b : Line} {nl : Bool} (h : (ruleFypp b nl).2.2 = false) : ruleFypp b nl = (b, nl, false) := by
  unfold ruleFypp at h ⊢
  split
  · rename_i hc; simp [hc] at h
  · rfl

end LokiModel.C05
