import LokiModel.C05.Segments
import LokiModel.C05.Restore
/-!
# C05: definitions used in the property statements and the lemmas that glue rules 2/3 to the segmenter
-/
namespace LokiModel.C05

/-- none of the trigger texts occurs anywhere in the line -/
def noTrigger (b : Line) : Bool :=
  !hasSub tProcess b && !hasTok ppToks b && !hasCiSub tConvert b && !hasCiSub tNewunit b &&
  !hasSub tFypp b && !hasSub tHypp b

def emptyInfo : Info := ⟨false, [], false, none, none, false⟩

theorem strToks_sub : ∀ t ∈ strToks, t ∈ ppToks := fun _ ht => List.mem_append_left _ ht
theorem intToks_sub : ∀ t ∈ intToks, t ∈ ppToks := fun _ ht => List.mem_append_right _ ht

theorem hasSub_tLine_of_hasTok {b : Line} (h : hasTok intToks b = false) : hasSub tLine b = false := by
  induction b with
  | nil => simp [hasSub, tLine, litLen]
  | cons c cs ih =>
    obtain ⟨h1, h2⟩ := hasTok_cons_false h
    simp only [hasSub, ih h2, Bool.or_false]
    cases hl : (litLen tLine (c :: cs)).isSome with
    | false => rfl
    | true =>
      have : (firstTok intToks (c :: cs)).isSome := firstTok_isSome_iff.mpr ⟨tLine, by simp [intToks], hl⟩
      rw [h1] at this; exact absurd this (by simp)

/-- the line as it is before the two OPEN rules (after rules 1–3) -/
def beforeOpen (b : Line) (nl : Bool) : Line := (ruleIntPP (ruleStrPP (ruleIbm b nl).1).1).1

/-- a macro token (`__FILE__`, `__FILENAME__`, `__DATE__`, `__VERSION__`, `__LINE__`) lies inside a literal or a
comment of the line: the union of the known-finding classes `macro-in-string` and `macro-in-comment` -/
def tokInProt (b : Line) : Bool := (segments b).any fun p => hasTok ppToks p.prot

theorem sepC_of_notin {toks : List Line} {c : Char} (h : toks.all (fun t => !t.contains c) = true) : SepC toks c := by
  intro t ht
  have := List.all_eq_true.mp h t ht
  simpa using this

theorem pp_sep_bang : SepC ppToks '!' := sepC_of_notin (by decide)
theorem pp_sep_q : SepC ppToks '\'' := sepC_of_notin (by decide)
theorem pp_sep_dq : SepC ppToks '"' := sepC_of_notin (by decide)
theorem pp_ne : ∀ t ∈ ppToks, t ≠ [] := by
  intro t ht; have := List.all_eq_true.mp (by decide : ppToks.all (fun t => !t.isEmpty) = true) t ht
  intro h; subst h; simp at this

theorem segments_sep {b : Line} (h : tokInProt b = false) : Sep ppToks (segments b) := by
  apply segF_sep pp_sep_bang pp_sep_q pp_sep_dq _ _ (by omega)
  intro p hp
  simp only [tokInProt, List.any_eq_false] at h
  simpa using h p hp

/-- rules 2 and 3 rewrite code stretches only: their combined effect on a line without macro token in a
literal/comment is `flat (mapCode g (segments b))` for a code rewriter `g` -/
theorem pp_local (b : Line) (h : tokInProt b = false) :
    ∃ g : Line → Line, (ruleIntPP (ruleStrPP b).1).1 = flat (mapCode g (segments b)) := by
  have hsep := segments_sep h
  have hs : Sep strToks (segments b) := hsep.mono strToks_sub
  have hi : Sep intToks (segments b) := hsep.mono intToks_sub
  have hnes : ∀ t ∈ strToks, t ≠ [] := fun t ht => pp_ne t (strToks_sub t ht)
  have hnei : ∀ t ∈ intToks, t ≠ [] := fun t ht => pp_ne t (intToks_sub t ht)
  simp only [ruleIntPP, ruleStrPP]
  cases directiveLen b with
  | some n =>
    refine ⟨scan intToks zeroTok 0, ?_⟩
    have := scan_flat (f := zeroTok) hnei hi
    rwa [flat_segments] at this
  | none =>
    refine ⟨fun c => scan intToks zeroTok 0 (scan strToks quoteTok 0 c), ?_⟩
    have h2 := scan_flat (f := quoteTok) hnes hs
    rw [flat_segments] at h2
    simp only
    rw [h2, scan_flat (f := zeroTok) hnei (hi.mapCode _)]
    congr 1
    generalize segments b = ps
    induction ps with
    | nil => rfl
    | cons p ps ih => simp [mapCode, ih]

/-- pieces without protected kind have no protected text -/
theorem segF_kind : ∀ (n : Nat) (l : Line) (p : Piece), p ∈ segF n l → p.kind = .none → p.prot = [] := by
  intro n
  induction n with
  | zero => intro l p hp; simp [segF] at hp
  | succ n ih =>
    intro l p hp hk
    simp only [segF] at hp
    split at hp
    · simp only [List.mem_singleton] at hp; subst hp; rfl
    · split at hp
      · simp only [List.mem_singleton] at hp; subst hp; simp at hk
      · split at hp
        · simp only [List.mem_singleton] at hp; subst hp; simp at hk
        · simp only [List.mem_cons] at hp
          rcases hp with rfl | hp
          · simp at hk
          · exact ih _ p hp hk

end LokiModel.C05
