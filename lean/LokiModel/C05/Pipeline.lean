import LokiModel.C05.Segments
import LokiModel.C05.Restore
/-!
# C05: definitions used in the property statements and the lemmas that glue rules 2/3 to the segmenter
-/
namespace LokiModel.C05

/-- none of the trigger texts occurs anywhere in the line -/
def noTrigger (b : Line) : Bool :=
  !hasSub tProcess b && !hasTok ppToks b && !hasCiSub tConvert b && !hasCiSub tNewunit b &&
  !hasSub tFypp b && !hasSub tHypp b

def emptyInfo : Info := ⟨false, [], [], none, none, false⟩

theorem strToks_sub : ∀ t ∈ strToks, t ∈ ppToks := fun _ ht => List.mem_append_left _ ht
theorem intToks_sub : ∀ t ∈ intToks, t ∈ ppToks := fun _ ht => List.mem_append_right _ ht

/-- the line as it is before the two OPEN rules (after rules 1–3) -/
def beforeOpen (b : Line) (nl : Bool) : Line := (ruleIntPP (ruleStrPP (ruleIbm b nl).1).1).1

/-- a macro token (`__FILE__`, `__FILENAME__`, `__DATE__`, `__VERSION__`, `__LINE__`) lies inside a literal or a
comment of the line: the union of the known-finding classes `macro-in-string` and `macro-in-comment` -/
def tokInProt (b : Line) : Bool := (segments b).any fun p => hasTok ppToks p.prot

theorem sepC_of_notin {toks : List Line} {c : Char} (h : toks.all (fun t => !t.contains c) = true) : SepC toks c := by
  intro t ht
  have := List.all_eq_true.mp h t ht
  simpa using this

theorem pp_sep_bang : SepC ppToks '!' := sepC_of_notin (by decide)
theorem pp_sep_q : SepC ppToks '\'' := sepC_of_notin (by decide)
theorem pp_sep_dq : SepC ppToks '"' := sepC_of_notin (by decide)
theorem pp_ne : ∀ t ∈ ppToks, t ≠ [] := by
  intro t ht; have := List.all_eq_true.mp (by decide : ppToks.all (fun t => !t.isEmpty) = true) t ht
  intro h; subst h; simp at this

theorem segments_sep {b : Line} (h : tokInProt b = false) : Sep ppToks (segments b) := by
  apply segF_sep pp_sep_bang pp_sep_q pp_sep_dq _ _ (by omega)
  intro p hp
  simp only [tokInProt, List.any_eq_false] at h
  simpa using h p hp

theorem mapCode_mapCode (g h : Line → Line) : ∀ ps : List Piece, mapCode h (mapCode g ps) = mapCode (fun c => h (g c)) ps := by
  intro ps
  induction ps with
  | nil => rfl
  | cons p ps ih => simp [mapCode, ih]

/-- one rule of the shape `rulePP` rewrites code stretches only, on any well-separated decomposition -/
theorem rulePP_local {toks : List Line} (f : Line → Line) (hne : ∀ t ∈ toks, t ≠ []) {ps : List Piece} (h : Sep toks ps) :
    ∃ g : Line → Line, (rulePP toks f (flat ps)).1 = flat (mapCode g ps) := by
  simp only [rulePP]
  cases directiveLen toks (flat ps) with
  | some n =>
    refine ⟨id, ?_⟩
    simp only
    clear h
    induction ps with
    | nil => rfl
    | cons p ps ih => simp only [flat, mapCode, id]; rw [← ih]
  | none => exact ⟨scan toks f 0, scan_flat hne h⟩

/-- rules 2 and 3 rewrite code stretches only: their combined effect on a line without macro token in a
literal/comment is `flat (mapCode g (segments b))` for a code rewriter `g` -/
theorem pp_local (b : Line) (h : tokInProt b = false) :
    ∃ g : Line → Line, (ruleIntPP (ruleStrPP b).1).1 = flat (mapCode g (segments b)) := by
  have hsep := segments_sep h
  have hs : Sep strToks (segments b) := hsep.mono strToks_sub
  have hi : Sep intToks (segments b) := hsep.mono intToks_sub
  have hnes : ∀ t ∈ strToks, t ≠ [] := fun t ht => pp_ne t (strToks_sub t ht)
  have hnei : ∀ t ∈ intToks, t ≠ [] := fun t ht => pp_ne t (intToks_sub t ht)
  obtain ⟨g1, h1⟩ := rulePP_local quoteTok hnes hs
  rw [flat_segments] at h1
  obtain ⟨g2, h2⟩ := rulePP_local zeroTok hnei (hi.mapCode g1)
  refine ⟨fun c => g2 (g1 c), ?_⟩
  simp only [ruleIntPP, ruleStrPP]
  rw [h1, h2, mapCode_mapCode]

/-- pieces without protected kind have no protected text -/
theorem segF_kind : ∀ (n : Nat) (l : Line) (p : Piece), p ∈ segF n l → p.kind = .none → p.prot = [] := by
  intro n
  induction n with
  | zero => intro l p hp; simp [segF] at hp
  | succ n ih =>
    intro l p hp hk
    simp only [segF] at hp
    split at hp
    · simp only [List.mem_singleton] at hp; subst hp; rfl
    · split at hp
      · simp only [List.mem_singleton] at hp; subst hp; simp at hk
      · split at hp
        · simp only [List.mem_singleton] at hp; subst hp; simp at hk
        · simp only [List.mem_cons] at hp
          rcases hp with rfl | hp
          · simp at hk
          · exact ih _ p hp hk

end LokiModel.C05
