/-!
# C05: the registry texts the model was written for (hand-maintained copy)

`LokiModel/C05/Model.lean` reproduces the behaviour of exactly these patterns, flags (32 = re.UNICODE,
34 = re.UNICODE|re.IGNORECASE), replacements and post-processing callbacks, in this order.
`C05_registry_pinned` (Props/C05.lean) states that the table regenerated from `/repo` on every run
(`LokiModel/Generated/C05Tables.lean`) is equal to this one; when a regex text, a replacement, the order or
the set of rules changes, that theorem no longer checks and the framework searches for a failing input.
-/
namespace LokiModel.C05

def pinnedRules : List (String × String × String × Nat × String × String) := [
  ("IBM_DIRECTIVES", "regex", "(^\\s*@PROCESS.*\\n)", 32, "'\\n'", "None"),
  ("STRING_PP_DIRECTIVES", "regex", "(?P<pp>^\\s*#.*__(?:FILE|FILENAME|DATE|VERSION)__)|(?P<else>__(?:FILE|FILENAME|DATE|VERSION)__)", 32, "lambda m: m['pp'] or f'\"{m[\"else\"]}\"'", "None"),
  ("INTEGER_PP_DIRECTIVES", "regex", "(?P<pp>^\\s*#.*__LINE__)|(?P<else>__LINE__)", 32, "lambda m: m['pp'] or '0'", "None"),
  ("CONVERT_ENDIAN", "regex", "(?P<ws>^\\s*)(?P<pre>OPEN\\s*\\(.*?)(?P<convert>,?\\s*CONVERT=[\\'\\\"](?:BIG|LITTLE)_ENDIAN[\\'\\\"]\\s*)(?P<post>.*?$)", 34, "r'\\g<ws>\\g<pre>\\g<post>'", "reinsert_convert_endian"),
  ("OPEN_NEWUNIT", "regex", "(?P<ws>^\\s*)(?P<open>OPEN\\s*\\()(?P<args1>.*?)(?P<delim>,)?(?P<newunit_key>,?\\s*NEWUNIT=)(?P<newunit_val>.*?(?=,|\\)|&))(?P<args2>.*?$)", 34, "lambda m: f'{m[\"ws\"]}{m[\"open\"]}{m[\"newunit_val\"]}{m[\"delim\"] or \"\"}' + f'{m[\"args1\"]}{m[\"args2\"]}'", "reinsert_open_newunit"),
  ("FYPP ANNOTATIONS", "regex", "(^\\s*# [1-9].*\\\".*\\.(?:fypp|hypp)\\\"(?:\\s+\\d+)?\\n)", 32, "''", "None")
]

end LokiModel.C05
