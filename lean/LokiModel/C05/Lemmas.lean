import LokiModel.C05.Model
/-!
# C05 helper lemmas (core Lean only)
-/
namespace LokiModel.C05

/-! ## literal matching -/

theorem litLen_isSome_append {t : Line} : ∀ {x : Line} (w : Line), (litLen t x).isSome → (litLen t (x ++ w)).isSome := by
  induction t with
  | nil => intro x w _; simp [litLen]
  | cons p ps ih =>
    intro x w h
    cases x with
    | nil => simp [litLen] at h
    | cons a x' =>
      simp only [List.cons_append, litLen] at h ⊢
      by_cases hp : p = a
      · simp only [hp, if_true, Option.isSome_map] at h ⊢; exact ih w h
      · simp [hp] at h

theorem litLen_len {t : Line} : ∀ {x : Line}, (litLen t x).isSome → t.length ≤ x.length := by
  induction t with
  | nil => intro x _; simp
  | cons p ps ih =>
    intro x h
    cases x with
    | nil => simp [litLen] at h
    | cons a x' =>
      simp only [litLen] at h
      by_cases hp : p = a
      · simp only [hp, if_true, Option.isSome_map] at h; have := ih h; simp; omega
      · simp [hp] at h

/-- a character that does not occur in `t` cuts the match -/
theorem litLen_append_sep {t : Line} {c : Char} (hc : c ∉ t) :
    ∀ (x y : Line), (litLen t (x ++ c :: y)).isSome = (litLen t x).isSome := by
  induction t with
  | nil => intro x y; simp [litLen]
  | cons p ps ih =>
    intro x y
    have hpc : p ≠ c := fun h => hc (by simp [h])
    have hps : c ∉ ps := fun h => hc (by simp [h])
    cases x with
    | nil => simp [litLen, hpc]
    | cons a x' =>
      simp only [List.cons_append, litLen]
      by_cases hp : p = a
      · simp only [hp, if_true, Option.isSome_map]; exact ih hps x' y
      · simp [hp]

/-! ## firstTok / hasTok -/

theorem firstTok_isSome_iff {toks : List Line} {l : Line} :
    (firstTok toks l).isSome ↔ ∃ t ∈ toks, (litLen t l).isSome := by
  induction toks with
  | nil => simp [firstTok]
  | cons t ts ih =>
    simp only [firstTok]
    by_cases h : (litLen t l).isSome
    · simp [h]
    · simp only [h, Bool.false_eq_true, if_false, ih, List.mem_cons]
      constructor
      · rintro ⟨u, hu, hl⟩; exact ⟨u, Or.inr hu, hl⟩
      · rintro ⟨u, hu | hu, hl⟩
        · subst hu; exact absurd hl h
        · exact ⟨u, hu, hl⟩

theorem firstTok_mem {toks : List Line} {l t : Line} (h : firstTok toks l = some t) :
    t ∈ toks ∧ (litLen t l).isSome := by
  induction toks with
  | nil => simp [firstTok] at h
  | cons u us ih =>
    simp only [firstTok] at h
    by_cases hu : (litLen u l).isSome
    · simp only [hu, if_true, Option.some.injEq] at h; subst h; exact ⟨by simp, hu⟩
    · simp only [hu, Bool.false_eq_true, if_false] at h
      have := ih h; exact ⟨by simp [this.1], this.2⟩

theorem firstTok_append_sep {toks : List Line} {c : Char} (hc : ∀ t ∈ toks, c ∉ t) (x y : Line) :
    firstTok toks (x ++ c :: y) = firstTok toks x := by
  induction toks with
  | nil => simp [firstTok]
  | cons t ts ih =>
    simp only [firstTok]
    rw [litLen_append_sep (hc t (by simp)) x y, ih (fun u hu => hc u (by simp [hu]))]

theorem firstTok_nil {toks : List Line} (hne : ∀ t ∈ toks, t ≠ []) : firstTok toks [] = none := by
  induction toks with
  | nil => simp [firstTok]
  | cons t ts ih =>
    simp only [firstTok]
    have : t ≠ [] := hne t (by simp)
    cases t with
    | nil => exact absurd rfl this
    | cons p ps => simp [litLen]; exact ih (fun u hu => hne u (by simp [hu]))

theorem hasTok_cons_false {toks : List Line} {c : Char} {cs : Line} (h : hasTok toks (c :: cs) = false) :
    firstTok toks (c :: cs) = none ∧ hasTok toks cs = false := by
  simp only [hasTok, Bool.or_eq_false_iff] at h
  exact ⟨by simpa using h.1, h.2⟩

theorem hasTok_iff {toks : List Line} {l : Line} :
    hasTok toks l = true ↔ ∃ a b, l = a ++ b ∧ b ≠ [] ∧ (firstTok toks b).isSome := by
  induction l with
  | nil => simp [hasTok]
  | cons c cs ih =>
    simp only [hasTok, Bool.or_eq_true, ih]
    constructor
    · rintro (h | ⟨a, b, rfl, hb, h⟩)
      · exact ⟨[], c :: cs, rfl, by simp, h⟩
      · exact ⟨c :: a, b, rfl, hb, h⟩
    · rintro ⟨a, b, hab, hb, h⟩
      cases a with
      | nil => simp at hab; subst hab; exact Or.inl h
      | cons a0 a' =>
        simp at hab; obtain ⟨rfl, rfl⟩ := hab
        exact Or.inr ⟨a', b, rfl, hb, h⟩

theorem hasTok_suffix {toks : List Line} (a : Line) {b : Line} (h : hasTok toks (a ++ b) = false) :
    hasTok toks b = false := by
  cases hb : hasTok toks b with
  | false => rfl
  | true =>
    obtain ⟨x, y, rfl, hy, hs⟩ := hasTok_iff.mp hb
    have : hasTok toks (a ++ (x ++ y)) = true := hasTok_iff.mpr ⟨a ++ x, y, by simp, hy, hs⟩
    rw [this] at h; exact absurd h (by simp)

theorem hasTok_prefix {toks : List Line} {a : Line} (b : Line) (h : hasTok toks (a ++ b) = false) :
    hasTok toks a = false := by
  cases ha : hasTok toks a with
  | false => rfl
  | true =>
    obtain ⟨x, y, rfl, hy, hs⟩ := hasTok_iff.mp ha
    obtain ⟨t, ht, hl⟩ := firstTok_isSome_iff.mp hs
    have : hasTok toks (x ++ y ++ b) = true :=
      hasTok_iff.mpr ⟨x, y ++ b, by simp, by simp [hy], firstTok_isSome_iff.mpr ⟨t, ht, litLen_isSome_append b hl⟩⟩
    rw [this] at h; exact absurd h (by simp)

theorem hasTok_mono {ts us : List Line} (hsub : ∀ t ∈ ts, t ∈ us) {l : Line} (h : hasTok us l = false) :
    hasTok ts l = false := by
  cases hb : hasTok ts l with
  | false => rfl
  | true =>
    obtain ⟨x, y, rfl, hy, hs⟩ := hasTok_iff.mp hb
    obtain ⟨t, ht, hl⟩ := firstTok_isSome_iff.mp hs
    have : hasTok us (x ++ y) = true := hasTok_iff.mpr ⟨x, y, rfl, hy, firstTok_isSome_iff.mpr ⟨t, hsub t ht, hl⟩⟩
    rw [this] at h; exact absurd h (by simp)

/-! ## scan -/

theorem scan_id {toks : List Line} {f : Line → Line} : ∀ {l : Line}, hasTok toks l = false → scan toks f 0 l = l := by
  intro l
  induction l with
  | nil => intro _; simp [scan]
  | cons c cs ih =>
    intro h
    obtain ⟨h1, h2⟩ := hasTok_cons_false h
    simp only [scan, h1, ih h2]

theorem scanHits_nil {toks : List Line} : ∀ {l : Line}, hasTok toks l = false → scanHits toks 0 l = [] := by
  intro l
  induction l with
  | nil => intro _; simp [scanHits]
  | cons c cs ih =>
    intro h
    obtain ⟨h1, h2⟩ := hasTok_cons_false h
    simp only [scanHits, h1, ih h2]

/-- **locality of the scan**: a character outside all tokens splits the scan into independent halves -/
theorem scan_append_sep {toks : List Line} {f : Line → Line} {c : Char}
    (hc : ∀ t ∈ toks, c ∉ t) (hne : ∀ t ∈ toks, t ≠ []) (y : Line) :
    ∀ (x : Line) (k : Nat), k ≤ x.length →
      scan toks f k (x ++ c :: y) = scan toks f k x ++ c :: scan toks f 0 y := by
  intro x
  induction x with
  | nil =>
    intro k hk
    have : k = 0 := by simpa using hk
    subst this
    have h0 : firstTok toks (c :: y) = none := by
      have := firstTok_append_sep hc [] y
      simpa [firstTok_nil hne] using this
    simp [scan, h0]
  | cons a x' ih =>
    intro k hk
    cases k with
    | succ k' =>
      simp only [List.cons_append, scan]
      exact ih k' (by simpa using hk)
    | zero =>
      have hft : firstTok toks (a :: x' ++ c :: y) = firstTok toks (a :: x') := firstTok_append_sep hc (a :: x') y
      simp only [List.cons_append] at hft
      simp only [List.cons_append, scan, hft]
      cases hf : firstTok toks (a :: x') with
      | none => simp only [ih 0 (by simp), List.cons_append]
      | some t =>
        have hlen := litLen_len (firstTok_mem hf).2
        simp only at hlen ⊢
        rw [ih (t.length - 1) (by simp at hlen; omega)]
        simp

end LokiModel.C05
