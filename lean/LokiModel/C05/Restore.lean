import LokiModel.C05.Rules
/-!
# C05: the groups recorded by the OPEN rules re-assemble to the line the rule was applied to
-/
namespace LokiModel.C05

theorem split3 (l : Line) (a b : Nat) : l.take a ++ ((l.drop a).take b ++ l.drop (a + b)) = l := by
  have h1 := List.take_append_drop b (l.drop a)
  rw [List.drop_drop] at h1
  rw [h1, List.take_append_drop]

theorem ruleConvert_none {b : Line} {nl : Bool} (h : (ruleConvert b nl).2.2 = none) : ruleConvert b nl = (b, nl, none) := by
  unfold ruleConvert at h ⊢
  cases ho : openHead b with
  | none => rfl
  | some wo =>
    obtain ⟨w, o⟩ := wo
    rw [ho] at h
    simp only at h ⊢
    cases hf : findConvert (b.drop (w + o)) with
    | none => rfl
    | some sn => obtain ⟨s, n⟩ := sn; rw [hf] at h; simp at h

/-- the four groups give back the line (plus the newline when the trailing `\s*` swallowed it), and the
sanitised text is `ws ++ pre ++ post` -/
theorem ruleConvert_some {b : Line} {nl : Bool} {g : ConvertGroups} (h : (ruleConvert b nl).2.2 = some g) :
    (∃ e, (e = [] ∨ e = ['\n']) ∧ reinsertConvert g = b ++ e) ∧ (ruleConvert b nl).1 = g.ws ++ g.pre ++ g.post := by
  unfold ruleConvert at h ⊢
  cases ho : openHead b with
  | none => rw [ho] at h; simp at h
  | some wo =>
    obtain ⟨w, o⟩ := wo
    rw [ho] at h
    simp only at h ⊢
    cases hf : findConvert (b.drop (w + o)) with
    | none => rw [hf] at h; simp at h
    | some sn =>
      obtain ⟨s, n⟩ := sn
      rw [hf] at h
      simp only [Option.some.injEq] at h ⊢
      subst h
      refine ⟨?_, rfl⟩
      simp only [reinsertConvert]
      have e1 : List.drop s (List.drop (w + o) b) = List.drop (o + s) (List.drop w b) := by
        simp only [List.drop_drop]; congr 1; omega
      have hb : b.take w ++ ((b.drop w).take (o + s) ++
          (((b.drop w).drop (o + s)).take n ++ ((b.drop w).drop (o + s)).drop n)) = b := by
        rw [List.take_append_drop n, List.take_append_drop (o + s), List.take_append_drop w]
      rw [e1]
      by_cases he : ((List.drop n (List.drop (o + s) (List.drop w b))).isEmpty && nl) = true
      · refine ⟨['\n'], Or.inr rfl, ?_⟩
        simp only [he, if_true]
        have hp : List.drop n (List.drop (o + s) (List.drop w b)) = [] := by
          simp only [Bool.and_eq_true, List.isEmpty_iff] at he; exact he.1
        rw [hp] at hb ⊢
        conv => rhs; rw [← hb]
        simp
      · refine ⟨[], Or.inl rfl, ?_⟩
        simp only [he, Bool.false_eq_true, if_false]
        conv => rhs; rw [← hb]
        simp

theorem ruleNewunit_none {b : Line} (h : (ruleNewunit b).2 = none) : ruleNewunit b = (b, none) := by
  unfold ruleNewunit at h ⊢
  cases ho : openHead b with
  | none => rfl
  | some wo =>
    obtain ⟨w, o⟩ := wo
    rw [ho] at h
    simp only at h ⊢
    cases hf : findKey (b.drop (w + o)) with
    | none => rfl
    | some sdk =>
      obtain ⟨s, d, k⟩ := sdk
      rw [hf] at h
      simp only at h ⊢
      split at h
      · rename_i he; simp only [he, if_true]
      · simp at h

theorem delimKeyAt_spec {l : Line} {d k : Nat} (h : delimKeyAt l = some (d, k)) :
    l.take d = (if d = 1 then [','] else []) := by
  unfold delimKeyAt at h
  split at h
  · rename_i r
    cases hr : keyAt r with
    | some k' => rw [hr] at h; simp only [Option.some.injEq, Prod.mk.injEq] at h; obtain ⟨rfl, _⟩ := h; simp
    | none =>
      rw [hr] at h
      simp only [Option.map_eq_some_iff, Prod.mk.injEq] at h
      obtain ⟨_, _, rfl, _⟩ := h; simp
  · simp only [Option.map_eq_some_iff, Prod.mk.injEq] at h
    obtain ⟨_, _, rfl, _⟩ := h; simp

theorem findKey_spec : ∀ {l : Line} {s d k : Nat}, findKey l = some (s, d, k) →
    (l.drop s).take d = (if d = 1 then [','] else []) := by
  intro l
  induction l with
  | nil =>
    intro s d k h
    simp only [findKey, Option.map_eq_some_iff] at h
    obtain ⟨⟨d', k'⟩, hdk, he⟩ := h
    simp only [Prod.mk.injEq] at he
    obtain ⟨rfl, rfl, rfl⟩ := he
    simpa using delimKeyAt_spec hdk
  | cons c cs ih =>
    intro s d k h
    simp only [findKey] at h
    cases hd : delimKeyAt (c :: cs) with
    | some dk =>
      obtain ⟨d', k'⟩ := dk
      rw [hd] at h
      simp only [Option.some.injEq, Prod.mk.injEq] at h
      obtain ⟨rfl, rfl, rfl⟩ := h
      simpa using delimKeyAt_spec hd
    | none =>
      rw [hd] at h
      simp only [Option.map_eq_some_iff] at h
      obtain ⟨⟨s', d', k'⟩, hf, he⟩ := h
      simp only [Prod.mk.injEq] at he
      obtain ⟨rfl, rfl, rfl⟩ := he
      simpa using ih hf

/-- the seven groups give back the line -/
theorem ruleNewunit_some {b : Line} {g : NewunitGroups} (h : (ruleNewunit b).2 = some g) : reinsertNewunit g = b := by
  unfold ruleNewunit at h
  cases ho : openHead b with
  | none => rw [ho] at h; simp at h
  | some wo =>
    obtain ⟨w, o⟩ := wo
    rw [ho] at h
    simp only at h
    cases hf : findKey (b.drop (w + o)) with
    | none => rw [hf] at h; simp at h
    | some sdk =>
      obtain ⟨s, d, k⟩ := sdk
      rw [hf] at h
      simp only at h
      split at h
      · simp at h
      · simp only [Option.some.injEq] at h
        subst h
        simp only [reinsertNewunit]
        have hdel := findKey_spec hf
        have hd : (if d = 1 then some [','] else none : Option Line).getD [] = (if d = 1 then [','] else []) := by
          by_cases h1 : d = 1 <;> simp [h1]
        rw [hd, ← hdel]
        generalize hR : List.drop (w + o) b = R
        have hR' : List.drop o (List.drop w b) = R := by rw [List.drop_drop]; exact hR
        have hbR : b.take w ++ ((b.drop w).take o ++ R) = b := by
          rw [← hR', List.take_append_drop, List.take_append_drop]
        have hRs : R.take s ++ ((R.drop s).take d ++ ((R.drop (s + d)).take k ++
            ((R.drop (s + d + k)).takeWhile (fun c => !isValEnd c) ++ (R.drop (s + d + k)).dropWhile (fun c => !isValEnd c)))) = R := by
          rw [List.takeWhile_append_dropWhile]
          have := split3 (R.drop s) d k
          rw [List.drop_drop, List.drop_drop, ← Nat.add_assoc] at this
          rw [this, List.take_append_drop]
        conv => rhs; rw [← hbR, ← hRs]
        simp

/-- sanitised text of rule 5 in terms of the groups -/
theorem ruleNewunit_text {b : Line} {g : NewunitGroups} (h : (ruleNewunit b).2 = some g) :
    (ruleNewunit b).1 = g.ws ++ g.opn ++ g.val ++ (g.delim.getD []) ++ g.args1 ++ g.args2 := by
  unfold ruleNewunit at h ⊢
  cases ho : openHead b with
  | none => rw [ho] at h; simp at h
  | some wo =>
    obtain ⟨w, o⟩ := wo
    rw [ho] at h
    simp only at h ⊢
    cases hf : findKey (b.drop (w + o)) with
    | none => rw [hf] at h; simp at h
    | some sdk =>
      obtain ⟨s, d, k⟩ := sdk
      rw [hf] at h
      simp only at h ⊢
      split at h
      · simp at h
      · rename_i hne
        simp only [Option.some.injEq] at h
        subst h
        simp only [hne, Bool.false_eq_true, if_false]

/-- when something follows the convert group (no newline swallowed) the four groups give back exactly the line -/
theorem ruleConvert_some_post {b : Line} {nl : Bool} {g : ConvertGroups} (h : (ruleConvert b nl).2.2 = some g)
    (hp : g.post ≠ []) : reinsertConvert g = b := by
  obtain ⟨⟨e, he, heq⟩, _⟩ := ruleConvert_some h
  rcases he with rfl | rfl
  · simpa using heq
  · -- the newline is only appended to the convert group when `post` is empty
    exfalso
    unfold ruleConvert at h
    cases ho : openHead b with
    | none => rw [ho] at h; simp at h
    | some wo =>
      obtain ⟨w, o⟩ := wo
      rw [ho] at h
      simp only at h
      cases hf : findConvert (b.drop (w + o)) with
      | none => rw [hf] at h; simp at h
      | some sn =>
        obtain ⟨s, n⟩ := sn
        rw [hf] at h
        simp only [Option.some.injEq] at h
        subst h
        simp only [reinsertConvert] at heq
        by_cases hemp : ((List.drop n (List.drop s (List.drop (w + o) b))).isEmpty && nl) = true
        · simp only [Bool.and_eq_true, List.isEmpty_iff] at hemp
          exact hp hemp.1
        · simp only [hemp, Bool.false_eq_true, if_false] at heq
          have e1 : List.drop s (List.drop (w + o) b) = List.drop (o + s) (List.drop w b) := by
            simp only [List.drop_drop]; congr 1; omega
          rw [e1] at heq
          have hb : b.take w ++ ((b.drop w).take (o + s) ++
              (((b.drop w).drop (o + s)).take n ++ ((b.drop w).drop (o + s)).drop n)) = b := by
            rw [List.take_append_drop n, List.take_append_drop (o + s), List.take_append_drop w]
          have hl := congrArg List.length heq
          have hl2 := congrArg List.length hb
          simp only [List.length_append, List.length_cons, List.length_nil] at hl hl2
          omega

/-! ## continuation branch -/

theorem findSub_lt {pat : Line} : ∀ {S : Line} {i : Nat}, findSub pat S = some i → i ≤ S.length := by
  intro S
  induction S with
  | nil => intro i h; simp only [findSub] at h; split at h <;> simp_all
  | cons c cs ih =>
    intro i h
    simp only [findSub] at h
    split at h
    · simp at h; omega
    · simp only [Option.map_eq_some_iff] at h
      obtain ⟨j, hj, rfl⟩ := h
      have := ih hj; simp; omega

/-- if the first occurrence of `part` in `X ++ part ++ T` is the one after `X`, the continuation is `T` right-stripped -/
theorem contTail_suffix (X part T : Line) (h : findSub part (X ++ part ++ T) = some X.length) :
    contTail part (X ++ part ++ T) = rstripWs T := by
  unfold contTail
  rw [h]
  simp only
  congr 1
  rw [List.append_assoc, ← List.length_append, ← List.append_assoc, List.drop_left]

theorem dropWhile_idem (p : Char → Bool) (l : Line) : (l.dropWhile p).dropWhile p = l.dropWhile p := by
  induction l with
  | nil => rfl
  | cons a l ih =>
    simp only [List.dropWhile_cons]
    by_cases ha : p a = true
    · simp [ha, ih]
    · simp [ha]

theorem rstripWs_idem (l : Line) : rstripWs (rstripWs l) = rstripWs l := by
  simp only [rstripWs, List.reverse_reverse, dropWhile_idem]

end LokiModel.C05
