import LokiModel.C05.Lemmas
/-!
# C05: the scan acts on the code stretches of a well-separated decomposition only
-/
namespace LokiModel.C05

/-- `c` occurs in no token -/
def SepC (toks : List Line) (c : Char) : Prop := ∀ t ∈ toks, c ∉ t

/-- a decomposition whose protected stretches start and (unless last) end with a character outside all
tokens and contain no token -/
inductive Sep (toks : List Line) : List Piece → Prop
  | nil : Sep toks []
  | lastNone (code : Line) (k : Kind) : Sep toks [⟨code, k, []⟩]
  | lastProt (code : Line) (k : Kind) (d : Char) (r : Line) :
      SepC toks d → hasTok toks (d :: r) = false → Sep toks [⟨code, k, d :: r⟩]
  | cons (code : Line) (k : Kind) (d : Char) (m : Line) (z : Char) (rest : List Piece) :
      SepC toks d → SepC toks z → hasTok toks (d :: (m ++ [z])) = false → Sep toks rest →
      Sep toks (⟨code, k, d :: (m ++ [z])⟩ :: rest)

theorem Sep.mapCode {toks : List Line} {ps : List Piece} (g : Line → Line) (h : Sep toks ps) :
    Sep toks (mapCode g ps) := by
  induction h with
  | nil => exact Sep.nil
  | lastNone code k => exact Sep.lastNone _ _
  | lastProt code k d r hd hr => exact Sep.lastProt _ _ _ _ hd hr
  | cons code k d m z rest hd hz hm _ ih => exact Sep.cons _ _ _ _ _ _ hd hz hm ih

theorem Sep.mono {ts us : List Line} (hsub : ∀ t ∈ ts, t ∈ us) {ps : List Piece} (h : Sep us ps) : Sep ts ps := by
  induction h with
  | nil => exact Sep.nil
  | lastNone code k => exact Sep.lastNone _ _
  | lastProt code k d r hd hr =>
    exact Sep.lastProt _ _ _ _ (fun t ht => hd t (hsub t ht)) (hasTok_mono hsub hr)
  | cons code k d m z rest hd hz hm _ ih =>
    exact Sep.cons _ _ _ _ _ _ (fun t ht => hd t (hsub t ht)) (fun t ht => hz t (hsub t ht)) (hasTok_mono hsub hm) ih

theorem flat_mapCode_nil (g : Line → Line) : flat (mapCode g []) = [] := rfl

/-- the scan rewrites the code stretches and carries every protected stretch over verbatim -/
theorem scan_flat {toks : List Line} {f : Line → Line} (hne : ∀ t ∈ toks, t ≠ []) {ps : List Piece}
    (h : Sep toks ps) : scan toks f 0 (flat ps) = flat (mapCode (scan toks f 0) ps) := by
  induction h with
  | nil => simp [flat, mapCode, scan]
  | lastNone code k => simp [flat, mapCode]
  | lastProt code k d r hd hr =>
    simp only [flat, mapCode, List.append_nil]
    rw [scan_append_sep hd hne r code 0 (by simp)]
    have : hasTok toks r = false := hasTok_suffix [d] (by simpa using hr)
    rw [scan_id this]
  | cons code k d m z rest hd hz hm _ ih =>
    simp only [flat, mapCode]
    have e : code ++ d :: (m ++ [z]) ++ flat rest = code ++ d :: (m ++ z :: flat rest) := by simp
    rw [e, scan_append_sep hd hne _ code 0 (by simp), scan_append_sep hz hne _ m 0 (by simp), ih]
    have h1 : hasTok toks (m ++ [z]) = false := hasTok_suffix [d] (by simpa using hm)
    have h2 : hasTok toks m = false := hasTok_prefix [z] h1
    rw [scan_id h2]
    simp

/-! ## the segmenter produces such a decomposition -/

theorem dropWhile_head_false {p : Char → Bool} : ∀ {l : Line} {z : Char} {t : Line}, l.dropWhile p = z :: t → p z = false := by
  intro l
  induction l with
  | nil => intro z t h; simp at h
  | cons a l' ih =>
    intro z t h
    simp only [List.dropWhile_cons] at h
    by_cases ha : p a = true
    · simp only [ha, if_true] at h; exact ih h
    · simp only [ha, Bool.false_eq_true, if_false, List.cons.injEq] at h
      obtain ⟨rfl, _⟩ := h; simpa using ha

theorem dropWhile_length_le {p : Char → Bool} (l : Line) : (l.dropWhile p).length ≤ l.length := by
  have := congrArg List.length (List.takeWhile_append_dropWhile (p := p) (l := l))
  simp only [List.length_append] at this; omega

theorem flat_segF : ∀ (n : Nat) (l : Line), l.length < n → flat (segF n l) = l := by
  intro n
  induction n with
  | zero => intro l h; omega
  | succ n ih =>
    intro l hl
    have hsplit := List.takeWhile_append_dropWhile (p := isPlain) (l := l)
    simp only [segF]
    cases hd : l.dropWhile isPlain with
    | nil => simp only [flat]; rw [hd] at hsplit; simpa using hsplit
    | cons d r =>
      rw [hd] at hsplit
      simp only
      by_cases hb : d = '!'
      · simp only [hb, if_true, flat]; rw [hb] at hsplit; simpa using hsplit
      · simp only [hb, if_false]
        have hsplit2 := List.takeWhile_append_dropWhile (p := (· != d)) (l := r)
        cases hr : r.dropWhile (· != d) with
        | nil => simp only [flat]; simpa using hsplit
        | cons z after =>
          rw [hr] at hsplit2
          simp only [flat]
          have hlen : after.length < n := by
            have h1 := congrArg List.length hsplit
            have h2 := congrArg List.length hsplit2
            simp only [List.length_append, List.length_cons] at h1 h2; omega
          rw [ih after hlen]
          calc List.takeWhile isPlain l ++ d :: (List.takeWhile (· != d) r ++ [z]) ++ after
              = List.takeWhile isPlain l ++ d :: (List.takeWhile (· != d) r ++ z :: after) := by simp
            _ = l := by rw [hsplit2, hsplit]

theorem flat_segments (l : Line) : flat (segments l) = l := flat_segF _ l (by omega)

theorem segF_sep {toks : List Line} (hb : SepC toks '!') (hq : SepC toks '\'') (hdq : SepC toks '"') :
    ∀ (n : Nat) (l : Line), l.length < n → (∀ p ∈ segF n l, hasTok toks p.prot = false) → Sep toks (segF n l) := by
  intro n
  induction n with
  | zero => intro l h; omega
  | succ n ih =>
    intro l hl hp
    have hsplit := List.takeWhile_append_dropWhile (p := isPlain) (l := l)
    simp only [segF] at hp ⊢
    cases hd : l.dropWhile isPlain with
    | nil => exact Sep.lastNone _ _
    | cons d r =>
      rw [hd] at hsplit hp
      have hdelim : SepC toks d := by
        have := dropWhile_head_false hd
        simp only [isPlain, Bool.not_eq_false', Bool.or_eq_true, beq_iff_eq] at this
        rcases this with (rfl | rfl) | rfl <;> assumption
      simp only at hp ⊢
      by_cases hbang : d = '!'
      · simp only [hbang, if_true] at hp ⊢
        exact Sep.lastProt _ _ _ _ hb (hp _ List.mem_cons_self)
      · simp only [hbang, if_false] at hp ⊢
        have hsplit2 := List.takeWhile_append_dropWhile (p := (· != d)) (l := r)
        cases hr : r.dropWhile (· != d) with
        | nil =>
          rw [hr] at hp
          simp only at hp
          exact Sep.lastProt _ _ _ _ hdelim (hp _ List.mem_cons_self)
        | cons z after =>
          rw [hr] at hsplit2 hp
          simp only at hp
          have hz : z = d := by
            have := dropWhile_head_false hr
            simpa using this
          have hlen : after.length < n := by
            have h1 := congrArg List.length hsplit
            have h2 := congrArg List.length hsplit2
            simp only [List.length_append, List.length_cons] at h1 h2; omega
          refine Sep.cons _ _ _ _ _ _ hdelim (hz ▸ hdelim) (hp _ List.mem_cons_self) (ih after hlen ?_)
          intro p hpm
          exact hp p (by simp [hpm])

end LokiModel.C05
