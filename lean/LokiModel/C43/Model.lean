/-!
# C43 model: lint auto-fix (`loki/lint/linter.py`, `loki/lint/utils.py`, `lint_rules/…`)

Three parts, all on `List Char` (ASCII text, lines separated by `'\n'`):

## R — what `Fortran90OperatorsRule` DOES (detection) and what its fixer does (it raises)

`check_subroutine` walks the IR with `ComparisonRetriever`; for every IR node and every expression child that
contains a `Comparison` it gets `(node, expr_root, comparisons)`.  The model starts from there: a node is its
source string `node.source.string`, its first line number and the list of `(str(expr_root), {op.operator})`
pairs (produced by the frontend and the expression printer — not modelled, supplied by the harness and
re-derived from the real frontend on every run).  Modelled line by line:

* `Source.find(str(expr_root))` (`sourceFind`): lower-case both; exact substring, else every blank-separated
  piece must occur somewhere and the span is `(find(first), find(last)+len(last))`, else `(None, None)`;
* `Source.clone_lines(span)` (`nodeLines`): `string[a:b].splitlines()`, the whole string for `(None, None)`;
* `strip_inline_comments` on one line (`stripInline`): cut at the first `!` outside `'…'`/`"…"`, `rstrip`;
* per operator, in `sorted` order of the pymbolic operator strings (`!= < <= == > >=`): the first line that
  contains the F90 symbol as a *substring* (after comment stripping), else the first line that contains it
  after the case-insensitive `re.sub('\\.xx\\.', symbol, flags=re.I)` (since the fix of `ops-nonlower-spelling`; before:
  the case-sensitive `str.replace`), else `line[0]` raises `IndexError`;
* `_op_patterns[op].findall` on that single line (`findallF77`): leftmost non-overlapping matches of
  `(\.xx\.)|(symbol)` under `re.I`, `<`/`>` with the `(?!=)` look-ahead; every F77 match is one report.

`fix_subroutine` (since the fix of `ops-fix-raises`) maps every reported node to `node.clone(source=None)`:
`Fixer` rebuilds the body with `Transformer`, the backend regenerates exactly the reported nodes (all their lines,
all their operators, reported or not) and copies everything else from `Source` (`write(conservative=True)`).
`fixOutcome` is `ran` as soon as there is one report, `untouched` otherwise; `fixLines` is the text the running fixer
writes, up to the layout of the regenerated statements (`squash`: blanks, `&`, line breaks and letter case of code are
not modelled — they are the backend's, see C03/C06).

## S — what the fixer is MEANT to do (specification, labelled `spec…`)

A tokenizer `toks` over the file text with a three-state segmenter (code / character literal / comment, reset
at `'\n'`): in code, `.xx.` (any case) with `xx ∈ {eq,ne,lt,le,gt,ge}` is an operator token, everything else is
a one-character token tagged with its state.  `specFix` replaces operator tokens by the F90 symbol,
`specViol` lists them, `symAt` reads an F90 relational symbol (for `fix_sem`).

## U — `DynamicUboundCheckRule` at the abstraction level "inline calls in IF conditions"

`uboundReported` / `uboundRemoved` mirror `check_subroutine` / `fix_subroutine`: the calls are
*not* filtered by name (`get_ubound_checks` takes every inline call in a condition).

Core Lean only.
-/
namespace LokiModel.C43

abbrev Line := List Char

/-- `str.isspace` / `\s` (29 code points; only the ASCII ones occur in generated inputs) -/
def isWs (c : Char) : Bool :=
  let n := c.toNat
  (0x9 ≤ n && n ≤ 0xd) || (0x1c ≤ n && n ≤ 0x20) || n == 0x85 || n == 0xa0 || n == 0x1680 ||
  (0x2000 ≤ n && n ≤ 0x200a) || n == 0x2028 || n == 0x2029 || n == 0x202f || n == 0x205f || n == 0x3000

/-! ## the six relational operators -/

inductive Op where
  | eq | ne | lt | le | gt | ge
deriving DecidableEq, Repr

/-- the Fortran 90 symbol (`op_str` in the rule; the fixer's replacement text) -/
def Op.sym : Op → Line
  | .eq => ['=', '='] | .ne => ['/', '='] | .lt => ['<'] | .le => ['<', '='] | .gt => ['>'] | .ge => ['>', '=']

/-- the F77 spelling as written in `_op_map` (lower case) -/
def Op.f77 : Op → Line
  | .eq => ['.', 'e', 'q', '.'] | .ne => ['.', 'n', 'e', '.'] | .lt => ['.', 'l', 't', '.']
  | .le => ['.', 'l', 'e', '.'] | .gt => ['.', 'g', 't', '.'] | .ge => ['.', 'g', 'e', '.']

/-- `Comparison.operator` (pymbolic spelling; key of `_op_patterns`) -/
def Op.key : Op → String
  | .eq => "==" | .ne => "!=" | .lt => "<" | .le => "<=" | .gt => ">" | .ge => ">="

def Op.ofKey : String → Option Op
  | "==" => some .eq | "!=" => some .ne | "<" => some .lt | "<=" => some .le | ">" => some .gt | ">=" => some .ge
  | _ => none

/-- `sorted({'!=', '<', '<=', '==', '>', '>='})` -/
def sortedOps : List Op := [.ne, .lt, .le, .eq, .gt, .ge]

/-- the operator named by two letters (any case) -/
def opOf (a b : Char) : Option Op :=
  if (a == 'e' || a == 'E') && (b == 'q' || b == 'Q') then some .eq
  else if (a == 'n' || a == 'N') && (b == 'e' || b == 'E') then some .ne
  else if (a == 'l' || a == 'L') && (b == 't' || b == 'T') then some .lt
  else if (a == 'l' || a == 'L') && (b == 'e' || b == 'E') then some .le
  else if (a == 'g' || a == 'G') && (b == 't' || b == 'T') then some .gt
  else if (a == 'g' || a == 'G') && (b == 'e' || b == 'E') then some .ge
  else none

/-! ## R.1 string helpers (Python `str` methods) -/

def startsWith : Line → Line → Bool
  | [], _ => true
  | _ :: _, [] => false
  | p :: ps, c :: cs => p == c && startsWith ps cs

/-- `l.find(pat)` counted from `i` -/
def findGo (pat : Line) : Line → Nat → Option Nat
  | [], i => if pat.isEmpty then some i else none
  | c :: cs, i => if startsWith pat (c :: cs) then some i else findGo pat cs (i + 1)

def find (pat l : Line) : Option Nat := findGo pat l 0

/-- `pat in l` -/
def hasSub (pat l : Line) : Bool := (find pat l).isSome

/-- `str.split()` -/
def splitWsGo : Line → Line → List Line
  | [], cur => if cur.isEmpty then [] else [cur.reverse]
  | c :: cs, cur =>
    if isWs c then (if cur.isEmpty then splitWsGo cs [] else cur.reverse :: splitWsGo cs [])
    else splitWsGo cs (c :: cur)

def splitWs (l : Line) : List Line := splitWsGo l []

/-- `str.splitlines()` for `'\n'` separators -/
def splitLinesGo : Line → Line → List Line
  | [], cur => if cur.isEmpty then [] else [cur.reverse]
  | c :: cs, cur => if c = '\n' then cur.reverse :: splitLinesGo cs [] else splitLinesGo cs (c :: cur)

def splitLines (l : Line) : List Line := splitLinesGo l []

def rstrip (l : Line) : Line := (l.reverse.dropWhile isWs).reverse

/-- `re.I` match of a lower-case ASCII literal at the head of `l` -/
def ciStartsR : Line → Line → Bool
  | [], _ => true
  | _ :: _, [] => false
  | p :: ps, c :: cs => p == c.toLower && ciStartsR ps cs

/-- `str.replace(old, new)` (`old` non-empty): skip counter `k` = characters of a replaced match still to drop -/
def replaceAll (old new : Line) : Nat → Line → Line
  | _, [] => []
  | k + 1, _ :: cs => replaceAll old new k cs
  | 0, c :: cs =>
    if startsWith old (c :: cs) then new ++ replaceAll old new (old.length - 1) cs
    else c :: replaceAll old new 0 cs

/-- `re.sub(re.escape(old), new, l, flags=re.I)` for a lower-case ASCII literal `old` (skip counter as in `replaceAll`) -/
def replaceAllCi (old new : Line) : Nat → Line → Line
  | _, [] => []
  | k + 1, _ :: cs => replaceAllCi old new k cs
  | 0, c :: cs =>
    if ciStartsR old (c :: cs) then new ++ replaceAllCi old new (old.length - 1) cs
    else c :: replaceAllCi old new 0 cs

/-! ## R.2 `Source.find`, `Source.clone_lines` -/

def lower (l : Line) : Line := l.map Char.toLower

/-- `Source.find(string)` with `ignore_case=True, ignore_space=True`; `none` = `(None, None)` -/
def sourceFind (src expr : Line) : Option (Nat × Nat) :=
  if src.isEmpty then none else
  let s := lower expr
  let t := lower src
  match find s t with
  | some i => some (i, i + s.length)
  | none =>
    match splitWs s with
    | [] => none
    | p :: ps =>
      if hasSub p t && (p :: ps).all (hasSub · t) then
        let last := (p :: ps).getLastD p
        match find p t, find last t with
        | some i, some j => some (i, j + last.length)
        | _, _ => none
      else none

/-- `node.source.clone_lines((lstart, lend))`: the lines of `string[lstart:lend]` -/
def nodeLines (src : Line) : Option (Nat × Nat) → List Line
  | none => splitLines src
  | some (a, b) => splitLines ((src.drop a).take (b - a))

/-! ## R.3 `strip_inline_comments` on one line -/

/-- text before the first `!` that is outside a character literal (`opn` = open delimiter) -/
def cutComment : Option Char → Line → Option Line
  | _, [] => none
  | opn, c :: cs =>
    if c = '!' ∧ opn = none then some []
    else
      let opn' : Option Char :=
        if c = '\'' ∨ c = '"' then
          (match opn with
           | none => some c
           | some d => if d = c then none else some d)
        else opn
      (cutComment opn' cs).map (c :: ·)

def stripInline (l : Line) : Line :=
  match cutComment none l with
  | some p => rstrip p
  | none => l

/-! ## R.4 `_op_patterns[op].findall` -/

/-- `re.I` match of a lower-case ASCII literal at the head of `l` -/
def ciStarts : Line → Line → Bool
  | [], _ => true
  | _ :: _, [] => false
  | p :: ps, c :: cs => p == c.toLower && ciStarts ps cs

/-- the `f90` alternative at the head of `l`: the symbol, `<` and `>` not followed by `=` -/
def f90At (k : Op) (l : Line) : Bool :=
  startsWith k.sym l &&
  (match k with
   | .lt | .gt => (match l with | _ :: '=' :: _ => false | _ => true)
   | _ => true)

/-- the non-empty `f77` groups of `findall`, in order (skip counter as in `replaceAll`) -/
def findallF77 (k : Op) : Nat → Line → List Line
  | _, [] => []
  | n + 1, _ :: cs => findallF77 k n cs
  | 0, c :: cs =>
    if ciStarts k.f77 (c :: cs) then (c :: cs).take 4 :: findallF77 k 3 cs
    else if f90At k (c :: cs) then findallF77 k (k.sym.length - 1) cs
    else findallF77 k 0 cs

/-! ## R.5 `check_subroutine` on one node -/

/-- one `rule_report.add`: operator, the F77 text found, first line of the node -/
structure Report where
  op : Op
  f77 : Line
  line : Nat
deriving DecidableEq, Repr

structure ExprInfo where
  str : Line          -- `str(expr_root)`
  ops : List Op       -- `{op.operator for op in expr_list}`
deriving Repr

structure Node where
  line0 : Nat
  src : Line
  exprs : List ExprInfo
deriving Repr

/-- the line picked for one operator: `none` = `line[0]` raises `IndexError` -/
def pickLine (lines : List Line) (k : Op) : Option Line :=
  match lines.filter (fun l => hasSub k.sym (stripInline l)) with
  | l :: _ => some l
  | [] =>
    match lines.filter (fun l => hasSub k.sym (stripInline (replaceAllCi k.f77 k.sym 0 l))) with
    | l :: _ => some l
    | [] => none

def detectOps (line0 : Nat) (lines : List Line) : List Op → Option (List Report)
  | [] => some []
  | k :: ks =>
    match pickLine lines k with
    | none => none
    | some l =>
      (detectOps line0 lines ks).map fun rs =>
        (findallF77 k 0 (stripInline l)).map (fun m => ⟨k, m, line0⟩) ++ rs

def detectExprs (n : Node) : List ExprInfo → Option (List Report)
  | [] => some []
  | e :: es =>
    let lines := nodeLines n.src (sourceFind n.src e.str)
    match detectOps n.line0 lines (sortedOps.filter (· ∈ e.ops)) with
    | none => none
    | some rs => (detectExprs n es).map (rs ++ ·)

/-- all reports of a routine (nodes in the visitor's order); `none` = the check raises `IndexError` -/
def detect : List Node → Option (List Report)
  | [] => some []
  | n :: ns =>
    match detectExprs n n.exprs with
    | none => none
    | some rs => (detect ns).map (rs ++ ·)

/-! ## R.6 `Linter.fix` with `Fortran90OperatorsRule` -/

inductive FixOutcome where
  | untouched      -- `file_report.fixable_reports` is empty: early return, the file is not rewritten
  | ran            -- every reported node is replaced by `node.clone(source=None)` and the file is rewritten
deriving DecidableEq, Repr

def fixOutcome (reports : List Report) : FixOutcome :=
  if reports.isEmpty then .untouched else .ran

/-! ## S — specification of the operator fixer -/

inductive St where
  | code | str (d : Char) | com
deriving DecidableEq, Repr

/-- segmenter state after a non-operator character -/
def step (st : St) (c : Char) : St :=
  if c = '\n' then .code else
  match st with
  | .com => .com
  | .str d => if c = d then .code else .str d
  | .code => if c = '!' then .com else if c = '\'' ∨ c = '"' then .str c else .code

inductive Tok where
  | ch (st : St) (c : Char)          -- one character, tagged with the state it was read in
  | op (k : Op) (a b : Char)         -- `.ab.` in code, `opOf a b = some k`
deriving DecidableEq, Repr

/-- an F77 operator at the head of `l` -/
def opAt : Line → Option (Op × Char × Char × Line)
  | '.' :: a :: b :: '.' :: rest => (opOf a b).map fun k => (k, a, b, rest)
  | _ => none

theorem opAt_eq {l : Line} {k : Op} {a b : Char} {rest : Line} (h : opAt l = some (k, a, b, rest)) :
    l = '.' :: a :: b :: '.' :: rest ∧ opOf a b = some k := by
  unfold opAt at h
  split at h
  · rename_i a' b' rest'
    cases hk : opOf a' b' with
    | none => simp [hk] at h
    | some k' =>
      simp only [hk, Option.map_some, Option.some.injEq, Prod.mk.injEq] at h
      obtain ⟨rfl, rfl, rfl, rfl⟩ := h
      exact ⟨rfl, hk⟩
  · simp at h

/-- operator lookup in state `st`: only code is scanned -/
def opIn (st : St) (l : Line) : Option (Op × Char × Char × Line) :=
  if st = .code then opAt l else none

theorem opIn_eq {st : St} {l : Line} {k : Op} {a b : Char} {rest : Line} (h : opIn st l = some (k, a, b, rest)) :
    st = .code ∧ l = '.' :: a :: b :: '.' :: rest ∧ opOf a b = some k := by
  unfold opIn at h
  split at h
  · rename_i hst; exact ⟨hst, opAt_eq h⟩
  · simp at h

def toks : St → Line → List Tok
  | _, [] => []
  | st, c :: cs =>
    match h : opIn st (c :: cs) with
    | some (k, a, b, rest) => .op k a b :: toks .code rest
    | none => .ch st c :: toks (step st c) cs
termination_by _ l => l.length
decreasing_by
  · have := (opIn_eq h).2.1
    have hl := congrArg List.length this
    simp only [List.length_cons] at hl ⊢
    omega
  · simp

def Tok.orig : Tok → Line
  | .ch _ c => [c]
  | .op _ a b => ['.', a, b, '.']

def Tok.fixed : Tok → Line
  | .ch _ c => [c]
  | .op k _ _ => k.sym

def Tok.isOp : Tok → Bool
  | .op _ _ _ => true
  | .ch _ _ => false

def render (ts : List Tok) : Line := ts.flatMap Tok.orig
def renderFixed (ts : List Tok) : Line := ts.flatMap Tok.fixed

/-- SPEC: the text after the fix -/
def specFix (st : St) (l : Line) : Line := renderFixed (toks st l)

/-- SPEC: the violations (operator and its spelling), in order -/
def specViol (st : St) (l : Line) : List (Op × Line) :=
  (toks st l).filterMap fun t => match t with
    | .op k a b => some (k, ['.', a, b, '.'])
    | .ch _ _ => none

/-- the protected text: characters read inside literals and comments (and the delimiters that close a literal) -/
def protText (ts : List Tok) : Line :=
  ts.filterMap fun t => match t with
    | .ch (.str _) c => some c
    | .ch .com c => some c
    | _ => none

/-! ### meaning of the relational tokens (for `fix_sem`) -/

/-- F90 relational symbol at the head of code text: operator and number of characters.
(`=>` is not matched: its first character is `=` followed by `>`.) -/
def symAt : Line → Option (Op × Nat)
  | '=' :: '=' :: _ => some (.eq, 2)
  | '/' :: '=' :: _ => some (.ne, 2)
  | '<' :: '=' :: _ => some (.le, 2)
  | '>' :: '=' :: _ => some (.ge, 2)
  | '<' :: _ => some (.lt, 1)
  | '>' :: _ => some (.gt, 1)
  | _ => none

/-! ## U — `DynamicUboundCheckRule` -/

/-- an inline call in an IF condition: function name, first argument name (lower case), the other
argument as an integer literal if it is one -/
structure ICall where
  fn : String
  arg : String
  dim : Option Nat
  cond : Nat          -- index of the `Conditional` it occurs in
  bound : String := ""    -- the other operand of the `<` / `>` comparison the call occurs in (lower case)
  left : Bool := true     -- the call is the left operand
deriving DecidableEq, Repr

structure UArg where
  name : String
  rank : Nat
  assumed : Bool      -- every dimension is `:`
deriving DecidableEq, Repr

/-- `checks = [c for c in ubound_checks if arg.name in c.arguments]` (no test of the function name) -/
def checksOf (calls : List ICall) (a : UArg) : List ICall := calls.filter (·.arg == a.name)

/-- `all(IntLiteral(d+1) in params for d in range(len(arg.shape)))` -/
def allDims (calls : List ICall) (a : UArg) : Bool :=
  (List.range a.rank).all fun d => (checksOf calls a).any (·.dim == some (d + 1))

/-- the arguments `check_subroutine` reports, in argument order -/
def uboundReported (args : List UArg) (calls : List ICall) : List String :=
  (args.filter fun a => a.assumed && allDims calls a).map (·.name)

/-- `params = {p: c …}`: a dict, the LAST call with that literal wins -/
def condOfDim (calls : List ICall) (a : UArg) (d : Nat) : Option Nat :=
  ((checksOf calls a).filter (·.dim == some d)).getLast?.map (·.cond)

/-- the `Conditional`s `fix_subroutine` maps to `None` -/
def uboundRemoved (args : List UArg) (calls : List ICall) : List Nat :=
  ((args.filter fun a => a.assumed && allDims calls a).flatMap fun a =>
    (List.range a.rank).filterMap fun d => condOfDim calls a (d + 1)).eraseDups

/-- the comparison `fix_subroutine` takes the new extent of dimension `d` from: the first comparison of the chosen
`Conditional` that mentions the argument *and* the literal `d` (`arg.name in c and IntLiteral(d) in c`) -/
def compOfDim (calls : List ICall) (a : UArg) (d : Nat) : Option ICall :=
  match condOfDim calls a d with
  | none => none
  | some ci => calls.find? fun c => c.cond == ci && c.arg == a.name && c.dim == some d

/-- `str(call)` in lower case -/
def ICall.text (c : ICall) : String :=
  c.fn ++ "(" ++ c.arg ++ ", " ++ (match c.dim with | some d => toString d | none => "?") ++ ")"

/-- `new_shape += cond.right if 'ubound' in cond.left else cond.left` -/
def ICall.extent (c : ICall) : String :=
  if c.left then (if c.fn == "ubound" then c.bound else c.text) else c.bound

/-- the new declared shape of a reported argument (`?` where no comparison is found: the real code raises) -/
def uboundShape (calls : List ICall) (a : UArg) : List String :=
  (List.range a.rank).map fun d => match compOfDim calls a (d + 1) with
    | some c => c.extent
    | none => "?"

def uboundShapes (args : List UArg) (calls : List ICall) : List (String × List String) :=
  (args.filter fun a => a.assumed && allDims calls a).map fun a => (a.name, uboundShape calls a)

/-! ## R.7 the text written by the running fixer (modulo layout) -/

def inRanges (rs : List (Nat × Nat)) (i : Nat) : Bool := rs.any fun r => r.1 ≤ i && i ≤ r.2

/-- the lines selected by `p` are fixed as the specification says, every other line is copied -/
def fixLines (p : Nat → Bool) : Nat → List Line → List Line
  | _, [] => []
  | i, l :: ls => (if p i then specFix .code l else l) :: fixLines p (i + 1) ls

def Node.range (n : Node) : Nat × Nat := (n.line0, n.line0 + (n.src.filter (· == '\n')).length)

/-- line ranges of the nodes that carry a report -/
def reportedRanges (nodes : List Node) (reports : List Report) : List (Nat × Nat) :=
  (nodes.filter fun n => reports.any (·.line == n.line0)).map Node.range

def strictlyInside (q r : Nat × Nat) : Bool := (r.1 < q.1 && q.2 ≤ r.2) || (r.1 ≤ q.1 && q.2 < r.2)

/-- the lines the backend regenerates: lines of a reported node that do not belong to a nested node with comparisons of
its own (body statements and ELSE IF branches keep their `Source` and are copied) -/
def rewritten (nodes : List Node) (reports : List Report) (i : Nat) : Bool :=
  (reportedRanges nodes reports).any fun r =>
    inRanges [r] i && !(nodes.any fun m => strictlyInside m.range r && inRanges [m.range] i)

/-- layout-free reading of a text: code without blanks and `&` in lower case, literals verbatim, comments dropped
(their `!` kept) -/
def squash (ts : List Tok) : Line :=
  ts.flatMap fun t => match t with
    | .op _ a b => ['.', a.toLower, b.toLower, '.']
    | .ch .code c => if isWs c || c == '&' then [] else [c.toLower]
    | .ch (.str _) c => [c]
    | .ch .com _ => []

def joinLines : List Line → Line
  | [] => []
  | [l] => l
  | l :: ls => l ++ '\n' :: joinLines ls

/-- `text.split('\n')` -/
def splitNl : Line → Line → List Line
  | [], cur => [cur.reverse]
  | c :: cs, cur => if c = '\n' then cur.reverse :: splitNl cs [] else splitNl cs (c :: cur)

def fixedSquash (text : Line) (nodes : List Node) (reports : List Report) : Line :=
  squash (toks .code (joinLines (fixLines (rewritten nodes reports) 1 (splitNl text []))))

/-! ## decidable known-finding classes (mirrored in `harness/props/c43.py`) -/

def strText (ts : List Tok) : Line :=
  ts.filterMap fun t => match t with
    | .ch (.str _) c => some c
    | _ => none

def codeChars (ts : List Tok) : Line :=
  ts.filterMap fun t => match t with
    | .ch .code c => some c
    | _ => none

/-- code characters with operator tokens in their spelling -/
def codeCharsAll (ts : List Tok) : Line :=
  ts.flatMap fun t => match t with
    | .ch .code c => [c]
    | .op _ a b => ['.', a, b, '.']
    | _ => []

def hasOpText : Line → Bool
  | [] => false
  | c :: cs => (opAt (c :: cs)).isSome || hasOpText cs

/-- `ops-lookalike-in-literal`: a character literal contains `<`, `>`, `=` or `.xx.` -/
def KnownLiteral (l : Line) : Bool :=
  let s := strText (toks .code l)
  s.any (fun c => c == '<' || c == '>' || c == '=') || hasOpText s

def isWordC (c : Char) : Bool := c.isAlphanum || c == '_'

def kwAt (kw l : Line) : Bool :=
  ciStarts kw l && (match l.drop kw.length with | [] => true | c :: _ => !isWordC c)

/-- `ops-unparsed-statement`: an F77 operator in a PRINT/WRITE/READ statement (kept as text by the frontend) -/
def KnownUnparsed (l : Line) : Bool :=
  (splitLines l).any fun ln =>
    let t := ln.dropWhile isWs
    (kwAt "print".toList t || kwAt "write".toList t || kwAt "read".toList t) && !(specViol .code ln).isEmpty

def hasF90Rel (c : Line) : Bool :=
  c.any (fun x => x == '<' || x == '>') || hasSub ['=', '='] c || hasSub ['/', '='] c

/-- `ops-mixed-spelling-in-node`: one IR node whose source has an F77 operator and an F90 relational symbol in code -/
def KnownMixed (nodes : List Node) : Bool :=
  nodes.any fun n => !(specViol .code n.src).isEmpty && hasF90Rel (codeChars (toks .code n.src))

/-- `ops-same-op-on-several-lines`: one IR node with the same F77 operator on more than one of its lines -/
def KnownSeveral (nodes : List Node) : Bool :=
  nodes.any fun n => sortedOps.any fun k =>
    ((splitLines n.src).filter fun ln => (specViol .code ln).any (·.1 == k)).length > 1

/-- `ops-span-heuristic`: `Source.find(str(expr))` has no exact (lower-case) match but its blank-separated pieces all
occur somewhere: the span `(find(first piece), find(last piece) + len)` is then an arbitrary stretch of the statement -/
def KnownSpan (nodes : List Node) : Bool :=
  nodes.any fun n => n.exprs.any fun e =>
    (find (lower e.str) (lower n.src)).isNone && (sourceFind n.src e.str).isSome

/-! ### classes of the running fixer (conservative write-back of a file with regenerated statements) -/

/-- code part of a line (before the comment), blanks stripped on the right, lower case -/
def lineCode (l : Line) : Line := lower (rstrip ((codeCharsAll (toks .code l)).filter (· != '!')))

def endsWith (suf l : Line) : Bool := startsWith suf.reverse l.reverse

/-- the line starts with keyword `kw` (any case) followed by a non-word character -/
def lineKw (kw : String) (l : Line) : Bool := kwAt kw.toList (l.dropWhile isWs)

def startsIf (l : Line) : Bool :=
  lineKw "if" l && (match ((l.dropWhile isWs).drop 2).dropWhile isWs with | '(' :: _ => true | _ => false)

/-- `fix-header-continuation-lost`: the header of an IF / ELSE IF / DO WHILE construct is continued with `&` -/
def KnownHeaderContinued (text : Line) : Bool :=
  (splitNl text []).any fun l =>
    (lineKw "if" l || lineKw "else" l || lineKw "do" l) && endsWith ['&'] (lineCode l)

/-- `fix-comment-displaced`: a trailing comment on a statement that is not an assignment, or on a line of a continued statement -/
def KnownTrailingComment (text : Line) : Bool :=
  (splitNl text []).any fun l =>
    (lineKw "if" l || lineKw "else" l || lineKw "do" l || lineKw "call" l || lineKw "print" l || lineKw "end" l ||
      endsWith ['&'] (lineCode l) || startsWith ['&'] ((lineCode l).dropWhile isWs)) &&
    (toks .code l).any (fun t => match t with | .ch .com _ => true | _ => false)

/-- `fix-while-loop-regenerated`: a DO (WHILE) construct of the routine that is not itself reported (the conservative
writer has no INVALID_CHILDREN branch for `WhileLoop`: header, END DO and the literals of the header are regenerated) -/
def unreportedDo (rs : List (Nat × Nat)) : Nat → List Line → Bool
  | _, [] => false
  | i, l :: rest => (lineKw "do" l && !inRanges rs i) || unreportedDo rs (i + 1) rest

def KnownEnclosingDo (text : Line) (rs : List (Nat × Nat)) : Bool := unreportedDo rs 1 (splitNl text [])

/-- `fix-nested-report-skipped`: a reported node lies inside another reported node (ELSE IF branch, body statement) -/
def KnownNestedReport (rs : List (Nat × Nat)) : Bool :=
  rs.any fun r => rs.any fun q => strictlyInside r q

/-- `fix-literal-requoted`: a reported node contains a `"…"` literal -/
def KnownDoubleQuote (nodes : List Node) (reports : List Report) : Bool :=
  (nodes.filter fun n => reports.any (·.line == n.line0)).any fun n =>
    (toks .code n.src).any fun t => match t with | .ch (.str '"') _ => true | _ => false

end LokiModel.C43
