import LokiModel.C43.Model
/-! # C43 lemmas about the specification tokenizer -/
namespace LokiModel.C43

/-! ## unfolding `toks` -/

theorem toks_nil (st : St) : toks st [] = [] := by rw [toks]

theorem toks_op {st : St} {c : Char} {cs : Line} {k : Op} {a b : Char} {rest : Line}
    (h : opIn st (c :: cs) = some (k, a, b, rest)) : toks st (c :: cs) = .op k a b :: toks .code rest := by
  rw [toks]; split
  · rename_i k' a' b' rest' h'
    rw [h] at h'
    simp only [Option.some.injEq, Prod.mk.injEq] at h'
    obtain ⟨rfl, rfl, rfl, rfl⟩ := h'; rfl
  · rename_i h'; rw [h] at h'; simp at h'

theorem toks_ch {st : St} {c : Char} {cs : Line} (h : opIn st (c :: cs) = none) :
    toks st (c :: cs) = .ch st c :: toks (step st c) cs := by
  rw [toks]; split
  · rename_i h'; rw [h] at h'; simp at h'
  · rfl

theorem render_cons (t : Tok) (ts : List Tok) : render (t :: ts) = t.orig ++ render ts := by
  simp [render]

theorem renderFixed_cons (t : Tok) (ts : List Tok) : renderFixed (t :: ts) = t.fixed ++ renderFixed ts := by
  simp [renderFixed]

theorem specFix_nil (st : St) : specFix st [] = [] := by simp [specFix, toks_nil, renderFixed]

theorem specFix_op {st : St} {c : Char} {cs : Line} {k : Op} {a b : Char} {rest : Line}
    (h : opIn st (c :: cs) = some (k, a, b, rest)) : specFix st (c :: cs) = k.sym ++ specFix .code rest := by
  simp [specFix, toks_op h, renderFixed_cons, Tok.fixed]

theorem specFix_ch {st : St} {c : Char} {cs : Line} (h : opIn st (c :: cs) = none) :
    specFix st (c :: cs) = c :: specFix (step st c) cs := by
  simp [specFix, toks_ch h, renderFixed_cons, Tok.fixed]

/-! ## the tokenizer is lossless -/

theorem render_toks_aux : ∀ (n : Nat) (st : St) (l : Line), l.length ≤ n → render (toks st l) = l := by
  intro n
  induction n with
  | zero =>
    intro st l hl
    have : l = [] := List.eq_nil_of_length_eq_zero (by omega)
    subst this; simp [toks_nil, render]
  | succ n ih =>
    intro st l hl
    cases l with
    | nil => simp [toks_nil, render]
    | cons c cs =>
      cases h : opIn st (c :: cs) with
      | none =>
        rw [toks_ch h, render_cons, ih _ cs (by simpa using hl)]; rfl
      | some v =>
        obtain ⟨k, a, b, rest⟩ := v
        obtain ⟨_, hl', _⟩ := opIn_eq h
        rw [toks_op h, render_cons, ih _ rest (by rw [hl'] at hl; simp at hl; omega), hl']; rfl

/-! ## characters -/

def isSymChar (c : Char) : Bool := c == '=' || c == '/' || c == '<' || c == '>'

theorem sym_ne_nil (k : Op) : ∃ x r, k.sym = x :: r ∧ isSymChar x = true := by
  cases k <;> simp [Op.sym, isSymChar]

/-- a character that is not `.` never starts an operator -/
theorem opIn_nondot {st : St} {c : Char} {cs : Line} (hc : c ≠ '.') : opIn st (c :: cs) = none := by
  cases h : opIn st (c :: cs) with
  | none => rfl
  | some v =>
    obtain ⟨k, a, b, rest⟩ := v
    obtain ⟨_, hl, _⟩ := opIn_eq h
    simp only [List.cons.injEq] at hl
    exact absurd hl.1 hc

theorem toks_sym (k : Op) (X : Line) : toks .code (k.sym ++ X) = k.sym.map (Tok.ch .code) ++ toks .code X := by
  cases k <;> simp only [Op.sym, List.cons_append, List.nil_append, List.map_cons, List.map_nil]
  all_goals
    first
    | (rw [toks_ch (opIn_nondot (by decide)), toks_ch (opIn_nondot (by decide))]; rfl)
    | (rw [toks_ch (opIn_nondot (by decide))]; rfl)

def isL1 (a : Char) : Bool :=
  a == 'e' || a == 'E' || a == 'n' || a == 'N' || a == 'l' || a == 'L' || a == 'g' || a == 'G'

def isL2 (a : Char) : Bool := a == 'q' || a == 'Q' || a == 'e' || a == 'E' || a == 't' || a == 'T'

/-- the first letter of an operator name -/
theorem opOf_fst {a b : Char} {k : Op} (h : opOf a b = some k) : isL1 a = true := by
  cases hh : isL1 a with
  | true => rfl
  | false =>
    simp only [isL1, Bool.or_eq_false_iff] at hh
    obtain ⟨⟨⟨⟨⟨⟨⟨h1, h2⟩, h3⟩, h4⟩, h5⟩, h6⟩, h7⟩, h8⟩ := hh
    simp [opOf, h1, h2, h3, h4, h5, h6, h7, h8] at h

theorem opOf_snd {a b : Char} {k : Op} (h : opOf a b = some k) : isL2 b = true := by
  cases hh : isL2 b with
  | true => rfl
  | false =>
    simp only [isL2, Bool.or_eq_false_iff] at hh
    obtain ⟨⟨⟨⟨⟨h1, h2⟩, h3⟩, h4⟩, h5⟩, h6⟩ := hh
    simp [opOf, h1, h2, h3, h4, h5, h6] at h

theorem isL1_facts {a : Char} (h : isL1 a = true) :
    a ≠ '.' ∧ step .code a = .code ∧ isSymChar a = false := by
  simp only [isL1, Bool.or_eq_true, beq_iff_eq] at h
  rcases h with ((((((h|h)|h)|h)|h)|h)|h)|h <;> subst h <;> decide

theorem isL2_facts {a : Char} (h : isL2 a = true) :
    a ≠ '.' ∧ step .code a = .code ∧ isSymChar a = false := by
  simp only [isL2, Bool.or_eq_true, beq_iff_eq] at h
  rcases h with ((((h|h)|h)|h)|h)|h <;> subst h <;> decide

/-! ## the head of the fixed text -/

/-- if the fixed code text starts with a character that is not one of `= / < >`, that character was read
verbatim from the input, at a position where no operator starts -/
theorem specFix_code_head {l : Line} {x : Char} {r : Line} (h : specFix .code l = x :: r)
    (hx : isSymChar x = false) :
    ∃ cs, l = x :: cs ∧ opIn .code l = none ∧ r = specFix (step .code x) cs := by
  cases l with
  | nil => simp [specFix_nil] at h
  | cons c cs =>
    cases ho : opIn .code (c :: cs) with
    | none =>
      rw [specFix_ch ho] at h
      simp only [List.cons.injEq] at h
      obtain ⟨rfl, rfl⟩ := h
      exact ⟨cs, rfl, rfl, rfl⟩
    | some v =>
      obtain ⟨k, a, b, rest⟩ := v
      rw [specFix_op ho] at h
      obtain ⟨y, r', hk, hy⟩ := sym_ne_nil k
      rw [hk] at h
      simp only [List.cons_append, List.cons.injEq] at h
      obtain ⟨rfl, _⟩ := h
      rw [hy] at hx; cases hx

/-- an operator at the head of `'.' :: specFix code cs` was already at the head of `'.' :: cs` -/
theorem opAt_fixed_tail {cs : Line} (h : opAt ('.' :: cs) = none) : opAt ('.' :: specFix .code cs) = none := by
  cases h' : opAt ('.' :: specFix .code cs) with
  | none => rfl
  | some v =>
    exfalso
    obtain ⟨k, a, b, rest⟩ := v
    obtain ⟨hl, hk⟩ := opAt_eq h'
    simp only [List.cons.injEq, true_and] at hl
    obtain ⟨ha1, ha2, ha3⟩ := isL1_facts (opOf_fst hk)
    obtain ⟨hb1, hb2, hb3⟩ := isL2_facts (opOf_snd hk)
    obtain ⟨cs1, rfl, _, hr1⟩ := specFix_code_head hl ha3
    rw [ha2] at hr1
    obtain ⟨cs2, rfl, _, hr2⟩ := specFix_code_head hr1.symm hb3
    rw [hb2] at hr2
    obtain ⟨cs3, rfl, _, _⟩ := specFix_code_head hr2.symm (by decide)
    simp [opAt, hk] at h

/-! ## re-tokenizing the fixed text -/

/-- the token list of the fixed text: operator tokens become the characters of their symbol, read as code -/
def fixToks (ts : List Tok) : List Tok :=
  ts.flatMap fun t => match t with
    | .ch s c => [.ch s c]
    | .op k _ _ => k.sym.map (Tok.ch .code)

theorem fixToks_cons_ch (s : St) (c : Char) (ts : List Tok) : fixToks (.ch s c :: ts) = .ch s c :: fixToks ts := by
  simp [fixToks]

theorem fixToks_cons_op (k : Op) (a b : Char) (ts : List Tok) :
    fixToks (.op k a b :: ts) = k.sym.map (Tok.ch .code) ++ fixToks ts := by
  simp [fixToks]

theorem retok_aux : ∀ (n : Nat) (st : St) (l : Line), l.length ≤ n → toks st (specFix st l) = fixToks (toks st l) := by
  intro n
  induction n with
  | zero =>
    intro st l hl
    have : l = [] := List.eq_nil_of_length_eq_zero (by omega)
    subst this; simp [specFix_nil, toks_nil, fixToks]
  | succ n ih =>
    intro st l hl
    cases l with
    | nil => simp [specFix_nil, toks_nil, fixToks]
    | cons c cs =>
      cases h : opIn st (c :: cs) with
      | none =>
        rw [specFix_ch h, toks_ch h, fixToks_cons_ch]
        have hno : opIn st (c :: specFix (step st c) cs) = none := by
          by_cases hc : c = '.'
          · subst hc
            unfold opIn at h ⊢
            by_cases hst : st = .code
            · subst hst
              simp only [if_true] at h ⊢
              have : step St.code '.' = St.code := by decide
              rw [this]; exact opAt_fixed_tail h
            · simp [hst]
          · exact opIn_nondot hc
        rw [toks_ch hno, ih _ cs (by simpa using hl)]
      | some v =>
        obtain ⟨k, a, b, rest⟩ := v
        obtain ⟨hst, hl', _⟩ := opIn_eq h
        rw [specFix_op h, toks_op h, fixToks_cons_op]
        subst hst
        rw [toks_sym, ih _ rest (by rw [hl'] at hl; simp at hl; omega)]

theorem fixToks_noop : ∀ (ts : List Tok), ∀ t ∈ fixToks ts, t.isOp = false := by
  intro ts
  induction ts with
  | nil => intro t h; simp [fixToks] at h
  | cons t ts ih =>
    intro u hu
    cases t with
    | ch s c =>
      rw [fixToks_cons_ch] at hu
      rcases List.mem_cons.mp hu with rfl | hu
      · rfl
      · exact ih u hu
    | op k a b =>
      rw [fixToks_cons_op] at hu
      rcases List.mem_append.mp hu with hu | hu
      · obtain ⟨c, _, rfl⟩ := List.mem_map.mp hu; rfl
      · exact ih u hu

theorem renderFixed_fixToks : ∀ (ts : List Tok), renderFixed (fixToks ts) = renderFixed ts := by
  intro ts
  induction ts with
  | nil => simp [fixToks, renderFixed]
  | cons t ts ih =>
    cases t with
    | ch s c => rw [fixToks_cons_ch, renderFixed_cons, renderFixed_cons, ih]
    | op k a b =>
      rw [fixToks_cons_op, renderFixed_cons]
      have : renderFixed (k.sym.map (Tok.ch .code) ++ fixToks ts) = k.sym ++ renderFixed (fixToks ts) := by
        cases k <;> simp [Op.sym, renderFixed, Tok.fixed]
      rw [this, ih]; rfl

theorem protText_cons_ch (s : St) (c : Char) (ts : List Tok) :
    protText (.ch s c :: ts) = (match s with | .code => [] | _ => [c]) ++ protText ts := by
  cases s <;> simp [protText]

theorem protText_fixToks : ∀ (ts : List Tok), protText (fixToks ts) = protText ts := by
  intro ts
  induction ts with
  | nil => simp [fixToks, protText]
  | cons t ts ih =>
    cases t with
    | ch s c => rw [fixToks_cons_ch, protText_cons_ch, protText_cons_ch, ih]
    | op k a b =>
      rw [fixToks_cons_op]
      have : protText (k.sym.map (Tok.ch .code) ++ fixToks ts) = protText (fixToks ts) := by
        cases k <;> simp [Op.sym, protText]
      rw [this, ih]; simp [protText]

end LokiModel.C43
