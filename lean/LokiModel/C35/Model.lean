import LokiModel.C06.Model
import LokiModel.Fir.Sem
import LokiModel.Generated.C35Tables
import LokiModel.C10.Model
/-!
# C35 model: Fortran → C transpilation, subscripts, operators, argument passing

Value-level model of what `FortranCTransformation.generate_c_kernel` does to an array subscript
(`loki/transformations/array_indexing/array_indices.py`), in the order the code applies the steps:

1. `normalize_array_shape_and_access` — a dimension declared `lo:hi` becomes `1:hi-lo+1`, its subscript `i` becomes `i - lo + 1`;
2. `invert_array_indices` — subscript list and shape are reversed;
3. `shift_to_zero_indexing` — every subscript gets `- 1`;
4. `flatten_arrays(order='C', start_index=0)` — `new_dims(dims[::-1], shape[::-1])`: repeatedly replaces the last two subscripts
   `…, p, l` by `…, p + shape[-2]*(l - start_index)` and drops the last shape entry (`flatRev` works on the reversed lists so that
   "the last two" are the first two).

`evalC` is the C99 value of a meaning tree: `/` on two `int`s truncates (6.5.5), `pow` returns `double` whatever the operands,
`&&`/`||` short-circuit; `cDiv`/`cMod` are C99's definitions of `/` and `%` on integers (algebraic quotient with the fraction
discarded; `(a/b)*b + a%b == a`), stated independently of `Int.tdiv`/`Int.tmod` so that the agreement with Fortran is a theorem.
Core Lean only.
-/
namespace LokiModel.C35
open LokiModel.Expr LokiModel.C06

/-! ### subscripts -/

def normIdx (lo i : Int) : Int := i - lo + 1
def normExt (b : Int × Int) : Int := b.2 - b.1 + 1

/-- `new_dims` of `flatten_arrays` on reversed lists (head = last subscript / last shape entry), `start` = `start_index` -/
def flatRev (start : Int) : List Int → List Int → List Int
  | l :: p :: rest, _sl :: sp :: srest => flatRev start ((p + sp * (l - start)) :: rest) (sp :: srest)
  | ds, _ => ds
termination_by ds => ds.length

/-- the subscript list of the generated C code for Fortran subscripts `idx` of an array declared with `bounds` -/
def cSubscripts (bounds : List (Int × Int)) (idx : List Int) : List Int :=
  let d1 := List.zipWith (fun b i => normIdx b.1 i) bounds idx      -- 1
  let s1 := bounds.map normExt
  let d2 := d1.reverse                                              -- 2
  let s2 := s1.reverse
  let d3 := d2.map (· - 1)                                          -- 3
  -- 4: new_dims(dims[::-1], shape[::-1]); flatRev takes these two lists reversed, i.e. d3 and s2 themselves
  (flatRev 0 d3 s2).reverse

/-- the single flat subscript (rank ≥ 1) -/
def cIndex (bounds : List (Int × Int)) (idx : List Int) : Option Int :=
  match cSubscripts bounds idx with
  | [k] => some k
  | _ => none

/-! ### operators -/

/-- C99 6.5.5 `/` on integers: the algebraic quotient with any fractional part discarded -/
def cDiv (a b : Int) : Int := a.sign * b.sign * ((a.natAbs / b.natAbs : Nat) : Int)
/-- C99 6.5.5 `%`: `(a/b)*b + a%b == a` -/
def cMod (a b : Int) : Int := a - cDiv a b * b
/-- Fortran `a / b` on integers (F2018 10.1.5.2.2: truncation toward zero) and `MOD(a, p) = a - INT(a/p)*p` -/
def fDiv (a b : Int) : Int := a.tdiv b
def fMod (a b : Int) : Int := a - a.tdiv b * b

/-- `CCodeMapper.map_inline_call` for `mod`: `fmod` when any variable is not an integer or a real literal occurs, else `%` -/
inductive ModOp where | pct | fmod
deriving Repr, DecidableEq
def modChoice (anyNonIntVar anyRealLit : Bool) : ModOp := if anyNonIntVar || anyRealLit then .fmod else .pct

/-- C `pow`: always a `double` -/
def cPow : Val → Val → Option Val
  | .int a, .int b =>
      if 0 ≤ b then some (.real (Val.rpowNat (a : Rat) b.toNat))
      else if a = 0 then none else some (.real (1 / Val.rpowNat (a : Rat) (-b).toNat))
  | .real a, .int b => (Val.rpow a b).map .real
  | _, _ => none

def evalC (env : Env) : S → Option Val
  | .int n => some (.int n)
  | .real t => some (.real (env.lit t))
  | .var s => env.var s
  | .bool b => some (.bool b)
  | .neg a => (evalC env a).bind Val.neg
  | .add a b => bin Val.add (evalC env a) (evalC env b)
  | .sub a b => bin Val.sub (evalC env a) (evalC env b)
  | .mul a b => bin Val.mul (evalC env a) (evalC env b)
  | .div a b => bin Val.div (evalC env a) (evalC env b)        -- C: int/int truncates, otherwise floating division
  | .pow a b => bin cPow (evalC env a) (evalC env b)
  | .cmp o a b => bin (Val.cmp o) (evalC env a) (evalC env b)
  | .not a => (evalC env a).bind Val.lnot
  | .and a b =>
      match evalC env a with
      | some (.bool false) => some (.bool false)
      | some (.bool true) => (evalC env b).bind fun v => match v with | .bool _ => some v | _ => none
      | _ => none
  | .or a b =>
      match evalC env a with
      | some (.bool true) => some (.bool true)
      | some (.bool false) => (evalC env b).bind fun v => match v with | .bool _ => some v | _ => none
      | _ => none

def isIntVal : Option Val → Bool
  | some (.int _) => true
  | _ => false

/-- class `c-pow-integer-operands`, decided under a valuation: a power whose base is an integer -/
def KnownCPow (env : Env) : S → Bool
  | .pow a b => KnownCPow env a || KnownCPow env b || isIntVal (evalS env a)
  | .neg a | .not a => KnownCPow env a
  | .add a b | .sub a b | .mul a b | .div a b | .cmp _ a b | .and a b | .or a b => KnownCPow env a || KnownCPow env b
  | _ => false

/-! ### argument passing -/

/-- how `CCodegen` declares a dummy argument of the kernel, by kind of argument and intent, read from the generated table -/
def passBy (isArray : Bool) (intent : String) : Option String :=
  (Tables.passTable.find? fun r => r.1 == isArray && r.2.1 == intent).map (·.2.2.1)

/-- whether the ISO-C interface of the wrapper declares the dummy with `VALUE` -/
def ifaceValue (isArray : Bool) (intent : String) : Option Bool :=
  (Tables.passTable.find? fun r => r.1 == isArray && r.2.1 == intent).map (·.2.2.2)

end LokiModel.C35

/-! ### loops: `CCodegen.visit_Loop` prints `for (i = s; i <crit> e; i += c)` -/
namespace LokiModel.C35

/-- the values of `i` for which the body of `for (i = …; i <= e; i += c)` (`le = true`) resp. `i >= e` runs, starting from `i`;
`fuel` bounds the number of iterations (C itself has no bound; the theorem says which fuel suffices) -/
def cFor (le : Bool) (e c : Int) : Nat → Int → List Int
  | 0, _ => []
  | f + 1, i => if (if le then i ≤ e else e ≤ i) then i :: cFor le e c f (i + c) else []

/-- the criterion `visit_Loop` chooses: `<=` when the step is absent or `symbolic_op(step, gt, 0)` holds, else `>=` -/
def critLe : Option Int → Bool
  | none => true
  | some c => decide (0 < c)

/-- iteration values of the generated `for` header for `DO i = s, e[, st]` -/
def cLoopSeq (s e : Int) (st : Option Int) (fuel : Nat) : List Int := cFor (critLe st) e (st.getD 1) fuel s

end LokiModel.C35
