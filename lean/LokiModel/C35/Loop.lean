import LokiModel.C35.Model
import LokiModel.C10.Lemmas
/-! The generated `for` header visits the Fortran DO sequence (helper lemmas; statements in `Props/C35.lean`). -/
namespace LokiModel.C35
open LokiModel.C10

theorem doSeq_cons (s e c : Int) (n : Nat) (h : tripCount s e c = n + 1) (h' : tripCount (s + c) e c = n) :
    doSeq s e c = s :: doSeq (s + c) e c := by
  simp only [doSeq, h, h', List.range_succ_eq_map, List.map_cons, List.map_map]
  congr 1
  · simp
  · apply List.map_congr_left
    intro k _
    simp only [Function.comp]
    push_cast
    rw [Int.add_mul]; omega

theorem doSeq_nil (s e c : Int) (h : tripCount s e c = 0) : doSeq s e c = [] := by
  simp [doSeq, h]

theorem trip_pos_step (s e c : Int) (hc : 0 < c) (h : s ≤ e) : tripCount s e c = tripCount (s + c) e c + 1 := by
  unfold tripCount
  have e1 : e - (s + c) + c = e - s := by omega
  rw [e1, tdiv_add_self_pos (e - s) c (by omega) hc]
  have := Int.tdiv_nonneg (a := e - s) (b := c) (by omega) (by omega)
  omega

theorem trip_pos_stop (s e c : Int) (hc : 0 < c) (h : e < s) : tripCount s e c = 0 := by
  by_cases h0 : tripCount s e c = 0
  · exact h0
  · have := nonempty_pos s e c hc h0; omega

theorem trip_neg_step (s e c : Int) (hc : c < 0) (h : e ≤ s) : tripCount s e c = tripCount (s + c) e c + 1 := by
  unfold tripCount
  have e1 : e - (s + c) + c = e - s := by omega
  rw [e1, tdiv_add_self_neg (e - s) c (by omega) hc]
  have : 0 ≤ (e - s).tdiv c := by
    rw [tdiv_neg_neg]; exact Int.tdiv_nonneg (by omega) (by omega)
  omega

theorem trip_neg_stop (s e c : Int) (hc : c < 0) (h : s < e) : tripCount s e c = 0 := by
  by_cases h0 : tripCount s e c = 0
  · exact h0
  · have := nonempty_neg s e c hc h0; omega

theorem cFor_le_eq (e c : Int) (hc : 0 < c) : ∀ (n : Nat) (s : Int) (fuel : Nat), tripCount s e c = n → n < fuel →
    cFor true e c fuel s = doSeq s e c := by
  intro n
  induction n with
  | zero =>
    intro s fuel h hf
    obtain ⟨f, rfl⟩ : ∃ f, fuel = f + 1 := ⟨fuel - 1, by omega⟩
    have hs : ¬ s ≤ e := by
      intro hle
      have := trip_pos_step s e c hc hle; omega
    simp [cFor, hs, doSeq_nil s e c h]
  | succ n ih =>
    intro s fuel h hf
    obtain ⟨f, rfl⟩ : ∃ f, fuel = f + 1 := ⟨fuel - 1, by omega⟩
    have hs : s ≤ e := by
      by_cases hle : s ≤ e
      · exact hle
      · have := trip_pos_stop s e c hc (by omega); omega
    have h' : tripCount (s + c) e c = n := by have := trip_pos_step s e c hc hs; omega
    simp only [cFor, hs, if_true]
    rw [ih (s + c) f h' (by omega), doSeq_cons s e c n h h']

theorem cFor_ge_eq (e c : Int) (hc : c < 0) : ∀ (n : Nat) (s : Int) (fuel : Nat), tripCount s e c = n → n < fuel →
    cFor false e c fuel s = doSeq s e c := by
  intro n
  induction n with
  | zero =>
    intro s fuel h hf
    obtain ⟨f, rfl⟩ : ∃ f, fuel = f + 1 := ⟨fuel - 1, by omega⟩
    have hs : ¬ e ≤ s := by
      intro hle
      have := trip_neg_step s e c hc hle; omega
    simp [cFor, hs, doSeq_nil s e c h]
  | succ n ih =>
    intro s fuel h hf
    obtain ⟨f, rfl⟩ : ∃ f, fuel = f + 1 := ⟨fuel - 1, by omega⟩
    have hs : e ≤ s := by
      by_cases hle : e ≤ s
      · exact hle
      · have := trip_neg_stop s e c hc (by omega); omega
    have h' : tripCount (s + c) e c = n := by have := trip_neg_step s e c hc hs; omega
    simp only [cFor, hs, if_true, Bool.false_eq_true, if_false]
    rw [ih (s + c) f h' (by omega), doSeq_cons s e c n h h']

end LokiModel.C35
