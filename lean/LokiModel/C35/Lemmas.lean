import LokiModel.C35.Model
/-! Helper lemmas for C35: the flattening recursion is Horner's scheme; C99 `/` and `%` are `Int.tdiv` / `Int.tmod`. -/
namespace LokiModel.C35
open LokiModel.Expr LokiModel.C06 LokiModel.Fir

/-- accumulate from the last dimension to the first (reversed lists): `a` is the combined value of the dimensions already folded -/
def combine (a : Int) : List Int → List Int → Int
  | d :: rd, s :: rs => combine (d + s * a) rd rs
  | _, _ => a

theorem flatRev_combine (a sa : Int) (rd rs : List Int) (h : rd.length = rs.length) :
    flatRev 0 (a :: rd) (sa :: rs) = [combine a rd rs] := by
  induction rd generalizing a sa rs with
  | nil => cases rs <;> simp [flatRev, combine] at *
  | cons d rd ih =>
    cases rs with
    | nil => simp at h
    | cons s rs =>
      rw [flatRev]
      simp only [Int.sub_zero, combine]
      exact ih _ _ _ (by simpa using h)

/-- forward Horner form: `d₁ + s₁·(d₂ + s₂·(… + sₖ·a))` -/
def horner (a : Int) : List Int → List Int → Int
  | d :: ds, s :: ss => d + s * horner a ds ss
  | _, _ => a

theorem combine_append (a d s : Int) (rd rs : List Int) (h : rd.length = rs.length) :
    combine a (rd ++ [d]) (rs ++ [s]) = d + s * combine a rd rs := by
  induction rd generalizing a rs with
  | nil => cases rs <;> simp [combine] at *
  | cons x rd ih =>
    cases rs with
    | nil => simp at h
    | cons y rs => simp only [List.cons_append, combine]; exact ih _ _ (by simpa using h)

theorem combine_reverse (a : Int) (ds ss : List Int) (h : ds.length = ss.length) :
    combine a ds.reverse ss.reverse = horner a ds ss := by
  induction ds generalizing ss with
  | nil => cases ss <;> simp [combine, horner] at *
  | cons d ds ih =>
    cases ss with
    | nil => simp at h
    | cons s ss =>
      simp only [List.reverse_cons, horner]
      rw [combine_append _ _ _ _ _ (by simpa using h), ih _ (by simpa using h)]

/-- the column-major offset of `Fir.offset`, as an integer, is the Horner form of the zero-based subscripts and extents -/
theorem offset_horner (bs : List (Int × Int)) (idx : List Int) (o : Nat) (h : offset bs idx = some o) :
    (o : Int) = horner 0 (List.zipWith (fun b i => i - b.1) bs idx) (bs.map normExt) ∧ bs.length = idx.length := by
  induction bs generalizing idx o with
  | nil => cases idx <;> simp [offset] at h; subst h; simp [horner]
  | cons b bs ih =>
    cases idx with
    | nil => simp [offset] at h
    | cons i is =>
      obtain ⟨lo, hi⟩ := b
      simp only [offset] at h
      split at h
      · rename_i hb
        cases hr : offset bs is with
        | none => simp [hr] at h
        | some r =>
          simp [hr] at h
          obtain ⟨e1, e2⟩ := ih is r hr
          subst h
          simp only [List.zipWith_cons_cons, List.map_cons, horner, normExt, List.length_cons, e2, and_true]
          rw [← e1]
          have h1 : ((i - lo).toNat : Int) = i - lo := Int.toNat_of_nonneg (by omega)
          have h2 : ((hi - lo + 1).toNat : Int) = hi - lo + 1 := Int.toNat_of_nonneg (by omega)
          push_cast
          rw [h1, h2]
      · simp at h

/-! ### C99 integer `/` and `%` -/

theorem cDiv_nat (m n : Nat) : cDiv (m : Int) (n : Int) = (m : Int).tdiv (n : Int) := by
  unfold cDiv
  cases m <;> cases n <;> simp [Int.sign, Int.tdiv] <;> rfl

theorem cDiv_neg_left (a b : Int) : cDiv (-a) b = -cDiv a b := by
  unfold cDiv; simp [Int.sign_neg, Int.natAbs_neg, Int.neg_mul]

theorem cDiv_neg_right (a b : Int) : cDiv a (-b) = -cDiv a b := by
  unfold cDiv; simp [Int.sign_neg, Int.natAbs_neg, Int.neg_mul, Int.mul_neg]

theorem cDiv_eq_tdiv (a b : Int) : cDiv a b = a.tdiv b := by
  rcases Int.natAbs_eq a with ha | ha <;> rcases Int.natAbs_eq b with hb | hb <;> rw [ha, hb]
  · exact cDiv_nat _ _
  · rw [cDiv_neg_right, Int.tdiv_neg, cDiv_nat]
  · rw [cDiv_neg_left, Int.neg_tdiv, cDiv_nat]
  · rw [cDiv_neg_left, cDiv_neg_right, Int.neg_tdiv, Int.tdiv_neg, cDiv_nat]

end LokiModel.C35
