import LokiModel.C17.Model
/-!
# C17: the ownership invariant and its preservation by the heap primitives
-/
namespace LokiModel.C17

def structRefs : Cell → List Addr
  | .tab _ _ => []
  | .node _ sc _ kids => (match sc with | some (t, _) => [t] | none => []) ++ kids
  | .unit _ _ _ _ t secs mems => t :: (secs ++ mems)

/-- weak references to enclosing scopes / parent tables -/
def parRefs : Cell → List Addr
  | .tab par _ => par.toList
  | .node _ sc _ _ => (match sc with | some (_, p) => p.toList | none => [])
  | .unit _ _ _ par _ _ _ => par.toList

/-- weak references from symbols to their scopes -/
def symRefs : Cell → List Addr
  | .node _ _ syms _ => syms.filterMap (·.scope)
  | _ => []

def tdefRefs : Cell → List Addr
  | .tab _ ents => ents.filterMap (·.2.tdef)
  | _ => []

/-- the references of a cell owned by `t` respect ownership: strong references stay with the owner, weak references
(scopes of symbols, parents) go to the owner or to the environment — unless a rescoping step has reported an unresolvable symbol -/
def Good (h : Heap) (t : Nat) (c : Cell) : Prop :=
  (∀ r ∈ structRefs c, h.tagOf r = some t) ∧
  (∀ r ∈ parRefs c, h.tagOf r = some t ∨ h.tagOf r = some 0) ∧
  (∀ r ∈ symRefs c, h.tagOf r = some t ∨ h.tagOf r = some 0 ∨ h.unres = true)

/-- environment cells used by scope look-ups (tables, parents) stay in the environment -/
def envRefs : Cell → List Addr
  | .tab par _ => par.toList
  | .node _ sc _ _ => match sc with | some (t, p) => t :: p.toList | none => []
  | .unit _ _ _ par t _ _ => t :: par.toList

def Inv (h : Heap) : Prop :=
  ∀ (a : Nat) (t : Nat) (c : Cell), h.cells[a]? = some (t, c) →
    (t ≠ 0 → Good h t c) ∧ (t = 0 → ∀ r ∈ envRefs c, h.tagOf r = some 0)

/-- tags never change, the flag only rises -/
def Le (h h' : Heap) : Prop :=
  (∀ a x, h.tagOf a = some x → h'.tagOf a = some x) ∧ (h.unres = true → h'.unres = true)

theorem Le.refl (h : Heap) : Le h h := ⟨fun _ _ e => e, fun e => e⟩
theorem Le.trans {a b c : Heap} (h1 : Le a b) (h2 : Le b c) : Le a c :=
  ⟨fun x t e => h2.1 x t (h1.1 x t e), fun e => h2.2 (h1.2 e)⟩

theorem Good.mono {h h' : Heap} {t c} (l : Le h h') (g : Good h t c) : Good h' t c := by
  refine ⟨fun r hr => l.1 _ _ (g.1 r hr), fun r hr => (g.2.1 r hr).imp (l.1 _ _) (l.1 _ _), fun r hr => ?_⟩
  rcases g.2.2 r hr with e | e | e
  · exact Or.inl (l.1 _ _ e)
  · exact Or.inr (Or.inl (l.1 _ _ e))
  · exact Or.inr (Or.inr (l.2 e))

def ChainOK (h : Heap) (t : Nat) (chain : List Addr) : Prop :=
  ∀ s ∈ chain, h.tagOf s = some t ∨ h.tagOf s = some 0

theorem ChainOK.mono {h h' : Heap} {t chain} (l : Le h h') (c : ChainOK h t chain) : ChainOK h' t chain := by
  intro s hs
  rcases c s hs with e | e
  · exact Or.inl (l.1 _ _ e)
  · exact Or.inr (l.1 _ _ e)

/-! ### primitives -/

theorem tagOf_alloc_old (h : Heap) (t : Nat) (c : Cell) (a : Addr) (x : Nat) (e : h.tagOf a = some x) :
    (h.alloc t c).1.tagOf a = some x := by
  simp only [Heap.tagOf, Heap.alloc] at *
  cases hc : h.cells[a]? with
  | none => simp [hc] at e
  | some v =>
    have hlt : a < h.cells.length := by
      rcases Nat.lt_or_ge a h.cells.length with hl | hl
      · exact hl
      · simp [List.getElem?_eq_none hl] at hc
    rw [List.getElem?_append_left hlt, hc]; simpa [hc] using e

theorem tagOf_alloc_new (h : Heap) (t : Nat) (c : Cell) : (h.alloc t c).1.tagOf (h.alloc t c).2 = some t := by
  simp [Heap.tagOf, Heap.alloc]

theorem le_alloc (h : Heap) (t : Nat) (c : Cell) : Le h (h.alloc t c).1 :=
  ⟨fun a x e => tagOf_alloc_old h t c a x e, fun e => by simpa [Heap.alloc] using e⟩

theorem tagOf_set (h : Heap) (a : Addr) (c : Cell) (b : Addr) : (h.set a c).tagOf b = h.tagOf b := by
  simp only [Heap.set]
  cases hc : h.cells[a]? with
  | none => rfl
  | some v =>
    obtain ⟨t, c0⟩ := v
    simp only [Heap.tagOf]
    by_cases hab : a = b
    · subst hab
      have hlt : a < h.cells.length := by
        rcases Nat.lt_or_ge a h.cells.length with hl | hl
        · exact hl
        · simp [List.getElem?_eq_none hl] at hc
      simp [List.getElem?_set_self hlt, hc]
    · simp [List.getElem?_set_ne hab]

theorem le_set (h : Heap) (a : Addr) (c : Cell) : Le h (h.set a c) :=
  ⟨fun b x e => by rw [tagOf_set]; exact e, fun e => by
    simp only [Heap.set]; cases h.cells[a]? with
    | none => exact e
    | some v => exact e⟩

theorem le_flag (h : Heap) (b : Bool) : Le h (h.flag b) :=
  ⟨fun _ _ e => by simpa [Heap.flag, Heap.tagOf] using e, fun e => by simp [Heap.flag, e]⟩

theorem cells_alloc (h : Heap) (t : Nat) (c : Cell) (a : Addr) (t' : Nat) (c' : Cell)
    (e : (h.alloc t c).1.cells[a]? = some (t', c')) : h.cells[a]? = some (t', c') ∨ (a = h.cells.length ∧ t' = t ∧ c' = c) := by
  simp only [Heap.alloc] at e
  rcases Nat.lt_trichotomy a h.cells.length with hl | hl | hl
  · rw [List.getElem?_append_left hl] at e; exact Or.inl e
  · subst hl; simp at e; exact Or.inr ⟨rfl, e.1.symm, e.2.symm⟩
  · rw [List.getElem?_eq_none (by simp; omega)] at e; cases e

/-- allocation of a cell whose references respect ownership keeps the invariant -/
theorem inv_alloc {h : Heap} {t : Nat} {c : Cell} (hi : Inv h) (ht : t ≠ 0) (g : Good (h.alloc t c).1 t c) :
    Inv (h.alloc t c).1 := by
  intro a t' c' e
  rcases cells_alloc h t c a t' c' e with e0 | ⟨_, rfl, rfl⟩
  · have := hi a t' c' e0
    exact ⟨fun hne => (this.1 hne).mono (le_alloc h t c),
      fun h0 r hr => (le_alloc h t c).1 _ _ (this.2 h0 r hr)⟩
  · exact ⟨fun _ => g, fun h0 => absurd h0 ht⟩

theorem cells_set (h : Heap) (a : Addr) (c : Cell) (b : Addr) (t' : Nat) (c' : Cell)
    (e : (h.set a c).cells[b]? = some (t', c')) : h.cells[b]? = some (t', c') ∨ (b = a ∧ c' = c ∧ h.tagOf a = some t') := by
  simp only [Heap.set] at e
  cases hc : h.cells[a]? with
  | none => rw [hc] at e; exact Or.inl e
  | some v =>
    obtain ⟨t, c0⟩ := v
    rw [hc] at e
    simp only at e
    by_cases hab : a = b
    · subst hab
      have hlt : a < h.cells.length := by
        rcases Nat.lt_or_ge a h.cells.length with hl | hl
        · exact hl
        · simp [List.getElem?_eq_none hl] at hc
      rw [List.getElem?_set_self hlt] at e
      simp at e
      exact Or.inr ⟨rfl, e.2.symm, by simp [Heap.tagOf, hc, e.1]⟩
    · rw [List.getElem?_set_ne hab] at e; exact Or.inl e

/-- in-place update of a cell with references that respect its owner keeps the invariant -/
theorem inv_set {h : Heap} {a : Addr} {c : Cell} (hi : Inv h)
    (g : ∀ t, h.tagOf a = some t → (t ≠ 0 → Good (h.set a c) t c) ∧ (t = 0 → ∀ r ∈ envRefs c, h.tagOf r = some 0)) :
    Inv (h.set a c) := by
  intro b t' c' e
  rcases cells_set h a c b t' c' e with e0 | ⟨rfl, rfl, ht⟩
  · have := hi b t' c' e0
    exact ⟨fun hne => (this.1 hne).mono (le_set h a c), fun h0 r hr => by rw [tagOf_set]; exact this.2 h0 r hr⟩
  · exact ⟨(g t' ht).1, fun h0 r hr => by rw [tagOf_set]; exact (g t' ht).2 h0 r hr⟩

theorem inv_flag {h : Heap} (b : Bool) (hi : Inv h) : Inv (h.flag b) := by
  intro a t c e
  have := hi a t c (by simpa [Heap.flag] using e)
  exact ⟨fun hne => (this.1 hne).mono (le_flag h b), fun h0 r hr => (le_flag h b).1 _ _ (this.2 h0 r hr)⟩

end LokiModel.C17
