import LokiModel.C17.Model
/-!
# C17: `copyUnit` carries the plain attributes (kind, name, prefix/bind/arguments/result name …) of a unit over unchanged
-/
namespace LokiModel.C17

theorem size_alloc (h : Heap) (t : Nat) (c : Cell) : (h.alloc t c).1.size = h.size + 1 := by simp [Heap.alloc, Heap.size]
theorem alloc_addr (h : Heap) (t : Nat) (c : Cell) : (h.alloc t c).2 = h.size := rfl
theorem size_set (h : Heap) (a : Addr) (c : Cell) : (h.set a c).size = h.size := by
  simp only [Heap.set]; split <;> simp [Heap.size]
theorem size_flag (h : Heap) (b : Bool) : (h.flag b).size = h.size := rfl

theorem thread_size (step : Heap → Addr → Heap × Addr) (hs : ∀ h a, h.size ≤ (step h a).1.size) :
    ∀ (l : List Addr) (h : Heap), h.size ≤ (thread step h l).1.size := by
  intro l
  induction l with
  | nil => intro h; exact Nat.le_refl _
  | cons a r ih => intro h; simp only [thread]; exact Nat.le_trans (hs h a) (ih _)

theorem copyNode_size (m : Mode) : ∀ (f : Nat) (h : Heap) (chain : List Addr) (a : Addr), h.size ≤ (copyNode m f h chain a).1.size := by
  intro f
  induction f with
  | zero => intro h chain a; simp only [copyNode, size_alloc]; omega
  | succ f ih =>
    intro h chain a
    simp only [copyNode]
    split
    · have := thread_size (fun h k => copyNode m f h chain k) (fun h a => ih h chain a) ‹List Addr› h
      simp only [size_alloc, size_flag]; omega
    · rename_i lbl t0 p0 syms kids _
      have h3 := thread_size (fun hh k => copyNode m f hh
        ((((h.alloc m.tag (.tab (chain.head?.bind (tabOf h)) (copyEnts m (entsOf h t0)))).1.alloc m.tag
          (.node lbl (some ((h.alloc m.tag (.tab (chain.head?.bind (tabOf h)) (copyEnts m (entsOf h t0)))).2, chain.head?)) [] [])).2) :: chain) k)
        (fun hh a => ih hh _ a) kids
        ((h.alloc m.tag (.tab (chain.head?.bind (tabOf h)) (copyEnts m (entsOf h t0)))).1.alloc m.tag
          (.node lbl (some ((h.alloc m.tag (.tab (chain.head?.bind (tabOf h)) (copyEnts m (entsOf h t0)))).2, chain.head?)) [] [])).1
      simp only [size_set, size_flag]
      simp only [size_alloc] at h3
      omega
    · simp only [size_alloc]; omega

theorem register_size (h : Heap) (p : Option Addr) (n : String) (u : Addr) : (register h p n u).size = h.size := by
  simp only [register]
  split
  · rfl
  · split
    · split
      · exact size_set _ _ _
      · rfl
    · rfl

theorem copyUnit_size (m : Mode) : ∀ (f : Nat) (h : Heap) (parent : Option Addr) (u : Addr), h.size ≤ (copyUnit m f h parent u).1.size := by
  intro f
  induction f with
  | zero => intro h parent u; simp only [copyUnit, size_alloc]; omega
  | succ f ih =>
    intro h parent u
    simp only [copyUnit]
    split
    · rename_i isMod name attrs p0 t0 secs mems _
      simp only [register_size, size_set]
      refine Nat.le_trans ?_ (thread_size _ (fun hh a => copyNode_size m (f + 1) hh _ a) secs _)
      refine Nat.le_trans ?_ (thread_size _ (fun hh a => ih hh _ a) mems _)
      simp only [size_alloc]; omega
    · simp only [size_alloc]; omega

theorem get_set_self {h : Heap} {a : Addr} (c : Cell) (ha : a < h.size) : (h.set a c).get a = some c := by
  have hl : a < h.cells.length := ha
  simp only [Heap.set]
  cases hc : h.cells[a]? with
  | none => rw [List.getElem?_eq_none_iff] at hc; exact absurd hl (Nat.not_lt.mpr hc)
  | some v => obtain ⟨t, c0⟩ := v; simp [Heap.get, List.getElem?_set_self hl]

theorem get_set_ne {h : Heap} {a b : Addr} (c : Cell) (hab : a ≠ b) : (h.set a c).get b = h.get b := by
  simp only [Heap.set]
  split
  · simp [Heap.get, List.getElem?_set_ne hab]
  · rfl

/-- `register_in_parent_scope` rewrites a table, never a unit -/
theorem register_get_unit {h : Heap} {a : Addr} {isMod : Bool} {name : String} {attrs : List String} {p : Option Addr} {t : Addr}
    {secs mems : List Addr} (e : h.get a = some (.unit isMod name attrs p t secs mems)) (parent : Option Addr) (n : String) (u : Addr) :
    (register h parent n u).get a = some (.unit isMod name attrs p t secs mems) := by
  simp only [register]
  split
  · exact e
  · split
    · rename_i tb _
      split
      · rename_i par ents hg
        have hne : tb ≠ a := by intro hh; subst hh; rw [e] at hg; cases hg
        rw [get_set_ne _ hne]; exact e
      · exact e
    · exact e

/-- **attributes are carried over**: copying a unit (clone without overrides, or the pickle round trip) yields a unit cell with the
same kind, name and attribute record, for every fuel ≥ 1 -/
theorem copyUnit_attrs (m : Mode) (f : Nat) (h : Heap) (parent : Option Addr) (u : Addr) {isMod : Bool} {name : String}
    {attrs : List String} {p : Option Addr} {t : Addr} {secs mems : List Addr}
    (e : h.get u = some (.unit isMod name attrs p t secs mems)) :
    ∃ t' secs' mems', (copyUnit m (f + 1) h parent u).1.get (copyUnit m (f + 1) h parent u).2 =
      some (.unit isMod name attrs parent t' secs' mems') := by
  simp only [copyUnit, e]
  refine ⟨_, _, _, register_get_unit (get_set_self _ ?_) _ _ _⟩
  refine Nat.lt_of_lt_of_le ?_ (thread_size _ (fun hh a => copyNode_size m (f + 1) hh _ a) secs _)
  refine Nat.lt_of_lt_of_le ?_ (thread_size _ (fun hh a => copyUnit_size m f hh _ a) mems _)
  simp only [size_alloc, alloc_addr]; omega

end LokiModel.C17
