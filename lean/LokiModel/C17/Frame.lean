import LokiModel.C17.Ops
/-!
# C17: `render` of one side reads only cells of that side and of the environment
-/
namespace LokiModel.C17

theorem flatMap_congr' {α β : Type} {f g : α → List β} : ∀ {l : List α}, (∀ x ∈ l, f x = g x) → l.flatMap f = l.flatMap g
  | [], _ => rfl
  | x :: r, h => by
    simp only [List.flatMap_cons]
    rw [h x List.mem_cons_self, flatMap_congr' (fun y hy => h y (List.mem_cons_of_mem _ hy))]

theorem get_frame {s : Nat} {h h' : Heap} (fr : Frame s h h') {a : Addr} {t : Nat} (ht : h.tagOf a = some t) (hne : t ≠ s) :
    h'.get a = h.get a := by
  simp only [Heap.tagOf] at ht
  cases hc : h.cells[a]? with
  | none => simp [hc] at ht
  | some v =>
    obtain ⟨t0, c⟩ := v
    simp [hc] at ht; subst ht
    simp [Heap.get, hc, fr a t0 c hc hne]

/-- tags `s'` (the side rendered) or 0 (environment) -/
def Mine (h : Heap) (s' : Nat) (a : Addr) : Prop := h.tagOf a = some s' ∨ h.tagOf a = some 0

theorem get_mine {s s' : Nat} {h h' : Heap} (fr : Frame s h h') (hs : s ≠ 0) (hss : s' ≠ s) {a : Addr} (m : Mine h s' a) :
    h'.get a = h.get a := by
  rcases m with e | e
  · exact get_frame fr e hss
  · exact get_frame fr e (fun h0 => hs h0.symm)

/-- parent references of a cell of the rendered side or the environment stay there -/
theorem par_mine {h : Heap} {s' : Nat} (hi : Inv h) {a : Addr} {c : Cell} (m : Mine h s' a) (e : h.get a = some c)
    {r : Addr} (hp : r ∈ parRefs c) (he : r ∈ envRefs c) : Mine h s' r := by
  obtain ⟨t, hc⟩ := get_cells e
  have hta : h.tagOf a = some t := by simp [Heap.tagOf, hc]
  by_cases h0 : t = 0
  · exact Or.inr ((hi a t c hc).2 h0 r he)
  · have := ((hi a t c hc).1 h0).2.1 r hp
    rcases m with e1 | e1
    · rw [hta] at e1; cases e1; exact this
    · rw [hta] at e1; cases e1; exact absurd rfl h0

theorem tab_mine {h : Heap} {s' : Nat} (hi : Inv h) {a tb : Addr} (m : Mine h s' a) (e : tabOf h a = some tb) : Mine h s' tb :=
  tabOf_tag hi m e

theorem tabOf_frame {s s' : Nat} {h h' : Heap} (fr : Frame s h h') (hs : s ≠ 0) (hss : s' ≠ s) {a : Addr} (m : Mine h s' a) :
    tabOf h' a = tabOf h a := by simp only [tabOf, get_mine fr hs hss m]

theorem entsOf_frame {s s' : Nat} {h h' : Heap} (fr : Frame s h h') (hs : s ≠ 0) (hss : s' ≠ s) {a : Addr} (m : Mine h s' a) :
    entsOf h' a = entsOf h a := by simp only [entsOf, get_mine fr hs hss m]

theorem scopeName_frame {s s' : Nat} {h h' : Heap} (fr : Frame s h h') (hs : s ≠ 0) (hss : s' ≠ s) {a : Addr} (m : Mine h s' a) :
    scopeName h' a = scopeName h a := by simp only [scopeName, get_mine fr hs hss m]

theorem lookupTab_frame {s s' : Nat} {h h' : Heap} (hi : Inv h) (fr : Frame s h h') (hs : s ≠ 0) (hss : s' ≠ s) (name : String) :
    ∀ (f : Nat) (o : Option Addr), (∀ t, o = some t → Mine h s' t) → lookupTab f h' o name = lookupTab f h o name := by
  intro f
  induction f with
  | zero => intro o _; simp [lookupTab]
  | succ f ih =>
    intro o ho
    cases o with
    | none => simp [lookupTab]
    | some t =>
      have m := ho t rfl
      simp only [lookupTab, get_mine fr hs hss m]
      cases hc : h.get t with
      | none => rfl
      | some c =>
        cases c with
        | tab par ents =>
          simp only
          cases alookup name ents with
          | some ty => rfl
          | none =>
            exact ih par (fun p hp => par_mine hi m hc (by simp [parRefs, hp]) (by simp [envRefs, hp]))
        | node _ _ _ _ => rfl
        | unit _ _ _ _ _ _ _ => rfl

theorem symType_frame {s s' : Nat} {h h' : Heap} (hi : Inv h) (fr : Frame s h h') (hs : s ≠ 0) (hss : s' ≠ s) (f : Nat) (sy : Sym)
    (hm : ∀ r, sy.scope = some r → Mine h s' r) : symType f h' sy = symType f h sy := by
  simp only [symType]
  cases hsc : sy.scope with
  | none => rfl
  | some sc =>
    have m := hm sc hsc
    simp only [tabOf_frame fr hs hss m]
    exact lookupTab_frame hi fr hs hss sy.name f _ (fun t ht => tab_mine hi m ht)

theorem renderNode_frame {s s' : Nat} {h h' : Heap} (hi : Inv h) (hu : h.unres = false) (fr : Frame s h h') (hs : s ≠ 0)
    (hs' : s' ≠ 0) (hss : s' ≠ s) : ∀ (f : Nat) (a : Addr), h.tagOf a = some s' → renderNode f h' a = renderNode f h a := by
  intro f
  induction f with
  | zero => intro a _; simp [renderNode]
  | succ f ih =>
    intro a ha
    simp only [renderNode, get_frame fr ha hss]
    cases hc : h.get a with
    | none => rfl
    | some c =>
      cases c with
      | tab _ _ => rfl
      | unit _ _ _ _ _ _ _ => rfl
      | node lbl sc syms kids =>
        simp only
        have g := (hi a s' _ (own_cell hc ha)).1 hs'
        have e2 : syms.map (fun sy => Out.sym sy.name ((symType (f + 1) h' sy).map (·.code)) (sy.scope.map (scopeName h'))) =
            syms.map (fun sy => Out.sym sy.name ((symType (f + 1) h sy).map (·.code)) (sy.scope.map (scopeName h))) := by
          apply List.map_congr_left
          intro sy hsy
          have hm : ∀ r, sy.scope = some r → Mine h s' r := by
            intro r hr
            have : r ∈ symRefs (.node lbl sc syms kids) := by
              simp only [symRefs, List.mem_filterMap]; exact ⟨sy, hsy, hr⟩
            rcases g.2.2 r this with e | e | e
            · exact Or.inl e
            · exact Or.inr e
            · rw [hu] at e; cases e
          rw [symType_frame hi fr hs hss (f + 1) sy hm]
          cases hsc : sy.scope with
          | none => rfl
          | some r => simp only [Option.map_some, scopeName_frame fr hs hss (hm r hsc)]
        have e3 : kids.flatMap (renderNode f h') = kids.flatMap (renderNode f h) := by
          apply flatMap_congr'
          intro k hk
          exact ih k (g.1 k (by simp [structRefs, hk]))
        cases sc with
        | none => simp only []; rw [e2, e3]
        | some p =>
          obtain ⟨t, p1⟩ := p
          simp only [entsOf_frame fr hs hss (Or.inl (g.1 t (by simp [structRefs])))]
          rw [e2, e3]

theorem render_frame {s s' : Nat} {h h' : Heap} (hi : Inv h) (hu : h.unres = false) (fr : Frame s h h') (hs : s ≠ 0)
    (hs' : s' ≠ 0) (hss : s' ≠ s) : ∀ (f : Nat) (u : Addr), h.tagOf u = some s' → render f h' u = render f h u := by
  intro f
  induction f with
  | zero => intro u _; simp [render]
  | succ f ih =>
    intro u ha
    simp only [render, get_frame fr ha hss]
    cases hc : h.get u with
    | none => rfl
    | some c =>
      cases c with
      | tab _ _ => rfl
      | node _ _ _ _ => rfl
      | unit isMod name attrs p t secs mems =>
        simp only
        have g := (hi u s' _ (own_cell hc ha)).1 hs'
        rw [entsOf_frame fr hs hss (Or.inl (g.1 t (by simp [structRefs])))]
        have e3 : secs.flatMap (renderNode (f + 1) h') = secs.flatMap (renderNode (f + 1) h) := by
          apply flatMap_congr'
          intro k hk
          exact renderNode_frame hi hu fr hs hs' hss (f + 1) k (g.1 k (by simp [structRefs, hk]))
        have e4 : mems.flatMap (render f h') = mems.flatMap (render f h) := by
          apply flatMap_congr'
          intro k hk
          exact ih k (g.1 k (by simp [structRefs, hk]))
        rw [e3, e4]

end LokiModel.C17
