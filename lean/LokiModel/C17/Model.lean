/-!
# C17 / C18 — `Heap`: program units as object graphs; `clone`, edit operations, `unpickle ∘ pickle`

Mutable Loki objects are **cells** of a heap addressed by natural numbers (the model's `id()`):

* `tab par ents`            — a `SymbolTable`: weak `_parent` table, entries name ↦ `Ty` in insertion order;
* `node sc syms kids`       — an IR `Node`: a leaf statement (`syms` = the `TypedSymbol` occurrences of its expressions),
                              a `Section`/`Loop`/… (`kids`), or a `ScopedNode` (`Associate`, `TypeDef`) when
                              `sc = some (table, weak parent scope)`;
* `unit isMod name attrs par tab secs mems` — a `Subroutine`/`Function`/`Module`: the plain constructor attributes (`prefix`, `bind`,
                              dummy argument names, `result_name`, access specs, … as strings), weak `_parent`, own `symbol_attrs`, the sections
                              (`spec`, `body`, the `contains` section without its program units) and the contained program units.

Immutable values are not cells: `Sym` (a `TypedSymbol`: name + weak reference to its scope — a `unit` or a scoped `node`),
`Ty` (a `SymbolAttributes`: an opaque code for dtype/attributes, the strong `DerivedType.typedef` reference, the weak
`ProcedureType.procedure` reference), names.

Every cell carries a ghost **owner tag** (0 = environment: enclosing scopes, definitions; 1 = the original; 2 = the copy).
No function of the model reads a tag; tags only exist to state the theorems.

`cloneUnit` follows `Subroutine.clone → ProgramUnit.clone → Scope.clone → type(self)(**kwargs)`:
the symbol table is copied entry by entry (`SymbolTable.clone` + `symbol_attrs.update`: `SymbolAttributes.clone` is shallow, so a
`DerivedType` keeps pointing at the *same* `TypeDef` node), every IR node is rebuilt (`Transformer({}, rebuild_scopes=True)`:
scoped nodes get a fresh table filled by `update`), `rescope_symbols` re-attaches every symbol to the innermost scope of the *new*
chain that declares its name (`AttachScopesMapper._update_symbol_scope`; when no scope of the chain declares the name the symbol
keeps the scope it had, i.e. one of the original's), contained program units are cloned with `parent=obj` and register themselves
in the new table (`register_in_parent_scope`), and finally the clone registers itself in its parent's table — which for a clone
that keeps its parent overwrites the entry of the original.

`unpickle ∘ pickle` (mode `pickle`) is the same traversal with the differences the `__getstate__/__setstate__` methods make:
`_parent` of the root is dropped, procedure links are dropped (`ProcedureType.__getstate__`) and re-created only for contained
units, `typedef` links are followed by pickle (so they end at the copy), symbols lose their scope (`__getinitargs__` stores `None`)
and are re-attached by `rescope_symbols`; `Module.__setstate__` and `Subroutine.__setstate__` reset the parent of their contained units.
-/
namespace LokiModel.C17

abbrev Addr := Nat

structure Ty where
  code : Nat
  tdef : Option Addr := none
  proc : Option Addr := none
deriving DecidableEq, Repr, Inhabited

structure Sym where
  name : String
  scope : Option Addr
deriving DecidableEq, Repr, Inhabited

inductive Cell where
  | tab (par : Option Addr) (ents : List (String × Ty))
  | node (lbl : String) (sc : Option (Addr × Option Addr)) (syms : List Sym) (kids : List Addr)
  | unit (isMod : Bool) (name : String) (attrs : List String) (par : Option Addr) (tab : Addr) (secs : List Addr) (mems : List Addr)
deriving DecidableEq, Repr, Inhabited

/-- `unres`: ghost flag, set when a rescoping step met a symbol that no scope of the new chain declares -/
structure Heap where
  cells : List (Nat × Cell)
  unres : Bool := false
deriving Repr, Inhabited

namespace Heap
def size (h : Heap) : Nat := h.cells.length
def get (h : Heap) (a : Addr) : Option Cell := (h.cells[a]?).map (·.2)
def tagOf (h : Heap) (a : Addr) : Option Nat := (h.cells[a]?).map (·.1)
def alloc (h : Heap) (t : Nat) (c : Cell) : Heap × Addr := ({ h with cells := h.cells ++ [(t, c)] }, h.cells.length)
/-- in-place update (`_update`, attribute assignment): the owner tag stays -/
def set (h : Heap) (a : Addr) (c : Cell) : Heap :=
  match h.cells[a]? with
  | some (t, _) => { h with cells := h.cells.set a (t, c) }
  | none => h
def flag (h : Heap) (b : Bool) : Heap := { h with unres := h.unres || b }
end Heap

/-! ## scopes, look-ups -/

/-- the symbol table of a scope object -/
def tabOf (h : Heap) (s : Addr) : Option Addr :=
  match h.get s with
  | some (.unit _ _ _ _ t _ _) => some t
  | some (.node _ (some (t, _)) _ _) => some t
  | _ => none

def entsOf (h : Heap) (t : Addr) : List (String × Ty) :=
  match h.get t with
  | some (.tab _ ents) => ents
  | _ => []

def parOf (h : Heap) (s : Addr) : Option Addr :=
  match h.get s with
  | some (.unit _ _ _ p _ _ _) => p
  | some (.node _ (some (_, p)) _ _) => p
  | _ => none

def alookup (k : String) : List (String × Ty) → Option Ty
  | [] => none
  | (k', v) :: r => if k = k' then some v else alookup k r

def aset (k : String) (v : Ty) : List (String × Ty) → List (String × Ty)
  | [] => [(k, v)]
  | (k', v') :: r => if k = k' then (k, v) :: r else (k', v') :: aset k v r

/-- `name in scope.symbol_attrs` -/
def hasKey (h : Heap) (name : String) (s : Addr) : Bool :=
  match tabOf h s with
  | some t => (alookup name (entsOf h t)).isSome
  | none => false

/-- `v%a` → `v` (`expr.name_parts[0]`) -/
def baseName (name : String) : String := String.ofList (name.toList.takeWhile (· ≠ '%'))

/-- `Scope.get_symbol_scope` along an explicit chain (innermost first), then the `'%' in name` retry -/
def resolve (h : Heap) (chain : List Addr) (name : String) : Option Addr :=
  match chain.find? (hasKey h name) with
  | some s => some s
  | none => if baseName name = name then none else chain.find? (hasKey h (baseName name))

/-- the scope chain `s, s.parent, …` -/
def chainOf : Nat → Heap → Option Addr → List Addr
  | 0, _, _ => []
  | _, _, none => []
  | f + 1, h, some s => s :: chainOf f h (parOf h s)

/-- `SymbolTable.lookup(name, recursive=True)` starting at table `t`: the type code found, following `_parent` tables -/
def lookupTab : Nat → Heap → Option Addr → String → Option Ty
  | 0, _, _, _ => none
  | _, _, none, _ => none
  | f + 1, h, some t, name =>
    match h.get t with
    | some (.tab par ents) =>
      match alookup name ents with
      | some ty => some ty
      | none => lookupTab f h par name
    | _ => none

/-- `symbol.type` for an attached symbol -/
def symType (f : Nat) (h : Heap) (s : Sym) : Option Ty :=
  match s.scope with
  | some sc => lookupTab f h (tabOf h sc) s.name
  | none => none

/-! ## copying -/

structure Mode where
  tag : Nat            -- ghost: owner tag of everything allocated
  pickle : Bool        -- false: `clone`; true: `unpickle ∘ pickle`
deriving Repr

/-- `AttachScopesMapper._update_symbol_scope` for one symbol occurrence under the new chain -/
def rescope (m : Mode) (h : Heap) (chain : List Addr) (s : Sym) : Sym :=
  match resolve h chain s.name with
  | some sc => { s with scope := some sc }
  | none => if m.pickle then { s with scope := none } else s

/-- ghost: some symbol is declared by no scope of the new chain — in clone mode one that was attached (it keeps a scope of the
original), in pickle mode any (it stays unattached) -/
def unresolved (m : Mode) (h : Heap) (chain : List Addr) (syms : List Sym) : Bool :=
  syms.any fun s => (s.scope.isSome || m.pickle) && (resolve h chain s.name).isNone

/-- thread a heap through a list of addresses -/
def thread (step : Heap → Addr → Heap × Addr) : Heap → List Addr → Heap × List Addr
  | h, [] => (h, [])
  | h, a :: r =>
    let (h1, a') := step h a
    let (h2, r') := thread step h1 r
    (h2, a' :: r')

/-- pickle drops `ProcedureType._procedure`; `DerivedType.typedef` is followed by pickle and ends at a copy of the `TypeDef`
(the model does not allocate that copy: the link is dropped, see notes/C18.md) -/
def copyTy (m : Mode) (ty : Ty) : Ty := if m.pickle then { ty with proc := none, tdef := none } else ty

def copyEnts (m : Mode) (ents : List (String × Ty)) : List (String × Ty) := ents.map fun e => (e.1, copyTy m e.2)

/-- `Transformer({}, rebuild_scopes=True).visit` followed by `AttachScopes` on the result, for the IR below `a`;
`chain` = the new scopes enclosing the result, innermost first.  Fuel 0 yields an empty node. -/
def copyNode (m : Mode) : Nat → Heap → List Addr → Addr → Heap × Addr
  | 0, h, _, _ => h.alloc m.tag (.node "" none [] [])
  | f + 1, h, chain, a =>
    match h.get a with
    | some (.node lbl none syms kids) =>
      let r := thread (fun h k => copyNode m f h chain k) h kids
      (r.1.flag (unresolved m r.1 chain syms)).alloc m.tag (.node lbl none (syms.map (rescope m r.1 chain)) r.2)
    | some (.node lbl (some (t, _)) syms kids) =>
      let r1 := h.alloc m.tag (.tab (chain.head?.bind (tabOf h)) (copyEnts m (entsOf h t)))
      let r2 := r1.1.alloc m.tag (.node lbl (some (r1.2, chain.head?)) [] [])
      let r3 := thread (fun h k => copyNode m f h (r2.2 :: chain) k) r2.1 kids
      (((r3.1.flag (unresolved m r3.1 (r2.2 :: chain) syms)).set r2.2
          (.node lbl (some (r1.2, chain.head?)) (syms.map (rescope m r3.1 (r2.2 :: chain))) r3.2)), r2.2)
    | _ => h.alloc m.tag (.node "" none [] [])

/-- `parent.symbol_attrs[name] = SymbolAttributes(ProcedureType(procedure=self))` -/
def register (h : Heap) (parent : Option Addr) (name : String) (u : Addr) : Heap :=
  match parent with
  | none => h
  | some p =>
    match tabOf h p with
    | some t =>
      match h.get t with
      | some (.tab par ents) => h.set t (.tab par (aset name.toLower { code := 1, proc := some u } ents))
      | _ => h
    | none => h

/-- `ProgramUnit.clone(parent=…)` / unpickling of one program unit.  `parent` is the new unit's parent scope
(`keep`: the clone keeps `self.parent`; contained units get the new enclosing unit — on unpickling through
`Module.__setstate__` / `Subroutine.__setstate__`, which `_reset_parent` and re-register their contained units). -/
def copyUnit (m : Mode) : Nat → Heap → (parent : Option Addr) → Addr → Heap × Addr
  | 0, h, _, _ => h.alloc m.tag (.node "" none [] [])
  | f + 1, h, parent, u =>
    match h.get u with
    | some (.unit isMod name attrs _ t secs mems) =>
      let r1 := h.alloc m.tag (.tab (parent.bind (tabOf h)) (copyEnts m (entsOf h t)))
      let r2 := r1.1.alloc m.tag (.unit isMod name attrs parent r1.2 [] [])
      let chain := r2.2 :: chainOf (f + 1) r2.1 parent
      -- contained program units first: they register themselves in the new table
      let r3 := thread (fun h k => copyUnit m f h (some r2.2) k) r2.1 mems
      let r4 := thread (fun h k => copyNode m (f + 1) h chain k) r3.1 secs
      let h5 := r4.1.set r2.2 (.unit isMod name attrs parent r1.2 r4.2 r3.2)
      -- register_in_parent_scope (also done by `__setstate__` of the enclosing unit for its members)
      (register h5 parent name r2.2, r2.2)
    | _ => h.alloc m.tag (.node "" none [] [])

def cloneMode : Mode := ⟨2, false⟩
def pickleMode : Mode := ⟨2, true⟩

/-- `unit.clone()` (the clone keeps the parent of the original) -/
def clone (f : Nat) (h : Heap) (u : Addr) : Heap × Addr := copyUnit cloneMode f h (parOf h u) u

/-- `pickle.loads(pickle.dumps(unit))` -/
def unpickle (f : Nat) (h : Heap) (u : Addr) : Heap × Addr := copyUnit pickleMode f h none u

/-! ## edit operations on one side -/

inductive Op where
  | rename (path : List Nat) (name : String)                    -- `unit.name = name`
  | retype (path : List Nat) (var : String) (code : Nat)        -- `unit.symbol_attrs[var] = SymbolAttributes(code)`
  | setsec (path : List Nat) (k : Nat) (stmts : List (List String)) (dcode : Nat)  -- `unit.body = Section(new statements)`; dcode = code of DEFERRED
  | addvar (path : List Nat) (var : String) (code : Nat)        -- `unit.variables += (Variable(var, type, scope=unit),)`
  | retypeNode (path : List Nat) (k : Nat) (var : String) (code : Nat)   -- k-th scoped node of the unit: `node.symbol_attrs[var] = …`
  | touch (path : List Nat)       -- `comment._update(text=…)` on a Comment of the unit (docstring, spec, body): comment text is not part of the abstraction
deriving Repr

/-- follow `unit.members[i]` along a path -/
def navigate (h : Heap) : List Nat → Addr → Option Addr
  | [], u => some u
  | i :: r, u =>
    match h.get u with
    | some (.unit _ _ _ _ _ _ mems) =>
      match mems[i]? with
      | some u' => navigate h r u'
      | none => none
    | _ => none

def setTab (h : Heap) (t : Addr) (var : String) (code : Nat) : Heap :=
  match h.get t with
  | some (.tab par ents) => h.set t (.tab par (aset var { code := code } ents))
  | _ => h

/-- statements built by the caller: one leaf node per statement; `Variable(name=n, scope=unit)` looks the type up recursively and
stores it (or DEFERRED) in the unit's own table (`TypedSymbol.__init__` → `type.setter`), the symbol is scoped to the unit -/
def declare (f : Nat) (dcode : Nat) (u : Addr) (h : Heap) (name : String) : Heap :=
  match tabOf h u with
  | some t =>
    match h.get t with
    | some (.tab par ents) =>
      match lookupTab f h (some t) name with
      | some ty => h.set t (.tab par (aset name ty ents))
      | none => h.set t (.tab par (aset name { code := dcode } ents))
    | _ => h
  | none => h

def mkStmts (f : Nat) (tag : Nat) (dcode : Nat) (u : Addr) : Heap → List (List String) → Heap × List Addr
  | h, [] => (h, [])
  | h, names :: r =>
    let h0 := names.foldl (declare f dcode u) h
    let syms := names.map fun n => ({ name := n, scope := some u } : Sym)
    let (h1, a) := h0.alloc tag (.node "Assignment" none syms [])
    let (h2, as) := mkStmts f tag dcode u h1 r
    (h2, a :: as)

/-- addresses of the scoped nodes below `a` in pre-order -/
def scopedBelow : Nat → Heap → Addr → List Addr
  | 0, _, _ => []
  | f + 1, h, a =>
    match h.get a with
    | some (.node _ sc _ kids) => (if sc.isSome then [a] else []) ++ kids.flatMap (scopedBelow f h)
    | _ => []

def secsLen (h : Heap) (u : Addr) : Nat :=
  match h.get u with
  | some (.unit _ _ _ _ _ secs _) => secs.length
  | _ => 0

def applyOp (f : Nat) (tag : Nat) (h : Heap) (root : Addr) : Op → Heap
  | .touch _ => h
  | .rename path name =>
    match navigate h path root with
    | some u =>
      match h.get u with
      | some (.unit isMod _ attrs p t secs mems) => h.set u (.unit isMod name attrs p t secs mems)
      | _ => h
    | none => h
  | .retype path var code =>
    match navigate h path root with
    | some u => match tabOf h u with
      | some t => setTab h t var code
      | none => h
    | none => h
  | .setsec path k stmts dcode =>
    match navigate h path root with
    | some u =>
      if k < secsLen h u then
        let (h1, kids) := mkStmts f tag dcode u h stmts
        let (h2, s) := h1.alloc tag (.node "Section" none [] kids)
        match h2.get u with
        | some (.unit isMod name attrs p t secs mems) => h2.set u (.unit isMod name attrs p t (secs.set k s) mems)
        | _ => h2
      else h
    | none => h
  | .addvar path var code =>
    match navigate h path root with
    | some u =>
      match h.get u with
      | some (.unit _ _ _ _ t secs _) =>
        match secs.head? with
        | some spec =>
          match h.get spec with
          | some (.node lbl sc syms kids) =>
            let h0 := setTab h t var code
            let (h1, d) := h0.alloc tag (.node "VariableDeclaration" none [{ name := var, scope := some u }] [])
            h1.set spec (.node lbl sc syms (kids ++ [d]))      -- `Section.append`: in place
          | _ => h
        | none => h
      | _ => h
    | none => h
  | .retypeNode path k var code =>
    match navigate h path root with
    | some u =>
      match h.get u with
      | some (.unit _ _ _ _ _ secs _) =>
        match (secs.flatMap (scopedBelow f h))[k]? with
        | some n => match tabOf h n with
          | some t => setTab h t var code
          | none => h
        | none => h
      | _ => h
    | none => h

/-! ## `render`: the model's stand-in for `fgen` + scope chains + type look-ups -/

inductive Out where
  | name (s : String)
  | sym (name : String) (code : Option Nat) (scope : Option String)   -- a symbol occurrence, the type code its scope gives it, the scope's name
  | ent (name : String) (code : Nat)            -- a table entry
  | opn | cls
deriving DecidableEq, Repr

/-- name of a scope object: the unit's name or the node's class -/
def scopeName (h : Heap) (s : Addr) : String :=
  match h.get s with
  | some (.unit _ name _ _ _ _ _) => name
  | some (.node lbl _ _ _) => lbl
  | _ => "?"

def renderNode : Nat → Heap → Addr → List Out
  | 0, _, _ => []
  | f + 1, h, a =>
    match h.get a with
    | some (.node lbl sc syms kids) =>
      [Out.opn, Out.name lbl] ++ (match sc with
        | some (t, _) => (entsOf h t).map fun e => Out.ent e.1 e.2.code
        | none => [])
      ++ syms.map (fun s => Out.sym s.name ((symType (f + 1) h s).map (·.code)) (s.scope.map (scopeName h)))
      ++ kids.flatMap (renderNode f h) ++ [Out.cls]
    | _ => []

def render : Nat → Heap → Addr → List Out
  | 0, _, _ => []
  | f + 1, h, u =>
    match h.get u with
    | some (.unit _ name attrs _ t secs mems) =>
      [Out.opn, Out.name name] ++ attrs.map Out.name ++ (entsOf h t).map (fun e => Out.ent e.1 e.2.code)
      ++ secs.flatMap (renderNode (f + 1) h) ++ mems.flatMap (render f h) ++ [Out.cls]
    | _ => []

end LokiModel.C17
