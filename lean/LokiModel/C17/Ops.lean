import LokiModel.C17.Copy
/-!
# C17: edit operations on one side keep the ownership invariant and never touch a cell of another owner
-/
namespace LokiModel.C17

/-- cells not owned by `s` are unchanged -/
def Frame (s : Nat) (h h' : Heap) : Prop :=
  ∀ (a t : Nat) (c : Cell), h.cells[a]? = some (t, c) → t ≠ s → h'.cells[a]? = some (t, c)

/-- one step of an edit: invariant kept, tags kept, foreign cells untouched -/
structure Step (s : Nat) (h h' : Heap) : Prop where
  inv : Inv h'
  le : Le h h'
  frame : Frame s h h'

theorem Step.refl {s : Nat} {h : Heap} (hi : Inv h) : Step s h h := ⟨hi, Le.refl h, fun _ _ _ e _ => e⟩

theorem Step.trans {s : Nat} {a b c : Heap} (x : Step s a b) (y : Step s b c) : Step s a c :=
  ⟨y.inv, x.le.trans y.le, fun p t cl e hne => y.frame p t cl (x.frame p t cl e hne) hne⟩

theorem step_alloc {s : Nat} {h : Heap} {c : Cell} (hi : Inv h) (hs : s ≠ 0) (g : Good (h.alloc s c).1 s c) :
    Step s h (h.alloc s c).1 := by
  refine ⟨inv_alloc hi hs g, le_alloc h s c, fun a t cl e _ => ?_⟩
  simp only [Heap.alloc]
  have hlt : a < h.cells.length := by
    rcases Nat.lt_or_ge a h.cells.length with hl | hl
    · exact hl
    · simp [List.getElem?_eq_none hl] at e
  rw [List.getElem?_append_left hlt]; exact e

theorem step_set {s : Nat} {h : Heap} {a : Addr} {c : Cell} (hi : Inv h) (hs : s ≠ 0) (ha : h.tagOf a = some s)
    (g : Good (h.set a c) s c) : Step s h (h.set a c) := by
  refine ⟨inv_set hi (fun t ht => ?_), le_set h a c, fun b t cl e hne => ?_⟩
  · rw [ha] at ht; cases ht; exact ⟨fun _ => g, fun h0 => absurd h0 hs⟩
  · simp only [Heap.set]
    cases hc : h.cells[a]? with
    | none => exact e
    | some v =>
      obtain ⟨t0, c0⟩ := v
      have hab : a ≠ b := by
        intro hab; subst hab
        rw [hc] at e; cases e
        simp [Heap.tagOf, hc] at ha; exact hne ha
      simp only
      rw [List.getElem?_set_ne hab]; exact e

theorem get_cells {h : Heap} {a : Addr} {c : Cell} (e : h.get a = some c) : ∃ t, h.cells[a]? = some (t, c) := by
  simp only [Heap.get] at e
  cases hc : h.cells[a]? with
  | none => simp [hc] at e
  | some v => obtain ⟨t, c0⟩ := v; simp [hc] at e; exact ⟨t, by rw [e]⟩

theorem own_cell {h : Heap} {a : Addr} {c : Cell} {s : Nat} (e : h.get a = some c) (ha : h.tagOf a = some s) :
    h.cells[a]? = some (s, c) := by
  obtain ⟨t, hc⟩ := get_cells e
  simp [Heap.tagOf, hc] at ha; rw [hc, ha]

/-- strong references of an owned cell are owned by the same owner -/
theorem struct_tag {h : Heap} {a : Addr} {c : Cell} {s : Nat} (hi : Inv h) (hs : s ≠ 0) (e : h.get a = some c)
    (ha : h.tagOf a = some s) {r : Addr} (hr : r ∈ structRefs c) : h.tagOf r = some s :=
  ((hi a s c (own_cell e ha)).1 hs).1 r hr

theorem tabOf_own {h : Heap} {u tb : Addr} {s : Nat} (hi : Inv h) (hs : s ≠ 0) (ha : h.tagOf u = some s)
    (e : tabOf h u = some tb) : h.tagOf tb = some s := by
  simp only [tabOf] at e
  cases hc : h.get u with
  | none => simp [hc] at e
  | some c =>
    rw [hc] at e
    cases c with
    | tab _ _ => simp at e
    | node lbl sc syms kids =>
      cases sc with
      | none => simp at e
      | some p => obtain ⟨t1, p1⟩ := p; simp at e; subst e; exact struct_tag hi hs hc ha (by simp [structRefs])
    | unit _ _ _ _ t1 _ _ => simp at e; subst e; exact struct_tag hi hs hc ha (by simp [structRefs])

theorem navigate_tag {h : Heap} {s : Nat} (hi : Inv h) (hs : s ≠ 0) : ∀ (path : List Nat) (root u : Addr),
    h.tagOf root = some s → navigate h path root = some u → h.tagOf u = some s := by
  intro path
  induction path with
  | nil => intro root u hr e; simp [navigate] at e; subst e; exact hr
  | cons i r ih =>
    intro root u hr e
    simp only [navigate] at e
    split at e
    · rename_i mems hc
      split at e
      · rename_i u' hm
        exact ih u' u (struct_tag hi hs hc hr (by
          simp only [structRefs, List.mem_cons, List.mem_append]
          exact Or.inr (Or.inr (List.mem_of_getElem? hm)))) e
      · cases e
    · cases e

/-- rewriting entries of an owned table -/
theorem step_tab {s : Nat} {h : Heap} {t : Addr} {par : Option Addr} {ents ents' : List (String × Ty)} (hi : Inv h) (hs : s ≠ 0)
    (ht : h.tagOf t = some s) (e : h.get t = some (.tab par ents)) : Step s h (h.set t (.tab par ents')) := by
  refine step_set hi hs ht ?_
  have g := ((hi t s _ (own_cell e ht)).1 hs).mono (le_set h t (.tab par ents'))
  exact ⟨by simp [structRefs], by simpa [parRefs] using g.2.1, by simp [symRefs]⟩

theorem step_setTab {s : Nat} {h : Heap} {t : Addr} (hi : Inv h) (hs : s ≠ 0) (ht : h.tagOf t = some s) (var : String) (code : Nat) :
    Step s h (setTab h t var code) := by
  simp only [setTab]
  split
  · rename_i par ents e; exact step_tab hi hs ht e
  · exact Step.refl hi

theorem step_declare {s : Nat} {h : Heap} {u : Addr} (hi : Inv h) (hs : s ≠ 0) (hu : h.tagOf u = some s) (f dcode : Nat) (name : String) :
    Step s h (declare f dcode u h name) := by
  simp only [declare]
  split
  · rename_i t ht
    have htt := tabOf_own hi hs hu ht
    split
    · rename_i par ents e
      split
      · exact step_tab hi hs htt e
      · exact step_tab hi hs htt e
    · exact Step.refl hi
  · exact Step.refl hi

theorem step_declares {s : Nat} {u : Addr} (hs : s ≠ 0) (f dcode : Nat) : ∀ (names : List String) (h : Heap), Inv h →
    h.tagOf u = some s → Step s h (names.foldl (declare f dcode u) h) := by
  intro names
  induction names with
  | nil => intro h hi _; exact Step.refl hi
  | cons n r ih =>
    intro h hi hu
    have s1 := step_declare hi hs hu f dcode n
    exact s1.trans (ih _ s1.inv (s1.le.1 _ _ hu))

theorem step_mkStmts {s : Nat} {u : Addr} (hs : s ≠ 0) (f dcode : Nat) : ∀ (stmts : List (List String)) (h : Heap), Inv h →
    h.tagOf u = some s → Step s h (mkStmts f s dcode u h stmts).1 ∧
      ∀ r ∈ (mkStmts f s dcode u h stmts).2, (mkStmts f s dcode u h stmts).1.tagOf r = some s := by
  intro stmts
  induction stmts with
  | nil => intro h hi _; exact ⟨Step.refl hi, by simp [mkStmts]⟩
  | cons names r ih =>
    intro h hi hu
    simp only [mkStmts]
    have s0 := step_declares hs f dcode names h hi hu
    generalize names.foldl (declare f dcode u) h = h0 at s0
    have hu0 := s0.le.1 _ _ hu
    have la := le_alloc h0 s (.node "Assignment" none (names.map fun n => ({ name := n, scope := some u } : Sym)) [])
    have s1 : Step s h0 (h0.alloc s (.node "Assignment" none (names.map fun n => ({ name := n, scope := some u } : Sym)) [])).1 := by
      refine step_alloc s0.inv hs ⟨by simp [structRefs], by simp [parRefs], fun x hx => ?_⟩
      simp only [symRefs, List.mem_filterMap, List.mem_map] at hx
      obtain ⟨sy, ⟨n, _, rfl⟩, hsc⟩ := hx
      simp at hsc; subst hsc
      exact Or.inl (la.1 _ _ hu0)
    have n1 := tagOf_alloc_new h0 s (.node "Assignment" none (names.map fun n => ({ name := n, scope := some u } : Sym)) [])
    generalize h0.alloc s (.node "Assignment" none (names.map fun n => ({ name := n, scope := some u } : Sym)) []) = r1 at s1 n1 la
    obtain ⟨s2, t2⟩ := ih r1.1 s1.inv (s1.le.1 _ _ hu0)
    refine ⟨s0.trans (s1.trans s2), fun x hx => ?_⟩
    rcases List.mem_cons.mp hx with rfl | hx
    · exact s2.le.1 _ _ n1
    · exact t2 x hx

theorem scopedBelow_tag {h : Heap} {s : Nat} (hi : Inv h) (hs : s ≠ 0) : ∀ (f : Nat) (a : Addr), h.tagOf a = some s →
    ∀ n ∈ scopedBelow f h a, h.tagOf n = some s := by
  intro f
  induction f with
  | zero => intro a _ n hn; simp [scopedBelow] at hn
  | succ f ih =>
    intro a ha n hn
    simp only [scopedBelow] at hn
    split at hn
    · rename_i lbl sc syms kids hc
      rcases List.mem_append.mp hn with hn | hn
      · split at hn
        · simp at hn; subst hn; exact ha
        · simp at hn
      · obtain ⟨k, hk, hnk⟩ := List.mem_flatMap.mp hn
        exact ih k (struct_tag hi hs hc ha (by simp [structRefs, hk])) n hnk
    · simp at hn

/-- **every edit operation**, applied to a root owned by `s`, keeps the invariant and leaves every cell of another owner as it is -/
theorem applyOp_step {s : Nat} (hs : s ≠ 0) (f : Nat) (h : Heap) (root : Addr) (hi : Inv h) (hr : h.tagOf root = some s) (op : Op) :
    Step s h (applyOp f s h root op) := by
  cases op with
  | touch path => simp only [applyOp]; exact Step.refl hi
  | rename path name =>
    simp only [applyOp]
    split
    · rename_i u hn
      have hu := navigate_tag hi hs path root u hr hn
      split
      · rename_i isMod nm attrs p t secs mems hc
        refine step_set hi hs hu ?_
        have g := ((hi u s _ (own_cell hc hu)).1 hs).mono (le_set h u (.unit isMod name attrs p t secs mems))
        exact ⟨by simpa [structRefs] using g.1, by simpa [parRefs] using g.2.1, by simp [symRefs]⟩
      · exact Step.refl hi
    · exact Step.refl hi
  | retype path var code =>
    simp only [applyOp]
    split
    · rename_i u hn
      have hu := navigate_tag hi hs path root u hr hn
      split
      · rename_i t ht; exact step_setTab hi hs (tabOf_own hi hs hu ht) var code
      · exact Step.refl hi
    · exact Step.refl hi
  | setsec path k stmts dcode =>
    simp only [applyOp]
    split
    · rename_i u hn
      have hu := navigate_tag hi hs path root u hr hn
      split
      · obtain ⟨s1, t1⟩ := step_mkStmts hs f dcode stmts h hi hu
        generalize mkStmts f s dcode u h stmts = r1 at s1 t1
        have la := le_alloc r1.1 s (.node "Section" none [] r1.2)
        have s2 : Step s r1.1 (r1.1.alloc s (.node "Section" none [] r1.2)).1 :=
          step_alloc s1.inv hs ⟨fun x hx => by simp only [structRefs, List.nil_append] at hx; exact la.1 _ _ (t1 x hx),
            by simp [parRefs], by simp [symRefs]⟩
        have n2 := tagOf_alloc_new r1.1 s (.node "Section" none [] r1.2)
        generalize r1.1.alloc s (.node "Section" none [] r1.2) = r2 at s2 n2 la
        have hu2 := s2.le.1 _ _ (s1.le.1 _ _ hu)
        split
        · rename_i isMod nm attrs p t secs mems hc
          refine (s1.trans s2).trans (step_set s2.inv hs hu2 ?_)
          have ls := le_set r2.1 u (.unit isMod nm attrs p t (secs.set k r2.2) mems)
          have g := ((s2.inv u s _ (own_cell hc hu2)).1 hs).mono ls
          refine ⟨fun x hx => ?_, by simpa [parRefs] using g.2.1, by simp [symRefs]⟩
          simp only [structRefs, List.mem_cons, List.mem_append] at hx
          rcases hx with rfl | hx | hx
          · exact g.1 _ (by simp [structRefs])
          · rcases List.mem_or_eq_of_mem_set hx with hx | rfl
            · exact g.1 _ (by simp [structRefs, hx])
            · exact ls.1 _ _ n2
          · exact g.1 _ (by simp [structRefs, hx])
        · exact s1.trans s2
      · exact Step.refl hi
    · exact Step.refl hi
  | addvar path var code =>
    simp only [applyOp]
    split
    · rename_i u hn
      have hu := navigate_tag hi hs path root u hr hn
      split
      · rename_i isMod nm attrs p t secs mems hc
        have htt : h.tagOf t = some s := struct_tag hi hs hc hu (by simp [structRefs])
        split
        · rename_i spec hsp
          have hspec : h.tagOf spec = some s := struct_tag hi hs hc hu (by
            cases secs with
            | nil => simp at hsp
            | cons x xs => simp at hsp; subst hsp; simp [structRefs])
          split
          · rename_i lbl sc syms kids hsc
            have s0 := step_setTab hi hs htt var code
            generalize setTab h t var code = h0 at s0
            have la := le_alloc h0 s (.node "VariableDeclaration" none [{ name := var, scope := some u }] [])
            have s1 : Step s h0 (h0.alloc s (.node "VariableDeclaration" none [{ name := var, scope := some u }] [])).1 :=
              step_alloc s0.inv hs ⟨by simp [structRefs], by simp [parRefs], fun x hx => by
                simp [symRefs] at hx; subst hx; exact Or.inl (la.1 _ _ (s0.le.1 _ _ hu))⟩
            have n1 := tagOf_alloc_new h0 s (.node "VariableDeclaration" none [{ name := var, scope := some u }] [])
            generalize h0.alloc s (.node "VariableDeclaration" none [{ name := var, scope := some u }] []) = r1 at s1 n1 la
            have hsp1 := s1.le.1 _ _ (s0.le.1 _ _ hspec)
            refine (s0.trans s1).trans (step_set s1.inv hs hsp1 ?_)
            have ls := le_set r1.1 spec (.node lbl sc syms (kids ++ [r1.2]))
            -- the section cell is untouched so far: its old references are still fine
            have g0 := (hi spec s _ (own_cell hsc hspec)).1 hs
            have g := g0.mono (s0.le.trans (s1.le.trans ls))
            refine ⟨fun x hx => ?_, by simpa [parRefs] using g.2.1, by simpa [symRefs] using g.2.2⟩
            simp only [structRefs, List.mem_append, List.mem_singleton] at hx
            rcases hx with hx | hx | rfl
            · exact g.1 _ (by simp [structRefs, hx])
            · exact g.1 _ (by simp [structRefs, hx])
            · exact ls.1 _ _ n1
          · exact Step.refl hi
        · exact Step.refl hi
      · exact Step.refl hi
    · exact Step.refl hi
  | retypeNode path k var code =>
    simp only [applyOp]
    split
    · rename_i u hn
      have hu := navigate_tag hi hs path root u hr hn
      split
      · rename_i isMod nm attrs p t secs mems hc
        split
        · rename_i n hk
          have hn : h.tagOf n = some s := by
            obtain ⟨sec, hsec, hns⟩ := List.mem_flatMap.mp (List.mem_of_getElem? hk)
            exact scopedBelow_tag hi hs f sec (struct_tag hi hs hc hu (by simp [structRefs, hsec])) n hns
          split
          · rename_i tb htb; exact step_setTab hi hs (tabOf_own hi hs hn htb) var code
          · exact Step.refl hi
        · exact Step.refl hi
      · exact Step.refl hi
    · exact Step.refl hi

end LokiModel.C17

namespace LokiModel.C17

/-! edit operations never raise the ghost flag -/

theorem unres_set (h : Heap) (a : Addr) (c : Cell) : (h.set a c).unres = h.unres := by
  simp only [Heap.set]; split <;> rfl

theorem unres_setTab (h : Heap) (t : Addr) (v : String) (c : Nat) : (setTab h t v c).unres = h.unres := by
  simp only [setTab]; split
  · exact unres_set _ _ _
  · rfl

theorem unres_declare (f d : Nat) (u : Addr) (h : Heap) (n : String) : (declare f d u h n).unres = h.unres := by
  simp only [declare]
  split
  · split
    · split <;> exact unres_set _ _ _
    · rfl
  · rfl

theorem unres_declares (f d : Nat) (u : Addr) : ∀ (ns : List String) (h : Heap), (ns.foldl (declare f d u) h).unres = h.unres
  | [], _ => rfl
  | n :: r, h => by simp only [List.foldl_cons]; rw [unres_declares f d u r, unres_declare]

theorem unres_mkStmts (f s d : Nat) (u : Addr) : ∀ (st : List (List String)) (h : Heap), (mkStmts f s d u h st).1.unres = h.unres
  | [], _ => rfl
  | ns :: r, h => by
    simp only [mkStmts]
    rw [unres_mkStmts f s d u r]
    simp only [Heap.alloc]
    exact unres_declares f d u ns h

theorem applyOp_unres (f s : Nat) (h : Heap) (root : Addr) (op : Op) : (applyOp f s h root op).unres = h.unres := by
  cases op with
  | touch path => rfl
  | rename path name =>
    simp only [applyOp]; split
    · split
      · exact unres_set _ _ _
      · rfl
    · rfl
  | retype path var code =>
    simp only [applyOp]; split
    · split
      · exact unres_setTab _ _ _ _
      · rfl
    · rfl
  | setsec path k stmts dcode =>
    simp only [applyOp]; split
    · split
      · split
        · rw [unres_set]; simp only [Heap.alloc]; exact unres_mkStmts _ _ _ _ _ _
        · simp only [Heap.alloc]; exact unres_mkStmts _ _ _ _ _ _
      · rfl
    · rfl
  | addvar path var code =>
    simp only [applyOp]; split
    · split
      · split
        · split
          · rw [unres_set]; simp only [Heap.alloc]; exact unres_setTab _ _ _ _
          · rfl
        · rfl
      · rfl
    · rfl
  | retypeNode path k var code =>
    simp only [applyOp]; split
    · split
      · split
        · split
          · exact unres_setTab _ _ _ _
          · rfl
        · rfl
      · rfl
    · rfl

end LokiModel.C17
