import LokiModel.C17.Inv
/-!
# C17: `copyNode` / `copyUnit` establish the ownership invariant for everything they allocate
-/
namespace LokiModel.C17

theorem find_mem {p : Addr → Bool} : ∀ {l : List Addr} {s : Addr}, l.find? p = some s → s ∈ l
  | [], _, h => by simp at h
  | x :: r, s, h => by
    simp only [List.find?] at h
    split at h
    · cases h; exact List.mem_cons_self
    · exact List.mem_cons_of_mem _ (find_mem h)

/-- what `get_symbol_scope` finds is a scope of the chain it was given -/
theorem resolve_mem {h : Heap} {chain : List Addr} {name : String} {s : Addr} (e : resolve h chain name = some s) : s ∈ chain := by
  simp only [resolve] at e
  split at e
  · cases e; exact find_mem (by assumption)
  · split at e
    · cases e
    · exact find_mem e

theorem rescope_ok {m : Mode} {h : Heap} {t : Nat} {chain : List Addr} (hc : ChainOK h t chain) (syms : List Sym) :
    ∀ r ∈ (syms.map (rescope m h chain)).filterMap (·.scope),
      h.tagOf r = some t ∨ h.tagOf r = some 0 ∨ unresolved m h chain syms = true := by
  intro r hr
  simp only [List.mem_filterMap, List.mem_map] at hr
  obtain ⟨s', ⟨s, hs, rfl⟩, hsc⟩ := hr
  simp only [rescope] at hsc
  cases hres : resolve h chain s.name with
  | some sc =>
    simp only [hres] at hsc
    have e2 : sc = r := by simpa using hsc
    subst e2
    rcases hc sc (resolve_mem hres) with e | e
    · exact Or.inl e
    · exact Or.inr (Or.inl e)
  | none =>
    simp only [hres] at hsc
    by_cases hp : m.pickle = true
    · simp [hp] at hsc
    · simp only [hp] at hsc
      refine Or.inr (Or.inr ?_)
      simp only [unresolved, List.any_eq_true]
      exact ⟨s, hs, by simp [hres, show s.scope = some r from by simpa using hsc]⟩

/-- generic threading lemma -/
theorem thread_ok (step : Heap → Addr → Heap × Addr) (t : Nat) (P : Heap → Prop)
    (hs : ∀ h a, Inv h → P h → Le h (step h a).1 ∧ Inv (step h a).1 ∧ P (step h a).1 ∧ (step h a).1.tagOf (step h a).2 = some t) :
    ∀ (l : List Addr) (h : Heap), Inv h → P h →
      Le h (thread step h l).1 ∧ Inv (thread step h l).1 ∧ P (thread step h l).1 ∧
        ∀ r ∈ (thread step h l).2, (thread step h l).1.tagOf r = some t := by
  intro l
  induction l with
  | nil => intro h hi hp; exact ⟨Le.refl h, hi, hp, by simp [thread]⟩
  | cons a r ih =>
    intro h hi hp
    obtain ⟨l1, i1, p1, t1⟩ := hs h a hi hp
    obtain ⟨l2, i2, p2, t2⟩ := ih (step h a).1 i1 p1
    simp only [thread]
    refine ⟨l1.trans l2, i2, p2, ?_⟩
    intro x hx
    rcases List.mem_cons.mp hx with rfl | hx
    · exact l2.1 _ _ t1
    · exact t2 x hx

/-- the table of a scope object is owned by the owner of the scope -/
theorem tabOf_tag {h : Heap} {t : Nat} {s tb : Addr} (hi : Inv h) (hs : h.tagOf s = some t ∨ h.tagOf s = some 0)
    (e : tabOf h s = some tb) : h.tagOf tb = some t ∨ h.tagOf tb = some 0 := by
  simp only [tabOf, Heap.get] at e
  cases hc : h.cells[s]? with
  | none => simp [hc] at e
  | some v =>
    obtain ⟨tg, c⟩ := v
    have hg := hi s tg c hc
    have htg : h.tagOf s = some tg := by simp [Heap.tagOf, hc]
    simp only [hc, Option.map_some] at e
    have key : tb ∈ structRefs c ∧ tb ∈ envRefs c := by
      cases c with
      | tab _ _ => simp at e
      | node lbl sc syms kids =>
        cases sc with
        | none => simp at e
        | some p => obtain ⟨t1, p1⟩ := p; simp at e; subst e; simp [structRefs, envRefs]
      | unit _ _ _ _ t1 _ _ => simp at e; subst e; simp [structRefs, envRefs]
    by_cases h0 : tg = 0
    · exact Or.inr (hg.2 h0 tb key.2)
    · have := (hg.1 h0).1 tb key.1
      rcases hs with e1 | e1
      · rw [htg] at e1; cases e1; exact Or.inl this
      · rw [htg] at e1; cases e1; exact absurd rfl h0

theorem copyNode_ok (m : Mode) (hm : m.tag ≠ 0) : ∀ (f : Nat) (h : Heap) (chain : List Addr) (a : Addr),
    Inv h → ChainOK h m.tag chain →
    Le h (copyNode m f h chain a).1 ∧ Inv (copyNode m f h chain a).1 ∧
      (copyNode m f h chain a).1.tagOf (copyNode m f h chain a).2 = some m.tag := by
  intro f
  have empty : ∀ (h : Heap), Inv h →
      Le h (h.alloc m.tag (.node "" none [] [])).1 ∧ Inv (h.alloc m.tag (.node "" none [] [])).1 ∧
      (h.alloc m.tag (.node "" none [] [])).1.tagOf (h.alloc m.tag (.node "" none [] [])).2 = some m.tag := by
    intro h hi
    exact ⟨le_alloc _ _ _, inv_alloc hi hm ⟨by simp [structRefs], by simp [parRefs], by simp [symRefs]⟩, tagOf_alloc_new _ _ _⟩
  induction f with
  | zero => intro h chain a hi _; simp only [copyNode]; exact empty h hi
  | succ f ih =>
    intro h chain a hi hc
    simp only [copyNode]
    split
    · -- plain node
      rename_i lbl syms kids _
      have th := thread_ok (fun h k => copyNode m f h chain k) m.tag (fun h => ChainOK h m.tag chain)
        (fun h a hi hp => by
          obtain ⟨l, i, t⟩ := ih h chain a hi hp
          exact ⟨l, i, hp.mono l, t⟩) kids h hi hc
      obtain ⟨l1, i1, c1, t1⟩ := th
      generalize thread (fun h k => copyNode m f h chain k) h kids = r at l1 i1 c1 t1
      have lf := le_flag r.1 (unresolved m r.1 chain syms)
      have la := le_alloc (r.1.flag (unresolved m r.1 chain syms)) m.tag (.node lbl none (syms.map (rescope m r.1 chain)) r.2)
      refine ⟨l1.trans (lf.trans la), inv_alloc (inv_flag _ i1) hm ?_, tagOf_alloc_new _ _ _⟩
      refine ⟨fun x hx => ?_, by simp [parRefs], fun x hx => ?_⟩
      · simp only [structRefs, List.nil_append] at hx
        exact la.1 _ _ (lf.1 _ _ (t1 x hx))
      · simp only [symRefs] at hx
        rcases rescope_ok c1 syms x hx with e | e | e
        · exact Or.inl (la.1 _ _ (lf.1 _ _ e))
        · exact Or.inr (Or.inl (la.1 _ _ (lf.1 _ _ e)))
        · exact Or.inr (Or.inr (la.2 (by simp [Heap.flag, e])))
    · -- scoped node
      rename_i lbl t0 p0 syms kids _
      -- the new table
      have hd : ∀ x, chain.head? = some x → h.tagOf x = some m.tag ∨ h.tagOf x = some 0 := by
        intro x hx
        cases chain with
        | nil => simp at hx
        | cons y ys => simp at hx; subst hx; exact hc y List.mem_cons_self
      have g1 : Good (h.alloc m.tag (.tab (chain.head?.bind (tabOf h)) (copyEnts m (entsOf h t0)))).1 m.tag
          (.tab (chain.head?.bind (tabOf h)) (copyEnts m (entsOf h t0))) := by
        refine ⟨by simp [structRefs], fun x hx => ?_, by simp [symRefs]⟩
        simp only [parRefs, Option.mem_toList, Option.bind_eq_some_iff] at hx
        obtain ⟨y, hy, hty⟩ := hx
        exact (tabOf_tag hi (hd y hy) hty).imp ((le_alloc _ _ _).1 _ _) ((le_alloc _ _ _).1 _ _)
      have i1 := inv_alloc hi hm g1
      have l1 := le_alloc h m.tag (.tab (chain.head?.bind (tabOf h)) (copyEnts m (entsOf h t0)))
      have n1 := tagOf_alloc_new h m.tag (.tab (chain.head?.bind (tabOf h)) (copyEnts m (entsOf h t0)))
      generalize h.alloc m.tag (.tab (chain.head?.bind (tabOf h)) (copyEnts m (entsOf h t0))) = r1 at g1 i1 l1 n1
      -- the placeholder
      have hd1 : ∀ x, chain.head? = some x → r1.1.tagOf x = some m.tag ∨ r1.1.tagOf x = some 0 := fun x hx =>
        (hd x hx).imp (l1.1 _ _) (l1.1 _ _)
      have l2 := le_alloc r1.1 m.tag (.node lbl (some (r1.2, chain.head?)) [] [])
      have n2 := tagOf_alloc_new r1.1 m.tag (.node lbl (some (r1.2, chain.head?)) [] [])
      have g2 : Good (r1.1.alloc m.tag (.node lbl (some (r1.2, chain.head?)) [] [])).1 m.tag
          (.node lbl (some (r1.2, chain.head?)) [] []) := by
        refine ⟨fun x hx => ?_, fun x hx => ?_, by simp [symRefs]⟩
        · simp only [structRefs, List.append_nil, List.mem_singleton] at hx; subst hx; exact l2.1 _ _ n1
        · simp only [parRefs, Option.mem_toList] at hx
          exact (hd1 x hx).imp (l2.1 _ _) (l2.1 _ _)
      have i2 := inv_alloc i1 hm g2
      generalize r1.1.alloc m.tag (.node lbl (some (r1.2, chain.head?)) [] []) = r2 at g2 i2 l2 n2
      have c2 : ChainOK r2.1 m.tag (r2.2 :: chain) := by
        intro s hs
        rcases List.mem_cons.mp hs with rfl | hs
        · exact Or.inl n2
        · exact (hc s hs).imp (fun e => l2.1 _ _ (l1.1 _ _ e)) (fun e => l2.1 _ _ (l1.1 _ _ e))
      have th := thread_ok (fun h k => copyNode m f h (r2.2 :: chain) k) m.tag (fun h => ChainOK h m.tag (r2.2 :: chain))
        (fun h a hi hp => by
          obtain ⟨l, i, t⟩ := ih h (r2.2 :: chain) a hi hp
          exact ⟨l, i, hp.mono l, t⟩) kids r2.1 i2 c2
      obtain ⟨l3, i3, c3, t3⟩ := th
      generalize thread (fun h k => copyNode m f h (r2.2 :: chain) k) r2.1 kids = r3 at l3 i3 c3 t3
      have lf := le_flag r3.1 (unresolved m r3.1 (r2.2 :: chain) syms)
      have ls := le_set (r3.1.flag (unresolved m r3.1 (r2.2 :: chain) syms)) r2.2
        (.node lbl (some (r1.2, chain.head?)) (syms.map (rescope m r3.1 (r2.2 :: chain))) r3.2)
      have tg2 : (r3.1.flag (unresolved m r3.1 (r2.2 :: chain) syms)).tagOf r2.2 = some m.tag := lf.1 _ _ (l3.1 _ _ n2)
      refine ⟨l1.trans (l2.trans (l3.trans (lf.trans ls))), inv_set (inv_flag _ i3) ?_, ls.1 _ _ tg2⟩
      intro t ht
      rw [tg2] at ht
      cases ht
      refine ⟨fun _ => ⟨fun x hx => ?_, fun x hx => ?_, fun x hx => ?_⟩, fun h0 => absurd h0 hm⟩
      · simp only [structRefs, List.singleton_append, List.mem_cons] at hx
        rcases hx with rfl | hx
        · exact ls.1 _ _ (lf.1 _ _ (l3.1 _ _ (l2.1 _ _ n1)))
        · exact ls.1 _ _ (lf.1 _ _ (t3 x hx))
      · simp only [parRefs, Option.mem_toList] at hx
        exact (hd1 x hx).imp (fun e => ls.1 _ _ (lf.1 _ _ (l3.1 _ _ (l2.1 _ _ e)))) (fun e => ls.1 _ _ (lf.1 _ _ (l3.1 _ _ (l2.1 _ _ e))))
      · simp only [symRefs] at hx
        rcases rescope_ok c3 syms x hx with e | e | e
        · exact Or.inl (ls.1 _ _ (lf.1 _ _ e))
        · exact Or.inr (Or.inl (ls.1 _ _ (lf.1 _ _ e)))
        · exact Or.inr (Or.inr (ls.2 (by simp [Heap.flag, e])))
    · exact empty h hi


/-- the parent of a scope object is owned by the same owner or by the environment -/
theorem parOf_tag {h : Heap} {t : Nat} {s p : Addr} (hi : Inv h) (hs : h.tagOf s = some t ∨ h.tagOf s = some 0)
    (e : parOf h s = some p) : h.tagOf p = some t ∨ h.tagOf p = some 0 := by
  simp only [parOf, Heap.get] at e
  cases hc : h.cells[s]? with
  | none => simp [hc] at e
  | some v =>
    obtain ⟨tg, c⟩ := v
    have hg := hi s tg c hc
    have htg : h.tagOf s = some tg := by simp [Heap.tagOf, hc]
    simp only [hc, Option.map_some] at e
    have key : p ∈ parRefs c ∧ p ∈ envRefs c := by
      cases c with
      | tab _ _ => simp at e
      | node lbl sc syms kids =>
        cases sc with
        | none => simp at e
        | some q => obtain ⟨t1, p1⟩ := q; simp at e; subst e; simp [parRefs, envRefs]
      | unit _ _ _ p1 t1 _ _ => simp at e; subst e; simp [parRefs, envRefs]
    by_cases h0 : tg = 0
    · exact Or.inr (hg.2 h0 p key.2)
    · have := (hg.1 h0).2.1 p key.1
      rcases hs with e1 | e1
      · rw [htg] at e1; cases e1; exact this
      · rw [htg] at e1; cases e1; exact absurd rfl h0

theorem chainOf_ok {h : Heap} {t : Nat} (hi : Inv h) : ∀ (f : Nat) (o : Option Addr),
    (∀ p, o = some p → h.tagOf p = some t ∨ h.tagOf p = some 0) → ChainOK h t (chainOf f h o) := by
  intro f
  induction f with
  | zero => intro o _ s hs; simp [chainOf] at hs
  | succ f ih =>
    intro o ho s hs
    cases o with
    | none => simp [chainOf] at hs
    | some p =>
      simp only [chainOf, List.mem_cons] at hs
      rcases hs with rfl | hs
      · exact ho s rfl
      · exact ih (parOf h p) (fun q hq => parOf_tag hi (ho p rfl) hq) s hs

/-- `register_in_parent_scope` only rewrites entries of one table -/
theorem register_ok {h : Heap} (hi : Inv h) (parent : Option Addr) (name : String) (u : Addr) :
    Le h (register h parent name u) ∧ Inv (register h parent name u) := by
  simp only [register]
  split
  · exact ⟨Le.refl h, hi⟩
  · split
    · rename_i p tb _
      split
      · rename_i par ents hget
        refine ⟨le_set _ _ _, inv_set hi ?_⟩
        intro t ht
        simp only [Heap.get] at hget
        cases hc : h.cells[tb]? with
        | none => simp [hc] at hget
        | some v =>
          obtain ⟨tg, c⟩ := v
          simp only [hc, Option.map_some, Option.some.injEq] at hget
          subst hget
          have htg : h.tagOf tb = some tg := by simp [Heap.tagOf, hc]
          have hg := hi tb tg _ hc
          rw [htg] at ht; cases ht
          refine ⟨fun hne => ?_, fun h0 => ?_⟩
          · have g := (hg.1 hne).mono (le_set h tb (.tab par (aset name.toLower { code := 1, proc := some u } ents)))
            exact ⟨by simp [structRefs], by simpa [parRefs] using g.2.1, by simp [symRefs]⟩
          · simpa [envRefs] using hg.2 h0
      · exact ⟨Le.refl h, hi⟩
    · exact ⟨Le.refl h, hi⟩

theorem copyUnit_ok (m : Mode) (hm : m.tag ≠ 0) : ∀ (f : Nat) (h : Heap) (parent' : Option Addr) (u : Addr),
    Inv h → (∀ p, parent' = some p → h.tagOf p = some m.tag ∨ h.tagOf p = some 0) →
    Le h (copyUnit m f h parent' u).1 ∧ Inv (copyUnit m f h parent' u).1 ∧
      (copyUnit m f h parent' u).1.tagOf (copyUnit m f h parent' u).2 = some m.tag := by
  intro f
  have empty : ∀ (h : Heap), Inv h →
      Le h (h.alloc m.tag (.node "" none [] [])).1 ∧ Inv (h.alloc m.tag (.node "" none [] [])).1 ∧
      (h.alloc m.tag (.node "" none [] [])).1.tagOf (h.alloc m.tag (.node "" none [] [])).2 = some m.tag := by
    intro h hi
    exact ⟨le_alloc _ _ _, inv_alloc hi hm ⟨by simp [structRefs], by simp [parRefs], by simp [symRefs]⟩, tagOf_alloc_new _ _ _⟩
  induction f with
  | zero => intro h parent u hi _; simp only [copyUnit]; exact empty h hi
  | succ f ih =>
    intro h parent' u hi hp'
    simp only [copyUnit]
    split
    · rename_i isMod name attrs p0 t0 secs mems _
      -- table
      have g1 : Good (h.alloc m.tag (.tab (parent'.bind (tabOf h)) (copyEnts m (entsOf h t0)))).1 m.tag
          (.tab (parent'.bind (tabOf h)) (copyEnts m (entsOf h t0))) := by
        refine ⟨by simp [structRefs], fun x hx => ?_, by simp [symRefs]⟩
        simp only [parRefs, Option.mem_toList, Option.bind_eq_some_iff] at hx
        obtain ⟨y, hy, hty⟩ := hx
        exact (tabOf_tag hi (hp' y hy) hty).imp ((le_alloc _ _ _).1 _ _) ((le_alloc _ _ _).1 _ _)
      have i1 := inv_alloc hi hm g1
      have l1 := le_alloc h m.tag (.tab (parent'.bind (tabOf h)) (copyEnts m (entsOf h t0)))
      have n1 := tagOf_alloc_new h m.tag (.tab (parent'.bind (tabOf h)) (copyEnts m (entsOf h t0)))
      generalize h.alloc m.tag (.tab (parent'.bind (tabOf h)) (copyEnts m (entsOf h t0))) = r1 at g1 i1 l1 n1
      have hp1 : ∀ p, parent' = some p → r1.1.tagOf p = some m.tag ∨ r1.1.tagOf p = some 0 := fun p e =>
        (hp' p e).imp (l1.1 _ _) (l1.1 _ _)
      -- placeholder
      have l2 := le_alloc r1.1 m.tag (.unit isMod name attrs parent' r1.2 [] [])
      have n2 := tagOf_alloc_new r1.1 m.tag (.unit isMod name attrs parent' r1.2 [] [])
      have g2 : Good (r1.1.alloc m.tag (.unit isMod name attrs parent' r1.2 [] [])).1 m.tag (.unit isMod name attrs parent' r1.2 [] []) := by
        refine ⟨fun x hx => ?_, fun x hx => ?_, by simp [symRefs]⟩
        · simp only [structRefs, List.append_nil, List.mem_singleton] at hx; subst hx; exact l2.1 _ _ n1
        · simp only [parRefs, Option.mem_toList] at hx
          exact (hp1 x hx).imp (l2.1 _ _) (l2.1 _ _)
      have i2 := inv_alloc i1 hm g2
      generalize r1.1.alloc m.tag (.unit isMod name attrs parent' r1.2 [] []) = r2 at g2 i2 l2 n2
      have hp2 : ∀ p, parent' = some p → r2.1.tagOf p = some m.tag ∨ r2.1.tagOf p = some 0 := fun p e =>
        (hp1 p e).imp (l2.1 _ _) (l2.1 _ _)
      have c2 : ChainOK r2.1 m.tag (r2.2 :: chainOf (f + 1) r2.1 parent') := by
        intro s hs
        rcases List.mem_cons.mp hs with rfl | hs
        · exact Or.inl n2
        · exact chainOf_ok i2 (f + 1) parent' hp2 s hs
      generalize (r2.2 :: chainOf (f + 1) r2.1 parent') = chain at c2
      -- members
      have th3 := thread_ok (fun h k => copyUnit m f h (some r2.2) k) m.tag
        (fun h => h.tagOf r2.2 = some m.tag ∧ h.tagOf r1.2 = some m.tag ∧ ChainOK h m.tag chain ∧
          (∀ p, parent' = some p → h.tagOf p = some m.tag ∨ h.tagOf p = some 0))
        (fun h a hi hP => by
          obtain ⟨l, i, t⟩ := ih h (some r2.2) a hi (fun p e => by cases e; exact Or.inl hP.1)
          exact ⟨l, i, ⟨l.1 _ _ hP.1, l.1 _ _ hP.2.1, hP.2.2.1.mono l, fun p e => (hP.2.2.2 p e).imp (l.1 _ _) (l.1 _ _)⟩, t⟩)
        mems r2.1 i2 ⟨n2, l2.1 _ _ n1, c2, hp2⟩
      obtain ⟨l3, i3, ⟨tu3, tt3, c3, hp3⟩, t3⟩ := th3
      generalize thread (fun h k => copyUnit m f h (some r2.2) k) r2.1 mems = r3 at l3 i3 tu3 tt3 c3 hp3 t3
      -- sections
      have th4 := thread_ok (fun h k => copyNode m (f + 1) h chain k) m.tag
        (fun h => h.tagOf r2.2 = some m.tag ∧ h.tagOf r1.2 = some m.tag ∧ ChainOK h m.tag chain ∧
          (∀ p, parent' = some p → h.tagOf p = some m.tag ∨ h.tagOf p = some 0) ∧ ∀ r ∈ r3.2, h.tagOf r = some m.tag)
        (fun h a hi hP => by
          obtain ⟨l, i, t⟩ := copyNode_ok m hm (f + 1) h chain a hi hP.2.2.1
          exact ⟨l, i, ⟨l.1 _ _ hP.1, l.1 _ _ hP.2.1, hP.2.2.1.mono l, fun p e => (hP.2.2.2.1 p e).imp (l.1 _ _) (l.1 _ _),
            fun r hr => l.1 _ _ (hP.2.2.2.2 r hr)⟩, t⟩)
        secs r3.1 i3 ⟨tu3, tt3, c3, hp3, t3⟩
      obtain ⟨l4, i4, ⟨tu4, tt4, c4, hp4, tm4⟩, t4⟩ := th4
      generalize thread (fun h k => copyNode m (f + 1) h chain k) r3.1 secs = r4 at l4 i4 tu4 tt4 c4 hp4 tm4 t4
      -- final unit cell
      have ls := le_set r4.1 r2.2 (.unit isMod name attrs parent' r1.2 r4.2 r3.2)
      have i5 : Inv (r4.1.set r2.2 (.unit isMod name attrs parent' r1.2 r4.2 r3.2)) := by
        refine inv_set i4 ?_
        intro t ht
        rw [tu4] at ht; cases ht
        refine ⟨fun _ => ⟨fun x hx => ?_, fun x hx => ?_, by simp [symRefs]⟩, fun h0 => absurd h0 hm⟩
        · simp only [structRefs, List.mem_cons, List.mem_append] at hx
          rcases hx with rfl | hx | hx
          · exact ls.1 _ _ tt4
          · exact ls.1 _ _ (t4 x hx)
          · exact ls.1 _ _ (tm4 x hx)
        · simp only [parRefs, Option.mem_toList] at hx
          exact (hp4 x hx).imp (ls.1 _ _) (ls.1 _ _)
      obtain ⟨l6, i6⟩ := register_ok i5 parent' name r2.2
      exact ⟨l1.trans (l2.trans (l3.trans (l4.trans (ls.trans l6)))), i6, l6.1 _ _ (ls.1 _ _ tu4)⟩
    · exact empty h hi

end LokiModel.C17
