import LokiModel.Sexp
import LokiModel.C17.Model
/-!
# C17 / C18 wire format (infrastructure): heap export of real program units, op histories, rendering of model outputs
-/
namespace LokiModel.C17.Wire
open Sexp LokiModel.C17

def optNat : Sexp → Option (Option Nat)
  | atom "none" => some none
  | x => x.toNat?.map some

def decTy : Sexp → Option (String × Ty)
  | list [n, c, td, pr] => do
    let n ← n.toStr?; let c ← c.toNat?; let td ← optNat td; let pr ← optNat pr
    pure (n, { code := c, tdef := td, proc := pr })
  | _ => none

def decSym : Sexp → Option Sym
  | list [n, sc] => do pure { name := (← n.toStr?), scope := (← optNat sc) }
  | _ => none

def decNats : Sexp → Option (List Nat)
  | list xs => xs.mapM toNat?
  | _ => none

/-- `(tag cell)` -/
def decCell : Sexp → Option (Nat × Cell)
  | list [tg, list [atom "tab", par, list ents]] => do
    pure ((← tg.toNat?), .tab (← optNat par) (← ents.mapM decTy))
  | list [tg, list [atom "node", lbl, sc, list syms, kids]] => do
    let sc ← match sc with
      | atom "none" => some none
      | list [t, p] => do pure (some ((← t.toNat?), (← optNat p)))
      | _ => none
    pure ((← tg.toNat?), .node (← lbl.toStr?) sc (← syms.mapM decSym) (← decNats kids))
  | list [tg, list [atom "unit", isMod, name, list attrs, par, t, secs, mems]] => do
    pure ((← tg.toNat?), .unit (← isMod.toBool?) (← name.toStr?) (← attrs.mapM toStr?) (← optNat par) (← t.toNat?) (← decNats secs) (← decNats mems))
  | _ => none

def decHeap : Sexp → Option Heap
  | list cells => do pure { cells := (← cells.mapM decCell) }
  | _ => none

def decNames : Sexp → Option (List String)
  | list xs => xs.mapM toStr?
  | _ => none

/-- `(side op …)`, side ∈ o | c -/
def decOp : Sexp → Option (Bool × Op)
  | list (sd :: atom o :: path :: args) => do
    let side ← match sd with | atom "o" => some false | atom "c" => some true | _ => none
    let path ← decNats path
    let op ← match o, args with
      | "rename", [n] => do pure (Op.rename path (← n.toStr?))
      | "retype", [v, c] => do pure (Op.retype path (← v.toStr?) (← c.toNat?))
      | "setsec", [k, list stmts, d] => do pure (Op.setsec path (← k.toNat?) (← stmts.mapM decNames) (← d.toNat?))
      | "addvar", [v, c] => do pure (Op.addvar path (← v.toStr?) (← c.toNat?))
      | "touch", [_, _] => pure (Op.touch path)
      | "retypenode", [k, v, c] => do pure (Op.retypeNode path (← k.toNat?) (← v.toStr?) (← c.toNat?))
      | _, _ => none
    pure (side, op)
  | _ => none

def optS : Option Nat → Sexp
  | some n => ofNat n
  | none => atom "none"

def encOut : Out → Sexp
  | .name s => list [atom "n", str s]
  | .sym n c sc => list [atom "s", str n, optS c, match sc with | some x => str x | none => atom "none"]
  | .ent n c => list [atom "e", str n, ofNat c]
  | .opn => atom "<"
  | .cls => atom ">"

/-- owner tags of the scopes of all symbol occurrences below a unit, in render order (ghost data, correspondence only) -/
def nodeTags : Nat → Heap → Addr → List Sexp
  | 0, _, _ => []
  | f + 1, h, a =>
    match h.get a with
    | some (.node _ _ syms kids) =>
      syms.map (fun s => match s.scope with | some sc => optS (h.tagOf sc) | none => atom "none") ++ kids.flatMap (nodeTags f h)
    | _ => []

def unitTags : Nat → Heap → Addr → List Sexp
  | 0, _, _ => []
  | f + 1, h, u =>
    match h.get u with
    | some (.unit _ _ _ _ _ secs mems) => secs.flatMap (nodeTags (f + 1) h) ++ mems.flatMap (unitTags f h)
    | _ => []

/-- what the heap walker sees: cells reachable through strong references (children, tables, `typedef` links), not expanding
environment cells (tag 0) -/
def reach : Nat → Heap → List Addr → List Addr → List Addr
  | 0, _, _, seen => seen
  | _, _, [], seen => seen
  | f + 1, h, a :: todo, seen =>
    if seen.contains a then reach f h todo seen else
    if h.tagOf a = some 0 then reach f h todo seen else
    match h.get a with
    | some (.tab _ ents) => reach f h (ents.filterMap (·.2.tdef) ++ todo) (a :: seen)
    | some (.node _ sc _ kids) => reach f h ((match sc with | some (t, _) => [t] | none => []) ++ kids ++ todo) (a :: seen)
    | some (.unit _ _ _ _ t secs mems) => reach f h (t :: secs ++ mems ++ todo) (a :: seen)
    | none => reach f h todo seen

def cellLabel (h : Heap) (a : Addr) : String :=
  match h.get a with
  | some (.tab _ _) => "SymbolTable"
  | some (.node lbl _ _ _) => lbl
  | some (.unit _ _ _ _ _ _ _) => "unit"
  | none => "?"

def insertSorted (s : String) : List String → List String
  | [] => [s]
  | x :: r => if s ≤ x then s :: x :: r else x :: insertSorted s r

def shared (h : Heap) (a b : Addr) : Sexp :=
  let f := 4 * h.size + 8
  let ra := reach f h [a] []
  let rb := reach f h [b] []
  let lbls := (ra.filter rb.contains).map (cellLabel h)
  list ((lbls.foldl (fun acc s => insertSorted s acc) []).map str)

/-- owner of the unit the parent's table entry for `name(o)` is linked to -/
def regOwner (h : Heap) (o : Addr) : Sexp :=
  match h.get o with
  | some (.unit _ name _ (some p) _ _ _) =>
    match tabOf h p with
    | some t =>
      match alookup name.toLower (entsOf h t) with
      | some ty => match ty.proc with
        | some u => optS (h.tagOf u)
        | none => atom "none"
      | none => atom "none"
    | none => atom "none"
  | _ => atom "none"

def snap (h : Heap) (o c : Addr) : Sexp :=
  let f := h.size + 2
  list [atom "snap", list ((render f h o).map encOut), list (unitTags f h o),
        list ((render f h c).map encOut), list (unitTags f h c), shared h o c]

end LokiModel.C17.Wire
