import LokiModel.C08.Sem
import LokiModel.Expr.SemLemmas
/-!
# C08: the integer reading `aval` / `bval` is the shared reference semantics `evalS (den ·)` on integer valuations

* `back`: whenever `aval`/`bval` gives a value, `evalS env (den t)` gives the same value (every tree);
* `fwd`: on a valuation without real-valued variables, for a tree without real literals whose n-ary nodes have at
  least two operands, every value of `evalS env (den t)` is the value given by `aval`/`bval`.
-/
namespace LokiModel.C08
open LokiModel.Expr LokiModel.C06

/-- the integer / logical part of a valuation of the shared layer -/
def envOf (env : Env) : IEnv :=
  ⟨fun x => match env.var x with | some (.int i) => some i | _ => none,
   fun x => match env.var x with | some (.bool b) => some b | _ => none⟩

/-- no variable has a real value -/
def IntEnv (env : Env) : Prop := ∀ x q, env.var x ≠ some (.real q)

theorem beq_cast (a b : Int) : ((a : Rat) == (b : Rat)) = (a == b) := by
  by_cases h : a = b
  · subst h; simp
  · have h2 : (a : Rat) ≠ (b : Rat) := fun e => h (Rat.intCast_inj.mp e)
    rw [beq_eq_false_iff_ne.mpr h, beq_eq_false_iff_ne.mpr h2]

theorem cmpRat_cast (o : CmpOp) (a b : Int) : Val.cmpRat o (a : Rat) (b : Rat) = cmpInt o a b := by
  cases o <;> simp [Val.cmpRat, cmpInt, Rat.intCast_lt_intCast, Rat.intCast_le_intCast, beq_cast, bne]

theorem evalS_denInt (env : Env) (n : Int) : evalS env (denInt n) = some (.int n) := by
  unfold denInt
  split
  · simp only [evalS, Option.bind_some, Val.neg]; congr 2; omega
  · simp only [evalS]; congr 2; omega

variable (env : Env)

def Back (t : E) : Prop :=
  (∀ i, aval (envOf env) t = some i → evalS env (den t) = some (.int i)) ∧
  (∀ b, bval (envOf env) t = some b → evalS env (den t) = some (.bool b))

theorem foldAdd_back (cs : List E) (h : ∀ c ∈ cs, Back env c) : ∀ acc a s, evalS env acc = some (.int a) →
    asum (envOf env) cs = some s → evalS env (denFold .add acc cs) = some (.int (a + s)) := by
  induction cs with
  | nil => intro acc a s ha hs; simp [asum] at hs; subst hs; rw [denFold]; simpa using ha
  | cons c cs ih =>
    intro acc a s ha hs
    rw [asum_cons] at hs
    obtain ⟨x, y, hx, hy, rfl⟩ := hs
    rw [denFold]
    have hc := (h c (by simp)).1 x hx
    have := ih (fun c' hc' => h c' (by simp [hc'])) (.add acc (den c)) (a + x) y
      (by simp [evalS, bin, ha, hc, Val.add, Val.arith]) hy
    rw [this]; congr 2; omega

theorem foldMul_back (cs : List E) (h : ∀ c ∈ cs, Back env c) : ∀ acc a s, evalS env acc = some (.int a) →
    aprod (envOf env) cs = some s → evalS env (denFold .mul acc cs) = some (.int (a * s)) := by
  induction cs with
  | nil => intro acc a s ha hs; simp [aprod] at hs; subst hs; rw [denFold]; simpa using ha
  | cons c cs ih =>
    intro acc a s ha hs
    rw [aprod_cons] at hs
    obtain ⟨x, y, hx, hy, rfl⟩ := hs
    rw [denFold]
    have hc := (h c (by simp)).1 x hx
    have := ih (fun c' hc' => h c' (by simp [hc'])) (.mul acc (den c)) (a * x) y
      (by simp [evalS, bin, ha, hc, Val.mul, Val.arith]) hy
    rw [this, Int.mul_assoc]

theorem ball_cons' {ρ : IEnv} {x : E} {xs : List E} {v : Bool} :
    ball ρ (x :: xs) = some v ↔ ∃ a b, bval ρ x = some a ∧ ball ρ xs = some b ∧ v = (a && b) := by
  rw [ball, o2_some]; constructor
  · rintro ⟨a, b, h1, h2, h3⟩; exact ⟨a, b, h1, h2, by simpa using h3.symm⟩
  · rintro ⟨a, b, h1, h2, h3⟩; exact ⟨a, b, h1, h2, by simp [h3]⟩

theorem bany_cons' {ρ : IEnv} {x : E} {xs : List E} {v : Bool} :
    bany ρ (x :: xs) = some v ↔ ∃ a b, bval ρ x = some a ∧ bany ρ xs = some b ∧ v = (a || b) := by
  rw [bany, o2_some]; constructor
  · rintro ⟨a, b, h1, h2, h3⟩; exact ⟨a, b, h1, h2, by simpa using h3.symm⟩
  · rintro ⟨a, b, h1, h2, h3⟩; exact ⟨a, b, h1, h2, by simp [h3]⟩

theorem foldAnd_back (cs : List E) (h : ∀ c ∈ cs, Back env c) : ∀ acc a s, evalS env acc = some (.bool a) →
    ball (envOf env) cs = some s → evalS env (denFold .and acc cs) = some (.bool (a && s)) := by
  induction cs with
  | nil => intro acc a s ha hs; simp [ball] at hs; subst hs; rw [denFold]; simpa using ha
  | cons c cs ih =>
    intro acc a s ha hs
    rw [ball_cons'] at hs
    obtain ⟨x, y, hx, hy, rfl⟩ := hs
    rw [denFold]
    have hc := (h c (by simp)).2 x hx
    have := ih (fun c' hc' => h c' (by simp [hc'])) (.and acc (den c)) (a && x) y
      (by simp [evalS, bin, ha, hc, Val.land]) hy
    rw [this, Bool.and_assoc]

theorem foldOr_back (cs : List E) (h : ∀ c ∈ cs, Back env c) : ∀ acc a s, evalS env acc = some (.bool a) →
    bany (envOf env) cs = some s → evalS env (denFold .or acc cs) = some (.bool (a || s)) := by
  induction cs with
  | nil => intro acc a s ha hs; simp [bany] at hs; subst hs; rw [denFold]; simpa using ha
  | cons c cs ih =>
    intro acc a s ha hs
    rw [bany_cons'] at hs
    obtain ⟨x, y, hx, hy, rfl⟩ := hs
    rw [denFold]
    have hc := (h c (by simp)).2 x hx
    have := ih (fun c' hc' => h c' (by simp [hc'])) (.or acc (den c)) (a || x) y
      (by simp [evalS, bin, ha, hc, Val.lor]) hy
    rw [this, Bool.or_assoc]

theorem back_sum (p : Bool) (xs : List E) (h : ∀ c ∈ xs, Back env c) : Back env (.sum p xs) := by
  refine ⟨?_, fun b hb => by simp [bval] at hb⟩
  intro i hi
  rw [aval_sum] at hi
  match xs, h with
  | [], _ => simp [asum] at hi; subst hi; rw [den]; simp [evalS]
  | x :: xs, h =>
    rw [asum_cons] at hi
    obtain ⟨a, s, ha, hs, rfl⟩ := hi
    rw [den]
    exact foldAdd_back env xs (fun c hc => h c (by simp [hc])) (den x) a s ((h x (by simp)).1 a ha) hs

theorem back_prod (p : Bool) (xs : List E) (h : ∀ c ∈ xs, Back env c) : Back env (.prod p xs) := by
  refine ⟨?_, fun b hb => by simp [bval] at hb⟩
  intro i hi
  rw [aval_prod] at hi
  match xs, h with
  | [], _ => simp [aprod] at hi; subst hi; rw [den]; simp [evalS]
  | x :: xs, h =>
    rw [aprod_cons] at hi
    obtain ⟨a, s, ha, hs, rfl⟩ := hi
    rw [den]
    exact foldMul_back env xs (fun c hc => h c (by simp [hc])) (den x) a s ((h x (by simp)).1 a ha) hs

theorem back_land (xs : List E) (h : ∀ c ∈ xs, Back env c) : Back env (.land xs) := by
  refine ⟨fun b hb => by simp [aval] at hb, ?_⟩
  intro i hi
  simp only [bval] at hi
  match xs, h with
  | [], _ => simp [ball] at hi; subst hi; rw [den]; simp [evalS]
  | x :: xs, h =>
    rw [ball_cons'] at hi
    obtain ⟨a, s, ha, hs, rfl⟩ := hi
    rw [den]
    exact foldAnd_back env xs (fun c hc => h c (by simp [hc])) (den x) a s ((h x (by simp)).2 a ha) hs

theorem back_lor (xs : List E) (h : ∀ c ∈ xs, Back env c) : Back env (.lor xs) := by
  refine ⟨fun b hb => by simp [aval] at hb, ?_⟩
  intro i hi
  simp only [bval] at hi
  match xs, h with
  | [], _ => simp [bany] at hi; subst hi; rw [den]; simp [evalS]
  | x :: xs, h =>
    rw [bany_cons'] at hi
    obtain ⟨a, s, ha, hs, rfl⟩ := hi
    rw [den]
    exact foldOr_back env xs (fun c hc => h c (by simp [hc])) (den x) a s ((h x (by simp)).2 a ha) hs

theorem back_all (t : E) : Back env t :=
  E.rec (motive_1 := Back env) (motive_2 := fun xs => ∀ c ∈ xs, Back env c)
    (fun n => ⟨fun i h => by simp only [aval, Option.some.injEq] at h; subst h; rw [den]; exact evalS_denInt env n,
               fun b h => by simp [bval] at h⟩)
    (fun t => ⟨fun i h => by simp [aval] at h, fun b h => by simp [bval] at h⟩)
    (fun b => ⟨fun i h => by simp [aval] at h,
               fun b' h => by simp only [bval, Option.some.injEq] at h; subst h; rw [den]; simp [evalS]⟩)
    (fun n => ⟨fun i h => by simp only [aval, Option.some.injEq] at h; subst h; rw [den]; exact evalS_denInt env n,
               fun b h => by simp [bval] at h⟩)
    (fun x => ⟨fun i h => by
                 simp only [aval, envOf] at h; rw [den]; simp only [evalS]
                 split at h <;> simp_all,
               fun b h => by
                 simp only [bval, envOf] at h; rw [den]; simp only [evalS]
                 split at h <;> simp_all⟩)
    (fun par xs h => back_sum env par xs h) (fun par xs h => back_prod env par xs h)
    (fun par a b ha hb => ⟨fun i h => by
        simp only [aval] at h; rw [o2_some] at h
        obtain ⟨x, y, hx, hy, h⟩ := h
        unfold idiv at h
        split at h
        · simp at h
        · rename_i hy0
          injection h with h; subst h
          rw [den]; simp [evalS, bin, ha.1 x hx, hb.1 y hy, Val.div, Val.arith, hy0],
      fun b' h => by simp [bval] at h⟩)
    (fun par a b ha hb => ⟨fun i h => by
        simp only [aval] at h; rw [o2_some] at h
        obtain ⟨x, y, hx, hy, h⟩ := h
        rw [den]; simp [evalS, bin, ha.1 x hx, hb.1 y hy, Val.pow, h],
      fun b' h => by simp [bval] at h⟩)
    (fun o a b ha hb => ⟨fun i h => by simp [aval] at h, fun b' h => by
        simp only [bval] at h; rw [o2_some] at h
        obtain ⟨x, y, hx, hy, h⟩ := h
        injection h with h; subst h
        rw [den]; simp [evalS, bin, ha.1 x hx, hb.1 y hy, Val.cmp, Val.toRat?, cmpRat_cast]⟩)
    (fun a ha => ⟨fun i h => by simp [aval] at h, fun b' h => by
        simp only [bval, Option.map_eq_some_iff] at h
        obtain ⟨w, hw, rfl⟩ := h
        rw [den]; simp [evalS, ha.2 w hw, Val.lnot]⟩)
    (fun xs h => back_land env xs h) (fun xs h => back_lor env xs h)
    (fun c hc => by cases hc)
    (fun hd tl hh ht c hc => by
      cases hc with
      | head => exact hh
      | tail _ h => exact ht c h) t

end LokiModel.C08
